(* The replay of the commit attempts of a collecting pass repeats the commit oracle's computations.

   VamDefrag.collect_list runs the planner with the oracle att_commit on a copy e of the allocator state and afterwards
   replays the attempt log on the written-back state w.  e and w differ in the block metadata (w has the planner's TLSF
   states), in the temporaries appended to the Allocation table and in the budget counters (AddAllocation); the commit
   attempts read none of these.  [sim] is the relation that is kept; attempt_sim / commit_move_sim are the two steps. *)
From Coq Require Import ZArith List Bool Lia.
From Arsenal Require Import Util VamDev VamBlockList VamDefrag Vam VamInv VamInvUpd.
From Arsenal Require SyncMem Budget Defrag.
Import ListNotations.
Open Scope Z_scope.

(* ---- the device calls of an attempt do not look at the budget counters *)

Lemma set_bud_bud m b : m_bud (set_bud m b) = b. Proof. reflexivity. Qed.
Lemma set_bud_twice m b b' : set_bud (set_bud m b) b' = set_bud m b'. Proof. reflexivity. Qed.
Lemma set_bud_self m : set_bud m (m_bud m) = m. Proof. destruct m; reflexivity. Qed.

Lemma dev_unmap_bud m b id : dev_unmap (set_bud m b) id = set_bud (dev_unmap m id) b.
Proof. reflexivity. Qed.

Lemma sm_sub_bud m b mem s : sm_sub (set_bud m b) mem s = (set_bud (fst (sm_sub m mem s)) b, snd (sm_sub m mem s)).
Proof. unfold sm_sub. destruct (SyncMem.do_sub s) as ((s' & r) & cs). destruct cs; reflexivity. Qed.

Lemma dev_map_bud c m b id : dev_map c (set_bud m b) id = (set_bud (fst (dev_map c m id)) b, snd (dev_map c m id)).
Proof.
  unfold dev_map. cbn [m_mems set_bud m_fault m_fired]. destruct (find_mem (m_mems m) id) as [d|]; [|reflexivity].
  destruct (negb _); [reflexivity|]. destruct (_ <=? 0); [reflexivity|].
  destruct (dev_fault (m_fault m) (m_fired m) 2) as ((f1 & fired1) & r). destruct (negb (r =? 0)); reflexivity.
Qed.

Lemma sm_map_bud c m b mem s :
  sm_map c (set_bud m b) mem s = (set_bud (fst (fst (sm_map c m mem s))) b, snd (fst (sm_map c m mem s)), snd (sm_map c m mem s)).
Proof.
  unfold sm_map. rewrite dev_map_bud. destruct (dev_map c m mem) as (m1 & code). cbn [fst snd].
  destruct (SyncMem.do_map s 1 (negb (code =? 0))) as ((s' & r) & cs). destruct cs; reflexivity.
Qed.

Lemma add_allocation_bud c m h size : exists b, add_allocation c m h size = set_bud m b.
Proof. unfold add_allocation. destruct (Budget.add_alloc _ _ _ _) as ((b' & r) & cs). eauto. Qed.

Lemma nth_z_app_old' {A} (l1 l2 : list A) s : s < zlen l1 -> nth_z (l1 ++ l2) s = nth_z l1 s.
Proof. intros H. unfold nth_z. destruct (s <? 0) eqn:E; [reflexivity|]. apply nth_error_app1. unfold zlen in H. lia. Qed.

(* ---- corresponding block lists *)

Definition bsim (be bw : block) : Prop := bk_id bw = bk_id be /\ bk_mem bw = bk_mem be /\ bk_sm bw = bk_sm be.

Lemma find_block_sim le lw id : Forall2 bsim le lw ->
  match find_block le id, find_block lw id with
  | Some be, Some bw => bsim be bw
  | None, None => True
  | _, _ => False
  end.
Proof.
  induction 1 as [|be bw le lw Hb _ IH]; cbn [find_block]; [exact I|]. destruct Hb as (Ei & Em & Es). rewrite Ei.
  destruct (bk_id be =? id); [repeat split; assumption|exact IH].
Qed.

Lemma replace_block_sim le lw nbe nbw : Forall2 bsim le lw -> bsim nbe nbw -> Forall2 bsim (replace_block le nbe) (replace_block lw nbw).
Proof.
  intros H Hn. induction H as [|be bw le lw Hb HF IH]; cbn [replace_block]; [constructor|]. pose proof Hb as (Ei & _). pose proof Hn as (Ni & _).
  rewrite Ei, Ni. destruct (bk_id be =? bk_id nbe); constructor; auto.
Qed.

(* e: the oracle's copy; w: the state the log is replayed on; n: the length of the Allocation table of the copy *)
Record sim (e w : vam) (lr : lref) (n : Z) : Prop := mkSim {
  sim_m : v_m w = set_bud (v_m e) (m_bud (v_m w));
  sim_l : exists le lw, get_blist e lr = Some le /\ get_blist w lr = Some lw /\ Forall2 bsim (bl_blocks le) (bl_blocks lw);
  sim_tab : forall s, 0 <= s < n -> get_alloc w s = get_alloc e s
}.

Section WithCfg.
Variable c : vcfg.

Lemma put_block_get v lr l nb : get_blist v lr = Some l -> get_blist (put_block v lr nb) lr = Some (set_blocks l (replace_block (bl_blocks l) nb)).
Proof. intros Hg. unfold put_block. rewrite Hg. eapply get_set_blist_same; eauto. Qed.

(* one commit attempt on both sides: same outcome, the relation is kept *)
Lemma attempt_sim e w lr n slot dst :
  sim e w lr n -> Z.of_nat slot < n ->
  snd (commit_attempt c w lr slot dst) = snd (commit_attempt c e lr slot dst) /\
  sim (fst (commit_attempt c e lr slot dst)) (fst (commit_attempt c w lr slot dst)) lr n.
Proof.
  intros [Hm (le & lw & Ge & Gw & HF) Ht] Hs. unfold commit_attempt.
  rewrite (Ht (Z.of_nat slot) ltac:(lia)). unfold get_block. rewrite Ge, Gw.
  pose proof (find_block_sim _ _ dst HF) as Hfb.
  destruct (find_block (bl_blocks le) dst) as [be|]; destruct (find_block (bl_blocks lw) dst) as [bw|]; try contradiction.
  2:{ cbn [fst snd]. split; [reflexivity|]. constructor; eauto. }
  destruct Hfb as (Ei & Em & Es). rewrite Em, Es, Hm, sm_sub_bud.
  destruct (sm_sub (v_m e) (bk_mem be) (bk_sm be)) as (m1 & s1). cbn [fst snd].
  set (b := m_bud (v_m w)).
  assert (Emap : (if a_persist (get_alloc e (Z.of_nat slot)) then sm_map c (set_bud m1 b) (bk_mem be) s1 else (set_bud m1 b, s1, OK tt)) =
                 (set_bud (fst (fst (if a_persist (get_alloc e (Z.of_nat slot)) then sm_map c m1 (bk_mem be) s1 else (m1, s1, OK tt)))) b,
                  snd (fst (if a_persist (get_alloc e (Z.of_nat slot)) then sm_map c m1 (bk_mem be) s1 else (m1, s1, OK tt))),
                  snd (if a_persist (get_alloc e (Z.of_nat slot)) then sm_map c m1 (bk_mem be) s1 else (m1, s1, OK tt)))).
  { destruct (a_persist _); [apply sm_map_bud|reflexivity]. }
  rewrite Emap. destruct (if a_persist (get_alloc e (Z.of_nat slot)) then sm_map c m1 (bk_mem be) s1 else (m1, s1, OK tt)) as ((m2 & s2) & mr).
  cbn [fst snd]. split; [reflexivity|].
  assert (Gem : get_blist (set_m e m2) lr = Some le) by (rewrite get_blist_set_m; exact Ge).
  assert (Gwm : get_blist (set_m w (set_bud m2 b)) lr = Some lw) by (rewrite get_blist_set_m; exact Gw).
  constructor.
  - unfold put_block. rewrite Gem, Gwm, !set_blist_m. reflexivity.
  - eexists _, _. split; [apply (put_block_get _ _ _ _ Gem)|]. split; [apply (put_block_get _ _ _ _ Gwm)|].
    cbn [bl_blocks set_blocks]. apply replace_block_sim; [exact HF|]. unfold bsim. cbn. rewrite Ei. auto.
  - intros s Hr. unfold get_alloc, put_block. rewrite Gem, Gwm, !set_blist_tab. cbn [v_tab set_m]. apply (Ht s Hr).
Qed.

Lemma commit_attempt_tab w lr slot dst : v_tab (fst (commit_attempt c w lr slot dst)) = v_tab w.
Proof.
  unfold commit_attempt. destruct (get_block w lr dst) as [b|]; [|reflexivity]. destruct (sm_sub _ _ _) as (m1 & s1).
  destruct (if a_persist _ then _ else _) as ((m2 & s2) & mr). cbn [fst]. unfold put_block. destruct (get_blist _ _); [rewrite set_blist_tab|]; reflexivity.
Qed.

(* commit_move is the attempt followed by the registration of the temporary and AddAllocation *)
Lemma commit_move_split w lr mv :
  commit_move c w lr mv =
  match get_blist w lr, get_block w lr (Defrag.m_dstblk mv) with
  | Some l, Some b =>
    if negb (Z.of_nat (Defrag.m_tmp mv) =? zlen (v_tab w)) then (w, STUCK)
    else
      let src := get_alloc w (Z.of_nat (Defrag.m_src mv)) in
      let '(v2, mr) := commit_attempt c w lr (Defrag.m_src mv) (Defrag.m_dstblk mv) in
      match mr with
      | OK _ =>
        if a_persist src && negb (a_mapallowed src) then (v2, PANIC)
        else
          let tmp := mkAlloc true 1 (Defrag.m_size mv) (a_align src) (bl_type l) (a_sub src) (a_persist src) (a_mapallowed src) lr
                             (Defrag.m_dstblk mv) (Defrag.m_dstoff mv) (bk_mem b) SyncMem.sm_init true in
          let v3 := set_tab v2 (v_tab v2 ++ [tmp]) in
          (set_m v3 (add_allocation c (v_m v3) (type_heap c (bl_type l)) (Defrag.m_size mv)), OK tt)
      | PANIC => (v2, PANIC)
      | _ => (v2, STUCK)
      end
  | _, _ => (w, STUCK)
  end.
Proof.
  unfold commit_move, commit_attempt. destruct (get_blist w lr) as [l|]; [|reflexivity].
  destruct (get_block w lr (Defrag.m_dstblk mv)) as [b|]; [|reflexivity]. destruct (negb _); [reflexivity|].
  destruct (sm_sub _ _ _) as (m1 & s1). destruct (if a_persist _ then _ else _) as ((m2 & s2) & mr). reflexivity.
Qed.

(* a commit whose attempt the oracle granted: it succeeds on the replay side, and the relation is kept *)
Lemma commit_move_sim e w lr n mv :
  sim e w lr n -> Z.of_nat (Defrag.m_src mv) < n -> n <= zlen (v_tab w) ->
  snd (commit_attempt c e lr (Defrag.m_src mv) (Defrag.m_dstblk mv)) = OK tt ->
  Z.of_nat (Defrag.m_tmp mv) = zlen (v_tab w) ->
  (a_persist (get_alloc e (Z.of_nat (Defrag.m_src mv))) = true -> a_mapallowed (get_alloc e (Z.of_nat (Defrag.m_src mv))) = true) ->
  snd (commit_move c w lr mv) = OK tt /\
  sim (fst (commit_attempt c e lr (Defrag.m_src mv) (Defrag.m_dstblk mv))) (fst (commit_move c w lr mv)) lr n.
Proof.
  intros S Hs Hn Hok Et Hpa.
  destruct (attempt_sim e w lr n (Defrag.m_src mv) (Defrag.m_dstblk mv) S Hs) as (Er & S1).
  pose proof S as [_ (le & lw & Ge & Gw & HF) Ht].
  rewrite commit_move_split. rewrite Gw.
  assert (Hgb : exists bw, get_block w lr (Defrag.m_dstblk mv) = Some bw).
  { unfold get_block. rewrite Gw. pose proof (find_block_sim _ _ (Defrag.m_dstblk mv) HF) as Hfb.
    unfold commit_attempt, get_block in Hok. rewrite Ge in Hok.
    destruct (find_block (bl_blocks le) (Defrag.m_dstblk mv)) as [be|]; [|discriminate].
    destruct (find_block (bl_blocks lw) (Defrag.m_dstblk mv)) as [bw|]; [eauto|contradiction]. }
  destruct Hgb as (bw & ->). rewrite Et, Z.eqb_refl. cbn [negb]. cbn zeta.
  rewrite (Ht (Z.of_nat (Defrag.m_src mv)) ltac:(lia)).
  pose proof (commit_attempt_tab w lr (Defrag.m_src mv) (Defrag.m_dstblk mv)) as Etab.
  destruct (commit_attempt c w lr (Defrag.m_src mv) (Defrag.m_dstblk mv)) as (w2 & mr). cbn [fst snd] in *.
  rewrite Hok in Er. subst mr.
  destruct (a_persist (get_alloc e (Z.of_nat (Defrag.m_src mv)))) eqn:Ep; [rewrite (Hpa eq_refl)|]; cbn [negb andb fst snd]; (split; [reflexivity|]).
  all: destruct S1 as [Hm1 (le1 & lw1 & Ge1 & Gw1 & HF1) Ht1];
       match goal with |- sim _ (set_m ?v3 (add_allocation c ?m ?h ?sz)) _ _ => destruct (add_allocation_bud c m h sz) as (b' & ->) end;
       constructor; cbn [v_m set_m set_tab];
       [rewrite Hm1; reflexivity
       |exists le1, lw1; split; [exact Ge1|]; split; [rewrite get_blist_set_m, get_blist_set_tab; exact Gw1|exact HF1]
       |intros s Hr; unfold get_alloc; cbn [v_tab set_m set_tab]; rewrite nth_z_app_old' by (rewrite Etab; lia); apply (Ht1 s Hr)].
Qed.

End WithCfg.
