(* VamPtrValue.v — C14: the VALUE of the pointer Allocation.Map hands out, with an abstract base per mapping.
     reachP                        the histories of reachDB (API calls and defragmentation calls) with the ghost bases
     pointer_value_stable(_defrag) (i) a call does not change the pointer of a user that has it before and after the call and
                                   is not relocated by it
     pointer_value_after_map       (ii) the value Map returns
     relocated_pointer_value       (iii) the pointer of an Allocation that EndDefragPass moved *)
From Coq Require Import ZArith List Bool Lia Permutation.
From Arsenal Require Import Util Budget VamDev VamBlockList VamDefrag Vam VamInvMeta VamInv VamInvUpd VamInvDev VamInvStep VamInvStep2.
From Arsenal Require Import VamMap VamInvThm VamProps VamAcct VamAcctStep VamAcctThm VamMapThm VamBal VamBalThm.
From Arsenal Require Import VamDefragThm VamDefragAcct VamDefragMap VamDefragBal VamPtrStable VamPtrStep.
From Arsenal Require VamPointer.
Import ListNotations.
Open Scope Z_scope.

(* ---------------------------------------------------------------- the value of the pointer *)

(* Ghost: the base of the current mapping of every memory object, as an abstract token.  Every successful vkMapMemory hands
   out a token never seen before (the driver may map the object anywhere); nothing else changes a token.  (What a token is
   worth while the object is not mapped is immaterial: VamPointer.target_ok says when the object is mapped.) *)
Definition bases := ((Z -> Z) * Z)%type.

Definition bapply (Bn : bases) (k : call) : bases :=
  match k with
  | CMap mem _ _ r => if r =? 0 then (fun x => if x =? mem then snd Bn else fst Bn x, snd Bn + 1) else Bn
  | _ => Bn
  end.

Definition brun (Bn : bases) (calls : list call) : bases := fold_left bapply calls Bn.

(* Allocation.Map returns the base of the mapping of the Allocation's memory object plus the Allocation's offset in it *)
Definition ptr (v : vam) (B : Z -> Z) (a : alloc) : option Z :=
  match find_offset v a with Some o => Some (B (a_mem a) + o) | None => None end.

Lemma brun_keeps M calls : forall Bn, (forall off size, ~ In (CMap M off size 0) calls) -> fst (brun Bn calls) M = fst Bn M.
Proof.
  induction calls as [|k tl IH]; intros Bn H; cbn [brun fold_left]; [reflexivity|].
  fold (brun (bapply Bn k) tl). rewrite IH by (intros off size Hin; apply (H off size); right; exact Hin).
  destruct k; cbn [bapply]; try reflexivity. destruct (result =? 0) eqn:E; [|reflexivity]. cbn [fst]. destruct (M =? mem) eqn:E2; [|reflexivity].
  exfalso. apply Z.eqb_eq in E, E2. subst. apply (H off size). left. reflexivity.
Qed.

Lemma brun_counter calls : forall Bn, snd Bn <= snd (brun Bn calls).
Proof.
  induction calls as [|k tl IH]; intros Bn; cbn [brun fold_left]; [lia|]. fold (brun (bapply Bn k) tl). specialize (IH (bapply Bn k)).
  destruct k; cbn [bapply] in *; try exact IH. destruct (result =? 0); cbn [snd] in *; lia.
Qed.

Lemma brun_fresh calls : forall Bn, (forall x, fst Bn x < snd Bn) -> forall x, fst (brun Bn calls) x < snd (brun Bn calls).
Proof.
  induction calls as [|k tl IH]; intros Bn H; cbn [brun fold_left]; [exact H|]. fold (brun (bapply Bn k) tl). apply IH.
  destruct k; cbn [bapply]; try exact H. destruct (result =? 0); [|exact H]. cbn [fst snd]. intros x. destruct (x =? mem); [lia|specialize (H x); lia].
Qed.

Section Value.
Variable c : vcfg.
Hypothesis Ha : cfg_acct c.

(* the histories of reachDB with the ghost bases *)
Inductive reachP : vam -> option dfrun -> (Z -> Z) -> bases -> Prop :=
| reachP_new nslots v : vam_new c nslots = OK v -> Z.of_nat nslots <= 4194304 -> reachP v None (fun _ => 0) (fun _ => 0, 1)
| reachP_step v run G Bn o f v' r calls :
    reachP v run G Bn -> op_avoids run o -> op_ok v o -> op_dom o -> op_bal G o -> step c v o f = (v', r, calls) -> r <> RPanic -> r <> RStuck ->
    reachP v' run (gstep G o r) (brun Bn calls)
| reachP_dstep v run G Bn o f v' run' r calls dr :
    reachP v run G Bn -> dop_ok v run o -> dop_bal G run o -> dstep c v run o f = (v', run', r, calls, dr) -> r <> RPanic -> r <> RStuck ->
    zlen (v_tab v') <= 4194304 -> reachP v' run' G (brun Bn calls).

Lemma reachP_reachDB v run G Bn : reachP v run G Bn -> reachDB c v run G.
Proof. induction 1; [eapply reachDB_new; eauto|eapply reachDB_step; eauto|eapply reachDB_dstep; eauto]. Qed.

(* a token is never handed out twice *)
Theorem bases_fresh v run G Bn : reachP v run G Bn -> forall x, fst Bn x < snd Bn.
Proof. induction 1; [intros x; cbn; lia|apply brun_fresh; assumption|apply brun_fresh; assumption]. Qed.

Lemma ptr_same v v' B B' a a' : a_mem a' = a_mem a -> find_offset v' a' = find_offset v a -> B' (a_mem a) = B (a_mem a) -> ptr v' B' a' = ptr v B a.
Proof. intros E1 E2 E3. unfold ptr. rewrite E2, E1, E3. reflexivity. Qed.

(* (i) an API call does not change the pointer of a user that has it before and after the call (an outstanding user Map, or
   persistently mapped) and is not relocated by it *)
Theorem pointer_value_stable v run G Bn o f v' r calls s a a' :
  reachP v run G Bn -> op_avoids run o -> op_ok v o -> op_dom o -> op_bal G o -> step c v o f = (v', r, calls) -> r <> RPanic -> r <> RStuck ->
  slot_is v s a -> (1 <= G s \/ a_persist a = true) -> slot_is v' s a' -> (1 <= gstep G o r s \/ a_persist a' = true) ->
  a_mem a' = a_mem a -> find_offset v' a' = find_offset v a ->
  ptr v' (fst (brun Bn calls)) a' = ptr v (fst Bn) a.
Proof.
  intros R Hav Hok Hd Hbal Hs Hp Hk Sa Hu Sa' Hu' Em Eo. apply ptr_same; auto. apply brun_keeps.
  destruct (step_keeps_mapping c Ha v run G o f v' r calls s s (a_mem a) (reachP_reachDB _ _ _ _ R) Hav Hok Hd Hbal Hs Hp Hk) as (_ & _ & H).
  - exists a. auto.
  - exists a'. auto.
  - intros off size. apply H.
Qed.

Theorem pointer_value_stable_defrag v run G Bn o f v' run' r calls dr s a a' :
  reachP v run G Bn -> dop_ok v run o -> dop_bal G run o -> dstep c v run o f = (v', run', r, calls, dr) -> r <> RPanic -> r <> RStuck ->
  zlen (v_tab v') <= 4194304 ->
  slot_is v s a -> (1 <= G s \/ a_persist a = true) -> slot_is v' s a' -> (1 <= G s \/ a_persist a' = true) ->
  a_mem a' = a_mem a -> find_offset v' a' = find_offset v a ->
  ptr v' (fst (brun Bn calls)) a' = ptr v (fst Bn) a.
Proof.
  intros R Hok Hbal Hs Hp Hk Hz Sa Hu Sa' Hu' Em Eo. apply ptr_same; auto. apply brun_keeps.
  destruct (dstep_keeps_mapping c Ha v run G o f v' run' r calls dr s s (a_mem a) (reachP_reachDB _ _ _ _ R) Hok Hbal Hs Hp Hk Hz) as (_ & _ & H).
  - exists a. auto.
  - exists a'. auto.
  - intros off size. apply H.
Qed.

(* (iii) relocation: after a defragmentation call (EndDefragPass) an Allocation s that now lives in the memory object of a
   persistently mapped (temporary) Allocation t of before has the pointer base-of-that-object + its new offset, the base
   being the one the object's mapping already had: the destination was mapped by BeginDefragPass and stayed mapped *)
Theorem relocated_pointer_value v run G Bn o f v' run' r calls dr t at_ s a' :
  reachP v run G Bn -> dop_ok v run o -> dop_bal G run o -> dstep c v run o f = (v', run', r, calls, dr) -> r <> RPanic -> r <> RStuck ->
  zlen (v_tab v') <= 4194304 ->
  slot_is v t at_ -> (1 <= G t \/ a_persist at_ = true) -> slot_is v' s a' -> (1 <= G s \/ a_persist a' = true) -> a_mem a' = a_mem at_ ->
  ptr v' (fst (brun Bn calls)) a' = match find_offset v' a' with Some o => Some (fst Bn (a_mem at_) + o) | None => None end.
Proof.
  intros R Hok Hbal Hs Hp Hk Hz St Hu Sa' Hu' Em. unfold ptr. rewrite Em. rewrite brun_keeps; [reflexivity|].
  destruct (dstep_keeps_mapping c Ha v run G o f v' run' r calls dr t s (a_mem at_) (reachP_reachDB _ _ _ _ R) Hok Hbal Hs Hp Hk Hz) as (_ & _ & H).
  - exists at_. auto.
  - exists a'. auto.
  - intros off size. apply H.
Qed.

(* (ii) Allocation.Map: the value is the base of the current mapping of the Allocation's memory object plus the Allocation's
   offset; the mapping is the one this call made (a token nobody has seen) if the call issued a successful vkMapMemory, and
   otherwise the one that was there; every Allocation on that memory object gets its pointer from the same base *)
Theorem pointer_value_after_map v run G Bn s f v' calls :
  reachP v run G Bn -> op_avoids run (OMap s) -> op_ok v (OMap s) -> step c v (OMap s) f = (v', ROk, calls) ->
  let a := get_alloc v s in let B' := fst (brun Bn calls) in
  exists a' o, slot_is v' s a' /\ a_mem a' = a_mem a /\ find_offset v' a' = Some o /\ find_offset v a = Some o /\
    ptr v' B' a' = Some (B' (a_mem a) + o) /\ VamPointer.target_ok v' s a' /\
    ((exists off size, In (CMap (a_mem a) off size 0) calls) /\ B' (a_mem a) = snd Bn /\ (forall x, fst Bn x < B' (a_mem a))
     \/ (forall off size, ~ In (CMap (a_mem a) off size 0) calls) /\ B' (a_mem a) = fst Bn (a_mem a)) /\
    (forall s2 a2, slot_is v' s2 a2 -> a_mem a2 = a_mem a ->
       ptr v' B' a2 = match find_offset v' a2 with Some o2 => Some (B' (a_mem a) + o2) | None => None end).
Proof.
  intros R Hav Hok Hs. pose proof (reachP_reachDB _ _ _ _ R) as RB.
  pose proof (VamPointer.map_ok_target_defrag c Ha v run G s f v' calls RB Hav Hok Hs) as MT. cbn zeta in MT.
  destruct MT as (Sa & Hma & Hcalls & a' & Sa' & Em & Esz & Et & Tok).
  cbn zeta. set (a := get_alloc v s) in *. set (M := a_mem a) in *.
  destruct Tok as (d & o & Emt & Tok'). unfold VamPointer.map_target in Emt, Et.
  destruct (find_offset v' a') as [o'|] eqn:Eo'; [|discriminate]. injection Emt as <-.
  destruct (find_offset v a) as [o0|] eqn:Eo0; [|discriminate]. injection Et as _ <-.
  exists a', o'. split; [exact Sa'|]. split; [exact Em|]. split; [exact Eo'|]. split; [reflexivity|].
  split; [unfold ptr; rewrite Eo', Em; reflexivity|]. split; [exists d, o'; unfold VamPointer.map_target; rewrite Eo'; auto|].
  split.
  - destruct Hcalls as [->|(code & ->)].
    + right. split; [intros off size []|reflexivity].
    + destruct (Z.eq_dec code 0) as [->|Hne].
      * left. split; [exists 0, (-1); left; reflexivity|]. cbn. fold M. rewrite Z.eqb_refl. split; [reflexivity|apply (bases_fresh _ _ _ _ R)].
      * right. split; [intros off size [E|[]]; injection E as _ _ E; congruence|]. cbn. destruct (code =? 0) eqn:E; [apply Z.eqb_eq in E; contradiction|reflexivity].
  - intros s2 a2 S2 E2. unfold ptr. rewrite E2. reflexivity.
Qed.

End Value.

Print Assumptions pointer_value_stable.
Print Assumptions pointer_value_stable_defrag.
Print Assumptions pointer_value_after_map.
Print Assumptions relocated_pointer_value.
