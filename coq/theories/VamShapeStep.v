(* VamShapeStep.v — the block-count policies over every API call (third pass, upper layer):
     LInv v : every block list holds between minBlockCount and maxBlockCount blocks (C11 pool_block_bounds)
              and at most max(1, minBlockCount) of them are empty (C20 retention_bound).
   The functions below memoryBlockList.Allocate / free / Destroy / CreateMinBlocks are in VamShape.v; here the
   allocator layer is traversed.  Only the structural invariant of the first pass is needed (VamInvStep2.v
   supplies it for the intermediate states), so the result holds for `reach` without the accounting domain. *)
From Coq Require Import ZArith List Bool Lia Permutation.
From Arsenal Require Import Util VamDev VamBlockList Vam VamInvMeta VamInv VamInvUpd VamInvDev VamInvStep VamInvStep2 VamInvThm VamProps VamShape.
Import ListNotations.
Open Scope Z_scope.

(* the policy figures of two lists agree *)
Definition pol_eq (l l' : blist) : Prop :=
  bl_min l' = bl_min l /\ bl_max l' = bl_max l /\ zlen (bl_blocks l') = zlen (bl_blocks l) /\ cnt_empty (bl_blocks l') = cnt_empty (bl_blocks l).

Definition psame (v v' : vam) : Prop := forall lr, orel pol_eq (get_blist v lr) (get_blist v' lr).

Lemma pol_eq_refl l : pol_eq l l.
Proof. unfold pol_eq. tauto. Qed.

Lemma psame_refl v : psame v v.
Proof. intros lr. unfold orel. destruct (get_blist v lr); [apply pol_eq_refl|exact I]. Qed.

Lemma psame_trans a b d : psame a b -> psame b d -> psame a d.
Proof.
  intros H1 H2 lr. specialize (H1 lr). specialize (H2 lr). unfold orel, pol_eq in *.
  destruct (get_blist a lr), (get_blist b lr), (get_blist d lr); try contradiction; auto.
  destruct H1 as (A1 & A2 & A3 & A4), H2 as (B1 & B2 & B3 & B4). repeat split; congruence.
Qed.

Lemma psame_eq v v' : (forall lr, get_blist v' lr = get_blist v lr) -> psame v v'.
Proof. intros H lr. rewrite H. unfold orel. destruct (get_blist v lr); [apply pol_eq_refl|exact I]. Qed.

Lemma LInv_psame v v' : LInv v -> psame v v' -> LInv v'.
Proof.
  intros HL HP lr l' Hg'. specialize (HP lr). rewrite Hg' in HP. unfold orel in HP. destruct (get_blist v lr) as [l|] eqn:Hg; [|contradiction].
  destruct HP as (A1 & A2 & A3 & A4). destruct (HL _ _ Hg) as (B1 & B2). unfold LB, RB in *. rewrite A1, A2, A3, A4. auto.
Qed.

Lemma psame_set_m v m : psame v (set_m v m).
Proof. apply psame_eq. intros. apply get_blist_set_m. Qed.
Lemma psame_set_alloc v s a : psame v (set_alloc v s a).
Proof. apply psame_eq. intros. apply get_blist_set_alloc. Qed.
Lemma psame_set_dedlist v lr d : psame v (set_dedlist v lr d).
Proof. apply psame_eq. intros. apply get_blist_set_dedlist. Qed.

(* a block is replaced by one with the same metadata *)
Lemma psame_put_block v lr b sm' :
  (forall l, get_blist v lr = Some l -> NoDup (map bk_id (bl_blocks l))) ->
  get_block v lr (bk_id b) = Some b -> psame v (put_block v lr (mkBlock (bk_id b) (bk_mem b) sm' (bk_meta b))).
Proof.
  intros HI Hgb. destruct (get_block_in _ _ _ _ Hgb) as (l & Hg & Hb & _). unfold put_block. rewrite Hg.
  intros lr0. destruct (lref_eq_dec lr0 lr) as [->|Hne].
  - rewrite Hg, (get_set_blist_same _ _ _ _ Hg). unfold orel, pol_eq. cbn [bl_min bl_max bl_blocks set_blocks].
    destruct (cnt_replace (bl_blocks l) b (mkBlock (bk_id b) (bk_mem b) sm' (bk_meta b)) (HI _ Hg) Hb eq_refl) as (C1 & Z1).
    rewrite C1, Z1. unfold emp. cbn [bk_meta]. repeat split; auto. destruct (meta_is_empty (bk_meta b)); lia.
  - rewrite get_set_blist_other by congruence. unfold orel. destruct (get_blist v lr0); [apply pol_eq_refl|exact I].
Qed.

Section WithCfg.
Variable c : vcfg.
Hypothesis Hc : cfg_ok c.

(* ---------------------------------------------------------------- functions that leave the block lists alone *)

Lemma ded_page_psame v lr ty size sub doMap allowed s ded : psame v (fst (allocate_dedicated_page c v lr ty size sub doMap allowed s ded)).
Proof.
  unfold allocate_dedicated_page. destruct (alloc_vk c (v_m v) ty size ded) as (m1 & r). destruct r as [mem|code| |]; try apply psame_set_m.
  destruct (if doMap then _ else _) as ((m2 & s2) & mr). destruct mr as [[]|code| |]; try apply psame_set_m.
  - destruct (_ && _); [apply psame_set_m|]. cbn [fst].
    eapply psame_trans; [apply psame_set_m|]. eapply psame_trans; [apply psame_set_alloc|apply psame_set_m].
  - destruct (free_vk c m2 ty size mem) as (m3 & fr). apply psame_set_m.
Qed.

Lemma dedicated_loop_psame slots : forall v lr ty size sub doMap allowed done ded,
  psame v (fst (fst (dedicated_loop c v lr ty size sub doMap allowed slots done ded))).
Proof.
  induction slots as [|s tl IH]; intros v lr ty size sub doMap allowed done ded; cbn [dedicated_loop]; [apply psame_refl|].
  pose proof (ded_page_psame v lr ty size sub doMap allowed s ded) as H.
  destruct (allocate_dedicated_page c v lr ty size sub doMap allowed s ded) as (v1 & r). cbn [fst] in H.
  destruct r as [[]|code| |]; cbn [fst]; try exact H. eapply psame_trans; [exact H|apply IH].
Qed.

Lemma dedicated_rollback_psame done : forall v ty, psame v (fst (dedicated_rollback c v ty done)).
Proof.
  induction done as [|s tl IH]; intros v ty; cbn [dedicated_rollback]; [apply psame_refl|].
  destruct (free_vk c (v_m v) ty _ _) as (m1 & fr). destruct fr as [[]|code| |]; try apply psame_set_m.
  destruct (remove_allocation c m1 _ _) as (m2 & rr). destruct rr as [[]|code| |]; try apply psame_set_m.
  eapply psame_trans; [|apply IH]. eapply psame_trans; [apply psame_set_m|apply psame_set_alloc].
Qed.

Lemma allocate_dedicated_psame v lr ty size sub doMap allowed slots ded :
  psame v (fst (allocate_dedicated c v lr ty size sub doMap allowed slots ded)).
Proof.
  unfold allocate_dedicated. destruct slots as [|s0 tl0] eqn:Es; [apply psame_refl|]. rewrite <- Es.
  pose proof (dedicated_loop_psame slots v lr ty size sub doMap allowed [] ded) as H.
  destruct (dedicated_loop c v lr ty size sub doMap allowed slots [] ded) as ((v1 & r) & done). cbn [fst] in H.
  destruct r as [[]|code| |]; cbn [fst]; try exact H.
  - eapply psame_trans; [exact H|apply psame_set_dedlist].
  - pose proof (dedicated_rollback_psame done v1 ty) as H2. destruct (dedicated_rollback c v1 ty done) as (v2 & rr). cbn [fst] in *.
    eapply psame_trans; eauto.
Qed.

Lemma free_dedicated_psame v s : psame v (fst (free_dedicated c v s)).
Proof.
  unfold free_dedicated. destruct (negb _); [apply psame_refl|].
  destruct (free_vk c _ _ _ _) as (m1 & fr). destruct fr as [[]|code| |]; cbn [fst];
    try (eapply psame_trans; [apply psame_set_dedlist|apply psame_set_m]).
  destruct (remove_allocation c m1 _ _) as (m2 & rr). cbn [fst]. eapply psame_trans; [apply psame_set_dedlist|apply psame_set_m].
Qed.

(* ---------------------------------------------------------------- allocateMemoryOfType and above *)

Definition L_post (v' : vam) (r : out unit) : Prop := match r with OK _ | ER _ => LInv v' | _ => True end.

Lemma alloc_of_type_L v X lr l ty size align dedPref flags sub slots ded :
  VamInvU c v [] X -> LInv v -> get_blist v lr = Some l -> bl_type l = ty -> align = 0 \/ Bits.pow2 align ->
  NoDup slots -> dead_slots v slots ->
  let '(v', r) := alloc_of_type c v lr ty size align dedPref flags sub slots ded in L_post v' r.
Proof.
  intros HI HL Hg Hty Hal Hnd Hdead. unfold alloc_of_type. destruct slots as [|s0 tl0] eqn:Eslots; [exact I|]. rewrite <- Eslots in *.
  rewrite Hg.
  set (f1 := if fl flags F_MAPPED && negb (host_visible c ty) then fl_clear flags F_MAPPED else flags).
  pose proof (calc_type_params_spec c v ty size (zlen slots) flags) as Hctp. fold f1 in Hctp.
  destruct (calc_type_params c v ty size (zlen slots) flags) as (v1 & fr).
  destruct Hctp as (m1 & -> & Hm1 & Hfr).
  assert (I1 : VamInvU c (set_m v m1) [] X) by (apply VamInvU_mach_same; auto).
  assert (L1 : LInv (set_m v m1)) by (eapply LInv_psame; [exact HL|apply psame_set_m]).
  assert (Hg1 : get_blist (set_m v m1) lr = Some l) by (rewrite get_blist_set_m; auto).
  assert (Hdead1 : dead_slots (set_m v m1) slots) by exact Hdead.
  destruct fr as [flags'|code| |]; try contradiction; [|exact L1]. subst flags'.
  assert (Hded : forall w, LInv w -> let '(v', r) := allocate_dedicated c w lr ty size sub (fl f1 F_MAPPED) (mapping_allowed f1) slots ded in L_post v' r).
  { intros w Lw. pose proof (allocate_dedicated_psame w lr ty size sub (fl f1 F_MAPPED) (mapping_allowed f1) slots ded) as P.
    destruct (allocate_dedicated c w lr ty size sub (fl f1 F_MAPPED) (mapping_allowed f1) slots ded) as (v' & r). cbn [fst] in P.
    destruct r; cbn; auto; eapply LInv_psame; eauto. }
  destruct (fl f1 F_DEDICATED); [apply Hded; auto|].
  set (canDed := negb (fl f1 F_NEVER) && (negb match lr with LPool _ => true | LDef _ => false end || negb (bl_explicit l))).
  match goal with |- context [if canDed then ?x else dedPref] => set (dp := if canDed then x else dedPref) end.
  assert (Hearly : let '(v2, early) :=
            (if canDed && dp then
               let '(v', r) := allocate_dedicated c (set_m v m1) lr ty size sub (fl f1 F_MAPPED) (mapping_allowed f1) slots ded in
               match r with OK _ => (v', Some (OK tt)) | ER _ => (v', None) | other => (v', Some other) end
             else (set_m v m1, None)) in
          match early with
          | Some r => L_post v2 r
          | None => VamInvU c v2 [] X /\ LInv v2 /\ dead_slots v2 slots /\ exists l2, get_blist v2 lr = Some l2 /\ bl_type l2 = ty
          end).
  { destruct (canDed && dp).
      pose proof (allocate_dedicated_inv c (set_m v m1) X lr l ty size sub (fl f1 F_MAPPED) (mapping_allowed f1) slots ded I1 Hg1 Hty Hnd Hdead1) as P.
      specialize (Hded (set_m v m1) L1).
      destruct (allocate_dedicated c (set_m v m1) lr ty size sub (fl f1 F_MAPPED) (mapping_allowed f1) slots ded) as (v' & r).
      destruct r as [[]|code| |]; auto. cbn in P, Hded. destruct P as (A & B & C0 & D). split; [auto|]. split; [auto|]. split; [auto|].
      destruct (lf'_some _ _ C0 _ _ Hg1) as (l2 & G2 & C2). exists l2. split; [auto|]. destruct C2 as (C2 & _). congruence.
    - split; [auto|]. split; [auto|]. split; [auto|]. exists l. auto. }
  destruct (if canDed && dp then _ else _) as (v2 & early).
  destruct early as [r|]; [exact Hearly|].
  destruct Hearly as (I2 & L2 & D2 & l2 & G2 & Ty2).
  pose proof (bl_allocate_inv c Hc v2 [] X lr slots size align f1 sub I2 Hal Hnd D2) as BA.
  pose proof (bl_allocate_L c Hc v2 [] X lr slots size align f1 sub I2 L2 Hal Hnd D2) as BL.
  destruct (bl_allocate c v2 lr slots size align f1 sub) as (v3 & br).
  destruct br as [[]|bcode| |]; auto.
  destruct BA as ((A & B & C0) & D).
  destruct (canDed && negb dp); [|exact BL].
  destruct (heap_budget c (v_m v3) (type_heap c ty)) as ((m4 & usage) & budget).
  assert (L4 : LInv (set_m v3 m4)) by (eapply LInv_psame; [exact BL|apply psame_set_m]).
  destruct (budget <? _); [exact L4|]. apply Hded. exact L4.
Qed.

Lemma type_loop_L fuel : forall v X bits ty size align dedPref usage flags req pref ctb sub slots ded bufimg,
  VamInvU c v [] X -> LInv v -> align = 0 \/ Bits.pow2 align -> NoDup slots -> dead_slots v slots ->
  let '(v', r) := type_loop c fuel v bits ty size align dedPref usage flags req pref ctb sub slots ded bufimg in L_post v' r.
Proof.
  induction fuel as [|f IH]; intros v X bits ty size align dedPref usage flags req pref ctb sub slots ded bufimg HI HL Hal Hnd Hdead;
    cbn [type_loop]; [exact I|].
  destruct (get_blist v (LDef ty)) as [l|] eqn:Hg; [|exact HL].
  pose proof (alloc_of_type_inv c Hc v X (LDef ty) l ty size align dedPref flags sub slots ded HI Hg (vi_def_type _ _ _ _ HI _ _ Hg) Hal Hnd Hdead) as P.
  pose proof (alloc_of_type_L v X (LDef ty) l ty size align dedPref flags sub slots ded HI HL Hg (vi_def_type _ _ _ _ HI _ _ Hg) Hal Hnd Hdead) as Q.
  destruct (alloc_of_type c v (LDef ty) ty size align dedPref flags sub slots ded) as (v1 & r).
  destruct r as [[]|code| |]; auto.
  destruct (code =? VK_UNKNOWN); [exact Q|].
  destruct P as (I1 & T1 & L1 & D1).
  destruct (find_type_index c (v_global v1) _ usage flags req pref ctb bufimg) as [ty'|]; [|exact Q].
  apply IH with (X := X); auto.
Qed.

Lemma multi_allocate_L v X size align typeBits reqDed prefDed ded bufimg usage flags0 req pref ctb pool sub slots :
  VamInvU c v [] X -> LInv v -> NoDup slots -> dead_slots v slots ->
  let '(v', r) := multi_allocate c v size align typeBits reqDed prefDed ded bufimg usage flags0 req pref ctb pool sub slots in L_post v' r.
Proof.
  intros HI HL Hnd Hdead. unfold multi_allocate.
  destruct (is_pow2_or_zero align) eqn:Ea; cbn [negb]; [|exact HL].
  pose proof (pow2_or_zero_spec _ Ea) as Hal.
  destruct (size <? 1); [exact HL|].
  destruct (calc_params usage flags0 reqDed _) as [flags|code| |]; [|exact HL|exact I|exact I].
  destruct pool as [uid|].
  - destruct (get_blist v (LPool uid)) as [l|] eqn:Hg; [|exact I].
    apply (alloc_of_type_L v X (LPool uid) l); auto.
  - destruct (find_type_index c (v_global v) typeBits usage flags req pref ctb bufimg) as [ty|]; [|exact HL].
    apply type_loop_L with (X := X); auto.
Qed.

(* ---------------------------------------------------------------- freeing *)

Lemma multi_free_L slots : forall v X,
  VamInvU c v [] X -> LInv v -> NoDup slots -> live_slots v X slots ->
  let '(v', r) := multi_free c v slots in L_post v' r.
Proof.
  induction slots as [|s tl IH]; intros v X HI HL Hnd Hlive; cbn [multi_free]; [exact HL|].
  inversion Hnd as [|? ? Hns Hnd']; subst.
  destruct (Hlive s (or_introl eq_refl)) as (HnX & a & Sa).
  assert (Hstep : let '(v1, r) := free_single c v s in
            match r with
            | OK _ => let v2 := set_alloc v1 s (set_allocated (get_alloc v1 s) false) in
                      VamInvU c v2 [] X /\ tab_frame v v2 [s] /\ LInv v2
            | ER _ => LInv v1
            | _ => True end).
  { unfold free_single. rewrite (get_alloc_slot _ _ _ Sa).
    destruct (vi_slots _ _ _ _ HI s a Sa HnX) as [(K & _)|(K & _)]; rewrite K; cbn [Z.eqb Pos.eqb].
    - pose proof (free_block_slot_inv c v [] X s a false HI Sa HnX K) as F.
      pose proof (bl_free_L c v [] X s a HI HL Sa HnX K) as FL.
      destruct (bl_free c v (a_lref a) s false) as (v1 & r). destruct r as [[]|code| |]; auto.
      destruct F as ((A & B & C0) & D). cbn zeta. split; [auto|]. split; [auto|]. eapply LInv_psame; [exact FL|apply psame_set_alloc].
    - pose proof (free_ded_slot_inv c v X s a HI Sa K) as F. pose proof (free_dedicated_psame v s) as FP.
      destruct (free_dedicated c v s) as (v1 & r). cbn [fst] in FP. destruct r as [[]|code| |]; auto; [|contradiction].
      cbn zeta in F |- *. destruct F as (A & B & _). split; [auto|]. split; [auto|].
      eapply LInv_psame; [exact HL|]. eapply psame_trans; [exact FP|apply psame_set_alloc]. }
  destruct (free_single c v s) as (v1 & r). destruct r as [[]|code| |]; auto.
  cbn zeta in Hstep. set (v2 := set_alloc v1 s (set_allocated (get_alloc v1 s) false)) in *.
  destruct Hstep as (I2 & T2 & L2).
  apply (IH v2 X I2 L2 Hnd').
  intros x Hx. destruct (Hlive x (or_intror Hx)) as (HX & b & Sb). split; [auto|]. exists b.
  apply (slot_is_frame _ _ _ _ _ T2); auto. intros [<-|[]]. contradiction.
Qed.

Lemma allocation_free_L v s : VamInvU c v [] [] -> LInv v -> let '(v', r) := allocation_free c v s in L_post v' r.
Proof.
  intros HI HL. unfold allocation_free. destruct (a_allocated (get_alloc v s)) eqn:Ea; cbn [negb]; [|exact HL].
  assert (Hnd : NoDup [s]) by (constructor; [intros []|constructor]).
  assert (Hlive : live_slots v [] [s]) by (intros x [<-|[]]; split; [intros []|exists (get_alloc v s); apply get_alloc_allocated; auto]).
  apply (multi_free_L [s] v [] HI HL Hnd Hlive).
Qed.

(* ---------------------------------------------------------------- Map / Unmap / Flush *)

Lemma allocation_map_psame v s : VamInvU c v [] [] -> psame v (fst (allocation_map c v s)).
Proof.
  intros HI. unfold allocation_map. set (a := get_alloc v s). destruct (negb (a_mapallowed a)); [apply psame_refl|].
  destruct (negb (a_allocated a)); [apply psame_refl|]. destruct (a_kind a =? 1).
  - destruct (get_block v (a_lref a) (a_blk a)) as [b|] eqn:Hgb; [|apply psame_refl].
    destruct (sm_map c (v_m v) (bk_mem b) (bk_sm b)) as ((m1 & s1) & r).
    assert (P : psame v (put_block (set_m v m1) (a_lref a) (mkBlock (bk_id b) (bk_mem b) s1 (bk_meta b)))).
    { eapply psame_trans; [apply psame_set_m|]. destruct (get_block_in _ _ _ _ Hgb) as (l & Hg & Hb & Hid).
      apply psame_put_block; [intros l0 Hg0; rewrite get_blist_set_m in Hg0; apply (bw_nodup _ _ (vi_lists _ _ _ _ HI _ _ Hg0))|].
      unfold get_block in *. rewrite get_blist_set_m. rewrite Hid. exact Hgb. }
    destruct r as [[]|code| |]; cbn [fst]; try exact P. destruct (find_offset _ a); exact P.
  - destruct (a_kind a =? 2); [|apply psame_refl]. destruct (sm_map c (v_m v) (a_mem a) (a_sm a)) as ((m1 & s1) & r). cbn [fst].
    eapply psame_trans; [apply psame_set_m|apply psame_set_alloc].
Qed.

Lemma allocation_unmap_psame v s : VamInvU c v [] [] -> psame v (fst (allocation_unmap v s)).
Proof.
  intros HI. unfold allocation_unmap. set (a := get_alloc v s). destruct (negb (a_allocated a)); [apply psame_refl|]. destruct (a_kind a =? 1).
  - destruct (get_block v (a_lref a) (a_blk a)) as [b|] eqn:Hgb; [|apply psame_refl].
    destruct (sm_unmap (v_m v) (bk_mem b) (bk_sm b)) as ((m1 & s1) & r). cbn [fst].
    eapply psame_trans; [apply psame_set_m|]. destruct (get_block_in _ _ _ _ Hgb) as (l & Hg & Hb & Hid).
    apply psame_put_block; [intros l0 Hg0; rewrite get_blist_set_m in Hg0; apply (bw_nodup _ _ (vi_lists _ _ _ _ HI _ _ Hg0))|].
    unfold get_block in *. rewrite get_blist_set_m. rewrite Hid. exact Hgb.
  - destruct (a_kind a =? 2); [|apply psame_refl]. destruct (sm_unmap (v_m v) (a_mem a) (a_sm a)) as ((m1 & s1) & r). cbn [fst].
    eapply psame_trans; [apply psame_set_m|apply psame_set_alloc].
Qed.

Lemma allocation_flush_psame v inval s off size : psame v (fst (allocation_flush c v inval s off size)).
Proof.
  unfold allocation_flush. destruct (negb _); [apply psame_refl|].
  destruct (flush_range c v (get_alloc v s) off size) as [[(roff & rsize)|]|code| |]; try apply psame_refl.
  destruct (dev_flush _ _ _ _ _) as (m1 & code). apply psame_set_m.
Qed.

Lemma bind_memory_psame v s image res off : psame v (fst (bind_memory v s image res off)).
Proof.
  unfold bind_memory. destruct (res =? 0); [apply psame_refl|]. destruct (negb _); [apply psame_refl|]. destruct (off <? 0); [apply psame_refl|].
  match goal with |- context [match ?t with OK _ => _ | ER _ => _ | PANIC => _ | STUCK => _ end] => destruct t as [o|code| |] end; try apply psame_refl.
  destruct (dev_bind _ _ _ _ _) as (m1 & code). apply psame_set_m.
Qed.

(* ---------------------------------------------------------------- pools, Allocator.Destroy *)

Lemma LInv_empty_list l : 0 <= bl_min l -> False \/ True.
Proof. auto. Qed.

Lemma pool_destroy_L v uid : VamInvU c v [] [] -> LInv v -> let '(v', r) := pool_destroy c v uid in L_post v' r.
Proof.
  intros HI HL. unfold pool_destroy. destruct (find_pool (v_pools v) uid) as [p|] eqn:Hf; [|exact I].
  destruct (p_ded p); [|exact HL].
  pose proof (bl_destroy_inv c v [] [] (LPool uid) HI) as BD. pose proof (bl_destroy_lists c v (LPool uid)) as BL.
  destruct (bl_destroy c v (LPool uid)) as (v1 & r). destruct r as [[]|code| |]; auto.
  2:{ destruct BD as (-> & _). exact HL. }
  destruct BL as (Bo & _). destruct BD as ((I1 & _ & _) & _).
  intros lr l Hg. destruct lr as [t|u].
  - cbn in Hg. change (get_blist v1 (LDef t) = Some l) in Hg. rewrite (Bo (LDef t)) in Hg by discriminate. exact (HL _ _ Hg).
  - cbn in Hg. destruct (find_pool (remove_pool (v_pools v1) uid) u) as [q|] eqn:Eq; [|discriminate]. injection Hg as <-.
    rewrite find_remove_pool in Eq. destruct (u =? uid) eqn:Eu.
    + apply Z.eqb_eq in Eu. subst u. rewrite (find_remove_pool_same _ _ (vi_pools_nodup _ _ _ _ I1)) in Eq. discriminate.
    + apply Z.eqb_neq in Eu. assert (G1 : get_blist v1 (LPool u) = Some (p_list q)) by (cbn; rewrite Eq; reflexivity).
      rewrite (Bo (LPool u)) in G1 by congruence. exact (HL _ _ G1).
Qed.

Lemma destroy_lists_L n : forall v t, VamInvU c v [] [] -> LInv v -> (forall t0 l, get_blist v (LDef t0) = Some l -> bl_min l = 0) ->
  let '(v', r) := destroy_lists c v n t in L_post v' r.
Proof.
  induction n as [|k IH]; intros v t HI HL Hmin; cbn [destroy_lists]; [exact HL|].
  destruct (get_blist v (LDef t)) as [l0|] eqn:Hg; [|apply IH; auto].
  pose proof (bl_destroy_inv c v [] [] (LDef t) HI) as BD. pose proof (bl_destroy_lists c v (LDef t)) as BL.
  destruct (bl_destroy c v (LDef t)) as (v1 & r). destruct r as [[]|code| |]; auto.
  2:{ destruct BD as (-> & _). exact HL. }
  destruct BL as (Bo & Bs). destruct BD as ((I1 & _ & _) & _). specialize (Bs _ Hg).
  assert (L1 : LInv v1).
  { intros lr l Hgl. destruct (lref_eq_dec lr (LDef t)) as [->|Hne].
    - rewrite Bs in Hgl. injection Hgl as <-. destruct (HL _ _ Hg) as (B1 & B2). unfold LB, RB in *. cbn. rewrite (Hmin _ _ Hg) in *. cbn. lia.
    - rewrite (Bo lr Hne) in Hgl. exact (HL _ _ Hgl). }
  apply IH; auto. intros t0 l Hgl. destruct (Z.eq_dec t0 t) as [->|Hne].
  - rewrite Bs in Hgl. injection Hgl as <-. cbn. eapply Hmin; eauto.
  - rewrite (Bo (LDef t0)) in Hgl by congruence. eapply Hmin; eauto.
Qed.

Lemma create_block_others v lr size lr0 : lr0 <> lr -> get_blist (fst (create_block c v lr size)) lr0 = get_blist v lr0.
Proof.
  intros Hne. unfold create_block. destruct (get_blist v lr) as [l|]; [|reflexivity].
  destruct (alloc_vk c (v_m v) (bl_type l) size 0) as (m1 & r). destruct r as [mem|code| |]; cbn [fst]; try apply get_blist_set_m.
  rewrite get_set_blist_other by congruence. apply get_blist_set_m.
Qed.

Lemma create_min_blocks_others n : forall v lr size lr0, lr0 <> lr -> get_blist (fst (create_min_blocks c n v lr size)) lr0 = get_blist v lr0.
Proof.
  induction n as [|k IH]; intros v lr size lr0 Hne; cbn [create_min_blocks]; [reflexivity|].
  pose proof (create_block_others v lr size lr0 Hne) as H. destruct (create_block c v lr size) as (v1 & r). cbn [fst] in H.
  destruct r; cbn [fst]; try exact H. rewrite IH by exact Hne. exact H.
Qed.

Lemma create_block_uids v lr size : map p_uid (v_pools (fst (create_block c v lr size))) = map p_uid (v_pools v).
Proof.
  unfold create_block. destruct (get_blist v lr) as [l|]; [|reflexivity].
  destruct (alloc_vk c (v_m v) (bl_type l) size 0) as (m1 & r). destruct r as [mem|code| |]; cbn [fst]; try reflexivity.
  rewrite set_blist_uids. reflexivity.
Qed.

Lemma create_min_blocks_uids n : forall v lr size, map p_uid (v_pools (fst (create_min_blocks c n v lr size))) = map p_uid (v_pools v).
Proof.
  induction n as [|k IH]; intros v lr size; cbn [create_min_blocks]; [reflexivity|].
  pose proof (create_block_uids v lr size) as H. destruct (create_block c v lr size) as (v1 & r). cbn [fst] in H.
  destruct r; cbn [fst]; try exact H. rewrite IH. exact H.
Qed.

Lemma bl_destroy_uids v lr : map p_uid (v_pools (fst (bl_destroy c v lr))) = map p_uid (v_pools v).
Proof.
  unfold bl_destroy. destruct (get_blist v lr) as [l|]; [|reflexivity]. destruct (existsb _ _); [reflexivity|].
  destruct (destroy_blocks_machine c (bl_blocks l) v (bl_type l)) as (m' & Em).
  destruct (destroy_blocks c v (bl_type l) (bl_blocks l)) as (v1 & r1). cbn [fst] in Em. subst v1.
  destruct r1 as [[]|code| |]; cbn [fst]; try reflexivity. destruct (get_blist (set_m v m') lr); cbn [fst]; [rewrite set_blist_uids|]; reflexivity.
Qed.

Lemma bl_destroy_lists_err v lr :
  let '(v', r) := bl_destroy c v lr in
  match r with OK _ => True | _ => forall lr0, get_blist v' lr0 = get_blist v lr0 end.
Proof.
  unfold bl_destroy. destruct (get_blist v lr) as [l|]; [|reflexivity]. destruct (existsb _ _); [reflexivity|].
  destruct (destroy_blocks_machine c (bl_blocks l) v (bl_type l)) as (m' & Em).
  destruct (destroy_blocks c v (bl_type l) (bl_blocks l)) as (v1 & r1). cbn [fst] in Em. subst v1.
  destruct r1 as [[]|code| |]; try (intros; apply get_blist_set_m).
  destruct (get_blist (set_m v m') lr); [exact I|intros; apply get_blist_set_m].
Qed.

Lemma remove_pool_uids_nodup ps uid : NoDup (map p_uid ps) -> NoDup (map p_uid (remove_pool ps uid)).
Proof.
  induction ps as [|x ps IH]; cbn; [auto|]. intros Hnd. inversion Hnd as [|? ? Hx Hr]; subst.
  destruct (p_uid x =? uid); [exact Hr|]. cbn. constructor; [|apply IH; exact Hr].
  intros Hin. apply Hx. apply in_map_iff in Hin. destruct Hin as (q & Eq & Hq). apply in_remove_pool in Hq. rewrite <- Eq. apply in_map. exact Hq.
Qed.

(* a pool is unlinked: the remaining lists are those of before *)
Lemma unlink_L v w uid nid :
  LInv v -> (forall lr0, lr0 <> LPool uid -> get_blist w lr0 = get_blist v lr0) -> NoDup (map p_uid (v_pools w)) ->
  LInv (unlink_pool w uid nid).
Proof.
  intros HL Ho Hnd lr0 l0 Hgl. destruct lr0 as [t|u].
  - cbn in Hgl. change (get_blist w (LDef t) = Some l0) in Hgl. rewrite (Ho (LDef t)) in Hgl by discriminate. exact (HL _ _ Hgl).
  - cbn in Hgl. destruct (find_pool (remove_pool (v_pools w) uid) u) as [q|] eqn:Eq; [|discriminate]. injection Hgl as <-.
    rewrite find_remove_pool in Eq. destruct (u =? uid) eqn:Eu.
    + apply Z.eqb_eq in Eu. subst u. rewrite (find_remove_pool_same _ _ Hnd) in Eq. discriminate.
    + apply Z.eqb_neq in Eu. assert (G : get_blist w (LPool u) = Some (p_list q)) by (cbn; rewrite Eq; reflexivity).
      rewrite (Ho (LPool u)) in G by congruence. exact (HL _ _ G).
Qed.

(* CreatePool (0 <= MinBlockCount) *)
Lemma create_pool_L v ty flags blockSize minB maxB0 minAlign :
  VamInvU c v [] [] -> LInv v -> 0 <= minB ->
  let '(v', r) := create_pool c v ty flags blockSize minB maxB0 minAlign in L_post v' r.
Proof.
  intros HI HL Hmin0. unfold create_pool.
  destruct ((if maxB0 =? 0 then MAXINT else maxB0) <? minB) eqn:Emm; [exact HL|]. apply Z.ltb_ge in Emm.
  destruct ((ty <? 0) || (ntypes c <=? ty)); [exact HL|]. destruct (negb (N.testbit _ _)); [exact HL|].
  destruct ((0 <? minAlign) && negb (is_pow2_or_zero minAlign)); [exact HL|].
  set (bs := if blockSize =? 0 then preferred_block_size c ty else blockSize) in *.
  set (uid := v_next_uid v) in *.
  match goal with |- context [mkPool uid (v_next_pool_id v) ?ll []] => set (l := ll) in * end.
  set (v0 := mkVam (v_m v) (v_global v) (v_lists v) (v_ded v) (mkPool uid (v_next_pool_id v) l [] :: v_pools v)
                   (v_next_pool_id v + 1) (uid + 1) (v_tab v)) in *.
  assert (Hnd0 : NoDup (map p_uid (v_pools v0))).
  { cbn. constructor; [|apply (vi_pools_nodup _ _ _ _ HI)]. intros Hin. apply in_map_iff in Hin. destruct Hin as (q & Eq & Hq).
    pose proof (vi_pools_uid _ _ _ _ HI) as F. rewrite Forall_forall in F. specialize (F q Hq). unfold uid in Eq. lia. }
  assert (Hg0 : get_blist v0 (LPool uid) = Some l) by (cbn; rewrite Z.eqb_refl; reflexivity).
  assert (Hoth0 : forall lr0, lr0 <> LPool uid -> get_blist v0 lr0 = get_blist v lr0).
  { intros [t|u] Hne; cbn; [reflexivity|]. destruct (uid =? u) eqn:E; [apply Z.eqb_eq in E; congruence|reflexivity]. }
  pose proof (create_min_blocks_eff c (Z.to_nat minB) v0 (LPool uid) l bs Hg0) as CE.
  pose proof (create_min_blocks_others (Z.to_nat minB) v0 (LPool uid) bs) as CO.
  pose proof (create_min_blocks_uids (Z.to_nat minB) v0 (LPool uid) bs) as CU.
  destruct (create_min_blocks c (Z.to_nat minB) v0 (LPool uid) bs) as (v1 & r). cbn [fst] in CO, CU.
  destruct CE as (T1 & _ & l1 & Hg1 & C1 & Z1).
  assert (Ho1 : forall lr0, lr0 <> LPool uid -> get_blist v1 lr0 = get_blist v lr0) by (intros lr0 Hne; rewrite CO, Hoth0; auto).
  assert (Hnd1 : NoDup (map p_uid (v_pools v1))) by (rewrite CU; exact Hnd0).
  destruct r as [[]|code| |]; try exact I.
  - (* the pool exists with MinBlockCount blocks *)
    intros lr0 l0 Hgl. destruct (lref_eq_dec lr0 (LPool uid)) as [->|Hne].
    + assert (l0 = l1) by congruence. subst l0. destruct C1 as (_ & _ & Em & Ex & _). unfold LB, RB. rewrite Em, Ex, Z1.
      unfold l. cbn [bl_min bl_max bl_blocks]. rewrite Z2Nat.id by lia. pose proof (cnt_empty_bounds (bl_blocks l1)) as H. rewrite Z1 in H. cbn in H.
      rewrite Z2Nat.id in H by lia. unfold zlen. cbn [length]. lia.
    + rewrite (Ho1 lr0 Hne) in Hgl. exact (HL _ _ Hgl).
  - (* creation failed: the pool is gone again *)
    unfold pool_destroy. destruct (find_pool (v_pools v1) uid) as [p1|] eqn:Hf1; [|exact I].
    destruct (p_ded p1); [|apply (unlink_L v v1); auto].
    pose proof (bl_destroy_lists c v1 (LPool uid)) as BL. pose proof (bl_destroy_uids v1 (LPool uid)) as BU.
    pose proof (bl_destroy_lists_err v1 (LPool uid)) as BE.
    destruct (bl_destroy c v1 (LPool uid)) as (v2 & dr). cbn [fst] in BU. destruct dr as [[]|dcode| |]; try exact I.
    + destruct BL as (Bo & _). cbn [L_post]. apply (unlink_L v (set_pools v2 (remove_pool (v_pools v2) uid))); auto.
      * intros lr0 Hne. destruct lr0 as [t|u].
        -- cbn. change (get_blist v2 (LDef t) = get_blist v (LDef t)). rewrite (Bo (LDef t)) by discriminate. apply Ho1. discriminate.
        -- cbn [get_blist set_pools v_pools]. rewrite find_remove_pool. assert (Eu : u =? uid = false) by (apply Z.eqb_neq; congruence). rewrite Eu.
           change (get_blist v2 (LPool u) = get_blist v (LPool u)). rewrite (Bo (LPool u)) by congruence. apply Ho1. exact Hne.
      * cbn [set_pools v_pools]. apply remove_pool_uids_nodup. rewrite BU. exact Hnd1.
    + (* Destroy refused *)
      cbn [L_post]. apply (unlink_L v v2); auto.
      * intros lr0 Hne. rewrite BE. apply Ho1. exact Hne.
      * rewrite BU. exact Hnd1.
Qed.


(* default lists have MinBlockCount 0 (vam.New); custom pools are never LDef *)
Definition def_min0 (v : vam) : Prop := forall t l, get_blist v (LDef t) = Some l -> bl_min l = 0.

Lemma allocator_destroy_L v : VamInvU c v [] [] -> LInv v -> def_min0 v -> let '(v', r) := allocator_destroy c v in L_post v' r.
Proof.
  intros HI HL H0. unfold allocator_destroy. destruct (existsb _ (v_ded v)); [exact HL|].
  destruct (v_pools v); [|exact HL]. destruct (existsb list_nonempty _); [exact HL|]. apply destroy_lists_L; auto.
Qed.

(* ---------------------------------------------------------------- resources *)

Lemma create_resource_L v s image kind sub devreq resusage minAlign usage flags req pref ctb pool :
  VamInvU c v [] [] -> LInv v -> 0 <= s < zlen (v_tab v) -> a_allocated (get_alloc v s) = false ->
  let '(v', r) := create_resource c v s image kind sub devreq resusage minAlign usage flags req pref ctb pool in L_post v' r.
Proof.
  intros HI HL Hr Hd. unfold create_resource.
  pose proof (dev_create_res_same (v_m v) image kind devreq) as H1.
  destruct (dev_create_res (v_m v) image kind devreq) as ((m1 & code) & id). cbn [fst] in H1.
  destruct (negb (code =? 0)); [cbn; eapply LInv_psame; [exact HL|apply psame_set_m]|].
  destruct (get_requirements_spec c m1 image id) as (m2 & rq & rd & pd & Egr & H2). rewrite Egr.
  pose proof (mach_same_trans _ _ _ H1 H2) as H12.
  assert (I2 : VamInvU c (set_m v m2) [] []) by (apply VamInvU_mach_same; auto).
  assert (L2 : LInv (set_m v m2)) by (eapply LInv_psame; [exact HL|apply psame_set_m]).
  assert (Hnd : NoDup [s]) by (constructor; [intros []|constructor]).
  assert (Hdead : dead_slots (set_m v m2) [s]) by (intros x [<-|[]]; auto).
  match goal with |- context [multi_allocate c (set_m v m2) ?a1 ?a2 ?a3 ?a4 ?a5 ?a6 ?a7 usage flags req pref ctb pool sub [s]] =>
    pose proof (multi_allocate_inv c Hc (set_m v m2) [] a1 a2 a3 a4 a5 a6 a7 usage flags req pref ctb pool sub [s] I2 Hnd Hdead) as MA;
    pose proof (multi_allocate_L (set_m v m2) [] a1 a2 a3 a4 a5 a6 a7 usage flags req pref ctb pool sub [s] I2 L2 Hnd Hdead) as ML;
    destruct (multi_allocate c (set_m v m2) a1 a2 a3 a4 a5 a6 a7 usage flags req pref ctb pool sub [s]) as (v3 & r) end.
  destruct r as [[]|acode| |]; auto.
  - destruct MA as (I3 & T3 & L3 & D3). cbn [L_post] in ML.
    destruct (fl flags F_DONTBIND); [exact ML|].
    pose proof (bind_memory_inv c v3 s image id 0 I3) as B. pose proof (bind_memory_psame v3 s image id 0) as BP.
    destruct (bind_memory v3 s image id 0) as (v4 & br). cbn [fst] in BP.
    assert (L4 : LInv v4) by (eapply LInv_psame; eauto).
    destruct br as [[]|bcode| |]; auto.
    destruct B as (I4 & T4).
    assert (Hfree : let '(v5, fr) := (if a_allocated (get_alloc v4 s) then multi_free c v4 [s] else (v4, OK tt)) in
                    match fr with PANIC | STUCK => True | _ => LInv v5 end).
    { destruct (a_allocated (get_alloc v4 s)) eqn:Ea; [|exact L4].
      assert (Hlive : live_slots v4 [] [s]) by (intros x [<-|[]]; split; [intros []|exists (get_alloc v4 s); apply get_alloc_allocated; auto]).
      pose proof (multi_free_L [s] v4 [] I4 L4 Hnd Hlive) as P. destruct (multi_free c v4 [s]) as (v5 & fr). destruct fr; auto. }
    destruct (if a_allocated (get_alloc v4 s) then multi_free c v4 [s] else (v4, OK tt)) as (v5 & fr).
    destruct fr as [[]|code5| |]; auto; cbn; (eapply LInv_psame; [exact Hfree|apply psame_set_m]).
Qed.

Lemma allocate_for_resource_L v s image res usage flags req pref ctb pool :
  VamInvU c v [] [] -> LInv v -> 0 <= s < zlen (v_tab v) ->
  let '(v', r) := allocate_for_resource c v s image res usage flags req pref ctb pool in L_post v' r.
Proof.
  intros HI HL Hr. unfold allocate_for_resource. destruct (res =? 0); [exact HL|].
  destruct (a_allocated (get_alloc v s)) eqn:Ea; [exact HL|].
  destruct (get_requirements_spec c (v_m v) image res) as (m2 & rq & rd & pd & Egr & H2). rewrite Egr.
  assert (I2 : VamInvU c (set_m v m2) [] []) by (apply VamInvU_mach_same; auto).
  assert (L2 : LInv (set_m v m2)) by (eapply LInv_psame; [exact HL|apply psame_set_m]).
  assert (Hnd : NoDup [s]) by (constructor; [intros []|constructor]).
  assert (Hdead : dead_slots (set_m v m2) [s]) by (intros x [<-|[]]; auto).
  apply multi_allocate_L with (X := []); auto.
Qed.

(* ---------------------------------------------------------------- one API call *)

Definition op_pool_ok (o : op) : Prop := match o with OMkPool _ _ _ minB _ _ => 0 <= minB | _ => True end.

Lemma exec_L v o : VamInv c v -> LInv v -> def_min0 v -> op_ok v o -> op_pool_ok o -> let '(v', r) := exec c v o in L_post v' r.
Proof.
  intros HI HL H0 Hok Hp. unfold VamInv in *. destruct o; cbn [exec op_ok op_pool_ok] in *.
  - unfold allocate_memory. destruct (a_allocated (get_alloc v slot)) eqn:Ea; [exact HL|].
    assert (Hnd : NoDup [slot]) by (constructor; [intros []|constructor]).
    assert (Hdead : dead_slots v [slot]) by (intros s [<-|[]]; auto).
    apply multi_allocate_L with (X := []); auto.
  - unfold allocate_memory_slice. destruct Hok as (H1 & Hn).
    destruct (slot_range_nodup (Z.to_nat n) slot) as (Hnd & Hrange).
    destruct (slot_range slot (Z.to_nat n)) as [|s0 tl] eqn:Es; [exact HL|]. rewrite <- Es in *.
    destruct (existsb _ _) eqn:Eex; [exact HL|].
    assert (Hdead : dead_slots v (slot_range slot (Z.to_nat n))).
    { intros s Hs. split.
      - specialize (Hrange s Hs). destruct n as [|p|p]; [cbn in Hrange; lia|rewrite Z2Nat.id in Hrange by lia; lia|cbn in Hrange; lia].
      - destruct (a_allocated (get_alloc v s)) eqn:E; [|reflexivity]. exfalso.
        assert (existsb (fun s => a_allocated (get_alloc v s)) (slot_range slot (Z.to_nat n)) = true) by (apply existsb_exists; exists s; auto). congruence. }
    apply multi_allocate_L with (X := []); auto.
  - apply allocation_free_L; auto.
  - unfold free_allocation_slice. destruct (slot_range_nodup (Z.to_nat n) slot) as (Hnd & _).
    apply (multi_free_L _ v []); auto. intros s Hs. split; [intros []|]. exists (get_alloc v s). apply get_alloc_allocated. auto.
  - pose proof (allocation_map_psame v slot HI) as P. destruct (allocation_map c v slot) as (v' & r). cbn [fst] in P. destruct r; cbn; auto; eapply LInv_psame; eauto.
  - pose proof (allocation_unmap_psame v slot HI) as P. destruct (allocation_unmap v slot) as (v' & r). cbn [fst] in P. destruct r; cbn; auto; eapply LInv_psame; eauto.
  - pose proof (allocation_flush_psame v inval slot off size) as P. destruct (allocation_flush c v inval slot off size) as (v' & r). cbn [fst] in P. destruct r; cbn; auto; eapply LInv_psame; eauto.
  - unfold harness_rw. pose proof (allocation_map_inv c v slot HI) as M. pose proof (allocation_map_psame v slot HI) as P.
    destruct (allocation_map c v slot) as (v1 & r). cbn [fst] in P. assert (L1 : LInv v1) by (eapply LInv_psame; eauto).
    destruct r as [[]|code| |]; auto. destruct M as (A & _).
    pose proof (allocation_unmap_psame v1 slot A) as P2. destruct (allocation_unmap v1 slot) as (v2 & ur). cbn [fst] in P2.
    destruct ur; cbn; auto; eapply LInv_psame; eauto.
  - apply create_pool_L; auto.
  - apply pool_destroy_L; auto.
  - unfold build_stats_string. destruct (calculate_statistics c v); [|exact I]. cbn. eapply LInv_psame; [exact HL|apply psame_set_m].
  - apply allocator_destroy_L; auto.
  - unfold create_buffer. destruct (a_allocated (get_alloc v slot)) eqn:Ea; [exact HL|].
    destruct (_ && _); [exact HL|]. destruct (size =? 0); [exact HL|]. destruct (_ && _); [exact HL|]. apply create_resource_L; auto.
  - unfold create_image. destruct (a_allocated (get_alloc v slot)) eqn:Ea; [exact HL|]. destruct (width =? 0); [exact HL|]. apply create_resource_L; auto.
  - unfold destroy_with_resource.
    set (v1 := if res =? 0 then v else set_m v (dev_destroy_res (v_m v) image res)).
    assert (I1 : VamInvU c v1 [] [] /\ LInv v1).
    { unfold v1. destruct (res =? 0); [auto|]. split; [apply VamInvU_mach_same; [auto|apply dev_destroy_res_same]|eapply LInv_psame; [exact HL|apply psame_set_m]]. }
    apply allocation_free_L; apply I1.
  - apply allocate_for_resource_L; auto.
  - pose proof (bind_memory_psame v slot image res off) as P. destruct (bind_memory v slot image res off) as (v' & r). cbn [fst] in P. destruct r; cbn; auto; eapply LInv_psame; eauto.
  - unfold raw_create. destruct (dev_create_res (v_m v) image kind devreq) as ((m1 & code) & id).
    assert (P : LInv (set_m v m1)) by (eapply LInv_psame; [exact HL|apply psame_set_m]). destruct (code =? 0); exact P.
  - unfold raw_destroy. cbn. eapply LInv_psame; [exact HL|apply psame_set_m].
Qed.


(* ---------------------------------------------------------------- the default lists keep MinBlockCount 0 *)

Definition dmin (v v' : vam) : Prop :=
  forall t l', get_blist v' (LDef t) = Some l' -> exists l, get_blist v (LDef t) = Some l /\ bl_min l' = bl_min l.

Lemma dmin_refl v : dmin v v.
Proof. intros t l' H. eauto. Qed.

Lemma dmin_trans a b d : dmin a b -> dmin b d -> dmin a d.
Proof. intros H1 H2 t l' H. destruct (H2 t l' H) as (l1 & G1 & E1). destruct (H1 t l1 G1) as (l0 & G0 & E0). exists l0. split; [auto|congruence]. Qed.

Lemma dmin_eq v v' : (forall t, get_blist v' (LDef t) = get_blist v (LDef t)) -> dmin v v'.
Proof. intros H t l' Hg. rewrite H in Hg. eauto. Qed.

Lemma dmin_frame' v v' : lists_frame' v v' -> dmin v v'.
Proof.
  intros F t l' Hg. destruct (get_blist v (LDef t)) as [l|] eqn:E.
  - destruct (lf'_some _ _ F _ _ E) as (l2 & G2 & S). assert (l2 = l') by congruence. subst l2. exists l. split; [auto|]. destruct S as (_ & _ & Hm & _). exact Hm.
  - rewrite (lf'_none _ _ F _ E) in Hg. discriminate.
Qed.

Lemma dmin_frame v v' : lists_frame v v' -> dmin v v'.
Proof. intros F. apply dmin_frame'. apply lists_frame_weak. exact F. Qed.

Lemma dmin_set_m v m : dmin v (set_m v m).
Proof. apply dmin_eq. intros. apply get_blist_set_m. Qed.

Lemma def_min0_dmin v v' : def_min0 v -> dmin v v' -> def_min0 v'.
Proof. intros H0 D t l' Hg. destruct (D t l' Hg) as (l & G & E). rewrite E. eapply H0; eauto. Qed.

Lemma create_pool_dmin v ty flags blockSize minB maxB0 minAlign : dmin v (fst (create_pool c v ty flags blockSize minB maxB0 minAlign)).
Proof.
  unfold create_pool. destruct (_ <? minB); [apply dmin_refl|]. destruct (_ || _); [apply dmin_refl|]. destruct (negb (N.testbit _ _)); [apply dmin_refl|].
  destruct (_ && _); [apply dmin_refl|].
  set (bs := if blockSize =? 0 then preferred_block_size c ty else blockSize). set (uid := v_next_uid v).
  match goal with |- context [create_min_blocks c ?n ?vv ?lr bs] => set (v0 := vv) end.
  assert (D0 : forall t, get_blist v0 (LDef t) = get_blist v (LDef t)) by reflexivity.
  pose proof (create_min_blocks_others (Z.to_nat minB) v0 (LPool uid) bs) as CO.
  destruct (create_min_blocks c (Z.to_nat minB) v0 (LPool uid) bs) as (v1 & r). cbn [fst] in CO.
  assert (D1 : forall t, get_blist v1 (LDef t) = get_blist v (LDef t)) by (intros t; rewrite CO by discriminate; apply D0).
  destruct r as [[]|code| |]; cbn [fst]; try (apply dmin_eq; exact D1).
  unfold pool_destroy. destruct (find_pool (v_pools v1) uid) as [p1|]; [|cbn [fst]; apply dmin_eq; exact D1].
  destruct (p_ded p1); [|cbn [fst]; apply dmin_eq; exact D1].
  pose proof (bl_destroy_lists c v1 (LPool uid)) as BL. pose proof (bl_destroy_lists_err v1 (LPool uid)) as BE.
  destruct (bl_destroy c v1 (LPool uid)) as (v2 & dr). destruct dr as [[]|dcode| |]; cbn [fst]; apply dmin_eq; intros t.
  - destruct BL as (Bo & _). change (get_blist v2 (LDef t) = get_blist v (LDef t)). rewrite Bo by discriminate. apply D1.
  - change (get_blist v2 (LDef t) = get_blist v (LDef t)). rewrite BE. apply D1.
  - change (get_blist v2 (LDef t) = get_blist v (LDef t)). rewrite BE. apply D1.
  - change (get_blist v2 (LDef t) = get_blist v (LDef t)). rewrite BE. apply D1.
Qed.

Lemma pool_destroy_dmin v uid : dmin v (fst (pool_destroy c v uid)).
Proof.
  unfold pool_destroy. destruct (find_pool (v_pools v) uid) as [p|]; [|apply dmin_refl]. destruct (p_ded p); [|apply dmin_refl].
  pose proof (bl_destroy_lists c v (LPool uid)) as BL. pose proof (bl_destroy_lists_err v (LPool uid)) as BE.
  destruct (bl_destroy c v (LPool uid)) as (v2 & dr). destruct dr as [[]|dcode| |]; cbn [fst]; apply dmin_eq; intros t.
  - destruct BL as (Bo & _). change (get_blist v2 (LDef t) = get_blist v (LDef t)). apply Bo. discriminate.
  - apply BE.
  - apply BE.
  - apply BE.
Qed.

Lemma destroy_lists_dmin n : forall v t, dmin v (fst (destroy_lists c v n t)).
Proof.
  induction n as [|k IH]; intros v t; cbn [destroy_lists]; [apply dmin_refl|].
  destruct (get_blist v (LDef t)) as [l0|] eqn:Hg; [|apply IH].
  pose proof (bl_destroy_lists c v (LDef t)) as BL. pose proof (bl_destroy_lists_err v (LDef t)) as BE.
  destruct (bl_destroy c v (LDef t)) as (v1 & r). destruct r as [[]|code| |]; cbn [fst]; try (apply dmin_eq; intros; apply BE).
  eapply dmin_trans; [|apply IH]. destruct BL as (Bo & Bs). specialize (Bs _ Hg).
  intros t0 l' Hgl. destruct (Z.eq_dec t0 t) as [->|Hne].
  - rewrite Bs in Hgl. injection Hgl as <-. exists l0. split; [exact Hg|reflexivity].
  - rewrite (Bo (LDef t0)) in Hgl by congruence. eauto.
Qed.

Lemma bind_memory_dmin v s image res off : dmin v (fst (bind_memory v s image res off)).
Proof.
  unfold bind_memory. destruct (res =? 0); [apply dmin_refl|]. destruct (negb _); [apply dmin_refl|]. destruct (off <? 0); [apply dmin_refl|].
  match goal with |- context [match ?t with OK _ => _ | ER _ => _ | PANIC => _ | STUCK => _ end] => destruct t as [o|code| |] end; try apply dmin_refl.
  destruct (dev_bind _ _ _ _ _) as (m1 & code). apply dmin_set_m.
Qed.

Lemma create_resource_dmin v s image kind sub devreq resusage minAlign usage flags req pref ctb pool :
  VamInvU c v [] [] -> 0 <= s < zlen (v_tab v) -> a_allocated (get_alloc v s) = false ->
  let '(v', r) := create_resource c v s image kind sub devreq resusage minAlign usage flags req pref ctb pool in
  match r with OK _ | ER _ => dmin v v' | _ => True end.
Proof.
  intros HI Hr Hd. unfold create_resource.
  pose proof (dev_create_res_same (v_m v) image kind devreq) as H1.
  destruct (dev_create_res (v_m v) image kind devreq) as ((m1 & code) & id). cbn [fst] in H1.
  destruct (negb (code =? 0)); [apply dmin_set_m|].
  destruct (get_requirements_spec c m1 image id) as (m2 & rq & rd & pd & Egr & H2). rewrite Egr.
  pose proof (mach_same_trans _ _ _ H1 H2) as H12.
  assert (I2 : VamInvU c (set_m v m2) [] []) by (apply VamInvU_mach_same; auto).
  assert (Hnd : NoDup [s]) by (constructor; [intros []|constructor]).
  assert (Hdead : dead_slots (set_m v m2) [s]) by (intros x [<-|[]]; auto).
  match goal with |- context [multi_allocate c (set_m v m2) ?a1 ?a2 ?a3 ?a4 ?a5 ?a6 ?a7 usage flags req pref ctb pool sub [s]] =>
    pose proof (multi_allocate_inv c Hc (set_m v m2) [] a1 a2 a3 a4 a5 a6 a7 usage flags req pref ctb pool sub [s] I2 Hnd Hdead) as MA;
    destruct (multi_allocate c (set_m v m2) a1 a2 a3 a4 a5 a6 a7 usage flags req pref ctb pool sub [s]) as (v3 & r) end.
  destruct r as [[]|acode| |]; auto.
  - destruct MA as (I3 & T3 & L3 & D3).
    assert (D03 : dmin v v3) by (eapply dmin_trans; [apply dmin_set_m|apply dmin_frame'; exact L3]).
    destruct (fl flags F_DONTBIND); [exact D03|].
    pose proof (bind_memory_inv c v3 s image id 0 I3) as B. pose proof (bind_memory_dmin v3 s image id 0) as BD.
    destruct (bind_memory v3 s image id 0) as (v4 & br). cbn [fst] in BD.
    assert (D04 : dmin v v4) by (eapply dmin_trans; eauto).
    destruct br as [[]|bcode| |]; auto. destruct B as (I4 & T4).
    assert (Hfree : let '(v5, fr) := (if a_allocated (get_alloc v4 s) then multi_free c v4 [s] else (v4, OK tt)) in
                    match fr with PANIC | STUCK => True | _ => dmin v4 v5 end).
    { destruct (a_allocated (get_alloc v4 s)) eqn:Ea; [|apply dmin_refl].
      assert (Hlive : live_slots v4 [] [s]) by (intros x [<-|[]]; split; [intros []|exists (get_alloc v4 s); apply get_alloc_allocated; auto]).
      pose proof (multi_free_inv c [s] v4 [] I4 Hnd Hlive) as P. destruct (multi_free c v4 [s]) as (v5 & fr).
      destruct fr as [[]|code5| |]; auto; [destruct P as (_ & _ & C0 & _)|destruct P as (_ & _ & C0)]; apply dmin_frame'; exact C0. }
    destruct (if a_allocated (get_alloc v4 s) then multi_free c v4 [s] else (v4, OK tt)) as (v5 & fr).
    destruct fr as [[]|code5| |]; auto; (eapply dmin_trans; [exact D04|]; eapply dmin_trans; [exact Hfree|apply dmin_set_m]).
  - destruct MA as (I3 & T3 & L3 & D3). eapply dmin_trans; [apply dmin_set_m|]. eapply dmin_trans; [apply dmin_frame'; exact L3|apply dmin_set_m].
Qed.

Lemma exec_dmin v o : VamInv c v -> op_ok v o -> let '(v', r) := exec c v o in match r with OK _ | ER _ => dmin v v' | _ => True end.
Proof.
  intros HI Hok. unfold VamInv in *. destruct o; cbn [exec op_ok] in *.
  - pose proof (allocate_memory_inv c Hc v [] slot size align typeBits usage flags req pref ctb pool HI Hok) as P.
    destruct (allocate_memory c v slot size align typeBits usage flags req pref ctb pool) as (v' & r).
    destruct r as [[]|code| |]; auto; destruct P as (_ & _ & C0 & _); apply dmin_frame'; exact C0.
  - destruct Hok as (H0 & Hn).
    pose proof (allocate_memory_slice_inv c Hc v [] slot n size align typeBits usage flags req pref ctb pool HI H0 Hn) as P.
    destruct (allocate_memory_slice c v slot n size align typeBits usage flags req pref ctb pool) as (v' & r). cbn zeta in P.
    destruct r as [[]|code| |]; auto; destruct P as (_ & _ & C0 & _); apply dmin_frame'; exact C0.
  - unfold allocation_free. destruct (a_allocated (get_alloc v slot)) eqn:Ea; cbn [negb]; [|apply dmin_refl].
    assert (Hnd : NoDup [slot]) by (constructor; [intros []|constructor]).
    assert (Hlive : live_slots v [] [slot]) by (intros x [<-|[]]; split; [intros []|exists (get_alloc v slot); apply get_alloc_allocated; auto]).
    pose proof (multi_free_inv c [slot] v [] HI Hnd Hlive) as P. destruct (multi_free c v [slot]) as (v' & r).
    destruct r as [[]|code| |]; auto; [destruct P as (_ & _ & C0 & _)|destruct P as (_ & _ & C0)]; apply dmin_frame'; exact C0.
  - unfold free_allocation_slice. destruct (slot_range_nodup (Z.to_nat n) slot) as (Hnd & _).
    assert (Hlive : live_slots v [] (slot_range slot (Z.to_nat n))).
    { intros s Hs. split; [intros []|]. exists (get_alloc v s). apply get_alloc_allocated. auto. }
    pose proof (multi_free_inv c _ v [] HI Hnd Hlive) as P. destruct (multi_free c v _) as (v' & r).
    destruct r as [[]|code| |]; auto; [destruct P as (_ & _ & C0 & _)|destruct P as (_ & _ & C0)]; apply dmin_frame'; exact C0.
  - pose proof (allocation_map_inv c v slot HI) as P. destruct (allocation_map c v slot) as (v' & r).
    destruct r as [[]|code| |]; cbn in *; auto; destruct P as (_ & _ & C0); apply dmin_frame; exact C0.
  - pose proof (allocation_unmap_inv c v slot HI) as P. destruct (allocation_unmap v slot) as (v' & r).
    destruct r as [[]|code| |]; cbn in *; auto; destruct P as (_ & _ & C0); apply dmin_frame; exact C0.
  - pose proof (allocation_flush_inv c v inval slot off size HI) as P. destruct (allocation_flush c v inval slot off size) as (v' & r).
    destruct r as [[]|code| |]; cbn in *; auto; destruct P as (_ & _ & C0); apply dmin_frame; exact C0.
  - pose proof (harness_rw_inv c v slot HI) as P. destruct (harness_rw c v slot) as (v' & r).
    destruct r as [[]|code| |]; cbn in *; auto; destruct P as (_ & _ & C0); apply dmin_frame; exact C0.
  - pose proof (create_pool_dmin v ty flags blockSize minB maxB minAlign) as P. destruct (create_pool c v ty flags blockSize minB maxB minAlign) as (v' & r). destruct r; auto.
  - pose proof (pool_destroy_dmin v uid) as P. destruct (pool_destroy c v uid) as (v' & r). destruct r; auto.
  - unfold build_stats_string. destruct (calculate_statistics c v); [|exact I]. apply dmin_set_m.
  - unfold allocator_destroy. destruct (existsb _ (v_ded v)); [apply dmin_refl|]. destruct (v_pools v); [|apply dmin_refl].
    destruct (existsb list_nonempty _); [apply dmin_refl|].
    pose proof (destroy_lists_dmin (length (c_types c)) v 0) as P. destruct (destroy_lists c v (length (c_types c)) 0) as (v' & r). destruct r; auto.
  - unfold create_buffer. destruct (a_allocated (get_alloc v slot)) eqn:Ea; [apply dmin_refl|].
    destruct (_ && _); [apply dmin_refl|]. destruct (size =? 0); [apply dmin_refl|]. destruct (_ && _); [apply dmin_refl|]. apply create_resource_dmin; auto.
  - unfold create_image. destruct (a_allocated (get_alloc v slot)) eqn:Ea; [apply dmin_refl|]. destruct (width =? 0); [apply dmin_refl|]. apply create_resource_dmin; auto.
  - unfold destroy_with_resource.
    set (v1 := if res =? 0 then v else set_m v (dev_destroy_res (v_m v) image res)).
    assert (I1 : VamInvU c v1 [] [] /\ dmin v v1).
    { unfold v1. destruct (res =? 0); [split; [auto|apply dmin_refl]|]. split; [apply VamInvU_mach_same; [auto|apply dev_destroy_res_same]|apply dmin_set_m]. }
    destruct I1 as (I1 & D1). unfold allocation_free. destruct (a_allocated (get_alloc v1 slot)) eqn:Ea; cbn [negb]; [|exact D1].
    assert (Hnd : NoDup [slot]) by (constructor; [intros []|constructor]).
    assert (Hlive : live_slots v1 [] [slot]) by (intros x [<-|[]]; split; [intros []|exists (get_alloc v1 slot); apply get_alloc_allocated; auto]).
    pose proof (multi_free_inv c [slot] v1 [] I1 Hnd Hlive) as P. destruct (multi_free c v1 [slot]) as (v' & r).
    destruct r as [[]|code| |]; auto; [destruct P as (_ & _ & C0 & _)|destruct P as (_ & _ & C0)]; (eapply dmin_trans; [exact D1|apply dmin_frame'; exact C0]).
  - unfold allocate_for_resource. destruct (res =? 0); [apply dmin_refl|].
    destruct (a_allocated (get_alloc v slot)) eqn:Ea; [apply dmin_refl|].
    destruct (get_requirements_spec c (v_m v) image res) as (m2 & rq & rd & pd & Egr & H2). rewrite Egr.
    assert (I2 : VamInvU c (set_m v m2) [] []) by (apply VamInvU_mach_same; auto).
    assert (Hnd : NoDup [slot]) by (constructor; [intros []|constructor]).
    assert (Hdead : dead_slots (set_m v m2) [slot]) by (intros x [<-|[]]; auto).
    match goal with |- context [multi_allocate c (set_m v m2) ?a1 ?a2 ?a3 ?a4 ?a5 ?a6 ?a7 usage flags req pref ctb pool ?sb [slot]] =>
      pose proof (multi_allocate_inv c Hc (set_m v m2) [] a1 a2 a3 a4 a5 a6 a7 usage flags req pref ctb pool sb [slot] I2 Hnd Hdead) as MA;
      destruct (multi_allocate c (set_m v m2) a1 a2 a3 a4 a5 a6 a7 usage flags req pref ctb pool sb [slot]) as (v3 & r) end.
    destruct r as [[]|code| |]; auto; destruct MA as (_ & _ & C0 & _); (eapply dmin_trans; [apply dmin_set_m|apply dmin_frame'; exact C0]).
  - unfold bind_memory. destruct (res =? 0); [apply dmin_refl|]. destruct (negb _); [apply dmin_refl|]. destruct (off <? 0); [apply dmin_refl|].
    match goal with |- context [match ?t with OK _ => _ | ER _ => _ | PANIC => _ | STUCK => _ end] => destruct t as [o|code| |] end; try apply dmin_refl; try exact I.
    destruct (dev_bind _ _ _ _ _) as (m1 & code). destruct (code =? 0); apply dmin_set_m.
  - unfold raw_create. destruct (dev_create_res (v_m v) image kind devreq) as ((m1 & code) & id). destruct (code =? 0); apply dmin_set_m.
  - unfold raw_destroy. apply dmin_set_m.
Qed.


(* ---------------------------------------------------------------- all histories *)

Lemma LInv_set_m v m : LInv v -> LInv (set_m v m).
Proof. intros H. eapply LInv_psame; [exact H|apply psame_set_m]. Qed.

Lemma def_min0_set_m v m : def_min0 v -> def_min0 (set_m v m).
Proof. intros H. eapply def_min0_dmin; [exact H|apply dmin_set_m]. Qed.

Theorem step_L v o f :
  VamInv c v -> LInv v -> def_min0 v -> op_ok v o -> op_pool_ok o ->
  let '(v', r, calls) := step c v o f in
  r <> RPanic -> r <> RStuck -> LInv v' /\ def_min0 v'.
Proof.
  intros HI HL H0 Hok Hp. unfold step.
  set (v0 := set_m v (clear_calls (set_fault (v_m v) f 0))).
  assert (I0 : VamInv c v0).
  { unfold v0, VamInv. apply VamInvU_mach_same; [exact HI|]. split; cbn; [apply mems_same_refl|lia]. }
  assert (Hok0 : op_ok v0 o) by (destruct o; exact Hok).
  assert (H00 : def_min0 v0) by (apply def_min0_set_m; exact H0).
  pose proof (exec_L v0 o I0 (LInv_set_m v _ HL) H00 Hok0 Hp) as E.
  pose proof (exec_dmin v0 o I0 Hok0) as D.
  destruct (exec c v0 o) as (v1 & r).
  intros Hpn Hsn. destruct r as [[]|code| |]; cbn in Hpn, Hsn; try congruence; cbn in E;
    (split; [apply LInv_set_m; exact E|apply def_min0_set_m; eapply def_min0_dmin; [exact H00|exact D]]).
Qed.

(* reachable states where pools are created with MinBlockCount >= 0 *)
Inductive reachL : vam -> Prop :=
| reachL_new nslots v : vam_new c nslots = OK v -> reachL v
| reachL_step v o f v' r calls :
    reachL v -> op_ok v o -> op_pool_ok o -> step c v o f = (v', r, calls) -> r <> RPanic -> r <> RStuck -> reachL v'.

Lemma reachL_reach v : reachL v -> reach c v.
Proof. induction 1; [eapply reach_new; eauto|eapply reach_step; eauto]. Qed.

Lemma vam_new_L nslots v : vam_new c nslots = OK v -> LInv v /\ def_min0 v.
Proof.
  unfold vam_new. destruct (negb _); [discriminate|]. destruct (negb _); [discriminate|]. intros E. injection E as <-.
  assert (H : forall lr l, get_blist (mkVam (set_bud (mkMach [] 0 no_fault 0 Budget.bzero [] [] 0) (Budget.binit (bcfg_of c) (dev_report c (mkMach [] 0 no_fault 0 Budget.bzero [] [] 0))))
                (Select.global_bits false (types_n c)) (init_lists c (Select.global_bits false (types_n c)) (length (c_types c)) 0)
                (repeat [] (length (c_types c))) [] 0 1 (repeat alloc_zero nslots)) lr = Some l ->
              bl_min l = 0 /\ bl_max l = MAXINT /\ bl_blocks l = []).
  { intros lr l Hg. destruct lr as [t|uid]; [|cbn in Hg; discriminate]. cbn in Hg.
    destruct (nth_z (init_lists c _ _ 0) t) as [[x|]|] eqn:E; try discriminate. injection Hg as ->.
    destruct (init_lists_spec c _ _ _ _ _ E) as (_ & ->). cbn. auto. }
  split.
  - intros lr l Hg. destruct (H lr l Hg) as (A & B & C0). unfold LB, RB. rewrite A, B, C0. cbn. unfold MAXINT. lia.
  - intros t l Hg. apply (H (LDef t) l Hg).
Qed.

Theorem reachL_inv v : reachL v -> LInv v /\ def_min0 v.
Proof.
  induction 1 as [nslots v H|v o f v' r calls R IH Hok Hp Hs Hpn Hsn].
  - eapply vam_new_L; eauto.
  - destruct IH as (HL & H0). pose proof (step_L v o f (reach_inv c v Hc (reachL_reach v R)) HL H0 Hok Hp) as P. rewrite Hs in P. apply P; auto.
Qed.

(* C11: the block count of every list (default or custom pool) stays within [MinBlockCount, MaxBlockCount] *)
Theorem pool_block_bounds v lr l :
  reachL v -> get_blist v lr = Some l -> bl_min l <= zlen (bl_blocks l) <= bl_max l.
Proof. intros R Hg. destruct (reachL_inv v R) as (HL & _). apply (HL _ _ Hg). Qed.

(* C20: a list never keeps more than max(1, MinBlockCount) empty blocks *)
Theorem retention_bound v lr l :
  reachL v -> get_blist v lr = Some l -> cnt_empty (bl_blocks l) <= Z.max 1 (bl_min l).
Proof. intros R Hg. destruct (reachL_inv v R) as (HL & _). apply (HL _ _ Hg). Qed.

(* ... in particular, after all allocations were freed a list holds no more than max(1, MinBlockCount) blocks *)
Theorem retention_after_free_all v lr l :
  reachL v -> get_blist v lr = Some l -> (forall s a, ~ slot_is v s a) -> zlen (bl_blocks l) <= Z.max 1 (bl_min l).
Proof.
  intros R Hg Hno. pose proof (retention_bound v lr l R Hg) as H.
  pose proof (reach_inv c v Hc (reachL_reach v R)) as HI.
  assert (Hall : forall b, In b (bl_blocks l) -> emp b = true).
  { intros b Hb. apply (unreferenced_blocks_empty c v lr l HI Hg); [|exact Hb]. intros s a Sa _. eapply Hno; eauto. }
  assert (E : cnt_empty (bl_blocks l) = zlen (bl_blocks l)).
  { unfold cnt_empty, zlen. f_equal. clear - Hall. induction (bl_blocks l) as [|b bs IH]; [reflexivity|]. cbn [filter].
    rewrite (Hall b (or_introl eq_refl)). cbn [length]. rewrite IH; auto. intros; apply Hall; right; auto. }
  lia.
Qed.

End WithCfg.
