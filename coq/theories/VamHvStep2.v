(* VamHvStep2.v — fifth pass over the allocator layer: VamInvM together with HH (every vkMapMemory on host-visible
   memory; persistently mapped allocations in host-visible memory) through every API function.  The per-type
   flag copy of calculateMemoryTypeParameters (Mapped cleared for memory types that are not host-visible) is
   what makes the allocator's own maps safe (alloc_of_type_inv); a user Map is in the domain only for an
   allocation in host-visible memory (allocation_map_inv). *)
From Coq Require Import ZArith List Bool Lia Permutation.
From Arsenal Require Import Util Budget BudgetProofs VamDev VamBlockList Vam VamInvMeta VamInv VamInvUpd VamInvDev.
From Arsenal Require Import VamInvStep VamInvStep2 VamAcct VamAcctStep VamAcctStep2 VamMap VamMapStep VamMapStep2 VamHv VamHvStep.
From Arsenal Require SyncMem SyncMemProofs VamFlush.
Import ListNotations.
Open Scope Z_scope.

Section WithCfg.
Variable c : vcfg.
Hypothesis Hc : cfg_ok c.
Hypothesis Hmax : 0 <= c_maxcount c < 2147483647.
Hypothesis Hlarge : 0 <= c_large c < 2 ^ 61.
Variable ms0 : list dmem.
Set Default Proof Using "Hc Hmax Hlarge".

Notation VamInvM := (VamMapStep.VamInvM c ms0).
Notation VamInvH := (VamHvStep.VamInvH c ms0).
Notation vh_m := (VamHvStep.vh_m c ms0).
Notation vh_h := (VamHvStep.vh_h c ms0).
Notation vh_s := (VamHvStep.vh_s c Hc Hmax Hlarge ms0).
Notation vh_aa := (VamHvStep.vh_aa c Hc Hmax Hlarge ms0).
Notation vh_mm := (VamHvStep.vh_mm c Hc Hmax Hlarge ms0).
Notation mach_sameX := (VamMapStep.mach_sameX c).
Notation HHc := (HH c ms0).
Notation VamInvH_mach_same := (VamHvStep.VamInvH_mach_same c Hc Hmax Hlarge ms0).
Notation bl_allocate_inv := (VamHvStep.bl_allocate_inv c Hc Hmax Hlarge ms0).
Notation bl_destroy_inv := (VamHvStep.bl_destroy_inv c Hc Hmax Hlarge ms0).
Notation create_min_blocks_inv := (VamHvStep.create_min_blocks_inv c Hc Hmax Hlarge ms0).
Notation free_block_slot_inv := (VamHvStep.free_block_slot_inv c Hc Hmax Hlarge ms0).
Notation bl_free_inv := (VamHvStep.bl_free_inv c Hc Hmax Hlarge ms0).
Notation kept := (VamHvStep.kept c ms0).
Notation keptS := (VamHvStep.keptS c ms0).
Notation HH_lists := (VamHvStep.HH_lists c Hc Hmax Hlarge ms0).
Notation tab_eq_frame := (VamHvStep.tab_eq_frame c Hc Hmax Hlarge).

(* the log gets no vkMapMemory and every Allocation object of v' is one of v *)
Lemma HH_mono v X v' : HHc v X -> mach_ext (v_m v) (v_m v') -> (forall s a', slot_is v' s a' -> slot_is v s a') -> HHc v' X.
Proof.
  intros H E Hs. apply (HH_step c ms0 v X); [exact H|exact E|]. intros s a' Sa HX Hp. exists s, a'. auto.
Qed.

Lemma fl_clear_same f b : 0 <= b -> fl (fl_clear f b) b = false.
Proof using.
  intros Hb. unfold fl, fl_clear. rewrite Z.land_spec, Z.lnot_spec by auto. rewrite Z.shiftl_spec by auto.
  rewrite Z.sub_diag. cbn. apply andb_false_r.
Qed.

(* allocateDedicatedMemoryPage *)
Lemma ded_page_HH v U X lr ty size sub doMap allowed s ded :
  VamInvH v U X -> (doMap = true -> host_visible c ty = true) -> 0 <= s < zlen (v_tab v) -> a_allocated (get_alloc v s) = false ->
  let '(v', r) := allocate_dedicated_page c v lr ty size sub doMap allowed s ded in
  match r with OK _ | ER _ => HHc v' X | _ => True end.
Proof.
  intros HIH Hhv Hs Hdead. pose proof (vh_s _ _ _ HIH) as HI. destruct (vh_mm _ _ _ HIH) as (_ & L). destruct (vh_h _ _ _ HIH) as (LH & PI).
  unfold allocate_dedicated_page.
  pose proof (alloc_vk_M c ms0 (v_m v) ty size ded L) as K. pose proof (alloc_vk_ext c (v_m v) ty size ded) as Ex.
  pose proof (alloc_vk_spec c (v_m v) ty size ded (vi_dev_pos _ _ _ _ HI)) as SP.
  destruct (alloc_vk c (v_m v) ty size ded) as (m1 & r). destruct K as (L1 & Em). cbn [fst] in Ex.
  assert (LH1 : LogHV c ms0 m1) by (eapply LogHV_ext; eauto).
  assert (Hkeep : forall m', LogHV c ms0 m' -> HHc (set_m v m') X).
  { intros m' L'. split; [exact L'|]. apply (PersistInv_sub c v X); [exact PI|apply persist_sub_nil; apply tab_frame_set_m]. }
  destruct r as [mem|code| |]; try exact I; [|apply Hkeep; exact LH1].
  destruct SP as (Eid & _).
  assert (Hfresh : find_mem (m_mems (v_m v)) mem = None) by (apply (VamMapStep.find_mem_fresh c Hc Hmax Hlarge v U X); [exact HI|lia]).
  assert (Hty : doMap = true -> forall d, find_mem (m_mems m1) mem = Some d -> host_visible c (dm_type d) = true).
  { intros Hd d Fd. rewrite Em, find_mem_app, Hfresh in Fd. cbn [dm_id] in Fd. rewrite Z.eqb_refl in Fd. injection Fd as <-. cbn. auto. }
  assert (Lmap : forall m2 s2 (mr : out unit), (if doMap then sm_map c m1 mem SyncMem.sm_init else (m1, SyncMem.sm_init, OK tt)) = (m2, s2, mr) ->
            LogHV c ms0 m2 /\ (SyncMem.mapped s2 = true -> doMap = true)).
  { intros m2 s2 mr E. destruct doMap.
    - pose proof (sm_map_H c ms0 m1 mem SyncMem.sm_init LH1 L1 (Hty eq_refl)) as P. rewrite E in P. auto.
    - injection E as <- <- _. split; [exact LH1|cbn; discriminate]. }
  destruct (if doMap then sm_map c m1 mem SyncMem.sm_init else (m1, SyncMem.sm_init, OK tt)) as ((m2 & s2) & mr) eqn:Emap.
  destruct (Lmap _ _ _ eq_refl) as (LH2 & Hp2).
  destruct mr as [[]|code| |]; try exact I.
  - destruct (SyncMem.mapped s2 && negb allowed); [exact I|].
    apply (HH_mach c); [|apply mach_ext_sameM; apply add_allocation_sameM]. split; [exact LH2|].
    intros s1 a1 S1 HX Hp. destruct (Z.eq_dec s1 s) as [->|Hne].
    + apply slot_is_set_alloc_same in S1; [|exact Hs]. destruct S1 as (-> & _). cbn in *. auto.
    + apply (slot_is_set_alloc_other (set_m v m2) s _ s1 a1 Hne) in S1. apply (proj1 (slot_is_set_m _ _ _ _)) in S1. eauto.
  - pose proof (free_vk_ext c m2 ty size mem) as Ef. destruct (free_vk c m2 ty size mem) as (m3 & fr). cbn [fst] in Ef.
    destruct fr as [[]|fcode| |]; try exact I. apply Hkeep. eapply LogHV_ext; eauto.
Qed.

Lemma ded_page_inv v U X lr l ty size sub doMap allowed s ded :
  VamInvH v U X -> (doMap = true -> host_visible c ty = true) -> get_blist v lr = Some l -> bl_type l = ty -> 0 <= size < 2 ^ 62 ->
  0 <= s < zlen (v_tab v) -> a_allocated (get_alloc v s) = false ->
  let '(v', r) := allocate_dedicated_page c v lr ty size sub doMap allowed s ded in
  match r with
  | OK _ => VamInvH v' (s :: U) X /\ tab_frame v v' [s] /\ lists_frame v v' /\
            exists a, slot_is v' s a /\ a_kind a = 2 /\ a_lref a = lr
  | ER _ => VamInvH v' U X /\ tab_frame v v' [s] /\ lists_frame v v' /\ a_allocated (get_alloc v' s) = false
  | _ => True
  end.
Proof.
  intros HI Hhv Hg Hty Hsz Hs Hdead.
  pose proof (VamMapStep2.ded_page_inv c Hc Hmax Hlarge ms0 v U X lr l ty size sub doMap allowed s ded (vh_m _ _ _ HI) Hg Hty Hsz Hs Hdead) as P.
  pose proof (ded_page_HH v U X lr ty size sub doMap allowed s ded HI Hhv Hs Hdead) as Q.
  destruct (allocate_dedicated_page c v lr ty size sub doMap allowed s ded) as (v' & r).
  destruct r as [[]|code| |]; auto; destruct P as (I1 & R1); (split; [split; [exact I1|exact Q]|exact R1]).
Qed.

Lemma dedicated_loop_inv slots : forall v X lr l ty size sub doMap allowed done ded,
  VamInvH v done X -> (doMap = true -> host_visible c ty = true) -> get_blist v lr = Some l -> bl_type l = ty -> 0 <= size < 2 ^ 62 -> NoDup (slots ++ done) ->
  dead_slots v slots -> ded_slots v lr done ->
  let '(v', r, done') := dedicated_loop c v lr ty size sub doMap allowed slots done ded in
  match r with
  | PANIC | STUCK => True
  | _ =>
    VamInvH v' done' X /\ tab_frame v v' slots /\ lists_frame v v' /\ ded_slots v' lr done' /\ NoDup done' /\
    (forall s, In s done -> In s done') /\ (forall s, In s done' -> In s (slots ++ done)) /\
    match r with
    | OK _ => forall s, In s slots -> In s done'
    | _ => forall s, In s slots -> In s done' \/ (0 <= s < zlen (v_tab v') /\ a_allocated (get_alloc v' s) = false)
    end
  end.
Proof.
  induction slots as [|s tl IH]; intros v X lr l ty size sub doMap allowed done ded HI Hhv Hg Hty Hsz Hnd Hdead Hdone; cbn [dedicated_loop].
  - split; [auto|]. split; [apply tab_frame_refl|]. split; [apply lists_frame_refl|]. split; [auto|].
    split; [rewrite app_nil_l in Hnd; auto|]. split; [auto|]. split; [auto|]. intros ? [].
  - destruct (Hdead s (or_introl eq_refl)) as (Hr & Hd).
    pose proof (ded_page_inv v done X lr l ty size sub doMap allowed s ded HI Hhv Hg Hty Hsz Hr Hd) as P.
    destruct (allocate_dedicated_page c v lr ty size sub doMap allowed s ded) as (v1 & r).
    cbn [app] in Hnd. inversion Hnd as [|? ? Hns Hnd']; subst.
    assert (Hnd_done : NoDup done) by (apply NoDup_app_r in Hnd'; auto).
    assert (Hdone1 : tab_frame v v1 [s] -> ded_slots v1 lr done).
    { intros T. eapply ded_slots_frame; [exact Hdone|exact T|]. intros s1 H1 [<-|[]]. apply Hns. apply in_app_iff. auto. }
    assert (Hdead1 : tab_frame v v1 [s] -> dead_slots v1 tl).
    { intros T. eapply dead_slots_frame; [intros s1 H1; apply Hdead; right; exact H1|exact T|].
      intros s1 H1 [<-|[]]. apply Hns. apply in_app_iff. auto. }
    destruct r as [[]|code| |]; auto.
    + destruct P as (I1 & T1 & L1 & (a & Sa & Ka & La)).
      assert (Hnd1 : NoDup (tl ++ s :: done)).
      { eapply Permutation.Permutation_NoDup; [apply Permutation.Permutation_middle|exact Hnd]. }
      assert (Hds1 : ded_slots v1 lr (s :: done)).
      { intros x [<-|Hx]; [eauto|apply (Hdone1 T1); auto]. }
      destruct (lf_some _ _ L1 _ _ Hg) as (l1 & Hg1 & C1).
      assert (Hty1 : bl_type l1 = bl_type l) by (apply C1).
      specialize (IH v1 X lr l1 (bl_type l) size sub doMap allowed (s :: done) ded I1 Hhv Hg1 Hty1 Hsz Hnd1 (Hdead1 T1) Hds1).
      destruct (dedicated_loop c v1 lr (bl_type l) size sub doMap allowed tl (s :: done) ded) as ((v2 & r2) & done2).
      destruct r2 as [[]|code| |]; auto; destruct IH as (I2 & T2 & L2 & D2 & N2 & S2 & Q2 & O2);
        (split; [auto|]);
        (split; [eapply tab_frame_trans; [exact T1|exact T2|intros ? [<-|[]]; left; reflexivity|intros; right; auto]|]);
        (split; [eapply lists_frame_trans; eauto|]); (split; [auto|]); (split; [auto|]);
        (split; [intros x Hx; apply S2; right; auto|]);
        (split; [intros x Hx; specialize (Q2 x Hx); apply in_app_iff in Q2; destruct Q2 as [H|[<-|H]];
                 [right; apply in_app_iff; auto|left; reflexivity|right; apply in_app_iff; auto]|]).
      * intros x [<-|Hx]; [apply S2; left; reflexivity|auto].
      * intros x [<-|Hx]; [left; apply S2; left; reflexivity|auto].
    + destruct P as (I1 & T1 & L1 & D1). split; [auto|].
      split; [eapply tab_frame_weaken; [exact T1|intros ? [<-|[]]; left; reflexivity]|]. split; [auto|].
      split; [apply Hdone1; auto|]. split; [auto|]. split; [auto|].
      split; [intros x Hx; right; apply in_app_iff; auto|].
      intros x [<-|Hx]; right.
      * split; [destruct T1 as (E & _); lia|auto].
      * apply (Hdead1 T1). auto.
Qed.



Lemma dedicated_rollback_ext done : forall v ty,
  mach_ext (v_m v) (v_m (fst (dedicated_rollback c v ty done))) /\ (forall s a', slot_is (fst (dedicated_rollback c v ty done)) s a' -> slot_is v s a').
Proof.
  induction done as [|s tl IH]; intros v ty; cbn [dedicated_rollback]; [split; [apply mach_ext_refl|auto]|].
  pose proof (free_vk_ext c (v_m v) ty (a_size (get_alloc v s)) (a_mem (get_alloc v s))) as Ef.
  destruct (free_vk c (v_m v) ty _ _) as (m1 & fr). cbn [fst] in Ef.
  destruct fr as [[]|code| |]; cbn [fst]; try (split; [exact Ef|intros s0 a0 H; apply (proj1 (slot_is_set_m _ _ _ _)) in H; exact H]).
  pose proof (remove_allocation_sameM c m1 (type_heap c ty) (a_size (get_alloc v s))) as Er. destruct (remove_allocation c m1 _ _) as (m2 & rr). cbn [fst] in Er.
  pose proof (mach_ext_trans _ _ _ Ef (mach_ext_sameM _ _ Er)) as E2.
  destruct rr as [[]|code| |]; cbn [fst]; try (split; [exact E2|intros s0 a0 H; apply (proj1 (slot_is_set_m _ _ _ _)) in H; exact H]).
  destruct (IH (set_alloc (set_m v m2) s (set_allocated (get_alloc v s) false)) ty) as (A & B). split; [eapply mach_ext_trans; [exact E2|exact A]|].
  intros s0 a0 H. apply B in H. destruct (Z.eq_dec s0 s) as [->|Hne].
  - exfalso. destruct (nth_z (v_tab v) s) as [x|] eqn:E.
    + apply slot_is_set_alloc_same in H; [|cbn; eapply nth_z_some_range; eauto]. destruct H as (-> & Hb). cbn in Hb. discriminate.
    + destruct H as (H & _). unfold set_alloc in H. cbn in H. rewrite nth_z_set_none in H by exact E. discriminate.
  - apply (slot_is_set_alloc_other (set_m v m2) s _ s0 a0 Hne) in H. apply (proj1 (slot_is_set_m _ _ _ _)) in H. exact H.
Qed.

Lemma dedicated_rollback_inv done : forall v X lr l ty,
  VamInvH v done X -> get_blist v lr = Some l -> bl_type l = ty -> NoDup done -> ded_slots v lr done ->
  let '(v', r) := dedicated_rollback c v ty done in
  match r with
  | OK _ => VamInvH v' [] X /\ tab_frame v v' done /\ lists_frame v v' /\ dead_slots v' done
  | ER _ => False
  | _ => True
  end.
Proof.
  intros v X lr l ty HI Hg Hty Hnd Hds.
  pose proof (VamMapStep2.dedicated_rollback_inv c Hc Hmax Hlarge ms0 done v X lr l ty (vh_m _ _ _ HI) Hg Hty Hnd Hds) as P.
  destruct (dedicated_rollback_ext done v ty) as (E & M).
  destruct (dedicated_rollback c v ty done) as (v' & r). cbn [fst] in E, M. destruct r as [[]|code| |]; auto.
  destruct P as (I1 & R1). split; [split; [exact I1|apply (HH_mono v X); [apply (vh_h _ _ _ HI)|exact E|exact M]]|exact R1].
Qed.

Definition alloc_post (v v' : vam) (X slots : list Z) (r : out unit) : Prop :=
  match r with
  | OK _ => VamInvH v' [] X /\ tab_frame v v' slots /\ lists_frame' v v' /\
            forall s, In s slots -> exists a, slot_is v' s a
  | ER _ => VamInvH v' [] X /\ tab_frame v v' slots /\ lists_frame' v v' /\ dead_slots v' slots
  | _ => True
  end.

Lemma allocate_dedicated_inv v X lr l ty size sub doMap allowed slots ded :
  VamInvH v [] X -> (doMap = true -> host_visible c ty = true) -> get_blist v lr = Some l -> bl_type l = ty -> 0 <= size < 2 ^ 62 -> NoDup slots -> dead_slots v slots ->
  let '(v', r) := allocate_dedicated c v lr ty size sub doMap allowed slots ded in alloc_post v v' X slots r.
Proof.
  intros HI Hhv Hg Hty Hsz Hnd Hdead. unfold allocate_dedicated. destruct slots as [|s0 tl0] eqn:Eslots; [exact I|]. rewrite <- Eslots in *.
  assert (Hnd0 : NoDup (slots ++ [])) by (rewrite app_nil_r; auto).
  assert (Hds0 : ded_slots v lr []) by (intros ? []).
  pose proof (dedicated_loop_inv slots v X lr l ty size sub doMap allowed [] ded HI Hhv Hg Hty Hsz Hnd0 Hdead Hds0) as DL.
  destruct (dedicated_loop c v lr ty size sub doMap allowed slots [] ded) as ((v1 & r) & done).
  destruct r as [[]|code| |]; auto.
  - destruct DL as (I1 & T1 & L1 & D1 & N1 & _ & Q1 & O1). cbn [alloc_post].
    destruct (lf_some _ _ L1 _ _ Hg) as (l1 & Hg1 & _).
    set (v2 := set_dedlist v1 lr (get_dedlist v1 lr ++ slots)).
    assert (Hlen : length (v_ded v1) = length (v_lists v1)).
    { rewrite (vi_ded_len _ _ _ _ (vh_s _ _ _ I1)), (vi_lists_len _ _ _ _ (vh_s _ _ _ I1)). reflexivity. }
    assert (I2 : VamInvH v2 [] X).
    { split; [|apply (HH_lists v1 X); [apply (vh_h _ _ _ I1)|apply set_dedlist_m|apply tab_frame_set_dedlist]].
      split; [|apply (VamMapStep2.MM_set_dedlist c Hc Hmax Hlarge ms0); apply (vh_mm _ _ _ I1)].
      split; [|apply (AInv_lists c Hc Hmax Hlarge v1 X v2 (vh_aa _ _ _ I1)); [apply set_dedlist_m|apply set_dedlist_tab|
               intros lr0 l0 H0; unfold v2 in H0; rewrite get_blist_set_dedlist in H0; eapply (ai_pref _ _ _ (vh_aa _ _ _ I1)); eauto]].
      apply (VamInvU_register c v1 v2 done slots X lr (vh_s _ _ _ I1) Hnd).
      - intros x. split; [auto|]. intros Hx. specialize (Q1 x Hx). rewrite app_nil_r in Q1. auto.
      - intros x Hx. destruct (D1 x Hx) as (a & Sa & _ & La). rewrite (get_alloc_slot _ _ _ Sa). auto.
      - intros. apply get_blist_set_dedlist.
      - apply set_dedlist_tab.
      - apply set_dedlist_m.
      - unfold v2. rewrite set_dedlist_lists. reflexivity.
      - apply set_dedlist_ded_len.
      - apply set_dedlist_uids.
      - apply set_dedlist_pids.
      - apply set_dedlist_next_uid.
      - apply set_dedlist_next_pid.
      - eapply get_dedlist_set_dedlist_same; eauto.
      - intros. apply get_dedlist_set_dedlist_other. auto. }
    split; [auto|]. split; [eapply tab_frame_trans_same; [exact T1|apply tab_frame_set_dedlist]|].
    split; [eapply lists_frame'_trans; [apply lists_frame_weak; exact L1|apply lists_frame'_set_dedlist]|].
    intros x Hx. destruct (D1 x (O1 x Hx)) as (a & Sa & _). exists a. unfold slot_is, v2. rewrite set_dedlist_tab. exact Sa.
  - destruct DL as (I1 & T1 & L1 & D1 & N1 & _ & Q1 & O1).
    destruct (lf_some _ _ L1 _ _ Hg) as (l1 & Hg1 & C1).
    pose proof (dedicated_rollback_inv done v1 X lr l1 ty I1 Hg1 ltac:(destruct C1 as (C1 & _); congruence) N1 D1) as RB.
    destruct (dedicated_rollback c v1 ty done) as (v2 & rr). destruct rr as [[]|rcode| |]; auto; [|contradiction].
    destruct RB as (I2 & T2 & L2 & D2). cbn [alloc_post].
    assert (Hsub : forall x, In x done -> In x slots) by (intros x Hx; specialize (Q1 x Hx); rewrite app_nil_r in Q1; auto).
    split; [auto|]. split; [eapply tab_frame_trans; [exact T1|exact T2|auto|exact Hsub]|].
    split; [apply lists_frame_weak; eapply lists_frame_trans; eauto|].
    intros x Hx. destruct (in_dec Z.eq_dec x done) as [Hin|Hnin]; [apply D2; auto|].
    destruct (O1 x Hx) as [H|(Hr & Hd)]; [contradiction|].
    split; [destruct T2 as (E & _); lia|]. rewrite (get_alloc_frame _ _ _ _ T2); auto.
Qed.

Lemma alloc_post_trans_fail v0 v1 v2 X slots code :
  VamInvH v1 [] X -> tab_frame v0 v1 slots -> lists_frame' v0 v1 ->
  alloc_post v1 v2 X slots (ER code) -> alloc_post v0 v2 X slots (ER code).
Proof.
  intros I T L (A & B & C & D). cbn. split; [auto|]. split; [eapply tab_frame_trans_same; eauto|].
  split; [eapply lists_frame'_trans; eauto|auto].
Qed.

Lemma alloc_post_pre v0 v1 v2 X slots r :
  tab_frame v0 v1 slots -> lists_frame' v0 v1 -> alloc_post v1 v2 X slots r -> alloc_post v0 v2 X slots r.
Proof.
  intros T L P. destruct r as [[]|code| |]; cbn in *; auto; destruct P as (A & B & C & D);
    (split; [auto|]; split; [eapply tab_frame_trans_same; eauto|]; split; [eapply lists_frame'_trans; eauto|auto]).
Qed.

Lemma calc_type_params_spec v ty size count flags :
  let '(v1, fr) := calc_type_params c v ty size count flags in
  exists m1, v1 = set_m v m1 /\ mach_sameX (v_m v) m1 /\
    match fr with
    | OK f => f = (if fl flags F_MAPPED && negb (host_visible c ty) then fl_clear flags F_MAPPED else flags)
    | ER _ => True
    | _ => False
    end.
Proof.
  unfold calc_type_params. destruct (_ && fl _ F_BUDGET).
  - pose proof ((VamMapStep.heap_budget_sameX c Hc Hmax Hlarge) (v_m v) (type_heap c ty)) as H.
    destruct (heap_budget c (v_m v) (type_heap c ty)) as ((m1 & usage) & budget). cbn [fst] in H.
    destruct (budget <? _); exists m1; auto.
  - exists (v_m v). split; [destruct v; reflexivity|]. split; [apply (VamMapStep.mach_sameX_refl c Hc Hmax Hlarge)|reflexivity].
Qed.

(* allocateMemoryOfType *)
Lemma alloc_of_type_inv v X lr l ty size align dedPref flags sub slots ded :
  VamInvH v [] X -> get_blist v lr = Some l -> bl_type l = ty -> 0 <= size < 2 ^ 62 -> align = 0 \/ Bits.pow2 align ->
  NoDup slots -> dead_slots v slots ->
  let '(v', r) := alloc_of_type c v lr ty size align dedPref flags sub slots ded in alloc_post v v' X slots r.
Proof.
  intros HI Hg Hty Hsz Hal Hnd Hdead. unfold alloc_of_type. destruct slots as [|s0 tl0] eqn:Eslots; [exact I|]. rewrite <- Eslots in *.
  rewrite Hg.
  (* calculateMemoryTypeParameters *)
  set (f1 := if fl flags F_MAPPED && negb (host_visible c ty) then fl_clear flags F_MAPPED else flags).
  pose proof (calc_type_params_spec v ty size (zlen slots) flags) as Hctp. fold f1 in Hctp.
  destruct (calc_type_params c v ty size (zlen slots) flags) as (v1 & fr).
  destruct Hctp as (m1 & -> & Hm1 & Hfr).
  assert (I1 : VamInvH (set_m v m1) [] X) by (apply VamInvH_mach_same; auto).
  assert (T1 : tab_frame v (set_m v m1) slots) by apply tab_frame_set_m.
  assert (L1 : lists_frame' v (set_m v m1)) by (apply lists_frame_weak; apply lists_frame_set_m).
  assert (Hg1 : get_blist (set_m v m1) lr = Some l) by (rewrite get_blist_set_m; auto).
  assert (Hdead1 : dead_slots (set_m v m1) slots) by exact Hdead.
  destruct fr as [flags'|code| |]; try contradiction.
  2:{ cbn. split; [auto|]. split; [auto|]. split; auto. }
  subst flags'.
  assert (Hhvf : fl f1 F_MAPPED = true -> host_visible c ty = true).
  { unfold f1. destruct (host_visible c ty) eqn:Ehv; [auto|]. intros H. destruct (fl flags F_MAPPED) eqn:Ef; cbn [andb negb] in H;
      [rewrite fl_clear_same in H by (unfold F_MAPPED; lia)|rewrite Ef in H]; discriminate H. }
  assert (Hded : forall w, VamInvH w [] X -> tab_frame v w slots -> lists_frame' v w -> get_blist w lr = Some l -> dead_slots w slots ->
            let '(v', r) := allocate_dedicated c w lr ty size sub (fl f1 F_MAPPED) (mapping_allowed f1) slots ded in alloc_post v v' X slots r).
  { intros w Iw Tw Lw Hgw Hdw. pose proof (allocate_dedicated_inv w X lr l ty size sub (fl f1 F_MAPPED) (mapping_allowed f1) slots ded Iw Hhvf Hgw Hty Hsz Hnd Hdw) as P.
    destruct (allocate_dedicated c w lr ty size sub (fl f1 F_MAPPED) (mapping_allowed f1) slots ded) as (v' & r).
    eapply alloc_post_pre; eauto. }
  destruct (fl f1 F_DEDICATED); [apply Hded; auto|].
  set (canDed := negb (fl f1 F_NEVER) && (negb match lr with LPool _ => true | LDef _ => false end || negb (bl_explicit l))).
  match goal with |- context [if canDed then ?x else dedPref] => set (dp := if canDed then x else dedPref) end.
  (* the preferred dedicated attempt *)
  assert (Hearly : let '(v2, early) :=
            (if canDed && dp then
               let '(v', r) := allocate_dedicated c (set_m v m1) lr ty size sub (fl f1 F_MAPPED) (mapping_allowed f1) slots ded in
               match r with OK _ => (v', Some (OK tt)) | ER _ => (v', None) | other => (v', Some other) end
             else (set_m v m1, None)) in
          match early with
          | Some r => alloc_post v v2 X slots r
          | None => VamInvH v2 [] X /\ tab_frame v v2 slots /\ lists_frame' v v2 /\ dead_slots v2 slots /\
                    exists l2, get_blist v2 lr = Some l2 /\ bl_type l2 = ty
          end).
  { destruct (canDed && dp).
    - specialize (Hded (set_m v m1) I1 T1 L1 Hg1 Hdead1).
      destruct (allocate_dedicated c (set_m v m1) lr ty size sub (fl f1 F_MAPPED) (mapping_allowed f1) slots ded) as (v' & r).
      destruct r as [[]|code| |]; auto. destruct Hded as (A & B & C & D). split; [auto|]. split; [auto|]. split; [auto|]. split; [auto|].
      destruct (lf'_some _ _ C _ _ Hg) as (l2 & G2 & C2). exists l2. split; [auto|]. destruct C2 as (C2 & _). congruence.
    - split; [auto|]. split; [auto|]. split; [auto|]. split; [auto|]. exists l. auto. }
  destruct (if canDed && dp then _ else _) as (v2 & early).
  destruct early as [r|]; [exact Hearly|].
  destruct Hearly as (I2 & T2 & L2 & D2 & l2 & G2 & Ty2).
  assert (Hmhv : map_hv c v2 lr f1) by (intros Hf l0 G0; assert (l0 = l2) by congruence; subst l0; rewrite Ty2; auto).
  pose proof (bl_allocate_inv v2 [] X lr slots size align f1 sub I2 Hmhv Hal Hnd D2) as BA.
  destruct (bl_allocate c v2 lr slots size align f1 sub) as (v3 & br).
  destruct br as [[]|bcode| |]; auto.
  - destruct BA as ((A & B & C) & (_ & D)). cbn. split; [auto|]. split; [eapply tab_frame_trans_same; eauto|].
    split; [eapply lists_frame'_trans; [exact L2|apply lists_frame_weak; exact C]|].
    intros x Hx. destruct (D x Hx) as (_ & a & Sa & _). eauto.
  - destruct BA as ((A & B & C) & D).
    assert (T3 : tab_frame v v3 slots) by (eapply tab_frame_trans_same; eauto).
    assert (L3 : lists_frame' v v3) by (eapply lists_frame'_trans; [exact L2|apply lists_frame_weak; exact C]).
    destruct (canDed && negb dp).
    + pose proof ((VamMapStep.heap_budget_sameX c Hc Hmax Hlarge) (v_m v3) (type_heap c ty)) as H.
      destruct (heap_budget c (v_m v3) (type_heap c ty)) as ((m4 & usage) & budget). cbn [fst] in H.
      assert (I4 : VamInvH (set_m v3 m4) [] X) by (apply VamInvH_mach_same; auto).
      destruct (budget <? _).
      * cbn. split; [auto|]. split; [eapply tab_frame_trans_same; [exact T3|apply tab_frame_set_m]|].
        split; [eapply lists_frame'_trans; [exact L3|apply lists_frame_weak; apply lists_frame_set_m]|exact D].
      * destruct (lf_some _ _ C _ _ G2) as (l3 & G3 & C3).
        pose proof (allocate_dedicated_inv (set_m v3 m4) X lr l3 ty size sub (fl f1 F_MAPPED) (mapping_allowed f1) slots ded I4 Hhvf
                      ltac:(rewrite get_blist_set_m; exact G3) ltac:(destruct C3 as (C3 & _); congruence) Hsz Hnd D) as P.
        destruct (allocate_dedicated c (set_m v3 m4) lr ty size sub (fl f1 F_MAPPED) (mapping_allowed f1) slots ded) as (v5 & r5).
        eapply alloc_post_pre; [| |exact P].
        -- eapply tab_frame_trans_same; [exact T3|apply tab_frame_set_m].
        -- eapply lists_frame'_trans; [exact L3|apply lists_frame_weak; apply lists_frame_set_m].
    + cbn. split; [auto|]. split; [auto|]. split; auto.
Qed.

Lemma type_loop_inv fuel : forall v X bits ty size align dedPref usage flags req pref ctb sub slots ded bufimg,
  VamInvH v [] X -> 0 <= size < 2 ^ 62 -> align = 0 \/ Bits.pow2 align -> NoDup slots -> dead_slots v slots ->
  let '(v', r) := type_loop c fuel v bits ty size align dedPref usage flags req pref ctb sub slots ded bufimg in
  alloc_post v v' X slots r.
Proof.
  induction fuel as [|f IH]; intros v X bits ty size align dedPref usage flags req pref ctb sub slots ded bufimg HI Hsz Hal Hnd Hdead;
    cbn [type_loop]; [exact I|].
  assert (Hfail : forall code, alloc_post v v X slots (ER code)).
  { intros code. cbn. split; [auto|]. split; [apply tab_frame_refl|]. split; [apply lists_frame'_refl|auto]. }
  destruct (get_blist v (LDef ty)) as [l|] eqn:Hg; [|apply Hfail].
  pose proof (alloc_of_type_inv v X (LDef ty) l ty size align dedPref flags sub slots ded HI Hg (vi_def_type _ _ _ _ (vh_s _ _ _ HI) _ _ Hg) Hsz Hal Hnd Hdead) as P.
  destruct (alloc_of_type c v (LDef ty) ty size align dedPref flags sub slots ded) as (v1 & r).
  destruct r as [[]|code| |]; auto.
  destruct (code =? VK_UNKNOWN); [exact P|].
  destruct P as (I1 & T1 & L1 & D1).
  destruct (find_type_index c (v_global v1) _ usage flags req pref ctb bufimg) as [ty'|].
  - specialize (IH v1 X (Z.land bits (Z.lnot (Z.shiftl 1 ty))) ty' size align dedPref usage flags req pref ctb sub slots ded bufimg I1 Hsz Hal Hnd D1).
    destruct (type_loop c f v1 _ ty' size align dedPref usage flags req pref ctb sub slots ded bufimg) as (v2 & r2).
    eapply alloc_post_pre; eauto.
  - cbn. split; [auto|]. split; [auto|]. split; auto.
Qed.

Lemma multi_allocate_inv v X size align typeBits reqDed prefDed ded bufimg usage flags0 req pref ctb pool sub slots :
  VamInvH v [] X -> size < 2 ^ 62 -> NoDup slots -> dead_slots v slots ->
  let '(v', r) := multi_allocate c v size align typeBits reqDed prefDed ded bufimg usage flags0 req pref ctb pool sub slots in
  alloc_post v v' X slots r.
Proof.
  intros HI Hsz0 Hnd Hdead. unfold multi_allocate.
  assert (Hfail : forall code, alloc_post v v X slots (ER code)).
  { intros code. cbn. split; [auto|]. split; [apply tab_frame_refl|]. split; [apply lists_frame'_refl|auto]. }
  destruct (is_pow2_or_zero align) eqn:Ea; cbn [negb]; [|apply Hfail].
  pose proof (pow2_or_zero_spec _ Ea) as Hal.
  destruct (size <? 1) eqn:Es1; [apply Hfail|]. assert (Hsz : 0 <= size < 2 ^ 62) by (apply Z.ltb_ge in Es1; lia).
  destruct (calc_params usage flags0 reqDed _) as [flags|code| |]; [|apply Hfail|exact I|exact I].
  destruct pool as [uid|].
  - destruct (get_blist v (LPool uid)) as [l|] eqn:Hg; [|exact I].
    apply (alloc_of_type_inv v X (LPool uid) l); auto.
  - destruct (find_type_index c (v_global v) typeBits usage flags req pref ctb bufimg) as [ty|]; [|apply Hfail].
    apply type_loop_inv; auto.
Qed.

(* AllocateMemory / AllocateMemorySlice into objects that are not allocated *)
Lemma allocate_memory_inv v X slot size align typeBits usage flags req pref ctb pool :
  VamInvH v [] X -> size < 2 ^ 62 -> 0 <= slot < zlen (v_tab v) ->
  let '(v', r) := allocate_memory c v slot size align typeBits usage flags req pref ctb pool in
  match r with
  | OK _ => VamInvH v' [] X /\ tab_frame v v' [slot] /\ lists_frame' v v' /\ exists a, slot_is v' slot a
  | ER _ => VamInvH v' [] X /\ tab_frame v v' [slot] /\ lists_frame' v v' /\
            a_allocated (get_alloc v' slot) = a_allocated (get_alloc v slot)
  | _ => True
  end.
Proof.
  intros HI Hsz Hr. unfold allocate_memory. destruct (a_allocated (get_alloc v slot)) eqn:Ea.
  - split; [auto|]. split; [apply tab_frame_refl|]. split; [apply lists_frame'_refl|auto].
  - assert (Hnd : NoDup [slot]) by (constructor; [intros []|constructor]).
    assert (Hdead : dead_slots v [slot]) by (intros s [<-|[]]; auto).
    pose proof (multi_allocate_inv v X size align typeBits false false 0 None usage flags req pref ctb pool 1 [slot] HI Hsz Hnd Hdead) as P.
    destruct (multi_allocate c v size align typeBits false false 0 None usage flags req pref ctb pool 1 [slot]) as (v' & r).
    destruct r as [[]|code| |]; auto; destruct P as (A & B & C & D); (split; [auto|]; split; [auto|]; split; [auto|]).
    + apply D. left. reflexivity.
    + apply D. left. reflexivity.
Qed.

Lemma allocate_memory_slice_inv v X slot n size align typeBits usage flags req pref ctb pool :
  VamInvH v [] X -> size < 2 ^ 62 -> 0 <= slot -> slot + n <= zlen (v_tab v) ->
  let '(v', r) := allocate_memory_slice c v slot n size align typeBits usage flags req pref ctb pool in
  let slots := slot_range slot (Z.to_nat n) in
  match r with
  | OK _ => VamInvH v' [] X /\ tab_frame v v' slots /\ lists_frame' v v' /\ forall s, In s slots -> exists a, slot_is v' s a
  | ER _ => VamInvH v' [] X /\ tab_frame v v' slots /\ lists_frame' v v' /\
            forall s, In s slots -> a_allocated (get_alloc v' s) = a_allocated (get_alloc v s)
  | _ => True
  end.
Proof.
  intros HI Hsz H0 Hn. unfold allocate_memory_slice. cbn zeta.
  destruct (slot_range_nodup (Z.to_nat n) slot) as (Hnd & Hrange).
  set (slots := slot_range slot (Z.to_nat n)) in *.
  assert (Hrefl : VamInvH v [] X /\ tab_frame v v slots /\ lists_frame' v v) by (split; [auto|split; [apply tab_frame_refl|apply lists_frame'_refl]]).
  destruct slots as [|s0 tl] eqn:Es.
  - destruct Hrefl as (A & B & C). split; [auto|]. split; [auto|]. split; [auto|]. intros ? [].
  - rewrite <- Es in *. destruct (existsb _ slots) eqn:Eex.
    + destruct Hrefl as (A & B & C). split; [auto|]. split; [auto|]. split; auto.
    + assert (Hdead : dead_slots v slots).
      { intros s Hs. split.
        - specialize (Hrange s Hs). destruct n as [|p|p]; [cbn in Hrange; lia|rewrite Z2Nat.id in Hrange by lia; lia|cbn in Hrange; lia].
        - destruct (a_allocated (get_alloc v s)) eqn:E; [|reflexivity]. exfalso.
          assert (existsb (fun s => a_allocated (get_alloc v s)) slots = true) by (apply existsb_exists; exists s; auto). congruence. }
      pose proof (multi_allocate_inv v X size align typeBits false false 0 None usage flags req pref ctb pool 1 slots HI Hsz Hnd Hdead) as P.
      destruct (multi_allocate c v size align typeBits false false 0 None usage flags req pref ctb pool 1 slots) as (v' & r).
      destruct r as [[]|code| |]; auto. destruct P as (A & B & C & D). split; [auto|]. split; [auto|]. split; [auto|].
      intros s Hs. destruct (D s Hs) as (_ & E). rewrite E. symmetry. apply Hdead. auto.
Qed.
(* ---------------------------------------------------------------- freeing *)

Lemma free_dedicated_ext v s : mach_ext (v_m v) (v_m (fst (free_dedicated c v s))) /\ v_tab (fst (free_dedicated c v s)) = v_tab v.
Proof.
  unfold free_dedicated. destruct (negb _); [split; [apply mach_ext_refl|reflexivity]|].
  set (v1 := set_dedlist v _ _). assert (E1 : v_m v1 = v_m v) by apply set_dedlist_m. assert (T1 : v_tab v1 = v_tab v) by apply set_dedlist_tab.
  pose proof (free_vk_ext c (v_m v1) (a_type (get_alloc v s)) (a_size (get_alloc v s)) (a_mem (get_alloc v s))) as Ef. rewrite E1 in Ef at 1.
  destruct (free_vk c (v_m v1) _ _ _) as (m1 & fr). cbn [fst] in Ef.
  destruct fr as [[]|code| |]; cbn [fst]; try (split; [exact Ef|exact T1]).
  pose proof (remove_allocation_sameM c m1 (type_heap c (a_type (get_alloc v s))) (a_size (get_alloc v s))) as Er.
  destruct (remove_allocation c m1 _ _) as (m2 & rr). cbn [fst] in Er |- *.
  split; [eapply mach_ext_trans; [exact Ef|apply mach_ext_sameM; exact Er]|exact T1].
Qed.

Lemma free_ded_slot_inv v X s a :
  VamInvH v [] X -> slot_is v s a -> a_kind a = 2 ->
  let '(v', r) := free_dedicated c v s in
  match r with
  | OK _ => let v2 := set_alloc v' s (set_allocated (get_alloc v' s) false) in
            VamInvH v2 [] X /\ tab_frame v v2 [s] /\ lists_frame' v v2 /\ a_allocated (get_alloc v2 s) = false
  | ER _ => False
  | _ => True
  end.
Proof.
  intros HI Sa Ka. pose proof (VamMapStep2.free_ded_slot_inv c Hc Hmax Hlarge ms0 v X s a (vh_m _ _ _ HI) Sa Ka) as P.
  destruct (free_dedicated_ext v s) as (E & T).
  destruct (free_dedicated c v s) as (v' & r). cbn [fst] in E, T. destruct r as [[]|code| |]; auto.
  cbn zeta in *. destruct P as (I1 & R1). split; [|exact R1]. split; [exact I1|].
  assert (H1 : HHc v' X) by (apply (HH_step c ms0 v X); [apply (vh_h _ _ _ HI)|exact E|apply persist_sub_nil; apply tab_eq_frame; exact T]).
  apply (VamHvStep.HH_unmark c Hc Hmax Hlarge ms0); [|reflexivity]. eapply (VamHvStep.HH_weaken c Hc Hmax Hlarge ms0); [exact H1|intros; right; auto].
Qed.

Lemma multi_free_inv slots : forall v X,
  VamInvH v [] X -> NoDup slots -> live_slots v X slots ->
  let '(v', r) := multi_free c v slots in
  match r with
  | OK _ => VamInvH v' [] X /\ tab_frame v v' slots /\ lists_frame' v v' /\ dead_slots v' slots
  | ER _ => VamInvH v' [] X /\ tab_frame v v' slots /\ lists_frame' v v'
  | _ => True
  end.
Proof.
  induction slots as [|s tl IH]; intros v X HI Hnd Hlive; cbn [multi_free].
  - split; [auto|]. split; [apply tab_frame_refl|]. split; [apply lists_frame'_refl|intros ? []].
  - inversion Hnd as [|? ? Hns Hnd']; subst.
    destruct (Hlive s (or_introl eq_refl)) as (HnX & a & Sa).
    assert (Hstep : let '(v1, r) := free_single c v s in
              match r with
              | OK _ => let v2 := set_alloc v1 s (set_allocated (get_alloc v1 s) false) in
                        VamInvH v2 [] X /\ tab_frame v v2 [s] /\ lists_frame' v v2 /\ a_allocated (get_alloc v2 s) = false
              | ER _ => VamInvH v1 [] X /\ tab_frame v v1 [s] /\ lists_frame' v v1
              | _ => True end).
    { unfold free_single. rewrite (get_alloc_slot _ _ _ Sa).
      destruct (vi_slots _ _ _ _ (vh_s _ _ _ HI) s a Sa HnX) as [(K & _)|(K & _)]; rewrite K; cbn [Z.eqb Pos.eqb].
      - pose proof (free_block_slot_inv v [] X s a false HI Sa HnX K) as F.
        destruct (bl_free c v (a_lref a) s false) as (v1 & r). destruct r as [[]|code| |]; auto.
        + destruct F as ((A & B & C) & D). cbn zeta. split; [auto|]. split; [auto|]. split; [apply lists_frame_weak; auto|auto].
        + destruct F as (A & B & C). split; [auto|]. split; [eapply tab_frame_weaken; [exact B|intros ? []]|apply lists_frame_weak; auto].
      - pose proof (free_ded_slot_inv v X s a HI Sa K) as F.
        destruct (free_dedicated c v s) as (v1 & r). destruct r as [[]|code| |]; auto. contradiction. }
    destruct (free_single c v s) as (v1 & r). destruct r as [[]|code| |]; auto.
    + cbn zeta in Hstep. set (v2 := set_alloc v1 s (set_allocated (get_alloc v1 s) false)) in *.
      destruct Hstep as (I2 & T2 & L2 & D2).
      assert (Hlive2 : live_slots v2 X tl).
      { intros x Hx. destruct (Hlive x (or_intror Hx)) as (HX & b & Sb). split; [auto|]. exists b.
        apply (slot_is_frame _ _ _ _ _ T2); auto. intros [<-|[]]. contradiction. }
      specialize (IH v2 X I2 Hnd' Hlive2). destruct (multi_free c v2 tl) as (v3 & r3).
      destruct r3 as [[]|code| |]; auto.
      * destruct IH as (I3 & T3 & L3 & D3). split; [auto|].
        split; [eapply tab_frame_trans; [exact T2|exact T3|intros ? [<-|[]]; left; reflexivity|intros; right; auto]|].
        split; [eapply lists_frame'_trans; eauto|].
        intros x [<-|Hx]; [|apply D3; auto].
        split; [destruct T3 as (E & _); destruct T2 as (E2 & _); rewrite E, E2; eapply slot_is_range; eauto|].
        rewrite (get_alloc_frame _ _ _ _ T3); auto.
      * destruct IH as (I3 & T3 & L3). split; [auto|].
        split; [eapply tab_frame_trans; [exact T2|exact T3|intros ? [<-|[]]; left; reflexivity|intros; right; auto]|eapply lists_frame'_trans; eauto].
    + destruct Hstep as (A & B & C). split; [auto|]. split; [eapply tab_frame_weaken; [exact B|intros ? [<-|[]]; left; reflexivity]|auto].
Qed.


(* ---------------------------------------------------------------- Map / Unmap / Flush *)

Lemma sm_update_inv v X s a m' sm' :
  VamInvH v [] X -> slot_is v s a -> ~ In s X -> mach_sameA c (v_m v) m' -> LogHV c ms0 m' ->
  (a_kind a = 1 -> forall b, get_block v (a_lref a) (a_blk a) = Some b -> sm_post ms0 (v_m v) (bk_mem b) m' sm' ->
     let v' := put_block (set_m v m') (a_lref a) (mkBlock (bk_id b) (bk_mem b) sm' (bk_meta b)) in
     VamInvH v' [] X /\ tab_frame v v' [] /\ lists_frame v v') /\
  (a_kind a = 2 -> sm_post ms0 (v_m v) (a_mem a) m' sm' ->
     let v' := set_alloc (set_m v m') s (set_a_sm a sm') in
     VamInvH v' [] X /\ tab_frame v v' [s] /\ lists_frame v v').
Proof.
  intros HI Sa HnX Hm LH'. destruct (VamMapStep2.sm_update_inv c Hc Hmax Hlarge ms0 v X s a m' sm' (vh_m _ _ _ HI) Sa HnX Hm) as (P1 & P2).
  destruct (vh_h _ _ _ HI) as (_ & PI). split.
  - intros K b Hgb Hpost. destruct (P1 K b Hgb Hpost) as (A & T & L). cbn zeta. split; [|auto]. split; [exact A|].
    split; [rewrite put_block_m; exact LH'|]. apply (PersistInv_sub c v X); [exact PI|apply persist_sub_nil; exact T].
  - intros K Hpost. destruct (P2 K Hpost) as (A & T & L). cbn zeta. split; [|auto]. split; [exact A|]. split; [exact LH'|].
    intros s1 a1 S1 HX Hp. destruct (Z.eq_dec s1 s) as [->|Hne].
    + apply slot_is_set_alloc_same in S1; [|cbn; eapply slot_is_range; eauto]. destruct S1 as (-> & _). cbn in *. eauto.
    + apply (slot_is_set_alloc_other (set_m v m') s _ s1 a1 Hne) in S1. apply (proj1 (slot_is_set_m _ _ _ _)) in S1. eauto.
Qed.

Definition slot_post (v v' : vam) (s : Z) (r : out unit) : Prop :=
  match r with PANIC | STUCK => True | _ => VamInvH v' [] [] /\ tab_frame v v' [s] /\ lists_frame v v' end.

Lemma slot_post_refl v s r : VamInvH v [] [] -> slot_post v v s r.
Proof. intros H. destruct r; cbn; auto; (split; [auto|split; [apply tab_frame_refl|apply lists_frame_refl]]). Qed.

Lemma slot_post_of v v' s r : VamInvH v' [] [] /\ tab_frame v v' [s] /\ lists_frame v v' -> slot_post v v' s r.
Proof. intros H. destruct r; cbn; auto. Qed.

Lemma weaken_nil v v' s : tab_frame v v' [] -> tab_frame v v' [s].
Proof. intros H. eapply tab_frame_weaken; [exact H|intros ? []]. Qed.

(* Map of an allocation in host-visible memory *)
Lemma allocation_map_inv v s :
  VamInvH v [] [] -> host_visible c (a_type (get_alloc v s)) = true -> let '(v', r) := allocation_map c v s in slot_post v v' s r.
Proof.
  intros HI Hhv. unfold allocation_map. set (a := get_alloc v s) in *.
  destruct (negb (a_mapallowed a)); [apply slot_post_refl; auto|].
  destruct (a_allocated a) eqn:Ea; cbn [negb]; [|apply slot_post_refl; auto].
  pose proof (get_alloc_allocated v s Ea) as Sa. fold a in Sa.
  destruct (vh_mm _ _ _ HI) as (MI & L). destruct (vh_h _ _ _ HI) as (LH & _).
  destruct (a_kind a =? 1) eqn:K1.
  - apply Z.eqb_eq in K1. destruct (get_block v (a_lref a) (a_blk a)) as [b|] eqn:Hgb; [|exact I].
    destruct (get_block_in _ _ _ _ Hgb) as (l & Hg & Hb & Hid).
    pose proof (sm_map_sameA c Hc Hmax Hlarge (v_m v) (bk_mem b) (bk_sm b)) as Hm.
    pose proof (sm_map_M c ms0 (v_m v) (bk_mem b) (bk_sm b) L (mi_blocks _ _ MI _ _ _ Hg Hb)) as Hp.
    assert (Hty : forall d, find_mem (m_mems (v_m v)) (bk_mem b) = Some d -> host_visible c (dm_type d) = true).
    { intros d Fd. destruct (vi_block_mem _ _ _ _ (vh_s _ _ _ HI) _ _ _ Hg Hb) as (d0 & F0 & T0 & _). assert (d0 = d) by congruence. subst d0.
      destruct (vi_slots _ _ _ _ (vh_s _ _ _ HI) s a Sa (fun H => H)) as [(_ & l2 & b2 & rg & G2 & _ & _ & _ & _ & _ & _ & _ & _ & Ty2)|(K & _)]; [|congruence].
      assert (l2 = l) by congruence. subst l2. rewrite T0, <- Ty2. exact Hhv. }
    pose proof (sm_map_H c ms0 (v_m v) (bk_mem b) (bk_sm b) LH L Hty) as Hl.
    destruct (sm_map c (v_m v) (bk_mem b) (bk_sm b)) as ((m1 & s1) & r). cbn [fst] in Hm, Hl.
    destruct (sm_update_inv v [] s a m1 s1 HI Sa (fun H => H) Hm Hl) as (P1 & _). specialize (P1 K1 b Hgb Hp). cbn zeta in P1.
    destruct P1 as (A & B & C).
    destruct r as [[]|code| |]; try exact I.
    + destruct (find_offset _ a); [|exact I]. cbn. split; [auto|]. split; [apply weaken_nil; auto|auto].
    + cbn. split; [auto|]. split; [apply weaken_nil; auto|auto].
  - destruct (a_kind a =? 2) eqn:K2; [|exact I]. apply Z.eqb_eq in K2.
    pose proof (sm_map_sameA c Hc Hmax Hlarge (v_m v) (a_mem a) (a_sm a)) as Hm.
    pose proof (sm_map_M c ms0 (v_m v) (a_mem a) (a_sm a) L (mi_ded _ _ MI s a Sa (fun H => H) K2)) as Hp.
    assert (Hty : forall d, find_mem (m_mems (v_m v)) (a_mem a) = Some d -> host_visible c (dm_type d) = true).
    { intros d Fd. destruct (vi_slots _ _ _ _ (vh_s _ _ _ HI) s a Sa (fun H => H)) as [(K & _)|(_ & _ & _ & d0 & F0 & T0 & _)]; [congruence|].
      assert (d0 = d) by congruence. subst d0. rewrite T0. exact Hhv. }
    pose proof (sm_map_H c ms0 (v_m v) (a_mem a) (a_sm a) LH L Hty) as Hl.
    destruct (sm_map c (v_m v) (a_mem a) (a_sm a)) as ((m1 & s1) & r). cbn [fst] in Hm, Hl.
    destruct (sm_update_inv v [] s a m1 s1 HI Sa (fun H => H) Hm Hl) as (_ & P2). specialize (P2 K2 Hp). cbn zeta in P2.
    apply slot_post_of. exact P2.
Qed.

Lemma allocation_unmap_inv v s :
  VamInvH v [] [] -> let '(v', r) := allocation_unmap v s in slot_post v v' s r.
Proof.
  intros HI. unfold allocation_unmap. set (a := get_alloc v s).
  destruct (a_allocated a) eqn:Ea; cbn [negb]; [|exact I].
  pose proof (get_alloc_allocated v s Ea) as Sa. fold a in Sa.
  destruct (vh_mm _ _ _ HI) as (MI & L). destruct (vh_h _ _ _ HI) as (LH & _).
  destruct (a_kind a =? 1) eqn:K1.
  - apply Z.eqb_eq in K1. destruct (get_block v (a_lref a) (a_blk a)) as [b|] eqn:Hgb; [|exact I].
    destruct (get_block_in _ _ _ _ Hgb) as (l & Hg & Hb & Hid).
    pose proof (sm_unmap_sameA c Hc Hmax Hlarge (v_m v) (bk_mem b) (bk_sm b)) as Hm.
    pose proof (sm_unmap_M ms0 (v_m v) (bk_mem b) (bk_sm b) L (mi_blocks _ _ MI _ _ _ Hg Hb)) as Hp.
    pose proof (sm_unmap_ext (v_m v) (bk_mem b) (bk_sm b)) as He.
    destruct (sm_unmap (v_m v) (bk_mem b) (bk_sm b)) as ((m1 & s1) & r). cbn [fst] in Hm, He.
    destruct (sm_update_inv v [] s a m1 s1 HI Sa (fun H => H) Hm (LogHV_ext c ms0 _ _ LH He)) as (P1 & _). specialize (P1 K1 b Hgb Hp). cbn zeta in P1.
    destruct P1 as (A & B & C). apply slot_post_of. split; [auto|]. split; [apply weaken_nil; auto|auto].
  - destruct (a_kind a =? 2) eqn:K2; [|exact I]. apply Z.eqb_eq in K2.
    pose proof (sm_unmap_sameA c Hc Hmax Hlarge (v_m v) (a_mem a) (a_sm a)) as Hm.
    pose proof (sm_unmap_M ms0 (v_m v) (a_mem a) (a_sm a) L (mi_ded _ _ MI s a Sa (fun H => H) K2)) as Hp.
    pose proof (sm_unmap_ext (v_m v) (a_mem a) (a_sm a)) as He.
    destruct (sm_unmap (v_m v) (a_mem a) (a_sm a)) as ((m1 & s1) & r). cbn [fst] in Hm, He.
    destruct (sm_update_inv v [] s a m1 s1 HI Sa (fun H => H) Hm (LogHV_ext c ms0 _ _ LH He)) as (_ & P2). specialize (P2 K2 Hp). cbn zeta in P2.
    apply slot_post_of. exact P2.
Qed.

Lemma slot_post_trans v0 v1 v2 s r : VamInvH v1 [] [] -> tab_frame v0 v1 [s] -> lists_frame v0 v1 -> slot_post v1 v2 s r -> slot_post v0 v2 s r.
Proof.
  intros I T L P. destruct r as [[]|code| |]; cbn in *; auto; destruct P as (A & B & C);
    (split; [auto|]; split; [eapply tab_frame_trans_same; eauto|eapply lists_frame_trans; eauto]).
Qed.

(* the harness maps, writes, reads and unmaps *)
Lemma harness_rw_inv v s : VamInvH v [] [] -> host_visible c (a_type (get_alloc v s)) = true -> let '(v', r) := harness_rw c v s in slot_post v v' s r.
Proof.
  intros HI Hhv. unfold harness_rw. pose proof (allocation_map_inv v s HI Hhv) as M.
  destruct (allocation_map c v s) as (v1 & r). destruct r as [[]|code| |]; auto.
  destruct M as (A & B & C). pose proof (allocation_unmap_inv v1 s A) as U.
  destruct (allocation_unmap v1 s) as (v2 & ur).
  assert (P : slot_post v v2 s ur) by (eapply slot_post_trans; eauto).
  destruct ur as [[]|ucode| |]; auto.
Qed.

Lemma allocation_flush_inv v inval s off size :
  1 <= c_atom c ->
  VamInvH v [] [] -> let '(v', r) := allocation_flush c v inval s off size in slot_post v v' s r.
Proof.
  intros Hatom HI. pose proof (VamMapStep2.allocation_flush_inv c Hc Hmax Hlarge ms0 v inval s off size Hatom (vh_m _ _ _ HI)) as P.
  unfold allocation_flush in *. destruct (negb _); [apply slot_post_refl; auto|].
  destruct (flush_range c v (get_alloc v s) off size) as [[(roff & rsize)|]|code| |]; try (apply slot_post_refl; auto); try exact I.
  assert (Hx : mach_ext (v_m v) (fst (dev_flush (v_m v) inval (a_mem (get_alloc v s)) roff rsize))).
  { unfold dev_flush. destruct (find_mem _ _); [|apply mach_ext_log; reflexivity]. destruct (dev_fault _ _ _) as ((f1 & fired1) & r). cbn [fst].
    eapply mach_ext_trans; [apply (mach_ext_quiet (v_m v) (set_fault (v_m v) f1 fired1)); reflexivity|apply mach_ext_log; reflexivity]. }
  destruct (dev_flush (v_m v) inval (a_mem (get_alloc v s)) roff rsize) as (m1 & code). cbn [fst] in Hx.
  apply slot_post_of.
  assert (PM : VamInvM (set_m v m1) [] [] /\ tab_frame v (set_m v m1) [s] /\ lists_frame v (set_m v m1)) by (destruct (code =? 0); exact P).
  destruct PM as (A & B & C0). split; [split; [exact A|apply (HH_mach c); [exact (vh_h _ _ _ HI)|exact Hx]]|auto].
Qed.


(* ---------------------------------------------------------------- pools *)

Lemma pool_destroy_HH v uid :
  VamInvH v [] [] ->
  let '(v', r) := pool_destroy c v uid in
  match r with OK _ => HHc v' [] | _ => True end.
Proof.
  intros HI. unfold pool_destroy. destruct (find_pool (v_pools v) uid) as [p|] eqn:Hf; [|exact I].
  destruct (p_ded p); [|exact I].
  pose proof (bl_destroy_inv v [] [] (LPool uid) HI) as BD.
  destruct (bl_destroy c v (LPool uid)) as (v1 & r). destruct r as [[]|code| |]; auto.
  destruct BD as ((I1 & T1 & L1) & _).
  apply (HH_lists v1 []); [apply (vh_h _ _ _ I1)|reflexivity|split; [reflexivity|intros; reflexivity]].
Qed.

Lemma pool_destroy_inv v uid nextId :
  VamInvH v [] [] ->
  Forall (fun q => p_id q < nextId) (remove_pool (v_pools v) uid) ->
  let '(v', r) := pool_destroy c v uid in
  match r with
  | OK _ => VamInvH (mkVam (v_m v') (v_global v') (v_lists v') (v_ded v') (v_pools v') nextId (v_next_uid v') (v_tab v')) [] [] /\
            tab_frame v v' [] /\ find_pool (v_pools v') uid = None /\
            map p_id (v_pools v') = map p_id (remove_pool (v_pools v) uid)
  | ER _ => v' = v /\ exists p, find_pool (v_pools v) uid = Some p /\
              (p_ded p <> [] \/ exists b, In b (bl_blocks (p_list p)) /\ meta_is_empty (bk_meta b) = false)
  | _ => True
  end.
Proof.
  intros HI Hids. pose proof (VamMapStep2.pool_destroy_inv c Hc Hmax Hlarge ms0 v uid nextId (vh_m _ _ _ HI) Hids) as P.
  pose proof (pool_destroy_HH v uid HI) as Q.
  destruct (pool_destroy c v uid) as (v' & r). destruct r as [[]|code| |]; auto.
  destruct P as (I1 & R1). split; [|exact R1]. split; [exact I1|].
  apply (HH_lists v' []); [exact Q|reflexivity|split; [reflexivity|intros; reflexivity]].
Qed.

Lemma rmpool_inv v uid :
  VamInvH v [] [] ->
  let '(v', r) := pool_destroy c v uid in
  match r with PANIC | STUCK => True | _ => VamInvH v' [] [] /\ tab_frame v v' [] end.
Proof.
  intros HI.
  assert (Hids : Forall (fun q => p_id q < v_next_pool_id v) (remove_pool (v_pools v) uid)).
  { apply Forall_forall. intros q Hq. destruct (vi_pools_id _ _ _ _ (vh_s _ _ _ HI)) as (_ & Hf). rewrite Forall_forall in Hf. apply Hf.
    eapply in_remove_pool; eauto. }
  pose proof (pool_destroy_inv v uid (v_next_pool_id v) HI Hids) as P.
  destruct (pool_destroy c v uid) as (v' & r) eqn:E. destruct r as [[]|code| |]; auto.
  - destruct P as (I1 & T1 & _ & _).
    assert (En : v_next_pool_id v' = v_next_pool_id v).
    { unfold pool_destroy in E. destruct (find_pool (v_pools v) uid) as [p|]; [|discriminate]. destruct (p_ded p); [|discriminate].
      pose proof (bl_destroy_inv v [] [] (LPool uid) HI) as BD. destruct (bl_destroy c v (LPool uid)) as (v1 & r1).
      destruct r1 as [[]|code| |]; try discriminate. injection E as <-. cbn. destruct BD as ((_ & _ & L) & _). apply (lf_next _ _ L). }
    rewrite <- En, vam_eta in I1. auto.
  - destruct P as (-> & _). split; [auto|apply tab_frame_refl].
Qed.

Lemma create_pool_inv v ty flags blockSize minB maxB0 minAlign :
  VamInvH v [] [] -> 0 <= blockSize < 2 ^ 62 ->
  let '(v', r) := create_pool c v ty flags blockSize minB maxB0 minAlign in
  match r with PANIC | STUCK => True | _ => VamInvH v' [] [] /\ tab_frame v v' [] end.
Proof.
  intros HI Hbs0. unfold create_pool.
  assert (Hrefl : VamInvH v [] [] /\ tab_frame v v []) by (split; [auto|apply tab_frame_refl]).
  destruct (_ <? minB); [exact Hrefl|]. destruct ((ty <? 0) || (ntypes c <=? ty)) eqn:Ety; [exact Hrefl|].
  destruct (negb (N.testbit _ _)); [exact Hrefl|]. destruct ((0 <? minAlign) && negb (is_pow2_or_zero minAlign)) eqn:Eal; [exact Hrefl|].
  set (bs := if blockSize =? 0 then preferred_block_size c ty else blockSize).
  set (al := if type_min_alignment c ty <? minAlign then minAlign else type_min_alignment c ty).
  set (gr := if Z.testbit flags 0 then 1 else eff_granularity c).
  set (l := mkBlist ty bs minB (if maxB0 =? 0 then MAXINT else maxB0) gr (negb (blockSize =? 0)) (Z.land flags 2) al [] 0 true).
  set (uid := v_next_uid v).
  assert (Hwf : blist_wf c l).
  { constructor; cbn.
    9: (unfold gr, eff_granularity; destruct (Z.testbit flags 0); auto).
    all: try constructor; try lia.
    - unfold type_valid. apply orb_false_iff in Ety. destruct Ety as (E1 & E2). apply Z.ltb_ge in E1. apply Z.leb_gt in E2.
      apply andb_true_iff. split; [apply Z.leb_le; lia|apply Z.ltb_lt; lia].
    - unfold al. pose proof (type_min_alignment_pow2 c Hc ty) as Ht. destruct (type_min_alignment c ty <? minAlign) eqn:E; [|auto].
      apply Z.ltb_lt in E. pose proof (Bits.pow2_pos _ Ht). apply andb_false_iff in Eal. destruct Eal as [Eal|Eal].
      + apply Z.ltb_ge in Eal. lia.
      + apply negb_false_iff in Eal. destruct (pow2_or_zero_spec _ Eal); [lia|auto].
    - unfold gr. destruct (Z.testbit flags 0); [apply Bits.pow2_1|apply (eff_granularity_pow2 c Hc)].
    - unfold al. destruct (type_min_alignment c ty <? minAlign) eqn:E; [apply Z.ltb_lt in E|]; unfold type_min_alignment in *; lia. }
  assert (Hbs : 0 <= bs < 2 ^ 62).
  { unfold bs. destruct (blockSize =? 0); [apply (preferred_block_size_bound c Hc Hmax Hlarge)|exact Hbs0]. }
  assert (I0 : VamInvH (mkVam (v_m v) (v_global v) (v_lists v) (v_ded v) (mkPool (v_next_uid v) (v_next_pool_id v) l [] :: v_pools v)
                   (v_next_pool_id v + 1) (v_next_uid v + 1) (v_tab v)) [] []).
  { split; [|apply (HH_lists v []); [apply (vh_h _ _ _ HI)|reflexivity|split; [reflexivity|intros; reflexivity]]].
    split.
    - split; [exact (VamInvU_add_pool c v [] [] l (vh_s _ _ _ HI) Hwf eq_refl)|].
      apply (AInv_lists c Hc Hmax Hlarge v [] _ (vh_aa _ _ _ HI)); [reflexivity|reflexivity|].
      intros lr l' Hg. destruct lr as [t|u]; [apply (ai_pref _ _ _ (vh_aa _ _ _ HI) (LDef t)); exact Hg|].
      cbn in Hg. destruct (v_next_uid v =? u) eqn:Eu.
      + injection Hg as <-. exact Hbs.
      + apply (ai_pref _ _ _ (vh_aa _ _ _ HI) (LPool u)). exact Hg.
    - apply (MM_lists ms0 v []); [apply (vh_mm _ _ _ HI)|reflexivity|split; [reflexivity|intros; reflexivity]|].
      intros lr l' b' Hg Hb'. destruct lr as [t|u]; [exists (LDef t), l', b'; auto|].
      cbn in Hg. destruct (v_next_uid v =? u) eqn:Eu.
      + injection Hg as <-. destruct Hb'.
      + exists (LPool u), l', b'. auto. }
  fold uid in I0.
  set (v0 := mkVam (v_m v) (v_global v) (v_lists v) (v_ded v) (mkPool uid (v_next_pool_id v) l [] :: v_pools v)
                   (v_next_pool_id v + 1) (uid + 1) (v_tab v)) in *.
  pose proof (create_min_blocks_inv (Z.to_nat minB) v0 [] [] (LPool uid) bs I0 Hbs) as CM.
  destruct (create_min_blocks c (Z.to_nat minB) v0 (LPool uid) bs) as (v1 & r).
  destruct CM as (I1 & T1 & L1).
  assert (T01 : tab_frame v v1 []) by (destruct T1 as (A & B); split; auto).
  destruct r as [[]|code| |]; auto.
  (* creation failed: the blocks created so far are released, the pool unlinked, nextPoolId restored *)
  assert (Hfresh : find_pool (v_pools v) uid = None).
  { apply find_pool_none_fresh. eapply Forall_impl; [|exact (vi_pools_uid _ _ _ _ (vh_s _ _ _ HI))]. cbn. intros; lia. }
  assert (Hu1 : map p_uid (v_pools v1) = uid :: map p_uid (v_pools v)) by (rewrite (lf_uids _ _ L1); reflexivity).
  assert (Hp1 : map p_id (v_pools v1) = v_next_pool_id v :: map p_id (v_pools v)) by (rewrite (lf_pids _ _ L1); reflexivity).
  assert (Hrem : map p_id (remove_pool (v_pools v1) uid) = map p_id (v_pools v)).
  { destruct (v_pools v1) as [|q qs]; cbn in *; [discriminate|]. injection Hu1 as Hq Hu. injection Hp1 as Hq' Hp.
    rewrite Hq, Z.eqb_refl. exact Hp. }
  assert (Hids : Forall (fun q => p_id q < v_next_pool_id v) (remove_pool (v_pools v1) uid)).
  { apply Forall_forall. intros q Hq. assert (In (p_id q) (map p_id (v_pools v))) by (rewrite <- Hrem; apply in_map; auto).
    apply in_map_iff in H. destruct H as (q0 & E0 & H0). destruct (vi_pools_id _ _ _ _ (vh_s _ _ _ HI)) as (_ & Hf). rewrite Forall_forall in Hf. rewrite <- E0. auto. }
  pose proof (pool_destroy_inv v1 uid (v_next_pool_id v) I1 Hids) as PD.
  (* the new pool is not referenced by any Allocation object, so its destruction cannot be refused *)
  assert (Hnoref : forall s a, slot_is v1 s a -> a_lref a <> LPool uid).
  { intros s a S E. assert (S0 : slot_is v s a) by (apply (slot_is_frame _ _ _ _ _ T01) in S; auto).
    destruct (vi_slots _ _ _ _ (vh_s _ _ _ HI) s a S0 (fun H => H)) as [(_ & l2 & _ & _ & G & _)|(_ & _ & (l2 & G & _) & _)];
      rewrite E in G; cbn in G; rewrite Hfresh in G; discriminate. }
  destruct (pool_destroy c v1 uid) as (v2 & dr). destruct dr as [[]|dcode| |]; auto.
  - destruct PD as (I2 & T2 & F2 & _). unfold unlink_pool. rewrite (remove_pool_absent _ _ F2).
    split; [exact I2|]. eapply tab_frame_trans_same; [exact T01|exact T2].
  - exfalso. destruct PD as (_ & p1 & Hf1 & [Hd|(b & Hb & He)]).
    + apply Hd. pose proof (lf_ded _ _ L1 (LPool uid)) as D. cbn in D. rewrite Hf1, Z.eqb_refl in D. exact D.
    + assert (Hg1 : get_blist v1 (LPool uid) = Some (p_list p1)) by (cbn; rewrite Hf1; reflexivity).
      rewrite (VamInvStep2.unreferenced_blocks_empty c v1 (LPool uid) (p_list p1) (vh_s _ _ _ I1) Hg1 Hnoref b Hb) in He. discriminate.
Qed.


Definition inv_post (v v' : vam) (r : out unit) : Prop :=
  match r with PANIC | STUCK => True | _ => VamInvH v' [] [] /\ tab_frame v v' [] end.

Lemma inv_post_refl v r : VamInvH v [] [] -> inv_post v v r.
Proof. intros H. destruct r; cbn; auto; (split; [auto|apply tab_frame_refl]). Qed.

Lemma destroy_lists_inv n : forall v t, VamInvH v [] [] -> let '(v', r) := destroy_lists c v n t in inv_post v v' r.
Proof.
  induction n as [|k IH]; intros v t HI; cbn [destroy_lists]; [apply inv_post_refl; auto|].
  destruct (get_blist v (LDef t)); [|apply IH; auto].
  pose proof (bl_destroy_inv v [] [] (LDef t) HI) as BD.
  destruct (bl_destroy c v (LDef t)) as (v1 & r). destruct r as [[]|code| |]; auto.
  - destruct BD as ((I1 & T1 & L1) & _). specialize (IH v1 (t + 1) I1).
    destruct (destroy_lists c v1 k (t + 1)) as (v2 & r2). destruct r2 as [[]|code| |]; cbn in *; auto;
      destruct IH as (A & B); (split; [auto|eapply tab_frame_trans_same; eauto]).
  - destruct BD as (-> & _). cbn. split; [auto|apply tab_frame_refl].
Qed.

Lemma allocator_destroy_inv v : VamInvH v [] [] -> let '(v', r) := allocator_destroy c v in inv_post v v' r.
Proof.
  intros HI. unfold allocator_destroy. destruct (existsb _ (v_ded v)); [apply inv_post_refl; auto|].
  destruct (v_pools v); [|apply inv_post_refl; auto]. destruct (existsb list_nonempty _); [apply inv_post_refl; auto|].
  apply destroy_lists_inv. auto.
Qed.

Lemma stats_budgets_same n : forall m h, mach_sameX m (stats_budgets c m n h).
Proof.
  induction n as [|k IH]; intros m h; cbn [stats_budgets]; [apply (VamMapStep.mach_sameX_refl c Hc Hmax Hlarge)|].
  pose proof ((VamMapStep.heap_budget_sameX c Hc Hmax Hlarge) m h) as H. destruct (heap_budget c m h) as ((m1 & u) & b). cbn [fst] in H.
  eapply (VamMapStep.mach_sameX_trans c Hc Hmax Hlarge); [exact H|apply IH].
Qed.

Lemma build_stats_string_inv v : VamInvH v [] [] -> let '(v', r) := build_stats_string c v in inv_post v v' r.
Proof.
  intros HI. unfold build_stats_string. destruct (calculate_statistics c v); [|exact I].
  cbn. split; [apply VamInvH_mach_same; [auto|apply stats_budgets_same]|apply tab_frame_set_m].
Qed.


(* ---------------------------------------------------------------- resources *)

Definition res_post (v v' : vam) (s : Z) (r : out unit) : Prop :=
  match r with PANIC | STUCK => True | _ => VamInvH v' [] [] /\ tab_frame v v' [s] end.

Lemma res_post_refl v s r : VamInvH v [] [] -> res_post v v s r.
Proof. intros H. destruct r; cbn; auto; (split; [auto|apply tab_frame_refl]). Qed.

Lemma bind_memory_inv v s image res off : VamInvH v [] [] -> let '(v', r) := bind_memory v s image res off in res_post v v' s r.
Proof.
  intros HI. pose proof (VamMapStep2.bind_memory_inv c Hc Hmax Hlarge ms0 v s image res off (vh_m _ _ _ HI)) as P.
  unfold bind_memory in *. destruct (res =? 0); [apply res_post_refl; auto|]. destruct (negb _); [apply res_post_refl; auto|]. destruct (off <? 0); [apply res_post_refl; auto|].
  match goal with |- context [match ?t with OK _ => _ | ER _ => _ | PANIC => _ | STUCK => _ end] => destruct t as [o|code| |] end;
    try (apply res_post_refl; auto); try exact I.
  destruct (VamFlush.dev_bind_calls (v_m v) image res (a_mem (get_alloc v s)) o) as (code0 & Ecalls & _).
  destruct (dev_bind (v_m v) image res (a_mem (get_alloc v s)) o) as (m1 & code). cbn [fst] in Ecalls.
  assert (Hx : mach_ext (v_m v) m1) by (exists [CBind image res (a_mem (get_alloc v s)) o code0]; split; [exact Ecalls|constructor; [reflexivity|constructor]]).
  assert (PM : VamInvM (set_m v m1) [] [] /\ tab_frame v (set_m v m1) [s]) by (destruct (code =? 0); exact P).
  destruct PM as (A & B).
  assert (Q : VamInvH (set_m v m1) [] [] /\ tab_frame v (set_m v m1) [s]) by (split; [split; [exact A|apply (HH_mach c); [exact (vh_h _ _ _ HI)|exact Hx]]|exact B]).
  destruct (code =? 0); exact Q.
Qed.

Lemma allocation_free_inv v s :
  VamInvH v [] [] -> let '(v', r) := allocation_free c v s in res_post v v' s r.
Proof.
  intros HI. unfold allocation_free. destruct (a_allocated (get_alloc v s)) eqn:Ea; cbn [negb]; [|apply res_post_refl; auto].
  assert (Hnd : NoDup [s]) by (constructor; [intros []|constructor]).
  assert (Hlive : live_slots v [] [s]) by (intros x [<-|[]]; split; [intros []|exists (get_alloc v s); apply get_alloc_allocated; auto]).
  pose proof (multi_free_inv [s] v [] HI Hnd Hlive) as P. destruct (multi_free c v [s]) as (v' & r).
  destruct r as [[]|code| |]; auto; cbn; destruct P as (A & B & C); auto.
Qed.

Lemma get_requirements_spec m image id :
  exists m2 rq rd pd, get_requirements c m image id = (m2, rq, rd, pd) /\ mach_sameX m m2 /\ (res_ok m -> rq_size rq < 2 ^ 62).
Proof.
  unfold get_requirements. pose proof ((VamMapStep2.dev_requirements_sameX c Hc Hmax Hlarge) m image id) as H.
  pose proof (dev_requirements_size c Hc Hmax Hlarge m image id) as Hs.
  destruct (dev_requirements m image id) as (m2 & rq). cbn [fst snd] in *. destruct (11 <=? c_api c); eauto 10.
Qed.

Lemma create_resource_inv v s image kind sub devreq resusage minAlign usage flags req pref ctb pool :
  VamInvH v [] [] -> rq_size devreq < 2 ^ 62 -> 0 <= s < zlen (v_tab v) -> a_allocated (get_alloc v s) = false ->
  let '(v', r) := create_resource c v s image kind sub devreq resusage minAlign usage flags req pref ctb pool in res_post v v' s r.
Proof.
  intros HI Hdq Hr Hd. unfold create_resource.
  pose proof ((VamMapStep2.dev_create_res_sameX c Hc Hmax Hlarge) (v_m v) image kind devreq Hdq) as H1.
  destruct (dev_create_res (v_m v) image kind devreq) as ((m1 & code) & id). cbn [fst] in H1.
  destruct (negb (code =? 0)); [cbn; split; [apply VamInvH_mach_same; auto|apply tab_frame_set_m]|].
  destruct (get_requirements_spec m1 image id) as (m2 & rq & rd & pd & Egr & H2 & Hrq). rewrite Egr.
  assert (Hsz : rq_size rq < 2 ^ 62) by (apply Hrq; apply (proj2 (proj2 (proj1 H1))); apply (ai_res _ _ _ (vh_aa _ _ _ HI))).
  pose proof (VamMapStep.mach_sameX_trans c Hc Hmax Hlarge _ _ _ H1 H2) as H12.
  assert (I2 : VamInvH (set_m v m2) [] []) by (apply VamInvH_mach_same; auto).
  assert (Hnd : NoDup [s]) by (constructor; [intros []|constructor]).
  assert (Hdead : dead_slots (set_m v m2) [s]) by (intros x [<-|[]]; auto).
  match goal with |- context [multi_allocate c (set_m v m2) ?a1 ?a2 ?a3 ?a4 ?a5 ?a6 ?a7 usage flags req pref ctb pool sub [s]] =>
    pose proof (multi_allocate_inv (set_m v m2) [] a1 a2 a3 a4 a5 a6 a7 usage flags req pref ctb pool sub [s] I2 Hsz Hnd Hdead) as MA;
    destruct (multi_allocate c (set_m v m2) a1 a2 a3 a4 a5 a6 a7 usage flags req pref ctb pool sub [s]) as (v3 & r) end.
  destruct r as [[]|acode| |]; auto.
  - destruct MA as (I3 & T3 & L3 & D3).
    assert (T03 : tab_frame v v3 [s]) by (eapply tab_frame_trans_same; [apply tab_frame_set_m|exact T3]).
    destruct (fl flags F_DONTBIND); [cbn; auto|].
    pose proof (bind_memory_inv v3 s image id 0 I3) as B. destruct (bind_memory v3 s image id 0) as (v4 & br).
    destruct br as [[]|bcode| |]; auto.
    + cbn in *. destruct B as (A & B). split; [auto|eapply tab_frame_trans_same; eauto].
    + destruct B as (I4 & T4).
      assert (Hfree : let '(v5, fr) := (if a_allocated (get_alloc v4 s) then multi_free c v4 [s] else (v4, OK tt)) in
                      match fr with PANIC | STUCK => True | _ => VamInvH v5 [] [] /\ tab_frame v4 v5 [s] end).
      { destruct (a_allocated (get_alloc v4 s)) eqn:Ea; [|split; [auto|apply tab_frame_refl]].
        assert (Hlive : live_slots v4 [] [s]) by (intros x [<-|[]]; split; [intros []|exists (get_alloc v4 s); apply get_alloc_allocated; auto]).
        pose proof (multi_free_inv [s] v4 [] I4 Hnd Hlive) as P. destruct (multi_free c v4 [s]) as (v5 & fr).
        destruct fr as [[]|code5| |]; auto; destruct P as (A & B & C); auto. }
      destruct (if a_allocated (get_alloc v4 s) then multi_free c v4 [s] else (v4, OK tt)) as (v5 & fr).
      destruct fr as [[]|code5| |]; auto; destruct Hfree as (I5 & T5); cbn;
        (split; [apply VamInvH_mach_same; [auto|apply (VamMapStep2.dev_destroy_res_sameX c Hc Hmax Hlarge)]|];
         eapply tab_frame_trans_same; [exact T03|]; eapply tab_frame_trans_same; [exact T4|]; eapply tab_frame_trans_same; [exact T5|apply tab_frame_set_m]).
  - destruct MA as (I3 & T3 & L3 & D3). cbn. split; [apply VamInvH_mach_same; [auto|apply (VamMapStep2.dev_destroy_res_sameX c Hc Hmax Hlarge)]|].
    eapply tab_frame_trans_same; [apply tab_frame_set_m|]. eapply tab_frame_trans_same; [exact T3|apply tab_frame_set_m].
Qed.

Lemma res_post_of_alloc v v' s r : alloc_post v v' [] [s] r -> res_post v v' s r.
Proof. destruct r as [[]|code| |]; cbn; auto; intros (A & B & _); auto. Qed.

Lemma allocate_for_resource_inv v s image res usage flags req pref ctb pool :
  VamInvH v [] [] -> 0 <= s < zlen (v_tab v) ->
  let '(v', r) := allocate_for_resource c v s image res usage flags req pref ctb pool in res_post v v' s r.
Proof.
  intros HI Hr. unfold allocate_for_resource. destruct (res =? 0); [apply res_post_refl; auto|].
  destruct (a_allocated (get_alloc v s)) eqn:Ea; [apply res_post_refl; auto|].
  destruct (get_requirements_spec (v_m v) image res) as (m2 & rq & rd & pd & Egr & H2 & Hrq). rewrite Egr.
  assert (Hsz : rq_size rq < 2 ^ 62) by (apply Hrq; apply (ai_res _ _ _ (vh_aa _ _ _ HI))).
  assert (I2 : VamInvH (set_m v m2) [] []) by (apply VamInvH_mach_same; auto).
  assert (Hnd : NoDup [s]) by (constructor; [intros []|constructor]).
  assert (Hdead : dead_slots (set_m v m2) [s]) by (intros x [<-|[]]; auto).
  match goal with |- context [multi_allocate c (set_m v m2) ?a1 ?a2 ?a3 ?a4 ?a5 ?a6 ?a7 usage flags req pref ctb pool ?sb [s]] =>
    pose proof (multi_allocate_inv (set_m v m2) [] a1 a2 a3 a4 a5 a6 a7 usage flags req pref ctb pool sb [s] I2 Hsz Hnd Hdead) as MA;
    destruct (multi_allocate c (set_m v m2) a1 a2 a3 a4 a5 a6 a7 usage flags req pref ctb pool sb [s]) as (v3 & r) end.
  apply res_post_of_alloc in MA. destruct r as [[]|code| |]; cbn in *; auto; destruct MA as (A & B);
    (split; [auto|eapply tab_frame_trans_same; [apply tab_frame_set_m|exact B]]).
Qed.

Lemma create_buffer_inv v s size devreq bufUsage minAlign usage flags req pref ctb pool :
  VamInvH v [] [] -> rq_size devreq < 2 ^ 62 -> 0 <= s < zlen (v_tab v) ->
  let '(v', r) := create_buffer c v s size devreq bufUsage minAlign usage flags req pref ctb pool in res_post v v' s r.
Proof.
  intros HI Hdq Hr. unfold create_buffer. destruct (a_allocated (get_alloc v s)) eqn:Ea; [apply res_post_refl; auto|].
  destruct (_ && _); [apply res_post_refl; auto|]. destruct (size =? 0); [apply res_post_refl; auto|].
  destruct (_ && _); [apply res_post_refl; auto|]. apply create_resource_inv; auto.
Qed.

Lemma create_image_inv v s tiling width devreq imgUsage usage flags req pref ctb pool :
  VamInvH v [] [] -> rq_size devreq < 2 ^ 62 -> 0 <= s < zlen (v_tab v) ->
  let '(v', r) := create_image c v s tiling width devreq imgUsage usage flags req pref ctb pool in res_post v v' s r.
Proof.
  intros HI Hdq Hr. unfold create_image. destruct (a_allocated (get_alloc v s)) eqn:Ea; [apply res_post_refl; auto|].
  destruct (width =? 0); [apply res_post_refl; auto|]. apply create_resource_inv; auto.
Qed.

Lemma destroy_with_resource_inv v s image res :
  VamInvH v [] [] -> let '(v', r) := destroy_with_resource c v s image res in res_post v v' s r.
Proof.
  intros HI. unfold destroy_with_resource.
  set (v1 := if res =? 0 then v else set_m v (dev_destroy_res (v_m v) image res)).
  assert (I1 : VamInvH v1 [] [] /\ tab_frame v v1 [s]).
  { unfold v1. destruct (res =? 0); [split; [auto|apply tab_frame_refl]|].
    split; [apply VamInvH_mach_same; [auto|apply (VamMapStep2.dev_destroy_res_sameX c Hc Hmax Hlarge)]|apply tab_frame_set_m]. }
  pose proof (allocation_free_inv v1 s (proj1 I1)) as F. destruct (allocation_free c v1 s) as (v2 & r).
  destruct r as [[]|code| |]; cbn in *; auto; destruct F as (A & B); (split; [auto|eapply tab_frame_trans_same; [apply I1|exact B]]).
Qed.



End WithCfg.
