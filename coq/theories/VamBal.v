(* VamBal.v — the balance of map references (C14), sixth pass over Vam*.v.

   Ghost state G : slot -> number of outstanding user Maps of the Allocation object in that slot (in the Go code
   this is the read count of Allocation.mapLock).  BInv v G X: the reference counter of the SynchronizedMemory of
   every memory object is exactly the number of its users:
     block b:        mapReferences = sum over the block allocations living in b of (G s + 1 if persistently mapped)
     dedicated s:    mapReferences = G s + 1 if persistently mapped
   X: allocations whose region was already released inside a running Free (as in VamAcct/VamMap).
   The invariant does not depend on the device at all (VamMap.v ties mapReferences to the device's map state). *)
From Coq Require Import ZArith List Bool Lia Permutation.
From Arsenal Require Import Util Budget BudgetProofs VamDev VamBlockList Vam VamInvMeta VamInv VamInvUpd VamInvDev.
From Arsenal Require Import VamInvStep VamInvStep2 VamAcct VamMap.
From Arsenal Require SyncMem SyncMemProofs.
Import ListNotations.
Open Scope Z_scope.

(* ---------------------------------------------------------------- SynchronizedMemory: the reference counter *)

Lemma post_map_unmap_refs s : SyncMem.mapRefs (fst (SyncMem.post_map_unmap s)) = SyncMem.mapRefs s.
Proof. unfold SyncMem.post_map_unmap. destruct (_ <=? _); [destruct (1 <=? _)|]; reflexivity. Qed.

Lemma do_map_refs s d f s' r cs :
  SyncMemProofs.Inv s d -> SyncMem.freed s = false -> SyncMem.do_map s 1 f = (s', r, cs) ->
  match r with SyncMem.ROk _ => SyncMem.mapRefs s' = SyncMem.mapRefs s + 1 | _ => SyncMem.mapRefs s' = SyncMem.mapRefs s end.
Proof.
  intros I Fr E. destruct (SyncMemProofs.map_inv s d 1 f s' r cs I Fr ltac:(lia) E) as (d' & _ & _ & Hnd & _ & Hfail).
  destruct r as [p|b| | |]; try (apply Hfail; intros p; discriminate).
  destruct I as (Hnn & _). unfold SyncMem.do_map in E. cbn [Z.eqb] in E.
  pose proof (post_map_unmap_refs s) as Hp. destruct (SyncMem.post_map_unmap s) as (s1 & sw). cbn [fst] in Hp.
  destruct (0 <? SyncMem.references s) eqn:Eo.
  - destruct (SyncMem.mapped _); injection E as <- E2 _; [cbn; lia|discriminate].
  - destruct f; [injection E as _ E2 _; discriminate|]. injection E as <- _ _. cbn. apply Z.ltb_ge in Eo.
    unfold SyncMem.references in Eo. destruct (SyncMem.extra s); lia.
Qed.

Lemma do_unmap_refs s s' r cs :
  SyncMem.do_unmap s 1 = (s', r, cs) -> 1 <= SyncMem.mapRefs s ->
  (exists p, r = SyncMem.ROk p) /\ SyncMem.mapRefs s' = SyncMem.mapRefs s - 1.
Proof.
  intros E H1. unfold SyncMem.do_unmap in E. destruct (SyncMem.mapRefs s =? 0) eqn:E0; [apply Z.eqb_eq in E0; lia|].
  destruct (SyncMem.mapRefs s <? 1) eqn:E1; [apply Z.ltb_lt in E1; lia|].
  destruct (SyncMem.mapRefs s - 1 <? 0) eqn:E2; [apply Z.ltb_lt in E2; lia|].
  pose proof (post_map_unmap_refs (SyncMem.set_refs s (SyncMem.mapRefs s - 1))) as Hp.
  destruct (SyncMem.post_map_unmap _) as (s1 & sw). cbn [fst] in Hp. cbn in Hp.
  destruct (SyncMem.references s1 <=? 0); injection E as <- <- _; (split; [eexists; reflexivity|cbn; exact Hp]).
Qed.

Lemma do_unmap_zero s : SyncMem.mapRefs s = 0 -> SyncMem.do_unmap s 1 = (s, SyncMem.ROk false, []).
Proof. intros H. unfold SyncMem.do_unmap. rewrite H. reflexivity. Qed.

Lemma do_sub_refs s : SyncMem.mapRefs (fst (fst (SyncMem.do_sub s))) = SyncMem.mapRefs s.
Proof.
  unfold SyncMem.do_sub. destruct (_ <=? _); [|reflexivity]. destruct (_ <=? -2); [|reflexivity].
  destruct (SyncMem.extra s); [|reflexivity]. destruct (_ && _); reflexivity.
Qed.

(* the allocator's wrappers *)
Lemma sm_map_refs c ms m mem s :
  sm_ok ms mem s ->
  let '(m', s', r) := sm_map c m mem s in
  match r with
  | OK _ => SyncMem.mapRefs s' = SyncMem.mapRefs s + 1
  | ER _ => SyncMem.mapRefs s' = SyncMem.mapRefs s
  | _ => True
  end.
Proof.
  intros (d & _ & I & Fr). unfold sm_map. destruct (dev_map c m mem) as (m1 & code).
  destruct (SyncMem.do_map s 1 (negb (code =? 0))) as ((s' & r) & cs) eqn:E.
  pose proof (do_map_refs s (dv d) _ s' r cs I Fr E) as H. destruct r; auto.
Qed.

Lemma sm_unmap_refs m mem s :
  1 <= SyncMem.mapRefs s ->
  let '(m', s', r) := sm_unmap m mem s in r = OK tt /\ SyncMem.mapRefs s' = SyncMem.mapRefs s - 1.
Proof.
  intros H1. unfold sm_unmap. destruct (SyncMem.do_unmap s 1) as ((s' & r) & cs) eqn:E.
  destruct (do_unmap_refs s s' r cs E H1) as ((p & ->) & Hr). auto.
Qed.

Lemma sm_sub_refs m mem s : SyncMem.mapRefs (snd (sm_sub m mem s)) = SyncMem.mapRefs s.
Proof.
  unfold sm_sub. pose proof (do_sub_refs s) as H. destruct (SyncMem.do_sub s) as ((s' & r) & cs). cbn [fst snd] in *. exact H.
Qed.

(* ---------------------------------------------------------------- sums over the slot table *)

Fixpoint zsum (l : list Z) : Z := match l with [] => 0 | x :: tl => x + zsum tl end.

Lemma zsum_app a b : zsum (a ++ b) = zsum a + zsum b.
Proof. induction a as [|x a IH]; cbn; [reflexivity|]. rewrite IH. lia. Qed.

Lemma zsum_map_ext (f g : Z -> Z) l : (forall x, In x l -> g x = f x) -> zsum (map g l) = zsum (map f l).
Proof. induction l as [|x l IH]; intros H; cbn; [reflexivity|]. rewrite IH, H; [reflexivity|left; reflexivity|intros; apply H; right; auto]. Qed.

Lemma zsum_map_single (f g : Z -> Z) l s :
  NoDup l -> In s l -> (forall x, In x l -> x <> s -> g x = f x) -> zsum (map g l) = zsum (map f l) - f s + g s.
Proof.
  induction l as [|x l IH]; intros Hnd Hin H; [destruct Hin|]. inversion Hnd as [|? ? Hx Hr]; subst. cbn.
  destruct Hin as [->|Hin].
  - rewrite (zsum_map_ext f g l); [lia|]. intros y Hy. apply H; [right; exact Hy|]. intros ->. contradiction.
  - rewrite (IH Hr Hin); [|intros y Hy Hne; apply H; [right; exact Hy|exact Hne]].
    rewrite (H x); [lia|left; reflexivity|]. intros ->. contradiction.
Qed.

Lemma zsum_map_nonneg (f : Z -> Z) l : (forall x, In x l -> 0 <= f x) -> 0 <= zsum (map f l).
Proof. induction l as [|x l IH]; intros H; cbn; [lia|]. pose proof (H x (or_introl eq_refl)). specialize (IH (fun y Hy => H y (or_intror Hy))). lia. Qed.

Lemma zsum_map_ge (f : Z -> Z) l s : (forall x, In x l -> 0 <= f x) -> In s l -> f s <= zsum (map f l).
Proof.
  induction l as [|x l IH]; intros H Hin; [destruct Hin|]. cbn. pose proof (H x (or_introl eq_refl)) as Hx.
  pose proof (zsum_map_nonneg f l (fun y Hy => H y (or_intror Hy))) as Hl.
  destruct Hin as [->|Hin]; [lia|]. specialize (IH (fun y Hy => H y (or_intror Hy)) Hin). lia.
Qed.

Lemma zsum_map_zero (f : Z -> Z) l : (forall x, In x l -> f x = 0) -> zsum (map f l) = 0.
Proof. induction l as [|x l IH]; intros H; cbn; [reflexivity|]. rewrite H by (left; reflexivity). rewrite IH; [reflexivity|]. intros; apply H; right; auto. Qed.

Lemma slot_range_app a n k : slot_range a (n + k) = slot_range a n ++ slot_range (a + Z.of_nat n) k.
Proof.
  revert a. induction n as [|n IH]; intros a; cbn [slot_range plus app].
  - replace (a + Z.of_nat 0) with a by lia. reflexivity.
  - rewrite IH. replace (a + 1 + Z.of_nat n) with (a + Z.of_nat (S n)) by lia. reflexivity.
Qed.

Lemma slot_range_in a n s : In s (slot_range a n) <-> a <= s < a + Z.of_nat n.
Proof. revert a. induction n as [|n IH]; intros a; cbn [slot_range In]; [lia|]. rewrite IH. lia. Qed.

Lemma slot_range_nd a n : NoDup (slot_range a n).
Proof. revert a. induction n as [|n IH]; intros a; cbn [slot_range]; constructor; [rewrite slot_range_in; lia|apply IH]. Qed.

(* ---------------------------------------------------------------- users of a memory object *)

Definition pcount (a : alloc) : Z := if a_persist a then 1 else 0.

(* what slot s contributes to the reference counter of memory object mem (a block's memory) *)
Definition users (v : vam) (G : Z -> Z) (X : list Z) (mem s : Z) : Z :=
  let a := get_alloc v s in
  if a_allocated a && negb (in_zb s X) && (a_kind a =? 1) && (a_mem a =? mem) then G s + pcount a else 0.

Definition refs_truth (v : vam) (G : Z -> Z) (X : list Z) (mem : Z) : Z :=
  zsum (map (users v G X mem) (slot_range 0 (length (v_tab v)))).

Lemma users_dead v G X mem s : a_allocated (get_alloc v s) = false -> users v G X mem s = 0.
Proof. intros H. unfold users. rewrite H. reflexivity. Qed.

Lemma users_X v G X mem s : In s X -> users v G X mem s = 0.
Proof. intros H. unfold users. apply in_zb_In in H. rewrite H. rewrite andb_false_r. reflexivity. Qed.

Lemma users_kind v G X mem s : a_kind (get_alloc v s) <> 1 -> users v G X mem s = 0.
Proof. intros H. unfold users. apply Z.eqb_neq in H. rewrite H. rewrite andb_false_r. reflexivity. Qed.

Lemma users_other v G X mem s : a_mem (get_alloc v s) <> mem -> users v G X mem s = 0.
Proof. intros H. unfold users. apply Z.eqb_neq in H. rewrite H. rewrite andb_false_r. reflexivity. Qed.

Lemma users_live v G X mem s :
  a_allocated (get_alloc v s) = true -> ~ In s X -> a_kind (get_alloc v s) = 1 -> a_mem (get_alloc v s) = mem ->
  users v G X mem s = G s + pcount (get_alloc v s).
Proof.
  intros H1 H2 H3 H4. unfold users. apply in_zb_false in H2. rewrite H1, H2, H3, H4, !Z.eqb_refl. reflexivity.
Qed.

Lemma users_nonneg v G X mem s : 0 <= G s -> 0 <= users v G X mem s.
Proof. intros H. unfold users, pcount. destruct (_ && _); [destruct (a_persist _); lia|lia]. Qed.

Lemma users_same v G X v' G' X' mem s :
  get_alloc v' s = get_alloc v s -> G' s = G s -> (In s X' <-> In s X) -> users v' G' X' mem s = users v G X mem s.
Proof.
  intros E EG HX. unfold users. rewrite E, EG. replace (in_zb s X') with (in_zb s X); [reflexivity|].
  destruct (in_zb s X) eqn:E1; symmetry; [apply in_zb_In; apply HX; apply in_zb_In; auto|].
  apply in_zb_false. intros H. apply HX in H. apply in_zb_false in E1. contradiction.
Qed.

Lemma refs_truth_ext v G X v' G' X' mem :
  zlen (v_tab v') = zlen (v_tab v) ->
  (forall s, 0 <= s < zlen (v_tab v) -> users v' G' X' mem s = users v G X mem s) -> refs_truth v' G' X' mem = refs_truth v G X mem.
Proof.
  intros Hl H. unfold refs_truth. unfold zlen in Hl. apply Nat2Z.inj in Hl. rewrite Hl.
  apply zsum_map_ext. intros s Hs. apply H. apply slot_range_in in Hs. unfold zlen. lia.
Qed.

Lemma refs_truth_upd v G X v' G' X' mem s :
  zlen (v_tab v') = zlen (v_tab v) -> 0 <= s < zlen (v_tab v) ->
  (forall s', 0 <= s' < zlen (v_tab v) -> s' <> s -> users v' G' X' mem s' = users v G X mem s') ->
  refs_truth v' G' X' mem = refs_truth v G X mem - users v G X mem s + users v' G' X' mem s.
Proof.
  intros Hl Hs H. unfold refs_truth. unfold zlen in Hl. apply Nat2Z.inj in Hl. rewrite Hl.
  apply zsum_map_single; [apply slot_range_nd|apply slot_range_in; unfold zlen in Hs; lia|].
  intros x Hx Hne. apply H; [apply slot_range_in in Hx; unfold zlen; lia|exact Hne].
Qed.

Lemma refs_truth_tab v v' G X mem : v_tab v' = v_tab v -> refs_truth v' G X mem = refs_truth v G X mem.
Proof. intros E. unfold refs_truth, users, get_alloc. rewrite E. reflexivity. Qed.

Lemma refs_truth_ge v G X mem s :
  (forall s', 0 <= G s') -> 0 <= s < zlen (v_tab v) -> users v G X mem s <= refs_truth v G X mem.
Proof.
  intros HG Hs. unfold refs_truth. apply zsum_map_ge; [intros; apply users_nonneg; auto|]. apply slot_range_in. unfold zlen in Hs. lia.
Qed.

Lemma refs_truth_zero v G X mem :
  (forall s, 0 <= s < zlen (v_tab v) -> users v G X mem s = 0) -> refs_truth v G X mem = 0.
Proof. intros H. unfold refs_truth. apply zsum_map_zero. intros s Hs. apply H. apply slot_range_in in Hs. unfold zlen. lia. Qed.

(* ---------------------------------------------------------------- the invariant *)

Record BInv (v : vam) (G : Z -> Z) (X : list Z) : Prop := mkBInv {
  bb_blocks : forall lr l b, get_blist v lr = Some l -> In b (bl_blocks l) ->
      SyncMem.mapRefs (bk_sm b) = refs_truth v G X (bk_mem b);
  bb_ded : forall s a, slot_is v s a -> a_kind a = 2 -> SyncMem.mapRefs (a_sm a) = G s + pcount a;
  bb_G : forall s, 0 <= G s;
  bb_G0 : forall s, a_allocated (get_alloc v s) = false -> G s = 0
}.

(* every block of v' is a block of v with the same memory object and the same reference counter *)
Definition blocks_subR (v v' : vam) : Prop :=
  forall lr l' b', get_blist v' lr = Some l' -> In b' (bl_blocks l') ->
  exists lr0 l b, get_blist v lr0 = Some l /\ In b (bl_blocks l) /\ bk_mem b = bk_mem b' /\
                  SyncMem.mapRefs (bk_sm b) = SyncMem.mapRefs (bk_sm b').

Lemma blocks_sub_R v v' : blocks_sub v v' -> blocks_subR v v'.
Proof. intros H lr l' b' Hg Hb. destruct (H _ _ _ Hg Hb) as (lr0 & l & b & A & B & C0 & D). exists lr0, l, b. rewrite D. auto. Qed.

Lemma blocks_subR_refl v : blocks_subR v v.
Proof. apply blocks_sub_R. apply blocks_sub_refl. Qed.

(* the table of Allocation objects is the same, the blocks are old blocks *)
Lemma BInv_lists v G X v' : BInv v G X -> v_tab v' = v_tab v -> blocks_subR v v' -> BInv v' G X.
Proof.
  intros [B D G1 G2] Et Hb. constructor.
  - intros lr l' b' Hg Hin. destruct (Hb _ _ _ Hg Hin) as (lr0 & l & b & A & B0 & E1 & E2).
    rewrite <- E2, <- E1, (refs_truth_tab v v' G X _ Et). eauto.
  - intros s a Sa. apply D. unfold slot_is in *. rewrite <- Et. exact Sa.
  - exact G1.
  - intros s. unfold get_alloc. rewrite Et. apply G2.
Qed.

Lemma BInv_mach v G X m' : BInv v G X -> BInv (set_m v m') G X.
Proof. intros H. apply (BInv_lists v G X); [exact H|reflexivity|]. apply blocks_sub_R. apply blocks_sub_eq. intros; apply get_blist_set_m. Qed.

Lemma BInv_weaken_ext v G X X' :
  BInv v G X -> (forall s, In s X' <-> In s X) -> BInv v G X'.
Proof.
  intros [B D G1 G2] HX. constructor; auto. intros lr l b Hg Hb. rewrite (B _ _ _ Hg Hb).
  symmetry. apply refs_truth_ext; [reflexivity|]. intros s _. apply users_same; auto.
Qed.

(* ---------------------------------------------------------------- the invariant with a slack on one memory object
   Inside commitAllocationRequest / freeWithLock the reference counter of the block (memory object M) and the
   Allocation object are updated one after the other: BInvD ... M d says that the counter of M is d ahead of its
   users; every other counter is exact.  BInvD v G X M 0 is BInv v G X. *)

Record BInvD (v : vam) (G : Z -> Z) (X : list Z) (M d : Z) : Prop := mkBInvD {
  bd_blocks : forall lr l b, get_blist v lr = Some l -> In b (bl_blocks l) ->
      SyncMem.mapRefs (bk_sm b) = refs_truth v G X (bk_mem b) + (if bk_mem b =? M then d else 0);
  bd_ded : forall s a, slot_is v s a -> a_kind a = 2 -> SyncMem.mapRefs (a_sm a) = G s + pcount a;
  bd_G : forall s, 0 <= G s;
  bd_G0 : forall s, a_allocated (get_alloc v s) = false -> G s = 0
}.

Lemma BInv_D v G X M : BInv v G X -> BInvD v G X M 0.
Proof. intros [B D G1 G2]. constructor; auto. intros lr l b Hg Hb. rewrite (B _ _ _ Hg Hb). destruct (_ =? _); lia. Qed.

Lemma BInvD_0 v G X M : BInvD v G X M 0 -> BInv v G X.
Proof. intros [B D G1 G2]. constructor; auto. intros lr l b Hg Hb. rewrite (B _ _ _ Hg Hb). destruct (_ =? _); lia. Qed.

(* the table is the same; every block of v' is an old block with the same memory, the counter of M moved by e *)
Lemma BInvD_touch v G X M d v' e :
  BInvD v G X M d -> v_tab v' = v_tab v ->
  (forall lr l' b', get_blist v' lr = Some l' -> In b' (bl_blocks l') ->
     exists lr0 l b, get_blist v lr0 = Some l /\ In b (bl_blocks l) /\ bk_mem b = bk_mem b' /\
                     SyncMem.mapRefs (bk_sm b') = SyncMem.mapRefs (bk_sm b) + (if bk_mem b' =? M then e else 0)) ->
  BInvD v' G X M (d + e).
Proof.
  intros [B D G1 G2] Et Hb. constructor.
  - intros lr l' b' Hg Hin. destruct (Hb _ _ _ Hg Hin) as (lr0 & l & b & A & B0 & E1 & E2).
    rewrite E2, (B _ _ _ A B0), E1, (refs_truth_tab v v' G X _ Et). destruct (_ =? _); lia.
  - intros s a Sa. apply D. unfold slot_is in *. rewrite <- Et. exact Sa.
  - exact G1.
  - intros s. unfold get_alloc. rewrite Et. apply G2.
Qed.

Lemma BInvD_lists v G X M d v' : BInvD v G X M d -> v_tab v' = v_tab v -> blocks_subR v v' -> BInvD v' G X M d.
Proof.
  intros H Et Hb. replace d with (d + 0) by lia. apply (BInvD_touch v G X M d v' 0 H Et).
  intros lr l' b' Hg Hin. destruct (Hb _ _ _ Hg Hin) as (lr0 & l & b & A & B0 & E1 & E2). exists lr0, l, b.
  rewrite <- E2. destruct (_ =? _); repeat split; auto; lia.
Qed.

Lemma BInvD_mach v G X M d m' : BInvD v G X M d -> BInvD (set_m v m') G X M d.
Proof. intros H. apply (BInvD_lists v G X M d); [exact H|reflexivity|]. apply blocks_sub_R. apply blocks_sub_eq. intros; apply get_blist_set_m. Qed.

(* one Allocation object is rewritten; it is no dedicated allocation before or after, and it contributes only to M *)
Lemma BInvD_slot v G X M d s a' :
  BInvD v G X M d -> 0 <= s < zlen (v_tab v) ->
  (forall a, slot_is v s a -> a_kind a <> 2) -> (a_allocated a' = true -> a_kind a' <> 2) ->
  (a_allocated a' = false -> G s = 0) ->
  (forall mem, mem <> M -> users (set_alloc v s a') G X mem s = users v G X mem s) ->
  BInvD (set_alloc v s a') G X M (d - (users (set_alloc v s a') G X M s - users v G X M s)).
Proof.
  intros [B D G1 G2] Hs Hold Hnew Hg0 Hoth. constructor.
  - intros lr l b Hg Hb. rewrite get_blist_set_alloc in Hg. rewrite (B _ _ _ Hg Hb).
    rewrite (refs_truth_upd v G X (set_alloc v s a') G X (bk_mem b) s (zlen_set_alloc _ _ _) Hs).
    2:{ intros s' _ Hne. apply users_same; [apply get_alloc_set_other; exact Hne|reflexivity|tauto]. }
    destruct (bk_mem b =? M) eqn:E; [apply Z.eqb_eq in E; rewrite E; lia|]. apply Z.eqb_neq in E. rewrite (Hoth _ E). lia.
  - intros s1 a1 S1 K1. destruct (Z.eq_dec s1 s) as [->|Hne].
    + apply slot_is_set_alloc_same in S1; [|exact Hs]. destruct S1 as (-> & Ha). exfalso. exact (Hnew Ha K1).
    + apply (slot_is_set_alloc_other v s a' s1 a1 Hne) in S1. apply D; auto.
  - exact G1.
  - intros s1. destruct (Z.eq_dec s1 s) as [->|Hne]; [rewrite get_alloc_set_same by exact Hs; exact Hg0|rewrite get_alloc_set_other by exact Hne; apply G2].
Qed.

(* slot s becomes "already released" (X) or comes back *)
Lemma BInvD_X v G X X' M d s :
  BInvD v G X M d -> 0 <= s < zlen (v_tab v) ->
  (forall s', s' <> s -> (In s' X' <-> In s' X)) ->
  (forall mem, mem <> M -> users v G X' mem s = users v G X mem s) ->
  BInvD v G X' M (d - (users v G X' M s - users v G X M s)).
Proof.
  intros [B D G1 G2] Hs HX Hoth. constructor; auto.
  intros lr l b Hg Hb. rewrite (B _ _ _ Hg Hb).
  rewrite (refs_truth_upd v G X v G X' (bk_mem b) s eq_refl Hs).
  2:{ intros s' _ Hne. apply users_same; [reflexivity|reflexivity|apply HX; exact Hne]. }
  destruct (bk_mem b =? M) eqn:E; [apply Z.eqb_eq in E; rewrite E; lia|]. apply Z.eqb_neq in E. rewrite (Hoth _ E). lia.
Qed.

(* a dedicated allocation appears in / disappears from a slot; blocks do not count dedicated allocations *)
Lemma BInv_slot_ded v G X s a' :
  BInv v G X -> 0 <= s < zlen (v_tab v) ->
  (forall a, slot_is v s a -> a_kind a <> 1) -> (a_allocated a' = true -> a_kind a' = 2 /\ SyncMem.mapRefs (a_sm a') = G s + pcount a') ->
  (a_allocated a' = false -> G s = 0) ->
  BInv (set_alloc v s a') G X.
Proof.
  intros [B D G1 G2] Hs Hold Hnew Hg0. constructor.
  - intros lr l b Hg Hb. rewrite get_blist_set_alloc in Hg. rewrite (B _ _ _ Hg Hb). symmetry.
    apply refs_truth_ext; [apply zlen_set_alloc|]. intros s1 _. destruct (Z.eq_dec s1 s) as [->|Hne].
    + assert (E1 : users v G X (bk_mem b) s = 0).
      { destruct (a_allocated (get_alloc v s)) eqn:Ea; [|apply users_dead; exact Ea]. apply users_kind. apply (Hold (get_alloc v s)). apply get_alloc_allocated. exact Ea. }
      rewrite E1. destruct (a_allocated a') eqn:Ea'.
      * apply users_kind. rewrite get_alloc_set_same by exact Hs. destruct (Hnew eq_refl) as (K & _). lia.
      * apply users_dead. rewrite get_alloc_set_same by exact Hs. exact Ea'.
    + apply users_same; [apply get_alloc_set_other; exact Hne|reflexivity|tauto].
  - intros s1 a1 S1 K1. destruct (Z.eq_dec s1 s) as [->|Hne].
    + apply slot_is_set_alloc_same in S1; [|exact Hs]. destruct S1 as (-> & Ha). apply (Hnew Ha).
    + apply (slot_is_set_alloc_other v s a' s1 a1 Hne) in S1. apply D; auto.
  - exact G1.
  - intros s1. destruct (Z.eq_dec s1 s) as [->|Hne]; [rewrite get_alloc_set_same by exact Hs; exact Hg0|rewrite get_alloc_set_other by exact Hne; apply G2].
Qed.
