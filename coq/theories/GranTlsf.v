(* GranTlsf.v — the TLSF block model (Tlsf.v) with the vam granularity handler (Gran.v, HVam):
   in every reachable state, live blocks of conflicting kinds share no page of the device's
   buffer-image granularity.  Two mechanisms, both needed:
     - rounding (RoundUpAllocRequest): Unknown and ImageUnknown blocks (any granularity > 1) and
       ImageOptimal blocks (granularity <= 256) start and end on page boundaries, so they own
       their pages;
     - the page table (granularity > 256): CheckConflictAndAlignUp / AllocRegions / FreeRegions.
   TLSF half of C09. *)
From Coq Require Import ZArith List Bool Lia.
From Coq Require Import ZifyBool.
From Arsenal Require Import Util Bits Gran Tlsf TlsfGeom TlsfInv1 TlsfFree TlsfAlloc TlsfStep TlsfProps GranInv.
Import ListNotations.
Open Scope Z_scope.
Ltac Zify.zify_post_hook ::= Z.div_mod_to_equations.

(* ------------------------------------------------------------------ live blocks as spans *)

Definition sig (b : blk) : span := (b_off b, b_size b, b_kind b).
Definition spans (t : tlsf) : list span := map sig (live t).

Lemma in_spans t s : In s (spans t) <-> exists b, In b (live t) /\ sig b = s.
Proof. unfold spans. rewrite in_map_iff. split; intros (b & H1 & H2); exists b; auto. Qed.

Lemma chain_asc o c : chain_from o c -> asc o (map sig (livef c)).
Proof.
  revert o; induction c as [|b c IH]; intros o H; cbn; auto.
  cbn in H. destruct H as (Ho & Hs & Hc). specialize (IH _ Hc). subst o.
  destruct (b_free b); cbn [negb map asc].
  - eapply asc_weaken; [|exact IH]. lia.
  - unfold sig at 1 2 3. unfold s_off, s_size. cbn [fst snd]. split; [lia|]. split; [lia|]. exact IH.
Qed.

Lemma spans_asc t : Inv1 t -> asc 0 (spans t).
Proof. intros [[Hch _ _ _ _] _ _ _]. unfold spans. rewrite live_livef. apply chain_asc; auto. Qed.

(* ------------------------------------------------------------------ what Alloc does to the handler *)

Lemma alloc_regions_of_alloc t r tag rs ra t' h :
  alloc t r tag rs ra = AOk t' h ->
  h = rq_offset r /\
  alloc_regions (t_gran t) (rq_type r) (rq_offset r) (rq_size r) = Some (t_gran t').
Proof.
  assert (Hrm : forall t b t1, remove_free_block t b = Some t1 -> t_gran t1 = t_gran t).
  { intros ? ? ? H. apply remove_free_block_spec in H. tauto. }
  assert (Hin : forall t b t1, insert_free_block t b = Some t1 -> t_gran t1 = t_gran t).
  { intros ? ? ? H. apply insert_free_block_spec in H. tauto. }
  assert (Hpad : forall t p po co m n t1, pad_front t p po co m n = Some (Some t1) -> t_gran t1 = t_gran t).
  { intros t0 p po co m n t1. unfold pad_front. destruct p as [p|]; [|discriminate].
    destruct (_ && _).
    - destruct (negb _).
      + destruct (remove_free_block t0 p) eqn:E; [|discriminate]. intros H; injection H as H.
        apply Hin in H. apply Hrm in E. cbn in H. congruence.
      + intros H; injection H as <-. reflexivity.
    - intros H; injection H as H. apply Hin in H. exact H. }
  assert (Hfin : forall (t1 : tlsf) off sz,
             match alloc_regions (t_gran t1) (rq_type r) off sz with
             | None => APanic
             | Some g' => AOk (mkT (t_size t1) g' (t_chain t1) (t_null t1) (t_lists t1) (t_bitmap t1) (t_inner t1)
                                   (t_alloc_count t1 + 1) (t_free_count t1) (t_free_size t1)) off
             end = AOk t' h ->
             h = off /\ alloc_regions (t_gran t1) (rq_type r) off sz = Some (t_gran t')).
  { intros t1 off sz. destruct (alloc_regions _ _ _ _) eqn:E; [|discriminate].
    intros H; injection H as <- <-. cbn [t_gran]. auto. }
  unfold alloc. destruct (rq_is_null r).
  - destruct (_ <? _); [discriminate|].
    destruct (if _ =? 0 then _ else _) as [[t1|]|] eqn:Ep; try discriminate.
    assert (Hg1 : t_gran t1 = t_gran t).
    { destruct (_ =? 0); [injection Ep as <-; reflexivity|]. eapply Hpad; eauto. }
    replace (b_off (t_null t) + (rq_offset r - b_off (t_null t))) with (rq_offset r) by ring.
    destruct (_ =? rq_size r).
    + intros H. apply Hfin in H. cbn [with_null with_chain t_gran] in H. rewrite Hg1 in H. exact H.
    + destruct (_ <? rq_size r); [discriminate|]. intros H. apply Hfin in H.
      cbn [with_null with_chain t_gran] in H. rewrite Hg1 in H. exact H.
  - destruct (find_blk _ _) as [cur|]; [|discriminate].
    destruct (_ <? _); [discriminate|].
    destruct (remove_free_block t cur) as [t0|] eqn:Er; cbn [bind_t]; [|discriminate].
    apply Hrm in Er.
    replace (b_off cur + (rq_offset r - b_off cur)) with (rq_offset r) by ring.
    destruct (if _ =? 0 then _ else _) as [[t1|]|] eqn:Ep; try discriminate.
    assert (Hg1 : t_gran t1 = t_gran t).
    { destruct (_ =? 0); [injection Ep as <-; cbn; congruence|]. apply Hpad in Ep. cbn in Ep. congruence. }
    destruct (_ =? rq_size r).
    + intros H. apply Hfin in H. cbn [with_null with_chain t_gran] in H. rewrite Hg1 in H. exact H.
    + destruct (_ <? rq_size r); [discriminate|].
      destruct (insert_free_block _ _) as [t3|] eqn:Ei; cbn [bind_t]; [|discriminate].
      apply Hin in Ei. cbn [with_null with_chain t_gran] in Ei. intros H. apply Hfin in H.
      rewrite Ei, Hg1 in H. exact H.
Qed.

(* what a granted request says: the size is the rounded size, the offset is a multiple of the
   rounded alignment, and the handler answered "no conflict" for exactly this placement *)
Lemma granted_placement t size' align' atype mo t' r :
  pow2 (g_g (t_gran t)) -> pow2 align' ->
  granted_by t size' align' atype mo t' r ->
  same_shape t t' /\ rq_size r = size' /\ rq_type r = atype /\ rq_offset r mod align' = 0 /\
  exists a ro rs, check_conflict (t_gran t) a size' ro rs atype = Some (rq_offset r, false).
Proof.
  intros Hg Hpa (b & li & Hcb & _).
  apply check_block_spec in Hcb.
  destruct Hcb as (Hbf & Hrb & Hrs & Hrt & Hrn & Hmo & Hc & Hn & Hsize & Hgr & Hac & al & Hcc & Hro & Hfit).
  split; [unfold same_shape; auto|]. split; [auto|]. split; [auto|]. split.
  - rewrite Hro. pose proof (align_up_bounds (b_off b) align' Hpa) as (_ & Hmod).
    pose proof Hcc as Hcc'. apply check_conflict_spec in Hcc'.
    destruct Hcc' as [->|(-> & _)]; [exact Hmod|].
    pose proof (align_up_bounds (align_up (b_off b) align') (g_g (t_gran t)) Hg) as (_ & Hmod2).
    destruct (Z_le_gt_dec align' (g_g (t_gran t))).
    + eapply pow2_mod_mono; [exact Hpa|exact Hg|lia|exact Hmod2].
    + rewrite align_up_id; auto. eapply pow2_mod_mono; [exact Hg|exact Hpa|lia|exact Hmod].
  - rewrite Hro. eauto.
Qed.

(* ------------------------------------------------------------------ the invariant *)

(* which kinds RoundUpAllocRequest rounds to whole pages *)
Definition must_round (gz k : Z) : bool :=
  (gz >? 1) && (((gz <=? 256) && (k =? 5)) || ((k =? 3) || (k =? 1))).

Definition round_ok (gz : Z) (s : span) : Prop :=
  must_round gz (s_kind s) = true -> s_off s mod gz = 0 /\ s_size s mod gz = 0.

(* number of pages of a block: Go's Init *)
Definition npages (gz size : Z) : Z := size / gz + (if size mod gz >? 0 then 1 else 0).

Record GInv (gr : Z) (t : tlsf) : Prop := mkGInv {
  gi_t : TInv t;
  gi_h : g_h (t_gran t) = HVam;
  gi_g : g_g (t_gran t) = gr;
  gi_range : 1 <= gr <= 4294967296;   (* the page counters are uint32 *)
  gi_kind : Forall (fun s => kind_ok (s_kind s)) (spans t);
  gi_round : Forall (round_ok gr) (spans t);
  gi_len : length (g_regions (t_gran t)) =
           if enabled (t_gran t) then Z.to_nat (npages gr (t_size t)) else 0%nat;
  gi_table : enabled (t_gran t) = true -> table_ok (t_gran t) (spans t)
}.

Definition op_kind_ok (o : op) : Prop :=
  match o with
  | OAlloc _ _ atype _ _ _ _ => kind_ok atype
  | _ => True
  end.

Lemma round_up_rounded g atype size0 align0 :
  g_h g = HVam -> pow2 (g_g g) -> pow2 align0 ->
  must_round (g_g g) atype = true ->
  fst (round_up g atype size0 align0) mod g_g g = 0 /\
  pow2 (snd (round_up g atype size0 align0)) /\ g_g g <= snd (round_up g atype size0 align0).
Proof.
  intros Hh Hg Ha Hm. unfold round_up. rewrite Hh. unfold must_round in Hm.
  apply andb_true_iff in Hm. destruct Hm as (Hg1 & Hk). rewrite Hg1, Hk. cbn [fst snd].
  pose proof (align_up_bounds size0 (g_g g) Hg) as (_ & Hmod).
  split; [exact Hmod|]. destruct (Z.ltb_spec align0 (g_g g)); split; auto; lia.
Qed.

Lemma init_GInv_wide gr size : cfg_ok gr size -> 1 <= gr <= 4294967296 -> GInv gr (tlsf_init HVam gr size).
Proof.
  intros Hc Hr. constructor; auto.
  - apply init_TInv; auto.
  - unfold tlsf_init, gran_init; cbn. destruct (gr >? 256); reflexivity.
  - unfold tlsf_init, gran_init; cbn. destruct (gr >? 256); reflexivity.
  - constructor.
  - constructor.
  - unfold tlsf_init, gran_init, enabled, npages; cbn. destruct (gr >? 256) eqn:E; cbn; rewrite ?E; cbn.
    + apply repeat_length.
    + reflexivity.
  - intros _. apply table_ok_init.
Qed.

Lemma init_GInv gr size : cfg_ok gr size -> 1 <= gr <= 65536 -> GInv gr (tlsf_init HVam gr size).
Proof. intros Hc Hr. apply init_GInv_wide; auto. lia. Qed.

Lemma set_user_data_gran t h tag t' : set_user_data t h tag = Some t' -> t_gran t' = t_gran t.
Proof.
  unfold set_user_data. destruct (find_blk _ _); [|discriminate]. destruct (b_free _); [discriminate|].
  intros H; injection H as <-. reflexivity.
Qed.

Lemma sig_with_tag b tag : sig (with_tag b tag) = sig b.
Proof. reflexivity. Qed.

Lemma tcount_spans_le t gr p : TInv t -> 0 < gr -> tcount gr p (spans t) <= gr.
Proof. intros [Hinv _] Hg. apply tcount_le_g; auto. apply spans_asc; auto. Qed.

Theorem step_preserves_G gr t o :
  GInv gr t -> op_ok o -> op_kind_ok o -> GInv gr (fst (step t o)).
Proof.
  intros [HT Hh Hg Hrange Hkind Hround Hlen Htab] Hok Hkok.
  assert (HG : GInv gr t) by (constructor; auto).
  pose proof (step_preserves t o HT Hok) as (HT' & Hlive & Hsz).
  pose proof HT as [Hinv Hpg].
  assert (Hgpos : 0 < gr) by lia.
  destruct o as [size align atype strat upper mo tag|size align atype strat upper mo|h|h tag| |atype size];
    cbn [step op_ok op_kind_ok] in *.
  - (* OAlloc *)
    destruct (create_request t size align upper atype strat mo) as [t1 r| | |] eqn:Hcr;
      cbn [fst snd] in *; auto.
    apply create_request_granted in Hcr. destruct Hcr as (Hs1 & -> & Hgr).
    pose proof (round_up_spec (t_gran t) atype size align Hpg Hok) as Hru.
    destruct (round_up (t_gran t) atype size align) as [size' align'] eqn:Eru. cbn [fst snd] in Hgr.
    destruct Hru as (Hsz' & Hpa' & Hale).
    apply granted_placement in Hgr; auto.
    destruct Hgr as ((Hc1 & Hn1 & Hsz1 & Hg1 & Ha1) & Hrsz & Hrty & Hrmod & a & ro & rs & Hcc).
    destruct (alloc t1 r tag size align) as [t2 hh| |] eqn:Hal; cbn [fst snd live_effect o_kind out] in *; auto.
    apply alloc_regions_of_alloc in Hal. destruct Hal as (-> & Hal).
    rewrite Hg1, Hrty, Hrsz in Hal.
    destruct Hlive as (l1 & l2 & Hl & Hl').
    destruct (alloc_regions_frame _ _ _ _ _ Hal) as (Hg2 & Hh2 & Hlen2).
    assert (Hen2 : enabled (t_gran t2) = enabled (t_gran t)) by (apply enabled_ext; auto).
    assert (Hsp : spans t = map sig l1 ++ map sig l2) by (unfold spans; rewrite Hl, map_app; reflexivity).
    assert (Hsp' : spans t2 = map sig l1 ++ (rq_offset r, size', atype) :: map sig l2).
    { unfold spans. rewrite Hl', map_app. cbn [map]. unfold new_blk, sig at 2. cbn [b_off b_size b_kind].
      rewrite Hrsz. reflexivity. }
    constructor; auto; try congruence.
    + (* kinds *)
      rewrite Hsp'. rewrite Hsp in Hkind. apply Forall_app in Hkind. destruct Hkind as (K1 & K2).
      apply Forall_app. split; auto.
    + (* rounding *)
      rewrite Hsp'. rewrite Hsp in Hround. apply Forall_app in Hround. destruct Hround as (R1 & R2).
      apply Forall_app. split; auto. constructor; auto.
      unfold round_ok, s_off, s_size, s_kind. cbn [fst snd]. intros Hm.
      rewrite <- Hg in Hm.
      pose proof (round_up_rounded (t_gran t) atype size align Hh Hpg Hok Hm) as (Q1 & Q2 & Q3).
      rewrite Eru in Q1, Q2, Q3. cbn [fst snd] in Q1, Q2, Q3. rewrite Hg in *.
      split; auto. eapply pow2_mod_mono; [| exact Q2 | exact Q3 | exact Hrmod]. congruence.
    + (* length *)
      rewrite Hlen2, Hen2, Hsz. exact Hlen.
    + (* table *)
      rewrite Hen2. intros Hen. rewrite Hsp'. specialize (Htab Hen). rewrite Hsp in Htab.
      eapply alloc_regions_table_ok; eauto.
      intros p Htp. rewrite <- Hsp.
      pose proof (tcount_spans_le t2 gr p HT' Hgpos) as Hb.
      rewrite Hsp', tcount_insert, <- Hsp in Hb. rewrite Hg in Htp. rewrite Htp in Hb. rewrite Hg. lia.
  - (* ORequest *)
    destruct (create_request t size align upper atype strat mo) as [t1 r| | |] eqn:Hcr;
      cbn [fst snd live_effect o_kind out] in *; auto.
    apply create_request_granted in Hcr. destruct Hcr as (Hs1 & -> & Hgr).
    apply granted_fits in Hgr; auto. destruct Hgr as ((Hc1 & Hn1 & Hsz1 & Hg1 & Ha1) & _).
    assert (Hsp : spans t1 = spans t) by (unfold spans; rewrite !live_livef, Hc1; reflexivity).
    constructor; auto; rewrite ?Hg1, ?Hsp, ?Hsz1; auto.
  - (* OFree *)
    destruct (tlsf_free t h) as [t1| |] eqn:Hfr; cbn [fst snd live_effect o_kind out] in *; auto.
    destruct (tlsf_free_inv1 _ _ _ Hinv Hfr) as (_ & _ & _ & (b0 & g' & Hfind & Hfreg & Hg') & _).
    destruct Hlive as (l1 & b & l2 & Hl & Hoff & Hl').
    assert (Hb0 : b0 = b).
    { assert (Hbin : In b (live t)) by (rewrite Hl; apply in_or_app; right; left; reflexivity).
      destruct (live_in_chain _ _ Hbin) as (Hbc & _).
      destruct Hinv as [[Hch _ _ _ _] _ _ _].
      pose proof (find_blk_unique _ _ _ Hch Hbc) as Hu. rewrite Hoff in Hu. congruence. }
    subst b0 g'.
    destruct (free_regions_frame _ _ _ _ Hfreg) as (Hg2 & Hh2 & Hlen2).
    assert (Hen2 : enabled (t_gran t1) = enabled (t_gran t)) by (apply enabled_ext; auto).
    assert (Hsp : spans t = map sig l1 ++ (b_off b, b_size b, b_kind b) :: map sig l2)
      by (unfold spans; rewrite Hl, map_app; reflexivity).
    assert (Hsp' : spans t1 = map sig l1 ++ map sig l2) by (unfold spans; rewrite Hl', map_app; reflexivity).
    constructor; auto; try congruence.
    + rewrite Hsp'. rewrite Hsp in Hkind. apply Forall_app in Hkind. destruct Hkind as (K1 & K2).
      inversion K2; subst. apply Forall_app. split; auto.
    + rewrite Hsp'. rewrite Hsp in Hround. apply Forall_app in Hround. destruct Hround as (R1 & R2).
      inversion R2; subst. apply Forall_app. split; auto.
    + rewrite Hlen2, Hen2, Hsz. exact Hlen.
    + rewrite Hen2. intros Hen. rewrite Hsp'. specialize (Htab Hen). rewrite Hsp in Htab.
      eapply free_regions_table_ok; eauto.
      intros p. pose proof (tcount_spans_le t gr p HT Hgpos) as Hb. rewrite Hsp in Hb. rewrite Hg.
      eapply Z.le_trans; [exact Hb|lia].
  - (* OSetUD *)
    destruct (set_user_data t h tag) as [t1|] eqn:Hsu; cbn [fst snd live_effect o_kind out] in *; auto.
    apply set_user_data_gran in Hsu.
    destruct Hlive as (l1 & b & l2 & Hl & Hoff & Hl').
    assert (Hsp : spans t1 = spans t).
    { unfold spans. rewrite Hl, Hl', !map_app. cbn [map]. rewrite sig_with_tag. reflexivity. }
    constructor; auto; rewrite ?Hsu, ?Hsp, ?Hsz; auto.
  - (* OClear *)
    cbn [fst snd live_effect o_kind out] in *.
    assert (Hsp : spans (tlsf_clear t) = []) by reflexivity.
    assert (Hen2 : enabled (t_gran (tlsf_clear t)) = enabled (t_gran t)) by reflexivity.
    constructor; auto; rewrite ?Hsp; auto.
    + rewrite Hen2, Hsz. cbn [tlsf_clear t_gran gran_clear g_regions]. rewrite repeat_length. exact Hlen.
    + intros _. apply table_ok_clear.
  - (* OMayHave *)
    cbn [fst snd] in *. exact HG.
Qed.

Lemma run_GInv gr t ops :
  GInv gr t -> Forall op_ok ops -> Forall op_kind_ok ops -> GInv gr (run t ops).
Proof.
  revert t; induction ops as [|o ops IH]; intros t Ht Hok Hk; cbn; [auto|].
  inversion Hok; subst. inversion Hk; subst. apply IH; auto. apply step_preserves_G; auto.
Qed.

Theorem reach_GInv_wide gr size ops :
  cfg_ok gr size -> 1 <= gr <= 4294967296 -> Forall op_ok ops -> Forall op_kind_ok ops ->
  GInv gr (run (tlsf_init HVam gr size) ops).
Proof. intros. apply run_GInv; auto. apply init_GInv_wide; auto. Qed.

(* the range of granularities of the property (1 .. 64 KiB) *)
Theorem reach_GInv gr size ops :
  cfg_ok gr size -> 1 <= gr <= 65536 -> Forall op_ok ops -> Forall op_kind_ok ops ->
  GInv gr (run (tlsf_init HVam gr size) ops).
Proof. intros Hc Hr. apply reach_GInv_wide; auto. lia. Qed.

(* ------------------------------------------------------------------ consequences *)

(* no page holds a byte of a and a byte of b *)
Definition no_shared_page (gr : Z) (a b : blk) : Prop :=
  forall x y, b_off a <= x < b_off a + b_size a -> b_off b <= y < b_off b + b_size b ->
              x / gr <> y / gr.

Lemma no_shared_page_sym gr a b : no_shared_page gr a b -> no_shared_page gr b a.
Proof. intros H x y Hx Hy E. apply (H y x Hy Hx). auto. Qed.

(* the same thing said with the handler's own slot functions *)
Lemma no_shared_page_slots g a b :
  pow2 (g_g g) -> 0 < b_size a -> 0 < b_size b ->
  (no_shared_page (g_g g) a b <->
   (end_slot g (b_off a) (b_size a) < start_slot g (b_off b) \/
    end_slot g (b_off b) (b_size b) < start_slot g (b_off a))).
Proof.
  intros Hp Ha Hb. rewrite !start_slot_div, !end_slot_div by auto.
  pose proof (pow2_pos _ Hp) as Hg. set (gz := g_g g) in *.
  split.
  - intros H.
    destruct (Z_lt_ge_dec ((b_off a + b_size a - 1) / gz) (b_off b / gz)) as [|H1]; [auto|].
    destruct (Z_lt_ge_dec ((b_off b + b_size b - 1) / gz) (b_off a / gz)) as [|H2]; [auto|].
    exfalso.
    (* the two page intervals intersect: take a common page *)
    set (p := Z.max (b_off a / gz) (b_off b / gz)).
    assert (Hpa : b_off a / gz <= p <= (b_off a + b_size a - 1) / gz).
    { unfold p. split; [lia|]. apply Z.max_lub; [apply Z.div_le_mono; lia|lia]. }
    assert (Hpb : b_off b / gz <= p <= (b_off b + b_size b - 1) / gz).
    { unfold p. split; [lia|]. apply Z.max_lub; [lia|apply Z.div_le_mono; lia]. }
    apply (range_pages gz (b_off a) (b_size a) Hg Ha) in Hpa. destruct Hpa as (x & Hx & Ex).
    apply (range_pages gz (b_off b) (b_size b) Hg Hb) in Hpb. destruct Hpb as (y & Hy & Ey).
    apply (H x y Hx Hy). congruence.
  - intros H x y Hx Hy E.
    assert (b_off a / gz <= x / gz <= (b_off a + b_size a - 1) / gz)
      by (split; apply Z.div_le_mono; lia).
    assert (b_off b / gz <= y / gz <= (b_off b + b_size b - 1) / gz)
      by (split; apply Z.div_le_mono; lia).
    lia.
Qed.

Lemma live_geometry t a :
  Inv1 t -> In a (live t) ->
  0 <= b_off a /\ 0 < b_size a /\ b_off a + b_size a <= t_size t /\
  forall b, In b (live t) -> a <> b ->
    b_off a + b_size a <= b_off b \/ b_off b + b_size b <= b_off a.
Proof.
  intros Hinv Ha. pose proof (inv1_live_sound t Hinv a Ha) as (H1 & H2 & _ & _ & _ & H3).
  destruct (live_in_chain _ _ Ha) as (Hc & _). destruct Hinv as [[Hch _ _ _ _] _ _ _].
  pose proof (chain_in_bounds _ _ _ Hch Hc). repeat split; auto; lia.
Qed.

Lemma live_span t a : In a (live t) -> In (sig a) (spans t).
Proof. intros H. apply in_spans. eauto. Qed.

(* a block that starts and ends on page boundaries shares no page with any other live block *)
Lemma rounded_block_excl gr t a b :
  GInv gr t -> In a (live t) -> In b (live t) -> a <> b ->
  must_round gr (b_kind a) = true -> no_shared_page gr a b.
Proof.
  intros [[Hinv _] _ _ Hrange _ Hround _ _] Ha Hb Hne Hm.
  rewrite Forall_forall in Hround. specialize (Hround _ (live_span _ _ Ha) Hm).
  unfold s_off, s_size, sig in Hround. cbn [fst snd] in Hround. destruct Hround as (Ho & Hs).
  destruct (live_geometry t a Hinv Ha) as (_ & _ & _ & Hdis). specialize (Hdis b Hb Hne).
  intros x y Hx Hy E.
  pose proof (whole_pages_own gr (b_off a) (b_size a) x y ltac:(lia) Ho Hs Hx E). lia.
Qed.

(* the round-up mechanism alone, at any granularity > 1: Unknown and ImageUnknown blocks share
   no page with anything; neither do ImageOptimal blocks when the granularity is <= 256 *)
Theorem tlsf_rounded_kinds_excl gr t a b :
  GInv gr t -> 1 < gr -> In a (live t) -> In b (live t) -> a <> b ->
  (b_kind a = 1 \/ b_kind a = 3 \/ (gr <= 256 /\ b_kind a = 5)) ->
  no_shared_page gr a b /\ no_shared_page gr b a.
Proof.
  intros HG Hgr Ha Hb Hne Hk.
  assert (Hm : must_round gr (b_kind a) = true) by (unfold must_round; lia).
  pose proof (rounded_block_excl gr t a b HG Ha Hb Hne Hm) as H.
  split; [exact H|apply no_shared_page_sym; exact H].
Qed.

Lemma live_kind_ok gr t a : GInv gr t -> In a (live t) -> kind_ok (b_kind a).
Proof.
  intros [_ _ _ _ Hkind _ _ _] Ha. rewrite Forall_forall in Hkind.
  exact (Hkind _ (live_span _ _ Ha)).
Qed.

(* ---- low granularity: the page table is disabled, rounding does everything *)
Theorem tlsf_low_gran gr t :
  GInv gr t -> 1 < gr <= 256 ->
  forall a b, In a (live t) -> In b (live t) -> a <> b ->
    conflict (b_kind a) (b_kind b) = true -> no_shared_page gr a b.
Proof.
  intros HG Hgr a b Ha Hb Hne Hc.
  pose proof (live_kind_ok _ _ _ HG Ha) as Ka. pose proof (live_kind_ok _ _ _ HG Hb) as Kb.
  unfold kind_ok in *. apply conflict_true_iff in Hc.
  assert (Hcase : (b_kind a = 1 \/ b_kind a = 3 \/ (gr <= 256 /\ b_kind a = 5)) \/
                  (b_kind b = 1 \/ b_kind b = 3 \/ (gr <= 256 /\ b_kind b = 5))) by lia.
  destruct Hcase as [H|H].
  - apply (tlsf_rounded_kinds_excl gr t a b); auto; lia.
  - apply (tlsf_rounded_kinds_excl gr t b a); auto; lia.
Qed.

(* ---- high granularity *)

Lemma page_in_range gz size x : 0 < gz -> 0 <= x < size -> 0 <= x / gz < npages gz size.
Proof.
  intros Hg Hx. split; [apply Z.div_pos; lia|]. unfold npages.
  destruct (Z.gtb_spec (size mod gz) 0) as [Hm|Hm].
  - assert (x / gz <= size / gz) by (apply Z.div_le_mono; lia). lia.
  - assert (Hm0 : size mod gz = 0) by (pose proof (Z.mod_pos_bound size gz Hg); lia).
    apply Z.div_exact in Hm0; [|lia]. rewrite Z.add_0_r.
    apply Z.div_lt_upper_bound; lia.
Qed.

(* every page on which a live block has a byte has an entry in the table (no index panic there) *)
Lemma live_page_has_entry gr t a x :
  GInv gr t -> enabled (t_gran t) = true -> In a (live t) ->
  b_off a <= x < b_off a + b_size a -> exists r, region_at (t_gran t) (x / gr) = Some r.
Proof.
  intros [[Hinv _] _ _ Hrange _ _ Hlen _] Hen Ha Hx. rewrite Hen in Hlen.
  destruct (live_geometry t a Hinv Ha) as (H0 & Hs & Hb & _).
  pose proof (page_in_range gr (t_size t) x ltac:(lia) ltac:(lia)) as Hp.
  unfold region_at. destruct (Z.ltb_spec (x / gr) 0); [lia|].
  destruct (nth_error (g_regions (t_gran t)) (Z.to_nat (x / gr))) eqn:E; [eauto|].
  apply nth_error_None in E. lia.
Qed.

(* two different live blocks with a byte each on one page: both are counted on that page *)
Lemma shared_page_boundary gr a b x y :
  0 < gr -> b_off a + b_size a <= b_off b ->
  b_off a <= x < b_off a + b_size a -> b_off b <= y < b_off b + b_size b -> x / gr = y / gr ->
  touchb gr (x / gr) (sig a) = true /\ touchb gr (x / gr) (sig b) = true.
Proof.
  intros Hg Hab Hx Hy E. unfold touchb, first_page, last_page, sig, s_off, s_size. cbn [fst snd].
  assert (x / gr <= (b_off a + b_size a - 1) / gr) by (apply Z.div_le_mono; lia).
  assert ((b_off a + b_size a - 1) / gr <= b_off b / gr) by (apply Z.div_le_mono; lia).
  assert (b_off b / gr <= y / gr) by (apply Z.div_le_mono; lia).
  split; lia.
Qed.

(* The page table alone: two different live blocks with bytes on one page have kinds with the
   same conflict set, and none of the two kinds conflicts with itself *)
Theorem tlsf_page_table_sound gr t a b x y :
  GInv gr t -> enabled (t_gran t) = true -> In a (live t) -> In b (live t) -> a <> b ->
  b_off a <= x < b_off a + b_size a -> b_off b <= y < b_off b + b_size b -> x / gr = y / gr ->
  conflict (b_kind a) (b_kind b) = conflict (b_kind b) (b_kind b) /\
  conflict (b_kind a) (b_kind b) = conflict (b_kind a) (b_kind a).
Proof.
  intros HG Hen Ha Hb Hne Hx Hy E.
  destruct (live_page_has_entry gr t a x HG Hen Ha Hx) as (r & Hr).
  pose proof HG as [[Hinv _] _ Hg Hrange _ _ _ Htab]. specialize (Htab Hen).
  destruct (live_geometry t a Hinv Ha) as (_ & _ & _ & Hdis). specialize (Hdis b Hb Hne).
  assert (Hgpos : 0 < gr) by lia.
  assert (Ht : touchb gr (x / gr) (sig a) = true /\ touchb gr (x / gr) (sig b) = true).
  { destruct Hdis as [Hab|Hba].
    - apply (shared_page_boundary gr a b x y); auto.
    - rewrite E. apply and_comm. apply (shared_page_boundary gr b a y x); auto. }
  destruct Ht as (Hta & Htb). subst gr.
  pose proof (table_ok_no_conflict _ _ _ _ _ _ Htab Hr (live_span _ _ Ha) (live_span _ _ Hb) Hta Htb) as H1.
  pose proof (table_ok_no_conflict _ _ _ _ _ _ Htab Hr (live_span _ _ Hb) (live_span _ _ Ha) Htb Hta) as H2.
  unfold sig, s_kind in H1, H2. cbn [snd] in H1, H2. split; [exact H1|].
  rewrite conflict_sym. exact H2.
Qed.

Theorem tlsf_high_gran gr t :
  GInv gr t -> 256 < gr ->
  forall a b, In a (live t) -> In b (live t) -> a <> b ->
    conflict (b_kind a) (b_kind b) = true -> no_shared_page gr a b.
Proof.
  intros HG Hgr a b Ha Hb Hne Hc.
  pose proof (live_kind_ok _ _ _ HG Ha) as Ka. pose proof (live_kind_ok _ _ _ HG Hb) as Kb.
  destruct (conflict (b_kind a) (b_kind a)) eqn:Saa.
  { apply conflict_self in Saa; auto. apply (tlsf_rounded_kinds_excl gr t a b); auto; lia. }
  destruct (conflict (b_kind b) (b_kind b)) eqn:Sbb.
  { apply conflict_self in Sbb; auto. apply (tlsf_rounded_kinds_excl gr t b a); auto; lia. }
  intros x y Hx Hy E.
  assert (Hen : enabled (t_gran t) = true).
  { destruct HG as [_ Hh Hg _ _ _ _ _]. unfold enabled. rewrite Hh, Hg. lia. }
  destruct (tlsf_page_table_sound gr t a b x y HG Hen Ha Hb Hne Hx Hy E) as (H1 & _). congruence.
Qed.

(* ---- every granularity 1 .. 2^32 (gi_range) *)
Theorem tlsf_gran_sound gr t :
  GInv gr t ->
  forall a b, In a (live t) -> In b (live t) -> a <> b ->
    conflict (b_kind a) (b_kind b) = true -> no_shared_page gr a b.
Proof.
  intros HG a b Ha Hb Hne Hc.
  pose proof HG as [[Hinv _] _ _ Hrange _ _ _ _].
  destruct (Z.eq_dec gr 1) as [->|H1].
  - (* every byte is its own page *)
    destruct (live_geometry t a Hinv Ha) as (_ & _ & _ & Hdis). specialize (Hdis b Hb Hne).
    intros x y Hx Hy. rewrite !Z.div_1_r. lia.
  - destruct (Z_le_gt_dec gr 256).
    + apply (tlsf_low_gran gr t); auto; lia.
    + apply (tlsf_high_gran gr t); auto; lia.
Qed.

(* ------------------------------------------------------------------ the table of an empty block *)

Theorem regions_all_zero_when_empty gr t :
  GInv gr t -> live t = [] -> Forall (fun r => r = (0, 0)) (g_regions (t_gran t)).
Proof.
  intros [_ _ _ _ _ _ Hlen Htab] Hl. apply Forall_forall. intros r Hin.
  destruct (enabled (t_gran t)) eqn:Hen.
  - specialize (Htab eq_refl). unfold spans in Htab. rewrite Hl in Htab. cbn [map] in Htab.
    destruct (In_nth_error _ _ Hin) as (n & Hn).
    apply (table_ok_empty (t_gran t) (Z.of_nat n) r Htab).
    unfold region_at. destruct (Z.ltb_spec (Z.of_nat n) 0); [lia|]. rewrite Nat2Z.id. exact Hn.
  - destruct (g_regions (t_gran t)); [destruct Hin|discriminate].
Qed.

(* more generally, an entry is (Free, 0) exactly on the pages where no live block starts or ends *)
Theorem region_zero_iff_untouched gr t p r :
  GInv gr t -> enabled (t_gran t) = true -> region_at (t_gran t) p = Some r ->
  (r = (0, 0) <-> forall a, In a (live t) -> touchb gr p (sig a) = false).
Proof.
  intros HG Hen Hr. pose proof HG as [HT _ Hg Hrange _ _ _ Htab]. specialize (Htab Hen).
  destruct (Htab p r Hr) as (Hc & Hz & Hp). rewrite Hg in *.
  pose proof (tcount_spans_le t gr p HT ltac:(lia)) as Hle.
  pose proof (tcount_nonneg gr p (spans t)) as Hge.
  split.
  - intros -> a Ha. destruct (touchb gr p (sig a)) eqn:Ht; auto.
    pose proof (tcount_pos _ _ _ _ (live_span _ _ Ha) Ht) as Hn.
    destruct (Hp Hn) as (Hk & _). unfold kind_ok in Hk. cbn in Hk. lia.
  - intros Hall. assert (Hn : tcount gr p (spans t) = 0).
    { unfold tcount. replace (filter (touchb gr p) (spans t)) with (@nil span); [reflexivity|].
      symmetry. unfold spans. induction (live t) as [|a l IH]; [reflexivity|].
      cbn [map filter]. rewrite (Hall a (or_introl eq_refl)). apply IH.
      intros a' Ha'. apply Hall. right; auto. }
    destruct r as [ty c]. cbn [fst snd] in *. rewrite (Hz Hn), Hc, Hn. reflexivity.
Qed.

(* Why this matters for the Go code: vam recycles deviceMemoryBlock objects through a sync.Pool
   (block_list.go) after Destroy, which succeeds only on an empty block and does NOT reset the
   handler; blockBufferImageGranularity.Init then reuses the old regionInfo slice without
   zeroing it (`g.regionInfo = g.regionInfo[:count]`).  Gran.gran_init models Init as a fresh
   all-zero table; that is faithful because an empty TLSF block has an all-zero table: *)
Lemma is_empty_no_live t : Inv1 t -> is_empty t = true -> live t = [].
Proof.
  intros [[Hch Hnoff _ _ _] _ _ _] He. unfold is_empty in He. apply Z.eqb_eq in He.
  rewrite He in Hnoff. rewrite live_livef.
  destruct (t_chain t) as [|b c]; [reflexivity|]. exfalso.
  cbn in Hch, Hnoff. destruct Hch as (_ & Hs & Hc). pose proof (chain_end_ge _ _ Hc). lia.
Qed.

Theorem regions_all_zero_when_is_empty gr t :
  GInv gr t -> is_empty t = true -> Forall (fun r => r = (0, 0)) (g_regions (t_gran t)).
Proof.
  intros HG He. apply (regions_all_zero_when_empty gr t HG).
  destruct HG as [[Hinv _] _ _ _ _ _ _ _]. apply is_empty_no_live; auto.
Qed.
