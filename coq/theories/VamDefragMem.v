(* The device memory objects through the defragmentation calls (C10/C13/C15).

   BeginDefragmentation / BeginDefragPass / EndDefragPass / Finish never call vkAllocateMemory, and a VkDeviceMemory object
   that exists before and after such a call is the same object (same memory type, same size). EndDefragPass can free a block
   that became empty (vkFreeMemory), nothing else changes the set of objects.

   The pass over the model functions is written once, for any relation on device states that is reflexive, transitive and
   holds across the five primitives the defragmentation calls use (sm_sub, sm_map, add_allocation, BlockList.free); it is then
   instantiated with VamMemStable.MS (object identity) and VamPropsOps.noalloc (no CAlloc in the call log). *)
From Coq Require Import ZArith List Bool Lia Permutation.
From Arsenal Require Import Util Budget VamDev VamBlockList VamDefrag Vam VamInvMeta VamInv VamInvUpd VamInvDev.
From Arsenal Require Import VamAcct VamMemStable.
From Arsenal Require VamPropsOps.
From Arsenal Require Pass Defrag SyncMem.
Import ListNotations.
Local Open Scope Z_scope.

Section Gen.
Variable c : vcfg.
Variable R : mach -> mach -> Prop.
Hypothesis R_refl : forall m, R m m.
Hypothesis R_trans : forall a b d, R a b -> R b d -> R a d.
Hypothesis R_sub : forall m mem s, R m (fst (sm_sub m mem s)).
Hypothesis R_map : forall m mem s, R m (fst (fst (sm_map c m mem s))).
Hypothesis R_add : forall m h size, R m (add_allocation c m h size).
Hypothesis R_free : forall v lr s keep, R (v_m v) (v_m (fst (bl_free c v lr s keep))).

Definition RV (v v' : vam) : Prop := R (v_m v) (v_m v').

Lemma RV_refl v : RV v v. Proof. apply R_refl. Qed.
Lemma RV_trans a b d : RV a b -> RV b d -> RV a d. Proof. apply R_trans. Qed.
Lemma RV_eq v v' : v_m v' = v_m v -> RV v v'. Proof. unfold RV. intros ->. apply R_refl. Qed.

Lemma prepare_list_m v lr : v_m (prepare_list v lr) = v_m v.
Proof. unfold prepare_list. destruct (get_blist v lr); [apply set_blist_m|reflexivity]. Qed.

Lemma prepare_lists_m lrs : forall v, v_m (fold_left prepare_list lrs v) = v_m v.
Proof. induction lrs as [|lr tl IH]; intros v; cbn [fold_left]; [reflexivity|]. rewrite IH. apply prepare_list_m. Qed.

Lemma defrag_begin_R v flags pool mb ma : RV v (fst (defrag_begin c v flags pool mb ma)).
Proof.
  unfold defrag_begin. destruct (_ || _); [apply RV_refl|]. destruct (_ =? 3); [apply RV_refl|].
  destruct (match pool with Some uid => list_is_linear v (LPool uid) | None => false end); [apply RV_refl|].
  destruct (negb _); cbn [fst]; apply RV_eq; apply prepare_lists_m.
Qed.

Lemma commit_move_R w lr mv : RV w (fst (commit_move c w lr mv)).
Proof.
  unfold commit_move. destruct (get_blist w lr) as [l|]; [|apply RV_refl].
  destruct (get_block w lr (Defrag.m_dstblk mv)) as [b|]; [|apply RV_refl]. destruct (negb _); [apply RV_refl|].
  pose proof (R_sub (v_m w) (bk_mem b) (bk_sm b)) as H1. destruct (sm_sub (v_m w) (bk_mem b) (bk_sm b)) as (m1 & s1). cbn [fst] in H1.
  set (src := get_alloc w (Z.of_nat (Defrag.m_src mv))).
  assert (H2 : R m1 (fst (fst (if a_persist src then sm_map c m1 (bk_mem b) s1 else (m1, s1, OK tt))))).
  { destruct (a_persist src); [apply R_map|apply R_refl]. }
  destruct (if a_persist src then sm_map c m1 (bk_mem b) s1 else (m1, s1, OK tt)) as ((m2 & s2) & mr). cbn [fst] in H2.
  assert (H3 : RV w (put_block (set_m w m2) lr (mkBlock (bk_id b) (bk_mem b) s2 (bk_meta b)))).
  { unfold RV. rewrite put_block_m. cbn [v_m set_m]. eapply R_trans; eauto. }
  destruct mr as [[]|code| |]; cbn [fst]; try exact H3.
  destruct (a_persist src && negb (a_mapallowed src)); cbn [fst]; [exact H3|].
  unfold RV in *. cbn [v_m set_m set_tab]. eapply R_trans; [exact H3|]. apply R_add.
Qed.

Lemma commit_moves_R mvs : forall w lr, RV w (fst (commit_moves c w lr mvs)).
Proof.
  induction mvs as [|mv tl IH]; intros w lr; cbn [commit_moves]; [apply RV_refl|].
  pose proof (commit_move_R w lr mv) as H. destruct (commit_move c w lr mv) as (w1 & r). cbn [fst] in H.
  destruct r as [[]|code| |]; cbn [fst]; try exact H. eapply RV_trans; [exact H|apply IH].
Qed.

Lemma commit_attempt_R w lr slot dst : RV w (fst (commit_attempt c w lr slot dst)).
Proof.
  unfold commit_attempt. destruct (get_block w lr dst) as [b|]; [|apply RV_refl].
  pose proof (R_sub (v_m w) (bk_mem b) (bk_sm b)) as H1. destruct (sm_sub (v_m w) (bk_mem b) (bk_sm b)) as (m1 & s1). cbn [fst] in H1.
  assert (H2 : R m1 (fst (fst (if a_persist (get_alloc w (Z.of_nat slot)) then sm_map c m1 (bk_mem b) s1 else (m1, s1, OK tt))))).
  { destruct (a_persist _); [apply R_map|apply R_refl]. }
  destruct (if a_persist (get_alloc w (Z.of_nat slot)) then sm_map c m1 (bk_mem b) s1 else (m1, s1, OK tt)) as ((m2 & s2) & mr). cbn [fst] in *.
  unfold RV. rewrite put_block_m. cbn [v_m set_m]. eapply R_trans; eauto.
Qed.

Lemma replay_R log : forall w lr, RV w (fst (replay_log c w lr log)).
Proof.
  induction log as [|[slot dst|mv] tl IH]; intros w lr; cbn [replay_log]; [apply RV_refl| |].
  - pose proof (commit_attempt_R w lr slot dst) as H. destruct (commit_attempt c w lr slot dst) as (w1 & r). cbn [fst] in H.
    destruct r as [[]|code| |]; cbn [fst]; try exact H; (eapply RV_trans; [exact H|apply IH]).
  - pose proof (commit_move_R w lr mv) as H. destruct (commit_move c w lr mv) as (w1 & r). cbn [fst] in H.
    destruct r as [[]|code| |]; cbn [fst]; try exact H. eapply RV_trans; [exact H|apply IH].
Qed.

Lemma collect_list_R v dc p : RV v (fst (collect_list c v dc p)).
Proof.
  unfold collect_list. destruct (project v (dc_lr dc)) as [st|]; [|apply RV_refl].
  destruct (get_blist v (dc_lr dc)) as [l|]; [|apply RV_refl].
  destruct (Defrag.collect_moves_f vam (att_commit c (dc_lr dc)) st (dc_ctx dc) p v) as (((cs & env) & log) & wr). destruct wr as [| |why]; [| |apply RV_refl].
  all: match goal with |- context [replay_log c ?w ?lr0 ?ms] =>
         assert (H1 : RV v w) by (apply RV_eq; apply set_blist_m);
         pose proof (replay_R ms w lr0) as H2; destruct (replay_log c w lr0 ms) as (v2 & r); cbn [fst] in H2;
         assert (K2 : RV v v2) by (eapply RV_trans; eauto); destruct r as [[]|code| |]; exact K2 end.
Qed.

Lemma pass_loop_R fuel : forall v run p, RV v (fst (fst (pass_loop c fuel v run p))).
Proof.
  induction fuel as [|f IH]; intros v run p; cbn [pass_loop]; [apply RV_refl|].
  destruct (nth_z (dr_ctxs run) (dr_progress run)) as [dc|]; [|apply RV_refl].
  pose proof (collect_list_R v dc p) as H. destruct (collect_list c v dc p) as (v1 & r). cbn [fst] in H.
  destruct r as [(dc' & p')|code| |]; cbn [fst]; try exact H. destruct (Defrag.c_moves (dc_ctx dc')); [|exact H]. eapply RV_trans; [exact H|apply IH].
Qed.

Lemma set_ud_m w lr bid h tag w' : set_block_user_data w lr bid h tag = Some w' -> v_m w' = v_m w.
Proof.
  unfold set_block_user_data. destruct (get_block w lr bid) as [b|]; [|discriminate].
  destruct (meta_set_user_data (bk_meta b) h tag) as [mt'|]; [|discriminate]. intros H; injection H as <-. apply put_block_m.
Qed.

Lemma swap_m v s t : v_m (fst (swap_block_allocation v s t)) = v_m v.
Proof.
  unfold swap_block_allocation. destruct (_ || _); [reflexivity|].
  match goal with |- context [set_block_user_data v ?a1 ?a2 ?a3 t] => destruct (set_block_user_data v a1 a2 a3 t) as [v1|] eqn:E1 end; [|reflexivity].
  pose proof (set_ud_m _ _ _ _ _ _ E1) as H1.
  match goal with |- context [set_block_user_data ?w ?a1 ?a2 ?a3 s] => destruct (set_block_user_data w a1 a2 a3 s) as [v3|] eqn:E3 end; cbn [fst]; [|exact H1].
  rewrite (set_ud_m _ _ _ _ _ _ E3). exact H1.
Qed.

Lemma free_or_panic_R v s : RV v (fst (free_or_panic c v s)).
Proof.
  unfold free_or_panic. destruct (negb _); [apply RV_refl|]. destruct (negb _); [apply RV_refl|].
  pose proof (R_free v (a_lref (get_alloc v s)) s false) as H. destruct (bl_free c v _ s false) as (v1 & r). cbn [fst] in H.
  destruct r as [[]|code| |]; cbn [fst]; exact H.
Qed.

Lemma complete_move_R v mv d : RV v (fst (complete_move c v mv d)).
Proof.
  unfold complete_move.
  match goal with |- context [let '(v1, r1) := ?e in _] => assert (H1 : RV v (fst e)); [|destruct e as (v1 & r1)] end.
  { destruct (d =? 0); [apply RV_eq; apply swap_m|]. destruct (d =? 2); [apply free_or_panic_R|apply RV_refl]. }
  cbn [fst] in H1. destruct r1 as [[]|code| |]; cbn [fst]; try exact H1. eapply RV_trans; [exact H1|apply free_or_panic_R].
Qed.

Lemma complete_moves_R mvs : forall v lr p imm ds, RV v (fst (fst (fst (complete_moves c v lr p imm mvs ds)))).
Proof.
  induction mvs as [|mv rest IH]; intros v lr p imm ds; cbn [complete_moves]; [apply RV_refl|].
  destruct (list_alloc_stats v lr) as (pc & pb).
  pose proof (complete_move_R v mv (norm_decision (hd 0 ds))) as H. destruct (complete_move c v mv (norm_decision (hd 0 ds))) as (v1 & r). cbn [fst] in H.
  destruct r as [[]|code| |]; cbn [fst]; try exact H. destruct (list_alloc_stats v1 lr) as (ac & ab). eapply RV_trans; [exact H|apply IH].
Qed.

Lemma complete_pass_R v dc p ds : RV v (fst (fst (fst (complete_pass c v dc p ds)))).
Proof.
  unfold complete_pass.
  pose proof (complete_moves_R (Defrag.c_moves (dc_ctx dc)) v (dc_lr dc) p [] ds) as H.
  destruct (complete_moves c v (dc_lr dc) p [] (Defrag.c_moves (dc_ctx dc)) ds) as (((v1 & p1) & imm) & r). cbn [fst] in H.
  destruct r as [[]|code| |]; cbn [fst]; try exact H. destruct (get_blist v1 (dc_lr dc)) as [l|]; cbn [fst]; [|exact H].
  destruct (fold_left _ imm (bl_blocks l, Defrag.c_immovable (dc_ctx dc))) as (bs & immc). cbn [fst].
  eapply RV_trans; [exact H|apply RV_eq; apply set_blist_m].
Qed.

Lemma defrag_end_R v run ds : RV v (fst (fst (defrag_end c v run ds))).
Proof.
  unfold defrag_end. destruct (nth_z (dr_ctxs run) (dr_progress run)) as [dc|]; [|apply RV_refl].
  destruct (Defrag.c_moves (dc_ctx dc)); [apply RV_refl|].
  pose proof (complete_pass_R v dc (dr_pass run) ds) as H. destruct (complete_pass c v dc (dr_pass run) ds) as (((v1 & dc') & p') & r). cbn [fst] in H.
  destruct r as [[]|code| |]; exact H.
Qed.

Lemma defrag_finish_m v run : v_m (fst (defrag_finish v run)) = v_m v.
Proof.
  unfold defrag_finish. cbn [fst]. generalize (dr_ctxs run). intros ctxs. revert v. induction ctxs as [|dc tl IH]; intros v; cbn [fold_left]; [reflexivity|].
  rewrite IH. destruct (get_blist v (dc_lr dc)); [apply set_blist_m|reflexivity].
Qed.

(* one defragmentation call *)
Lemma dexec_R v run o : RV v (fst (fst (fst (dexec c v run o)))).
Proof.
  destruct o as [flags pool mb ma| |ds|]; cbn [dexec].
  - pose proof (defrag_begin_R v flags pool mb ma) as H. destruct (defrag_begin c v flags pool mb ma) as (v1 & r). cbn [fst] in H. destruct r; exact H.
  - destruct run as [rn|]; [|apply RV_refl]. unfold defrag_pass.
    pose proof (pass_loop_R (S (length (dr_ctxs rn))) v rn (Pass.pass_init (dr_max_bytes rn) (dr_max_allocs rn))) as H.
    destruct (pass_loop c _ v rn _) as ((v1 & rn') & r). cbn [fst] in H. destruct r; exact H.
  - destruct run as [rn|]; [|apply RV_refl]. pose proof (defrag_end_R v rn ds) as H. destruct (defrag_end c v rn ds) as ((v1 & rn') & r). cbn [fst] in H. destruct r; exact H.
  - destruct run as [rn|]; [|apply RV_refl]. pose proof (defrag_finish_m v rn) as H. destruct (defrag_finish v rn) as (v1 & st). cbn [fst] in *. apply RV_eq. exact H.
Qed.

End Gen.

Section Inst.
Variable c : vcfg.

(* device memory objects keep their identity *)
Lemma dexec_M v run o : MSv v (fst (fst (fst (dexec c v run o)))).
Proof.
  apply (dexec_R c MS MS_refl MS_trans); intros.
  - apply sm_sub_MS.
  - apply sm_map_MS.
  - apply add_allocation_MS.
  - apply (bl_free_M c).
Qed.

(* no vkAllocateMemory *)
Lemma dexec_na v run o : VamPropsOps.noallocV v (fst (fst (fst (dexec c v run o)))).
Proof.
  apply (dexec_R c VamPropsOps.noalloc VamPropsOps.noalloc_refl VamPropsOps.noalloc_trans); intros.
  - apply VamPropsOps.sm_sub_na.
  - apply VamPropsOps.sm_map_na.
  - apply VamPropsOps.add_allocation_na.
  - apply (VamPropsOps.bl_free_na c).
Qed.

Theorem dstep_mems_stable v run o f v' run' r calls dr d' :
  dstep c v run o f = (v', run', r, calls, dr) -> In d' (m_mems (v_m v')) -> dm_id d' <= m_next (v_m v) ->
  exists d, In d (m_mems (v_m v)) /\ mem_key d = mem_key d'.
Proof.
  unfold dstep. set (v0 := set_m v (clear_calls (set_fault (v_m v) f 0))). pose proof (dexec_M v0 run o) as H.
  destruct (dexec c v0 run o) as (((v1 & run1) & r1) & dr1). cbn [fst] in H. intros E. injection E as <- _ _ _ _. cbn [v_m set_m m_mems clear_calls set_fault].
  intros Hin Hid. destruct H as (_ & H). cbn in H. apply (H d' Hin Hid).
Qed.

(* C15: the four defragmentation calls never call vkAllocateMemory, whatever the faults *)
Theorem dstep_never_allocates v run o f v' run' r calls dr :
  dstep c v run o f = (v', run', r, calls, dr) -> Forall VamPropsOps.not_alloc_call calls.
Proof.
  unfold dstep. set (v0 := set_m v (clear_calls (set_fault (v_m v) f 0))). pose proof (dexec_na v0 run o) as H.
  destruct (dexec c v0 run o) as (((v1 & run1) & r1) & dr1). cbn [fst] in H. intros E. injection E as _ _ _ <- _.
  destruct H as (l & E & F). cbn in E. rewrite app_nil_r in E. rewrite E. apply Forall_rev. exact F.
Qed.

End Inst.

From Arsenal Require Import VamInvThm VamAcctStep VamAcctThm VamDefragAcct.

Section Reach.
Variable c : vcfg.
Hypothesis Ha : cfg_acct c.

(* a VkDeviceMemory object that exists before and after a defragmentation call is the same object: same memory type, same size *)
Theorem dstep_keeps_object_identity v run o f v' run' r calls dr id d d' :
  reachDA c v run -> dstep c v run o f = (v', run', r, calls, dr) ->
  find_mem (m_mems (v_m v)) id = Some d -> find_mem (m_mems (v_m v')) id = Some d' -> mem_key d' = mem_key d.
Proof.
  intros Rd Hs Hf Hf'. destruct (reachDA_inv c Ha v run Rd) as (HA & _).
  pose proof (va_s _ _ _ _ HA) as HI.
  destruct (find_mem_in _ _ _ Hf) as (Hin & Hid). destruct (find_mem_in _ _ _ Hf') as (Hin' & Hid').
  pose proof (vi_dev_next _ _ _ _ HI) as Hn. rewrite Forall_forall in Hn. specialize (Hn d Hin).
  destruct (dstep_mems_stable c v run o f v' run' r calls dr d' Hs Hin' ltac:(lia)) as (d0 & Hin0 & E0).
  assert (Hid0 : dm_id d0 = id) by (unfold mem_key in E0; injection E0 as E1 _ _; lia).
  rewrite (find_mem_key_unique _ _ _ _ (vi_dev_nodup _ _ _ _ HI) Hf Hin0 Hid0) in E0. symmetry. exact E0.
Qed.

(* resource handles stay fresh along histories with defragmentation calls too *)
Theorem reachDA_res_inv v run : reachDA c v run -> ResInv (v_m v).
Proof.
  induction 1 as [nslots v H Hn|v run o f v' r calls R IH Hidle Hok Hd Hs Hp Hk|v run o f v' run' r calls dr R IH Hok Hs Hp Hk Hb].
  - unfold vam_new in H. destruct (negb _); [discriminate|]. destruct (negb _); [discriminate|]. injection H as <-. constructor.
  - unfold step in Hs. set (v0 := set_m v (clear_calls (set_fault (v_m v) f 0))) in *. pose proof (exec_M c v0 o) as M.
    destruct (exec c v0 o) as (v1 & r1). cbn [fst] in M. injection Hs as <- _ _. destruct M as ((_ & M) & _).
    apply (res_keep_inv _ _ M) in IH. exact IH.
  - unfold dstep in Hs. set (v0 := set_m v (clear_calls (set_fault (v_m v) f 0))) in *. pose proof (dexec_M c v0 run o) as M.
    destruct (dexec c v0 run o) as (((v1 & run1) & r1) & dr1). cbn [fst] in M. injection Hs as <- _ _ _ _. destruct M as ((_ & M) & _).
    apply (res_keep_inv _ _ M) in IH. exact IH.
Qed.

End Reach.
