(* Vam.v — executable model of the allocator layer of vam (allocator.go, allocator_create.go, pool.go,
   dedicated_list.go, the caller-facing half of allocation.go) on top of VamBlockList.v (block_list.go,
   block.go) and VamDev.v (simulated device, Budget, SyncMem).

   [step c v op faults] executes one public API call: it arms the fault oracle for the driver calls of
   this call, runs the model of the Go function, and returns the new state, the result and the driver
   calls in call order.  Allocator creation is [vam_new].  One definition per Go function or loop. *)
From Coq Require Import ZArith NArith List Bool Lia.
From Arsenal Require Util Gran Tlsf Linear SyncMem Budget Select.
From Arsenal Require Pass Defrag.
From Arsenal Require Import VamDev VamBlockList VamDefrag.
Import ListNotations.
Open Scope Z_scope.

Section WithCfg.
Variable c : vcfg.

(* memutils.CheckPow2: number&(number-1) != 0 is the error *)
Definition is_pow2_or_zero (n : Z) : bool := Z.land n (n - 1) =? 0.

(* calculatePreferredBlockSize *)
Definition preferred_block_size (t : Z) : Z :=
  let hs := heap_size c (type_heap c t) in
  let raw := if hs <=? 1073741824 then Z.quot hs 8
             else if c_large c =? 0 then 268435456 else c_large c in
  Util.align_up raw 32.

(* DeviceMemoryProperties.MemoryTypeMinimumAlignment *)
Definition type_min_alignment (t : Z) : Z :=
  if non_coherent c t then (if c_atom c <? 1 then 1 else c_atom c) else 1.

(* DeviceMemoryProperties.CalculateBufferImageGranularity *)
Definition eff_granularity : Z := if c_gran c <? 1 then 1 else c_gran c.

Definition types_n : list N := map (fun t => Z.to_N (ty_flags t)) (c_types c).

(* ---------------------------------------------------------------- vam.New *)

Fixpoint init_lists (global : N) (n : nat) (i : Z) : list (option blist) :=
  match n with
  | O => []
  | S k =>
    (if N.testbit global (Z.to_N i) then
       Some (mkBlist i (preferred_block_size i) 0 MAXINT eff_granularity false 0 (type_min_alignment i) [] 0 true)
     else None) :: init_lists global k (i + 1)
  end.

(* New (nslots = number of Allocation objects the caller owns) *)
Definition vam_new (nslots : nat) : out vam :=
  if negb (is_pow2_or_zero (c_gran c)) then ER 0
  else if negb (is_pow2_or_zero (c_atom c)) then ER 0
  else
    let m0 := mkMach [] 0 no_fault 0 Budget.bzero [] [] 0 in
    let m := set_bud m0 (Budget.binit (bcfg_of c) (dev_report c m0)) in
    let global := Select.global_bits false types_n in
    let nt := length (c_types c) in
    OK (mkVam m global (init_lists global nt 0) (repeat [] nt) [] 0 1 (repeat alloc_zero nslots)).

(* ---------------------------------------------------------------- allocation parameters *)

Definition is_auto (usage : Z) : bool := (usage =? 2) || (usage =? 3) || (usage =? 4).

(* calcAllocationParams: the adjusted flags; pool_explicit = Some (HasExplicitBlockSize) with a pool *)
Definition calc_params (usage flags : Z) (requiresDedicated : bool) (pool_explicit : option bool) : out Z :=
  let seq := fl flags F_SEQ in
  let rnd := fl flags F_RANDOM in
  if seq && rnd then ER VK_UNKNOWN
  else if negb seq && negb rnd && fl flags F_XFER then ER VK_UNKNOWN
  else if is_auto usage && negb seq && negb rnd && fl flags F_MAPPED then ER VK_UNKNOWN
  else
    let f1 := if requiresDedicated || (usage =? 1) then fl_set flags F_DEDICATED else flags in
    if match pool_explicit with Some true => fl f1 F_DEDICATED | _ => false end then ER VK_UNKNOWN
    else if fl f1 F_DEDICATED && fl f1 F_NEVER then ER VK_UNKNOWN
    else if negb (is_auto usage) && negb seq && negb rnd then OK (fl_set f1 F_RANDOM)
    else OK f1.

(* findMemoryTypeIndex (with findMemoryPreferences) *)
Definition find_type_index (global : N) (typeBits usage flags req pref ctb : Z) (bufimg : option N) : option Z :=
  let '(rq, pf, npf) :=
    Select.find_prefs (c_integrated c) (Z.to_N usage) (Z.to_N flags) (Z.to_N req) (Z.to_N pref) bufimg in
  match Select.find_type types_n global (Z.to_N typeBits) (Z.to_N ctb) rq pf npf with
  | Some n => Some (Z.of_nat n)
  | None => None
  end.

(* calculateMemoryTypeParameters: the flags for this memory type, or OutOfDeviceMemory *)
Definition calc_type_params (v : vam) (ty size count flags : Z) : vam * out Z :=
  let f1 := if fl flags F_MAPPED && negb (host_visible c ty) then fl_clear flags F_MAPPED else flags in
  if fl f1 F_DEDICATED && fl f1 F_BUDGET then
    let '(m1, usage, budget) := heap_budget c (v_m v) (type_heap c ty) in
    if budget <? usage + size * count then (set_m v m1, ER VK_OODM) else (set_m v m1, OK f1)
  else (v, OK f1).

(* ---------------------------------------------------------------- dedicated allocations *)

(* allocateDedicatedMemoryPage *)
Definition allocate_dedicated_page (v : vam) (lr : lref) (ty size sub : Z) (doMap allowed : bool) (slot ded : Z)
  : vam * out unit :=
  let '(m1, r) := alloc_vk c (v_m v) ty size ded in
  match r with
  | ER code => (set_m v m1, ER code)
  | PANIC => (set_m v m1, PANIC)
  | STUCK => (set_m v m1, STUCK)
  | OK mem =>
    let '(m2, s, mr) := if doMap then sm_map c m1 mem SyncMem.sm_init else (m1, SyncMem.sm_init, OK tt) in
    match mr with
    | ER code =>
      (* deferred: FreeVulkanMemory *)
      let '(m3, fr) := free_vk c m2 ty size mem in
      (set_m v m3, match fr with OK _ => ER code | PANIC => PANIC | _ => STUCK end)
    | PANIC => (set_m v m2, PANIC)
    | STUCK => (set_m v m2, STUCK)
    | OK _ =>
      (* alloc.init; initDedicatedAllocation *)
      let persist := SyncMem.mapped s in
      if persist && negb allowed then (set_m v m2, PANIC)
      else
        let a := mkAlloc true 2 size 0 ty sub persist allowed lr (-1) 0 mem s false in
        let v1 := set_alloc (set_m v m2) slot a in
        (set_m v1 (add_allocation c (v_m v1) (type_heap c ty) size), OK tt)
    end
  end.

(* allocateDedicatedMemory: the allocation loop; done = slots served, newest first *)
Fixpoint dedicated_loop (v : vam) (lr : lref) (ty size sub : Z) (doMap allowed : bool) (slots done : list Z) (ded : Z)
  : vam * out unit * list Z :=
  match slots with
  | [] => (v, OK tt, done)
  | s :: tl =>
    let '(v1, r) := allocate_dedicated_page v lr ty size sub doMap allowed s ded in
    match r with
    | OK _ => dedicated_loop v1 lr ty size sub doMap allowed tl (s :: done) ded
    | other => (v1, other, done)
    end
  end.

(* allocateDedicatedMemory: clean up after an error (newest first) *)
Fixpoint dedicated_rollback (v : vam) (ty : Z) (done : list Z) : vam * out unit :=
  match done with
  | [] => (v, OK tt)
  | s :: tl =>
    let a := get_alloc v s in
    let '(m1, fr) := free_vk c (v_m v) ty (a_size a) (a_mem a) in
    match fr with
    | OK _ =>
      let '(m2, rr) := remove_allocation c m1 (type_heap c ty) (a_size a) in
      match rr with
      | OK _ => dedicated_rollback (set_alloc (set_m v m2) s (set_allocated a false)) ty tl
      | other => (set_m v m2, other)
      end
    | other => (set_m v m1, other)
    end
  end.

(* allocateDedicatedMemory *)
Definition allocate_dedicated (v : vam) (lr : lref) (ty size sub : Z) (doMap allowed : bool) (slots : list Z) (ded : Z)
  : vam * out unit :=
  match slots with
  | [] => (v, PANIC)
  | _ =>
    let '(v1, r, done) := dedicated_loop v lr ty size sub doMap allowed slots [] ded in
    match r with
    | OK _ =>
      (* Register each allocation: pushed at the tail *)
      (set_dedlist v1 lr (get_dedlist v1 lr ++ slots), OK tt)
    | ER code =>
      let '(v2, rr) := dedicated_rollback v1 ty done in
      (v2, match rr with OK _ => ER code | other => other end)
    | other => (v1, other)
    end
  end.

(* ---------------------------------------------------------------- allocateMemoryOfType *)

(* lr: the block list and dedicated list to use (a pool's, or the default ones of the type) *)
Definition alloc_of_type (v : vam) (lr : lref) (ty size align : Z) (dedPref0 : bool) (flags0 sub : Z)
           (slots : list Z) (ded : Z) : vam * out unit :=
  match slots, get_blist v lr with
  | [], _ => (v, PANIC)
  | _, None => (v, STUCK)
  | _, Some l =>
    let count := zlen slots in
    let '(v1, fr) := calc_type_params v ty size count flags0 in
    match fr with
    | ER code => (v1, ER code)
    | PANIC => (v1, PANIC)
    | STUCK => (v1, STUCK)
    | OK flags =>
      let allowed := mapping_allowed flags in
      let doMap := fl flags F_MAPPED in
      if fl flags F_DEDICATED then allocate_dedicated v1 lr ty size sub doMap allowed slots ded
      else
        let isPool := match lr with LPool _ => true | LDef _ => false end in
        let canDed := negb (fl flags F_NEVER) && (negb isPool || negb (bl_explicit l)) in
        let dedPref :=
          if canDed then
            let p := dedPref0 || (Z.quot (bl_pref l) 2 <? size) in
            if (c_maxcount c <? 1073741823) && (Z.quot (c_maxcount c * 3) 4 <? Budget.memCount (m_bud (v_m v1)))
            then false else p
          else dedPref0 in
        let '(v2, early) :=
          if canDed && dedPref then
            let '(v', r) := allocate_dedicated v1 lr ty size sub doMap allowed slots ded in
            match r with
            | OK _ => (v', Some (OK tt))
            | ER _ => (v', None)
            | other => (v', Some other)
            end
          else (v1, None) in
        match early with
        | Some r => (v2, r)
        | None =>
          let '(v3, br) := bl_allocate c v2 lr slots size align flags sub in
          match br with
          | ER bcode =>
            if canDed && negb dedPref then
              let '(m4, usage, budget) := heap_budget c (v_m v3) (type_heap c ty) in
              let v4 := set_m v3 m4 in
              if budget <? usage + size * count then (v4, ER VK_OODM)
              else allocate_dedicated v4 lr ty size sub doMap allowed slots ded
            else (v3, ER bcode)
          | other => (v3, other)
          end
        end
    end
  end.

(* multiAllocateMemory: the loop over memory types *)
Fixpoint type_loop (fuel : nat) (v : vam) (bits ty size align : Z) (dedPref : bool)
         (usage flags req pref ctb sub : Z) (slots : list Z) (ded : Z) (bufimg : option N) : vam * out unit :=
  match fuel with
  | O => (v, STUCK)
  | S f =>
    match get_blist v (LDef ty) with
    | None => (v, ER VK_UNKNOWN)
    | Some _ =>
      let '(v1, r) := alloc_of_type v (LDef ty) ty size align dedPref flags sub slots ded in
      match r with
      | ER code =>
        if code =? VK_UNKNOWN then (v1, r)
        else
          let bits' := Z.land bits (Z.lnot (Z.shiftl 1 ty)) in
          match find_type_index (v_global v1) bits' usage flags req pref ctb bufimg with
          | Some ty' => type_loop f v1 bits' ty' size align dedPref usage flags req pref ctb sub slots ded bufimg
          | None => (v1, ER (if code =? 0 then VK_OODM else code))
          end
      | other => (v1, other)
      end
    end
  end.

(* multiAllocateMemory *)
Definition multi_allocate (v : vam) (size align typeBits : Z) (reqDed prefDed : bool) (ded : Z) (bufimg : option N)
           (usage flags0 req pref ctb : Z) (pool : option Z) (sub : Z) (slots : list Z) : vam * out unit :=
  if negb (is_pow2_or_zero align) then (v, ER VK_UNKNOWN)
  else if size <? 1 then (v, ER VK_UNKNOWN)
  else
    let pool_explicit :=
      match pool with
      | Some uid => match get_blist v (LPool uid) with Some l => Some (bl_explicit l) | None => Some false end
      | None => None
      end in
    match calc_params usage flags0 reqDed pool_explicit with
    | ER code => (v, ER code)
    | PANIC => (v, PANIC)
    | STUCK => (v, STUCK)
    | OK flags =>
      match pool with
      | Some uid =>
        match get_blist v (LPool uid) with
        | None => (v, STUCK)
        | Some l => alloc_of_type v (LPool uid) (bl_type l) size align prefDed flags sub slots ded
        end
      | None =>
        match find_type_index (v_global v) typeBits usage flags req pref ctb bufimg with
        | None => (v, ER VK_NOFEATURE)
        | Some ty =>
          type_loop (S (length (c_types c))) v typeBits ty size align (reqDed || prefDed)
                    usage flags req pref ctb sub slots ded bufimg
        end
      end
    end.

Fixpoint slot_range (a : Z) (n : nat) : list Z :=
  match n with O => [] | S k => a :: slot_range (a + 1) k end.

(* AllocateMemory *)
Definition allocate_memory (v : vam) (slot size align typeBits usage flags req pref ctb : Z) (pool : option Z)
  : vam * out unit :=
  if a_allocated (get_alloc v slot) then (v, ER VK_UNKNOWN)
  else multi_allocate v size align typeBits false false 0 None usage flags req pref ctb pool 1 [slot].

(* AllocateMemorySlice *)
Definition allocate_memory_slice (v : vam) (slot n size align typeBits usage flags req pref ctb : Z) (pool : option Z)
  : vam * out unit :=
  let slots := slot_range slot (Z.to_nat n) in
  match slots with
  | [] => (v, OK tt)
  | _ =>
    if existsb (fun s => a_allocated (get_alloc v s)) slots then (v, ER VK_UNKNOWN)
    else multi_allocate v size align typeBits false false 0 None usage flags req pref ctb pool 1 slots
  end.

(* ---------------------------------------------------------------- freeing *)

(* freeDedicatedMemory *)
Definition free_dedicated (v : vam) (slot : Z) : vam * out unit :=
  let a := get_alloc v slot in
  if negb (a_kind a =? 2) then (v, PANIC)
  else
    (* Unregister *)
    let v1 := set_dedlist v (a_lref a) (Util.remove_z slot (get_dedlist v (a_lref a))) in
    let '(m1, fr) := free_vk c (v_m v1) (a_type a) (a_size a) (a_mem a) in
    match fr with
    | OK _ =>
      let '(m2, rr) := remove_allocation c m1 (type_heap c (a_type a)) (a_size a) in
      (set_m v1 m2, rr)
    | other => (set_m v1 m1, other)
    end.

(* freeSingleAllocation *)
Definition free_single (v : vam) (slot : Z) : vam * out unit :=
  let a := get_alloc v slot in
  if a_kind a =? 1 then bl_free c v (a_lref a) slot false
  else if a_kind a =? 2 then free_dedicated v slot
  else (v, PANIC).

(* multiFreeMemory *)
Fixpoint multi_free (v : vam) (slots : list Z) : vam * out unit :=
  match slots with
  | [] => (v, OK tt)
  | s :: tl =>
    let '(v1, r) := free_single v s in
    match r with
    | OK _ => multi_free (set_alloc v1 s (set_allocated (get_alloc v1 s) false)) tl
    | other => (v1, other)
    end
  end.

(* Allocation.Free *)
Definition allocation_free (v : vam) (slot : Z) : vam * out unit :=
  if negb (a_allocated (get_alloc v slot)) then (v, ER 0) else multi_free v [slot].

(* Allocator.FreeAllocationSlice *)
Definition free_allocation_slice (v : vam) (slot n : Z) : vam * out unit :=
  multi_free v (slot_range slot (Z.to_nat n)).

(* ---------------------------------------------------------------- Map / Unmap / Flush / Invalidate *)

(* Allocation.FindOffset; None = panic *)
Definition find_offset (v : vam) (a : alloc) : option Z :=
  if a_kind a =? 1 then
    match get_block v (a_lref a) (a_blk a) with
    | Some b => meta_offset (bk_meta b) (a_handle a)
    | None => None
    end
  else Some 0.

(* Allocation.Map (mapOptionalLock) *)
Definition allocation_map (v : vam) (slot : Z) : vam * out unit :=
  let a := get_alloc v slot in
  if negb (a_mapallowed a) then (v, ER VK_MAPFAIL)
  else if negb (a_allocated a) then (v, ER VK_UNKNOWN)
  else if a_kind a =? 1 then
    match get_block v (a_lref a) (a_blk a) with
    | None => (v, STUCK)
    | Some b =>
      let '(m1, s1, r) := sm_map c (v_m v) (bk_mem b) (bk_sm b) in
      let v1 := put_block (set_m v m1) (a_lref a) (mkBlock (bk_id b) (bk_mem b) s1 (bk_meta b)) in
      match r with
      | OK _ => match find_offset v1 a with Some _ => (v1, OK tt) | None => (v1, PANIC) end
      | other => (v1, other)
      end
    end
  else if a_kind a =? 2 then
    let '(m1, s1, r) := sm_map c (v_m v) (a_mem a) (a_sm a) in
    (set_alloc (set_m v m1) slot (set_a_sm a s1), r)
  else (v, STUCK).

(* Allocation.Unmap *)
Definition allocation_unmap (v : vam) (slot : Z) : vam * out unit :=
  let a := get_alloc v slot in
  if negb (a_allocated a) then (v, PANIC)
  else if a_kind a =? 1 then
    match get_block v (a_lref a) (a_blk a) with
    | None => (v, STUCK)
    | Some b =>
      let '(m1, s1, r) := sm_unmap (v_m v) (bk_mem b) (bk_sm b) in
      (put_block (set_m v m1) (a_lref a) (mkBlock (bk_id b) (bk_mem b) s1 (bk_meta b)), r)
    end
  else if a_kind a =? 2 then
    let '(m1, s1, r) := sm_unmap (v_m v) (a_mem a) (a_sm a) in
    (set_alloc (set_m v m1) slot (set_a_sm a s1), r)
  else (v, STUCK).

(* flushOrInvalidateRange: None = nothing to do, Some (offset, size) = the range for the driver *)
Definition flush_range (v : vam) (a : alloc) (offset size : Z) : out (option (Z * Z)) :=
  if (size =? 0) || (size <? -1) || negb (non_coherent c (a_type a)) then OK None
  else
    let atom := c_atom c in
    let asize := a_size a in
    if offset <? 0 then ER VK_UNKNOWN
    else if asize <? offset then ER VK_UNKNOWN
    else if offset =? asize then OK None
    else if (0 <? size) && (asize <? offset + size) then ER VK_UNKNOWN
    else
      let roff := Util.align_down offset atom in
      if a_kind a =? 2 then
        let rsize := asize - roff in
        let rsize' :=
          if 0 <? size then
            let aligned := Util.align_up (size + (offset - roff)) atom in
            if aligned <? rsize then aligned else rsize
          else rsize in
        OK (Some (roff, rsize'))
      else if a_kind a =? 1 then
        let size1 := if size =? -1 then asize - roff else size in
        let rsize := Util.align_up (size1 + (offset - roff)) atom in
        match find_offset v a, get_block v (a_lref a) (a_blk a) with
        | Some aoff, Some b =>
          if negb (Z.rem aoff atom =? 0) then PANIC
          else
            let roff' := roff + aoff in
            let rest := meta_size (bk_meta b) - roff' in
            OK (Some (roff', if rest <? rsize then rest else rsize))
        | None, _ => PANIC
        | _, None => STUCK
        end
      else ER VK_UNKNOWN.

(* Allocation.Flush / Invalidate (flushOrInvalidate) *)
Definition allocation_flush (v : vam) (inval : bool) (slot offset size : Z) : vam * out unit :=
  let a := get_alloc v slot in
  if negb (a_allocated a) then (v, ER VK_UNKNOWN)
  else
    match flush_range v a offset size with
    | ER code => (v, ER code)
    | PANIC => (v, PANIC)
    | STUCK => (v, STUCK)
    | OK None => (v, OK tt)
    | OK (Some (roff, rsize)) =>
      let '(m1, code) := dev_flush (v_m v) inval (a_mem a) roff rsize in
      (set_m v m1, if code =? 0 then OK tt else ER code)
    end.

(* the harness' `rw` op: Map, write through the pointer, Unmap (two API calls in one step; the result is
   Map's, or a plain error if Unmap fails) *)
Definition harness_rw (v : vam) (slot : Z) : vam * out unit :=
  let '(v1, r) := allocation_map v slot in
  match r with
  | OK _ =>
    let '(v2, ur) := allocation_unmap v1 slot in
    (v2, match ur with ER _ => ER 0 | other => other end)
  | other => (v1, other)
  end.

(* ---------------------------------------------------------------- resources *)

(* getBufferMemoryRequirements / getImageMemoryRequirements: the dedicated-allocation answers exist from
   Vulkan 1.1 on (GetBufferMemoryRequirements2) *)
Definition get_requirements (m : mach) (image : bool) (res : Z) : mach * resreq * bool * bool :=
  let '(m1, rq) := dev_requirements m image res in
  if 11 <=? c_api c then (m1, rq, rq_reqded rq, rq_prefded rq) else (m1, rq, false, false).

(* the resource named in MemoryDedicatedAllocateInfo: extension present and not AllocationCreateCanAlias *)
Definition dedicated_info (flags res : Z) : Z :=
  if (11 <=? c_api c) && negb (fl flags F_CANALIAS) then res else 0.

(* bindBufferMemory / bindImageMemory (next = nil) *)
Definition bind_memory (v : vam) (slot : Z) (image : bool) (res off : Z) : vam * out unit :=
  let a := get_alloc v slot in
  if res =? 0 then (v, ER VK_UNKNOWN)
  else if negb (a_allocated a) then (v, ER VK_UNKNOWN)
  else if off <? 0 then (v, ER VK_UNKNOWN)       (* a negative allocation-local offset is refused before any driver call *)
  else
    let target :=
      if a_kind a =? 2 then OK off
      else if a_kind a =? 1 then match find_offset v a with Some o => OK (off + o) | None => PANIC end
      else ER VK_UNKNOWN in
    match target with
    | OK o =>
      let '(m1, code) := dev_bind (v_m v) image res (a_mem a) o in
      (set_m v m1, if code =? 0 then OK tt else ER code)
    | ER code => (v, ER code)
    | PANIC => (v, PANIC)
    | STUCK => (v, STUCK)
    end.

(* createBuffer / CreateImage after the argument checks: create, query, allocate, bind, undo on failure.
   kind/sub: resource kind on the device and suballocation type; resusage = BufferCreateInfo.Usage / ImageCreateInfo.Usage *)
Definition create_resource (v : vam) (slot : Z) (image : bool) (kind sub : Z) (devreq : resreq) (resusage minAlign : Z)
           (usage flags req pref ctb : Z) (pool : option Z) : vam * out unit :=
  let '(m1, code, id) := dev_create_res (v_m v) image kind devreq in
  if negb (code =? 0) then (set_m v m1, ER code)
  else
    let '(m2, rq, rd, pd) := get_requirements m1 image id in
    let align := if rq_align rq <? minAlign then minAlign else rq_align rq in
    let '(v3, r) := multi_allocate (set_m v m2) (rq_size rq) align (rq_tb rq) rd pd (dedicated_info flags id)
                                   (Some (Z.to_N resusage)) usage flags req pref ctb pool sub [slot] in
    match r with
    | OK _ =>
      if fl flags F_DONTBIND then (v3, OK tt)
      else
        let '(v4, br) := bind_memory v3 slot image id 0 in
        match br with
        | ER bcode =>
          (* deferred: outAlloc.free() (its error is only logged), then Destroy *)
          let '(v5, fr) := if a_allocated (get_alloc v4 slot) then multi_free v4 [slot] else (v4, OK tt) in
          let v6 := set_m v5 (dev_destroy_res (v_m v5) image id) in
          (v6, match fr with PANIC => PANIC | STUCK => STUCK | _ => ER bcode end)
        | other => (v4, other)
        end
    | ER acode => (set_m v3 (dev_destroy_res (v_m v3) image id), ER acode)
    | other => (v3, other)
    end.

(* CreateBuffer / CreateBufferWithAlignment (minAlign > 0) *)
Definition create_buffer (v : vam) (slot size : Z) (devreq : resreq) (bufUsage minAlign : Z)
           (usage flags req pref ctb : Z) (pool : option Z) : vam * out unit :=
  if a_allocated (get_alloc v slot) then (v, ER VK_UNKNOWN)
  else if (0 <? minAlign) && negb (is_pow2_or_zero minAlign) then (v, ER VK_UNKNOWN)
  else if size =? 0 then (v, ER VK_UNKNOWN)
  else if Z.testbit bufUsage 17 && (c_api c <? 12) then (v, ER (-7))
  else create_resource v slot false 1 2 devreq bufUsage minAlign usage flags req pref ctb pool.

(* CreateImage: extent (width, 1, 1), one mip level, one layer; tiling 0 = optimal *)
Definition create_image (v : vam) (slot tiling width : Z) (devreq : resreq) (imgUsage : Z)
           (usage flags req pref ctb : Z) (pool : option Z) : vam * out unit :=
  if a_allocated (get_alloc v slot) then (v, ER VK_UNKNOWN)
  else if width =? 0 then (v, ER VK_UNKNOWN)
  else create_resource v slot true (if tiling =? 0 then 3 else 2) (if tiling =? 0 then 5 else 4) devreq imgUsage 0
                       usage flags req pref ctb pool.

(* Allocation.DestroyBuffer / DestroyImage *)
Definition destroy_with_resource (v : vam) (slot : Z) (image : bool) (res : Z) : vam * out unit :=
  let v1 := if res =? 0 then v else set_m v (dev_destroy_res (v_m v) image res) in
  allocation_free v1 slot.

(* AllocateMemoryForBuffer / AllocateMemoryForImage *)
Definition allocate_for_resource (v : vam) (slot : Z) (image : bool) (res : Z) (usage flags req pref ctb : Z)
           (pool : option Z) : vam * out unit :=
  if res =? 0 then (v, ER VK_UNKNOWN)
  else if a_allocated (get_alloc v slot) then (v, ER VK_UNKNOWN)
  else
    let '(m1, rq, rd, pd) := get_requirements (v_m v) image res in
    multi_allocate (set_m v m1) (rq_size rq) (rq_align rq) (rq_tb rq) rd pd (dedicated_info flags res) None
                   usage flags req pref ctb pool (if image then 3 else 2) [slot].

(* the harness creating / destroying a resource directly on the driver (rbuf, rimg, rdres) *)
Definition raw_create (v : vam) (image : bool) (kind : Z) (devreq : resreq) : vam * out unit :=
  let '(m1, code, _) := dev_create_res (v_m v) image kind devreq in
  (set_m v m1, if code =? 0 then OK tt else ER code).

Definition raw_destroy (v : vam) (image : bool) (res : Z) : vam * out unit :=
  (set_m v (dev_destroy_res (v_m v) image res), OK tt).

(* ---------------------------------------------------------------- pools *)

(* Pool.Destroy / destroyAfterLock *)
Definition pool_destroy (v : vam) (uid : Z) : vam * out unit :=
  match find_pool (v_pools v) uid with
  | None => (v, STUCK)
  | Some p =>
    match p_ded p with
    | _ :: _ => (v, ER 0)
    | [] =>
      let '(v1, r) := bl_destroy c v (LPool uid) in
      match r with
      | OK _ => (set_pools v1 (remove_pool (v_pools v1) uid), OK tt)
      | other => (v1, other)
      end
    end
  end.

(* undo of a failed CreatePool: the pool (if still linked) is dropped and nextPoolId is what it was *)
Definition unlink_pool (v : vam) (uid nextId : Z) : vam :=
  mkVam (v_m v) (v_global v) (v_lists v) (v_ded v) (remove_pool (v_pools v) uid) nextId (v_next_uid v) (v_tab v).

(* CreatePool; on success the new pool's uid is the old [v_next_uid] *)
Definition create_pool (v : vam) (ty flags blockSize minB maxB0 minAlign : Z) : vam * out unit :=
  let maxB := if maxB0 =? 0 then MAXINT else maxB0 in
  if maxB <? minB then (v, ER VK_UNKNOWN)
  else if (ty <? 0) || (ntypes c <=? ty) then (v, ER VK_NOFEATURE)
  else if negb (N.testbit (v_global v) (Z.to_N ty)) then (v, ER VK_NOFEATURE)
  else if (0 <? minAlign) && negb (is_pow2_or_zero minAlign) then (v, ER VK_UNKNOWN)
  else
    let bs := if blockSize =? 0 then preferred_block_size ty else blockSize in
    let gr := if Z.testbit flags 0 then 1 else eff_granularity in
    let al := if type_min_alignment ty <? minAlign then minAlign else type_min_alignment ty in
    let uid := v_next_uid v in
    let l := mkBlist ty bs minB maxB gr (negb (blockSize =? 0)) (Z.land flags 2) al [] 0 true in
    (* The pool object exists but is linked into a.pools and gets its id only after CreateMinBlocks succeeded.
       The model links it and assigns the id at once and undoes both if creation fails: nothing observes
       the pool list or the id in between, and the final states are the same. *)
    let v0 := mkVam (v_m v) (v_global v) (v_lists v) (v_ded v) (mkPool uid (v_next_pool_id v) l [] :: v_pools v)
                    (v_next_pool_id v + 1) (uid + 1) (v_tab v) in
    let '(v1, r) := create_min_blocks c (Z.to_nat minB) v0 (LPool uid) bs in
    match r with
    | OK _ => (v1, OK tt)
    | ER code =>
      let '(v2, dr) := pool_destroy v1 uid in
      (unlink_pool v2 uid (v_next_pool_id v),
       match dr with PANIC => PANIC | STUCK => STUCK | _ => ER code end)
    | other => (v1, other)
    end.

(* ---------------------------------------------------------------- Allocator.Destroy *)

Fixpoint destroy_lists (v : vam) (n : nat) (t : Z) : vam * out unit :=
  match n with
  | O => (v, OK tt)
  | S k =>
    match get_blist v (LDef t) with
    | None => destroy_lists v k (t + 1)
    | Some _ =>
      let '(v1, r) := bl_destroy c v (LDef t) in
      match r with
      | OK _ => destroy_lists v1 k (t + 1)
      | other => (v1, other)
      end
    end
  end.

Definition list_nonempty (o : option blist) : bool :=
  match o with
  | Some l => existsb (fun b => negb (meta_is_empty (bk_meta b))) (bl_blocks l)
  | None => false
  end.

Definition allocator_destroy (v : vam) : vam * out unit :=
  if existsb (fun d => match d with [] => false | _ => true end) (v_ded v) then (v, ER 0)
  else if match v_pools v with [] => false | _ => true end then (v, ER 0)
  else if existsb list_nonempty (v_lists v) then (v, ER 0)
  else destroy_lists v (length (c_types c)) 0.

(* ---------------------------------------------------------------- CalculateStatistics *)

Definition dedicated_dstats (v : vam) (slots : list Z) (acc : dst) : dst :=
  fold_left (fun d s => dst_add_dedicated d (a_size (get_alloc v s))) slots acc.

(* MemoryTypes[t]: default list, custom pools of the type (block list + dedicated), default dedicated list *)
Definition type_dstats (v : vam) (t : Z) : option dst :=
  let from_default :=
    match get_blist v (LDef t) with
    | Some l => blocks_dstats (bl_blocks l) dst_clear
    | None => Some dst_clear
    end in
  let from_pools :=
    fold_left (fun acc p =>
                 match acc with
                 | None => None
                 | Some d =>
                   if bl_type (p_list p) =? t then
                     match blocks_dstats (bl_blocks (p_list p)) d with
                     | Some d1 => Some (dedicated_dstats v (p_ded p) d1)
                     | None => None
                     end
                   else Some d
                 end) (v_pools v) from_default in
  match from_pools with
  | Some d => Some (dedicated_dstats v (get_dedlist v (LDef t)) d)
  | None => None
  end.

Fixpoint types_dstats (v : vam) (n : nat) (t : Z) : option (list dst) :=
  match n with
  | O => Some []
  | S k =>
    match type_dstats v t, types_dstats v k (t + 1) with
    | Some d, Some tl => Some (d :: tl)
    | _, _ => None
    end
  end.

Fixpoint heap_dstats (per_type : list dst) (t h : Z) : dst :=
  match per_type with
  | [] => dst_clear
  | d :: tl =>
    let rest := heap_dstats tl (t + 1) h in
    if type_heap c t =? h then dst_merge d rest else rest
  end.

Fixpoint heaps_dstats (per_type : list dst) (n : nat) (h : Z) : list dst :=
  match n with
  | O => []
  | S k => heap_dstats per_type 0 h :: heaps_dstats per_type k (h + 1)
  end.

(* CalculateStatistics: (per type, per heap, total); None = a panic *)
Definition calculate_statistics (v : vam) : option (list dst * list dst * dst) :=
  match types_dstats v (length (c_types c)) 0 with
  | None => None
  | Some pt =>
    let total := fold_left dst_merge pt dst_clear in
    if (0 <? ds_allocs total) && (ds_amax total <? ds_amin total) then None
    else if (0 <? ds_unused total) && (ds_umax total <? ds_umin total) then None
    else Some (pt, heaps_dstats pt (length (c_heaps c)) 0, total)
  end.

(* BuildStatsString: CalculateStatistics, then HeapBudget once per heap *)
Fixpoint stats_budgets (m : mach) (n : nat) (h : Z) : mach :=
  match n with
  | O => m
  | S k => let '(m1, _, _) := heap_budget c m h in stats_budgets m1 k (h + 1)
  end.

Definition build_stats_string (v : vam) : vam * out unit :=
  match calculate_statistics v with
  | None => (v, PANIC)
  | Some _ => (set_m v (stats_budgets (v_m v) (length (c_heaps c)) 0), OK tt)
  end.

(* ---------------------------------------------------------------- one API call *)

Inductive op :=
| OAlloc (slot size align typeBits usage flags req pref ctb : Z) (pool : option Z)
| OAllocN (slot n size align typeBits usage flags req pref ctb : Z) (pool : option Z)
| OFree (slot : Z)
| OFreeN (slot n : Z)
| OMap (slot : Z)
| OUnmap (slot : Z)
| OFlush (inval : bool) (slot off size : Z)
| ORw (slot : Z)
| OMkPool (ty flags blockSize minB maxB minAlign : Z)
| ORmPool (uid : Z)
| OStats (detailed : bool)
| ODestroy
| OCreateBuf (slot size : Z) (devreq : resreq) (bufUsage minAlign usage flags req pref ctb : Z) (pool : option Z)
| OCreateImg (slot tiling width : Z) (devreq : resreq) (imgUsage usage flags req pref ctb : Z) (pool : option Z)
| ODestroyRes (slot : Z) (image : bool) (res : Z)
| OAllocFor (slot : Z) (image : bool) (res usage flags req pref ctb : Z) (pool : option Z)
| OBind (slot : Z) (image : bool) (res off : Z)
| ORawCreate (image : bool) (kind : Z) (devreq : resreq)
| ORawDestroy (image : bool) (res : Z).

(* RErr 0: the API returned only an error *)
Inductive result := ROk | RErr (code : Z) | RPanic | RStuck.

Definition result_of (r : out unit) : result :=
  match r with OK _ => ROk | ER code => RErr code | PANIC => RPanic | STUCK => RStuck end.

Definition exec (v : vam) (o : op) : vam * out unit :=
  match o with
  | OAlloc slot size align tb usage flags req pref ctb pool =>
    allocate_memory v slot size align tb usage flags req pref ctb pool
  | OAllocN slot n size align tb usage flags req pref ctb pool =>
    allocate_memory_slice v slot n size align tb usage flags req pref ctb pool
  | OFree slot => allocation_free v slot
  | OFreeN slot n => free_allocation_slice v slot n
  | OMap slot => allocation_map v slot
  | OUnmap slot => allocation_unmap v slot
  | OFlush inval slot off size => allocation_flush v inval slot off size
  | ORw slot => harness_rw v slot
  | OMkPool ty flags bs minB maxB minAlign => create_pool v ty flags bs minB maxB minAlign
  | ORmPool uid => pool_destroy v uid
  | OStats _ => build_stats_string v
  | ODestroy => allocator_destroy v
  | OCreateBuf slot size dr bu ma usage flags req pref ctb pool =>
    create_buffer v slot size dr bu ma usage flags req pref ctb pool
  | OCreateImg slot tiling width dr iu usage flags req pref ctb pool =>
    create_image v slot tiling width dr iu usage flags req pref ctb pool
  | ODestroyRes slot image res => destroy_with_resource v slot image res
  | OAllocFor slot image res usage flags req pref ctb pool =>
    allocate_for_resource v slot image res usage flags req pref ctb pool
  | OBind slot image res off => bind_memory v slot image res off
  | ORawCreate image kind dr => raw_create v image kind dr
  | ORawDestroy image res => raw_destroy v image res
  end.

(* the fault oracle is armed for this call only; m_fired of the result = faults that fired *)
Definition step (v : vam) (o : op) (f : fault) : vam * result * list call :=
  let v0 := set_m v (clear_calls (set_fault (v_m v) f 0)) in
  let '(v1, r) := exec v0 o in
  let m1 := v_m v1 in
  (set_m v1 (clear_calls (set_fault m1 no_fault (m_fired m1))), result_of r, rev (m_calls m1)).

(* ---------------------------------------------------------------- defragmentation API calls *)

(* the DefragmentationContext is the caller's object: it is passed in and out next to the allocator *)
Inductive dop :=
| DBegin (flags : Z) (pool : option Z) (maxBytes maxAllocs : Z)   (* Allocator.BeginDefragmentation *)
| DPass                                                            (* BeginDefragPass *)
| DEnd (decisions : list Z)                                        (* EndDefragPass; MoveOperation per move *)
| DFin.                                                            (* Finish *)

Inductive dres := DRNone | DRMoves (l : list Defrag.move) | DRDone (b : bool) | DRStats (s : Pass.pstats).

Definition dexec (v : vam) (run : option dfrun) (o : dop) : vam * option dfrun * out unit * dres :=
  match o, run with
  | DBegin flags pool mb ma, _ =>
    let '(v1, r) := defrag_begin c v flags pool mb ma in
    match r with
    | OK run' => (v1, Some run', OK tt, DRNone)
    | ER code => (v1, run, ER code, DRNone)
    | PANIC => (v1, run, PANIC, DRNone)
    | STUCK => (v1, run, STUCK, DRNone)
    end
  | DPass, Some rn =>
    let '(v1, rn', r) := defrag_pass c v rn in
    match r with
    | OK mvs => (v1, Some rn', OK tt, DRMoves mvs)
    | ER code => (v1, Some rn', ER code, DRNone)
    | PANIC => (v1, Some rn', PANIC, DRNone)
    | STUCK => (v1, Some rn', STUCK, DRNone)
    end
  | DEnd ds, Some rn =>
    let '(v1, rn', r) := defrag_end c v rn ds in
    match r with
    | OK b => (v1, Some rn', OK tt, DRDone b)
    | ER code => (v1, Some rn', ER code, DRDone false)
    | PANIC => (v1, Some rn', PANIC, DRNone)
    | STUCK => (v1, Some rn', STUCK, DRNone)
    end
  | DFin, Some rn =>
    let '(v1, st) := defrag_finish v rn in
    (v1, Some rn, OK tt, DRStats st)
  | _, None => (v, run, STUCK, DRNone)
  end.

Definition dstep (v : vam) (run : option dfrun) (o : dop) (f : fault)
  : vam * option dfrun * result * list call * dres :=
  let v0 := set_m v (clear_calls (set_fault (v_m v) f 0)) in
  let '(v1, run1, r, dr) := dexec v0 run o in
  let m1 := v_m v1 in
  (set_m v1 (clear_calls (set_fault m1 no_fault (m_fired m1))), run1, result_of r, rev (m_calls m1), dr).

End WithCfg.
