(* VamNpStep2.v — C13 "never panics", allocator layer (allocator.go, dedicated_list.go, pool.go, allocation.go):
   on top of VamInvB no API function takes a PANIC or STUCK branch, provided the handles it is given are valid
   (the pool exists) and, for Unmap / Free, the balance domain of VamBalThm.v.  Results only; the states are
   described by VamBalStep2.v. *)
From Coq Require Import ZArith NArith List Bool Lia Permutation.
From Arsenal Require Import Util Budget BudgetProofs VamDev VamBlockList Vam VamInvMeta VamInv VamInvUpd VamInvDev.
From Arsenal Require Import VamInvStep VamInvStep2 VamAcct VamAcctStep VamAcctStep2 VamMap VamMapStep VamMapStep2 VamBal VamBalStep VamBalStep2 VamNpStep.
From Arsenal Require SyncMem SyncMemProofs VamFlush Select SelectProofs.
Import ListNotations.
Open Scope Z_scope.

Section WithCfg.
Variable c : vcfg.
Hypothesis Hc : cfg_ok c.
Hypothesis Hmax : 0 <= c_maxcount c < 2147483647.
Hypothesis Hlarge : 0 <= c_large c < 2 ^ 61.
Variable ms0 : list dmem.
Variable G : Z -> Z.
Set Default Proof Using "Hc Hmax Hlarge".

Notation VamInvB := (VamBalStep.VamInvB c ms0 G).
Notation vb_m := (VamBalStep.vb_m c ms0 G).
Notation vb_b := (VamBalStep.vb_b c ms0 G).
Notation vb_s := (VamBalStep.vb_s c Hc Hmax Hlarge ms0 G).
Notation vb_aa := (VamBalStep.vb_aa c Hc Hmax Hlarge ms0 G).
Notation vb_mm := (VamBalStep.vb_mm c Hc Hmax Hlarge ms0 G).
Notation sameA := (mach_sameA c).
Notation AMc := (AM c).

(* ---------------------------------------------------------------- dedicated allocations *)

Lemma ded_page_np v U X lr ty size sub doMap allowed s ded :
  VamInvB v U X -> 0 <= size < 2 ^ 62 -> (doMap = true -> allowed = true) ->
  npu (snd (allocate_dedicated_page c v lr ty size sub doMap allowed s ded)).
Proof.
  intros HIB Hsz Hda. pose proof (vb_s _ _ _ HIB) as HI. pose proof (AInv_AM c Hc Hmax Hlarge _ _ (vb_aa _ _ _ HIB)) as (A & D).
  unfold allocate_dedicated_page.
  pose proof (alloc_vk_MB c Hc Hmax Hlarge (v_m v) _ ty size ded A Hsz) as K.
  pose proof (alloc_vk_spec c (v_m v) ty size ded (vi_dev_pos _ _ _ _ HI)) as SP.
  destruct (alloc_vk c (v_m v) ty size ded) as (m1 & r). destruct r as [mem|code| |]; try contradiction; cbn [snd]; [|apply npu_er].
  destruct K as (K1 & K2 & K3). destruct SP as (S1 & S2 & _ & S4 & _).
  assert (Hmap : forall m2 s2 (mr : out unit), (if doMap then sm_map c m1 mem SyncMem.sm_init else (m1, SyncMem.sm_init, OK tt)) = (m2, s2, mr) ->
            sameA m1 m2 /\ npu mr /\ (SyncMem.mapped s2 = true -> doMap = true)).
  { intros m2 s2 mr E. destruct doMap.
    - pose proof (sm_map_sameA c Hc Hmax Hlarge m1 mem SyncMem.sm_init) as H. pose proof (sm_map_np c m1 mem SyncMem.sm_init) as N. rewrite E in H, N. auto.
    - injection E as <- <- <-. split; [apply (mach_sameA_refl c Hc Hmax Hlarge)|]. split; [apply npu_ok|]. cbn. discriminate. }
  destruct (if doMap then sm_map c m1 mem SyncMem.sm_init else (m1, SyncMem.sm_init, OK tt)) as ((m2 & s2) & mr) eqn:Emap.
  destruct (Hmap _ _ _ eq_refl) as (Hm12 & (Hp & Hs) & Hmd). pose proof (MB_same c Hc Hmax Hlarge _ _ _ K1 Hm12) as K1'.
  assert (Hfm : find_mem (m_mems m1) mem = Some (mkDmem mem ty size false)).
  { rewrite K2, find_mem_app.
    destruct (find_mem (m_mems (v_m v)) mem) as [x|] eqn:E; [|cbn; rewrite Z.eqb_refl; reflexivity].
    destruct (find_mem_in _ _ _ E) as (Hx & Hid). pose proof (vi_dev_next _ _ _ _ HI) as Hn. rewrite Forall_forall in Hn. specialize (Hn x Hx). lia. }
  destruct mr as [[]|code| |]; try congruence.
  - assert (Ef : SyncMem.mapped s2 && negb allowed = false).
    { destruct (SyncMem.mapped s2) eqn:E; [rewrite (Hda (Hmd eq_refl)); reflexivity|reflexivity]. }
    rewrite Ef. apply npu_ok.
  - destruct (mems_same_find _ _ _ _ (proj1 (proj1 Hm12)) Hfm) as (d' & Hf' & Hk'). unfold mem_key in Hk'. cbn in Hk'. injection Hk' as _ Kt Ks.
    pose proof (free_vk_MB c Hc Hmax Hlarge m2 _ ty size mem d' K1' Hf' ltac:(rewrite Kt; reflexivity) (eq_sym Ks)) as F.
    destruct (free_vk c m2 ty size mem) as (m3 & fr). destruct F as (-> & _). apply npu_er.
Qed.

Lemma dedicated_loop_np slots : forall v X lr l ty size sub doMap allowed done ded,
  VamInvB v done X -> get_blist v lr = Some l -> bl_type l = ty -> 0 <= size < 2 ^ 62 -> NoDup (slots ++ done) ->
  dead_slots v slots -> ded_slots v lr done -> (doMap = true -> allowed = true) ->
  npu (snd (fst (dedicated_loop c v lr ty size sub doMap allowed slots done ded))).
Proof.
  induction slots as [|s tl IH]; intros v X lr l ty size sub doMap allowed done ded HI Hg Hty Hsz Hnd Hdead Hdone Hda; cbn [dedicated_loop]; [apply npu_ok|].
  destruct (Hdead s (or_introl eq_refl)) as (Hr & Hd).
  pose proof (VamBalStep2.ded_page_inv c Hc Hmax Hlarge ms0 G v done X lr l ty size sub doMap allowed s ded HI Hg Hty Hsz Hr Hd) as P.
  pose proof (ded_page_np v done X lr ty size sub doMap allowed s ded HI Hsz Hda) as N.
  destruct (allocate_dedicated_page c v lr ty size sub doMap allowed s ded) as (v1 & r). cbn [snd] in N.
  cbn [app] in Hnd. inversion Hnd as [|? ? Hns Hnd']; subst.
  destruct r as [[]|code| |]; cbn [fst snd]; try exact N.
  destruct P as (I1 & T1 & L1 & (a & Sa & Ka & La)).
  destruct (lf_some _ _ L1 _ _ Hg) as (l1 & Hg1 & C1).
  apply (IH v1 X lr l1 (bl_type l)); auto.
  - apply C1.
  - eapply Permutation.Permutation_NoDup; [apply Permutation.Permutation_middle|exact Hnd].
  - eapply dead_slots_frame; [intros s1 H1; apply Hdead; right; exact H1|exact T1|]. intros s1 H1 [<-|[]]. apply Hns. apply in_app_iff. auto.
  - intros x [<-|Hx]; [eauto|]. eapply ded_slots_frame; [exact Hdone|exact T1| |exact Hx]. intros s1 H1 [<-|[]]. apply Hns. apply in_app_iff. auto.
Qed.

Lemma dedicated_rollback_ok0 done : forall v X ty,
  AMc v X -> NoDup done ->
  (forall s, In s done -> ~ In s X /\ exists a d, slot_is v s a /\ a_type a = ty /\
       find_mem (m_mems (v_m v)) (a_mem a) = Some d /\ dm_type d = a_type a /\ dm_size d = a_size a) ->
  (forall s1 s2, In s1 done -> In s2 done -> s1 <> s2 -> a_mem (get_alloc v s1) <> a_mem (get_alloc v s2)) ->
  snd (dedicated_rollback c v ty done) = OK tt.
Proof.
  induction done as [|s tl IH]; intros v X ty HM Hnd Hall Hinj; cbn [dedicated_rollback]; [reflexivity|].
  inversion Hnd as [|? ? Hns Hnd']; subst.
  destruct (Hall s (or_introl eq_refl)) as (HX & a & d & Sa & Hty & Hf & Hdt & Hds). rewrite (get_alloc_slot _ _ _ Sa).
  pose proof (ded_release_AM c Hc Hmax Hlarge v X s a d HM Sa HX Hf Hdt Hds) as R. rewrite Hty in R.
  destruct (free_vk c (v_m v) ty (a_size a) (a_mem a)) as (m1 & fr). destruct R as (-> & R).
  destruct (remove_allocation c m1 (type_heap c ty) (a_size a)) as (m2 & rr). destruct R as (-> & R1 & R2).
  set (v1 := set_alloc (set_m v m2) s (set_allocated a false)).
  assert (HM1 : AMc v1 X) by (apply (AM_unmark c Hc Hmax Hlarge); [exact R1|reflexivity]).
  apply (IH v1 X); auto.
  - intros s' Hs'. destruct (Hall s' (or_intror Hs')) as (HX' & a' & d' & Sa' & Hty' & Hf' & Hdt' & Hds').
    assert (Hne : s' <> s) by (intros ->; contradiction).
    split; [auto|]. exists a', d'. split; [|split; [auto|split; [|auto]]].
    + unfold v1. apply slot_is_set_alloc_other; [auto|]. apply slot_is_set_m. exact Sa'.
    + unfold v1. cbn [set_alloc set_tab v_m set_m]. rewrite R2. rewrite find_remove_mem_other; [exact Hf'|].
      specialize (Hinj s' s (or_intror Hs') (or_introl eq_refl) Hne).
      rewrite (get_alloc_slot _ _ _ Sa'), (get_alloc_slot _ _ _ Sa) in Hinj. auto.
  - intros s1 s2 H1 H2 Hne. unfold v1.
    assert (s1 <> s) by (intros ->; contradiction). assert (s2 <> s) by (intros ->; contradiction).
    rewrite !(get_alloc_set_other (set_m v m2) s) by auto. apply Hinj; auto; right; auto.
Qed.

Lemma dedicated_rollback_ok done v X lr l ty :
  VamInvB v done X -> get_blist v lr = Some l -> bl_type l = ty -> NoDup done -> ded_slots v lr done ->
  snd (dedicated_rollback c v ty done) = OK tt.
Proof.
  intros HI Hg Hty Hnd Hds. pose proof (vb_s _ _ _ HI) as HU.
  assert (Hfacts : forall s, In s done -> ~ In s X /\ exists a, slot_is v s a /\ a_kind a = 2 /\ a_type a = ty /\
             exists d, find_mem (m_mems (v_m v)) (a_mem a) = Some d /\ dm_type d = a_type a /\ dm_size d = a_size a).
  { intros s Hs. destruct (Hds s Hs) as (a & Sa & Ka & La).
    assert (HX : ~ In s X).
    { intros Hi. destruct (vi_dang _ _ _ _ HU _ Hi) as (a2 & S2 & K2). assert (a2 = a) by (destruct S2, Sa; congruence). subst. congruence. }
    split; [auto|]. exists a. split; [auto|]. split; [auto|].
    destruct (vi_slots _ _ _ _ HU s a Sa HX) as [(K & _)|(_ & _ & (l2 & Hg2 & Ht2) & Hdev)]; [congruence|].
    split; [|exact Hdev]. rewrite La in Hg2. congruence. }
  apply (dedicated_rollback_ok0 done v X ty (AInv_AM c Hc Hmax Hlarge _ _ (vb_aa _ _ _ HI)) Hnd).
  - intros s Hs. destruct (Hfacts s Hs) as (HX & a & Sa & _ & Ht & d & Hd). split; [auto|]. exists a, d. tauto.
  - intros s1 s2 H1 H2 Hne E. destruct (Hfacts s1 H1) as (_ & a1 & S1 & K1 & _). destruct (Hfacts s2 H2) as (_ & a2 & S2 & K2 & _).
    rewrite (get_alloc_slot _ _ _ S1), (get_alloc_slot _ _ _ S2) in E.
    apply Hne. eapply (vi_ded_inj _ _ _ _ HU); eauto.
Qed.

Lemma allocate_dedicated_np v X lr l ty size sub doMap allowed slots ded :
  VamInvB v [] X -> get_blist v lr = Some l -> bl_type l = ty -> 0 <= size < 2 ^ 62 -> NoDup slots -> dead_slots v slots ->
  slots <> [] -> (doMap = true -> allowed = true) ->
  npu (snd (allocate_dedicated c v lr ty size sub doMap allowed slots ded)).
Proof.
  intros HI Hg Hty Hsz Hnd Hdead Hne Hda. unfold allocate_dedicated. destruct slots as [|s0 tl0] eqn:Eslots; [congruence|]. rewrite <- Eslots in *.
  assert (Hnd0 : NoDup (slots ++ [])) by (rewrite app_nil_r; auto).
  assert (Hds0 : ded_slots v lr []) by (intros ? []).
  pose proof (VamBalStep2.dedicated_loop_inv c Hc Hmax Hlarge ms0 G slots v X lr l ty size sub doMap allowed [] ded HI Hg Hty Hsz Hnd0 Hdead Hds0) as DL.
  pose proof (dedicated_loop_np slots v X lr l ty size sub doMap allowed [] ded HI Hg Hty Hsz Hnd0 Hdead Hds0 Hda) as DN.
  destruct (dedicated_loop c v lr ty size sub doMap allowed slots [] ded) as ((v1 & r) & done). cbn [fst snd] in DN.
  destruct r as [[]|code| |]; cbn [snd]; try exact DN.
  destruct DL as (I1 & T1 & L1 & D1 & N1 & _ & Q1 & O1).
  destruct (lf_some _ _ L1 _ _ Hg) as (l1 & Hg1 & C1).
  pose proof (dedicated_rollback_ok done v1 X lr l1 ty I1 Hg1 ltac:(destruct C1 as (C1 & _); congruence) N1 D1) as RB.
  destruct (dedicated_rollback c v1 ty done) as (v2 & rr). cbn [snd] in RB. subst rr. apply npu_er.
Qed.


(* ---------------------------------------------------------------- the loop over the memory types terminates *)

Lemma find_loop_bit mask req pref npref ts : forall i best j,
  Select.find_loop mask req pref npref ts i best = Some j ->
  (exists mc, best = Some (j, mc)) \/ ((i <= j < i + length ts)%nat /\ N.testbit mask (N.of_nat j) = true).
Proof using.
  induction ts as [|f ts IH]; intros i best j H; cbn [Select.find_loop] in H.
  - destruct best as [(b & mc)|]; [injection H as <-; left; eauto|discriminate].
  - assert (Hrec : forall best', Select.find_loop mask req pref npref ts (S i) best' = Some j ->
               (best' = best \/ (exists mc, best' = Some (i, mc) /\ N.testbit mask (N.of_nat i) = true)) ->
               (exists mc, best = Some (j, mc)) \/ ((i <= j < i + length (f :: ts))%nat /\ N.testbit mask (N.of_nat j) = true)).
    { intros best' H' Hb. destruct (IH _ _ _ H') as [(mc & E)|((R1 & R2) & R3)].
      - destruct Hb as [->|(mc' & -> & Hm)]; [left; eauto|]. injection E as <- _. right. cbn [length]. split; [lia|exact Hm].
      - right. cbn [length]. split; [lia|exact R3]. }
    destruct (negb (N.testbit mask (N.of_nat i))) eqn:Em; [apply (Hrec best H); left; reflexivity|].
    apply negb_false_iff in Em.
    destruct (negb (Select.has_all f req)); [apply (Hrec best H); left; reflexivity|].
    destruct (Nat.eqb (Select.cost pref npref f) 0); [injection H as <-; right; cbn [length]; split; [lia|exact Em]|].
    destruct best as [(b & mc)|].
    + destruct (Nat.ltb (Select.cost pref npref f) mc); [apply (Hrec _ H); right; eauto|apply (Hrec _ H); left; reflexivity].
    + apply (Hrec _ H). right. eauto.
Qed.

Lemma find_type_index_bit global bits usage flags req pref ctb bufimg ty :
  find_type_index c global bits usage flags req pref ctb bufimg = Some ty ->
  0 <= ty < ntypes c /\ N.testbit (Z.to_N bits) (Z.to_N ty) = true.
Proof using.
  clear G. unfold find_type_index. destruct (Select.find_prefs _ _ _ _ _ _) as ((rq & pf) & npf).
  destruct (Select.find_type _ _ _ _ _ _ _) as [n|] eqn:E; [|discriminate]. intros H. injection H as <-.
  unfold Select.find_type in E. destruct (find_loop_bit _ _ _ _ _ _ _ _ E) as [(mc & Hb)|((R1 & R2) & R3)]; [discriminate|].
  unfold types_n in R2. rewrite map_length in R2. split; [unfold ntypes, zlen; lia|].
  rewrite SelectProofs.eff_mask_spec in R3. apply andb_true_iff in R3. destruct R3 as (R3 & _).
  apply andb_true_iff in R3. destruct R3 as (R3 & _). rewrite <- R3. f_equal. lia.
Qed.


Lemma to_N_clear_bit bits ty :
  0 <= bits -> 0 <= ty -> Z.to_N (Z.land bits (Z.lnot (Z.shiftl 1 ty))) = N.clearbit (Z.to_N bits) (Z.to_N ty).
Proof using.
  clear G. intros Hb Ht. apply N.bits_inj. intros k. rewrite N.clearbit_eqb.
  assert (Hl : 0 <= Z.land bits (Z.lnot (Z.shiftl 1 ty))) by (apply Z.land_nonneg; left; exact Hb).
  rewrite <- (Z.testbit_of_N (Z.to_N (Z.land bits (Z.lnot (Z.shiftl 1 ty)))) k), <- (Z.testbit_of_N (Z.to_N bits) k), !Z2N.id by assumption.
  rewrite Z.land_spec, Z.lnot_spec by apply N2Z.is_nonneg. rewrite Z.shiftl_spec by apply N2Z.is_nonneg. f_equal. f_equal.
  destruct (N.eqb_spec (Z.to_N ty) k) as [<-|Hne].
  - rewrite Z2N.id by exact Ht. rewrite Z.sub_diag. reflexivity.
  - destruct (Z.of_N k - ty) as [|p|p] eqn:E; [exfalso; apply Hne; lia|destruct p; reflexivity|reflexivity].
Qed.

Lemma cnt_land_clear bits ty n :
  0 <= bits -> 0 <= ty -> (Z.to_nat ty < n)%nat -> N.testbit (Z.to_N bits) (Z.to_N ty) = true ->
  (SelectProofs.cnt (Z.to_N (Z.land bits (Z.lnot (Z.shiftl 1 ty)))) n < SelectProofs.cnt (Z.to_N bits) n)%nat.
Proof using.
  clear G. intros Hb Ht Hlt Hbit. rewrite to_N_clear_bit by assumption.
  replace (Z.to_N ty) with (N.of_nat (Z.to_nat ty)) in * by lia. apply SelectProofs.cnt_clearbit_lt; assumption.
Qed.

Lemma cnt_le_n bits n : (SelectProofs.cnt bits n <= n)%nat.
Proof using.
  clear G. induction n as [|n IH]; [reflexivity|]. rewrite SelectProofs.cnt_S. destruct (N.testbit bits (N.of_nat n)); cbn; lia.
Qed.


(* ---------------------------------------------------------------- allocateMemoryOfType, the type loop, multiAllocateMemory *)

Lemma fl_clear_same' f b : 0 <= b -> fl (fl_clear f b) b = false.
Proof using.
  clear G. intros Hb. unfold fl, fl_clear. rewrite Z.land_spec, Z.lnot_spec by auto. rewrite Z.shiftl_spec by auto.
  rewrite Z.sub_diag. cbn. apply andb_false_r.
Qed.

Lemma alloc_of_type_np v X lr l ty size align dedPref flags sub slots ded :
  VamInvB v [] X -> get_blist v lr = Some l -> bl_type l = ty -> 0 <= size < 2 ^ 62 -> align = 0 \/ Bits.pow2 align ->
  NoDup slots -> dead_slots v slots -> slots <> [] -> mapped_ok flags ->
  npu (snd (alloc_of_type c v lr ty size align dedPref flags sub slots ded)).
Proof.
  intros HI Hg Hty Hsz Hal Hnd Hdead Hne Hmo. unfold alloc_of_type. destruct slots as [|s0 tl0] eqn:Eslots; [congruence|]. rewrite <- Eslots in *.
  assert (Hne' : slots <> []) by (rewrite Eslots; discriminate).
  rewrite Hg.
  set (f1 := if fl flags F_MAPPED && negb (host_visible c ty) then fl_clear flags F_MAPPED else flags).
  pose proof (VamMapStep2.calc_type_params_spec c Hc Hmax Hlarge v ty size (zlen slots) flags) as Hctp. fold f1 in Hctp.
  destruct (calc_type_params c v ty size (zlen slots) flags) as (v1 & fr).
  destruct Hctp as (m1 & -> & Hm1 & Hfr).
  assert (I1 : VamInvB (set_m v m1) [] X) by (apply (VamBalStep.VamInvB_mach_same c Hc Hmax Hlarge ms0 G); auto).
  assert (Hg1 : get_blist (set_m v m1) lr = Some l) by (rewrite get_blist_set_m; auto).
  assert (Hdead1 : dead_slots (set_m v m1) slots) by exact Hdead.
  destruct fr as [flags'|code| |]; try contradiction; cbn [snd]; [|apply npu_er].
  subst flags'.
  assert (Hmo1 : mapped_ok f1).
  { unfold f1. destruct (fl flags F_MAPPED && negb (host_visible c ty)); [|exact Hmo]. intros E. rewrite fl_clear_same' in E by (unfold F_MAPPED; lia). discriminate. }
  assert (Hded : forall w l0, VamInvB w [] X -> get_blist w lr = Some l0 -> bl_type l0 = ty -> dead_slots w slots ->
            npu (snd (allocate_dedicated c w lr ty size sub (fl f1 F_MAPPED) (mapping_allowed f1) slots ded))).
  { intros w l0 Iw Hgw Htw Hdw. apply (allocate_dedicated_np w X lr l0); auto. }
  destruct (fl f1 F_DEDICATED); [apply (Hded _ l); auto|].
  set (canDed := negb (fl f1 F_NEVER) && (negb match lr with LPool _ => true | LDef _ => false end || negb (bl_explicit l))).
  match goal with |- context [if canDed then ?x else dedPref] => set (dp := if canDed then x else dedPref) end.
  assert (Hearly : let '(v2, early) :=
            (if canDed && dp then
               let '(v', r) := allocate_dedicated c (set_m v m1) lr ty size sub (fl f1 F_MAPPED) (mapping_allowed f1) slots ded in
               match r with OK _ => (v', Some (OK tt)) | ER _ => (v', None) | other => (v', Some other) end
             else (set_m v m1, None)) in
          match early with
          | Some r => npu r
          | None => VamInvB v2 [] X /\ dead_slots v2 slots /\ exists l2, get_blist v2 lr = Some l2 /\ bl_type l2 = ty
          end).
  { destruct (canDed && dp).
    - pose proof (VamBalStep2.allocate_dedicated_inv c Hc Hmax Hlarge ms0 G (set_m v m1) X lr l ty size sub (fl f1 F_MAPPED) (mapping_allowed f1) slots ded I1 Hg1 Hty Hsz Hnd Hdead1) as P.
      pose proof (Hded (set_m v m1) l I1 Hg1 Hty Hdead1) as N.
      destruct (allocate_dedicated c (set_m v m1) lr ty size sub (fl f1 F_MAPPED) (mapping_allowed f1) slots ded) as (v' & r). cbn [snd] in N.
      destruct r as [[]|code| |]; try exact N. destruct P as (A & B & C0 & D). split; [auto|]. split; [auto|].
      destruct (lf'_some _ _ C0 _ _ Hg1) as (l2 & G2 & C2). exists l2. split; [auto|]. destruct C2 as (C2 & _). congruence.
    - split; [auto|]. split; [auto|]. exists l. auto. }
  destruct (if canDed && dp then _ else _) as (v2 & early).
  destruct early as [r|]; [exact Hearly|].
  destruct Hearly as (I2 & D2 & l2 & G2 & Ty2).
  pose proof (VamBalStep.bl_allocate_inv c Hc Hmax Hlarge ms0 G v2 [] X lr slots size align f1 sub I2 Hal Hnd D2) as BA.
  pose proof (bl_allocate_np c Hc Hmax Hlarge ms0 G v2 [] X lr l2 slots size align f1 sub I2 Hal Hnd D2 G2 Hmo1 ltac:(lia)) as BN.
  destruct (bl_allocate c v2 lr slots size align f1 sub) as (v3 & br). cbn [snd] in BN.
  destruct br as [[]|bcode| |]; try exact BN.
  destruct BA as ((A & B & C0) & D).
  destruct (canDed && negb dp); [|apply npu_er].
  pose proof ((VamMapStep.heap_budget_sameX c Hc Hmax Hlarge) (v_m v3) (type_heap c ty)) as H.
  destruct (heap_budget c (v_m v3) (type_heap c ty)) as ((m4 & usage) & budget). cbn [fst] in H.
  assert (I4 : VamInvB (set_m v3 m4) [] X) by (apply (VamBalStep.VamInvB_mach_same c Hc Hmax Hlarge ms0 G); auto).
  destruct (budget <? _); [apply npu_er|].
  destruct (lf_some _ _ C0 _ _ G2) as (l3 & G3 & C3).
  apply (Hded (set_m v3 m4) l3 I4); [rewrite get_blist_set_m; exact G3|destruct C3 as (C3 & _); congruence|exact D].
Qed.

Lemma type_loop_np fuel : forall v X bits ty size align dedPref usage flags req pref ctb sub slots ded bufimg,
  VamInvB v [] X -> 0 <= size < 2 ^ 62 -> align = 0 \/ Bits.pow2 align -> NoDup slots -> dead_slots v slots ->
  slots <> [] -> mapped_ok flags -> 0 <= bits -> 0 <= ty < ntypes c -> N.testbit (Z.to_N bits) (Z.to_N ty) = true ->
  (SelectProofs.cnt (Z.to_N bits) (length (c_types c)) < fuel)%nat ->
  npu (snd (type_loop c fuel v bits ty size align dedPref usage flags req pref ctb sub slots ded bufimg)).
Proof.
  induction fuel as [|f IH]; intros v X bits ty size align dedPref usage flags req pref ctb sub slots ded bufimg HI Hsz Hal Hnd Hdead Hne Hmo Hb Hty Hbit Hcnt;
    cbn [type_loop]; [lia|].
  destruct (get_blist v (LDef ty)) as [l|] eqn:Hg; [|apply npu_er].
  pose proof (VamBalStep2.alloc_of_type_inv c Hc Hmax Hlarge ms0 G v X (LDef ty) l ty size align dedPref flags sub slots ded HI Hg (vi_def_type _ _ _ _ (vb_s _ _ _ HI) _ _ Hg) Hsz Hal Hnd Hdead) as P.
  pose proof (alloc_of_type_np v X (LDef ty) l ty size align dedPref flags sub slots ded HI Hg (vi_def_type _ _ _ _ (vb_s _ _ _ HI) _ _ Hg) Hsz Hal Hnd Hdead Hne Hmo) as N.
  destruct (alloc_of_type c v (LDef ty) ty size align dedPref flags sub slots ded) as (v1 & r). cbn [snd] in N.
  destruct r as [[]|code| |]; try exact N.
  destruct (code =? VK_UNKNOWN); [apply npu_er|].
  destruct P as (I1 & T1 & L1 & D1).
  set (bits' := Z.land bits (Z.lnot (Z.shiftl 1 ty))).
  assert (Hb' : 0 <= bits') by (apply Z.land_nonneg; left; exact Hb).
  assert (Hlt : (SelectProofs.cnt (Z.to_N bits') (length (c_types c)) < SelectProofs.cnt (Z.to_N bits) (length (c_types c)))%nat).
  { apply cnt_land_clear; [exact Hb|lia| |exact Hbit]. unfold ntypes, zlen in Hty. lia. }
  destruct (find_type_index c (v_global v1) bits' usage flags req pref ctb bufimg) as [ty'|] eqn:Ef; [|apply npu_er].
  destruct (find_type_index_bit _ _ _ _ _ _ _ _ _ Ef) as (Hty' & Hbit').
  apply (IH v1 X); auto. lia.
Qed.

(* calcAllocationParams: a persistently mapped request comes with a host-access flag *)
Lemma calc_params_np usage flags rd pe : npu (calc_params usage flags rd pe).
Proof using. clear G. unfold calc_params. repeat (match goal with |- context [if ?b then _ else _] => destruct b end); try apply npu_er; apply npu_ok. Qed.

Lemma fl_set_other f b b' : 0 <= b -> 0 <= b' -> b <> b' -> fl (fl_set f b) b' = fl f b'.
Proof using.
  clear G. intros H0 H1 Hne. unfold fl, fl_set. rewrite Z.lor_spec, Z.shiftl_spec by auto.
  replace (Z.testbit 1 (b' - b)) with false; [apply orb_false_r|]. symmetry.
  destruct (b' - b) as [|p|p] eqn:E; [lia|destruct p; reflexivity|reflexivity].
Qed.

Lemma fl_set_same f b : 0 <= b -> fl (fl_set f b) b = true.
Proof using. clear G. intros H0. unfold fl, fl_set. rewrite Z.lor_spec, Z.shiftl_spec by auto. rewrite Z.sub_diag. apply orb_true_r. Qed.

Lemma calc_params_mapped_ok usage flags rd pe f :
  calc_params usage flags rd pe = OK f -> mapped_ok f.
Proof using.
  clear G. unfold calc_params, mapped_ok, mapping_allowed.
  destruct (fl flags F_SEQ && fl flags F_RANDOM); [discriminate|].
  destruct (negb (fl flags F_SEQ) && negb (fl flags F_RANDOM) && fl flags F_XFER); [discriminate|].
  destruct (is_auto usage && negb (fl flags F_SEQ) && negb (fl flags F_RANDOM) && fl flags F_MAPPED) eqn:E3; [discriminate|].
  set (f1 := if rd || (usage =? 1) then fl_set flags F_DEDICATED else flags).
  assert (Hf1 : forall b, 0 <= b -> b <> F_DEDICATED -> fl f1 b = fl flags b).
  { intros b Hb Hne. unfold f1. destruct (rd || (usage =? 1)); [apply fl_set_other; unfold F_DEDICATED in *; lia|reflexivity]. }
  destruct (match pe with Some true => fl f1 F_DEDICATED | _ => false end); [discriminate|].
  destruct (fl f1 F_DEDICATED && fl f1 F_NEVER); [discriminate|].
  destruct (negb (is_auto usage) && negb (fl flags F_SEQ) && negb (fl flags F_RANDOM)) eqn:E4; intros E; injection E as <-; intros Hm.
  - rewrite (fl_set_same f1 F_RANDOM) by (unfold F_RANDOM; lia). apply orb_true_r.
  - rewrite (Hf1 F_MAPPED) in Hm by (unfold F_MAPPED, F_DEDICATED; lia).
    rewrite (Hf1 F_SEQ), (Hf1 F_RANDOM) by (unfold F_SEQ, F_RANDOM, F_DEDICATED; lia).
    rewrite Hm in E3. destruct (fl flags F_SEQ), (fl flags F_RANDOM), (is_auto usage); cbn in *; try reflexivity; discriminate.
Qed.


(* the pool handle of a request (if any) is valid *)
Definition pool_live (v : vam) (pool : option Z) : Prop :=
  match pool with Some uid => get_blist v (LPool uid) <> None | None => True end.

Lemma testbit_to_N_nonneg z k : N.testbit (Z.to_N z) k = true -> 0 <= z.
Proof using. clear G. intros H. destruct z; try lia. change (Z.to_N (Z.neg p)) with 0%N in H. rewrite N.bits_0 in H. discriminate. Qed.

Lemma multi_allocate_np v X size align typeBits reqDed prefDed ded bufimg usage flags0 req pref ctb pool sub slots :
  VamInvB v [] X -> size < 2 ^ 62 -> NoDup slots -> dead_slots v slots -> slots <> [] -> pool_live v pool ->
  npu (snd (multi_allocate c v size align typeBits reqDed prefDed ded bufimg usage flags0 req pref ctb pool sub slots)).
Proof.
  intros HI Hsz0 Hnd Hdead Hne Hpl. unfold multi_allocate.
  destruct (is_pow2_or_zero align) eqn:Ea; cbn [negb]; [|apply npu_er].
  pose proof (pow2_or_zero_spec _ Ea) as Hal.
  destruct (size <? 1) eqn:Es1; [apply npu_er|]. assert (Hsz : 0 <= size < 2 ^ 62) by (apply Z.ltb_ge in Es1; lia).
  match goal with |- context [calc_params usage flags0 reqDed ?pe] => pose proof (calc_params_np usage flags0 reqDed pe) as CN;
    pose proof (calc_params_mapped_ok usage flags0 reqDed pe) as CM; destruct (calc_params usage flags0 reqDed pe) as [flags|code| |] end;
    try (destruct CN; congruence); [|apply npu_er].
  specialize (CM flags eq_refl).
  destruct pool as [uid|].
  - unfold pool_live in Hpl. destruct (get_blist v (LPool uid)) as [l|] eqn:Hg; [|congruence].
    apply (alloc_of_type_np v X (LPool uid) l); auto.
  - destruct (find_type_index c (v_global v) typeBits usage flags req pref ctb bufimg) as [ty|] eqn:Ef; [|apply npu_er].
    destruct (find_type_index_bit _ _ _ _ _ _ _ _ _ Ef) as (Hty & Hbit).
    apply (type_loop_np _ v X); auto; [apply (testbit_to_N_nonneg _ _ Hbit)|]. pose proof (cnt_le_n (Z.to_N typeBits) (length (c_types c))). lia.
Qed.

Lemma allocate_memory_np v X slot size align typeBits usage flags req pref ctb pool :
  VamInvB v [] X -> size < 2 ^ 62 -> 0 <= slot < zlen (v_tab v) -> pool_live v pool ->
  npu (snd (allocate_memory c v slot size align typeBits usage flags req pref ctb pool)).
Proof.
  intros HI Hsz Hr Hpl. unfold allocate_memory. destruct (a_allocated (get_alloc v slot)) eqn:Ea; [apply npu_er|].
  apply (multi_allocate_np v X); auto; [constructor; [intros []|constructor]|intros s [<-|[]]; auto|discriminate].
Qed.

Lemma allocate_memory_slice_np v X slot n size align typeBits usage flags req pref ctb pool :
  VamInvB v [] X -> size < 2 ^ 62 -> 0 <= slot -> slot + n <= zlen (v_tab v) -> pool_live v pool ->
  npu (snd (allocate_memory_slice c v slot n size align typeBits usage flags req pref ctb pool)).
Proof.
  intros HI Hsz H0 Hn Hpl. unfold allocate_memory_slice. cbn zeta.
  destruct (slot_range_nodup (Z.to_nat n) slot) as (Hnd & Hrange).
  set (slots := slot_range slot (Z.to_nat n)) in *.
  destruct slots as [|s0 tl] eqn:Es; [apply npu_ok|].
  rewrite <- Es in *. destruct (existsb _ slots) eqn:Eex; [apply npu_er|].
  assert (Hdead : dead_slots v slots).
  { intros s Hs. split.
    - specialize (Hrange s Hs). destruct n as [|p|p]; [cbn in Hrange; lia|rewrite Z2Nat.id in Hrange by lia; lia|cbn in Hrange; lia].
    - destruct (a_allocated (get_alloc v s)) eqn:E; [|reflexivity]. exfalso.
      assert (existsb (fun s => a_allocated (get_alloc v s)) slots = true) by (apply existsb_exists; exists s; auto). congruence. }
  apply (multi_allocate_np v X); auto. rewrite Es. discriminate.
Qed.

(* ---------------------------------------------------------------- freeing *)

Lemma free_dedicated_ok v X s a :
  VamInvB v [] X -> slot_is v s a -> a_kind a = 2 -> snd (free_dedicated c v s) = OK tt.
Proof.
  intros HI Sa Ka. pose proof (vb_s _ _ _ HI) as HU.
  assert (HnX : ~ In s X).
  { intros Hi. destruct (vi_dang _ _ _ _ HU _ Hi) as (a2 & S2 & K2). assert (a2 = a) by (destruct S2, Sa; congruence). subst. congruence. }
  unfold free_dedicated. rewrite (get_alloc_slot _ _ _ Sa). rewrite Ka. cbn [Z.eqb negb Pos.eqb].
  set (v1 := set_dedlist v (a_lref a) (Util.remove_z s (get_dedlist v (a_lref a)))).
  destruct (vi_slots _ _ _ _ HU s a Sa HnX) as [(K & _)|(_ & _ & _ & d & Hf & Hdt & Hds)]; [congruence|].
  assert (M1 : AMc v1 X).
  { eapply (AM_tab c Hc Hmax Hlarge); [apply (AInv_AM c Hc Hmax Hlarge _ _ (vb_aa _ _ _ HI))|apply set_dedlist_tab|unfold v1; rewrite set_dedlist_m; apply (mach_sameA_refl c Hc Hmax Hlarge)]. }
  assert (Sa1 : slot_is v1 s a) by (unfold slot_is, v1; rewrite set_dedlist_tab; exact Sa).
  pose proof (ded_release_AM c Hc Hmax Hlarge v1 X s a d M1 Sa1 HnX ltac:(unfold v1; rewrite set_dedlist_m; exact Hf) Hdt Hds) as R.
  destruct (free_vk c (v_m v1) (a_type a) (a_size a) (a_mem a)) as (m1 & fr). destruct R as (-> & R).
  destruct (remove_allocation c m1 (type_heap c (a_type a)) (a_size a)) as (m2 & rr). destruct R as (-> & _). reflexivity.
Qed.

Lemma multi_free_ok slots : forall v X,
  VamInvB v [] X -> NoDup slots -> live_slots v X slots -> (forall s, In s slots -> G s = 0) ->
  snd (multi_free c v slots) = OK tt.
Proof.
  induction slots as [|s tl IH]; intros v X HI Hnd Hlive HG0; cbn [multi_free]; [reflexivity|].
  inversion Hnd as [|? ? Hns Hnd']; subst.
  destruct (Hlive s (or_introl eq_refl)) as (HnX & a & Sa).
  pose proof (VamBalStep2.multi_free_inv c Hc Hmax Hlarge ms0 G [s] v X HI ltac:(constructor; [intros []|constructor])
                ltac:(intros x [<-|[]]; split; eauto) ltac:(intros x [<-|[]]; apply HG0; left; reflexivity)) as P1.
  cbn [multi_free] in P1.
  assert (E : snd (free_single c v s) = OK tt).
  { unfold free_single. rewrite (get_alloc_slot _ _ _ Sa).
    destruct (vi_slots _ _ _ _ (vb_s _ _ _ HI) s a Sa HnX) as [(K & _)|(K & _)]; rewrite K; cbn [Z.eqb Pos.eqb].
    - apply (bl_free_ok c Hc Hmax Hlarge ms0 G v [] X s a false HI Sa HnX K (HG0 s (or_introl eq_refl))).
    - apply (free_dedicated_ok v X s a HI Sa K). }
  destruct (free_single c v s) as (v1 & r). cbn [snd] in E. subst r.
  destruct P1 as (I2 & T2 & _ & _).
  apply (IH _ X I2 Hnd'); [|intros x Hx; apply HG0; right; exact Hx].
  intros x Hx. destruct (Hlive x (or_intror Hx)) as (HX & b & Sb). split; [auto|]. exists b.
  apply (slot_is_frame _ _ _ _ _ T2); auto. intros [<-|[]]. contradiction.
Qed.

Lemma allocation_free_np v s : VamInvB v [] [] -> G s = 0 -> npu (snd (allocation_free c v s)).
Proof.
  intros HI HG0. unfold allocation_free. destruct (a_allocated (get_alloc v s)) eqn:Ea; cbn [negb]; [|apply npu_er].
  rewrite (multi_free_ok [s] v [] HI); [apply npu_ok|constructor; [intros []|constructor]| |intros x [<-|[]]; exact HG0].
  intros x [<-|[]]; split; [intros []|exists (get_alloc v s); apply get_alloc_allocated; auto].
Qed.


Lemma free_slice_np v slot n :
  VamInvB v [] [] -> (forall s, In s (slot_range slot (Z.to_nat n)) -> a_allocated (get_alloc v s) = true) ->
  (forall s, In s (slot_range slot (Z.to_nat n)) -> G s = 0) -> npu (snd (free_allocation_slice c v slot n)).
Proof.
  intros HI Hall HG0. unfold free_allocation_slice. destruct (slot_range_nodup (Z.to_nat n) slot) as (Hnd & _).
  rewrite (multi_free_ok _ v [] HI Hnd); [apply npu_ok| |exact HG0].
  intros s Hs. split; [intros []|]. exists (get_alloc v s). apply get_alloc_allocated. auto.
Qed.

(* ---------------------------------------------------------------- Map / Unmap / Flush / Bind *)

Lemma kind1_block v s a : VamInvU c v [] [] -> slot_is v s a -> a_kind a = 1 ->
  exists l b, get_blist v (a_lref a) = Some l /\ In b (bl_blocks l) /\ NoDup (map bk_id (bl_blocks l)) /\ bk_id b = a_blk a /\
              get_block v (a_lref a) (a_blk a) = Some b.
Proof.
  intros HI Sa K.
  destruct (vi_slots _ _ _ _ HI s a Sa (fun H => H)) as [(_ & l & b & rg & Hg & Hb & Hid & _)|(K2 & _)]; [|congruence].
  pose proof (bw_nodup _ _ (vi_lists _ _ _ _ HI _ _ Hg)) as Hnd.
  exists l, b. repeat split; auto. rewrite <- Hid. apply (VamFlush.get_block_of v _ l b Hg Hnd Hb).
Qed.

Lemma allocation_map_np v s : VamInvU c v [] [] -> npu (snd (allocation_map c v s)).
Proof.
  intros HU. unfold allocation_map. set (a := get_alloc v s).
  destruct (negb (a_mapallowed a)); [apply npu_er|].
  destruct (a_allocated a) eqn:Ea; cbn [negb]; [|apply npu_er].
  pose proof (get_alloc_allocated v s Ea) as Sa. fold a in Sa.
  destruct (vi_slots _ _ _ _ HU s a Sa (fun H => H)) as [(K & _)|(K & _)]; rewrite K; cbn [Z.eqb Pos.eqb].
  - destruct (kind1_block v s a HU Sa K) as (l & b & Hg & Hb & Hnd & Hid & Hgb). rewrite Hgb.
    destruct (VamFlush.find_offset_valid c v s a HU Sa) as (o & d & Hfo & _).
    pose proof (sm_map_np c (v_m v) (bk_mem b) (bk_sm b)) as N.
    destruct (sm_map c (v_m v) (bk_mem b) (bk_sm b)) as ((m1 & s1) & r). cbn [snd] in N.
    destruct r as [[]|code| |]; try (destruct N; congruence); [|apply npu_er].
    set (nb := mkBlock (bk_id b) (bk_mem b) s1 (bk_meta b)).
    assert (E : find_offset (put_block (set_m v m1) (a_lref a) nb) a = Some o).
    { unfold find_offset in *. rewrite K in *. cbn [Z.eqb Pos.eqb] in *.
      destruct (put_block_lookup (set_m v m1) (a_lref a) l b nb) as (_ & _ & L); [rewrite get_blist_set_m; exact Hg|exact Hnd|exact Hb|reflexivity|].
      change (bk_id nb) with (bk_id b) in L. rewrite Hid in L. rewrite L. cbn [bk_meta nb]. rewrite Hgb in Hfo. exact Hfo. }
    rewrite E. apply npu_ok.
  - pose proof (sm_map_np c (v_m v) (a_mem a) (a_sm a)) as N.
    destruct (sm_map c (v_m v) (a_mem a) (a_sm a)) as ((m1 & s1) & r). exact N.
Qed.

Lemma allocation_unmap_np v s : VamInvU c v [] [] -> a_allocated (get_alloc v s) = true -> npu (snd (allocation_unmap v s)).
Proof.
  intros HU Ea. unfold allocation_unmap. set (a := get_alloc v s) in *. rewrite Ea. cbn [negb].
  pose proof (get_alloc_allocated v s Ea) as Sa. fold a in Sa.
  destruct (vi_slots _ _ _ _ HU s a Sa (fun H => H)) as [(K & _)|(K & _)]; rewrite K; cbn [Z.eqb Pos.eqb].
  - destruct (kind1_block v s a HU Sa K) as (l & b & Hg & Hb & Hnd & Hid & Hgb). rewrite Hgb.
    pose proof (sm_unmap_np (v_m v) (bk_mem b) (bk_sm b)) as N.
    destruct (sm_unmap (v_m v) (bk_mem b) (bk_sm b)) as ((m1 & s1) & r). exact N.
  - pose proof (sm_unmap_np (v_m v) (a_mem a) (a_sm a)) as N.
    destruct (sm_unmap (v_m v) (a_mem a) (a_sm a)) as ((m1 & s1) & r). exact N.
Qed.

(* ---------------------------------------------------------------- pools, Destroy *)

Lemma find_pool_blist v uid : find_pool (v_pools v) uid <> None -> get_blist v (LPool uid) <> None.
Proof using. clear G. cbn. destruct (find_pool (v_pools v) uid); congruence. Qed.

Lemma pool_destroy_np v uid : VamInvB v [] [] -> find_pool (v_pools v) uid <> None -> npu (snd (pool_destroy c v uid)).
Proof.
  intros HI Hp. unfold pool_destroy. destruct (find_pool (v_pools v) uid) as [p|] eqn:Ef; [|congruence].
  destruct (p_ded p); [|apply npu_er].
  assert (Hg : get_blist v (LPool uid) = Some (p_list p)) by (cbn; rewrite Ef; reflexivity).
  pose proof (bl_destroy_np c Hc Hmax Hlarge ms0 G v [] [] (LPool uid) _ HI Hg) as N.
  destruct (bl_destroy c v (LPool uid)) as (v1 & r). cbn [snd] in N. destruct r as [[]|code| |]; auto.
Qed.

Lemma destroy_lists_np n : forall v t, VamInvB v [] [] -> npu (snd (destroy_lists c v n t)).
Proof.
  induction n as [|k IH]; intros v t HI; cbn [destroy_lists]; [apply npu_ok|].
  destruct (get_blist v (LDef t)) as [l|] eqn:Hg; [|apply IH; auto].
  pose proof (bl_destroy_np c Hc Hmax Hlarge ms0 G v [] [] (LDef t) l HI Hg) as N.
  pose proof (VamBalStep.bl_destroy_inv c Hc Hmax Hlarge ms0 G v [] [] (LDef t) HI) as BD.
  destruct (bl_destroy c v (LDef t)) as (v1 & r). cbn [snd] in N. destruct r as [[]|code| |]; auto.
  destruct BD as ((I1 & _) & _). apply IH. exact I1.
Qed.

Lemma allocator_destroy_np v : VamInvB v [] [] -> npu (snd (allocator_destroy c v)).
Proof.
  intros HI. unfold allocator_destroy. destruct (existsb _ (v_ded v)); [apply npu_er|].
  destruct (v_pools v); [|apply npu_er]. destruct (existsb list_nonempty _); [apply npu_er|].
  apply destroy_lists_np. auto.
Qed.


Notation VamInvB_mach_same := (VamBalStep.VamInvB_mach_same c Hc Hmax Hlarge ms0 G).
Notation create_min_blocks_inv := (VamBalStep.create_min_blocks_inv c Hc Hmax Hlarge ms0 G).

Lemma create_pool_np v ty flags blockSize minB maxB0 minAlign :
  VamInvB v [] [] -> 0 <= blockSize < 2 ^ 62 -> npu (snd (create_pool c v ty flags blockSize minB maxB0 minAlign)).
Proof.
  intros HI Hbs0. unfold create_pool.
  destruct (_ <? minB); [apply npu_er|]. destruct ((ty <? 0) || (ntypes c <=? ty)) eqn:Ety; [apply npu_er|].
  destruct (negb (N.testbit _ _)); [apply npu_er|]. destruct ((0 <? minAlign) && negb (is_pow2_or_zero minAlign)) eqn:Eal; [apply npu_er|].
  set (bs := if blockSize =? 0 then preferred_block_size c ty else blockSize).
  set (al := if type_min_alignment c ty <? minAlign then minAlign else type_min_alignment c ty).
  set (gr := if Z.testbit flags 0 then 1 else eff_granularity c).
  set (l := mkBlist ty bs minB (if maxB0 =? 0 then MAXINT else maxB0) gr (negb (blockSize =? 0)) (Z.land flags 2) al [] 0 true).
  set (uid := v_next_uid v).
  assert (Hwf : blist_wf c l).
  { constructor; cbn.
    9: (unfold gr, eff_granularity; destruct (Z.testbit flags 0); auto).
    all: try constructor; try lia.
    - unfold type_valid. apply orb_false_iff in Ety. destruct Ety as (E1 & E2). apply Z.ltb_ge in E1. apply Z.leb_gt in E2.
      apply andb_true_iff. split; [apply Z.leb_le; lia|apply Z.ltb_lt; lia].
    - unfold al. pose proof (type_min_alignment_pow2 c Hc ty) as Ht. destruct (type_min_alignment c ty <? minAlign) eqn:E; [|auto].
      apply Z.ltb_lt in E. pose proof (Bits.pow2_pos _ Ht). apply andb_false_iff in Eal. destruct Eal as [Eal|Eal].
      + apply Z.ltb_ge in Eal. lia.
      + apply negb_false_iff in Eal. destruct (pow2_or_zero_spec _ Eal); [lia|auto].
    - unfold gr. destruct (Z.testbit flags 0); [apply Bits.pow2_1|apply (eff_granularity_pow2 c Hc)].
    - unfold al. destruct (type_min_alignment c ty <? minAlign) eqn:E; [apply Z.ltb_lt in E|]; unfold type_min_alignment in *; lia. }
  assert (Hbs : 0 <= bs < 2 ^ 62).
  { unfold bs. destruct (blockSize =? 0); [apply (preferred_block_size_bound c Hc Hmax Hlarge)|exact Hbs0]. }
  assert (I0 : VamInvB (mkVam (v_m v) (v_global v) (v_lists v) (v_ded v) (mkPool (v_next_uid v) (v_next_pool_id v) l [] :: v_pools v)
                   (v_next_pool_id v + 1) (v_next_uid v + 1) (v_tab v)) [] []).
  { assert (Hsub : blocks_sub v (mkVam (v_m v) (v_global v) (v_lists v) (v_ded v) (mkPool (v_next_uid v) (v_next_pool_id v) l [] :: v_pools v)
                   (v_next_pool_id v + 1) (v_next_uid v + 1) (v_tab v))).
    { intros lr l' b' Hg Hb'. destruct lr as [t|u]; [exists (LDef t), l', b'; auto|].
      cbn in Hg. destruct (v_next_uid v =? u) eqn:Eu.
      + injection Hg as <-. destruct Hb'.
      + exists (LPool u), l', b'. auto. }
    split; [split|].
    - split; [exact (VamInvU_add_pool c v [] [] l (vb_s _ _ _ HI) Hwf eq_refl)|].
      apply (AInv_lists c Hc Hmax Hlarge v [] _ (vb_aa _ _ _ HI)); [reflexivity|reflexivity|].
      intros lr l' Hg. destruct lr as [t|u]; [apply (ai_pref _ _ _ (vb_aa _ _ _ HI) (LDef t)); exact Hg|].
      cbn in Hg. destruct (v_next_uid v =? u) eqn:Eu.
      + injection Hg as <-. exact Hbs.
      + apply (ai_pref _ _ _ (vb_aa _ _ _ HI) (LPool u)). exact Hg.
    - apply (MM_lists ms0 v []); [apply (vb_mm _ _ _ HI)|reflexivity|split; [reflexivity|intros; reflexivity]|exact Hsub].
    - apply (BInv_lists v G []); [apply (vb_b _ _ _ HI)|reflexivity|apply blocks_sub_R; exact Hsub]. }
  fold uid in I0.
  set (v0 := mkVam (v_m v) (v_global v) (v_lists v) (v_ded v) (mkPool uid (v_next_pool_id v) l [] :: v_pools v)
                   (v_next_pool_id v + 1) (uid + 1) (v_tab v)) in *.
  assert (Hg0 : get_blist v0 (LPool uid) = Some l) by (cbn; rewrite Z.eqb_refl; reflexivity).
  pose proof (create_min_blocks_np c Hc Hmax Hlarge ms0 G (Z.to_nat minB) v0 [] [] (LPool uid) l bs I0 Hg0 Hbs) as N.
  pose proof (create_min_blocks_inv (Z.to_nat minB) v0 [] [] (LPool uid) bs I0 Hbs) as CM.
  destruct (create_min_blocks c (Z.to_nat minB) v0 (LPool uid) bs) as (v1 & r). cbn [snd] in N.
  destruct CM as (I1 & T1 & L1).
  destruct r as [[]|code| |]; auto.
  assert (Hu1 : map p_uid (v_pools v1) = uid :: map p_uid (v_pools v)) by (rewrite (lf_uids _ _ L1); reflexivity).
  assert (Hp : find_pool (v_pools v1) uid <> None).
  { destruct (v_pools v1) as [|q qs]; cbn in *; [discriminate|]. injection Hu1 as Hq _. rewrite Hq, Z.eqb_refl. discriminate. }
  pose proof (pool_destroy_np v1 uid I1 Hp) as N2.
  destruct (pool_destroy c v1 uid) as (v2 & dr). cbn [snd] in *. destruct dr as [[]|dcode| |]; auto; apply npu_er.
Qed.

(* ---------------------------------------------------------------- resources *)

Lemma bind_memory_np v s image res off : VamInvU c v [] [] -> npu (snd (bind_memory v s image res off)).
Proof.
  intros HU. pose proof (VamFlush.bind_memory_valid c v s image res off HU) as P.
  destruct (bind_memory v s image res off) as (v' & r). destruct P as (A & B & _). split; auto.
Qed.

Lemma pool_live_set_m v m pool : pool_live v pool -> pool_live (set_m v m) pool.
Proof using. clear G. destruct pool as [uid|]; [|auto]. unfold pool_live. rewrite get_blist_set_m. auto. Qed.

Lemma create_resource_np v s image kind sub devreq resusage minAlign usage flags req pref ctb pool :
  VamInvB v [] [] -> rq_size devreq < 2 ^ 62 -> 0 <= s < zlen (v_tab v) -> a_allocated (get_alloc v s) = false -> pool_live v pool ->
  npu (snd (create_resource c v s image kind sub devreq resusage minAlign usage flags req pref ctb pool)).
Proof.
  intros HI Hdq Hr Hd Hpl. unfold create_resource.
  pose proof (VamMapStep2.dev_create_res_sameX c Hc Hmax Hlarge (v_m v) image kind devreq Hdq) as H1.
  destruct (dev_create_res (v_m v) image kind devreq) as ((m1 & code) & id). cbn [fst] in H1.
  destruct (negb (code =? 0)); [apply npu_er|].
  destruct (VamMapStep2.get_requirements_spec c Hc Hmax Hlarge m1 image id) as (m2 & rq & rd & pd & Egr & H2 & Hrq). rewrite Egr.
  assert (Hsz : rq_size rq < 2 ^ 62) by (apply Hrq; apply (proj2 (proj2 (proj1 H1))); apply (ai_res _ _ _ (vb_aa _ _ _ HI))).
  pose proof (VamMapStep.mach_sameX_trans c Hc Hmax Hlarge _ _ _ H1 H2) as H12.
  assert (I2 : VamInvB (set_m v m2) [] []) by (apply VamInvB_mach_same; auto).
  assert (Hnd : NoDup [s]) by (constructor; [intros []|constructor]).
  assert (Hdead : dead_slots (set_m v m2) [s]) by (intros x [<-|[]]; auto).
  match goal with |- context [multi_allocate c (set_m v m2) ?a1 ?a2 ?a3 ?a4 ?a5 ?a6 ?a7 usage flags req pref ctb pool sub [s]] =>
    pose proof (VamBalStep2.multi_allocate_inv c Hc Hmax Hlarge ms0 G (set_m v m2) [] a1 a2 a3 a4 a5 a6 a7 usage flags req pref ctb pool sub [s] I2 Hsz Hnd Hdead) as MA;
    pose proof (multi_allocate_np (set_m v m2) [] a1 a2 a3 a4 a5 a6 a7 usage flags req pref ctb pool sub [s] I2 Hsz Hnd Hdead ltac:(discriminate) (pool_live_set_m _ _ _ Hpl)) as N;
    destruct (multi_allocate c (set_m v m2) a1 a2 a3 a4 a5 a6 a7 usage flags req pref ctb pool sub [s]) as (v3 & r) end.
  cbn [snd] in N. destruct r as [[]|acode| |]; auto.
  destruct MA as (I3 & T3 & L3 & D3).
  destruct (fl flags F_DONTBIND); [apply npu_ok|].
  pose proof (VamBalStep2.bind_memory_inv c Hc Hmax Hlarge ms0 G v3 s image id 0 I3) as B.
  pose proof (bind_memory_np v3 s image id 0 (vb_s _ _ _ I3)) as NB.
  destruct (bind_memory v3 s image id 0) as (v4 & br). cbn [snd] in NB.
  destruct br as [[]|bcode| |]; auto.
  destruct B as (I4 & T4).
  destruct (a_allocated (get_alloc v4 s)) eqn:Ea; [|apply npu_er].
  assert (F : snd (multi_free c v4 [s]) = OK tt).
  { apply (multi_free_ok [s] v4 [] I4 Hnd).
    - intros x [<-|[]]; split; [intros []|exists (get_alloc v4 s); apply get_alloc_allocated; auto].
    - intros x [<-|[]]. apply (bb_G0 _ _ _ (vb_b _ _ _ HI)); exact Hd. }
  destruct (multi_free c v4 [s]) as (v5 & fr). cbn [snd] in F. subst fr. apply npu_er.
Qed.

Lemma create_buffer_np v s size devreq bufUsage minAlign usage flags req pref ctb pool :
  VamInvB v [] [] -> rq_size devreq < 2 ^ 62 -> 0 <= s < zlen (v_tab v) -> pool_live v pool ->
  npu (snd (create_buffer c v s size devreq bufUsage minAlign usage flags req pref ctb pool)).
Proof.
  intros HI Hdq Hr Hpl. unfold create_buffer. destruct (a_allocated (get_alloc v s)) eqn:Ea; [apply npu_er|].
  destruct (_ && _); [apply npu_er|]. destruct (size =? 0); [apply npu_er|].
  destruct (_ && _); [apply npu_er|]. apply create_resource_np; auto.
Qed.

Lemma create_image_np v s tiling width devreq imgUsage usage flags req pref ctb pool :
  VamInvB v [] [] -> rq_size devreq < 2 ^ 62 -> 0 <= s < zlen (v_tab v) -> pool_live v pool ->
  npu (snd (create_image c v s tiling width devreq imgUsage usage flags req pref ctb pool)).
Proof.
  intros HI Hdq Hr Hpl. unfold create_image. destruct (a_allocated (get_alloc v s)) eqn:Ea; [apply npu_er|].
  destruct (width =? 0); [apply npu_er|]. apply create_resource_np; auto.
Qed.

Lemma allocate_for_resource_np v s image res usage flags req pref ctb pool :
  VamInvB v [] [] -> 0 <= s < zlen (v_tab v) -> pool_live v pool ->
  npu (snd (allocate_for_resource c v s image res usage flags req pref ctb pool)).
Proof.
  intros HI Hr Hpl. unfold allocate_for_resource. destruct (res =? 0); [apply npu_er|].
  destruct (a_allocated (get_alloc v s)) eqn:Ea; [apply npu_er|].
  destruct (VamMapStep2.get_requirements_spec c Hc Hmax Hlarge (v_m v) image res) as (m2 & rq & rd & pd & Egr & H2 & Hrq). rewrite Egr.
  assert (Hsz : rq_size rq < 2 ^ 62) by (apply Hrq; apply (ai_res _ _ _ (vb_aa _ _ _ HI))).
  assert (I2 : VamInvB (set_m v m2) [] []) by (apply VamInvB_mach_same; auto).
  apply (multi_allocate_np (set_m v m2) []); [exact I2|exact Hsz|constructor; [intros []|constructor]|intros x [<-|[]]; auto|discriminate|apply pool_live_set_m; auto].
Qed.

Lemma destroy_with_resource_np v s image res :
  VamInvB v [] [] -> G s = 0 -> npu (snd (destroy_with_resource c v s image res)).
Proof.
  intros HI HG0. unfold destroy_with_resource.
  set (v1 := if res =? 0 then v else set_m v (dev_destroy_res (v_m v) image res)).
  assert (I1 : VamInvB v1 [] []).
  { unfold v1. destruct (res =? 0); [auto|]. apply VamInvB_mach_same; [auto|apply (VamMapStep2.dev_destroy_res_sameX c Hc Hmax Hlarge)]. }
  apply allocation_free_np; auto.
Qed.

End WithCfg.
