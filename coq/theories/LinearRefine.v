(* LinearRefine.v — the linear block metadata model (Linear.v: lazy deletion, null counters,
   compaction, vector swap, binary search) refines the reference semantics LinearSpec.v (live items
   only): on every state satisfying LInv and every admissible operation both produce the same outcome
   (kind, offset, size) and the abstraction of the new state is the new reference state.  C16. *)
From Coq Require Import ZArith List Bool Lia.
From Coq Require Import ZifyBool.
From Arsenal Require Import Util Bits Gran Linear LinearInv LinearAlloc LinearFree LinearStep LinearSpec.
Import ListNotations.
Open Scope Z_scope.
Ltac Zify.zify_post_hook ::= Z.div_mod_to_equations.

(* the live items of the two vectors, and the mode *)
Definition abs (l : linear) : spec :=
  mkSpec (l_size l) (l_gran l) (l_h l) (lives (window l)) (lives (second l)) (l_mode l).

(* ------------------------------------------------------------------ small list facts *)

Lemma olast_snoc v s : olast (v ++ [s]) = Some s.
Proof.
  induction v as [|a r IH]; [reflexivity|]. cbn [app olast].
  destruct (r ++ [s]) eqn:E; [destruct r; discriminate|]. exact IH.
Qed.

Lemma last_end_snoc v s : last_end (v ++ [s]) = send s.
Proof. unfold last_end. rewrite olast_snoc. reflexivity. Qed.

Lemma existsb_false {A} (f : A -> bool) v : (forall x, In x v -> f x = false) -> existsb f v = false.
Proof.
  intros H. destruct (existsb f v) eqn:E; [|reflexivity].
  apply existsb_exists in E. destruct E as (x & Hx & Hf). rewrite (H x Hx) in Hf. discriminate.
Qed.

Lemma existsb_rev {A} (f : A -> bool) v : existsb f (rev v) = existsb f v.
Proof.
  apply eq_iff_eq_true. rewrite !existsb_exists. split; intros (x & Hx & Hf); exists x; split; auto.
  - apply in_rev. exact Hx.
  - apply in_rev in Hx. exact Hx.
Qed.

Lemma existsb_ext_in {A} (f g : A -> bool) v : (forall x, In x v -> f x = g x) -> existsb f v = existsb g v.
Proof.
  induction v as [|a r IH]; intros H; [reflexivity|]. cbn. rewrite (H a) by (left; reflexivity).
  rewrite IH; [reflexivity|]. intros x Hx. apply H. right. exact Hx.
Qed.

(* last items: the last item of a vector is live, so it is the last live item *)
Lemma last_z_lives_second l : LInv l -> last_z (second l) = olast (lives (second l)).
Proof.
  intros (_ & HL). destruct (list_snoc_cases (second l)) as [->|(v & e & E)]; [reflexivity|].
  rewrite E, last_z_snoc. destruct HL. rewrite lives_snoc_live by eauto. rewrite olast_snoc. reflexivity.
Qed.

Lemma last_z_lives_first l : LInv l -> last_z (first l) = olast (lives (window l)).
Proof.
  intros (HWI & HL). destruct (WInv_elim _ HWI) as (Hf & _ & _).
  destruct (list_snoc_cases (window l)) as [E|(v & e & E)].
  - destruct HL. rewrite Hf, E, (l_pre E). reflexivity.
  - rewrite Hf, E, app_assoc, last_z_snoc. destruct HL. rewrite lives_snoc_live by eauto.
    rewrite olast_snoc. reflexivity.
Qed.

Lemma end_of_first_abs l : LInv l -> end_of (first l) = last_end (lives (window l)).
Proof. intros HI. unfold end_of, last_end. rewrite (last_z_lives_first l HI). reflexivity. Qed.

Lemma end_of_second_abs l : LInv l -> end_of (second l) = last_end (lives (second l)).
Proof. intros HI. unfold end_of, last_end. rewrite (last_z_lives_second l HI). reflexivity. Qed.

Lemma upper_limit_abs l : LInv l -> l_mode l <> MRing -> upper_limit l = top_start (abs l).
Proof.
  intros HI Hm. unfold upper_limit, top_start. cbn [abs sp_sec sp_size].
  rewrite <- (last_z_lives_second l HI). destruct (l_mode l) eqn:E; [|congruence|reflexivity].
  destruct HI as ((_ & HW) & _). destruct HW. rewrite w_mode by assumption. reflexivity.
Qed.

Lemma lives_prefix_window l : WInv l -> lives (first l) = lives (window l).
Proof.
  intros HI. destruct (WInv_elim _ HI) as (Hf & _ & HW). destruct HW.
  rewrite Hf at 1. rewrite lives_app, (lives_all_free _ w_pre). reflexivity.
Qed.

(* ------------------------------------------------------------------ pages *)

Lemma same_page_land g a b :
  pow2 g -> (Z.land a (Z.lnot (g - 1)) =? Z.land b (Z.lnot (g - 1))) = same_page g a b.
Proof.
  intros Hg. pose proof (pow2_pos _ Hg) as Hp. unfold same_page.
  change (Z.land a (Z.lnot (g - 1))) with (align_down a g). change (Z.land b (Z.lnot (g - 1))) with (align_down b g).
  rewrite !align_down_spec by assumption.
  assert (Ha : a - a mod g = g * (a / g)) by (pose proof (Z.div_mod a g ltac:(lia)); lia).
  assert (Hb : b - b mod g = g * (b / g)) by (pose proof (Z.div_mod b g ltac:(lia)); lia).
  rewrite Ha, Hb. apply eq_iff_eq_true. rewrite !Z.eqb_eq. split; [|intros ->; reflexivity].
  intros H. apply Z.mul_reg_l in H; [exact H|lia].
Qed.

Lemma bosp_eq o1 s1 o2 g :
  pow2 g -> o1 + s1 <= o2 -> 1 <= s1 ->
  blocks_on_same_page o1 s1 o2 g = Some (same_page g (o1 + s1 - 1) o2).
Proof.
  intros Hg H1 H2. pose proof (pow2_pos _ Hg). unfold blocks_on_same_page.
  destruct (o1 + s1 >? o2) eqn:E1; [lia|]. destruct (s1 <? 1) eqn:E2; [lia|].
  destruct (g <? 1) eqn:E3; [lia|]. rewrite same_page_land by assumption. reflexivity.
Qed.

Lemma same_page_lt_false g a b : 0 < g -> a / g < b / g -> same_page g a b = false.
Proof. intros Hg H. unfold same_page. lia. Qed.

Lemma div_pred_lt x g : 0 < g -> x mod g = 0 -> (x - 1) / g < x / g.
Proof.
  intros Hg Hm. apply Z.div_lt_upper_bound; [lia|].
  pose proof (Z.div_mod x g ltac:(lia)). lia.
Qed.

(* the free type conflicts with nothing; conflict is symmetric *)
Lemma conflict_0_l b : conflict 0 b = false.
Proof.
  unfold conflict. destruct (Z.min_spec 0 b) as [(H & ->)|(H & ->)]; [reflexivity|].
  destruct (b =? 0) eqn:E0; [reflexivity|]. destruct (b =? 1) eqn:E1; [lia|].
  destruct (b =? 2) eqn:E2; [lia|]. destruct (b =? 3) eqn:E3; [lia|]. destruct (b =? 4) eqn:E4; [lia|reflexivity].
Qed.

Lemma conflict_sym a b : conflict a b = conflict b a.
Proof. unfold conflict. rewrite (Z.min_comm a b), (Z.max_comm a b). reflexivity. Qed.

Lemma ac_sym h a b : allocations_conflict h a b = allocations_conflict h b a.
Proof. unfold allocations_conflict. destruct (g_h h); [reflexivity|apply conflict_sym]. Qed.

Lemma ac_0_l h b : allocations_conflict h 0 b = false.
Proof. unfold allocations_conflict. destruct (g_h h); [reflexivity|apply conflict_0_l]. Qed.

Lemma ac_0_r h a : allocations_conflict h a 0 = false.
Proof. rewrite ac_sym. apply ac_0_l. Qed.

(* ------------------------------------------------------------------ the page scans see only the live items *)

Lemma free_type0 s : is_free s = true -> s_type s = 0.
Proof. unfold is_free. lia. Qed.

Lemma scan_prev_lives v : forall lo ro g cf,
  pow2 g -> cf 0 = false -> pos_sizes v -> chain_from lo v -> chain_end lo v <= ro ->
  scan_prev (rev v) ro g cf =
  Some (existsb (fun s => same_page g (send s - 1) ro && cf (s_type s)) (lives v)).
Proof.
  induction v as [|s v0 IH] using rev_ind; intros lo ro g cf Hg Hcf Hp Hc He; [reflexivity|].
  pose proof (pow2_pos _ Hg) as Hgp.
  apply pos_sizes_app in Hp. destruct Hp as (Hp0 & Hps). apply pos_sizes_cons in Hps. destruct Hps as (Hs & _).
  apply chain_from_app in Hc. destruct Hc as (Hc0 & Hcs). cbn in Hcs. destruct Hcs as (Hlo & _).
  rewrite chain_end_app in He. cbn in He.
  rewrite rev_app_distr. cbn [rev app scan_prev].
  rewrite bosp_eq by (auto; lia). fold (send s).
  destruct (same_page g (send s - 1) ro) eqn:Hsp.
  - destruct (cf (s_type s)) eqn:Hcs.
    + f_equal. symmetry. apply existsb_exists. exists s. split; [|rewrite Hsp, Hcs; reflexivity].
      apply in_lives; [apply in_or_app; right; left; reflexivity|].
      destruct (is_free s) eqn:Ef; [|reflexivity]. rewrite (free_type0 _ Ef), Hcf in Hcs. discriminate.
    + rewrite (IH lo ro g cf Hg Hcf Hp0 Hc0 ltac:(lia)). f_equal.
      rewrite lives_app, existsb_app. replace (existsb _ (lives [s])) with false; [rewrite orb_false_r; reflexivity|].
      symmetry. apply existsb_false. intros x Hx. apply lives_is_live in Hx. destruct Hx as ([<-|[]] & _).
      rewrite Hcs. apply andb_false_r.
  - f_equal. symmetry. apply existsb_false. intros t Ht. apply lives_is_live in Ht. destruct Ht as (Ht & _).
    apply andb_false_iff. left. apply same_page_lt_false; [assumption|].
    assert (Hts : send t <= send s).
    { apply in_app_or in Ht. destruct Ht as [Ht|[<-|[]]]; [|lia].
      pose proof (chain_in_bounds _ _ _ Hp0 Hc0 Ht). unfold send. lia. }
    assert (H1 : (send t - 1) / g <= (send s - 1) / g) by (apply Z.div_le_mono; lia).
    assert (H2 : (send s - 1) / g <= ro / g) by (apply Z.div_le_mono; unfold send; lia).
    unfold same_page in Hsp. lia.
Qed.

Lemma scan_next_lives v : forall lo ro sz g cf,
  pow2 g -> cf 0 = false -> 1 <= sz -> pos_sizes v -> chain_from lo v -> ro + sz <= lo ->
  scan_next v ro sz g cf =
  Some (existsb (fun s => same_page g (ro + sz - 1) (s_off s) && cf (s_type s)) (lives v)).
Proof.
  induction v as [|s r IH]; intros lo ro sz g cf Hg Hcf Hsz Hp Hc Hlo; [reflexivity|].
  pose proof (pow2_pos _ Hg) as Hgp.
  apply pos_sizes_cons in Hp. destruct Hp as (Hs & Hp). cbn in Hc. destruct Hc as (Hlos & Hc).
  cbn [scan_next]. rewrite bosp_eq by (auto; lia).
  destruct (same_page g (ro + sz - 1) (s_off s)) eqn:Hsp.
  - destruct (cf (s_type s)) eqn:Hcs.
    + f_equal. symmetry. apply existsb_exists. exists s. split; [|rewrite Hsp, Hcs; reflexivity].
      apply in_lives; [left; reflexivity|].
      destruct (is_free s) eqn:Ef; [|reflexivity]. rewrite (free_type0 _ Ef), Hcf in Hcs. discriminate.
    + rewrite (IH (s_off s + s_size s) ro sz g cf Hg Hcf Hsz Hp Hc ltac:(lia)). f_equal.
      destruct (is_free s) eqn:Ef.
      * rewrite lives_cons_free by assumption. reflexivity.
      * rewrite lives_cons_live by assumption. cbn [existsb]. rewrite Hsp, Hcs. reflexivity.
  - f_equal. symmetry. apply existsb_false. intros t Ht. apply lives_is_live in Ht. destruct Ht as (Ht & _).
    apply andb_false_iff. left. apply same_page_lt_false; [assumption|].
    assert (Hts : s_off s <= s_off t).
    { destruct Ht as [<-|Ht]; [lia|]. pose proof (chain_in_bounds _ _ _ Hp Hc Ht). lia. }
    assert (H1 : s_off s / g <= s_off t / g) by (apply Z.div_le_mono; lia).
    assert (H2 : (ro + sz - 1) / g <= s_off s / g) by (apply Z.div_le_mono; lia).
    unfold same_page in Hsp. lia.
Qed.

(* when the code skips a scan, the reference model's condition is false anyway *)
Lemma prev_conflict_g1 h v cand atype :
  (forall s, In s v -> send s <= cand) -> prev_conflict h 1 v cand atype = false.
Proof.
  intros H. apply existsb_false. intros s Hs. apply andb_false_iff. left.
  unfold same_page. rewrite !Z.div_1_r. specialize (H s Hs). lia.
Qed.

Lemma next_conflict_g1 h v cand size atype :
  (forall s, In s v -> cand + size <= s_off s) -> next_conflict h 1 v cand size atype = false.
Proof.
  intros H. apply existsb_false. intros s Hs. apply andb_false_iff. left.
  unfold same_page. rewrite !Z.div_1_r. specialize (H s Hs). lia.
Qed.

Lemma next_conflict_aligned h g v cand size atype :
  0 < g -> (cand + size) mod g = 0 -> (forall s, In s v -> cand + size <= s_off s) ->
  next_conflict h g v cand size atype = false.
Proof.
  intros Hg Hm H. apply existsb_false. intros s Hs. apply andb_false_iff. left.
  apply same_page_lt_false; [assumption|]. specialize (H s Hs).
  pose proof (div_pred_lt (cand + size) g Hg Hm).
  assert ((cand + size) / g <= s_off s / g) by (apply Z.div_le_mono; lia).
  replace (cand + size - 1) with (cand + size - 1) by lia. lia.
Qed.

(* ------------------------------------------------------------------ CreateAllocationRequest = spec_request *)

Definition rtype_of (p : place) : reqtype :=
  match p with PLower => RTEndOf1st | PWrap => RTEndOf2nd | PUpper => RTUpperAddress end.

Definition to_q (size : Z) (r : sres) : reqres :=
  match r with
  | SGrant off p => QGranted (mkReq (off + 1) size (rtype_of p))
  | SRefused => QRefused
  | SError => QError
  end.

Lemma chain_from_head lo s r : chain_from lo (s :: r) -> chain_from (s_off s) (s :: r).
Proof. cbn. intros (_ & H). split; [lia|exact H]. Qed.

Lemma lives_below lo v e : pos_sizes v -> chain_from lo v -> chain_end lo v <= e ->
  forall s, In s (lives v) -> send s <= e.
Proof.
  intros Hp Hc He s Hs. apply lives_is_live in Hs. destruct Hs as (Hs & _).
  pose proof (chain_in_bounds _ _ _ Hp Hc Hs). unfold send. lia.
Qed.

Lemma lafp_eq l v lo ro align atype :
  pow2 (l_gran l) -> pow2 align -> ro mod align = 0 ->
  pos_sizes v -> chain_from lo v -> chain_end lo v <= ro ->
  lower_align_for_prev l v ro align atype = Some (bump (l_h l) (l_gran l) (lives v) ro atype).
Proof.
  intros Hg Ha Hm Hp Hc He. unfold lower_align_for_prev.
  destruct ((l_gran l >? 1) && negb (l_gran l =? align) && (zlen v >? 0)) eqn:Hguard.
  - rewrite (scan_prev_lives v lo ro (l_gran l) (fun ty => allocations_conflict (l_h l) ty atype) Hg
               (ac_0_l _ _) Hp Hc He).
    unfold bump, prev_conflict, conflicts. cbv beta. destruct (existsb _ (lives v)); reflexivity.
  - f_equal. unfold bump. destruct (prev_conflict (l_h l) (l_gran l) (lives v) ro atype) eqn:Hpc; [|reflexivity].
    symmetry. apply andb_false_iff in Hguard. destruct Hguard as [Hguard|Hz].
    + apply andb_false_iff in Hguard. destruct Hguard as [Hg1|Hga].
      * assert (l_gran l = 1) by (apply pow2_pos in Hg; lia).
        rewrite H. apply align_up_id; [apply pow2_1|apply Z.mod_1_r].
      * assert (l_gran l = align) by lia. rewrite H. apply align_up_id; assumption.
    + assert (v = []) by (apply zlen_zero; pose proof (zlen_nonneg v); lia). subst v. discriminate.
Qed.

Lemma existsb_conflict_sym h g v c sz atype :
  existsb (fun s => same_page g (c + sz - 1) (s_off s) && allocations_conflict h atype (s_type s)) v =
  next_conflict h g v c sz atype.
Proof.
  unfold next_conflict, conflicts. apply existsb_ext_in. intros x _. rewrite ac_sym. reflexivity.
Qed.

Lemma existsb_prev_sym h g v c atype :
  existsb (fun s => same_page g (send s - 1) c && allocations_conflict h atype (s_type s)) v =
  prev_conflict h g v c atype.
Proof.
  unfold prev_conflict, conflicts. apply existsb_ext_in. intros x _. rewrite ac_sym. reflexivity.
Qed.

Lemma first_chain l : WInv l -> pos_sizes (first l) /\ chain_from 0 (first l) /\ chain_end 0 (first l) = end_of (first l).
Proof.
  intros HI. destruct (WInv_elim _ HI) as (Hf & _ & HW). destruct HW. rewrite <- Hf in *.
  split; [apply item_ok_pos; assumption|]. split; [apply w_first|apply end_of_chain0].
Qed.

Lemma lower_end_of_first_eq l size align atype :
  LInv l -> pow2 align -> 1 <= size -> l_mode l <> MRing ->
  lower_end_of_first l size align atype =
  let sp := abs l in
  let cand := bump (sp_h sp) (sp_gran sp) (sp_lo sp) (align_up (last_end (sp_lo sp)) align) atype in
  if cand + size <=? top_start sp then
    if next_conflict (sp_h sp) (sp_gran sp) (sp_sec sp) cand size atype then LRefused
    else LGranted (mkReq (cand + 1) size RTEndOf1st)
  else LFallthrough.
Proof.
  intros HI Ha Hsz Hm. pose proof HI as (HWI & HL).
  destruct (WInv_elim _ HWI) as (Hf & Hn & HW). pose proof (w_gran _ _ _ _ _ _ _ _ _ HW) as Hg.
  pose proof (pow2_pos _ Hg) as Hgp.
  destruct (first_chain l HWI) as (Hpf & Hcf & Hef). destruct (first_facts _ HWI) as (_ & He0 & _).
  pose proof (align_up_bounds (end_of (first l)) align Ha) as ((Hlo & _) & Hmod).
  unfold lower_end_of_first.
  rewrite (lafp_eq l (first l) 0 _ align atype Hg Ha Hmod Hpf Hcf ltac:(lia)).
  fold (upper_limit l). rewrite (upper_limit_abs l HI Hm), (lives_prefix_window l HWI), (end_of_first_abs l HI).
  cbn [abs sp_h sp_gran sp_lo sp_sec]. cbv zeta.
  set (cand := bump (l_h l) (l_gran l) (lives (window l)) (align_up (last_end (lives (window l))) align) atype).
  assert (Hcand : end_of (first l) <= cand).
  { rewrite (end_of_first_abs l HI) in *.
    pose proof (bump_spec (l_h l) (l_gran l) (lives (window l)) _ atype align Hg Ha Hmod). fold cand in H. lia. }
  destruct (cand + size <=? top_start (abs l)) eqn:Hfit; [|reflexivity].
  destruct (l_gran l =? 0) eqn:Hg0; [lia|].
  destruct (((Z.rem size (l_gran l) >? 0) || (Z.rem cand (l_gran l) >? 0)) && mode_eqb (l_mode l) MDouble) eqn:Hchk.
  - assert (Hmd : l_mode l = MDouble).
    { apply andb_true_iff in Hchk. destruct Hchk as (_ & Hchk). destruct (l_mode l); try discriminate; reflexivity. }
    destruct (double_facts _ HI Hmd) as (sv0 & s & Hsv & Hall & Hes & Hsl).
    assert (Hts : top_start (abs l) = s_off s).
    { unfold top_start. cbn [abs sp_sec sp_size]. rewrite <- (last_z_lives_second l HI), Hsv, last_z_snoc. reflexivity. }
    assert (Hcs : chain_from (s_off s) (rev (second l)) /\ pos_sizes (rev (second l))).
    { pose proof (order_pos _ _ _ _ _ _ _ _ _ HW) as Hpo. destruct HW. rewrite Hmd in *. cbn [order] in *.
      destruct w_order as (Hc & _). apply chain_from_app in Hc. destruct Hc as (_ & Hc).
      apply pos_sizes_app in Hpo. destruct Hpo as (_ & Hpo). split; [|exact Hpo].
      rewrite Hsv, rev_app_distr in *. cbn [rev app] in *. eapply chain_from_head. exact Hc. }
    destruct Hcs as (Hcs & Hps).
    rewrite (scan_next_lives (rev (second l)) (s_off s) cand size (l_gran l)
               (fun ty => allocations_conflict (l_h l) atype ty) Hg (ac_0_r _ _) Hsz Hps Hcs ltac:(lia)).
    cbv beta. rewrite lives_rev, existsb_rev, existsb_conflict_sym.
    destruct (next_conflict _ _ _ _ _ _); reflexivity.
  - replace (next_conflict (l_h l) (l_gran l) (lives (second l)) cand size atype) with false; [reflexivity|].
    symmetry. apply andb_false_iff in Hchk. destruct Hchk as [Hrem|Hmode].
    + destruct (l_mode l) eqn:Hmd; [| congruence |].
      * destruct HW. rewrite w_mode by reflexivity. reflexivity.
      * destruct (double_facts _ HI Hmd) as (sv0 & s & Hsv & Hall & Hes & Hsl).
        assert (Hts : top_start (abs l) = s_off s).
        { unfold top_start. cbn [abs sp_sec sp_size]. rewrite <- (last_z_lives_second l HI), Hsv, last_z_snoc. reflexivity. }
        apply next_conflict_aligned; [assumption| |].
        -- apply orb_false_iff in Hrem. destruct Hrem as (H1 & H2).
           rewrite Z.rem_mod_nonneg in H1, H2 by lia.
           rewrite Z.add_mod by lia.
           assert (E1 : size mod l_gran l = 0) by (pose proof (Z.mod_pos_bound size (l_gran l) Hgp); lia).
           assert (E2 : cand mod l_gran l = 0) by (pose proof (Z.mod_pos_bound cand (l_gran l) Hgp); lia).
           rewrite E1, E2. reflexivity.
        -- intros x Hx. apply lives_is_live in Hx. destruct Hx as (Hx & _).
           eapply Forall_forall in Hall; [|exact Hx]. cbn in Hall. lia.
    + assert (Hme : l_mode l = MEmpty) by (destruct (l_mode l); try discriminate; congruence).
      destruct HW. rewrite w_mode by assumption. reflexivity.
Qed.

Lemma lower_end_of_second_eq l size align atype :
  LInv l -> pow2 align -> 1 <= size -> l_mode l <> MDouble ->
  lower_end_of_second l size align atype = to_q size (spec_wrap (abs l) size align atype).
Proof.
  intros HI Ha Hsz Hm. pose proof HI as (HWI & HL).
  destruct (WInv_elim _ HWI) as (Hf & Hn & HW). pose proof (w_gran _ _ _ _ _ _ _ _ _ HW) as Hg.
  unfold lower_end_of_second, spec_wrap. cbn [abs sp_h sp_gran sp_lo sp_sec].
  destruct (zlen (first l) =? 0) eqn:Hz.
  { assert (first l = []) by (apply zlen_zero; lia).
    rewrite H in Hf. symmetry in Hf. apply app_eq_nil in Hf. destruct Hf as (_ & ->). reflexivity. }
  assert (Hne : first l <> []) by (intros E; rewrite E in Hz; discriminate).
  destruct (window_facts _ HI Hne) as (w & ws & Hw & Hnth & Hsuf & Hall & Hlive & Hnb).
  rewrite Hw, lives_cons_live by assumption.
  destruct (lower_second_facts _ HWI Hm) as (Hbelow & He & Hbw). specialize (Hbw _ _ Hw).
  assert (Hsvc : pos_sizes (second l) /\ chain_from 0 (second l) /\ chain_end 0 (second l) = end_of (second l) /\
                 pos_sizes (w :: ws) /\ chain_from (s_off w) (w :: ws)).
  { pose proof (order_pos _ _ _ _ _ _ _ _ _ HW) as Hpo. destruct HW.
    assert (Ho : order (l_mode l) (window l) (second l) = second l ++ window l)
      by (unfold order; destruct (l_mode l) eqn:E; try reflexivity; congruence).
    rewrite Ho, Hw in *. apply pos_sizes_app in Hpo. destruct Hpo as (Hps & Hpw).
    destruct w_order as (Hc & _). apply chain_from_app in Hc. destruct Hc as (Hc1 & Hc2).
    split; [exact Hps|]. split; [exact Hc1|]. split; [apply end_of_chain0|]. split; [exact Hpw|].
    eapply chain_from_head. exact Hc2. }
  destruct Hsvc as (Hps & Hcs & Hes & Hpw & Hcw).
  pose proof (align_up_bounds (end_of (second l)) align Ha) as ((Hlo & _) & Hmod).
  rewrite (lafp_eq l (second l) 0 _ align atype Hg Ha Hmod Hps Hcs ltac:(lia)).
  rewrite (end_of_second_abs l HI).
  set (cand := bump (l_h l) (l_gran l) (lives (second l)) (align_up (last_end (lives (second l))) align) atype).
  destruct (l_null_begin l =? zlen (first l)) eqn:E1; [lia|].
  destruct (l_null_begin l <? zlen (first l)) eqn:E2; [|lia].
  rewrite Hnth. destruct (cand + size <=? s_off w) eqn:Hfit; [|reflexivity].
  rewrite Hsuf.
  rewrite (scan_next_lives (w :: ws) (s_off w) cand size (l_gran l)
             (fun ty => allocations_conflict (l_h l) atype ty) Hg (ac_0_r _ _) Hsz Hpw Hcw ltac:(lia)).
  cbv beta. rewrite existsb_conflict_sym, lives_cons_live by assumption. cbn [andb].
  destruct (next_conflict _ _ _ _ _ _); reflexivity.
Qed.

Lemma populate_lower_eq l size align atype :
  LInv l -> pow2 align -> 1 <= size ->
  populate_lower l size align atype = to_q size (spec_lower (abs l) size align atype).
Proof.
  intros HI Ha Hsz. unfold populate_lower, spec_lower. cbn [abs sp_mode].
  destruct (l_mode l) eqn:Hm.
  - rewrite (lower_end_of_first_eq l size align atype HI Ha Hsz ltac:(congruence)). cbv zeta.
    fold (abs l).
    destruct (_ <=? top_start (abs l)).
    + destruct (next_conflict _ _ _ _ _ _); reflexivity.
    + rewrite (lower_end_of_second_eq l size align atype HI Ha Hsz ltac:(congruence)).
      destruct HI as ((_ & HW) & _). destruct HW. cbn [abs sp_sec]. rewrite w_mode by assumption. reflexivity.
  - apply lower_end_of_second_eq; auto. congruence.
  - rewrite (lower_end_of_first_eq l size align atype HI Ha Hsz ltac:(congruence)). cbv zeta.
    fold (abs l).
    destruct (_ <=? top_start (abs l)).
    + destruct (next_conflict _ _ _ _ _ _); reflexivity.
    + destruct (double_facts _ HI Hm) as (sv0 & s & Hsv & _). cbn [abs sp_sec].
      destruct HI as (_ & HL). destruct HL. rewrite Hsv, lives_snoc_live by eauto.
      destruct (lives sv0); reflexivity.
Qed.

Lemma spec_upper_nonring sp size align atype :
  sp_mode sp <> MRing ->
  spec_upper sp size align atype =
  if (size >? sp_size sp) || (size >? top_start sp) then SRefused else
  let g := sp_gran sp in
  let cand0 := align_down (top_start sp - size) align in
  let cand :=
    if next_conflict (sp_h sp) g (sp_sec sp) cand0 size atype
    then align_down (align_down (align_down (cand0 + size - 1) g - size) g) align
    else cand0 in
  if last_end (sp_lo sp) >? cand then SRefused else
  if prev_conflict (sp_h sp) g (sp_lo sp) cand atype then SRefused else
  SGrant cand PUpper.
Proof. intros Hm. unfold spec_upper. destruct (sp_mode sp); try reflexivity. congruence. Qed.

(* the top of the upper stack *)
Lemma top_facts l :
  LInv l -> l_mode l <> MRing ->
  match last_z (second l) with
  | Some s => Forall (fun x => s_off s <= s_off x) (second l) /\ top_start (abs l) = s_off s /\
              chain_from (s_off s) (rev (second l))
  | None => second l = [] /\ top_start (abs l) = l_size l
  end.
Proof.
  intros HI Hm. pose proof HI as (HWI & HL). destruct (WInv_elim _ HWI) as (Hf & Hn & HW).
  destruct (last_z (second l)) as [s|] eqn:Hlast.
  - assert (Hmd : l_mode l = MDouble).
    { destruct (l_mode l) eqn:Hmm; try congruence. destruct HW. rewrite w_mode in Hlast by reflexivity. discriminate. }
    destruct (double_facts _ HI Hmd) as (sv0 & s' & Hsv & Hall & _).
    rewrite Hsv, last_z_snoc in Hlast. injection Hlast as ->.
    split; [exact Hall|]. split.
    + unfold top_start. cbn [abs sp_sec sp_size]. rewrite <- (last_z_lives_second l HI), Hsv, last_z_snoc. reflexivity.
    + destruct HW. rewrite Hmd in *. cbn [order] in *. destruct w_order as (Hc & _).
      apply chain_from_app in Hc. destruct Hc as (_ & Hc).
      rewrite Hsv, rev_app_distr in *. cbn [rev app] in *. eapply chain_from_head. exact Hc.
  - apply last_z_none in Hlast. split; [exact Hlast|].
    unfold top_start. cbn [abs sp_sec sp_size]. rewrite Hlast. reflexivity.
Qed.

Lemma upper_next_eq l c0 size align atype :
  LInv l -> l_mode l <> MRing -> 1 <= size -> c0 + size <= top_start (abs l) ->
  upper_align_for_next l c0 size align atype =
  Some (if next_conflict (l_h l) (l_gran l) (lives (second l)) c0 size atype
        then align_down (align_down (align_down (c0 + size - 1) (l_gran l) - size) (l_gran l)) align
        else c0).
Proof.
  intros HI Hm Hsz Hfit. pose proof HI as (HWI & HL). destruct (WInv_elim _ HWI) as (Hf & Hn & HW).
  pose proof (w_gran _ _ _ _ _ _ _ _ _ HW) as Hg. pose proof (pow2_pos _ Hg) as Hgp.
  pose proof (top_facts l HI Hm) as Htop. unfold upper_align_for_next.
  destruct (last_z (second l)) as [s|] eqn:Hlast.
  - destruct Htop as (Hall & Hts & Hcs).
    assert (Hps : pos_sizes (rev (second l))).
    { apply Forall_rev. apply item_ok_pos. destruct HW. assumption. }
    destruct ((l_gran l >? 1) && (zlen (second l) >? 0)) eqn:Hguard.
    + rewrite (scan_next_lives (rev (second l)) (s_off s) c0 size (l_gran l)
                 (fun ty => allocations_conflict (l_h l) ty atype) Hg (ac_0_l _ _) Hsz Hps Hcs ltac:(lia)).
      cbv beta. rewrite lives_rev, existsb_rev. unfold next_conflict, conflicts.
      destruct (existsb _ (lives (second l))); reflexivity.
    + replace (next_conflict (l_h l) (l_gran l) (lives (second l)) c0 size atype) with false; [reflexivity|].
      symmetry. apply andb_false_iff in Hguard. destruct Hguard as [Hg1|Hz].
      * assert (E : l_gran l = 1) by lia. rewrite E. apply next_conflict_g1.
        intros x Hx. apply lives_is_live in Hx. destruct Hx as (Hx & _).
        eapply Forall_forall in Hall; [|exact Hx]. cbn in Hall. lia.
      * assert (E : second l = []) by (apply zlen_zero; pose proof (zlen_nonneg (second l)); lia).
        rewrite E. reflexivity.
  - destruct Htop as (Hsv & _). rewrite Hsv. cbn [zlen length Z.of_nat]. rewrite andb_false_r. reflexivity.
Qed.

Lemma upper_prev_eq l cand size atype :
  LInv l -> last_end (lives (window l)) <= cand ->
  (if l_gran l >? 1
   then match scan_prev (rev (first l)) cand (l_gran l) (fun ty => allocations_conflict (l_h l) atype ty) with
        | Some true => QRefused
        | Some false => QGranted (mkReq (cand + 1) size RTUpperAddress)
        | None => QPanic
        end
   else QGranted (mkReq (cand + 1) size RTUpperAddress)) =
  (if prev_conflict (l_h l) (l_gran l) (lives (window l)) cand atype then QRefused
   else QGranted (mkReq (cand + 1) size RTUpperAddress)).
Proof.
  intros HI Hle. pose proof HI as (HWI & HL). destruct (WInv_elim _ HWI) as (Hf & Hn & HW).
  pose proof (w_gran _ _ _ _ _ _ _ _ _ HW) as Hg. pose proof (pow2_pos _ Hg) as Hgp.
  destruct (first_chain l HWI) as (Hpf & Hcf & Hef). rewrite (end_of_first_abs l HI) in Hef.
  destruct (l_gran l >? 1) eqn:Hg1.
  - rewrite (scan_prev_lives (first l) 0 cand (l_gran l) (fun ty => allocations_conflict (l_h l) atype ty)
               Hg (ac_0_r _ _) Hpf Hcf ltac:(lia)).
    cbv beta. rewrite existsb_prev_sym, (lives_prefix_window l HWI).
    destruct (prev_conflict _ _ _ _ _); reflexivity.
  - assert (E : l_gran l = 1) by lia. rewrite E, prev_conflict_g1; [reflexivity|].
    rewrite <- (lives_prefix_window l HWI). apply (lives_below 0 (first l) cand); auto. lia.
Qed.

Lemma populate_upper_eq l size align atype :
  LInv l -> pow2 align -> 1 <= size ->
  populate_upper l size align atype = to_q size (spec_upper (abs l) size align atype).
Proof.
  intros HI Ha Hsz. unfold populate_upper.
  destruct (mode_eqb (l_mode l) MRing) eqn:Hmr.
  { assert (E : l_mode l = MRing) by (destruct (l_mode l); try discriminate; reflexivity).
    unfold spec_upper. cbn [abs sp_mode]. rewrite E. reflexivity. }
  assert (Hm : l_mode l <> MRing) by (intros E; rewrite E in Hmr; discriminate).
  rewrite (spec_upper_nonring (abs l) size align atype Hm). cbn [abs sp_size sp_gran sp_h sp_lo sp_sec]. fold (abs l).
  destruct (size >? l_size l) eqn:Hbig; cbn [orb]; [reflexivity|].
  pose proof (top_facts l HI Hm) as Htop.
  (* the base offset *)
  assert (Hb : match (match last_z (second l) with
                      | None => Some (l_size l - size)
                      | Some s => if size >? s_off s then None else Some (s_off s - size)
                      end) with
               | None => (size >? top_start (abs l)) = true
               | Some base => (size >? top_start (abs l)) = false /\ base = top_start (abs l) - size
               end).
  { destruct (last_z (second l)) as [s|].
    - destruct Htop as (_ & -> & _). destruct (size >? s_off s) eqn:E; auto.
    - destruct Htop as (_ & ->). rewrite Hbig. auto. }
  destruct (match last_z (second l) with
            | None => Some (l_size l - size)
            | Some s => if size >? s_off s then None else Some (s_off s - size)
            end) as [base|]; [|rewrite Hb; reflexivity].
  destruct Hb as (-> & ->). cbv zeta.
  set (c0 := align_down (top_start (abs l) - size) align).
  pose proof (align_down_bounds (top_start (abs l) - size) align Ha) as ((_ & Hdn) & _). fold c0 in Hdn.
  rewrite (upper_next_eq l c0 size align atype HI Hm Hsz ltac:(lia)).
  set (cand := if next_conflict (l_h l) (l_gran l) (lives (second l)) c0 size atype then _ else c0).
  rewrite (end_of_first_abs l HI).
  destruct (last_end (lives (window l)) >? cand) eqn:Hcol; [reflexivity|].
  rewrite (upper_prev_eq l cand size atype HI ltac:(lia)).
  destruct (prev_conflict _ _ _ _ _); reflexivity.
Qed.

Theorem create_request_refines l size align upper atype strategy maxOffset :
  LInv l -> pow2 align ->
  create_request l size align upper atype strategy maxOffset =
  to_q size (spec_request (abs l) size align upper atype).
Proof.
  intros HI Ha. unfold create_request, spec_request.
  destruct (size <=? 0) eqn:Hs; [reflexivity|]. destruct (atype =? 0); [reflexivity|].
  destruct upper; [apply populate_upper_eq|apply populate_lower_eq]; auto; lia.
Qed.

(* ------------------------------------------------------------------ Alloc = spec_place *)

Lemma abs_eq l sp :
  l_size l = sp_size sp -> l_gran l = sp_gran sp -> l_h l = sp_h sp ->
  lives (window l) = sp_lo sp -> lives (second l) = sp_sec sp -> l_mode l = sp_mode sp -> abs l = sp.
Proof. intros. destruct sp. unfold abs. cbn in *. congruence. Qed.

Lemma window_of l pre win : first l = pre ++ win -> zlen pre = l_null_begin l -> window l = win.
Proof. intros Hf Hn. apply (split_first _ _ _ Hf Hn). Qed.

Lemma mk_item_new off size tag atype align : mk_item off size tag atype align = new_item off size tag atype align.
Proof. reflexivity. Qed.

Theorem alloc_refines l size align off p atype tag :
  LInv l -> req_ok l size align (mkReq (off + 1) size (rtype_of p)) -> atype <> 0 -> 0 < align ->
  exists l', alloc l (mkReq (off + 1) size (rtype_of p)) atype tag size align = AOk l' /\
             abs l' = spec_place (abs l) p (mk_item off size tag atype align).
Proof.
  intros HI Hreq Hat Hal. pose proof HI as (HWI & HL). destruct (WInv_elim _ HWI) as (Hf & Hn & HW).
  destruct (alloc_spec l size align _ atype tag HI Hreq Hat Hal) as (l' & Halloc & _).
  exists l'. split; [exact Halloc|].
  unfold alloc in Halloc. cbn [rq_handle rq_size rq_type] in Halloc.
  replace (off + 1 - 1) with off in Halloc by lia. fold (mk_item off size tag atype align) in Halloc.
  set (x := mk_item off size tag atype align) in *.
  assert (Hxl : is_free x = false) by (apply item_live_not_free; exact Hat).
  destruct p; cbn [rtype_of] in Halloc.
  - (* end of first *)
    unfold alloc_end_of_first in Halloc.
    destruct (match last_z (first l) with Some s => s_off x <? s_off s + s_size s | None => false end); [discriminate|].
    destruct (s_off x + s_size x >? l_size l); [discriminate|]. injection Halloc as <-.
    match goal with |- abs ?L = _ => set (l' := L) end.
    assert (Hw : window l' = window l ++ [x]).
    { apply (window_of _ (prefix l)); unfold l'; lsimp; auto. rewrite Hf at 1. rewrite app_assoc. reflexivity. }
    apply abs_eq; cbn [spec_place abs sp_size sp_gran sp_h sp_lo sp_sec sp_mode];
      try (unfold l'; lsimp; reflexivity).
    rewrite Hw, lives_snoc_live by assumption. reflexivity.
  - (* wrap: end of second *)
    unfold alloc_end_of_second in Halloc.
    destruct (zlen (first l) =? 0); [discriminate|].
    destruct (nth_z (first l) (l_null_begin l)); [|discriminate].
    destruct (s_off x + s_size x >? s_off s); [discriminate|].
    destruct (l_mode l) eqn:Hm; [| |discriminate].
    + destruct (zlen (second l) >? 0); [discriminate|]. injection Halloc as <-.
      match goal with |- abs ?L = _ => set (l' := L) end.
      assert (Hw : window l' = window l) by (apply (window_of _ (prefix l)); unfold l'; lsimp; auto).
      apply abs_eq; cbn [spec_place abs sp_size sp_gran sp_h sp_lo sp_sec sp_mode];
        try (unfold l'; lsimp; reflexivity).
      * rewrite Hw. reflexivity.
      * unfold l'; lsimp. rewrite lives_snoc_live by assumption. reflexivity.
    + destruct (zlen (second l) =? 0); [discriminate|]. injection Halloc as <-.
      match goal with |- abs ?L = _ => set (l' := L) end.
      assert (Hw : window l' = window l) by (apply (window_of _ (prefix l)); unfold l'; lsimp; auto).
      apply abs_eq; cbn [spec_place abs sp_size sp_gran sp_h sp_lo sp_sec sp_mode];
        try (unfold l'; lsimp; auto; fail).
      * rewrite Hw. reflexivity.
      * unfold l'; lsimp. rewrite lives_snoc_live by assumption. reflexivity.
  - (* upper *)
    unfold alloc_upper in Halloc. destruct (mode_eqb (l_mode l) MRing); [discriminate|]. injection Halloc as <-.
    match goal with |- abs ?L = _ => set (l' := L) end.
    assert (Hw : window l' = window l) by (apply (window_of _ (prefix l)); unfold l'; lsimp; auto).
    apply abs_eq; cbn [spec_place abs sp_size sp_gran sp_h sp_lo sp_sec sp_mode];
      try (unfold l'; lsimp; reflexivity).
    + rewrite Hw. reflexivity.
    + unfold l'; lsimp. rewrite lives_snoc_live by assumption. reflexivity.
Qed.

(* ------------------------------------------------------------------ cleanupAfterFree = spec_norm *)

Lemma T_second_nil win sv : T win sv -> lives sv = [] -> sv = [].
Proof.
  intros HT Hl. destruct (list_snoc_cases sv) as [E|(v & e & E)]; [exact E|].
  pose proof (t_lasts _ _ HT _ _ E) as He. rewrite E, lives_snoc_live in Hl by assumption.
  destruct (lives v); discriminate.
Qed.

Lemma T_window_nil win sv : T win sv -> lives win = [] -> win = [].
Proof.
  intros HT Hl. destruct win as [|w ws]; [reflexivity|].
  pose proof (t_head _ _ HT _ _ eq_refl) as Hw. rewrite lives_cons_live in Hl by assumption. discriminate.
Qed.

Definition spec_of (l : linear) (lo sec : list sub) (m : mode) : spec :=
  mkSpec (l_size l) (l_gran l) (l_h l) lo sec m.

Lemma finish_abs l pre win l' :
  first l = pre ++ win -> zlen pre = l_null_begin l -> T win (second l) ->
  first_became_empty (if zlen (second l) =? 0 then with_mode l MEmpty else l) = Some l' ->
  abs l' = spec_norm (spec_of l (lives win) (lives (second l)) (l_mode l)).
Proof.
  intros Hf Hn HT Hfin. unfold spec_norm, spec_of. cbn [sp_size sp_gran sp_h sp_lo sp_sec sp_mode].
  pose proof (zlen_nonneg pre) as Hzp. pose proof (zlen_nonneg win) as Hzw.
  unfold first_became_empty in Hfin.
  destruct (zlen (second l) =? 0) eqn:Hz.
  - (* second vector empty *)
    assert (Hsv : second l = []) by (apply zlen_zero; lia). rewrite Hsv. cbn [lives filter].
    lsimp_in Hfin. rewrite Hf, zlen_app, <- Hn in Hfin.
    destruct (zlen pre + zlen win - zlen pre =? 0) eqn:Hwe.
    + assert (win = []) by (apply zlen_zero; lia). subst win.
      unfold swap_if_ring in Hfin. lsimp_in Hfin. rewrite Hsv in Hfin. cbn [zlen length Z.of_nat Z.gtb Z.compare andb] in Hfin.
      injection Hfin as <-. cbn [lives filter].
      apply abs_eq; cbn [sp_size sp_gran sp_h sp_lo sp_sec sp_mode]; lsimp; rewrite ?Hsv; auto.
      erewrite (window_of _ [] []); lsimp; reflexivity.
    + injection Hfin as <-.
      assert (Hw : window (with_mode l MEmpty) = win) by (apply (window_of _ pre); lsimp; auto).
      replace (match lives win with [] => _ | _ :: _ => _ end)
        with (mkSpec (l_size l) (l_gran l) (l_h l) (lives win) [] MEmpty) by (destruct (lives win); reflexivity).
      apply abs_eq; cbn [sp_size sp_gran sp_h sp_lo sp_sec sp_mode]; lsimp; auto.
      * rewrite Hw. reflexivity.
      * rewrite Hsv. reflexivity.
  - (* second vector not empty: its last item is live *)
    assert (Hsne : lives (second l) <> []).
    { intros E. apply (T_second_nil _ _ HT) in E. rewrite E in Hz. discriminate. }
    destruct (lives (second l)) as [|q qs] eqn:Hls; [congruence|]. rewrite <- Hls in *.
    rewrite Hf, zlen_app, <- Hn in Hfin.
    destruct (zlen pre + zlen win - zlen pre =? 0) eqn:Hwe.
    + assert (win = []) by (apply zlen_zero; lia). subst win. cbn [lives filter].
      unfold swap_if_ring in Hfin. lsimp_in Hfin.
      assert (Hzs : (zlen (second l) >? 0) = true) by (pose proof (zlen_nonneg (second l)); lia).
      rewrite Hzs in Hfin. cbn [andb] in Hfin.
      destruct (mode_eqb (l_mode l) MRing) eqn:Hmr.
      * assert (Hm : l_mode l = MRing) by (destruct (l_mode l); try discriminate; reflexivity).
        pose proof (absorb_eq [] (second l) (l_null_second l)) as Hab. cbn [app] in Hab. rewrite zlen_nil in Hab.
        rewrite Hab in Hfin. injection Hfin as <-. rewrite Hm.
        apply abs_eq; cbn [sp_size sp_gran sp_h sp_lo sp_sec sp_mode]; lsimp; auto.
        erewrite (window_of _ (take_free (second l)) (drop_free (second l))); lsimp.
        -- apply lives_drop_free.
        -- apply take_drop_free.
        -- lia.
      * injection Hfin as <-.
        replace (match l_mode l with MRing => _ | _ => _ end)
          with (mkSpec (l_size l) (l_gran l) (l_h l) [] (lives (second l)) (l_mode l))
          by (destruct (l_mode l); try reflexivity; discriminate).
        apply abs_eq; cbn [sp_size sp_gran sp_h sp_lo sp_sec sp_mode]; lsimp; auto.
        erewrite (window_of _ [] []); lsimp; reflexivity.
    + injection Hfin as <-.
      assert (Hwne : lives win <> []).
      { intros E. apply (T_window_nil _ _ HT) in E. subst win. rewrite zlen_nil in Hwe. lia. }
      replace (match lives win with [] => _ | _ :: _ => _ end)
        with (mkSpec (l_size l) (l_gran l) (l_h l) (lives win) (lives (second l)) (l_mode l))
        by (destruct (lives win); [congruence|reflexivity]).
      apply abs_eq; cbn [sp_size sp_gran sp_h sp_lo sp_sec sp_mode]; auto.
      rewrite (window_of _ pre win Hf Hn). reflexivity.
Qed.

Theorem cleanup_abs l l' :
  WInv l -> cleanup_after_free l = Some l' -> abs l' = spec_norm (abs l).
Proof.
  intros HI Hcl. pose proof (allocation_count_live _ HI) as Hac.
  destruct (WInv_elim _ HI) as (Hf & Hn & HW).
  unfold cleanup_after_free, is_empty in Hcl. rewrite Hac in Hcl.
  destruct (zlen (live l) =? 0) eqn:Hemp.
  - assert (Hl : live l = []) by (apply zlen_zero; lia).
    unfold live in Hl. apply app_eq_nil in Hl. destruct Hl as (Hlw & Hls).
    injection Hcl as <-. unfold spec_norm. cbn [abs sp_size sp_gran sp_h sp_lo sp_sec sp_mode].
    rewrite Hlw, Hls.
    apply abs_eq; cbn [sp_size sp_gran sp_h sp_lo sp_sec sp_mode]; lsimp; auto.
    erewrite (window_of _ [] []); lsimp; reflexivity.
  - remember (prefix l) as pre eqn:Epre. remember (window l) as win eqn:Ewin.
    pose proof (w_nm _ _ _ _ _ _ _ _ _ HW) as Hnm. pose proof (w_ns _ _ _ _ _ _ _ _ _ HW) as Hns.
    pose proof (count_free_len win) as Hcl'.
    destruct (l_null_begin l + l_null_middle l >? zlen (first l)) eqn:Hp; [discriminate|].
    rewrite Hf, <- Hn, absorb_eq in Hcl.
    replace (pre ++ win) with ((pre ++ take_free win) ++ drop_free win) in Hcl
      by (rewrite <- app_assoc, <- take_drop_free; reflexivity).
    replace (l_null_middle l - zlen (take_free win)) with (count_free (drop_free win)) in Hcl
      by (rewrite Hnm, (count_free_take_drop win); lia).
    rewrite trim_tail_eq, Hns, trim_tail_eq0, trim_front_eq in Hcl.
    set (pre1 := pre ++ take_free win) in *. set (win1 := strip_free (drop_free win)) in *.
    set (sv1 := drop_free (strip_free (second l))) in *.
    match type of Hcl with context [compact_first ?L] => set (l1 := L) in * end.
    pose proof (T_trim win (second l)) as HT1. fold win1 sv1 in HT1.
    assert (Hf1 : first l1 = pre1 ++ win1) by (unfold l1; lsimp; reflexivity).
    assert (Hn1 : zlen pre1 = l_null_begin l1) by (unfold l1, pre1; lsimp; rewrite zlen_app; reflexivity).
    assert (Hnm1 : l_null_middle l1 = count_free win1) by (unfold l1; lsimp; reflexivity).
    destruct (compact_first_spec l1 pre1 win1 Hf1 Hn1 Hnm1)
      as (l2 & pre2 & win2 & Hcf & Hf2 & Hn2 & Hnm2 & Hs2 & Hns2 & Hm2 & Hsf2 & Hcfg2 & Hcase).
    rewrite Hcf in Hcl.
    assert (Hs1 : second l1 = sv1) by (unfold l1; lsimp; reflexivity).
    assert (HT2 : T win2 (second l2) /\ lives win2 = lives win1).
    { rewrite Hs2, Hs1. destruct Hcase as [(-> & ->)|(-> & ->)].
      - auto.
      - split; [apply T_compact; exact HT1|apply lives_idem]. }
    destruct HT2 as (HT2 & Hlv2).
    rewrite (finish_abs l2 pre2 win2 l' Hf2 Hn2 HT2 Hcl).
    f_equal. unfold spec_of, abs. destruct Hcfg2 as (-> & -> & ->).
    rewrite Hlv2, Hs2, Hs1, Hm2. unfold win1, sv1, l1. lsimp.
    rewrite lives_strip_free, !lives_drop_free, lives_strip_free, Ewin. reflexivity.
Qed.

(* ------------------------------------------------------------------ Free: which list loses the item *)

Definition removed (l : linear) (x : sub) (l1 : linear) : Prop :=
  WInv l1 /\ l_mode l1 = l_mode l /\ same_cfg l l1 /\
  ((exists a b, lives (window l) = a ++ x :: b /\ lives (window l1) = a ++ b /\
                lives (second l1) = lives (second l)) \/
   (exists a b, lives (second l) = a ++ x :: b /\ lives (second l1) = a ++ b /\
                lives (window l1) = lives (window l))).

Lemma free_first_item_abs l x :
  LInv l -> In x (live l) ->
  free_first_item l (s_off x) = TSkip \/
  exists l1, free_first_item l (s_off x) = finish_free l1 /\ removed l x l1.
Proof.
  intros HI Hx. pose proof HI as (HWI & HL). destruct (WInv_elim _ HWI) as (Hf & Hn & HW).
  unfold free_first_item. destruct (zlen (first l) >? 0) eqn:Hz; [|left; reflexivity].
  assert (Hne : first l <> []) by (intros E; rewrite E in Hz; discriminate).
  destruct (window_facts _ HI Hne) as (w & ws & Hw & Hnth & _ & _ & Hwl & Hnb).
  rewrite Hnth. destruct (s_off w =? s_off x) eqn:Heq; [|left; reflexivity]. right.
  assert (w = x).
  { apply (live_unique l x w HWI Hx); [|lia]. apply in_window_order. rewrite Hw. left. reflexivity. }
  subst w. eexists. split; [reflexivity|].
  rewrite Hw in HW. pose proof (mark_first_W _ _ _ _ _ _ _ _ _ _ HW Hwl) as HW1.
  match goal with |- removed _ _ ?L => set (l1 := L) end.
  assert (Hf1 : first l1 = (prefix l ++ [mark_free x]) ++ ws).
  { unfold l1. lsimp. rewrite Hf at 1. rewrite <- Hn, Hw, set_nth_z_mid, <- app_assoc. reflexivity. }
  assert (Hn1 : zlen (prefix l ++ [mark_free x]) = l_null_begin l1).
  { unfold l1. lsimp. rewrite zlen_app, zlen_cons, zlen_nil. lia. }
  unfold removed, same_cfg. split; [|split; [unfold l1; lsimp; reflexivity|split; [unfold l1; lsimp; auto|]]].
  - apply (WInv_intro _ _ _ Hf1 Hn1). unfold l1. lsimp. exact HW1.
  - left. exists [], (lives ws). rewrite Hw, lives_cons_live by assumption.
    rewrite (window_of _ _ _ Hf1 Hn1). split; [reflexivity|]. split; [reflexivity|]. unfold l1. lsimp. reflexivity.
Qed.

Lemma free_last_item_abs l x :
  LInv l -> In x (live l) ->
  free_last_item l (s_off x) = TSkip \/
  exists l1, free_last_item l (s_off x) = finish_free l1 /\ removed l x l1.
Proof.
  intros HI Hx. pose proof HI as (HWI & HL). destruct (WInv_elim _ HWI) as (Hf & Hn & HW).
  unfold free_last_item.
  assert (Hsecond : l_mode l <> MEmpty ->
    match last_z (second l) with
    | Some s => if s_off s =? s_off x
                then finish_free (with_second (with_sum_free l (l_sum_free l + s_size s)) (removelast (second l)))
                else TSkip
    | None => TPanic
    end = TSkip \/
    exists l1, match last_z (second l) with
    | Some s => if s_off s =? s_off x
                then finish_free (with_second (with_sum_free l (l_sum_free l + s_size s)) (removelast (second l)))
                else TSkip
    | None => TPanic
    end = finish_free l1 /\ removed l x l1).
  { intros Hm. destruct (list_snoc_cases (second l)) as [E|(sv0 & s & Hsv)].
    { destruct HL. apply l_sv in E. congruence. }
    rewrite Hsv, last_z_snoc, removelast_snoc.
    destruct (s_off s =? s_off x) eqn:Heq; [|left; reflexivity]. right.
    assert (s = x).
    { apply (live_unique l x s HWI Hx); [|lia]. apply in_second_order. rewrite Hsv. apply in_or_app. right. left. reflexivity. }
    subst s. assert (Hxl : is_free x = false) by (destruct HL; eauto).
    eexists. split; [reflexivity|]. rewrite Hsv in HW.
    pose proof (drop_last_sv_W _ _ _ _ _ _ _ _ _ _ HW Hxl) as HW1.
    match goal with |- removed _ _ ?L => set (l1 := L) end.
    assert (Hf1 : first l1 = prefix l ++ window l) by (unfold l1; lsimp; exact Hf).
    assert (Hn1 : zlen (prefix l) = l_null_begin l1) by (unfold l1; lsimp; exact Hn).
    unfold removed, same_cfg. split; [|split; [unfold l1; lsimp; reflexivity|split; [unfold l1; lsimp; auto|]]].
    - apply (WInv_intro _ _ _ Hf1 Hn1). unfold l1. lsimp. exact HW1.
    - right. exists (lives sv0), []. rewrite Hsv, lives_snoc_live by assumption.
      rewrite (window_of _ _ _ Hf1 Hn1). split; [reflexivity|]. unfold l1. lsimp. rewrite app_nil_r. auto. }
  destruct (l_mode l) eqn:Hm; [|apply Hsecond; congruence|apply Hsecond; congruence].
  assert (Hsv : second l = []) by (destruct HW; auto).
  assert (Hxw : In x (lives (window l))).
  { unfold live in Hx. rewrite Hsv in Hx. cbn [lives filter] in Hx. rewrite app_nil_r in Hx. exact Hx. }
  destruct (list_snoc_cases (window l)) as [E|(win0 & s & Hw)]; [rewrite E in Hxw; destruct Hxw|].
  rewrite Hf, Hw, app_assoc, last_z_snoc, removelast_snoc.
  destruct (s_off s =? s_off x) eqn:Heq; [|left; reflexivity]. right.
  assert (s = x).
  { apply (live_unique l x s HWI Hx); [|lia]. apply in_window_order. rewrite Hw. apply in_or_app. right. left. reflexivity. }
  subst s. assert (Hxl : is_free x = false) by (destruct HL; eauto).
  eexists. split; [reflexivity|]. rewrite Hw in HW.
  pose proof (drop_last_win_W _ _ _ _ _ _ _ _ _ _ HW Hxl) as HW1.
  match goal with |- removed _ _ ?L => set (l1 := L) end.
  assert (Hf1 : first l1 = prefix l ++ win0) by (unfold l1; lsimp; reflexivity).
  assert (Hn1 : zlen (prefix l) = l_null_begin l1) by (unfold l1; lsimp; exact Hn).
  unfold removed, same_cfg. split; [|split; [unfold l1; lsimp; auto|split; [unfold l1; lsimp; auto|]]].
  - apply (WInv_intro _ _ _ Hf1 Hn1). unfold l1. lsimp. rewrite Hm. exact HW1.
  - left. exists (lives win0), []. rewrite Hw, lives_snoc_live by assumption.
    rewrite (window_of _ _ _ Hf1 Hn1). split; [reflexivity|]. unfold l1. lsimp. rewrite app_nil_r. auto.
Qed.

Lemma free_middle_first_abs l x :
  LInv l -> In x (live l) ->
  free_middle_first l (s_off x) = TSkip \/
  exists l1, free_middle_first l (s_off x) = finish_free l1 /\ removed l x l1.
Proof.
  intros HI Hx. pose proof HI as (HWI & HL). destruct (WInv_elim _ HWI) as (Hf & Hn & HW).
  unfold free_middle_first.
  destruct (find_first_spec l (s_off x) HWI) as (k & found & -> & Ht & Hnf).
  destruct found; [|left; reflexivity].
  right. destruct (Ht eq_refl) as (a & s & b & Hw & Hk & Hs & Hnth). rewrite Hnth.
  assert (s = x).
  { apply (live_unique l x s HWI Hx); [|exact Hs]. apply in_window_order. rewrite Hw. apply in_or_app. right. left. reflexivity. }
  subst s. assert (Hxl : is_free x = false) by (apply live_in_order in Hx; tauto).
  eexists. split; [reflexivity|]. rewrite Hw in HW.
  pose proof (mark_mid_win_W _ _ _ _ _ _ _ _ _ _ _ HW Hxl) as HW1.
  match goal with |- removed _ _ ?L => set (l1 := L) end.
  assert (Hf1 : first l1 = prefix l ++ a ++ mark_free x :: b).
  { unfold l1. lsimp. rewrite Hf at 1. rewrite Hw, app_assoc.
    replace (k + l_null_begin l) with (zlen (prefix l ++ a)) by (rewrite zlen_app; lia).
    rewrite set_nth_z_mid, <- app_assoc. reflexivity. }
  assert (Hn1 : zlen (prefix l) = l_null_begin l1) by (unfold l1; lsimp; exact Hn).
  unfold removed, same_cfg. split; [|split; [unfold l1; lsimp; auto|split; [unfold l1; lsimp; auto|]]].
  - apply (WInv_intro _ _ _ Hf1 Hn1). unfold l1. lsimp. exact HW1.
  - left. exists (lives a), (lives b). rewrite Hw, lives_mid_live by assumption.
    rewrite (window_of _ _ _ Hf1 Hn1), lives_mid_free by reflexivity.
    split; [reflexivity|]. split; [reflexivity|]. unfold l1. lsimp. reflexivity.
Qed.

Lemma free_middle_second_abs l x :
  LInv l -> In x (live l) ->
  free_middle_second l (s_off x) = TSkip \/
  exists l1, free_middle_second l (s_off x) = finish_free l1 /\ removed l x l1.
Proof.
  intros HI Hx. pose proof HI as (HWI & HL). destruct (WInv_elim _ HWI) as (Hf & Hn & HW).
  unfold free_middle_second. destruct (mode_eqb (l_mode l) MEmpty) eqn:Hme; [left; reflexivity|].
  assert (Hm : l_mode l <> MEmpty) by (intros E; rewrite E in Hme; discriminate).
  destruct (find_second_spec l (s_off x) HWI Hm) as (k & found & -> & Ht & Hnf).
  destruct found; [|left; reflexivity].
  right. destruct (Ht eq_refl) as (a & s & b & Hsv & Hk & Hs & Hnth). rewrite Hnth.
  assert (s = x).
  { apply (live_unique l x s HWI Hx); [|exact Hs]. apply in_second_order. rewrite Hsv. apply in_or_app. right. left. reflexivity. }
  subst s. assert (Hxl : is_free x = false) by (apply live_in_order in Hx; tauto).
  eexists. split; [reflexivity|]. pose proof HW as HW0. rewrite Hsv in HW.
  pose proof (mark_mid_sv_W _ _ _ _ _ _ _ _ _ _ _ HW Hxl) as HW1.
  assert (Hs1 : set_nth_z (second l) k mark_free = a ++ mark_free x :: b).
  { rewrite Hsv, <- Hk. apply set_nth_z_mid. }
  match goal with |- removed _ _ ?L => set (l1 := L) end.
  assert (Hf1 : first l1 = prefix l ++ window l) by (unfold l1; lsimp; exact Hf).
  assert (Hn1 : zlen (prefix l) = l_null_begin l1) by (unfold l1; lsimp; exact Hn).
  assert (Hsec1 : second l1 = a ++ mark_free x :: b) by (unfold l1; lsimp; exact Hs1).
  unfold removed, same_cfg. split; [|split; [unfold l1; lsimp; auto|split; [unfold l1; lsimp; auto|]]].
  - apply (WInv_intro _ _ _ Hf1 Hn1). rewrite Hsec1. unfold l1. lsimp. exact HW1.
  - right. exists (lives a), (lives b). rewrite Hsv at 1. rewrite lives_mid_live by assumption.
    rewrite (window_of _ _ _ Hf1 Hn1), Hsec1, lives_mid_free by reflexivity. auto.
Qed.

(* ------------------------------------------------------------------ Free = spec_free *)

Lemma has_off_mid a x b : has_off (s_off x) (a ++ x :: b) = true.
Proof. unfold has_off. rewrite existsb_app. cbn [existsb]. rewrite Z.eqb_refl. apply orb_true_iff. right. reflexivity. Qed.

Lemma has_off_false o v : (forall s, In s v -> s_off s <> o) -> has_off o v = false.
Proof. intros H. apply existsb_false. intros s Hs. specialize (H s Hs). lia. Qed.

Lemma remove_off_keep o v : (forall s, In s v -> s_off s <> o) -> remove_off o v = v.
Proof.
  induction v as [|s r IH]; intros H; [reflexivity|]. unfold remove_off in *. cbn [filter].
  destruct (s_off s =? o) eqn:E; [exfalso; apply (H s); [left; reflexivity|lia]|].
  cbn [negb]. rewrite IH; [reflexivity|]. intros t Ht. apply H. right. exact Ht.
Qed.

Lemma remove_off_mid a x b :
  (forall s, In s (a ++ b) -> s_off s <> s_off x) -> remove_off (s_off x) (a ++ x :: b) = a ++ b.
Proof.
  intros H. unfold remove_off. rewrite filter_app. cbn [filter]. rewrite Z.eqb_refl. cbn [negb].
  fold (remove_off (s_off x) a). fold (remove_off (s_off x) b).
  rewrite !remove_off_keep; [reflexivity| |]; intros s Hs; apply H; apply in_or_app; auto.
Qed.

Lemma chain_lives_split lo v a x b :
  pos_sizes v -> chain_from lo v -> lives v = a ++ x :: b ->
  forall s, In s (a ++ b) -> s_off s <> s_off x.
Proof.
  intros Hp Hc Hl s Hs.
  assert (Hpw : pairwise before (lives v)) by (eapply pairwise_sl; [apply sl_lives|eapply chain_pairwise; eauto]).
  assert (Hsz : forall t, In t (lives v) -> 1 <= s_size t).
  { intros t Ht. apply lives_is_live in Ht. destruct Ht as (Ht & _). eapply Forall_forall in Hp; eauto. }
  rewrite Hl in Hpw, Hsz. apply pairwise_app in Hpw. destruct Hpw as (_ & Hxb & Hcross).
  cbn in Hxb. destruct Hxb as (Hxb & _).
  assert (Hx1 : 1 <= s_size x) by (apply Hsz; apply in_or_app; right; left; reflexivity).
  apply in_app_or in Hs. destruct Hs as [Hs|Hs].
  - specialize (Hcross s x Hs ltac:(left; reflexivity)). unfold before in Hcross.
    assert (1 <= s_size s) by (apply Hsz; apply in_or_app; left; exact Hs). lia.
  - eapply Forall_forall in Hxb; [|exact Hs]. unfold before in Hxb. lia.
Qed.

Lemma window_split_distinct l a x b :
  WInv l -> lives (window l) = a ++ x :: b -> forall s, In s (a ++ b) -> s_off s <> s_off x.
Proof.
  intros HI Hl. destruct (WInv_elim _ HI) as (Hf & _ & HW). destruct HW.
  apply item_ok_pos in w_ok1. apply pos_sizes_app in w_ok1. destruct w_ok1 as (_ & Hp).
  destruct w_first as (Hc & _). apply chain_from_app in Hc. destruct Hc as (_ & Hc).
  eapply chain_lives_split; eauto.
Qed.

Lemma second_split_distinct l a x b :
  WInv l -> lives (second l) = a ++ x :: b -> forall s, In s (a ++ b) -> s_off s <> s_off x.
Proof.
  intros HI Hl. destruct (WInv_elim _ HI) as (Hf & _ & HW).
  pose proof (order_pos _ _ _ _ _ _ _ _ _ HW) as Hpo. destruct HW. destruct w_order as (Hc & _).
  unfold order in *. destruct (l_mode l).
  - apply chain_from_app in Hc. destruct Hc as (Hc & _). apply pos_sizes_app in Hpo. destruct Hpo as (Hp & _).
    eapply chain_lives_split; eauto.
  - apply chain_from_app in Hc. destruct Hc as (Hc & _). apply pos_sizes_app in Hpo. destruct Hpo as (Hp & _).
    eapply chain_lives_split; eauto.
  - apply chain_from_app in Hc. destruct Hc as (_ & Hc). apply pos_sizes_app in Hpo. destruct Hpo as (_ & Hp).
    intros s Hs. apply (chain_lives_split _ (rev (second l)) (rev b) x (rev a) Hp Hc).
    + rewrite lives_rev, Hl, rev_app_distr. cbn [rev]. rewrite <- app_assoc. reflexivity.
    + apply in_app_or in Hs. apply in_or_app. destruct Hs as [Hs|Hs]; [right|left]; apply in_rev in Hs; exact Hs.
Qed.

(* an item of the window and an item of the second vector never have the same offset *)
Lemma cross_off_ne l s t : WInv l -> In s (window l) -> In t (second l) -> s_off s <> s_off t.
Proof.
  intros HI Hs Ht. destruct (WInv_elim _ HI) as (Hf & _ & HW).
  pose proof (order_pos _ _ _ _ _ _ _ _ _ HW) as Hpo. destruct HW. destruct w_order as (Hc & _).
  assert (Hs1 : 1 <= s_size s).
  { apply item_ok_pos in w_ok1. apply pos_sizes_app in w_ok1. destruct w_ok1 as (_ & Hp). eapply Forall_forall in Hp; eauto. }
  assert (Ht1 : 1 <= s_size t).
  { apply item_ok_pos in w_ok2. eapply Forall_forall in w_ok2; eauto. }
  unfold order in *. destruct (l_mode l).
  - pose proof (chain_split_order _ _ _ t s Hpo Hc Ht Hs). lia.
  - pose proof (chain_split_order _ _ _ t s Hpo Hc Ht Hs). lia.
  - apply in_rev in Ht. pose proof (chain_split_order _ _ _ s t Hpo Hc Hs Ht). lia.
Qed.

Lemma removed_spec l x l1 :
  WInv l -> removed l x l1 -> spec_free (abs l) (s_off x) = Some (spec_norm (abs l1)).
Proof.
  intros HI (HW1 & Hm1 & (Hsz & Hg & Hh) & Hcase). unfold spec_free. cbn [abs sp_lo sp_sec sp_size sp_gran sp_h sp_mode].
  destruct Hcase as [(a & b & Hl & Hl1 & Hs1)|(a & b & Hl & Hl1 & Hw1)].
  - rewrite Hl, has_off_mid, remove_off_mid by (apply (window_split_distinct l a x b HI Hl)).
    do 2 f_equal. unfold abs. rewrite Hl1, Hs1, Hm1, Hsz, Hg, Hh. reflexivity.
  - rewrite has_off_false.
    + rewrite Hl, has_off_mid, remove_off_mid by (apply (second_split_distinct l a x b HI Hl)).
      do 2 f_equal. unfold abs. rewrite Hl1, Hw1, Hm1, Hsz, Hg, Hh. reflexivity.
    + intros s Hs. apply lives_is_live in Hs. destruct Hs as (Hs & _).
      apply (cross_off_ne l s x HI Hs).
      assert (Hx : In x (lives (second l))) by (rewrite Hl; apply in_or_app; right; left; reflexivity).
      apply lives_is_live in Hx. tauto.
Qed.

Theorem free_refines l x :
  LInv l -> In x (live l) ->
  exists l', lin_free l (s_off x + 1) = FOk l' /\ spec_free (abs l) (s_off x) = Some (abs l').
Proof.
  intros HI Hx. pose proof HI as (HWI & _).
  destruct (free_live_spec l x HI Hx) as (l' & Hfree & _).
  exists l'. split; [exact Hfree|].
  unfold lin_free in Hfree. replace (s_off x + 1 - 1) with (s_off x) in Hfree by lia.
  assert (Hfin : forall t rest, (exists l1, t = finish_free l1 /\ removed l x l1) ->
            match or_try t rest with TDone l'0 => FOk l'0 | TSkip => FError | TPanic => FPanic end = FOk l' ->
            spec_free (abs l) (s_off x) = Some (abs l')).
  { intros t rest (l1 & -> & Hrem) Hres. pose proof Hrem as (HW1 & _).
    destruct (cleanup_spec _ HW1) as (l2 & Hcl & _). unfold finish_free in Hres. rewrite Hcl in Hres.
    cbn [or_try] in Hres. injection Hres as <-.
    rewrite (removed_spec l x l1 HWI Hrem), (cleanup_abs l1 l2 HW1 Hcl). reflexivity. }
  destruct (free_first_item_abs l x HI Hx) as [E1|H1]; [rewrite E1 in Hfree; cbn [or_try] in Hfree|eapply Hfin; eauto].
  destruct (free_last_item_abs l x HI Hx) as [E2|H2]; [rewrite E2 in Hfree; cbn [or_try] in Hfree|eapply Hfin; eauto].
  destruct (free_middle_first_abs l x HI Hx) as [E3|H3]; [rewrite E3 in Hfree; cbn [or_try] in Hfree|eapply Hfin; eauto].
  destruct (free_middle_second_abs l x HI Hx) as [E4|H4]; [rewrite E4 in Hfree; discriminate|].
  apply (Hfin _ TSkip H4). destruct (free_middle_second l (s_off x)); exact Hfree.
Qed.

(* ------------------------------------------------------------------ SetUserData, Clear, MayHaveFreeBlock *)

Lemma retag_off_keep o tag v : (forall s, In s v -> s_off s <> o) -> retag_off o tag v = v.
Proof.
  induction v as [|s r IH]; intros H; [reflexivity|]. unfold retag_off in *. cbn [map].
  destruct (s_off s =? o) eqn:E; [exfalso; apply (H s); [left; reflexivity|lia]|].
  rewrite IH; [reflexivity|]. intros t Ht. apply H. right. exact Ht.
Qed.

Lemma retag_off_mid a x b tag :
  (forall s, In s (a ++ b) -> s_off s <> s_off x) ->
  retag_off (s_off x) tag (a ++ x :: b) = a ++ set_tag tag x :: b.
Proof.
  intros H. unfold retag_off. rewrite map_app. cbn [map]. rewrite Z.eqb_refl.
  fold (retag_off (s_off x) tag a). fold (retag_off (s_off x) tag b).
  rewrite !retag_off_keep; [reflexivity| |]; intros s Hs; apply H; apply in_or_app; auto.
Qed.

Theorem set_live_refines l x tag :
  LInv l -> In x (live l) ->
  exists l', set_user_data l (s_off x + 1) tag = SetOk l' /\
             spec_set_tag (abs l) (s_off x) tag = Some (abs l').
Proof.
  intros HI Hx. pose proof HI as (HWI & HL). destruct (WInv_elim _ HWI) as (Hf & Hn & HW).
  assert (Hxl : is_free x = false) by (apply live_in_order in Hx; tauto).
  unfold set_user_data. replace (s_off x + 1 - 1) with (s_off x) by lia.
  pose proof (find_suballocation_spec l (s_off x) HWI) as Hfs.
  destruct (find_suballocation l (s_off x)) as [i|i| |]; [| | |contradiction].
  - destruct Hfs as (a & s & b & Hw & Hs & Hi & Hnth & Hfv). rewrite Hnth.
    assert (s = x).
    { apply (live_unique l x s HWI Hx); [|exact Hs]. apply in_window_order. rewrite Hw. apply in_or_app. right. left. reflexivity. }
    subst s. eexists. split; [reflexivity|].
    match goal with |- _ = Some (abs ?L) => set (l' := L) end.
    assert (Hf1 : first l' = prefix l ++ a ++ set_tag tag x :: b).
    { unfold l'. lsimp. rewrite Hfv, Hi, set_nth_z_mid, <- app_assoc. reflexivity. }
    assert (Hn1 : zlen (prefix l) = l_null_begin l') by (unfold l'; lsimp; exact Hn).
    unfold spec_set_tag. cbn [abs sp_lo sp_sec sp_size sp_gran sp_h sp_mode].
    assert (Hlw : lives (window l) = lives a ++ x :: lives b) by (rewrite Hw; apply lives_mid_live; assumption).
    rewrite Hlw, has_off_mid, retag_off_mid by (apply (window_split_distinct l _ x _ HWI Hlw)).
    f_equal. symmetry. apply abs_eq; cbn [sp_size sp_gran sp_h sp_lo sp_sec sp_mode]; try (unfold l'; lsimp; reflexivity).
    rewrite (window_of _ _ _ Hf1 Hn1). apply lives_mid_live. exact Hxl.
  - destruct Hfs as (a & s & b & Hsv & Hs & Hi & Hnth). rewrite Hnth.
    assert (s = x).
    { apply (live_unique l x s HWI Hx); [|exact Hs]. apply in_second_order. rewrite Hsv. apply in_or_app. right. left. reflexivity. }
    subst s. eexists. split; [reflexivity|].
    match goal with |- _ = Some (abs ?L) => set (l' := L) end.
    assert (Hf1 : first l' = prefix l ++ window l) by (unfold l'; lsimp; exact Hf).
    assert (Hn1 : zlen (prefix l) = l_null_begin l') by (unfold l'; lsimp; exact Hn).
    assert (Hs1 : second l' = a ++ set_tag tag x :: b).
    { unfold l'. lsimp. rewrite Hsv, Hi. apply set_nth_z_mid. }
    unfold spec_set_tag. cbn [abs sp_lo sp_sec sp_size sp_gran sp_h sp_mode].
    assert (Hls : lives (second l) = lives a ++ x :: lives b) by (rewrite Hsv; apply lives_mid_live; assumption).
    rewrite has_off_false.
    + rewrite Hls, has_off_mid, retag_off_mid by (apply (second_split_distinct l _ x _ HWI Hls)).
      f_equal. symmetry. apply abs_eq; cbn [sp_size sp_gran sp_h sp_lo sp_sec sp_mode]; try (unfold l'; lsimp; reflexivity).
      * rewrite (window_of _ _ _ Hf1 Hn1). reflexivity.
      * rewrite Hs1. apply lives_mid_live. exact Hxl.
    + intros s Hs'. apply lives_is_live in Hs'. destruct Hs' as (Hs' & _).
      apply (cross_off_ne l s x HWI Hs'). rewrite Hsv. apply in_or_app. right. left. reflexivity.
  - exfalso. unfold live in Hx. apply in_app_or in Hx.
    destruct Hx as [Hx|Hx]; apply lives_is_live in Hx; destruct Hx as (Hx & _); eapply Hfs; eauto.
Qed.

Theorem set_unknown_refines l h tag :
  LInv l -> (forall s, In s (window l) \/ In s (second l) -> s_off s <> h - 1) ->
  set_user_data l h tag = SetError /\ spec_set_tag (abs l) (h - 1) tag = None.
Proof.
  intros HI Hno. pose proof HI as (HWI & _). split.
  - unfold set_user_data. pose proof (find_suballocation_spec l (h - 1) HWI) as Hfs.
    destruct (find_suballocation l (h - 1)) as [i|i| |]; [| |reflexivity|contradiction].
    + destruct Hfs as (a & s & b & Hw & Hs & _). exfalso. apply (Hno s); [|exact Hs].
      left. rewrite Hw. apply in_or_app. right. left. reflexivity.
    + destruct Hfs as (a & s & b & Hsv & Hs & _). exfalso. apply (Hno s); [|exact Hs].
      right. rewrite Hsv. apply in_or_app. right. left. reflexivity.
  - unfold spec_set_tag. cbn [abs sp_lo sp_sec].
    rewrite !has_off_false; [reflexivity| |]; intros s Hs; apply lives_is_live in Hs; apply Hno; tauto.
Qed.

Lemma clear_abs l : abs (lin_clear l) = spec_clear (abs l).
Proof. unfold abs, spec_clear, window, lin_clear, first, second. cbn. destruct (l_swapped l); reflexivity. Qed.

Lemma fold_sum v : fold_right (fun s a => s_size s + a) 0 v = sum_sizes v.
Proof. induction v as [|s r IH]; cbn; [reflexivity|]. rewrite IH. reflexivity. Qed.

Lemma free_bytes_abs l : WInv l -> free_bytes (abs l) = l_sum_free l.
Proof.
  intros HI. destruct (WInv_elim _ HI) as (_ & _ & HW). destruct HW.
  unfold free_bytes, used_bytes. cbn [abs sp_size sp_lo sp_sec]. rewrite fold_sum. lia.
Qed.

(* ------------------------------------------------------------------ the refinement theorem *)

(* admissible operations: LinearStep.op_ok, and for SetUserData the handle must be live or match no
   item at all.  (The handle of a lazily deleted item that still lingers in a vector is accepted by
   linear.go's SetAllocationUserData although the allocation is dead; see setud_lingering_refuted.) *)
Definition rop_ok (l : linear) (o : op) : Prop :=
  match o with
  | OSetUD h _ => (exists x, In x (live l) /\ h = s_off x + 1) \/
                  (forall s, In s (window l) \/ In s (second l) -> s_off s <> h - 1)
  | _ => op_ok l o
  end.

Lemma rop_ok_op_ok l o : rop_ok l o -> op_ok l o.
Proof. destruct o; cbn; auto. Qed.

Theorem step_refines l o :
  LInv l -> rop_ok l o ->
  snd (step l o) = snd (spec_step (abs l) o) /\ abs (fst (step l o)) = fst (spec_step (abs l) o).
Proof.
  intros HI Hok.
  destruct o as [size align atype strat upper mo tag|size align atype strat upper mo|h|h tag| |atype size];
    cbn [step spec_step rop_ok op_ok] in *.
  - (* OAlloc *)
    pose proof (create_request_spec l size align upper atype strat mo HI Hok) as Hcs.
    rewrite (create_request_refines l size align upper atype strat mo HI Hok) in *.
    destruct (spec_request (abs l) size align upper atype) as [off p| |]; cbn [to_q] in *; [|auto|auto].
    destruct Hcs as (Hreq & Hat).
    destruct (alloc_refines l size align off p atype tag HI Hreq Hat (pow2_pos _ Hok)) as (l' & -> & Habs).
    cbn [fst snd]. split; [|exact Habs]. unfold rq_offset. cbn [rq_handle rq_size]. f_equal. lia.
  - (* ORequest *)
    rewrite (create_request_refines l size align upper atype strat mo HI Hok).
    destruct (spec_request (abs l) size align upper atype) as [off p| |]; cbn [to_q fst snd]; auto.
    split; [|reflexivity]. unfold rq_offset. cbn [rq_handle rq_size]. f_equal. lia.
  - (* OFree *)
    destruct Hok as (x & Hx & ->). destruct (free_refines l x HI Hx) as (l' & -> & Hs).
    replace (s_off x + 1 - 1) with (s_off x) by lia. rewrite Hs. auto.
  - (* OSetUD *)
    destruct Hok as [(x & Hx & ->)|Hno].
    + destruct (set_live_refines l x tag HI Hx) as (l' & -> & Hs).
      replace (s_off x + 1 - 1) with (s_off x) by lia. rewrite Hs. auto.
    + destruct (set_unknown_refines l h tag HI Hno) as (-> & ->). auto.
  - (* OClear *)
    cbn [fst snd]. split; [reflexivity|apply clear_abs].
  - (* OMayHave *)
    cbn [fst snd]. unfold may_have_free. rewrite (free_bytes_abs l (proj1 HI)). auto.
Qed.

(* the full statement over LinearStep.op_ok fails exactly here:
     forall l o, LInv l -> op_ok l o -> snd (step l o) = snd (spec_step (abs l) o) /\ ...
   three allocations, the middle one freed (it lingers, lazily deleted), then SetUserData on its
   handle: linear.go answers "ok", the reference model "error". *)
Example setud_lingering_refuted :
  let l := lrun (linear_init HFake 1 100)
                [OAlloc 10 1 1 0 false 0 None; OAlloc 10 1 1 0 false 0 None; OAlloc 10 1 1 0 false 0 None; OFree 11] in
  op_ok l (OSetUD 11 (Some 5)) /\
  o_kind (snd (step l (OSetUD 11 (Some 5)))) = ROk /\
  o_kind (snd (spec_step (abs l) (OSetUD 11 (Some 5)))) = RError /\
  get_user_data (fst (step l (OSetUD 11 (Some 5)))) 11 = UDOk (Some 5).
Proof. vm_compute. auto. Qed.

(* ------------------------------------------------------------------ histories *)

Fixpoint louts (l : linear) (ops : list op) : list outcome :=
  match ops with
  | [] => []
  | o :: rest => snd (step l o) :: louts (fst (step l o)) rest
  end.

Fixpoint rops_ok (l : linear) (ops : list op) : Prop :=
  match ops with
  | [] => True
  | o :: rest => rop_ok l o /\ rops_ok (fst (step l o)) rest
  end.

Theorem run_refines l ops :
  LInv l -> rops_ok l ops ->
  louts l ops = souts (abs l) ops /\ abs (lrun l ops) = srun (abs l) ops /\ LInv (lrun l ops).
Proof.
  revert l; induction ops as [|o rest IH]; intros l HI Hok; cbn [louts souts lrun srun rops_ok] in *; [auto|].
  destruct Hok as (Ho & Hrest). destruct (step_refines l o HI Ho) as (Hs & Ha).
  pose proof (step_preserves_LInv l o HI (rop_ok_op_ok _ _ Ho)) as HI'.
  destruct (IH _ HI' Hrest) as (H1 & H2 & H3). rewrite <- Ha. rewrite Hs, H1. auto.
Qed.

Lemma abs_init h gr size : abs (linear_init h gr size) = spec_init h gr size.
Proof. reflexivity. Qed.

(* C16: every history of requests, frees, clears (and SetUserData on live or unknown handles) is
   answered by the code exactly as by the reference model *)
Theorem linear_behaves_as_spec h gr size ops :
  0 <= size -> pow2 gr -> rops_ok (linear_init h gr size) ops ->
  louts (linear_init h gr size) ops = souts (spec_init h gr size) ops /\
  abs (lrun (linear_init h gr size) ops) = srun (spec_init h gr size) ops.
Proof.
  intros Hs Hg Hok. destruct (run_refines _ ops (init_LInv h gr size Hs Hg) Hok) as (H1 & H2 & _).
  rewrite abs_init in *. auto.
Qed.

(* histories without SetUserData: LinearStep.ops_ok is enough *)
Definition no_setud (o : op) : Prop := match o with OSetUD _ _ => False | _ => True end.

Lemma ops_ok_rops_ok l ops : Forall no_setud ops -> ops_ok l ops -> rops_ok l ops.
Proof.
  revert l; induction ops as [|o rest IH]; intros l Hn Hok; cbn in *; [auto|].
  apply Forall_cons_iff in Hn. destruct Hn as (Ho & Hn). destruct Hok as (Hok & Hrest).
  split; [|auto]. destruct o; cbn in *; auto; try contradiction.
Qed.

Corollary linear_behaves_as_spec_requests_frees h gr size ops :
  0 <= size -> pow2 gr -> Forall no_setud ops -> ops_ok (linear_init h gr size) ops ->
  louts (linear_init h gr size) ops = souts (spec_init h gr size) ops /\
  abs (lrun (linear_init h gr size) ops) = srun (spec_init h gr size) ops.
Proof. intros Hs Hg Hn Hok. apply linear_behaves_as_spec; auto. apply ops_ok_rops_ok; auto. Qed.

(* ------------------------------------------------------------------ reachable reference states *)

(* admissibility stated on the reference model alone *)
Definition sop_ok (sp : spec) (o : op) : Prop :=
  match o with
  | OAlloc _ align _ _ _ _ _ => pow2 align
  | ORequest _ align _ _ _ _ => pow2 align
  | OFree h => exists x, In x (spec_items sp) /\ h = s_off x + 1
  | OSetUD h _ => exists x, In x (spec_items sp) /\ h = s_off x + 1
  | _ => True
  end.

Fixpoint sops_ok (sp : spec) (ops : list op) : Prop :=
  match ops with
  | [] => True
  | o :: rest => sop_ok sp o /\ sops_ok (fst (spec_step sp o)) rest
  end.

Lemma sop_ok_rop_ok l o : sop_ok (abs l) o -> rop_ok l o.
Proof. destruct o; cbn; auto. Qed.

Lemma sops_ok_rops_ok l ops : LInv l -> sops_ok (abs l) ops -> rops_ok l ops.
Proof.
  revert l; induction ops as [|o rest IH]; intros l HI Hok; cbn in *; [auto|].
  destruct Hok as (Ho & Hrest). pose proof (sop_ok_rop_ok l o Ho) as Hr. split; [exact Hr|].
  destruct (step_refines l o HI Hr) as (_ & Ha). apply IH.
  - apply step_preserves_LInv; [exact HI|apply rop_ok_op_ok; exact Hr].
  - rewrite Ha. exact Hrest.
Qed.

Lemma rops_ok_ops_ok l ops : rops_ok l ops -> ops_ok l ops.
Proof.
  revert l; induction ops as [|o rest IH]; intros l H; cbn in *; [auto|].
  destruct H as (Ho & Hrest). split; [apply rop_ok_op_ok; exact Ho|auto].
Qed.

(* every reachable reference state is the abstraction of a reachable state of the code *)
Theorem spec_reachable_is_abs h gr size ops :
  0 <= size -> pow2 gr -> sops_ok (spec_init h gr size) ops ->
  exists l, LInv l /\ abs l = srun (spec_init h gr size) ops /\ l = lrun (linear_init h gr size) ops /\
            l_size l = size.
Proof.
  intros Hs Hg Hok. pose proof (init_LInv h gr size Hs Hg) as HI.
  rewrite <- abs_init in Hok. pose proof (sops_ok_rops_ok _ ops HI Hok) as Hr.
  destruct (run_refines _ ops HI Hr) as (_ & H2 & H3). rewrite abs_init in H2.
  destruct (lrun_LInv _ ops h gr size HI (cfg_init h gr size) (rops_ok_ops_ok _ _ Hr)) as (_ & Hsz & _).
  eauto.
Qed.

(* "the two ends never cross", "a ring item always lies below the first lower item", all items inside
   the block: in every reachable reference state *)
Theorem spec_geometry h gr size ops :
  0 <= size -> pow2 gr -> sops_ok (spec_init h gr size) ops ->
  let sp := srun (spec_init h gr size) ops in
  (forall x, In x (spec_items sp) -> 0 <= s_off x /\ send x <= size /\ 1 <= s_size x) /\
  (sp_mode sp <> MRing -> forall a b, In a (sp_lo sp) -> In b (sp_sec sp) -> send a <= s_off b) /\
  (sp_mode sp = MRing -> forall a b, In a (sp_sec sp) -> In b (sp_lo sp) -> send a <= s_off b) /\
  (sp_mode sp = MRing -> sp_lo sp <> []) /\
  (sp_mode sp = MEmpty <-> sp_sec sp = []).
Proof.
  intros Hs Hg Hok. destruct (spec_reachable_is_abs h gr size ops Hs Hg Hok) as (l & HI & Habs & Hl & Hsz).
  cbv zeta. rewrite <- Habs. cbn [abs sp_lo sp_sec sp_mode]. unfold spec_items. cbn [abs sp_lo sp_sec].
  pose proof HI as (HWI & HL). destruct (WInv_elim _ HWI) as (Hf & Hn & HW).
  split; [|split; [|split; [|split]]].
  - intros x Hx. fold (live l) in Hx. destruct (live_sound l HWI) as (Hb & _).
    destruct (Hb x Hx) as (H1 & H2 & H3 & _). unfold send. rewrite <- Hsz. auto.
  - intros Hm a b Ha Hb. apply lives_is_live in Ha, Hb. destruct Ha as (Ha & _). destruct Hb as (Hb & _).
    pose proof (order_pos _ _ _ _ _ _ _ _ _ HW) as Hpo. destruct HW. destruct w_order as (Hc & _).
    destruct (l_mode l) eqn:E; [|congruence|].
    + rewrite w_mode in Hb by reflexivity. destruct Hb.
    + cbn [order] in *. apply in_rev in Hb. unfold send. eapply chain_split_order; eauto.
  - intros Hm a b Ha Hb. apply lives_is_live in Ha, Hb. destruct Ha as (Ha & _). destruct Hb as (Hb & _).
    pose proof (order_pos _ _ _ _ _ _ _ _ _ HW) as Hpo. destruct HW. destruct w_order as (Hc & _).
    rewrite Hm in *. cbn [order] in *. unfold send. eapply chain_split_order; eauto.
  - intros Hm E. destruct HL. specialize (l_ring Hm).
    destruct (window l) as [|w ws] eqn:Hw; [congruence|].
    rewrite lives_cons_live in E by eauto. discriminate.
  - split.
    + intros Hm. destruct HW. rewrite w_mode by assumption. reflexivity.
    + intros E. destruct HL. apply l_sv.
      destruct (list_snoc_cases (second l)) as [E0|(v & e & E0)]; [exact E0|].
      rewrite E0, lives_snoc_live in E by eauto. destruct (lives v); discriminate.
Qed.

Corollary ends_never_cross h gr size ops :
  0 <= size -> pow2 gr -> sops_ok (spec_init h gr size) ops ->
  let sp := srun (spec_init h gr size) ops in
  sp_mode sp <> MRing -> forall a b, In a (sp_lo sp) -> In b (sp_sec sp) -> send a <= s_off b.
Proof. intros Hs Hg Hok. apply (spec_geometry h gr size ops Hs Hg Hok). Qed.

Corollary wrap_only_into_freed_front h gr size ops :
  0 <= size -> pow2 gr -> sops_ok (spec_init h gr size) ops ->
  let sp := srun (spec_init h gr size) ops in
  sp_mode sp = MRing ->
  sp_lo sp <> [] /\ forall a b, In a (sp_sec sp) -> In b (sp_lo sp) -> send a <= s_off b.
Proof.
  intros Hs Hg Hok sp Hm. destruct (spec_geometry h gr size ops Hs Hg Hok) as (_ & _ & H3 & H4 & _).
  split; [apply H4; exact Hm|apply H3; exact Hm].
Qed.
