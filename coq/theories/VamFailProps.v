(* VamFailProps.v — C10 at allocator level: a failed allocation call leaves no trace.

   same_slots_same_regions: two states that satisfy the allocator invariant and hold the same allocated
   Allocation objects have the same live regions in the same blocks (same block id, same device memory object,
   same handle / size / alignment / owner) — so they can differ only in EMPTY blocks (spare blocks kept or
   released by the retention policy), in the order of the blocks and in mapping reference counts.
   failed_alloc_no_trace: an AllocateMemory / AllocateMemorySlice that returns an error (any fault oracle: the
   device refusing a memory allocation or a map at any point, or a request that cannot be satisfied) leaves every
   Allocation object as it was — the requested ones unallocated and reusable — and all invariants hold; hence,
   by the first theorem, every existing allocation is exactly where it was and no block that holds an allocation
   was touched.  (Budget = truth and the retention bound after the failure are reachA_inv / reachL_inv of the
   state after the step: a failed step is a step of reach.) *)
From Coq Require Import ZArith NArith List Bool Lia.
From Arsenal Require Util Bits SyncMem Budget Select.
From Arsenal Require Import VamDev VamBlockList VamDefrag Vam VamInvMeta VamInv VamInvUpd VamInvDev VamInvStep VamInvStep2 VamInvThm VamProps VamDefragInv.
Import ListNotations.
Open Scope Z_scope.

Definition same_slots (v v' : vam) : Prop := forall s a, slot_is v' s a <-> slot_is v s a.

Theorem same_slots_same_regions c v v' :
  VamInv c v -> VamInv c v' -> same_slots v v' ->
  forall lr l b rg, get_blist v lr = Some l -> In b (bl_blocks l) -> In rg (meta_live (bk_meta b)) ->
  exists l' b' rg', get_blist v' lr = Some l' /\ In b' (bl_blocks l') /\ bk_id b' = bk_id b /\ bk_mem b' = bk_mem b /\
    In rg' (meta_live (bk_meta b')) /\ rg_handle rg' = rg_handle rg /\ rg_tag rg' = rg_tag rg /\
    rg_size rg' = rg_size rg /\ rg_align rg' = rg_align rg.
Proof.
  intros HI HI' Hs lr l b rg Hg Hb Hrg. unfold VamInv in *.
  destruct (vi_tags _ _ _ _ HI _ _ _ _ Hg Hb Hrg) as (s & a & Htag & Sa & Ka & La & Ba & Ha).
  destruct (vi_slots _ _ _ _ HI s a Sa (fun H => H)) as [(_ & l0 & b0 & rg0 & G0 & B0 & I0 & R0 & H0 & T0 & Z0 & A0 & M0 & _)|(K & _)]; [|congruence].
  rewrite La in G0. assert (l0 = l) by congruence. subst l0.
  pose proof (vi_lists _ _ _ _ HI _ _ Hg) as Hwf. pose proof (bw_nodup _ _ Hwf) as Hnd.
  assert (b0 = b).
  { pose proof (in_find_block _ _ Hnd B0) as F0. pose proof (in_find_block _ _ Hnd Hb) as F. rewrite I0, Ba in F0. congruence. }
  subst b0.
  pose proof (bw_meta _ _ Hwf) as Hm. rewrite Forall_forall in Hm. destruct (meta_live_sound _ (Hm _ Hb)) as (_ & Hndh & _).
  assert (rg0 = rg) by (apply (nodup_map_in_eq rg_handle (meta_live (bk_meta b)) rg0 rg Hndh R0 Hrg); congruence). subst rg0.
  apply Hs in Sa.
  destruct (vi_slots _ _ _ _ HI' s a Sa (fun H => H)) as [(_ & l' & b' & rg' & G' & B' & I' & R' & H' & T' & Z' & A' & M' & _)|(K & _)]; [|congruence].
  rewrite La in G'. exists l', b', rg'. repeat split; auto; congruence.
Qed.

(* the dedicated allocations keep their memory objects *)
Theorem same_slots_same_dedicated c v v' s a :
  VamInv c v -> VamInv c v' -> same_slots v v' -> slot_is v s a -> a_kind a = 2 ->
  exists d d', find_mem (m_mems (v_m v)) (a_mem a) = Some d /\ find_mem (m_mems (v_m v')) (a_mem a) = Some d' /\
               dm_type d' = dm_type d /\ dm_size d' = dm_size d.
Proof.
  intros HI HI' Hs Sa Ka. unfold VamInv in *.
  destruct (vi_slots _ _ _ _ HI s a Sa (fun H => H)) as [(K & _)|(_ & _ & _ & d & F & T & Z0)]; [congruence|].
  apply Hs in Sa.
  destruct (vi_slots _ _ _ _ HI' s a Sa (fun H => H)) as [(K & _)|(_ & _ & _ & d' & F' & T' & Z')]; [congruence|].
  exists d, d'. repeat split; auto; congruence.
Qed.

Section WithCfg.
Variable c : vcfg.
Hypothesis Hc : cfg_ok c.

Lemma same_slots_frame v v' S :
  tab_frame v v' S -> (forall s, In s S -> a_allocated (get_alloc v s) = false /\ a_allocated (get_alloc v' s) = false) -> same_slots v v'.
Proof.
  intros T Hd s a. destruct (in_dec Z.eq_dec s S) as [Hin|Hn]; [|apply (slot_is_frame _ _ _ _ _ T); exact Hn].
  destruct (Hd s Hin) as (D & D'). split; intros Sa; rewrite (get_alloc_slot _ _ _ Sa) in *; destruct Sa; congruence.
Qed.

Lemma same_slots_set_m v m : same_slots v (set_m v m).
Proof. intros s a. apply slot_is_set_m. Qed.

Lemma same_slots_trans a b d : same_slots a b -> same_slots b d -> same_slots a d.
Proof. intros H1 H2 s x. split; intros H; [apply H1; apply H2; exact H|apply H2; apply H1; exact H]. Qed.

(* AllocateMemory / AllocateMemorySlice that fail *)
Theorem failed_alloc_no_trace v o f v' code calls :
  VamInv c v -> op_ok v o -> step c v o f = (v', RErr code, calls) ->
  match o with
  | OAlloc slot _ _ _ _ _ _ _ _ _ =>
      VamInv c v' /\ tab_frame v v' [slot] /\ a_allocated (get_alloc v' slot) = a_allocated (get_alloc v slot) /\
      (a_allocated (get_alloc v slot) = false -> same_slots v v')
  | OAllocN slot n _ _ _ _ _ _ _ _ _ =>
      VamInv c v' /\ tab_frame v v' (slot_range slot (Z.to_nat n)) /\
      (forall s, In s (slot_range slot (Z.to_nat n)) -> a_allocated (get_alloc v' s) = a_allocated (get_alloc v s)) /\
      ((forall s, In s (slot_range slot (Z.to_nat n)) -> a_allocated (get_alloc v s) = false) -> same_slots v v')
  | _ => True
  end.
Proof.
  intros HI Hok Hs. unfold step in Hs.
  set (v0 := set_m v (clear_calls (set_fault (v_m v) f 0))) in *.
  assert (I0 : VamInv c v0).
  { unfold v0, VamInv. apply VamInvU_mach_same; [exact HI|]. split; cbn; [apply mems_same_refl|lia]. }
  destruct o; try exact I; cbn [exec op_ok] in *.
  - pose proof (allocate_memory_inv c Hc v0 [] slot size align typeBits usage flags req pref ctb pool I0 Hok) as P.
    destruct (allocate_memory c v0 slot size align typeBits usage flags req pref ctb pool) as (v1 & r).
    destruct r as [[]|code1| |]; cbn in Hs; try discriminate. injection Hs as <- _ _.
    destruct P as (I1 & T1 & _ & D1).
    assert (T : tab_frame v (set_m v1 (clear_calls (set_fault (v_m v1) no_fault (m_fired (v_m v1))))) [slot]).
    { eapply tab_frame_trans_same; [apply tab_frame_set_m|]. eapply tab_frame_trans_same; [exact T1|apply tab_frame_set_m]. }
    split; [unfold VamInv; apply VamInvU_mach_same; [exact I1|split; cbn; [apply mems_same_refl|lia]]|].
    split; [exact T|]. split; [exact D1|]. intros Hd. apply (same_slots_frame _ _ [slot] T).
    intros s [E|[]]. subst s. split; [exact Hd|]. change (a_allocated (get_alloc v1 slot) = false). rewrite D1. exact Hd.
  - destruct Hok as (H0 & Hn).
    pose proof (allocate_memory_slice_inv c Hc v0 [] slot n size align typeBits usage flags req pref ctb pool I0 H0 Hn) as P.
    destruct (allocate_memory_slice c v0 slot n size align typeBits usage flags req pref ctb pool) as (v1 & r). cbn zeta in P.
    destruct r as [[]|code1| |]; cbn in Hs; try discriminate. injection Hs as <- _ _.
    destruct P as (I1 & T1 & _ & D1).
    assert (T : tab_frame v (set_m v1 (clear_calls (set_fault (v_m v1) no_fault (m_fired (v_m v1))))) (slot_range slot (Z.to_nat n))).
    { eapply tab_frame_trans_same; [apply tab_frame_set_m|]. eapply tab_frame_trans_same; [exact T1|apply tab_frame_set_m]. }
    split; [unfold VamInv; apply VamInvU_mach_same; [exact I1|split; cbn; [apply mems_same_refl|lia]]|].
    split; [exact T|]. split; [exact D1|]. intros Hd. apply (same_slots_frame _ _ _ T).
    intros s Hin. split; [apply Hd; exact Hin|]. change (a_allocated (get_alloc v1 s) = false). rewrite (D1 s Hin). apply Hd. exact Hin.
Qed.


(* CreatePool that fails: the pool is not linked, the pool ids are as before *)
Lemma create_pool_fail v ty flags blockSize minB maxB0 minAlign :
  VamInvU c v [] [] ->
  let '(v', r) := create_pool c v ty flags blockSize minB maxB0 minAlign in
  match r with
  | ER _ => find_pool (v_pools v') (v_next_uid v) = None /\ map p_id (v_pools v') = map p_id (v_pools v) /\
            v_next_pool_id v' = v_next_pool_id v
  | _ => True
  end.
Proof.
  intros HI. unfold create_pool.
  assert (Hfresh0 : find_pool (v_pools v) (v_next_uid v) = None).
  { apply find_pool_none_fresh. eapply Forall_impl; [|exact (vi_pools_uid _ _ _ _ HI)]. cbn. intros; lia. }
  assert (Hrefl : find_pool (v_pools v) (v_next_uid v) = None /\ map p_id (v_pools v) = map p_id (v_pools v) /\ v_next_pool_id v = v_next_pool_id v) by auto.
  destruct (_ <? minB); [exact Hrefl|]. destruct ((ty <? 0) || (ntypes c <=? ty)) eqn:Ety; [exact Hrefl|].
  destruct (negb (N.testbit _ _)); [exact Hrefl|]. destruct ((0 <? minAlign) && negb (is_pow2_or_zero minAlign)) eqn:Eal; [exact Hrefl|].
  set (bs := if blockSize =? 0 then preferred_block_size c ty else blockSize).
  set (al := if type_min_alignment c ty <? minAlign then minAlign else type_min_alignment c ty).
  set (gr := if Z.testbit flags 0 then 1 else eff_granularity c).
  set (l := mkBlist ty bs minB (if maxB0 =? 0 then MAXINT else maxB0) gr (negb (blockSize =? 0)) (Z.land flags 2) al [] 0 true).
  set (uid := v_next_uid v).
  assert (Hwf : blist_wf c l).
  { constructor; cbn.
    9: (unfold gr, eff_granularity; destruct (Z.testbit flags 0); auto).
    all: try constructor; try lia.
    - unfold type_valid. apply orb_false_iff in Ety. destruct Ety as (E1 & E2). apply Z.ltb_ge in E1. apply Z.leb_gt in E2.
      apply andb_true_iff. split; [apply Z.leb_le; lia|apply Z.ltb_lt; lia].
    - unfold al. pose proof (type_min_alignment_pow2 c Hc ty) as Ht. destruct (type_min_alignment c ty <? minAlign) eqn:E; [|auto].
      apply Z.ltb_lt in E. pose proof (Bits.pow2_pos _ Ht). apply andb_false_iff in Eal. destruct Eal as [Eal|Eal].
      + apply Z.ltb_ge in Eal. lia.
      + apply negb_false_iff in Eal. destruct (pow2_or_zero_spec _ Eal); [lia|auto].
    - unfold gr. destruct (Z.testbit flags 0); [apply Bits.pow2_1|apply (eff_granularity_pow2 c Hc)].
    - unfold al. destruct (type_min_alignment c ty <? minAlign) eqn:E; [apply Z.ltb_lt in E|]; unfold type_min_alignment in *; lia. }
  pose proof (VamInvU_add_pool c v [] [] l HI Hwf eq_refl) as I0. fold uid in I0.
  set (v0 := mkVam (v_m v) (v_global v) (v_lists v) (v_ded v) (mkPool uid (v_next_pool_id v) l [] :: v_pools v)
                   (v_next_pool_id v + 1) (uid + 1) (v_tab v)) in *.
  pose proof (create_min_blocks_inv c Hc (Z.to_nat minB) v0 [] [] (LPool uid) bs I0) as CM.
  destruct (create_min_blocks c (Z.to_nat minB) v0 (LPool uid) bs) as (v1 & r).
  destruct CM as (I1 & T1 & L1).
  assert (T01 : tab_frame v v1 []) by (destruct T1 as (A & B); split; auto).
  destruct r as [[]|code| |]; auto.
  (* creation failed: the blocks created so far are released, the pool unlinked, nextPoolId restored *)
  assert (Hfresh : find_pool (v_pools v) uid = None).
  { apply find_pool_none_fresh. eapply Forall_impl; [|exact (vi_pools_uid _ _ _ _ HI)]. cbn. intros; lia. }
  assert (Hu1 : map p_uid (v_pools v1) = uid :: map p_uid (v_pools v)) by (rewrite (lf_uids _ _ L1); reflexivity).
  assert (Hp1 : map p_id (v_pools v1) = v_next_pool_id v :: map p_id (v_pools v)) by (rewrite (lf_pids _ _ L1); reflexivity).
  assert (Hrem : map p_id (remove_pool (v_pools v1) uid) = map p_id (v_pools v)).
  { destruct (v_pools v1) as [|q qs]; cbn in *; [discriminate|]. injection Hu1 as Hq Hu. injection Hp1 as Hq' Hp.
    rewrite Hq, Z.eqb_refl. exact Hp. }
  assert (Hids : Forall (fun q => p_id q < v_next_pool_id v) (remove_pool (v_pools v1) uid)).
  { apply Forall_forall. intros q Hq. assert (In (p_id q) (map p_id (v_pools v))) by (rewrite <- Hrem; apply in_map; auto).
    apply in_map_iff in H. destruct H as (q0 & E0 & H0). destruct (vi_pools_id _ _ _ _ HI) as (_ & Hf). rewrite Forall_forall in Hf. rewrite <- E0. auto. }
  pose proof (pool_destroy_inv c v1 uid (v_next_pool_id v) I1 Hids) as PD.
  (* the new pool is not referenced by any Allocation object, so its destruction cannot be refused *)
  assert (Hnoref : forall s a, slot_is v1 s a -> a_lref a <> LPool uid).
  { intros s a S E. assert (S0 : slot_is v s a) by (apply (slot_is_frame _ _ _ _ _ T01) in S; auto).
    destruct (vi_slots _ _ _ _ HI s a S0 (fun H => H)) as [(_ & l2 & _ & _ & G & _)|(_ & _ & (l2 & G & _) & _)];
      rewrite E in G; cbn in G; rewrite Hfresh in G; discriminate. }
  destruct (pool_destroy c v1 uid) as (v2 & dr). destruct dr as [[]|dcode| |]; auto.
  - destruct PD as (I2 & T2 & F2 & E2). unfold unlink_pool. cbn [v_pools v_next_pool_id]. rewrite (remove_pool_absent _ _ F2).
    split; [exact F2|]. split; [rewrite E2; exact Hrem|reflexivity].
  - exfalso. destruct PD as (_ & p1 & Hf1 & [Hd|(b & Hb & He)]).
    + apply Hd. pose proof (lf_ded _ _ L1 (LPool uid)) as D. cbn in D. rewrite Hf1, Z.eqb_refl in D. exact D.
    + assert (Hg1 : get_blist v1 (LPool uid) = Some (p_list p1)) by (cbn; rewrite Hf1; reflexivity).
      rewrite (unreferenced_blocks_empty c v1 (LPool uid) (p_list p1) I1 Hg1 Hnoref b Hb) in He. discriminate.
Qed.

(* CreatePool that fails (argument check, or the device refusing one of the minimum blocks): every Allocation object
   is untouched, the pool is not linked (its would-be identity is unknown to the allocator), the pool ids are
   exactly as before and the invariants hold - the blocks created before the failure were destroyed again, because
   every device memory object of the state after is owned by a block of a linked list or a dedicated allocation
   (VamInv: vi_dev_owned) *)
Theorem failed_create_pool_no_trace v ty flags blockSize minB maxB minAlign f v' code calls :
  VamInv c v -> step c v (OMkPool ty flags blockSize minB maxB minAlign) f = (v', RErr code, calls) ->
  VamInv c v' /\ same_slots v v' /\ find_pool (v_pools v') (v_next_uid v) = None /\
  map p_id (v_pools v') = map p_id (v_pools v) /\ v_next_pool_id v' = v_next_pool_id v.
Proof.
  intros HI Hs. unfold step in Hs. cbn [exec] in Hs.
  set (v0 := set_m v (clear_calls (set_fault (v_m v) f 0))) in *.
  assert (I0 : VamInv c v0).
  { unfold v0, VamInv. apply VamInvU_mach_same; [exact HI|]. split; cbn; [apply mems_same_refl|lia]. }
  pose proof (create_pool_inv c Hc v0 ty flags blockSize minB maxB minAlign I0) as P.
  pose proof (create_pool_fail v0 ty flags blockSize minB maxB minAlign I0) as Q.
  destruct (create_pool c v0 ty flags blockSize minB maxB minAlign) as (v1 & r).
  destruct r as [[]|code1| |]; cbn in Hs; try discriminate. injection Hs as <- _ _.
  destruct P as (I1 & T1). destruct Q as (Q1 & Q2 & Q3).
  split; [unfold VamInv; apply VamInvU_mach_same; [exact I1|split; cbn; [apply mems_same_refl|lia]]|].
  split; [|cbn [v_pools v_next_pool_id set_m]; auto].
  apply (same_slots_frame v _ []); [|intros s []].
  eapply tab_frame_trans_same; [apply tab_frame_set_m|]. eapply tab_frame_trans_same; [exact T1|apply tab_frame_set_m].
Qed.


(* AllocateMemoryForBuffer / AllocateMemoryForImage that fail *)
Lemma allocate_for_resource_fail_dead v s image res usage flags req pref ctb pool :
  VamInvU c v [] [] -> 0 <= s < zlen (v_tab v) -> a_allocated (get_alloc v s) = false ->
  let '(v', r) := allocate_for_resource c v s image res usage flags req pref ctb pool in
  match r with ER _ => tab_frame v v' [s] /\ a_allocated (get_alloc v' s) = false | _ => True end.
Proof.
  intros HI Hr Hd. unfold allocate_for_resource.
  assert (Hrefl : tab_frame v v [s] /\ a_allocated (get_alloc v s) = false) by (split; [apply tab_frame_refl|exact Hd]).
  destruct (res =? 0); [exact Hrefl|]. rewrite Hd.
  destruct (get_requirements_spec c (v_m v) image res) as (m2 & rq & rd & pd & Egr & H2). rewrite Egr.
  assert (I2 : VamInvU c (set_m v m2) [] []) by (apply VamInvU_mach_same; auto).
  assert (Hnd : NoDup [s]) by (constructor; [intros []|constructor]).
  assert (Hdead : dead_slots (set_m v m2) [s]) by (intros x [<-|[]]; auto).
  match goal with |- context [multi_allocate c (set_m v m2) ?a1 ?a2 ?a3 ?a4 ?a5 ?a6 ?a7 usage flags req pref ctb pool ?sb [s]] =>
    pose proof (multi_allocate_inv c Hc (set_m v m2) [] a1 a2 a3 a4 a5 a6 a7 usage flags req pref ctb pool sb [s] I2 Hnd Hdead) as MA;
    destruct (multi_allocate c (set_m v m2) a1 a2 a3 a4 a5 a6 a7 usage flags req pref ctb pool sb [s]) as (v3 & r) end.
  destruct r as [[]|code| |]; auto. destruct MA as (_ & T & _ & D).
  split; [eapply tab_frame_trans_same; [apply tab_frame_set_m|exact T]|apply (D s); left; reflexivity].
Qed.

Theorem failed_alloc_for_no_trace v slot image res usage flags req pref ctb pool f v' code calls :
  VamInv c v -> 0 <= slot < zlen (v_tab v) -> a_allocated (get_alloc v slot) = false ->
  step c v (OAllocFor slot image res usage flags req pref ctb pool) f = (v', RErr code, calls) ->
  VamInv c v' /\ same_slots v v'.
Proof.
  intros HI Hok Hdead Hs.
  pose proof (step_preserves c Hc v (OAllocFor slot image res usage flags req pref ctb pool) f HI Hok) as P. rewrite Hs in P. destruct (P ltac:(discriminate) ltac:(discriminate)) as (I1 & _).
  split; [exact I1|]. unfold step in Hs. cbn [exec] in Hs.
  set (v0 := set_m v (clear_calls (set_fault (v_m v) f 0))) in *.
  assert (I0 : VamInv c v0).
  { unfold v0, VamInv. apply VamInvU_mach_same; [exact HI|]. split; cbn; [apply mems_same_refl|lia]. }
  pose proof (allocate_for_resource_fail_dead v0 slot image res usage flags req pref ctb pool I0 Hok Hdead) as Q.
  destruct (allocate_for_resource c v0 slot image res usage flags req pref ctb pool) as (v1 & r1).
  destruct r1 as [[]|code1| |]; cbn in Hs; try discriminate. injection Hs as <- _ _. destruct Q as (T1 & D1).
  apply (same_slots_frame v _ [slot]).
  - eapply tab_frame_trans_same; [apply tab_frame_set_m|]. eapply tab_frame_trans_same; [exact T1|apply tab_frame_set_m].
  - intros s [<-|[]]. split; [exact Hdead|exact D1].
Qed.

End WithCfg.
