(* VamPoolProps.v — C20: a successful Pool.Destroy leaves nothing of the pool behind: the pool is unlinked, no
   device memory object of any of its blocks is left on the device, the allocator invariants hold, and no
   Allocation object changed. *)
From Coq Require Import ZArith NArith List Bool Lia.
From Arsenal Require Util Bits SyncMem Budget Select.
From Arsenal Require Import VamDev VamBlockList VamDefrag Vam VamInvMeta VamInv VamInvUpd VamInvDev VamInvStep VamInvStep2 VamInvThm VamProps.
Import ListNotations.
Open Scope Z_scope.

Theorem pool_destroy_clean c v uid v' :
  cfg_ok c -> VamInv c v -> pool_destroy c v uid = (v', OK tt) ->
  VamInv c v' /\ tab_frame v v' [] /\
  find_pool (v_pools v') uid = None /\ get_blist v' (LPool uid) = None /\
  (forall lr, lr <> LPool uid -> get_blist v' lr = get_blist v lr) /\
  (forall l b, get_blist v (LPool uid) = Some l -> In b (bl_blocks l) -> find_mem (m_mems (v_m v')) (bk_mem b) = None).
Proof.
  intros Hc HI E. unfold VamInv in *.
  pose proof (rmpool_inv c v uid HI) as P. rewrite E in P. destruct P as (I' & T').
  assert (Hids : Forall (fun q => p_id q < v_next_pool_id v) (remove_pool (v_pools v) uid)).
  { apply Forall_forall. intros q Hq. destruct (vi_pools_id _ _ _ _ HI) as (_ & Hf). rewrite Forall_forall in Hf. apply Hf.
    eapply in_remove_pool; eauto. }
  pose proof (pool_destroy_inv c v uid (v_next_pool_id v) HI Hids) as P. rewrite E in P. destruct P as (_ & _ & Hfp & _).
  assert (Hgp : get_blist v' (LPool uid) = None) by (cbn; rewrite Hfp; reflexivity).
  assert (Hoth : forall lr, lr <> LPool uid -> get_blist v' lr = get_blist v lr).
  { intros lr Hne. unfold pool_destroy in E. destruct (find_pool (v_pools v) uid) as [p|]; [|discriminate]. destruct (p_ded p); [|discriminate].
    pose proof (bl_destroy_other c v (LPool uid)) as BO. destruct (bl_destroy c v (LPool uid)) as (v1 & r1). specialize (BO _ _ eq_refl).
    destruct r1 as [[]|code| |]; try discriminate. injection E as <-. rewrite <- (BO lr Hne).
    destruct lr as [t|u]; cbn; [reflexivity|]. rewrite find_remove_pool. destruct (u =? uid) eqn:Eu; [apply Z.eqb_eq in Eu; congruence|reflexivity]. }
  split; [exact I'|]. split; [exact T'|]. split; [exact Hfp|]. split; [exact Hgp|]. split; [exact Hoth|].
  intros l b Hg Hb. destruct (find_mem (m_mems (v_m v')) (bk_mem b)) as [d|] eqn:Ef; [exfalso|reflexivity].
  destruct (find_mem_in _ _ _ Ef) as (Hd & Hid).
  destruct (vi_dev_owned _ _ _ _ I' d Hd) as [(lr' & l' & b' & G' & B' & M')|(s & a & Sa & Ka & Ma)].
  - assert (Hne : lr' <> LPool uid) by (intros ->; congruence).
    rewrite (Hoth _ Hne) in G'. destruct (vi_block_mem_inj _ _ _ _ HI _ _ _ _ _ _ G' B' Hg Hb ltac:(congruence)) as (Elr & _). contradiction.
  - assert (Sa0 : slot_is v s a) by (apply (slot_is_frame _ _ _ _ _ T'); [intros []|exact Sa]).
    apply (vi_ded_not_block _ _ _ _ HI s a _ _ _ Sa0 Ka Hg Hb). congruence.
Qed.
