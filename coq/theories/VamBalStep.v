(* VamBalStep.v — sixth pass over the block-list layer: VamInvM (VamMapStep.v) together with the balance of map
   references BInv (VamBal.v).  The functions that change a reference counter or an Allocation object
   (commitAllocationRequest, freeWithLock) get their balance half here (with the slack invariant BInvD); the
   composite functions are re-traversed with the combined invariant VamInvB (scripts follow VamMapStep.v).
   G (outstanding user maps per Allocation object) is fixed inside one API call; an Allocation that is freed has
   no outstanding user map (hypothesis G s = 0 of the Free lemmas; in the Go code Free waits for the mapLock). *)
From Coq Require Import ZArith List Bool Lia Permutation.
From Arsenal Require Import Util Budget BudgetProofs VamDev VamBlockList Vam VamInvMeta VamInv VamInvUpd VamInvDev.
From Arsenal Require Import VamInvStep VamInvStep2 VamAcct VamAcctStep VamMap VamMapStep VamBal.
From Arsenal Require SyncMem SyncMemProofs LinearAlloc.
Import ListNotations.
Open Scope Z_scope.

Section WithCfg.
Variable c : vcfg.
Hypothesis Hc : cfg_ok c.
Hypothesis Hmax : 0 <= c_maxcount c < 2147483647.
Hypothesis Hlarge : 0 <= c_large c < 2 ^ 61.
Variable ms0 : list dmem.
Variable G : Z -> Z.
Set Default Proof Using "Hc Hmax Hlarge".

Notation VamInvM := (VamMapStep.VamInvM c ms0).
Notation mach_sameX := (VamMapStep.mach_sameX c).

(* all four invariants *)
Record VamInvB (v : vam) (U X : list Z) : Prop := mkVamInvB {
  vb_m : VamInvM v U X;
  vb_b : BInv v G X
}.

Lemma vb_s v U X : VamInvB v U X -> VamInvU c v U X.
Proof. intros [A _]. apply (VamMapStep.vm_s c Hc Hmax Hlarge ms0 _ _ _ A). Qed.
Lemma vb_aa v U X : VamInvB v U X -> AInv c v X.
Proof. intros [A _]. apply (VamMapStep.vm_aa c Hc Hmax Hlarge ms0 _ _ _ A). Qed.
Lemma vb_mm v U X : VamInvB v U X -> MM ms0 v X.
Proof. intros [A _]. apply (VamMapStep.vm_m c ms0 _ _ _ A). Qed.

Lemma heap_budget_sameX m h : mach_sameX m (fst (fst (heap_budget c m h))).
Proof. apply (VamMapStep.heap_budget_sameX c Hc Hmax Hlarge). Qed.

Lemma VamInvB_mach_same v U X m' : VamInvB v U X -> mach_sameX (v_m v) m' -> VamInvB (set_m v m') U X.
Proof.
  intros [A H] Hm. split; [apply (VamMapStep.VamInvM_mach_same c Hc Hmax Hlarge ms0); auto|apply BInv_mach; exact H].
Qed.

Lemma put_block_same_inv v U X lr l b nb :
  VamInvB v U X -> get_blist v lr = Some l -> In b (bl_blocks l) -> block_same b nb -> MInv (bk_meta nb) -> bk_sm nb = bk_sm b ->
  VamInvB (put_block v lr nb) U X /\ tab_frame v (put_block v lr nb) [] /\ lists_frame v (put_block v lr nb).
Proof.
  intros [A H] Hg Hb Hs Hm Esm.
  destruct (VamMapStep.put_block_same_inv c Hc Hmax Hlarge ms0 v U X lr l b nb A Hg Hb Hs Hm Esm) as (I1 & T1 & L1).
  split; [|split; auto]. split; [exact I1|]. apply (BInv_lists v G X); [exact H|apply put_block_tab|].
  apply blocks_sub_R. rewrite (put_block_eq _ _ _ _ Hg). apply (blocks_sub_set_blist v lr l _ Hg). cbn. intros b' Hb'.
  pose proof (bw_nodup _ _ (vi_lists _ _ _ _ (VamMapStep.vm_s c Hc Hmax Hlarge ms0 _ _ _ A) _ _ Hg)) as Hnd.
  destruct (in_replace_block _ _ _ Hnd Hb') as [(-> & _)|(Hin & _)]; [|exists b'; auto].
  exists b. destruct Hs as (_ & Em & _). auto.
Qed.

Lemma permute_inv v U X lr l bs :
  VamInvB v U X -> get_blist v lr = Some l -> Permutation (bl_blocks l) bs ->
  VamInvB (set_blist v lr (set_blocks l bs)) U X /\ tab_frame v (set_blist v lr (set_blocks l bs)) [] /\
  lists_frame v (set_blist v lr (set_blocks l bs)).
Proof.
  intros [A H] Hg P. destruct (VamMapStep.permute_inv c Hc Hmax Hlarge ms0 v U X lr l bs A Hg P) as (I1 & T1 & L1).
  split; [|split; auto]. split; [exact I1|]. apply (BInv_lists v G X); [exact H|apply set_blist_tab|].
  apply blocks_sub_R. apply blocks_sub_perm; auto.
Qed.

Lemma sort_list_inv v U X lr :
  VamInvB v U X ->
  VamInvB (sort_list v lr) U X /\ tab_frame v (sort_list v lr) [] /\ lists_frame v (sort_list v lr).
Proof.
  intros [A H]. destruct (VamMapStep.sort_list_inv c Hc Hmax Hlarge ms0 v U X lr A) as (I1 & T1 & L1).
  split; [|split; auto]. split; [exact I1|]. apply (BInv_lists v G X); [exact H|destruct T1 as (_ & F); unfold sort_list; destruct (get_blist v lr); [apply set_blist_tab|reflexivity]|].
  apply blocks_sub_R. unfold sort_list. destruct (get_blist v lr) as [l|] eqn:Hg; [|apply blocks_sub_refl].
  apply (blocks_sub_set_blist v lr l _ Hg). intros b' Hb'. exists b'. split; [|auto].
  unfold incrementally_sort in Hb'. destruct (_ || _); [exact Hb'|]. cbn in Hb'.
  eapply Permutation_in; [apply Permutation_sym; apply bubble_once_perm|exact Hb'].
Qed.

(* ---------------------------------------------------------------- CreateBlock / block Destroy *)

(* nobody uses a memory object that does not exist *)
Lemma users_fresh v U X mem s : VamInvU c v U X -> find_mem (m_mems (v_m v)) mem = None -> users v G X mem s = 0.
Proof.
  intros HI Hf. destruct (a_allocated (get_alloc v s)) eqn:Ea; [|apply users_dead; auto].
  destruct (in_dec Z.eq_dec s X) as [HX|HX]; [apply users_X; auto|].
  pose proof (get_alloc_allocated _ _ Ea) as Sa.
  destruct (vi_slots _ _ _ _ HI s _ Sa HX) as [(K & l & b & rg & Hg & Hb & _ & _ & _ & _ & _ & _ & Hmem & _)|(K & _)]; [|apply users_kind; lia].
  apply users_other. rewrite Hmem. intros E. destruct (vi_block_mem _ _ _ _ HI _ _ _ Hg Hb) as (d & Hf' & _). congruence.
Qed.

Lemma create_block_BB v U X lr size :
  BInv v G X -> VamInvU c v U X -> let '(v', r) := create_block c v lr size in BInv v' G X.
Proof.
  intros HB HI. unfold create_block. destruct (get_blist v lr) as [l|] eqn:Hg; [|exact HB].
  pose proof (alloc_vk_spec c (v_m v) (bl_type l) size 0 (vi_dev_pos _ _ _ _ HI)) as SP.
  destruct (alloc_vk c (v_m v) (bl_type l) size 0) as (m1 & r).
  destruct r as [mem|code| |]; try (apply BInv_mach; exact HB).
  destruct SP as (Eid & _).
  assert (Hfresh : find_mem (m_mems (v_m v)) mem = None) by (apply (VamMapStep.find_mem_fresh c Hc Hmax Hlarge v U X); [exact HI|lia]).
  destruct HB as [B D G1 G2]. constructor.
  - intros lr0 l0 b0 G0 B0. rewrite set_blist_set_m, get_blist_set_m in G0.
    assert (Et : forall mem0, refs_truth (set_blist (set_m v m1) lr (set_blocks_next l (bl_blocks l ++ [mkBlock (bl_next l) mem SyncMem.sm_init (meta_init (bl_algo l) (bl_gran l) size)]) (bl_next l + 1))) G X mem0 = refs_truth v G X mem0).
    { intros mem0. apply refs_truth_tab. rewrite set_blist_tab. reflexivity. }
    rewrite Et.
    destruct (get_set_blist_cases v lr l _ lr0 l0 Hg G0) as [(-> & ->)|(Hne & G0')].
    + cbn [bl_blocks set_blocks_next] in B0. apply in_app_iff in B0. destruct B0 as [B0|[<-|[]]]; [eauto|].
      cbn [bk_sm bk_mem]. symmetry. apply refs_truth_zero. intros s _. apply (users_fresh v U X); auto.
    + eauto.
  - intros s a Sa. apply D. unfold slot_is in *. rewrite set_blist_tab in Sa. exact Sa.
  - exact G1.
  - intros s. unfold get_alloc. rewrite set_blist_tab. apply G2.
Qed.

Lemma destroy_block_obs v ty b :
  v_tab (fst (destroy_block c v ty b)) = v_tab v /\ forall lr, get_blist (fst (destroy_block c v ty b)) lr = get_blist v lr.
Proof.
  unfold destroy_block. destruct (negb _); [split; reflexivity|].
  destruct (free_vk c (v_m v) ty (meta_size (bk_meta b)) (bk_mem b)) as (m1 & r). cbn [fst].
  split; [reflexivity|intros; apply get_blist_set_m].
Qed.

Lemma destroy_block_BB v X M d ty b : BInvD v G X M d -> BInvD (fst (destroy_block c v ty b)) G X M d.
Proof.
  intros H. destruct (destroy_block_obs v ty b) as (T & L). apply (BInvD_lists v G X M d); [exact H|exact T|].
  apply blocks_sub_R. apply blocks_sub_eq. exact L.
Qed.

Lemma remove_destroy_BB v U X lr l b :
  BInv v G X -> VamInvU c v U X -> get_blist v lr = Some l -> In b (bl_blocks l) -> meta_is_empty (bk_meta b) = true ->
  BInv (fst (destroy_block c (set_blist v lr (set_blocks l (remove_block (bl_blocks l) (bk_id b)))) (bl_type l) b)) G X.
Proof.
  intros HB HI Hg Hb He. apply (BInvD_0 _ _ _ 0). apply destroy_block_BB. apply (BInv_D _ _ _ 0).
  apply (BInv_lists v G X); [exact HB|apply set_blist_tab|]. apply blocks_sub_R.
  apply (blocks_sub_set_blist v lr l _ Hg). cbn. intros b' Hb'. exists b'. split; [eapply in_remove_block; eauto|auto].
Qed.

(* ---------------------------------------------------------------- elementary steps with the slack *)

(* a block is replaced by one with the same memory object and reference counter *)
Lemma BD_put_same w X M d lr bc nb :
  BInvD w G X M d -> get_block w lr (bk_id nb) = Some bc -> bk_mem nb = bk_mem bc ->
  SyncMem.mapRefs (bk_sm nb) = SyncMem.mapRefs (bk_sm bc) ->
  BInvD (put_block w lr nb) G X M d.
Proof.
  intros H Hgb Em Es. destruct (get_block_in _ _ _ _ Hgb) as (l & Hg & Hb & Hid).
  apply (BInvD_lists w G X M d); [exact H|apply put_block_tab|].
  rewrite (put_block_eq _ _ _ _ Hg). intros lr0 l0 b0 G0 B0.
  destruct (get_set_blist_cases w lr l _ lr0 l0 Hg G0) as [(-> & ->)|(Hne & G0')].
  - cbn in B0. destruct (replace_block_cases _ _ _ B0) as [->|Hin]; [exists lr, l, bc; auto|exists lr, l, b0; auto].
  - exists lr0, l0, b0. auto.
Qed.

(* the reference counter of block bc (memory M) of list lr moved by e *)
Lemma BD_put_touch w U X d lr l bc m' nb e :
  BInvD w G X (bk_mem bc) d -> VamInvU c w U X -> get_blist w lr = Some l -> In bc (bl_blocks l) ->
  bk_id nb = bk_id bc -> bk_mem nb = bk_mem bc -> SyncMem.mapRefs (bk_sm nb) = SyncMem.mapRefs (bk_sm bc) + e ->
  BInvD (put_block (set_m w m') lr nb) G X (bk_mem bc) (d + e).
Proof.
  intros H HI Hg Hb Eid Em Es.
  assert (Hgm : get_blist (set_m w m') lr = Some l) by (rewrite get_blist_set_m; exact Hg).
  pose proof (bw_nodup _ _ (vi_lists _ _ _ _ HI _ _ Hg)) as Hnd.
  apply (BInvD_touch w G X (bk_mem bc) d _ e H); [rewrite put_block_tab; reflexivity|].
  intros lr0 l0 b0 G0 B0. rewrite (put_block_eq _ _ _ _ Hgm) in G0.
  destruct (get_set_blist_cases (set_m w m') lr l _ lr0 l0 Hgm G0) as [(-> & ->)|(Hne & G0')].
  - cbn in B0. destruct (in_replace_block _ _ _ Hnd B0) as [(-> & _)|(Hin & Hid)].
    + exists lr, l, bc. rewrite Em, Z.eqb_refl. auto.
    + exists lr, l, b0. split; [exact Hg|]. split; [exact Hin|]. split; [reflexivity|].
      destruct (bk_mem b0 =? bk_mem bc) eqn:E; [|lia]. apply Z.eqb_eq in E.
      destruct (vi_block_mem_inj _ _ _ _ HI _ _ _ _ _ _ Hg Hin Hg Hb E) as (_ & E2). congruence.
  - rewrite get_blist_set_m in G0'. exists lr0, l0, b0. split; [exact G0'|]. split; [exact B0|]. split; [reflexivity|].
    destruct (bk_mem b0 =? bk_mem bc) eqn:E; [|lia]. apply Z.eqb_eq in E.
    destruct (vi_block_mem_inj _ _ _ _ HI _ _ _ _ _ _ G0' B0 Hg Hb E) as (E2 & _). contradiction.
Qed.

(* the list lr is replaced: its blocks are the touched block (counter moved by e) or other blocks of the old list *)
Lemma BD_set_touch w U X d lr lw bc m' lnew e :
  BInvD w G X (bk_mem bc) d -> VamInvU c w U X -> get_blist w lr = Some lw -> In bc (bl_blocks lw) ->
  (forall b0, In b0 (bl_blocks lnew) ->
     (bk_mem b0 = bk_mem bc /\ SyncMem.mapRefs (bk_sm b0) = SyncMem.mapRefs (bk_sm bc) + e) \/ (In b0 (bl_blocks lw) /\ bk_id b0 <> bk_id bc)) ->
  BInvD (set_blist (set_m w m') lr lnew) G X (bk_mem bc) (d + e).
Proof.
  intros H HI Hg Hb Hnew.
  assert (Hgm : get_blist (set_m w m') lr = Some lw) by (rewrite get_blist_set_m; exact Hg).
  apply (BInvD_touch w G X (bk_mem bc) d _ e H); [rewrite set_blist_tab; reflexivity|].
  intros lr0 l0 b0 G0 B0.
  destruct (get_set_blist_cases (set_m w m') lr lw _ lr0 l0 Hgm G0) as [(-> & ->)|(Hne & G0')].
  - destruct (Hnew _ B0) as [(E1 & E2)|(Hin & Hid)].
    + exists lr, lw, bc. rewrite E1, Z.eqb_refl. auto.
    + exists lr, lw, b0. split; [exact Hg|]. split; [exact Hin|]. split; [reflexivity|].
      destruct (bk_mem b0 =? bk_mem bc) eqn:E; [|lia]. apply Z.eqb_eq in E.
      destruct (vi_block_mem_inj _ _ _ _ HI _ _ _ _ _ _ Hg Hin Hg Hb E) as (_ & E2). contradiction.
  - rewrite get_blist_set_m in G0'. exists lr0, l0, b0. split; [exact G0'|]. split; [exact B0|]. split; [reflexivity|].
    destruct (bk_mem b0 =? bk_mem bc) eqn:E; [|lia]. apply Z.eqb_eq in E.
    destruct (vi_block_mem_inj _ _ _ _ HI _ _ _ _ _ _ G0' B0 Hg Hb E) as (E2 & _). contradiction.
Qed.

(* a granted request is always served (for the linear algorithm: LinearAlloc.alloc_spec) *)
Lemma meta_alloc_ok mt size align upper sub strat mt1 rq slot :
  MInv mt -> Bits.pow2 align -> meta_create_request mt size align upper sub strat = MGranted mt1 rq ->
  exists mt2 h, meta_alloc mt1 rq sub slot size align = OK (mt2, h).
Proof using.
  intros HI Hal H. pose proof (meta_alloc_spec _ _ _ _ _ _ _ _ slot HI Hal H) as S.
  destruct (meta_alloc mt1 rq sub slot size align) as [(mt2 & h)|code| |] eqn:E; try contradiction; [eauto|].
  destruct mt as [t|l]; [contradiction|]. exfalso. cbn in H.
  pose proof (LinearAlloc.create_request_spec l size align upper sub strat MAXINT HI Hal) as R.
  destruct (Linear.create_request l size align upper sub strat MAXINT) as [r| | |] eqn:Er; try discriminate.
  injection H as <- <-. destruct R as (Rok & Hat).
  destruct (LinearAlloc.alloc_spec l size align r sub (Some slot) HI Rok Hat (Bits.pow2_pos _ Hal)) as (l' & Ea & _).
  cbn [meta_alloc] in E. rewrite Ea in E. discriminate.
Qed.

(* ---------------------------------------------------------------- allocFromBlock / commitAllocationRequest *)

Lemma alloc_from_block_BB v U X lr bid size align flags sub s :
  BInv v G X -> MM ms0 v X -> VamInvU c v U X -> Bits.pow2 align -> 0 <= s < zlen (v_tab v) -> a_allocated (get_alloc v s) = false ->
  let '(v', r) := alloc_from_block c v lr bid size align flags sub s in
  match r with AFPanic | AFStuck => True | _ => BInv v' G X end.
Proof.
  intros HB HM HI Hal Hs Hdead. unfold alloc_from_block.
  destruct (get_block v lr bid) as [b|] eqn:Hgb; [|exact I].
  destruct (negb (meta_may_have_free (bk_meta b) sub size)); [exact HB|].
  destruct (get_block_in _ _ _ _ Hgb) as (l & Hg & Hb & Hbid).
  pose proof (vi_lists _ _ _ _ HI _ _ Hg) as Hwf. pose proof (bw_nodup _ _ Hwf) as Hnd.
  pose proof (bw_meta _ _ Hwf) as Hmeta. rewrite Forall_forall in Hmeta. pose proof (Hmeta _ Hb) as Hmi.
  destruct (meta_create_request (bk_meta b) size align (fl flags F_UPPER) sub (strategy_of flags)) as [mt1 rq| | |] eqn:Hrq;
    try exact I; try exact HB.
  destruct (meta_request_spec _ _ _ _ _ _ _ _ Hmi Hal Hrq) as (Hmi1 & Hl1 & Hs1).
  pose proof (meta_request_g _ _ _ _ _ _ _ _ Hmi Hal Hrq) as Hg1g.
  destruct (meta_alloc_ok _ _ _ _ _ _ _ _ s Hmi Hal Hrq) as (mt2 & h & Ema).
  pose (M := bk_mem b).
  set (b1 := mkBlock (bk_id b) (bk_mem b) (bk_sm b) mt1).
  assert (Hsame1 : block_same b b1) by (unfold block_same, b1; cbn; auto).
  destruct (VamInvStep.put_block_same_inv c v U X lr l b b1 HI Hg Hb Hsame1 Hmi1) as (HI1 & T1 & L1).
  destruct (put_block_lookup v lr l b b1 Hg Hnd Hb eq_refl) as (Hg1 & Hb1 & Hgb1).
  assert (M1 : MM ms0 (put_block v lr b1) X).
  { apply (VamMapStep.MM_put_same c Hc Hmax Hlarge ms0 v X lr b b1 HM); [cbn [bk_id b1]; rewrite Hbid; exact Hgb|reflexivity|reflexivity]. }
  assert (B1 : BInvD (put_block v lr b1) G X M 0).
  { apply (BD_put_same v X M 0 lr b b1); [apply BInv_D; exact HB|cbn [bk_id b1]; rewrite Hbid; exact Hgb|reflexivity|reflexivity]. }
  set (v1 := put_block v lr b1) in *. set (l1 := set_blocks l (replace_block (bl_blocks l) b1)) in *.
  unfold commit_request. cbn [bk_id b1] in Hgb1. rewrite Hbid in Hgb1. rewrite Hg1, Hgb1.
  pose proof (sm_sub_M ms0 (v_m v1) (bk_mem b1) (bk_sm b1) (proj2 M1) (mi_blocks _ _ (proj1 M1) _ _ _ Hg1 Hb1)) as Psub.
  pose proof (sm_sub_refs (v_m v1) (bk_mem b1) (bk_sm b1)) as Rsub.
  destruct (sm_sub (v_m v1) (bk_mem b1) (bk_sm b1)) as (m1 & s1). cbn [snd] in Rsub.
  assert (Pmap : forall m2 s2 (mr : out unit),
            (if fl flags F_MAPPED then sm_map c m1 (bk_mem b1) s1 else (m1, s1, OK tt)) = (m2, s2, mr) ->
            match mr with
            | OK _ => SyncMem.mapRefs s2 = SyncMem.mapRefs (bk_sm b1) + (if fl flags F_MAPPED then 1 else 0)
            | ER _ => SyncMem.mapRefs s2 = SyncMem.mapRefs (bk_sm b1)
            | _ => True
            end).
  { intros m2 s2 mr E. destruct (fl flags F_MAPPED).
    - pose proof (sm_map_refs c (m_mems m1) m1 (bk_mem b1) s1 (proj1 (proj2 Psub))) as P. rewrite E in P. destruct mr; auto; lia.
    - injection E as _ <- <-. lia. }
  destruct (if fl flags F_MAPPED then sm_map c m1 (bk_mem b1) s1 else (m1, s1, OK tt)) as ((m2 & s2) & mr) eqn:Emap.
  specialize (Pmap _ _ _ eq_refl).
  set (b2 := mkBlock (bk_id b1) (bk_mem b1) s2 (bk_meta b1)).
  assert (B2 : forall e, SyncMem.mapRefs s2 = SyncMem.mapRefs (bk_sm b1) + e -> BInvD (put_block (set_m v1 m2) lr b2) G X M e).
  { intros e He. replace e with (0 + e) by lia. apply (BD_put_touch v1 U X 0 lr l1 b1 m2 b2 e B1 HI1 Hg1 Hb1); [reflexivity|reflexivity|exact He]. }
  assert (Hg1m : get_blist (set_m v1 m2) lr = Some l1) by (rewrite get_blist_set_m; auto).
  assert (Hnd1 : NoDup (map bk_id (bl_blocks l1))) by (unfold l1; cbn; rewrite replace_block_ids; auto).
  destruct (put_block_lookup (set_m v1 m2) lr l1 b1 b2 Hg1m Hnd1 Hb1 eq_refl) as (Hg2 & Hb2 & Hgb2).
  set (v2 := put_block (set_m v1 m2) lr b2) in *.
  destruct mr as [[]|code| |]; try exact I.
  2:{ apply (BInvD_0 _ _ _ M). apply B2. lia. }
  set (e := if fl flags F_MAPPED then 1 else 0) in *. specialize (B2 e Pmap).
  assert (Et2 : v_tab v2 = v_tab v) by (unfold v2; rewrite put_block_tab; cbn [v_tab set_m]; unfold v1; rewrite put_block_tab; reflexivity).
  assert (Hs2 : 0 <= s < zlen (v_tab v2)) by (rewrite Et2; exact Hs).
  assert (Hdead2 : a_allocated (get_alloc v2 s) = false) by (unfold get_alloc; rewrite Et2; exact Hdead).
  assert (HG0 : G s = 0) by (apply (bb_G0 _ _ _ HB); exact Hdead).
  assert (Hnoslot2 : forall a0, slot_is v2 s a0 -> a_kind a0 <> 2).
  { intros a0 S0. rewrite (get_alloc_slot _ _ _ S0) in Hdead2. destruct S0. congruence. }
  assert (B3 : BInvD (set_alloc v2 s (alloc_init (mapping_allowed flags))) G X M e).
  { pose proof (BInvD_slot v2 G X M e s (alloc_init (mapping_allowed flags)) B2 Hs2 Hnoslot2 ltac:(cbn; discriminate) ltac:(intros _; exact HG0)) as P.
    rewrite (users_dead (set_alloc v2 s (alloc_init (mapping_allowed flags))) G X M s), (users_dead v2 G X M s) in P by (try rewrite get_alloc_set_same by exact Hs2; auto).
    replace (e - (0 - 0)) with e in P by lia. apply P.
    intros mem _. rewrite !users_dead; auto. rewrite get_alloc_set_same by exact Hs2. reflexivity. }
  set (v3 := set_alloc v2 s (alloc_init (mapping_allowed flags))) in *.
  cbn [bk_meta b1 bk_id bk_mem] in *. rewrite Ema.
  destruct (fl flags F_MAPPED && negb (mapping_allowed flags)); [exact I|].
  set (b4 := mkBlock (bk_id b) (bk_mem b) s2 mt2).
  assert (Hgb3 : get_block v3 lr (bk_id b4) = Some b2) by (unfold v3; rewrite (VamMapStep.get_block_set_alloc c Hc Hmax Hlarge); exact Hgb2).
  assert (B4 : BInvD (put_block v3 lr b4) G X M e) by (apply (BD_put_same v3 X M e lr b2 b4 B3 Hgb3); reflexivity).
  assert (Hs4 : 0 <= s < zlen (v_tab (put_block v3 lr b4))).
  { rewrite put_block_tab. unfold v3. rewrite zlen_set_alloc. exact Hs2. }
  assert (Hdead4 : a_allocated (get_alloc (put_block v3 lr b4) s) = false).
  { unfold get_alloc. rewrite put_block_tab. unfold v3. cbn [set_alloc set_tab v_tab]. rewrite nth_z_set_same by exact Hs2. reflexivity. }
  match goal with |- context [set_alloc (put_block v3 lr b4) s ?aa] => set (a := aa) end.
  assert (B5 : BInvD (set_alloc (put_block v3 lr b4) s a) G X M 0).
  { assert (Hno4 : forall a0, slot_is (put_block v3 lr b4) s a0 -> a_kind a0 <> 2).
    { intros a0 S0. rewrite (get_alloc_slot _ _ _ S0) in Hdead4. destruct S0. congruence. }
    pose proof (BInvD_slot (put_block v3 lr b4) G X M e s a B4 Hs4 Hno4 ltac:(intros _; unfold a; cbn; discriminate) ltac:(unfold a; cbn; discriminate)) as P.
    rewrite (users_dead (put_block v3 lr b4) G X M s Hdead4) in P.
    assert (HX : ~ In s X).
    { intros HX. destruct (vi_dang _ _ _ _ HI _ HX) as (a2 & S2 & _). rewrite (get_alloc_slot _ _ _ S2) in Hdead. destruct S2. congruence. }
    rewrite (users_live (set_alloc (put_block v3 lr b4) s a) G X M s) in P;
      try (rewrite get_alloc_set_same by exact Hs4; unfold a; cbn; auto).
    2:{ exact HX. }
    rewrite get_alloc_set_same in P by exact Hs4. rewrite HG0 in P. unfold pcount in P.
    assert (Ep : a_persist a = fl flags F_MAPPED) by reflexivity. rewrite Ep in P.
    replace (e - (0 + (if fl flags F_MAPPED then 1 else 0) - 0)) with 0 in P by (unfold e; destruct (fl flags F_MAPPED); lia).
    apply P. intros mem Hne. rewrite (users_dead (put_block v3 lr b4) G X mem s Hdead4). apply users_other.
    rewrite get_alloc_set_same by exact Hs4. unfold a. cbn [a_mem]. intros E. apply Hne. rewrite <- E. reflexivity. }
  apply (BInvD_0 _ _ _ M). apply BInvD_mach. exact B5.
Qed.

(* ---------------------------------------------------------------- freeWithLock *)

Lemma BInv_weaken v X X' : BInv v G X -> (forall s, In s X' <-> In s X) -> BInv v G X'.
Proof using. apply BInv_weaken_ext. Qed.

(* the dangling Allocation object is finally marked unallocated *)
Lemma BB_unmark v X s a' :
  BInv v G (s :: X) -> 0 <= s < zlen (v_tab v) -> ~ In s X -> a_allocated a' = false -> G s = 0 -> BInv (set_alloc v s a') G X.
Proof using.
  intros [B D G1 G2] Hs HnX Ha HG0.
  constructor.
  - intros lr l b Hg Hb. rewrite get_blist_set_alloc in Hg. rewrite (B _ _ _ Hg Hb). symmetry.
    apply refs_truth_ext; [apply zlen_set_alloc|]. intros s1 _. destruct (Z.eq_dec s1 s) as [->|Hne].
    + rewrite (users_X v G (s :: X)) by (left; reflexivity). apply users_dead. rewrite get_alloc_set_same by exact Hs. exact Ha.
    + apply users_same; [apply get_alloc_set_other; exact Hne|reflexivity|]. cbn. split; [auto|]. intros [E1|H]; [congruence|auto].
  - intros s1 a1 S1 K1. destruct (Z.eq_dec s1 s) as [->|Hne].
    + apply slot_is_set_alloc_same in S1; [|exact Hs]. destruct S1 as (-> & Hb). congruence.
    + apply (slot_is_set_alloc_other v s a' s1 a1 Hne) in S1. apply D; auto.
  - exact G1.
  - intros s1. destruct (Z.eq_dec s1 s) as [->|Hne]; [intros _; exact HG0|rewrite get_alloc_set_other by exact Hne; apply G2].
Qed.

Lemma bl_free_BB v U X s a keep :
  BInv v G X -> MM ms0 v X -> VamInvU c v U X -> slot_is v s a -> ~ In s X -> a_kind a = 1 -> G s = 0 ->
  let '(v', r) := bl_free c v (a_lref a) s keep in
  match r with OK _ => BInv v' G (s :: X) | ER _ => False | _ => True end.
Proof.
  intros HB HM HI Hsl HnX Hk HG0.
  unfold bl_free in *. rewrite (get_alloc_slot _ _ _ Hsl) in *.
  destruct (vi_slots _ _ _ _ HI s a Hsl HnX) as [(_ & l & b & rg & Hg & Hb & Hid & Hrg & Hh & Htag & _ & _ & Hmem & _)|(K & _)]; [|congruence].
  pose proof (vi_lists _ _ _ _ HI _ _ Hg) as Hwf. pose proof (bw_nodup _ _ Hwf) as Hnd.
  pose proof (bw_meta _ _ Hwf) as Hmeta. rewrite Forall_forall in Hmeta. pose proof (Hmeta _ Hb) as Hmi.
  assert (Hgb : get_block v (a_lref a) (a_blk a) = Some b).
  { unfold get_block. rewrite Hg, <- Hid. apply in_find_block; auto. }
  rewrite Hg, Hgb in *.
  pose (M := bk_mem b). pose (p := pcount a).
  (* the closing argument: the counter of M is p behind, and s no longer counts *)
  assert (Hfin : forall v', BInvD v' G X M (- p) -> v_tab v' = v_tab v -> BInv v' G (s :: X)).
  { intros v' HD T. assert (Ea : get_alloc v' s = a) by (unfold get_alloc; rewrite T; apply get_alloc_slot; exact Hsl).
    assert (Hs' : 0 <= s < zlen (v_tab v')) by (rewrite T; eapply slot_is_range; eauto).
    assert (H1 : forall s', s' <> s -> (In s' (s :: X) <-> In s' X)) by (intros s' Hne; cbn; split; [intros [E|H]; [congruence|auto]|auto]).
    assert (H2 : forall mem, mem <> M -> users v' G (s :: X) mem s = users v' G X mem s).
    { intros mem Hne. rewrite (users_X v' G (s :: X) mem s) by (left; reflexivity). symmetry. apply users_other. rewrite Ea, Hmem. auto. }
    pose proof (BInvD_X v' G X (s :: X) M (- p) s HD Hs' H1 H2) as P.
    rewrite (users_X v' G (s :: X) M s) in P by (left; reflexivity).
    rewrite (users_live v' G X M s ltac:(rewrite Ea; exact (proj2 Hsl)) HnX ltac:(rewrite Ea; exact Hk) ltac:(rewrite Ea; exact Hmem)) in P.
    rewrite Ea, HG0 in P. fold p in P. replace (- p - (0 - (0 + p))) with 0 in P by lia.
    apply (BInvD_0 _ _ _ M). exact P. }
  pose proof (heap_budget_same c (v_m v) (type_heap c (bl_type l))) as Hbud.
  pose proof (heap_budget_sameM c (v_m v) (type_heap c (bl_type l))) as HbudM.
  destruct (heap_budget c (v_m v) (type_heap c (bl_type l))) as ((m1 & usage) & budget). cbn [fst] in Hbud, HbudM.
  pose proof (MM_mach ms0 v X m1 HM HbudM) as M0.
  assert (B0 : BInvD (set_m v m1) G X M 0) by (apply BInvD_mach; apply BInv_D; exact HB).
  assert (I0 : VamInvU c (set_m v m1) U X) by (apply VamInvU_mach_same; auto).
  assert (Hg0 : get_blist (set_m v m1) (a_lref a) = Some l) by (rewrite get_blist_set_m; auto).
  (* the reference of a persistently mapped allocation is there to be dropped *)
  assert (Hrefs : a_persist a = true -> 1 <= SyncMem.mapRefs (bk_sm b)).
  { intros Hp. rewrite (bb_blocks _ _ _ HB _ _ _ Hg Hb).
    pose proof (refs_truth_ge v G X (bk_mem b) s (bb_G _ _ _ HB) (slot_is_range _ _ _ Hsl)) as Hge.
    rewrite (users_live v G X (bk_mem b) s ltac:(rewrite (get_alloc_slot _ _ _ Hsl); exact (proj2 Hsl)) HnX
               ltac:(rewrite (get_alloc_slot _ _ _ Hsl); exact Hk) ltac:(rewrite (get_alloc_slot _ _ _ Hsl); exact Hmem)) in Hge.
    rewrite (get_alloc_slot _ _ _ Hsl) in Hge. unfold pcount in Hge. rewrite Hp in Hge. pose proof (bb_G _ _ _ HB s). lia. }
  assert (Pun : forall m2 s2 (ur : out unit), (if a_persist a then sm_unmap m1 (bk_mem b) (bk_sm b) else (m1, bk_sm b, OK tt)) = (m2, s2, ur) ->
            sm_post ms0 m1 (bk_mem b) m2 s2 /\ mach_same m1 m2 /\ ur = OK tt /\ SyncMem.mapRefs s2 = SyncMem.mapRefs (bk_sm b) + - p).
  { intros m2 s2 ur E. unfold p, pcount. destruct (a_persist a).
    - pose proof (sm_unmap_M ms0 m1 (bk_mem b) (bk_sm b) (proj2 M0) (mi_blocks _ _ (proj1 M0) _ _ _ Hg0 Hb)) as P.
      pose proof (sm_unmap_same m1 (bk_mem b) (bk_sm b)) as Q.
      pose proof (sm_unmap_refs m1 (bk_mem b) (bk_sm b) (Hrefs eq_refl)) as R. rewrite E in P, Q, R. cbn in P, Q. destruct R as (-> & R). split; [exact P|]. split; [exact Q|]. split; [reflexivity|lia].
    - injection E as <- <- <-. split; [apply (VamMapStep.sm_post_refl c Hc Hmax Hlarge ms0); [exact (proj2 M0)|exact (mi_blocks _ _ (proj1 M0) _ _ _ Hg0 Hb)]|].
      split; [apply mach_same_refl|]. split; [reflexivity|lia]. }
  destruct (if a_persist a then sm_unmap m1 (bk_mem b) (bk_sm b) else (m1, bk_sm b, OK tt)) as ((m2 & s2) & ur) eqn:Eun.
  destruct (Pun _ _ _ eq_refl) as (Pun2 & Hm12 & -> & Rs2).
  set (b2 := mkBlock (bk_id b) (bk_mem b) s2 (bk_meta b)).
  assert (M2 : MM ms0 (put_block (set_m v m2) (a_lref a) b2) X).
  { change (set_m v m2) with (set_m (set_m v m1) m2). apply (VamMapStep.MM_put_touch c Hc Hmax Hlarge ms0 (set_m v m1) U X (a_lref a) l b m2 s2 b2 M0 I0 Hg0 Hb Pun2); reflexivity. }
  assert (B2 : BInvD (put_block (set_m v m2) (a_lref a) b2) G X M (- p)).
  { change (set_m v m2) with (set_m (set_m v m1) m2). replace (- p) with (0 + - p) by lia.
    apply (BD_put_touch (set_m v m1) U X 0 (a_lref a) l b m2 b2 (- p) B0 I0 Hg0 Hb); [reflexivity|reflexivity|exact Rs2]. }
  assert (Hg0' : get_blist (set_m v m2) (a_lref a) = Some l) by (rewrite get_blist_set_m; auto).
  assert (I0' : VamInvU c (set_m v m2) U X) by (apply VamInvU_mach_same; [exact HI|eapply mach_same_trans; eauto]).
  assert (Hsame2 : block_same b b2) by (unfold block_same, b2; cbn; auto).
  destruct (VamInvStep.put_block_same_inv c (set_m v m2) U X (a_lref a) l b b2 I0' Hg0' Hb Hsame2 Hmi) as (I2 & T2 & L2).
  destruct (put_block_lookup (set_m v m2) (a_lref a) l b b2 Hg0' Hnd Hb eq_refl) as (Hg2 & Hb2 & Hgb2).
  set (v2 := put_block (set_m v m2) (a_lref a) b2) in *. set (l2 := set_blocks l (replace_block (bl_blocks l) b2)) in *.
  destruct (meta_free_spec (bk_meta b) (a_handle a) Hmi (ex_intro _ rg (conj Hrg Hh))) as (mt' & Hfree & Hmi' & Hsz' & _).
  rewrite Hfree in *.
  pose proof (sm_sub_refs (v_m v2) (bk_mem b) s2) as Rsub.
  destruct (sm_sub (v_m v2) (bk_mem b) s2) as (m3 & s3). cbn [snd] in Rsub.
  set (b' := mkBlock (bk_id b) (bk_mem b) s3 mt') in *.
  set (bs3 := replace_block (bl_blocks l) b') in *.
  assert (Hnd2 : NoDup (map bk_id (bl_blocks l2))) by (unfold l2; cbn; rewrite replace_block_ids; auto).
  assert (Ebs3 : bs3 = replace_block (bl_blocks l2) b') by (unfold bs3, l2; cbn; rewrite replace_replace by reflexivity; reflexivity).
  assert (Hbs3 : forall b0, In b0 bs3 -> b0 = b' \/ (In b0 (bl_blocks l2) /\ bk_id b0 <> bk_id b2)).
  { intros b0 H0. rewrite Ebs3 in H0. destruct (in_replace_block _ _ _ Hnd2 H0) as [(-> & _)|(Hin & Hne)]; [left; reflexivity|right; auto]. }
  (* the state after the list was replaced by (a sorted part of) bs3 *)
  assert (Et2 : v_tab v2 = v_tab v) by (unfold v2; rewrite put_block_tab; reflexivity).
  assert (B3 : forall bs4, (forall b0, In b0 bs4 -> In b0 bs3) ->
            BInvD (set_blist (set_m v2 m3) (a_lref a) (incrementally_sort (set_blocks l bs4))) G X M (- p)).
  { intros bs4 Hsub. replace (- p) with (- p + 0) by lia.
    apply (BD_set_touch v2 U X (- p) (a_lref a) l2 b2 m3 _ 0 B2 I2 Hg2 Hb2).
    intros b0 H0. assert (H1 : In b0 bs4).
    { unfold incrementally_sort in H0. match type of H0 with context [if ?cnd then _ else _] => destruct cnd end; [exact H0|].
      cbn in H0. eapply Permutation_in; [apply Permutation_sym; apply bubble_once_perm|exact H0]. }
    destruct (Hbs3 b0 (Hsub _ H1)) as [->|H2]; [left; split; [reflexivity|cbn; lia]|right; exact H2]. }
  set (heap := type_heap c (bl_type l)) in *.
  (* what is left to do after the list was written *)
  assert (Hfinal : forall v4 (dr : out unit), BInvD v4 G X M (- p) -> v_tab v4 = v_tab v -> (forall code, dr <> ER code) ->
            match (match dr with
                   | OK _ => let '(m5, rr) := remove_allocation c (v_m v4) heap (a_size a) in (set_m v4 m5, rr)
                   | other => (v4, other) end) with
            | (v', OK _) => BInv v' G (s :: X)
            | (v', ER _) => False
            | _ => True end).
  { intros v4 dr H T Hne. destruct dr as [[]|code| |]; auto; [|exact (Hne code eq_refl)].
    pose proof (remove_allocation_no_error c (v_m v4) heap (a_size a)) as R5.
    destruct (remove_allocation c (v_m v4) heap (a_size a)) as (m5 & rr). cbn [snd] in R5. destruct rr; auto.
    apply Hfin; [apply BInvD_mach; exact H|exact T]. }
  assert (Tb : forall bs4, v_tab (set_blist (set_m v2 m3) (a_lref a) (incrementally_sort (set_blocks l bs4))) = v_tab v).
  { intros bs4. rewrite set_blist_tab. cbn [v_tab set_m]. exact Et2. }
  match goal with |- context [if ?cnd then (remove_block bs3 (bk_id b'), Some b') else ?rest] => destruct cnd eqn:Ecnd end.
  - pose proof (B3 (remove_block bs3 (bk_id b')) (fun b0 H0 => in_remove_block _ _ _ H0)) as D3.
    pose proof (destroy_block_BB _ X M (- p) (bl_type l) b' D3) as D4.
    pose proof (proj1 (destroy_block_obs (set_blist (set_m v2 m3) (a_lref a) (incrementally_sort (set_blocks l (remove_block bs3 (bk_id b'))))) (bl_type l) b')) as T4.
    rewrite Tb in T4.
    destruct (destroy_block c _ (bl_type l) b') as (v4 & dr). cbn [fst] in D4, T4.
    specialize (Hfinal v4 (match dr with OK _ => OK tt | STUCK => STUCK | _ => PANIC end) D4 T4 ltac:(intros code; destruct dr as [[]|?| |]; discriminate)).
    destruct dr as [[]|code| |]; cbn in Hfinal |- *; auto.
  - match goal with |- context [if ?cnd then ?x else (bs3, None)] => destruct cnd eqn:Ecnd2 end.
    + destruct (rev bs3) as [|lastb rest] eqn:Erev.
      * specialize (Hfinal _ (OK tt) (B3 bs3 (fun b0 H => H)) (Tb bs3) ltac:(intros code; discriminate)). cbn in Hfinal |- *. exact Hfinal.
      * destruct (meta_is_empty (bk_meta lastb)) eqn:Hel.
        -- assert (Ebs : bs3 = rev rest ++ [lastb]) by (rewrite <- (rev_involutive bs3), Erev; reflexivity).
           pose proof (B3 (rev rest) (fun b0 H0 => ltac:(rewrite Ebs; apply in_app_iff; left; exact H0))) as D3.
           pose proof (destroy_block_BB _ X M (- p) (bl_type l) lastb D3) as D4.
           pose proof (proj1 (destroy_block_obs (set_blist (set_m v2 m3) (a_lref a) (incrementally_sort (set_blocks l (rev rest)))) (bl_type l) lastb)) as T4.
           rewrite Tb in T4.
           destruct (destroy_block c _ (bl_type l) lastb) as (v4 & dr). cbn [fst] in D4, T4.
           specialize (Hfinal v4 (match dr with OK _ => OK tt | STUCK => STUCK | _ => PANIC end) D4 T4 ltac:(intros code; destruct dr as [[]|?| |]; discriminate)).
           destruct dr as [[]|code| |]; cbn in Hfinal |- *; auto.
        -- specialize (Hfinal _ (OK tt) (B3 bs3 (fun b0 H => H)) (Tb bs3) ltac:(intros code; discriminate)). cbn in Hfinal |- *. exact Hfinal.
    + specialize (Hfinal _ (OK tt) (B3 bs3 (fun b0 H => H)) (Tb bs3) ltac:(intros code; discriminate)). cbn in Hfinal |- *. exact Hfinal.
Qed.
Lemma create_block_inv v U X lr l size :
  VamInvB v U X -> get_blist v lr = Some l -> 0 <= size < 2 ^ 62 ->
  let '(v', r) := create_block c v lr size in
  VamInvB v' U X /\ tab_frame v v' [] /\ lists_frame v v'.
Proof.
  intros HI Hg Hsz. pose proof (VamMapStep.create_block_inv c Hc Hmax Hlarge ms0 v U X lr l size (vb_m _ _ _ HI) Hg Hsz) as P.
  pose proof (create_block_BB v U X lr size (vb_b _ _ _ HI) (vb_s _ _ _ HI)) as Q.
  destruct (create_block c v lr size) as (v' & r). destruct P as (I1 & T1 & L1).
  split; [|auto]. split; [exact I1|exact Q].
Qed.


Definition af_post (v v' : vam) (U X : list Z) (lr : lref) (s : Z) (r : afres) : Prop :=
  match r with
  | AFPanic | AFStuck => True
  | _ =>
    VamInvB v' U X /\ tab_frame v v' [s] /\ lists_frame v v' /\
    match r with
    | AFOk => exists a, slot_is v' s a /\ a_kind a = 1 /\ a_lref a = lr
    | _ => a_allocated (get_alloc v' s) = false
    end
  end.

Lemma alloc_from_block_inv v U X lr bid size align flags sub s :
  VamInvB v U X -> Bits.pow2 align -> min_ok v lr align -> 0 <= s < zlen (v_tab v) -> a_allocated (get_alloc v s) = false ->
  let '(v', r) := alloc_from_block c v lr bid size align flags sub s in af_post v v' U X lr s r.
Proof.
  intros HI Hal Hmin Hs Hdead.
  pose proof (VamMapStep.alloc_from_block_inv c Hc Hmax Hlarge ms0 v U X lr bid size align flags sub s (vb_m _ _ _ HI) Hal Hmin Hs Hdead) as P.
  pose proof (alloc_from_block_BB v U X lr bid size align flags sub s (vb_b _ _ _ HI) (vb_mm _ _ _ HI) (vb_s _ _ _ HI) Hal Hs Hdead) as Q.
  destruct (alloc_from_block c v lr bid size align flags sub s) as (v' & r).
  destruct r; cbn [af_post VamMapStep.af_post] in *; auto; destruct P as (I1 & R1); (split; [split; [exact I1|exact Q]|exact R1]).
Qed.


Lemma remove_destroy_inv v U X lr l b :
  VamInvB v U X -> get_blist v lr = Some l -> In b (bl_blocks l) -> meta_is_empty (bk_meta b) = true ->
  let v1 := set_blist v lr (set_blocks l (remove_block (bl_blocks l) (bk_id b))) in
  let '(v', r) := destroy_block c v1 (bl_type l) b in
  VamInvB v' U X /\ tab_frame v v' [] /\ lists_frame v v'.
Proof.
  intros HI Hg Hb He v1.
  pose proof (VamMapStep.remove_destroy_inv c Hc Hmax Hlarge ms0 v U X lr l b (vb_m _ _ _ HI) Hg Hb He) as P. cbn zeta in P. fold v1 in P.
  pose proof (remove_destroy_BB v U X lr l b (vb_b _ _ _ HI) (vb_s _ _ _ HI) Hg Hb He) as Q. fold v1 in Q.
  destruct (destroy_block c v1 (bl_type l) b) as (v' & r). cbn [fst] in Q. destruct P as (I1 & T1 & L1).
  split; [|auto]. split; [exact I1|exact Q].
Qed.



(* ---------------------------------------------------------------- the search loop of allocPage *)

Definition ap_post (v v' : vam) (U X : list Z) (lr : lref) (s : Z) (r : out unit) : Prop :=
  match r with
  | PANIC | STUCK => True
  | _ =>
    VamInvB v' U X /\ tab_frame v v' [s] /\ lists_frame v v' /\
    match r with
    | OK _ => exists a, slot_is v' s a /\ a_kind a = 1 /\ a_lref a = lr
    | _ => a_allocated (get_alloc v' s) = false
    end
  end.

Lemma try_blocks_inv ids : forall v U X lr size align flags sub s,
  VamInvB v U X -> Bits.pow2 align -> min_ok v lr align -> 0 <= s < zlen (v_tab v) -> a_allocated (get_alloc v s) = false ->
  let '(v', r) := try_blocks c v lr ids size align flags sub s in af_post v v' U X lr s r.
Proof.
  induction ids as [|bid tl IH]; intros v U X lr size align flags sub s HI Hal Hmin Hs Hdead; cbn [try_blocks].
  - cbn. split; [auto|]. split; [apply tab_frame_refl|]. split; [apply lists_frame_refl|auto].
  - pose proof (alloc_from_block_inv v U X lr bid size align flags sub s HI Hal Hmin Hs Hdead) as A.
    destruct (alloc_from_block c v lr bid size align flags sub s) as (v1 & r). destruct r; cbn in A |- *; auto.
    + destruct A as (HI1 & T1 & L1 & (a & Sa & Ka & La)).
      destruct (sort_list_inv v1 U X lr HI1) as (HI2 & T2 & L2).
      split; [auto|]. split; [eapply tab_frame_trans; [exact T1|exact T2|auto|intros ? []]|].
      split; [eapply lists_frame_trans; eauto|]. exists a. split; [|auto].
      apply (slot_is_frame _ _ _ _ _ T2); auto.
    + destruct A as (HI1 & T1 & L1 & D1).
      assert (Hs1 : 0 <= s < zlen (v_tab v1)) by (destruct T1 as (E & _); lia).
      specialize (IH v1 U X lr size align flags sub s HI1 Hal (min_ok_frame _ _ _ _ L1 Hmin) Hs1 D1).
      destruct (try_blocks c v1 lr tl size align flags sub s) as (v2 & r2).
      destruct r2; cbn in IH |- *; auto;
        destruct IH as (HI2 & T2 & L2 & R2); (split; [auto|]; split; [eapply tab_frame_trans_same; eauto|]; split; [eapply lists_frame_trans; eauto|auto]).
Qed.

(* ---------------------------------------------------------------- allocPage *)

Definition keeps (v0 v' : vam) (U X : list Z) (s : Z) : Prop :=
  VamInvB v' U X /\ tab_frame v0 v' [s] /\ lists_frame v0 v' /\ a_allocated (get_alloc v' s) = false.

Lemma keeps_step v0 v v' U X s :
  keeps v0 v U X s -> VamInvB v' U X -> tab_frame v v' [] -> lists_frame v v' -> keeps v0 v' U X s.
Proof.
  intros (H1 & H2 & H3 & H4) I T L. split; [auto|]. split; [eapply tab_frame_trans; [exact H2|exact T|auto|intros ? []]|].
  split; [eapply lists_frame_trans; eauto|]. rewrite (get_alloc_frame _ _ _ _ T); auto.
Qed.

Lemma create_block_keeps v0 v U X s lr size :
  keeps v0 v U X s -> 0 <= size < 2 ^ 62 -> let '(v', r) := create_block c v lr size in keeps v0 v' U X s.
Proof.
  intros K Hsz. destruct (get_blist v lr) as [l|] eqn:Hg.
  - destruct K as (K1 & K2 & K3 & K4).
    pose proof (create_block_inv v U X lr l size K1 Hg Hsz) as C.
    destruct (create_block c v lr size) as (v1 & r). destruct C as (C1 & C2 & C3).
    eapply keeps_step; eauto. split; auto.
  - unfold create_block. rewrite Hg. exact K.
Qed.

Lemma quot2_bound n : 0 <= n < 2 ^ 62 -> 0 <= Z.quot n 2 < 2 ^ 62.
Proof. exact (VamMapStep.quot2_bound c Hc Hmax Hlarge n). Qed.

Lemma retry_create_inv fuel : forall v0 v U X s lr nbs shift size freeMemory canFallback last,
  keeps v0 v U X s -> 0 <= nbs < 2 ^ 62 ->
  let '(v', r) := retry_create c fuel v lr nbs shift size freeMemory canFallback last in keeps v0 v' U X s.
Proof.
  induction fuel as [|f IH]; intros v0 v U X s lr nbs shift size fm cf last K Hn; cbn [retry_create]; [exact K|].
  destruct last; try exact K. destruct (3 <=? shift); [exact K|]. destruct (size <=? Z.quot nbs 2); [|exact K].
  pose proof (quot2_bound nbs Hn) as Hq.
  destruct (_ || _).
  - pose proof (create_block_keeps v0 v U X s lr (Z.quot nbs 2) K Hq) as C.
    destruct (create_block c v lr (Z.quot nbs 2)) as (v1 & r). apply IH; auto.
  - apply IH; auto.
Qed.

Lemma keeps_trans v0 v1 v2 U X s : keeps v0 v1 U X s -> keeps v1 v2 U X s -> keeps v0 v2 U X s.
Proof.
  intros (A1 & A2 & A3 & A4) (B1 & B2 & B3 & B4). split; [auto|]. split; [eapply tab_frame_trans_same; [exact A2|exact B2]|].
  split; [eapply lists_frame_trans; [exact A3|exact B3]|auto].
Qed.

Lemma keeps_refl v U X s : VamInvB v U X -> a_allocated (get_alloc v s) = false -> keeps v v U X s.
Proof. intros. split; [auto|]. split; [apply tab_frame_refl|]. split; [apply lists_frame_refl|auto]. Qed.

Lemma ap_post_fail v v' U X lr s code : keeps v v' U X s -> ap_post v v' U X lr s (ER code).
Proof. intros (A & B & C0 & D). cbn. auto. Qed.

Lemma af_keeps v v' U X lr s r :
  af_post v v' U X lr s r -> match r with AFOk | AFPanic | AFStuck => True | _ => keeps v v' U X s end.
Proof. destruct r; cbn; auto. Qed.

Lemma shrink_new_block_bound fuel : forall nbs shift maxE size, 0 <= nbs < 2 ^ 62 ->
  0 <= fst (shrink_new_block fuel nbs shift maxE size) < 2 ^ 62.
Proof.
  induction fuel as [|f IH]; intros nbs shift maxE size Hn; cbn [shrink_new_block]; [exact Hn|].
  destruct (_ && _); [|exact Hn]. apply IH. apply quot2_bound. exact Hn.
Qed.

Lemma alloc_page_inv v U X lr size align flags sub s :
  VamInvB v U X -> Bits.pow2 align -> min_ok v lr align -> 0 <= s < zlen (v_tab v) -> a_allocated (get_alloc v s) = false ->
  let '(v', r) := alloc_page c v lr size align flags sub s in ap_post v v' U X lr s r.
Proof.
  intros HI Hal Hmin Hs Hdead. unfold alloc_page. destruct (get_blist v lr) as [l|] eqn:Hg; [|exact I].
  pose proof (heap_budget_sameX (v_m v) (type_heap c (bl_type l))) as Hb.
  destruct (heap_budget c (v_m v) (type_heap c (bl_type l))) as ((m1 & usage) & budget). cbn [fst] in Hb.
  assert (K1 : keeps v (set_m v m1) U X s).
  { split; [apply VamInvB_mach_same; auto|]. split; [apply tab_frame_set_m|]. split; [apply lists_frame_set_m|auto]. }
  destruct (_ && _); [apply ap_post_fail; auto|]. destruct (bl_pref l <? size); [apply ap_post_fail; auto|].
  pose proof (ai_pref _ _ _ (vb_aa _ _ _ HI) _ _ Hg) as Hpref.
  pose proof K1 as (I1 & T1 & L1 & D1).
  assert (Hs1 : 0 <= s < zlen (v_tab (set_m v m1))) by (cbn; auto).
  pose proof (try_blocks_inv (search_order c l flags) (set_m v m1) U X lr size align flags sub s I1 Hal (min_ok_frame _ _ _ _ L1 Hmin) Hs1 D1) as TB.
  destruct (try_blocks c (set_m v m1) lr (search_order c l flags) size align flags sub s) as (v2 & r).
  pose proof (af_keeps _ _ _ _ _ _ _ TB) as TK.
  destruct r; cbn [ap_post]; auto.
  - cbn [af_post] in TB. destruct TB as (A & B & C & D). split; [auto|].
    split; [eapply tab_frame_trans_same; [exact T1|exact B]|]. split; [eapply lists_frame_trans; [exact L1|exact C]|auto].
  - (* no block fits: try a new block *)
    pose proof (keeps_trans _ _ _ _ _ _ K1 TK) as K2. clear TB TK.
    destruct (negb _); [apply ap_post_fail; auto|].
    assert (Hnbs : 0 <= fst (if bl_explicit l then (bl_pref l, 0) else shrink_new_block 3 (bl_pref l) 0 (calc_max_block_size l) size) < 2 ^ 62).
    { destruct (bl_explicit l); [exact Hpref|apply shrink_new_block_bound; exact Hpref]. }
    destruct (if bl_explicit l then (bl_pref l, 0) else shrink_new_block 3 (bl_pref l) 0 (calc_max_block_size l) size) as (nbs & shift). cbn [fst] in Hnbs.
    match goal with |- context [if ?cond then create_block c v2 lr nbs else (v2, ER VK_OODM)] =>
      assert (K3 : let '(v3, first) := (if cond then create_block c v2 lr nbs else (v2, ER VK_OODM)) in keeps v v3 U X s);
      [destruct cond; [apply create_block_keeps; [exact K2|exact Hnbs]|exact K2]|
       destruct (if cond then create_block c v2 lr nbs else (v2, ER VK_OODM)) as (v3 & first)]
    end.
    match goal with |- context [if bl_explicit l then (v3, first) else ?rc] =>
      assert (K4 : let '(v4, created) := (if bl_explicit l then (v3, first) else rc) in keeps v v4 U X s);
      [destruct (bl_explicit l); [exact K3|apply retry_create_inv; [exact K3|exact Hnbs]]|
       destruct (if bl_explicit l then (v3, first) else rc) as (v4 & created)]
    end.
    destruct created as [bid|code| |]; [|apply ap_post_fail; auto|exact I|exact I].
    destruct (get_block v4 lr bid) as [nb|] eqn:Hgb; [|exact I]. destruct (meta_size (bk_meta nb) <? size); [exact I|].
    pose proof K4 as (I4 & T4 & L4 & D4).
    assert (Hs4 : 0 <= s < zlen (v_tab v4)) by (destruct T4 as (E & _); lia).
    pose proof (alloc_from_block_inv v4 U X lr bid size align flags sub s I4 Hal (min_ok_frame _ _ _ _ L4 Hmin) Hs4 D4) as AF.
    destruct (alloc_from_block c v4 lr bid size align flags sub s) as (v5 & r2).
    pose proof (af_keeps _ _ _ _ _ _ _ AF) as AK.
    assert (Hgive : forall code2, keeps v4 v5 U X s ->
      let '(v6, dr) :=
          match get_blist v5 lr, get_block v5 lr bid with
          | Some l5, Some b5 =>
            if meta_is_empty (bk_meta b5) && (bl_min l5 <? zlen (bl_blocks l5)) then
              let v5' := set_blist v5 lr (set_blocks l5 (remove_block (bl_blocks l5) bid)) in
              match destroy_block c v5' (bl_type l5) b5 with
              | (v', OK _) => (v', OK tt)
              | (v', STUCK) => (v', STUCK)
              | (v', _) => (v', PANIC)
              end
            else (v5, OK tt)
          | _, _ => (v5, STUCK)
          end in
      ap_post v v6 U X lr s match dr with OK _ => ER code2 | ER code => ER code | PANIC => PANIC | STUCK => STUCK end).
    { intros code2 K5. pose proof (keeps_trans _ _ _ _ _ _ K4 K5) as K05.
      destruct (get_blist v5 lr) as [l5|] eqn:Hg5; [|exact I]. destruct (get_block v5 lr bid) as [b5|] eqn:Hgb5; [|exact I].
      destruct (meta_is_empty (bk_meta b5)) eqn:He; cbn [andb]; [|apply ap_post_fail; auto].
      destruct (bl_min l5 <? zlen (bl_blocks l5)); [|apply ap_post_fail; auto].
      destruct (get_block_in _ _ _ _ Hgb5) as (l5' & Hg5' & Hb5 & Hid5). assert (l5' = l5) by congruence. subst l5'.
      destruct K05 as (I5 & T5 & L5 & D5).
      pose proof (remove_destroy_inv v5 U X lr l5 b5 I5 Hg5 Hb5 He) as RD. cbn zeta in RD. rewrite Hid5 in RD.
      destruct (destroy_block c _ (bl_type l5) b5) as (v6 & dr). destruct RD as (R1 & R2 & R3).
      destruct dr as [[]|code| |]; cbn [ap_post]; auto.
      split; [auto|]. split; [eapply tab_frame_trans; [exact T5|exact R2|auto|intros ? []]|].
      split; [eapply lists_frame_trans; eauto|]. rewrite (get_alloc_frame _ _ _ _ R2); auto. }
    destruct r2; auto.
    + (* served from the new block *)
      cbn [af_post] in AF. destruct AF as (A & B & C & (a & Sa & Ka & La)).
      destruct (sort_list_inv v5 U X lr A) as (I6 & T6 & L6).
      cbn [ap_post]. split; [auto|].
      split; [eapply tab_frame_trans; [eapply tab_frame_trans_same; [exact T4|exact B]|exact T6|auto|intros ? []]|].
      split; [eapply lists_frame_trans; [eapply lists_frame_trans; [exact L4|exact C]|exact L6]|].
      exists a. split; [|auto]. apply (slot_is_frame _ _ _ _ _ T6); auto.
    + specialize (Hgive VK_OODM AK). destruct (match get_blist v5 lr with Some _ => _ | None => _ end) as (v6 & dr).
      destruct dr; exact Hgive.
    + specialize (Hgive code AK). destruct (match get_blist v5 lr with Some _ => _ | None => _ end) as (v6 & dr).
      destruct dr; exact Hgive.
  - exact (ap_post_fail _ _ _ _ lr _ code (keeps_trans _ _ _ _ _ _ K1 TK)).
Qed.

(* ---------------------------------------------------------------- Free + freeWithLock *)


Definition kept (v v' : vam) (U X : list Z) : Prop := VamInvB v' U X /\ tab_frame v v' [] /\ lists_frame v v'.

Lemma kept_trans v0 v1 v2 U X : kept v0 v1 U X -> kept v1 v2 U X -> kept v0 v2 U X.
Proof.
  intros (A1 & A2 & A3) (B1 & B2 & B3). split; [auto|]. split; [eapply tab_frame_trans_same; [exact A2|exact B2]|eapply lists_frame_trans; [exact A3|exact B3]].
Qed.

Lemma kept_frames v0 v1 v2 U X X' : kept v0 v1 U X -> VamInvB v2 U X' -> tab_frame v1 v2 [] -> lists_frame v1 v2 -> kept v0 v2 U X'.
Proof.
  intros (A1 & A2 & A3) I T L. split; [auto|]. split; [eapply tab_frame_trans_same; [exact A2|exact T]|eapply lists_frame_trans; [exact A3|exact L]].
Qed.


Lemma kept_mach v0 v U X m' : kept v0 v U X -> mach_sameX (v_m v) m' -> kept v0 (set_m v m') U X.
Proof.
  intros K H. eapply kept_frames; [exact K| | |].
  - apply VamInvB_mach_same; [apply K|auto].
  - apply tab_frame_set_m.
  - apply lists_frame_set_m.
Qed.

(* ---------------------------------------------------------------- Free + freeWithLock *)


Lemma bl_free_inv v U X s a keep :
  VamInvB v U X -> slot_is v s a -> ~ In s X -> a_kind a = 1 -> G s = 0 ->
  let '(v', r) := bl_free c v (a_lref a) s keep in
  match r with
  | OK _ => kept v v' U (s :: X)
  | ER _ => kept v v' U X
  | _ => True
  end.
Proof.
  intros HI Hsl HnX Hk HG0. pose proof (VamMapStep.bl_free_inv c Hc Hmax Hlarge ms0 v U X s a keep (vb_m _ _ _ HI) Hsl HnX Hk) as P.
  pose proof (bl_free_BB v U X s a keep (vb_b _ _ _ HI) (vb_mm _ _ _ HI) (vb_s _ _ _ HI) Hsl HnX Hk HG0) as Q.
  destruct (bl_free c v (a_lref a) s keep) as (v' & r). destruct r as [[]|code| |]; auto; [|contradiction]. destruct P as (I1 & T1 & L1).
  split; [split; [exact I1|exact Q]|auto].
Qed.

Definition keptS (v v' : vam) (U X S : list Z) : Prop := VamInvB v' U X /\ tab_frame v v' S /\ lists_frame v v'.

Lemma keptS_trans v0 v1 v2 U X S : keptS v0 v1 U X S -> keptS v1 v2 U X S -> keptS v0 v2 U X S.
Proof.
  intros (A1 & A2 & A3) (B1 & B2 & B3). split; [auto|]. split; [eapply tab_frame_trans_same; [exact A2|exact B2]|eapply lists_frame_trans; [exact A3|exact B3]].
Qed.

Lemma keptS_weaken v v' U X S S' : keptS v v' U X S -> (forall s, In s S -> In s S') -> keptS v v' U X S'.
Proof. intros (A & B & C) H. split; [auto|]. split; [eapply tab_frame_weaken; eauto|auto]. Qed.

Lemma kept_keptS v v' U X S : kept v v' U X -> keptS v v' U X S.
Proof. intros (A & B & C). split; [auto|]. split; [eapply tab_frame_weaken; [exact B|intros ? []]|auto]. Qed.


(* Free of a block allocation followed by marking the object unallocated *)
Lemma free_block_slot_inv v U X s a keep :
  VamInvB v U X -> slot_is v s a -> ~ In s X -> a_kind a = 1 -> G s = 0 ->
  let '(v', r) := bl_free c v (a_lref a) s keep in
  match r with
  | OK _ => keptS v (set_alloc v' s (set_allocated (get_alloc v' s) false)) U X [s] /\
            a_allocated (get_alloc (set_alloc v' s (set_allocated (get_alloc v' s) false)) s) = false
  | ER _ => kept v v' U X
  | _ => True
  end.
Proof.
  intros HI Hsl HnX Hk HG0. pose proof (VamMapStep.free_block_slot_inv c Hc Hmax Hlarge ms0 v U X s a keep (vb_m _ _ _ HI) Hsl HnX Hk) as P.
  pose proof (bl_free_inv v U X s a keep HI Hsl HnX Hk HG0) as F.
  destruct (bl_free c v (a_lref a) s keep) as (v' & r). destruct r as [[]|code| |]; auto.
  destruct P as ((I1 & T1 & L1) & D1). destruct F as (F1 & F2 & _). split; [|exact D1].
  split; [|auto]. split; [exact I1|]. apply BB_unmark; [apply (vb_b _ _ _ F1)| |exact HnX|reflexivity|exact HG0].
  destruct F2 as (E & _). rewrite E. eapply slot_is_range; eauto.
Qed.

Lemma unwind_loop_inv done : forall v U X lr,
  VamInvB v U X -> block_slots v lr X done -> (forall s, In s done -> G s = 0) ->
  let '(v', r) := unwind_loop c v lr done in
  match r with
  | OK _ => keptS v v' U X done /\ dead_slots v' done
  | ER _ => False
  | _ => True
  end.
Proof.
  induction done as [|s tl IH]; intros v U X lr HI (Hnd & Hbs) HG0; cbn [unwind_loop].
  - split; [split; [auto|split; [apply tab_frame_refl|apply lists_frame_refl]]|intros ? []].
  - inversion Hnd as [|? ? Hs Hnd']; subst.
    destruct (Hbs s (or_introl eq_refl)) as (HX & a & Sa & Ka & La).
    pose proof (free_block_slot_inv v U X s a true HI Sa HX Ka (HG0 s (or_introl eq_refl))) as F. rewrite La in F.
    destruct (bl_free c v lr s true) as (v1 & r). destruct r as [[]|code| |]; auto.
    destruct F as (K1 & D1). set (v1' := set_alloc v1 s (set_allocated (get_alloc v1 s) false)) in *.
    assert (Hbs' : block_slots v1' lr X tl).
    { eapply block_slots_frame with (v := v) (S := [s]); [split; [auto|]; intros; apply Hbs; right; auto|apply K1|].
      intros s1 H1 [<-|[]]. contradiction. }
    specialize (IH v1' U X lr (proj1 K1) Hbs' (fun x Hx => HG0 x (or_intror Hx))).
    destruct (unwind_loop c v1' lr tl) as (v2 & r2). destruct r2 as [[]|code| |]; auto.
    destruct IH as (K2 & D2). split.
    + eapply keptS_trans; [eapply keptS_weaken; [exact K1|intros ? [<-|[]]; left; reflexivity]|].
      eapply keptS_weaken; [exact K2|intros; right; auto].
    + intros s1 [<-|H1]; [|apply D2; auto].
      destruct K2 as (_ & T2 & _). split; [destruct T2 as (E & _); destruct K1 as (_ & (E1 & _) & _); rewrite E, E1; eapply slot_is_range; eauto|].
      rewrite (get_alloc_frame _ _ _ _ T2); auto.
Qed.

Lemma release_loop_inv ids : forall v U X lr firstId,
  VamInvB v U X ->
  let '(v', r) := release_loop c v lr ids firstId in
  match r with OK _ => kept v v' U X | ER _ => False | _ => True end.
Proof.
  induction ids as [|bid tl IH]; intros v U X lr firstId HI; cbn [release_loop].
  - split; [auto|split; [apply tab_frame_refl|apply lists_frame_refl]].
  - destruct (get_blist v lr) as [l|] eqn:Hg; [|exact I].
    assert (Hrefl : kept v v U X) by (split; [auto|split; [apply tab_frame_refl|apply lists_frame_refl]]).
    destruct (negb _); [exact Hrefl|].
    destruct (find_block (bl_blocks l) bid) as [b|] eqn:Hf; [|exact I].
    destruct (find_block_in _ _ _ Hf) as (Hb & Hid).
    destruct (meta_is_empty (bk_meta b)) eqn:He.
    + destruct (bk_id b <? firstId); cbn [orb negb]; [apply IH; auto|].
      pose proof (remove_destroy_inv v U X lr l b HI Hg Hb He) as RD. cbn zeta in RD. rewrite Hid in RD.
      destruct (destroy_block c _ (bl_type l) b) as (v2 & dr). destruct dr as [[]|code| |]; auto.
      specialize (IH v2 U X lr firstId (proj1 RD)).
      destruct (release_loop c v2 lr tl firstId) as (v3 & r3). destruct r3 as [[]|code| |]; auto.
      eapply kept_trans; [exact RD|exact IH].
    + rewrite orb_true_r. apply IH; auto.
Qed.

Lemma release_empty_since_inv v U X lr firstId :
  VamInvB v U X ->
  let '(v', r) := release_empty_since c v lr firstId in
  match r with OK _ => kept v v' U X | ER _ => False | _ => True end.
Proof.
  intros HI. unfold release_empty_since. destruct (get_blist v lr) as [l|]; [|exact I]. apply release_loop_inv. auto.
Qed.

Lemma allocate_loop_inv slots : forall v U X lr done size align flags sub,
  VamInvB v U X -> Bits.pow2 align -> min_ok v lr align -> NoDup (slots ++ done) ->
  dead_slots v slots -> block_slots v lr X done -> (forall s, In s done -> G s = 0) ->
  let '(v', r, done') := allocate_loop c v lr slots done size align flags sub in
  match r with
  | PANIC | STUCK => True
  | _ =>
    keptS v v' U X slots /\ block_slots v' lr X done' /\ (forall s, In s done -> In s done') /\
    (forall s, In s done' -> In s (slots ++ done)) /\ (forall s, In s done' -> G s = 0) /\
    match r with
    | OK _ => forall s, In s slots -> In s done'
    | _ => forall s, In s slots -> In s done' \/ (0 <= s < zlen (v_tab v') /\ a_allocated (get_alloc v' s) = false)
    end
  end.
Proof.
  induction slots as [|s tl IH]; intros v U X lr done size align flags sub HI Hal Hmin Hnd Hdead Hdone HG0; cbn [allocate_loop].
  - split; [split; [auto|split; [apply tab_frame_refl|apply lists_frame_refl]]|]. split; [auto|]. split; [auto|]. split; [auto|]. split; [auto|]. intros ? [].
  - destruct (Hdead s (or_introl eq_refl)) as (Hr & Hd).
    pose proof (alloc_page_inv v U X lr size align flags sub s HI Hal Hmin Hr Hd) as AP.
    destruct (alloc_page c v lr size align flags sub s) as (v1 & r).
    cbn [app] in Hnd. inversion Hnd as [|? ? Hns Hnd']; subst.
    assert (Hdone1 : tab_frame v v1 [s] -> block_slots v1 lr X done).
    { intros T. eapply block_slots_frame; [exact Hdone|exact T|]. intros s1 H1 [<-|[]]. apply Hns. apply in_app_iff. auto. }
    assert (Hdead1 : tab_frame v v1 [s] -> dead_slots v1 tl).
    { intros T. eapply dead_slots_frame; [intros s1 H1; apply Hdead; right; exact H1|exact T|].
      intros s1 H1 [<-|[]]. apply Hns. apply in_app_iff. auto. }
    assert (Kw : VamInvB v1 U X -> tab_frame v v1 [s] -> lists_frame v v1 -> keptS v v1 U X (s :: tl)).
    { intros I1 T1 L1. split; [exact I1|split; [eapply tab_frame_weaken; [exact T1|intros ? [<-|[]]; left; reflexivity]|exact L1]]. }
    destruct r as [[]|code| |]; cbn [ap_post] in AP; auto.
    + destruct AP as (I1 & T1 & L1 & (a & Sa & Ka & La)).
      assert (Hnd1 : NoDup (tl ++ s :: done)).
      { eapply Permutation.Permutation_NoDup; [apply Permutation.Permutation_middle|exact Hnd]. }
      assert (Hbs1 : block_slots v1 lr X (s :: done)).
      { destruct (Hdone1 T1) as (Hndd & Hd1). split; [constructor; [intros H; apply Hns; apply in_app_iff; auto|auto]|].
        intros s1 [<-|H1]; [|apply Hd1; auto]. split; [|eauto].
        intros HX. destruct (vi_dang _ _ _ _ (vb_s _ _ _ HI) _ HX) as (a2 & S2 & _). rewrite (get_alloc_slot _ _ _ S2) in Hd. destruct S2. congruence. }
      assert (HG1 : forall x, In x (s :: done) -> G x = 0).
      { intros x [<-|Hx]; [apply (bb_G0 _ _ _ (vb_b _ _ _ HI)); exact Hd|auto]. }
      specialize (IH v1 U X lr (s :: done) size align flags sub I1 Hal (min_ok_frame _ _ _ _ L1 Hmin) Hnd1 (Hdead1 T1) Hbs1 HG1).
      destruct (allocate_loop c v1 lr tl (s :: done) size align flags sub) as ((v2 & r2) & done2).
      destruct r2 as [[]|code| |]; auto; destruct IH as (K2 & B2 & S2 & Q2 & Z2 & O2);
        (split; [eapply keptS_trans; [exact (Kw I1 T1 L1)|eapply keptS_weaken; [exact K2|intros; right; auto]]|]);
        (split; [auto|]); (split; [intros x Hx; apply S2; right; auto|]);
        (split; [intros x Hx; specialize (Q2 x Hx); apply in_app_iff in Q2; destruct Q2 as [H|[<-|H]];
                 [right; apply in_app_iff; auto|left; reflexivity|right; apply in_app_iff; auto]|]); (split; [exact Z2|]).
      * intros x [<-|Hx]; [apply S2; left; reflexivity|auto].
      * intros x [<-|Hx]; [left; apply S2; left; reflexivity|auto].
    + destruct AP as (I1 & T1 & L1 & D1). split; [exact (Kw I1 T1 L1)|]. split; [auto|]. split; [auto|].
      split; [intros x Hx; right; apply in_app_iff; auto|]. split; [exact HG0|].
      intros x [<-|Hx]; right.
      * split; [destruct T1 as (E & _); lia|auto].
      * apply (Hdead1 T1). auto.
Qed.

(* memoryBlockList.Allocate *)
Lemma bl_allocate_inv v U X lr slots size align0 flags sub :
  VamInvB v U X -> align0 = 0 \/ Bits.pow2 align0 -> NoDup slots -> dead_slots v slots ->
  let '(v', r) := bl_allocate c v lr slots size align0 flags sub in
  match r with
  | OK _ => keptS v v' U X slots /\ block_slots v' lr X slots
  | ER _ => keptS v v' U X slots /\ dead_slots v' slots
  | _ => True
  end.
Proof.
  intros HI Hal Hnd Hdead. unfold bl_allocate. destruct (get_blist v lr) as [l|] eqn:Hg; [|exact I].
  pose proof (vi_lists _ _ _ _ (vb_s _ _ _ HI) _ _ Hg) as Hwf.
  assert (Hal' : Bits.pow2 (if align0 <? bl_minalign l then bl_minalign l else align0)).
  { pose proof (bw_align _ _ Hwf) as Hm. pose proof (Bits.pow2_pos _ Hm). destruct (align0 <? bl_minalign l) eqn:E; [auto|].
    destruct Hal as [->|H']; [apply Z.ltb_ge in E; lia|auto]. }
  assert (Hnd0 : NoDup (slots ++ [])) by (rewrite app_nil_r; auto).
  assert (Hbs0 : block_slots v lr X []) by (split; [constructor|intros ? []]).
  assert (Hmin0 : min_ok v lr (if align0 <? bl_minalign l then bl_minalign l else align0)).
  { intros l' G'. rewrite Hg in G'. injection G' as <-. destruct (align0 <? bl_minalign l) eqn:E; [lia|apply Z.ltb_ge in E; lia]. }
  pose proof (allocate_loop_inv slots v U X lr [] size _ flags sub HI Hal' Hmin0 Hnd0 Hdead Hbs0 ltac:(intros ? [])) as AL.
  destruct (allocate_loop c v lr slots [] size _ flags sub) as ((v1 & r) & done).
  destruct r as [[]|code| |]; auto.
  - destruct AL as (K1 & B1 & _ & _ & _ & O1). split; [auto|]. destruct B1 as (Hndd & Hb1). split; [auto|].
    intros s Hs. apply Hb1. auto.
  - destruct AL as (K1 & B1 & _ & Q1 & Z1 & O1).
    assert (Hsub : forall s, In s done -> In s slots) by (intros s Hs; specialize (Q1 s Hs); rewrite app_nil_r in Q1; auto).
    pose proof (unwind_loop_inv done v1 U X lr (proj1 K1) B1 Z1) as UW.
    destruct (unwind_loop c v1 lr done) as (v2 & ur). destruct ur as [[]|ucode| |]; auto; [|contradiction].
    destruct UW as (K2 & D2).
    pose proof (release_empty_since_inv v2 U X lr (bl_next l) (proj1 K2)) as RE.
    destruct (release_empty_since c v2 lr (bl_next l)) as (v3 & rr). destruct rr as [[]|rcode| |]; auto; [|contradiction].
    split.
    + eapply keptS_trans; [exact K1|]. eapply keptS_trans; [eapply keptS_weaken; [exact K2|exact Hsub]|]. apply kept_keptS. exact RE.
    + eapply dead_slots_frame with (v := v2) (S := []); [|apply RE|intros ? ? []].
      intros s Hs. destruct (in_dec Z.eq_dec s done) as [Hin|Hnin]; [apply D2; auto|].
      destruct (O1 s Hs) as [H|(Hr & Hd)]; [contradiction|]. destruct K2 as (_ & T2 & _).
      split; [destruct T2 as (E & _); lia|]. rewrite (get_alloc_frame _ _ _ _ T2); auto.
Qed.




(* ---------------------------------------------------------------- memoryBlockList.Destroy *)

Lemma bl_destroy_BB v U X lr :
  BInv v G X -> VamInvU c v U X ->
  let '(v', r) := bl_destroy c v lr in match r with OK _ => BInv v' G X | _ => True end.
Proof.
  intros HB HI. unfold bl_destroy. destruct (get_blist v lr) as [l|] eqn:Hg; [|exact I].
  destruct (existsb _ _); [exact I|].
  destruct (VamInvStep.destroy_blocks_machine c (bl_blocks l) v (bl_type l)) as (m' & Em).
  destruct (destroy_blocks c v (bl_type l) (bl_blocks l)) as (v1 & r1). cbn [fst] in Em. subst v1.
  destruct r1 as [[]|code| |]; try exact I. rewrite get_blist_set_m, Hg.
  apply (BInv_lists v G X); [exact HB|rewrite set_blist_tab; reflexivity|].
  intros lr0 l0 b0 G0 B0.
  assert (Hgm : get_blist (set_m v m') lr = Some l) by (rewrite get_blist_set_m; exact Hg).
  destruct (get_set_blist_cases (set_m v m') lr l _ lr0 l0 Hgm G0) as [(-> & ->)|(Hne & G0')]; [destruct B0|].
  rewrite get_blist_set_m in G0'. exists lr0, l0, b0. auto.
Qed.

Lemma bl_destroy_inv v U X lr :
  VamInvB v U X ->
  let '(v', r) := bl_destroy c v lr in
  match r with
  | OK _ => kept v v' U X /\ (exists l', get_blist v' lr = Some l' /\ bl_blocks l' = [])
  | ER _ => v' = v /\ exists l b, get_blist v lr = Some l /\ In b (bl_blocks l) /\ meta_is_empty (bk_meta b) = false
  | _ => True
  end.
Proof.
  intros HI. pose proof (VamMapStep.bl_destroy_inv c Hc Hmax Hlarge ms0 v U X lr (vb_m _ _ _ HI)) as P.
  pose proof (bl_destroy_BB v U X lr (vb_b _ _ _ HI) (vb_s _ _ _ HI)) as Q.
  destruct (bl_destroy c v lr) as (v' & r). destruct r as [[]|code| |]; auto.
  destruct P as ((I1 & T1 & L1) & E). split; [|exact E]. split; [split; [exact I1|exact Q]|auto].
Qed.

Lemma create_min_blocks_inv n : forall v U X lr size,
  VamInvB v U X -> 0 <= size < 2 ^ 62 ->
  let '(v', r) := create_min_blocks c n v lr size in kept v v' U X.
Proof.
  induction n as [|k IH]; intros v U X lr size HI Hsz; cbn [create_min_blocks].
  - split; [auto|split; [apply tab_frame_refl|apply lists_frame_refl]].
  - destruct (get_blist v lr) as [l|] eqn:Hg.
    + pose proof (create_block_inv v U X lr l size HI Hg Hsz) as C.
      destruct (create_block c v lr size) as (v1 & r). destruct r; try exact C.
      specialize (IH v1 U X lr size (proj1 C) Hsz). destruct (create_min_blocks c k v1 lr size) as (v2 & r2).
      eapply kept_trans; eauto.
    + unfold create_block. rewrite Hg. split; [auto|split; [apply tab_frame_refl|apply lists_frame_refl]].
Qed.

End WithCfg.
