(* VamDefragMap.v — the mapping invariant and the validity of the driver calls (VamMap.MM) through the
   defragmentation calls: BeginDefragmentation / Finish only reorder blocks; BeginDefragPass records a
   suballocation on and (for a persistently mapped source) maps the destination block of every move through that
   block's SynchronizedMemory object; EndDefragPass frees through memoryBlockList.Free.  With VamDefragAcct.reachDA:
   in every state of a history with defragmentation the device mapping state agrees with the SynchronizedMemory
   objects, and the driver calls of every defragmentation call are valid (reachDA_map, dstep_calls_valid). *)
From Coq Require Import ZArith List Bool Lia Permutation.
From Arsenal Require Import Util Budget BudgetProofs VamDev VamBlockList VamDefrag Vam VamInvMeta VamInv VamInvUpd VamInvDev.
From Arsenal Require Import VamInvStep VamInvStep2 VamInvThm VamProps VamAcct VamAcctStep VamAcctStep2 VamAcctThm VamMap VamMapStep VamMapStep2 VamMapThm.
From Arsenal Require Import VamDefragInv VamDefragStep VamDefragPass VamDefragThm VamDefragAcct.
From Arsenal Require Pass PassProofs Defrag DefragProofs SyncMem SyncMemProofs.
Import ListNotations.
Open Scope Z_scope.

Section WithCfg.
Variable c : vcfg.
Hypothesis Hc : cfg_ok c.
Hypothesis Hmax : 0 <= c_maxcount c < 2147483647.
Hypothesis Hlarge : 0 <= c_large c < 2 ^ 61.
Variable ms0 : list dmem.
Set Default Proof Using "Hc Hmax Hlarge".

(* ---------------------------------------------------------------- no two owners share a memory object *)

Record NA (w : vam) : Prop := mkNA {
  na_ids : forall lr l, get_blist w lr = Some l -> NoDup (map bk_id (bl_blocks l));
  na_inj : forall lr1 l1 b1 lr2 l2 b2, get_blist w lr1 = Some l1 -> In b1 (bl_blocks l1) -> get_blist w lr2 = Some l2 -> In b2 (bl_blocks l2) ->
           bk_mem b1 = bk_mem b2 -> lr1 = lr2 /\ bk_id b1 = bk_id b2;
  na_ded : forall s a lr l b, slot_is w s a -> a_kind a = 2 -> get_blist w lr = Some l -> In b (bl_blocks l) -> a_mem a <> bk_mem b
}.

Lemma NA_inv w U X : VamInvU c w U X -> NA w.
Proof.
  intros HI. constructor.
  - intros lr l Hg. apply (bw_nodup _ _ (vi_lists _ _ _ _ HI _ _ Hg)).
  - apply (vi_block_mem_inj _ _ _ _ HI).
  - apply (vi_ded_not_block _ _ _ _ HI).
Qed.

(* the lists of w' carry the same (list, id, memory) triples as those of w; the dedicated allocations are the same *)
Lemma NA_sub w w' :
  NA w ->
  (forall lr l', get_blist w' lr = Some l' -> exists l, get_blist w lr = Some l /\ map bk_id (bl_blocks l') = map bk_id (bl_blocks l) /\
     forall b', In b' (bl_blocks l') -> exists b, In b (bl_blocks l) /\ bk_id b = bk_id b' /\ bk_mem b = bk_mem b') ->
  (forall s a, slot_is w' s a -> a_kind a = 2 -> slot_is w s a) -> NA w'.
Proof.
  intros [N1 N2 N3] Hl Hs. constructor.
  - intros lr l' Hg. destruct (Hl _ _ Hg) as (l & G & E & _). rewrite E. eauto.
  - intros lr1 l1 b1 lr2 l2 b2 G1 B1 G2 B2 E. destruct (Hl _ _ G1) as (k1 & K1 & _ & P1). destruct (Hl _ _ G2) as (k2 & K2 & _ & P2).
    destruct (P1 _ B1) as (c1 & C1 & I1 & M1). destruct (P2 _ B2) as (c2 & C2 & I2 & M2).
    destruct (N2 _ _ _ _ _ _ K1 C1 K2 C2 ltac:(congruence)) as (E1 & E2). split; [exact E1|congruence].
  - intros s a lr l' b' Sa Ka Hg Hb. destruct (Hl _ _ Hg) as (l & G & _ & P). destruct (P _ Hb) as (b & B & _ & M). rewrite <- M. eapply N3; eauto.
Qed.

(* MM_put_touch from the no-alias property alone *)
Lemma MM_put_touch_NA w X lr l bc m' s' nb :
  MM ms0 w X -> NA w -> get_blist w lr = Some l -> In bc (bl_blocks l) ->
  sm_post ms0 (v_m w) (bk_mem bc) m' s' -> bk_id nb = bk_id bc -> bk_mem nb = bk_mem bc -> bk_sm nb = s' ->
  MM ms0 (put_block (set_m w m') lr nb) X.
Proof.
  intros (I & L) [N1 N2 N3] Hg Hb (P1 & P2 & P3 & P4) Eid Em Es.
  assert (Hgm : get_blist (set_m w m') lr = Some l) by (rewrite get_blist_set_m; exact Hg).
  split; [|rewrite put_block_m; exact P1].
  pose proof (N1 _ _ Hg) as Hnd.
  apply (VamMapStep.MapInv_touch c Hc Hmax Hlarge w X _ X (bk_mem bc) s' I); [rewrite put_block_m; exact P2|rewrite put_block_m; exact P3| |].
  - intros lr0 l0 b0 G0 B0. rewrite (put_block_eq _ _ _ _ Hgm) in G0.
    destruct (get_set_blist_cases (set_m w m') lr l _ lr0 l0 Hgm G0) as [(-> & ->)|(Hne & G)].
    + cbn in B0. destruct (in_replace_block _ _ _ Hnd B0) as [(-> & _)|(Hin & Hid)]; [left; auto|right].
      exists lr, l, b0. split; [exact Hg|]. split; [exact Hin|]. split; [reflexivity|]. split; [reflexivity|].
      intros E. destruct (N2 _ _ _ _ _ _ Hg Hin Hg Hb E) as (_ & E2). congruence.
    + right. rewrite get_blist_set_m in G. exists lr0, l0, b0. split; [exact G|]. split; [exact B0|]. split; [reflexivity|]. split; [reflexivity|].
      intros E. destruct (N2 _ _ _ _ _ _ G B0 Hg Hb E) as (E2 & _). contradiction.
  - intros s a Sa HX Ka. right. assert (Sa0 : slot_is w s a) by (unfold slot_is in *; rewrite put_block_tab in Sa; exact Sa).
    exists s, a. split; [exact Sa0|]. split; [exact HX|]. split; [exact Ka|]. split; [reflexivity|]. split; [reflexivity|].
    apply (N3 s a _ _ _ Sa0 Ka Hg Hb).
Qed.

(* ---------------------------------------------------------------- BeginDefragPass: the write-back *)

Lemma commit_move_MM w lr mv :
  MM ms0 w [] -> NA w ->
  let '(w', r) := commit_move c w lr mv in
  match r with OK _ => MM ms0 w' [] /\ NA w' | _ => True end.
Proof.
  intros HM HN. unfold commit_move.
  destruct (get_blist w lr) as [l|] eqn:Hg; [|exact I]. destruct (get_block w lr (Defrag.m_dstblk mv)) as [b|] eqn:Hgb; [|exact I].
  destruct (get_block_in _ _ _ _ Hgb) as (l' & Hg' & Hb & Hbid). assert (l' = l) by congruence. subst l'. clear Hg'.
  destruct (negb _); [exact I|].
  pose proof (sm_sub_M ms0 (v_m w) (bk_mem b) (bk_sm b) (proj2 HM) (mi_blocks _ _ (proj1 HM) _ _ _ Hg Hb)) as Psub.
  destruct (sm_sub (v_m w) (bk_mem b) (bk_sm b)) as (m1 & s1).
  assert (Pmap : forall m2 s2 (mr : out unit),
            (if a_persist (get_alloc w (Z.of_nat (Defrag.m_src mv))) then sm_map c m1 (bk_mem b) s1 else (m1, s1, OK tt)) = (m2, s2, mr) ->
            sm_post ms0 (v_m w) (bk_mem b) m2 s2).
  { intros m2 s2 mr E. destruct (a_persist _).
    - pose proof (sm_map_M c ms0 m1 (bk_mem b) s1 (proj1 Psub) (proj1 (proj2 Psub))) as P. rewrite E in P.
      eapply (VamMapStep.sm_post_trans c Hc Hmax Hlarge ms0); eauto.
    - injection E as <- <- _. exact Psub. }
  destruct (if a_persist (get_alloc w (Z.of_nat (Defrag.m_src mv))) then sm_map c m1 (bk_mem b) s1 else (m1, s1, OK tt)) as ((m2 & s2) & mr) eqn:Emap.
  specialize (Pmap _ _ _ eq_refl).
  destruct mr as [[]|code| |]; try exact I. destruct (_ && _); [exact I|].
  set (b2 := mkBlock (bk_id b) (bk_mem b) s2 (bk_meta b)).
  assert (M2 : MM ms0 (put_block (set_m w m2) lr b2) []) by (apply (MM_put_touch_NA w [] lr l b m2 s2 b2 HM HN Hg Hb Pmap); reflexivity).
  set (v2 := put_block (set_m w m2) lr b2) in *.
  match goal with |- context [set_tab v2 (v_tab v2 ++ [?t])] => set (tmp := t) end.
  assert (Hg2m : get_blist (set_m w m2) lr = Some l) by (rewrite get_blist_set_m; exact Hg).
  split.
  - apply MM_mach; [|apply add_allocation_sameM]. destruct M2 as (I2 & L2). split; [|exact L2].
    apply (MapInv_sub v2 []); [exact I2|reflexivity|apply blocks_sub_eq; intros; apply get_blist_set_tab|].
    intros s a Sa _ Ka. exists s, a. split; [|auto]. destruct Sa as (Sa & Aa). split; [|exact Aa].
    cbn [v_tab set_tab] in Sa. destruct (Z_lt_dec s (zlen (v_tab v2))) as [Hlt|Hge]; [rewrite nth_z_app_old in Sa by exact Hlt; exact Sa|].
    exfalso. assert (Hr : 0 <= s) by (apply nth_z_some_range in Sa; lia).
    replace s with (zlen (v_tab v2) + Z.of_nat (Z.to_nat (s - zlen (v_tab v2)))) in Sa by lia. rewrite nth_z_app_new in Sa.
    destruct (Z.to_nat (s - zlen (v_tab v2))) as [|n]; cbn in Sa; [injection Sa as <-; unfold tmp in Ka; cbn in Ka; discriminate|destruct n; discriminate].
  - (* no-alias *)
    apply (NA_sub w); [exact HN| |].
    + intros lr0 l0 G0. rewrite get_blist_set_m, get_blist_set_tab in G0. unfold v2 in G0. rewrite (put_block_eq _ _ _ _ Hg2m) in G0.
      destruct (get_set_blist_cases (set_m w m2) lr l _ lr0 l0 Hg2m G0) as [(-> & ->)|(Hne & G)].
      * exists l. split; [exact Hg|]. cbn. split; [apply replace_block_ids|]. intros b' Hb'.
        destruct (replace_block_cases _ _ _ Hb') as [->|Hin]; [exists b; auto|exists b'; auto].
      * rewrite get_blist_set_m in G. exists l0. split; [exact G|]. split; [reflexivity|]. intros b' Hb'. exists b'. auto.
    + intros s a Sa Ka. destruct Sa as (Sa & Aa). split; [|exact Aa]. cbn [v_tab set_m set_tab] in Sa.
      assert (Et : v_tab v2 = v_tab w) by (unfold v2; rewrite put_block_tab; reflexivity). rewrite Et in Sa.
      destruct (Z_lt_dec s (zlen (v_tab w))) as [Hlt|Hge]; [rewrite nth_z_app_old in Sa by exact Hlt; exact Sa|].
      exfalso. assert (Hr : 0 <= s) by (apply nth_z_some_range in Sa; lia).
      replace s with (zlen (v_tab w) + Z.of_nat (Z.to_nat (s - zlen (v_tab w)))) in Sa by lia. rewrite nth_z_app_new in Sa.
      destruct (Z.to_nat (s - zlen (v_tab w))) as [|n]; cbn in Sa; [injection Sa as <-; unfold tmp in Ka; cbn in Ka; discriminate|destruct n; discriminate].
Qed.

Lemma commit_moves_MM mvs : forall w lr,
  MM ms0 w [] -> NA w ->
  let '(w', r) := commit_moves c w lr mvs in match r with OK _ => MM ms0 w' [] | _ => True end.
Proof.
  induction mvs as [|mv tl IH]; intros w lr HM HN; cbn [commit_moves]; [exact HM|].
  pose proof (commit_move_MM w lr mv HM HN) as P. destruct (commit_move c w lr mv) as (w1 & r).
  destruct r as [[]|code| |]; auto. destruct P as (M1 & N1). apply IH; auto.
Qed.

Lemma collect_list_MM v dc p :
  VamInv c v -> MM ms0 v [] ->
  let '(v', r) := collect_list c v dc p in match r with OK _ => MM ms0 v' [] | _ => True end.
Proof.
  intros HI HM. unfold collect_list.
  destruct (project v (dc_lr dc)) as [st|] eqn:Ep; [|exact I].
  destruct (get_blist v (dc_lr dc)) as [l|] eqn:Hg; [|exact I].
  destruct (Defrag.collect_moves st (dc_ctx dc) p) as (cs & wr).
  set (bl' := Defrag.d_blocks (Defrag.cs_st cs)).
  set (l1 := set_blocks l (unproject_blocks (bl_blocks l) bl')). set (v1 := set_blist v (dc_lr dc) l1).
  assert (Hun : forall b1, In b1 (bl_blocks l1) -> exists b, In b (bl_blocks l) /\ bk_id b = bk_id b1 /\ bk_mem b = bk_mem b1 /\ bk_sm b = bk_sm b1).
  { intros b1 Hb1. unfold l1 in Hb1. cbn in Hb1. unfold unproject_blocks in Hb1. apply in_map_iff in Hb1. destruct Hb1 as (b & <- & Hb).
    exists b. split; [exact Hb|]. destruct (Defrag.find_id (bk_id b) bl'); cbn; auto. }
  assert (M1 : MM ms0 v1 []).
  { apply (MM_lists ms0 v []); [exact HM|apply set_blist_m|apply tab_frame_set_blist|].
    apply (blocks_sub_set_blist v (dc_lr dc) l _ Hg). intros b1 Hb1. destruct (Hun b1 Hb1) as (b & Hb & _ & E1 & E2). exists b. auto. }
  assert (N1 : NA v1).
  { apply (NA_sub v); [apply (NA_inv v [] []); exact HI| |].
    - intros lr0 l0 G0. destruct (get_set_blist_cases v (dc_lr dc) l l1 lr0 l0 Hg G0) as [(-> & ->)|(Hne & G)].
      + exists l. split; [exact Hg|]. split; [unfold l1; cbn; apply unproject_ids|]. intros b1 Hb1. destruct (Hun b1 Hb1) as (b & Hb & E0 & E1 & _). exists b. auto.
      + exists l0. split; [exact G|]. split; [reflexivity|]. intros b' Hb'. exists b'. auto.
    - intros s a Sa _. unfold slot_is, v1 in *. rewrite set_blist_tab in Sa. exact Sa. }
  destruct wr as [| |why]; [| |exact I];
    (match goal with |- context [commit_moves c v1 ?lr ?ms] => pose proof (commit_moves_MM ms v1 lr M1 N1) as P; destruct (commit_moves c v1 lr ms) as (v2 & r) end;
     destruct r as [[]|code| |]; auto).
Qed.

Lemma pass_loop_MM fuel : forall v run p,
  VamInv c v -> MM ms0 v [] -> run_idle run -> 0 <= dr_max_bytes run -> 0 <= dr_max_allocs run -> PassProofs.pass_running p -> lists_g1 v run ->
  let '(v', run', r) := pass_loop c fuel v run p in match r with OK _ => MM ms0 v' [] | _ => True end.
Proof.
  induction fuel as [|f IH]; intros v run p HI HM Hidle Hb Ha Hrun HG; cbn [pass_loop]; [exact I|].
  destruct (nth_z (dr_ctxs run) (dr_progress run)) as [dc|] eqn:En; [|exact HM].
  assert (Hdc : Defrag.c_moves (dc_ctx dc) = []) by (eapply Hidle; eauto).
  pose proof (VamDefragPass.collect_list_inv c v dc p HI Hdc Hrun (fun l Hl => HG _ _ _ En Hl)) as PS.
  pose proof (collect_list_MM v dc p HI HM) as P.
  destruct (collect_list c v dc p) as (v1 & r). destruct r as [(dc' & p')|code| |]; auto.
  destruct PS as (S1 & LS1 & GS1 & Elr & MS1 & Hrun').
  pose proof (nth_z_some_range _ _ _ En) as Hrg.
  destruct (Defrag.c_moves (dc_ctx dc')) as [|m0 ms1] eqn:Em; [|exact P].
  match goal with |- context [pass_loop c f v1 ?rr p'] => set (run1 := rr) end.
  assert (Hidle1 : run_idle run1).
  { intros i dc1 Hn1. unfold run1 in Hn1. cbn [dr_ctxs] in Hn1. unfold set_nth_ctx in Hn1.
    destruct (Z.eq_dec i (dr_progress run)) as [->|Hne].
    - rewrite nth_z_set_same in Hn1 by exact Hrg. injection Hn1 as <-. exact Em.
    - rewrite nth_z_set_other in Hn1 by congruence. eapply Hidle; eauto. }
  assert (HG1 : lists_g1 v1 run1).
  { intros i dc1 l1 Hn1 Hg1. unfold run1 in Hn1. cbn [dr_ctxs] in Hn1. unfold set_nth_ctx in Hn1.
    destruct (Z.eq_dec i (dr_progress run)) as [->|Hne].
    - rewrite nth_z_set_same in Hn1 by exact Hrg. injection Hn1 as <-. rewrite Elr in Hg1.
      eapply (lists_frame_g1 v v1 (dr_ctxs run) LS1 HG); eauto.
    - rewrite nth_z_set_other in Hn1 by congruence. eapply (lists_frame_g1 v v1 (dr_ctxs run) LS1 HG); eauto. }
  apply IH; auto.
Qed.

End WithCfg.
