(* VamDefragMap.v — the mapping invariant and the validity of the driver calls (VamMap.MM) through the
   defragmentation calls: BeginDefragmentation / Finish only reorder blocks; BeginDefragPass records a
   suballocation on and (for a persistently mapped source) maps the destination block of every move through that
   block's SynchronizedMemory object; EndDefragPass frees through memoryBlockList.Free.  With VamDefragAcct.reachDA:
   in every state of a history with defragmentation the device mapping state agrees with the SynchronizedMemory
   objects, and the driver calls of every defragmentation call are valid (reachDA_map, dstep_calls_valid). *)
From Coq Require Import ZArith List Bool Lia Permutation.
From Arsenal Require Import Util Budget BudgetProofs VamDev VamBlockList VamDefrag Vam VamInvMeta VamInv VamInvUpd VamInvDev.
From Arsenal Require Import VamInvStep VamInvStep2 VamInvThm VamProps VamAcct VamAcctStep VamAcctStep2 VamAcctThm VamMap VamMapStep VamMapStep2 VamMapThm.
From Arsenal Require Import VamDefragInv VamDefragStep VamDefragPass VamDefragThm VamDefragAcct.
From Arsenal Require Pass PassProofs Defrag DefragProofs DefragGranProofs Gran GranInv GranTlsf VamGran SyncMem SyncMemProofs.
Import ListNotations.
Open Scope Z_scope.

Section WithCfg.
Variable c : vcfg.
Hypothesis Hc : cfg_ok c.
Hypothesis Hmax : 0 <= c_maxcount c < 2147483647.
Hypothesis Hlarge : 0 <= c_large c < 2 ^ 61.
Variable ms0 : list dmem.
Set Default Proof Using "Hc Hmax Hlarge".

(* ---------------------------------------------------------------- no two owners share a memory object *)

Record NA (w : vam) : Prop := mkNA {
  na_ids : forall lr l, get_blist w lr = Some l -> NoDup (map bk_id (bl_blocks l));
  na_inj : forall lr1 l1 b1 lr2 l2 b2, get_blist w lr1 = Some l1 -> In b1 (bl_blocks l1) -> get_blist w lr2 = Some l2 -> In b2 (bl_blocks l2) ->
           bk_mem b1 = bk_mem b2 -> lr1 = lr2 /\ bk_id b1 = bk_id b2;
  na_ded : forall s a lr l b, slot_is w s a -> a_kind a = 2 -> get_blist w lr = Some l -> In b (bl_blocks l) -> a_mem a <> bk_mem b
}.

Lemma NA_inv w U X : VamInvU c w U X -> NA w.
Proof.
  intros HI. constructor.
  - intros lr l Hg. apply (bw_nodup _ _ (vi_lists _ _ _ _ HI _ _ Hg)).
  - apply (vi_block_mem_inj _ _ _ _ HI).
  - apply (vi_ded_not_block _ _ _ _ HI).
Qed.

(* the lists of w' carry the same (list, id, memory) triples as those of w; the dedicated allocations are the same *)
Lemma NA_sub w w' :
  NA w ->
  (forall lr l', get_blist w' lr = Some l' -> exists l, get_blist w lr = Some l /\ map bk_id (bl_blocks l') = map bk_id (bl_blocks l) /\
     forall b', In b' (bl_blocks l') -> exists b, In b (bl_blocks l) /\ bk_id b = bk_id b' /\ bk_mem b = bk_mem b') ->
  (forall s a, slot_is w' s a -> a_kind a = 2 -> slot_is w s a) -> NA w'.
Proof.
  intros [N1 N2 N3] Hl Hs. constructor.
  - intros lr l' Hg. destruct (Hl _ _ Hg) as (l & G & E & _). rewrite E. eauto.
  - intros lr1 l1 b1 lr2 l2 b2 G1 B1 G2 B2 E. destruct (Hl _ _ G1) as (k1 & K1 & _ & P1). destruct (Hl _ _ G2) as (k2 & K2 & _ & P2).
    destruct (P1 _ B1) as (c1 & C1 & I1 & M1). destruct (P2 _ B2) as (c2 & C2 & I2 & M2).
    destruct (N2 _ _ _ _ _ _ K1 C1 K2 C2 ltac:(congruence)) as (E1 & E2). split; [exact E1|congruence].
  - intros s a lr l' b' Sa Ka Hg Hb. destruct (Hl _ _ Hg) as (l & G & _ & P). destruct (P _ Hb) as (b & B & _ & M). rewrite <- M. eapply N3; eauto.
Qed.

(* MM_put_touch from the no-alias property alone *)
Lemma MM_put_touch_NA w X lr l bc m' s' nb :
  MM ms0 w X -> NA w -> get_blist w lr = Some l -> In bc (bl_blocks l) ->
  sm_post ms0 (v_m w) (bk_mem bc) m' s' -> bk_id nb = bk_id bc -> bk_mem nb = bk_mem bc -> bk_sm nb = s' ->
  MM ms0 (put_block (set_m w m') lr nb) X.
Proof.
  intros (I & L) [N1 N2 N3] Hg Hb (P1 & P2 & P3 & P4) Eid Em Es.
  assert (Hgm : get_blist (set_m w m') lr = Some l) by (rewrite get_blist_set_m; exact Hg).
  split; [|rewrite put_block_m; exact P1].
  pose proof (N1 _ _ Hg) as Hnd.
  apply (VamMapStep.MapInv_touch c Hc Hmax Hlarge w X _ X (bk_mem bc) s' I); [rewrite put_block_m; exact P2|rewrite put_block_m; exact P3| |].
  - intros lr0 l0 b0 G0 B0. rewrite (put_block_eq _ _ _ _ Hgm) in G0.
    destruct (get_set_blist_cases (set_m w m') lr l _ lr0 l0 Hgm G0) as [(-> & ->)|(Hne & G)].
    + cbn in B0. destruct (in_replace_block _ _ _ Hnd B0) as [(-> & _)|(Hin & Hid)]; [left; auto|right].
      exists lr, l, b0. split; [exact Hg|]. split; [exact Hin|]. split; [reflexivity|]. split; [reflexivity|].
      intros E. destruct (N2 _ _ _ _ _ _ Hg Hin Hg Hb E) as (_ & E2). congruence.
    + right. rewrite get_blist_set_m in G. exists lr0, l0, b0. split; [exact G|]. split; [exact B0|]. split; [reflexivity|]. split; [reflexivity|].
      intros E. destruct (N2 _ _ _ _ _ _ G B0 Hg Hb E) as (E2 & _). contradiction.
  - intros s a Sa HX Ka. right. assert (Sa0 : slot_is w s a) by (unfold slot_is in *; rewrite put_block_tab in Sa; exact Sa).
    exists s, a. split; [exact Sa0|]. split; [exact HX|]. split; [exact Ka|]. split; [reflexivity|]. split; [reflexivity|].
    apply (N3 s a _ _ _ Sa0 Ka Hg Hb).
Qed.

(* ---------------------------------------------------------------- BeginDefragPass: the write-back *)

Lemma commit_move_MM w lr mv :
  MM ms0 w [] -> NA w ->
  let '(w', r) := commit_move c w lr mv in
  match r with OK _ => MM ms0 w' [] /\ NA w' | _ => True end.
Proof.
  intros HM HN. unfold commit_move.
  destruct (get_blist w lr) as [l|] eqn:Hg; [|exact I]. destruct (get_block w lr (Defrag.m_dstblk mv)) as [b|] eqn:Hgb; [|exact I].
  destruct (get_block_in _ _ _ _ Hgb) as (l' & Hg' & Hb & Hbid). assert (l' = l) by congruence. subst l'. clear Hg'.
  destruct (negb _); [exact I|].
  pose proof (sm_sub_M ms0 (v_m w) (bk_mem b) (bk_sm b) (proj2 HM) (mi_blocks _ _ (proj1 HM) _ _ _ Hg Hb)) as Psub.
  destruct (sm_sub (v_m w) (bk_mem b) (bk_sm b)) as (m1 & s1).
  assert (Pmap : forall m2 s2 (mr : out unit),
            (if a_persist (get_alloc w (Z.of_nat (Defrag.m_src mv))) then sm_map c m1 (bk_mem b) s1 else (m1, s1, OK tt)) = (m2, s2, mr) ->
            sm_post ms0 (v_m w) (bk_mem b) m2 s2).
  { intros m2 s2 mr E. destruct (a_persist _).
    - pose proof (sm_map_M c ms0 m1 (bk_mem b) s1 (proj1 Psub) (proj1 (proj2 Psub))) as P. rewrite E in P.
      eapply (VamMapStep.sm_post_trans c Hc Hmax Hlarge ms0); eauto.
    - injection E as <- <- _. exact Psub. }
  destruct (if a_persist (get_alloc w (Z.of_nat (Defrag.m_src mv))) then sm_map c m1 (bk_mem b) s1 else (m1, s1, OK tt)) as ((m2 & s2) & mr) eqn:Emap.
  specialize (Pmap _ _ _ eq_refl).
  destruct mr as [[]|code| |]; try exact I. destruct (_ && _); [exact I|].
  set (b2 := mkBlock (bk_id b) (bk_mem b) s2 (bk_meta b)).
  assert (M2 : MM ms0 (put_block (set_m w m2) lr b2) []) by (apply (MM_put_touch_NA w [] lr l b m2 s2 b2 HM HN Hg Hb Pmap); reflexivity).
  set (v2 := put_block (set_m w m2) lr b2) in *.
  match goal with |- context [set_tab v2 (v_tab v2 ++ [?t])] => set (tmp := t) end.
  assert (Hg2m : get_blist (set_m w m2) lr = Some l) by (rewrite get_blist_set_m; exact Hg).
  split.
  - apply MM_mach; [|apply add_allocation_sameM]. destruct M2 as (I2 & L2). split; [|exact L2].
    apply (MapInv_sub v2 []); [exact I2|reflexivity|apply blocks_sub_eq; intros; apply get_blist_set_tab|].
    intros s a Sa _ Ka. exists s, a. split; [|auto]. destruct Sa as (Sa & Aa). split; [|exact Aa].
    cbn [v_tab set_tab] in Sa. destruct (Z_lt_dec s (zlen (v_tab v2))) as [Hlt|Hge]; [rewrite nth_z_app_old in Sa by exact Hlt; exact Sa|].
    exfalso. assert (Hr : 0 <= s) by (apply nth_z_some_range in Sa; lia).
    replace s with (zlen (v_tab v2) + Z.of_nat (Z.to_nat (s - zlen (v_tab v2)))) in Sa by lia. rewrite nth_z_app_new in Sa.
    destruct (Z.to_nat (s - zlen (v_tab v2))) as [|n]; cbn in Sa; [injection Sa as <-; unfold tmp in Ka; cbn in Ka; discriminate|destruct n; discriminate].
  - (* no-alias *)
    apply (NA_sub w); [exact HN| |].
    + intros lr0 l0 G0. rewrite get_blist_set_m, get_blist_set_tab in G0. unfold v2 in G0. rewrite (put_block_eq _ _ _ _ Hg2m) in G0.
      destruct (get_set_blist_cases (set_m w m2) lr l _ lr0 l0 Hg2m G0) as [(-> & ->)|(Hne & G)].
      * exists l. split; [exact Hg|]. cbn. split; [apply replace_block_ids|]. intros b' Hb'.
        destruct (replace_block_cases _ _ _ Hb') as [->|Hin]; [exists b; auto|exists b'; auto].
      * rewrite get_blist_set_m in G. exists l0. split; [exact G|]. split; [reflexivity|]. intros b' Hb'. exists b'. auto.
    + intros s a Sa Ka. destruct Sa as (Sa & Aa). split; [|exact Aa]. cbn [v_tab set_m set_tab] in Sa.
      assert (Et : v_tab v2 = v_tab w) by (unfold v2; rewrite put_block_tab; reflexivity). rewrite Et in Sa.
      destruct (Z_lt_dec s (zlen (v_tab w))) as [Hlt|Hge]; [rewrite nth_z_app_old in Sa by exact Hlt; exact Sa|].
      exfalso. assert (Hr : 0 <= s) by (apply nth_z_some_range in Sa; lia).
      replace s with (zlen (v_tab w) + Z.of_nat (Z.to_nat (s - zlen (v_tab w)))) in Sa by lia. rewrite nth_z_app_new in Sa.
      destruct (Z.to_nat (s - zlen (v_tab w))) as [|n]; cbn in Sa; [injection Sa as <-; unfold tmp in Ka; cbn in Ka; discriminate|destruct n; discriminate].
Qed.

Lemma commit_moves_MM mvs : forall w lr,
  MM ms0 w [] -> NA w ->
  let '(w', r) := commit_moves c w lr mvs in match r with OK _ => MM ms0 w' [] | _ => True end.
Proof.
  induction mvs as [|mv tl IH]; intros w lr HM HN; cbn [commit_moves]; [exact HM|].
  pose proof (commit_move_MM w lr mv HM HN) as P. destruct (commit_move c w lr mv) as (w1 & r).
  destruct r as [[]|code| |]; auto. destruct P as (M1 & N1). apply IH; auto.
Qed.

Lemma commit_attempt_MM w lr slot dst :
  MM ms0 w [] -> NA w -> MM ms0 (fst (commit_attempt c w lr slot dst)) [] /\ NA (fst (commit_attempt c w lr slot dst)).
Proof.
  intros HM HN. unfold commit_attempt.
  destruct (get_block w lr dst) as [b|] eqn:Hgb; [|auto].
  destruct (get_block_in _ _ _ _ Hgb) as (l & Hg & Hb & Hbid).
  pose proof (sm_sub_M ms0 (v_m w) (bk_mem b) (bk_sm b) (proj2 HM) (mi_blocks _ _ (proj1 HM) _ _ _ Hg Hb)) as Psub.
  destruct (sm_sub (v_m w) (bk_mem b) (bk_sm b)) as (m1 & s1).
  assert (Pmap : forall m2 s2 (mr : out unit),
            (if a_persist (get_alloc w (Z.of_nat slot)) then sm_map c m1 (bk_mem b) s1 else (m1, s1, OK tt)) = (m2, s2, mr) ->
            sm_post ms0 (v_m w) (bk_mem b) m2 s2).
  { intros m2 s2 mr E. destruct (a_persist _).
    - pose proof (sm_map_M c ms0 m1 (bk_mem b) s1 (proj1 Psub) (proj1 (proj2 Psub))) as P. rewrite E in P.
      eapply (VamMapStep.sm_post_trans c Hc Hmax Hlarge ms0); eauto.
    - injection E as <- <- _. exact Psub. }
  destruct (if a_persist (get_alloc w (Z.of_nat slot)) then sm_map c m1 (bk_mem b) s1 else (m1, s1, OK tt)) as ((m2 & s2) & mr) eqn:Emap.
  specialize (Pmap _ _ _ eq_refl). cbn [fst].
  set (b2 := mkBlock (bk_id b) (bk_mem b) s2 (bk_meta b)).
  assert (Hg2m : get_blist (set_m w m2) lr = Some l) by (rewrite get_blist_set_m; exact Hg).
  split; [apply (MM_put_touch_NA w [] lr l b m2 s2 b2 HM HN Hg Hb Pmap); reflexivity|].
  apply (NA_sub w); [exact HN| |].
  - intros lr0 l0 G0. rewrite (put_block_eq _ _ _ _ Hg2m) in G0.
    destruct (get_set_blist_cases (set_m w m2) lr l _ lr0 l0 Hg2m G0) as [(-> & ->)|(Hne & G)].
    + exists l. split; [exact Hg|]. cbn. split; [apply replace_block_ids|]. intros b' Hb'.
      destruct (replace_block_cases _ _ _ Hb') as [->|Hin]; [exists b; auto|exists b'; auto].
    + rewrite get_blist_set_m in G. exists l0. split; [exact G|]. split; [reflexivity|]. intros b' Hb'. exists b'. auto.
  - intros s a Sa Ka. unfold slot_is in *. rewrite put_block_tab in Sa. exact Sa.
Qed.

Lemma replay_MM log : forall w lr,
  MM ms0 w [] -> NA w ->
  let '(w', r) := replay_log c w lr log in match r with OK _ => MM ms0 w' [] | _ => True end.
Proof.
  induction log as [|[slot dst|mv] tl IH]; intros w lr HM HN; cbn [replay_log]; [exact HM| |].
  - destruct (commit_attempt_MM w lr slot dst HM HN) as (M1 & N1). destruct (commit_attempt c w lr slot dst) as (w1 & r). cbn [fst] in *.
    destruct r as [[]|code| |]; try exact I; apply IH; auto.
  - pose proof (commit_move_MM w lr mv HM HN) as P. destruct (commit_move c w lr mv) as (w1 & r).
    destruct r as [[]|code| |]; auto. destruct P as (M1 & N1). apply IH; auto.
Qed.

Lemma collect_list_MM v dc p :
  VamInv c v -> MM ms0 v [] ->
  let '(v', r) := collect_list c v dc p in match r with OK _ => MM ms0 v' [] | _ => True end.
Proof.
  intros HI HM. unfold collect_list.
  destruct (project v (dc_lr dc)) as [st|] eqn:Ep; [|exact I].
  destruct (get_blist v (dc_lr dc)) as [l|] eqn:Hg; [|exact I].
  destruct (Defrag.collect_moves_f vam (att_commit c (dc_lr dc)) st (dc_ctx dc) p v) as (((cs & env) & log) & wr).
  set (bl' := Defrag.d_blocks (Defrag.cs_st cs)).
  set (l1 := set_blocks l (unproject_blocks (bl_blocks l) bl')). set (v1 := set_blist v (dc_lr dc) l1).
  assert (Hun : forall b1, In b1 (bl_blocks l1) -> exists b, In b (bl_blocks l) /\ bk_id b = bk_id b1 /\ bk_mem b = bk_mem b1 /\ bk_sm b = bk_sm b1).
  { intros b1 Hb1. unfold l1 in Hb1. cbn in Hb1. unfold unproject_blocks in Hb1. apply in_map_iff in Hb1. destruct Hb1 as (b & <- & Hb).
    exists b. split; [exact Hb|]. destruct (Defrag.find_id (bk_id b) bl'); cbn; auto. }
  assert (M1 : MM ms0 v1 []).
  { apply (MM_lists ms0 v []); [exact HM|apply set_blist_m|apply tab_frame_set_blist|].
    apply (blocks_sub_set_blist v (dc_lr dc) l _ Hg). intros b1 Hb1. destruct (Hun b1 Hb1) as (b & Hb & _ & E1 & E2). exists b. auto. }
  assert (N1 : NA v1).
  { apply (NA_sub v); [apply (NA_inv v [] []); exact HI| |].
    - intros lr0 l0 G0. destruct (get_set_blist_cases v (dc_lr dc) l l1 lr0 l0 Hg G0) as [(-> & ->)|(Hne & G)].
      + exists l. split; [exact Hg|]. split; [unfold l1; cbn; apply unproject_ids|]. intros b1 Hb1. destruct (Hun b1 Hb1) as (b & Hb & E0 & E1 & _). exists b. auto.
      + exists l0. split; [exact G|]. split; [reflexivity|]. intros b' Hb'. exists b'. auto.
    - intros s a Sa _. unfold slot_is, v1 in *. rewrite set_blist_tab in Sa. exact Sa. }
  destruct wr as [| |why]; [| |exact I];
    (match goal with |- context [replay_log c v1 ?lr ?ms] => pose proof (replay_MM ms v1 lr M1 N1) as P; destruct (replay_log c v1 lr ms) as (v2 & r) end;
     destruct r as [[]|code| |]; auto).
Qed.

Lemma pass_loop_MM fuel : forall v run p,
  VamInv c v -> MM ms0 v [] -> run_idle run -> 0 <= dr_max_bytes run -> 0 <= dr_max_allocs run -> PassProofs.pass_running p -> VamGran.GV c v ->
  let '(v', run', r) := pass_loop c fuel v run p in match r with OK _ => MM ms0 v' [] | _ => True end.
Proof.
  induction fuel as [|f IH]; intros v run p HI HM Hidle Hb Ha Hrun HG; cbn [pass_loop]; [exact I|].
  destruct (nth_z (dr_ctxs run) (dr_progress run)) as [dc|] eqn:En; [|exact HM].
  assert (Hdc : Defrag.c_moves (dc_ctx dc) = []) by (eapply Hidle; eauto).
  pose proof (VamDefragPass.collect_list_inv_gv c v dc p HI HG Hdc Hrun) as PS.
  pose proof (collect_list_MM v dc p HI HM) as P.
  destruct (collect_list c v dc p) as (v1 & r). destruct r as [(dc' & p')|code| |]; auto.
  destruct PS as ((S1 & LS1 & GS1 & Elr & MS1 & Hrun') & HG1).
  pose proof (nth_z_some_range _ _ _ En) as Hrg.
  destruct (Defrag.c_moves (dc_ctx dc')) as [|m0 ms1] eqn:Em; [|exact P].
  match goal with |- context [pass_loop c f v1 ?rr p'] => set (run1 := rr) end.
  assert (Hidle1 : run_idle run1).
  { intros i dc1 Hn1. unfold run1 in Hn1. cbn [dr_ctxs] in Hn1. unfold set_nth_ctx in Hn1.
    destruct (Z.eq_dec i (dr_progress run)) as [->|Hne].
    - rewrite nth_z_set_same in Hn1 by exact Hrg. injection Hn1 as <-. exact Em.
    - rewrite nth_z_set_other in Hn1 by congruence. eapply Hidle; eauto. }
  apply IH; auto.
Qed.


(* ---------------------------------------------------------------- EndDefragPass *)

Lemma set_ud_MM w X lr bid h tag w' : MM ms0 w X -> set_block_user_data w lr bid h tag = Some w' -> MM ms0 w' X.
Proof.
  intros HM. unfold set_block_user_data. destruct (get_block w lr bid) as [b|] eqn:Hgb; [|discriminate].
  destruct (meta_set_user_data (bk_meta b) h tag) as [mt|]; [|discriminate]. intros E. injection E as <-.
  destruct (get_block_in _ _ _ _ Hgb) as (l & Hg & Hb & Hid).
  apply (VamMapStep.MM_put_same c Hc Hmax Hlarge ms0 w X lr b); [exact HM|cbn [bk_id]; rewrite Hid; exact Hgb|reflexivity|reflexivity].
Qed.

(* an Allocation object that is not a dedicated allocation before or after is written *)
Lemma MM_set_alloc_nd w X s a' :
  MM ms0 w X -> (forall a, slot_is w s a -> a_kind a <> 2) -> (a_allocated a' = true -> a_kind a' <> 2) -> MM ms0 (set_alloc w s a') X.
Proof.
  intros (I & L) Hold Hnew. split; [|exact L].
  apply (MapInv_sub w X); [exact I|reflexivity|apply blocks_sub_eq; intros; apply get_blist_set_alloc|].
  intros s1 a1 S1 HX K1. destruct (Z.eq_dec s1 s) as [->|Hne].
  - exfalso. destruct (nth_z (v_tab w) s) as [x|] eqn:E.
    + apply slot_is_set_alloc_same in S1; [|eapply nth_z_some_range; eauto]. destruct S1 as (-> & Ha). apply (Hnew Ha K1).
    + destruct S1 as (S1 & _). unfold set_alloc in S1. cbn in S1. rewrite nth_z_set_none in S1 by exact E. discriminate.
  - exists s1, a1. split; [apply (slot_is_set_alloc_other w s a' s1 a1 Hne); exact S1|auto].
Qed.

Lemma swap_MM v X s t a b :
  MM ms0 v X -> slot_is v s a -> slot_is v t b -> s <> t -> a_kind a = 1 -> a_kind b = 1 ->
  MM ms0 (fst (swap_block_allocation v s t)) X.
Proof.
  intros HM Sa Sb Hst Ka Kb. unfold swap_block_allocation. rewrite (get_alloc_slot _ _ _ Sa), (get_alloc_slot _ _ _ Sb).
  destruct (_ || _); [exact HM|].
  destruct (set_block_user_data v (a_lref a) (a_blk a) (a_handle a) t) as [v1|] eqn:E1; [|exact HM].
  pose proof (set_ud_MM v X _ _ _ _ _ HM E1) as M1. destruct (set_ud_m_tab c Hc Hmax Hlarge _ _ _ _ _ _ E1) as (_ & T1).
  match goal with |- context [set_alloc (set_alloc v1 s ?x) t ?y] => set (a' := x); set (b' := y) end.
  assert (M2 : MM ms0 (set_alloc (set_alloc v1 s a') t b') X).
  { apply MM_set_alloc_nd; [apply MM_set_alloc_nd; [exact M1| |]| |].
    - intros x Sx. assert (x = a) by (unfold slot_is in Sx; rewrite T1 in Sx; destruct Sx, Sa; congruence). subst x. rewrite Ka. discriminate.
    - intros _. unfold a'. cbn. rewrite Ka. discriminate.
    - intros x Sx. apply (slot_is_set_alloc_other v1 s a' t x) in Sx; [|congruence].
      assert (x = b) by (unfold slot_is in Sx; rewrite T1 in Sx; destruct Sx, Sb; congruence). subst x. rewrite Kb. discriminate.
    - intros _. unfold b'. cbn. rewrite Kb. discriminate. }
  match goal with |- context [set_block_user_data ?w ?a1 ?a2 ?a3 s] => destruct (set_block_user_data w a1 a2 a3 s) as [v3|] eqn:E3 end; cbn [fst]; [|exact M2].
  exact (set_ud_MM _ X _ _ _ _ _ M2 E3).
Qed.

Lemma free_or_panic_MM v s :
  VamInv c v -> MM ms0 v [] -> let '(v', r) := free_or_panic c v s in match r with OK _ => MM ms0 v' [] | _ => True end.
Proof.
  intros HI HM. unfold free_or_panic. destruct (a_allocated (get_alloc v s)) eqn:Ea; cbn [negb]; [|exact I].
  destruct (a_kind (get_alloc v s) =? 1) eqn:Ek; cbn [negb]; [|exact I]. apply Z.eqb_eq in Ek.
  pose proof (VamMapStep.bl_free_MM c Hc Hmax Hlarge ms0 v [] [] s (get_alloc v s) false HM HI (get_alloc_allocated _ _ Ea) (fun H => H) Ek) as P.
  destruct (bl_free c v (a_lref (get_alloc v s)) s false) as (v1 & r). destruct r as [[]|code| |]; auto.
  apply (VamMapStep.MM_unmark c Hc Hmax Hlarge ms0); [|reflexivity].
  eapply (VamMapStep.MM_weaken c Hc Hmax Hlarge ms0); [exact P|intros ? []].
Qed.

Lemma complete_move_MM v lr mv d :
  VamInv c v -> MM ms0 v [] -> mv_ok v lr mv -> src_of mv <> tmp_of mv ->
  let '(v', r) := complete_move c v mv d in match r with OK _ => MM ms0 v' [] | _ => True end.
Proof.
  intros HI HM (a & b & Sa & Sb & Ka & Kb & La & Lb & Esz & Eal & _) Hne. unfold complete_move.
  fold (src_of mv). fold (tmp_of mv).
  destruct (d =? 0).
  - pose proof (VamDefragInv.swap_inv c v [] [] (src_of mv) (tmp_of mv) a b lr HI Hne Sa Sb (fun H => H) (fun H => H) Ka Kb La Lb Esz Eal) as P.
    pose proof (swap_MM v [] (src_of mv) (tmp_of mv) a b HM Sa Sb Hne Ka Kb) as PM.
    destruct (swap_block_allocation v (src_of mv) (tmp_of mv)) as (v1 & r1). cbn [fst] in PM.
    destruct P as (-> & I1 & _). apply free_or_panic_MM; auto.
  - destruct (d =? 2).
    + pose proof (VamDefragStep.free_or_panic_inv c v (src_of mv) HI) as P. pose proof (free_or_panic_MM v (src_of mv) HI HM) as PM.
      destruct (free_or_panic c v (src_of mv)) as (v1 & r1). destruct r1 as [[]|code| |]; auto.
      destruct P as ((I1 & _) & _). apply free_or_panic_MM; auto.
    + apply free_or_panic_MM; auto.
Qed.

Lemma complete_moves_MM mvs : forall v lr p imm ds,
  VamInv c v -> MM ms0 v [] -> moves_ok v lr mvs ->
  let '(v', p', imm', r) := complete_moves c v lr p imm mvs ds in match r with OK _ => MM ms0 v' [] | _ => True end.
Proof.
  induction mvs as [|mv rest IH]; intros v lr p imm ds HI HM (Hnd & Hf); cbn [complete_moves]; [exact HM|].
  destruct (list_alloc_stats v lr) as (pc & pb).
  inversion Hf as [|? ? Hmv Hrest]; subst.
  destruct (mv_slots_cons _ _ Hnd) as (Hne & Hs & Ht & Hnd').
  pose proof (VamDefragStep.complete_move_inv c v lr mv (norm_decision (hd 0 ds)) HI Hmv Hne) as P.
  pose proof (complete_move_MM v lr mv (norm_decision (hd 0 ds)) HI HM Hmv Hne) as PM.
  destruct (complete_move c v mv (norm_decision (hd 0 ds))) as (v1 & r). destruct r as [[]|code| |]; auto.
  destruct (list_alloc_stats v1 lr) as (ac & ab).
  assert (Hok1 : moves_ok v1 lr rest).
  { apply (moves_ok_frame v v1 lr [src_of mv; tmp_of mv] rest); [apply P| |split; auto].
    intros s [<-|[<-|[]]]; auto. }
  apply IH; [apply P|exact PM|exact Hok1].
Qed.

Lemma defrag_end_MM v run ds :
  VamInv c v -> MM ms0 v [] -> run_ok v run ->
  let '(v', run', r) := defrag_end c v run ds in match r with OK _ => MM ms0 v' [] | _ => True end.
Proof.
  intros HI HM (Hb & Ha & Hr). unfold defrag_end.
  destruct (nth_z (dr_ctxs run) (dr_progress run)) as [dc|] eqn:En; [|exact HM].
  destruct (Defrag.c_moves (dc_ctx dc)) as [|m0 ms1] eqn:Em; [exact HM|].
  destruct (Hr _ _ En) as (Hok & _). specialize (Hok eq_refl). rewrite Em in Hok.
  unfold complete_pass. rewrite Em.
  pose proof (complete_moves_MM (m0 :: ms1) v (dc_lr dc) (dr_pass run) [] ds HI HM Hok) as P.
  destruct (complete_moves c v (dc_lr dc) (dr_pass run) [] (m0 :: ms1) ds) as (((v1 & p1) & imm) & r).
  destruct r as [[]|code| |]; auto.
  destruct (get_blist v1 (dc_lr dc)) as [l|] eqn:Hg; [|exact I].
  pose proof (swap_immovable_fold imm (bl_blocks l) (Defrag.c_immovable (dc_ctx dc))) as Pm.
  destruct (fold_left _ imm (bl_blocks l, Defrag.c_immovable (dc_ctx dc))) as (bs & immc). cbn [fst] in Pm.
  apply (MM_lists ms0 v1 []); [exact P|apply set_blist_m|apply tab_frame_set_blist|apply blocks_sub_perm; [exact Hg|apply Permutation_sym; exact Pm]].
Qed.

(* ---------------------------------------------------------------- BeginDefragmentation, Finish *)

Lemma prepare_lists_MM lrs : forall v, MM ms0 v [] -> MM ms0 (fold_left prepare_list lrs v) [].
Proof.
  induction lrs as [|lr tl IH]; intros v HM; cbn [fold_left]; [exact HM|]. apply IH. unfold prepare_list.
  destruct (get_blist v lr) as [l|] eqn:Hg; [|exact HM].
  apply (MM_lists ms0 v []); [exact HM|apply set_blist_m|apply tab_frame_set_blist|].
  apply (blocks_sub_set_blist v lr l _ Hg). cbn. intros b' Hb'. exists b'. split; [|auto].
  eapply Permutation_in; [apply Permutation_sym; apply sort_by_free_size_perm|exact Hb'].
Qed.

Lemma defrag_begin_MM v flags pool mb ma : MM ms0 v [] -> MM ms0 (fst (defrag_begin c v flags pool mb ma)) [].
Proof.
  intros HM. unfold defrag_begin. destruct (_ || _); [exact HM|]. destruct (_ =? 3); [exact HM|].
  destruct (match pool with Some uid => list_is_linear v (LPool uid) | None => false end); [exact HM|].
  destruct (negb _); cbn [fst]; apply prepare_lists_MM; exact HM.
Qed.

Lemma defrag_finish_MM v run : MM ms0 v [] -> MM ms0 (fst (defrag_finish v run)) [].
Proof.
  unfold defrag_finish. cbn [fst]. revert v. induction (dr_ctxs run) as [|dc tl IH]; intros v HM; cbn [fold_left]; [exact HM|].
  apply IH. destruct (get_blist v (dc_lr dc)) as [l|] eqn:Hg; [|exact HM].
  apply (MM_lists ms0 v []); [exact HM|apply set_blist_m|apply tab_frame_set_blist|].
  apply (blocks_sub_set_blist v (dc_lr dc) l _ Hg). cbn. intros b' Hb'. exists b'. auto.
Qed.

(* ---------------------------------------------------------------- one defragmentation call *)

Lemma dexec_MM v run o :
  VamInv c v -> MM ms0 v [] -> VamGran.GV c v -> drun_ok v run -> dop_ok v run o ->
  let '(v', run', r, dr) := dexec c v run o in match r with OK _ | ER _ => MM ms0 v' [] | _ => True end.
Proof.
  intros HI HM HV Hr Hok. destruct o as [flags pool mb ma| |ds|]; cbn [dexec].
  - pose proof (defrag_begin_MM v flags pool mb ma HM) as P. destruct (defrag_begin c v flags pool mb ma) as (v1 & r). cbn [fst] in P.
    destruct r as [rn|code| |]; auto.
  - destruct run as [rn|]; [|exact I]. pose proof Hok as Hidle. pose proof HV as HG. destruct Hr as (Hb & Ha & Hr).
    pose proof (pass_loop_MM (S (length (dr_ctxs rn))) v rn (Pass.pass_init (dr_max_bytes rn) (dr_max_allocs rn)) HI HM Hidle Hb Ha
                  (PassProofs.pass_init_running _ _ Hb Ha) HG) as P.
    pose proof (defrag_pass_inv c v rn HI (conj Hb (conj Ha Hr)) Hidle HG) as PS.
    unfold defrag_pass in *. destruct (pass_loop c _ v rn _) as ((v1 & rn') & r). destruct r as [mvs|code| |]; auto. contradiction.
  - destruct run as [rn|]; [|exact I].
    pose proof (defrag_end_MM v rn ds HI HM Hr) as P. pose proof (VamDefragStep.defrag_end_inv c v rn ds HI Hr) as PS.
    destruct (defrag_end c v rn ds) as ((v1 & rn') & r). destruct r as [b|code| |]; auto. contradiction.
  - destruct run as [rn|]; [|exact I].
    pose proof (defrag_finish_MM v rn HM) as P. destruct (defrag_finish v rn) as (v1 & st). exact P.
Qed.

End WithCfg.

(* ---------------------------------------------------------------- histories with defragmentation *)

Section Thm.
Variable c : vcfg.
Hypothesis Ha : cfg_acct c.
Let Hc := ca_ok c Ha.
Let Hmax := ca_max c Ha.
Let Hlarge := ca_large c Ha.

Theorem dstep_preservesM v run o f :
  VamInv c v -> MapInv v [] -> VamGran.GV c v -> drun_ok v run -> dop_ok v run o ->
  let '(v', run', r, calls, dr) := dstep c v run o f in
  r <> RPanic -> r <> RStuck -> MapInv v' [] /\ replay (m_mems (v_m v)) calls (m_mems (v_m v')).
Proof.
  intros HI HM HV Hr Hok. unfold dstep.
  set (ms0 := m_mems (v_m v)).
  set (v0 := set_m v (clear_calls (set_fault (v_m v) f 0))).
  assert (Hsub : forall w m', MapInv w [] -> m_mems m' = m_mems (v_m w) -> MapInv (set_m w m') []).
  { intros w m' I E. apply (MapInv_sub w []); [exact I|exact E|apply blocks_sub_eq; intros; apply get_blist_set_m|apply deds_sub_nil; apply tab_frame_set_m]. }
  assert (I0 : VamInv c v0).
  { unfold v0, VamInv. apply VamInvU_mach_same; [exact HI|]. split; cbn; [apply mems_same_refl|lia]. }
  assert (M0 : MM ms0 v0 []).
  { split; [apply Hsub; [exact HM|reflexivity]|]. unfold LogOk, v0, ms0. cbn. constructor. }
  assert (Hr0 : drun_ok v0 run) by (destruct run as [rn|]; [apply run_ok_set_m; exact Hr|exact I]).
  assert (Hok0 : dop_ok v0 run o) by (destruct o; cbn in *; auto).
  pose proof (dexec_MM c Hc Hmax Hlarge ms0 v0 run o I0 M0 (VamGran.GR_set_m c v _ HV) Hr0 Hok0) as E.
  destruct (dexec c v0 run o) as (((v1 & run1) & r) & dr).
  intros Hp Hs. destruct r as [[]|code| |]; cbn in Hp, Hs; try congruence; destruct E as (M & L);
    (split; [apply Hsub; [exact M|reflexivity]|exact L]).
Qed.

Theorem reachDA_map v run : reachDA c v run -> MapInv v [].
Proof.
  intros R. induction R as [nslots v H Hn|v run o f v' r calls R IH Hidle Hok Hd Hs Hp Hk|v run o f v' run' r calls dr R IH Hok Hs Hp Hk Hb].
  - eapply (vam_new_MapInv c Ha); eauto.
  - destruct (reachDA_inv c Ha v run R) as (HI & _).
    pose proof (step_preservesM c Ha v o f HI IH Hok Hd) as P. rewrite Hs in P. apply P; auto.
  - destruct (reachDA_inv c Ha v run R) as (HI & Hr).
    pose proof (dstep_preservesM v run o f (va_s _ _ _ _ HI) IH (reachD_gv c Hc v run (reachDA_reachD c Ha v run R)) Hr Hok) as P. rewrite Hs in P. apply P; auto.
Qed.

(* C08 for the defragmentation calls *)
Theorem dstep_calls_valid v run o f v' run' r calls dr :
  reachDA c v run -> dop_ok v run o -> dstep c v run o f = (v', run', r, calls, dr) -> r <> RPanic -> r <> RStuck ->
  replay (m_mems (v_m v)) calls (m_mems (v_m v')).
Proof.
  intros R Hok Hs Hp Hk. destruct (reachDA_inv c Ha v run R) as (HI & Hr).
  pose proof (dstep_preservesM v run o f (va_s _ _ _ _ HI) (reachDA_map v run R) (reachD_gv c Hc v run (reachDA_reachD c Ha v run R)) Hr Hok) as P. rewrite Hs in P. apply P; auto.
Qed.

(* C14 after moves: device and SynchronizedMemory agree on every block *)
Theorem block_mapping_agrees_defrag v run lr l b :
  reachDA c v run -> get_blist v lr = Some l -> In b (bl_blocks l) ->
  exists d, find_mem (m_mems (v_m v)) (bk_mem b) = Some d /\ dm_mapped d = SyncMem.mapped (bk_sm b) /\
            (SyncMem.mapped (bk_sm b) = true <-> 0 < SyncMem.mapRefs (bk_sm b) \/ SyncMem.extra (bk_sm b) = true).
Proof.
  intros R Hg Hb. destruct (mi_blocks _ _ (reachDA_map v run R) _ _ _ Hg Hb) as (d & F & (H0 & H1 & _) & Fr).
  destruct (H1 Fr) as (_ & E & Hiff). exists d. cbn in E. auto.
Qed.

End Thm.
