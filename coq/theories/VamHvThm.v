(* VamHvThm.v — C08: vkMapMemory is only ever called on memory of a HOST_VISIBLE type.
   For every reachable state and every API call in the domain (a user Map / the harness read-write only on an
   allocation that lives in host-visible memory: op_map_ok), with ANY fault oracle: every CMap among the driver
   calls of the call was issued on a memory object whose type is host-visible — looked up in the device state the
   call was issued in (the replay of the calls before it).  The allocator's own maps (persistently mapped
   allocations: request flag Mapped) are safe because calculateMemoryTypeParameters drops the flag for memory
   types that are not host-visible; persistently mapped Allocation objects therefore live in host-visible memory
   (reachA_persist), which is what keeps the maps of defragmentation safe (VamDefragHv.v). *)
From Coq Require Import ZArith List Bool Lia Permutation.
From Arsenal Require Import Util Budget BudgetProofs VamDev VamBlockList Vam VamInvMeta VamInv VamInvUpd VamInvDev.
From Arsenal Require Import VamInvStep VamInvStep2 VamInvThm VamProps VamAcct VamAcctStep VamAcctStep2 VamAcctThm VamMap VamMapStep VamMapStep2 VamMapThm.
From Arsenal Require Import VamHv VamHvStep VamHvStep2.
From Arsenal Require SyncMem SyncMemProofs.
Import ListNotations.
Open Scope Z_scope.

(* the domain of a call with respect to mapping: the user maps only allocations in host-visible memory *)
Definition op_map_ok (c : vcfg) (v : vam) (o : op) : Prop :=
  match o with
  | OMap s | ORw s => host_visible c (a_type (get_alloc v s)) = true
  | _ => True
  end.

(* every vkMapMemory among the calls cs (replayed from ms0) is on host-visible memory *)
Definition maps_hv (c : vcfg) (ms0 : list dmem) (cs : list call) : Prop :=
  forall pre mem off size r post ms1 d, cs = pre ++ CMap mem off size r :: post -> replay ms0 pre ms1 ->
    find_mem ms1 mem = Some d -> host_visible c (dm_type d) = true.

Section WithCfg.
Variable c : vcfg.
Hypothesis Ha : cfg_acct c.
Let Hc := ca_ok c Ha.
Let Hmax := ca_max c Ha.
Let Hlarge := ca_large c Ha.

Notation VamInvA := (VamAcctStep.VamInvA c).

Section Step.
Variable ms0 : list dmem.
Notation VamInvH := (VamHvStep.VamInvH c ms0).

Definition exec_postH (v v' : vam) (r : out unit) : Prop :=
  match r with PANIC | STUCK => True | _ => VamInvH v' [] [] /\ zlen (v_tab v') = zlen (v_tab v) end.

Lemma exec_invH v o : VamInvH v [] [] -> op_ok v o -> op_dom o -> op_map_ok c v o -> let '(v', r) := exec c v o in exec_postH v v' r.
Proof.
  intros HI Hok Hd Hmap. destruct o; cbn [exec op_ok op_dom op_map_ok] in *.
  - pose proof (VamHvStep2.allocate_memory_inv c Hc Hmax Hlarge ms0 v [] slot size align typeBits usage flags req pref ctb pool HI Hd Hok) as P.
    destruct (allocate_memory c v slot size align typeBits usage flags req pref ctb pool) as (v' & r).
    destruct r as [[]|code| |]; cbn; auto; destruct P as (A & B & _); (split; [auto|eapply tab_frame_len; eauto]).
  - destruct Hok as (H0 & Hn).
    pose proof (VamHvStep2.allocate_memory_slice_inv c Hc Hmax Hlarge ms0 v [] slot n size align typeBits usage flags req pref ctb pool HI Hd H0 Hn) as P.
    destruct (allocate_memory_slice c v slot n size align typeBits usage flags req pref ctb pool) as (v' & r). cbn zeta in P.
    destruct r as [[]|code| |]; cbn; auto; destruct P as (A & B & _); (split; [auto|eapply tab_frame_len; eauto]).
  - pose proof (VamHvStep2.allocation_free_inv c Hc Hmax Hlarge ms0 v slot HI) as P. destruct (allocation_free c v slot) as (v' & r).
    destruct r as [[]|code| |]; cbn in *; auto; destruct P as (A & B); (split; [auto|eapply tab_frame_len; eauto]).
  - unfold free_allocation_slice. destruct (slot_range_nodup (Z.to_nat n) slot) as (Hnd & _).
    assert (Hlive : live_slots v [] (slot_range slot (Z.to_nat n))).
    { intros s Hs. split; [intros []|]. exists (get_alloc v s). apply get_alloc_allocated. auto. }
    pose proof (VamHvStep2.multi_free_inv c Hc Hmax Hlarge ms0 _ v [] HI Hnd Hlive) as P. destruct (multi_free c v _) as (v' & r).
    destruct r as [[]|code| |]; cbn; auto; destruct P as (A & B & _); (split; [auto|eapply tab_frame_len; eauto]).
  - pose proof (VamHvStep2.allocation_map_inv c Hc Hmax Hlarge ms0 v slot HI Hmap) as P. destruct (allocation_map c v slot) as (v' & r).
    destruct r as [[]|code| |]; cbn in *; auto; destruct P as (A & B & _); (split; [auto|eapply tab_frame_len; eauto]).
  - pose proof (VamHvStep2.allocation_unmap_inv c Hc Hmax Hlarge ms0 v slot HI) as P. destruct (allocation_unmap v slot) as (v' & r).
    destruct r as [[]|code| |]; cbn in *; auto; destruct P as (A & B & _); (split; [auto|eapply tab_frame_len; eauto]).
  - pose proof (VamHvStep2.allocation_flush_inv c Hc Hmax Hlarge ms0 v inval slot off size (ca_atom c Ha) HI) as P. destruct (allocation_flush c v inval slot off size) as (v' & r).
    destruct r as [[]|code| |]; cbn in *; auto; destruct P as (A & B & _); (split; [auto|eapply tab_frame_len; eauto]).
  - pose proof (VamHvStep2.harness_rw_inv c Hc Hmax Hlarge ms0 v slot HI Hmap) as P. destruct (harness_rw c v slot) as (v' & r).
    destruct r as [[]|code| |]; cbn in *; auto; destruct P as (A & B & _); (split; [auto|eapply tab_frame_len; eauto]).
  - pose proof (VamHvStep2.create_pool_inv c Hc Hmax Hlarge ms0 v ty flags blockSize minB maxB minAlign HI Hd) as P.
    destruct (create_pool c v ty flags blockSize minB maxB minAlign) as (v' & r).
    destruct r as [[]|code| |]; cbn in *; auto; destruct P as (A & B); (split; [auto|eapply tab_frame_len; eauto]).
  - pose proof (VamHvStep2.rmpool_inv c Hc Hmax Hlarge ms0 v uid HI) as P. destruct (pool_destroy c v uid) as (v' & r).
    destruct r as [[]|code| |]; cbn in *; auto; destruct P as (A & B); (split; [auto|eapply tab_frame_len; eauto]).
  - pose proof (VamHvStep2.build_stats_string_inv c Hc Hmax Hlarge ms0 v HI) as P. destruct (build_stats_string c v) as (v' & r).
    destruct r as [[]|code| |]; cbn in *; auto; destruct P as (A & B); (split; [auto|eapply tab_frame_len; eauto]).
  - pose proof (VamHvStep2.allocator_destroy_inv c Hc Hmax Hlarge ms0 v HI) as P. destruct (allocator_destroy c v) as (v' & r).
    destruct r as [[]|code| |]; cbn in *; auto; destruct P as (A & B); (split; [auto|eapply tab_frame_len; eauto]).
  - pose proof (VamHvStep2.create_buffer_inv c Hc Hmax Hlarge ms0 v slot size devreq bufUsage minAlign usage flags req pref ctb pool HI Hd Hok) as P.
    destruct (create_buffer c v slot size devreq bufUsage minAlign usage flags req pref ctb pool) as (v' & r).
    destruct r as [[]|code| |]; cbn in *; auto; destruct P as (A & B); (split; [auto|eapply tab_frame_len; eauto]).
  - pose proof (VamHvStep2.create_image_inv c Hc Hmax Hlarge ms0 v slot tiling width devreq imgUsage usage flags req pref ctb pool HI Hd Hok) as P.
    destruct (create_image c v slot tiling width devreq imgUsage usage flags req pref ctb pool) as (v' & r).
    destruct r as [[]|code| |]; cbn in *; auto; destruct P as (A & B); (split; [auto|eapply tab_frame_len; eauto]).
  - pose proof (VamHvStep2.destroy_with_resource_inv c Hc Hmax Hlarge ms0 v slot image res HI) as P. destruct (destroy_with_resource c v slot image res) as (v' & r).
    destruct r as [[]|code| |]; cbn in *; auto; destruct P as (A & B); (split; [auto|eapply tab_frame_len; eauto]).
  - pose proof (VamHvStep2.allocate_for_resource_inv c Hc Hmax Hlarge ms0 v slot image res usage flags req pref ctb pool HI Hok) as P.
    destruct (allocate_for_resource c v slot image res usage flags req pref ctb pool) as (v' & r).
    destruct r as [[]|code| |]; cbn in *; auto; destruct P as (A & B); (split; [auto|eapply tab_frame_len; eauto]).
  - pose proof (VamHvStep2.bind_memory_inv c Hc Hmax Hlarge ms0 v slot image res off HI) as P. destruct (bind_memory v slot image res off) as (v' & r).
    destruct r as [[]|code| |]; cbn in *; auto; destruct P as (A & B); (split; [auto|eapply tab_frame_len; eauto]).
  - unfold raw_create. pose proof (VamMapStep2.dev_create_res_sameX c Hc Hmax Hlarge (v_m v) image kind devreq Hd) as H.
    destruct (dev_create_res (v_m v) image kind devreq) as ((m1 & code) & id). cbn [fst] in H.
    assert (P : VamInvH (set_m v m1) [] [] /\ zlen (v_tab (set_m v m1)) = zlen (v_tab v)) by (split; [apply (VamHvStep.VamInvH_mach_same c Hc Hmax Hlarge ms0); auto|reflexivity]).
    destruct (code =? 0); exact P.
  - unfold raw_destroy. cbn. split; [apply (VamHvStep.VamInvH_mach_same c Hc Hmax Hlarge ms0); [auto|apply (VamMapStep2.dev_destroy_res_sameX c Hc Hmax Hlarge)]|reflexivity].
Qed.


End Step.

(* one API call, any fault oracle *)
Theorem step_preservesH v o f :
  VamInvA v [] [] -> MapInv v [] -> PersistInv c v [] -> op_ok v o -> op_dom o -> op_map_ok c v o ->
  let '(v', r, calls) := step c v o f in
  r <> RPanic -> r <> RStuck -> PersistInv c v' [] /\ maps_hv c (m_mems (v_m v)) calls.
Proof.
  intros HI HM HP Hok Hd Hmap. unfold step.
  set (ms0 := m_mems (v_m v)).
  set (v0 := set_m v (clear_calls (set_fault (v_m v) f 0))).
  assert (Hms : forall m ff n, mach_sameA c m (clear_calls (set_fault m ff n))).
  { intros m ff n. eapply (mach_sameA_trans c Hc Hmax Hlarge); [apply (mach_sameA_set_fault c Hc Hmax Hlarge)|apply (mach_sameA_clear c Hc Hmax Hlarge)]. }
  assert (Hsub : forall w m', MapInv w [] -> m_mems m' = m_mems (v_m w) -> MapInv (set_m w m') []).
  { intros w m' I E. apply (MapInv_sub w []); [exact I|exact E|apply blocks_sub_eq; intros; apply get_blist_set_m|apply deds_sub_nil; apply tab_frame_set_m]. }
  assert (Hps : forall w m', PersistInv c w [] -> PersistInv c (set_m w m') []).
  { intros w m' P. apply (PersistInv_sub c w []); [exact P|apply persist_sub_nil; apply tab_frame_set_m]. }
  assert (I0 : VamHvStep.VamInvH c ms0 v0 [] []).
  { split; [split; [apply (VamAcctStep.VamInvA_mach_same c Hc Hmax Hlarge); [exact HI|apply Hms]|]|].
    - split; [apply Hsub; [exact HM|reflexivity]|]. unfold LogOk, v0, ms0. cbn. constructor.
    - split; [apply LogHV_start|apply Hps; exact HP]. }
  assert (Hok0 : op_ok v0 o) by (destruct o; exact Hok).
  assert (Hmap0 : op_map_ok c v0 o) by (destruct o; exact Hmap).
  pose proof (exec_invH ms0 v0 o I0 Hok0 Hd Hmap0) as E. destruct (exec c v0 o) as (v1 & r).
  intros Hp Hs. destruct r as [[]|code| |]; cbn in Hp, Hs; try congruence; cbn in E; destruct E as ([_ (L & P)] & _);
    (split; [apply Hps; exact P|exact L]).
Qed.

(* a user Map / Unmap does not change which allocations are persistently mapped, whatever memory it is on *)
Lemma allocation_map_persist v s : PersistInv c v [] -> PersistInv c (fst (allocation_map c v s)) [].
Proof.
  intros P. unfold allocation_map. set (a := get_alloc v s). destruct (negb _); [exact P|]. destruct (a_allocated a) eqn:Ea; cbn [negb]; [|exact P].
  pose proof (get_alloc_allocated v s Ea) as Sa. fold a in Sa.
  destruct (a_kind a =? 1).
  - destruct (get_block v (a_lref a) (a_blk a)) as [b|]; [|exact P].
    destruct (sm_map c (v_m v) (bk_mem b) (bk_sm b)) as ((m1 & s1) & r).
    assert (P1 : PersistInv c (put_block (set_m v m1) (a_lref a) (mkBlock (bk_id b) (bk_mem b) s1 (bk_meta b))) []).
    { apply (PersistInv_sub c v []); [exact P|apply persist_sub_nil].
      eapply tab_frame_trans_same; [apply tab_frame_set_m|]. split; [rewrite put_block_tab; reflexivity|intros; rewrite put_block_tab; reflexivity]. }
    destruct r as [[]|code| |]; cbn [fst]; try exact P1. destruct (find_offset _ a); exact P1.
  - destruct (a_kind a =? 2); [|exact P]. destruct (sm_map c (v_m v) (a_mem a) (a_sm a)) as ((m1 & s1) & r). cbn [fst].
    intros s0 a0 S0 _ Hp. destruct (Z.eq_dec s0 s) as [->|Hne].
    + apply slot_is_set_alloc_same in S0; [|cbn; eapply slot_is_range; eauto]. destruct S0 as (-> & _). cbn in *. apply (P s a Sa (fun H => H) Hp).
    + apply (slot_is_set_alloc_other (set_m v m1) s _ s0 a0 Hne) in S0. apply (proj1 (slot_is_set_m _ _ _ _)) in S0. apply (P s0 a0 S0 (fun H => H) Hp).
Qed.

Lemma allocation_unmap_persist v s : PersistInv c v [] -> PersistInv c (fst (allocation_unmap v s)) [].
Proof.
  intros P. unfold allocation_unmap. set (a := get_alloc v s). destruct (a_allocated a) eqn:Ea; cbn [negb]; [|exact P].
  pose proof (get_alloc_allocated v s Ea) as Sa. fold a in Sa.
  destruct (a_kind a =? 1).
  - destruct (get_block v (a_lref a) (a_blk a)) as [b|]; [|exact P].
    destruct (sm_unmap (v_m v) (bk_mem b) (bk_sm b)) as ((m1 & s1) & r). cbn [fst].
    apply (PersistInv_sub c v []); [exact P|apply persist_sub_nil].
    eapply tab_frame_trans_same; [apply tab_frame_set_m|]. split; [rewrite put_block_tab; reflexivity|intros; rewrite put_block_tab; reflexivity].
  - destruct (a_kind a =? 2); [|exact P]. destruct (sm_unmap (v_m v) (a_mem a) (a_sm a)) as ((m1 & s1) & r). cbn [fst].
    intros s0 a0 S0 _ Hp. destruct (Z.eq_dec s0 s) as [->|Hne].
    + apply slot_is_set_alloc_same in S0; [|cbn; eapply slot_is_range; eauto]. destruct S0 as (-> & _). cbn in *. apply (P s a Sa (fun H => H) Hp).
    + apply (slot_is_set_alloc_other (set_m v m1) s _ s0 a0 Hne) in S0. apply (proj1 (slot_is_set_m _ _ _ _)) in S0. apply (P s0 a0 S0 (fun H => H) Hp).
Qed.

Lemma vam_new_persist nslots v : vam_new c nslots = OK v -> PersistInv c v [].
Proof.
  intros E. unfold vam_new in E. destruct (negb _); [discriminate|]. destruct (negb _); [discriminate|]. injection E as <-.
  intros s a (Sa & Aa) _ _. exfalso. cbn in Sa. apply nth_z_in in Sa. apply repeat_spec in Sa. subst a. discriminate.
Qed.

(* persistently mapped allocations live in host-visible memory, in every reachable state *)
Theorem reachA_persist v : reachA c v -> PersistInv c v [].
Proof.
  induction 1 as [nslots v H Hn|v o f v' r calls R IH Hok Hd Hs Hp Hk]; [eapply vam_new_persist; eauto|].
  assert (Hps : forall w m', PersistInv c w [] -> PersistInv c (set_m w m') []).
  { intros w m' P. apply (PersistInv_sub c w []); [exact P|apply persist_sub_nil; apply tab_frame_set_m]. }
  assert (Hgen : op_map_ok c v o -> PersistInv c v' []).
  { intros Hmap. pose proof (step_preservesH v o f (reachA_inv c Ha v R) (reachA_map c Ha v R) IH Hok Hd Hmap) as P. rewrite Hs in P. apply P; auto. }
  destruct o; try (apply Hgen; exact I).
  - (* Map *)
    unfold step in Hs. cbn [exec] in Hs.
    pose proof (allocation_map_persist (set_m v (clear_calls (set_fault (v_m v) f 0))) slot (Hps _ _ IH)) as P.
    destruct (allocation_map c _ slot) as (v1 & r1). cbn [fst] in P. injection Hs as <- _ _. apply Hps. exact P.
  - (* harness read/write: Map then Unmap *)
    unfold step in Hs. cbn [exec] in Hs. unfold harness_rw in Hs.
    pose proof (allocation_map_persist (set_m v (clear_calls (set_fault (v_m v) f 0))) slot (Hps _ _ IH)) as P.
    destruct (allocation_map c _ slot) as (v1 & r1). cbn [fst] in P.
    destruct r1 as [[]|code| |]; try (injection Hs as <- _ _; apply Hps; exact P).
    pose proof (allocation_unmap_persist v1 slot P) as P2. destruct (allocation_unmap v1 slot) as (v2 & ur). cbn [fst] in P2.
    destruct ur as [[]|ucode| |]; injection Hs as <- _ _; apply Hps; exact P2.
Qed.

(* C08: the allocator never calls vkMapMemory on memory that is not host-visible *)
Theorem maps_only_host_visible v o f v' r calls :
  reachA c v -> op_ok v o -> op_dom o -> op_map_ok c v o -> step c v o f = (v', r, calls) -> r <> RPanic -> r <> RStuck ->
  maps_hv c (m_mems (v_m v)) calls.
Proof.
  intros R Hok Hd Hmap Hs Hp Hk.
  pose proof (step_preservesH v o f (reachA_inv c Ha v R) (reachA_map c Ha v R) (reachA_persist v R) Hok Hd Hmap) as P.
  rewrite Hs in P. apply P; auto.
Qed.

End WithCfg.
