(* VamHv.v — vkMapMemory is only ever called on HOST_VISIBLE memory (C08), fifth pass over Vam*.v.

   LogHV c ms0 m: every CMap in the log of the running API call was issued on a memory object whose type is
   host-visible (the object is looked up in the device state the call was issued in: replay of the log up to it).
   PersistInv c v X: a persistently mapped Allocation object lives in host-visible memory (needed when
   defragmentation maps the destination block of such an allocation).
   The allocator clears the Mapped flag per memory type (calculateMemoryTypeParameters), so its own maps are safe;
   a user Map of an allocation in memory that is not host-visible is outside the domain (op_map_ok). *)
From Coq Require Import ZArith List Bool Lia Permutation.
From Arsenal Require Import Util Budget BudgetProofs VamDev VamBlockList Vam VamInvMeta VamInv VamInvUpd VamInvDev VamInvStep VamInvStep2 VamMap.
From Arsenal Require SyncMem SyncMemProofs.
Import ListNotations.
Open Scope Z_scope.

Definition is_map (k : call) : bool := match k with CMap _ _ _ _ => true | _ => false end.
Definition nomap (k : call) : Prop := is_map k = false.

Lemma neutral_nomap k : neutral k -> nomap k.
Proof. destruct k; cbn; intros H; try reflexivity; destruct H. Qed.

(* the log grew by calls other than vkMapMemory *)
Definition mach_ext (m m' : mach) : Prop := exists ks, m_calls m' = ks ++ m_calls m /\ Forall nomap ks.

Lemma mach_ext_refl m : mach_ext m m.
Proof. exists []. split; [reflexivity|constructor]. Qed.

Lemma mach_ext_trans a b d : mach_ext a b -> mach_ext b d -> mach_ext a d.
Proof.
  intros (k1 & A2 & A3) (k2 & B2 & B3). exists (k2 ++ k1). split; [rewrite B2, A2, app_assoc; reflexivity|apply Forall_app; auto].
Qed.

Lemma mach_ext_sameM m m' : mach_sameM m m' -> mach_ext m m'.
Proof. intros (_ & ks & E & F). exists ks. split; [exact E|]. eapply Forall_impl; [|exact F]. apply neutral_nomap. Qed.

Lemma mach_ext_quiet m m' : m_calls m' = m_calls m -> mach_ext m m'.
Proof. intros E. exists []. split; [exact E|constructor]. Qed.

Lemma mach_ext_log m k : nomap k -> mach_ext m (log_call m k).
Proof. intros H. exists [k]. split; [reflexivity|constructor; [exact H|constructor]]. Qed.

Lemma replay_nil_inv ms ms' : replay ms [] ms' -> ms' = ms.
Proof. intros H. remember [] as l eqn:El. destruct H as [|? cs ? k ? ? ? ?]; [reflexivity|]. destruct cs; discriminate. Qed.

Lemma replay_snoc_inv ms cs k ms2 : replay ms (cs ++ [k]) ms2 -> exists ms1, replay ms cs ms1 /\ call_ok ms1 k /\ call_eff ms1 k ms2.
Proof.
  intros H. remember (cs ++ [k]) as l eqn:El. destruct H as [|? cs' ms1 k' ? R Hok He]; [destruct cs; discriminate|].
  apply app_inj_tail in El. destruct El as (-> & ->). eauto.
Qed.

Lemma replay_fun ms cs : forall ms1 ms2, replay ms cs ms1 -> replay ms cs ms2 -> ms1 = ms2.
Proof.
  intros ms1 ms2 H1. revert ms2. induction H1 as [ms|ms cs ms1 k ms2 R IH Hok He]; intros ms3 H2.
  - symmetry. apply replay_nil_inv. exact H2.
  - destruct (replay_snoc_inv _ _ _ _ H2) as (ms1' & R' & _ & He'). specialize (IH _ R'). subst ms1'.
    destruct k; cbn in He, He'; congruence.
Qed.

Section WithCfg.
Variable c : vcfg.

Definition LogHV (ms0 : list dmem) (m : mach) : Prop :=
  forall pre mem off size r post ms1 d, rev (m_calls m) = pre ++ CMap mem off size r :: post -> replay ms0 pre ms1 ->
    find_mem ms1 mem = Some d -> host_visible c (dm_type d) = true.

Lemma LogHV_start ms0 m : LogHV ms0 (clear_calls m).
Proof. intros pre mem off size r post ms1 d E. cbn in E. destruct pre; discriminate. Qed.

Lemma app_last_split {A} (pre : list A) k post cs k0 :
  pre ++ k :: post = cs ++ [k0] -> (post = [] /\ pre = cs /\ k = k0) \/ (exists post', post = post' ++ [k0] /\ cs = pre ++ k :: post').
Proof.
  destruct (exists_last (l := k :: post) ltac:(discriminate)) as (q & x & E). intros H.
  assert (H' : (pre ++ q) ++ [x] = cs ++ [k0]) by (rewrite <- app_assoc, <- E; exact H).
  apply app_inj_tail in H'. destruct H' as (E1 & ->). subst cs.
  destruct q as [|y q]; cbn in E.
  - injection E as -> ->. left. rewrite app_nil_r. auto.
  - injection E as -> ->. right. exists q. auto.
Qed.

Lemma LogHV_ext ms0 m m' : LogHV ms0 m -> mach_ext m m' -> LogHV ms0 m'.
Proof.
  intros H (ks & E & F). unfold LogHV in *. rewrite E, rev_app_distr. clear E.
  induction ks as [|k ks IH]; [cbn; rewrite app_nil_r; exact H|]. inversion F as [|? ? Hk Hks]; subst.
  cbn [rev]. rewrite app_assoc. intros pre mem off size r post ms1 d E R Fm.
  destruct (app_last_split pre _ post _ k (eq_sym E)) as [(_ & _ & Ek)|(post' & -> & E')].
  - subst k. discriminate.
  - eapply (IH Hks); eauto.
Qed.

(* a vkMapMemory on an object that is host-visible in the current device state *)
Lemma LogHV_map ms0 m m' mem off size r :
  LogHV ms0 m -> LogOk ms0 m -> (forall d, find_mem (m_mems m) mem = Some d -> host_visible c (dm_type d) = true) ->
  m_calls m' = CMap mem off size r :: m_calls m -> LogHV ms0 m'.
Proof.
  intros H L Hv E. unfold LogHV in *. rewrite E. cbn [rev]. intros pre mem1 off1 size1 r1 post ms1 d E1 R Fm.
  destruct (app_last_split pre _ post _ _ (eq_sym E1)) as [(_ & -> & Ek)|(post' & -> & E')].
  - injection Ek as -> _ _ _. rewrite (replay_fun _ _ _ _ R L) in Fm. eauto.
  - eapply H; eauto.
Qed.

(* ---------------------------------------------------------------- the device functions *)

Lemma dev_map_calls m id : exists r, m_calls (fst (dev_map c m id)) = CMap id 0 (-1) r :: m_calls m.
Proof.
  unfold dev_map. destruct (find_mem _ _) as [d|]; [|eexists; reflexivity]. destruct (negb _); [eexists; reflexivity|].
  destruct (_ <=? 0); [eexists; reflexivity|]. destruct (dev_fault _ _ _) as ((f1 & fired1) & r). destruct (negb _); eexists; reflexivity.
Qed.

Lemma sm_map_H ms0 m mem s :
  LogHV ms0 m -> LogOk ms0 m -> (forall d, find_mem (m_mems m) mem = Some d -> host_visible c (dm_type d) = true) ->
  LogHV ms0 (fst (fst (sm_map c m mem s))).
Proof.
  intros H L Hv. unfold sm_map. destruct (dev_map_calls m mem) as (r & Ec). destruct (dev_map c m mem) as (m1 & code). cbn [fst] in Ec.
  destruct (SyncMem.do_map s 1 (negb (code =? 0))) as ((s' & r') & cs). cbn [fst].
  destruct cs; [exact H|]. eapply LogHV_map; eauto.
Qed.

Lemma sm_unmap_ext m mem s : mach_ext m (fst (fst (sm_unmap m mem s))).
Proof.
  unfold sm_unmap. destruct (SyncMem.do_unmap s 1) as ((s' & r) & cs). cbn [fst]. destruct cs; [apply mach_ext_refl|].
  unfold dev_unmap. exists [CUnmap mem]. split; [reflexivity|constructor; [reflexivity|constructor]].
Qed.

Lemma sm_sub_ext m mem s : mach_ext m (fst (sm_sub m mem s)).
Proof.
  unfold sm_sub. destruct (SyncMem.do_sub s) as ((s' & r) & cs). cbn [fst]. destruct cs; [apply mach_ext_refl|].
  unfold dev_unmap. exists [CUnmap mem]. split; [reflexivity|constructor; [reflexivity|constructor]].
Qed.

Lemma dev_alloc_ext m ty size ded : mach_ext m (fst (fst (dev_alloc c m ty size ded))).
Proof.
  unfold dev_alloc. destruct (negb _); [apply mach_ext_log; reflexivity|]. destruct (_ <=? 0); [apply mach_ext_log; reflexivity|].
  destruct (dev_fault _ _ _) as ((f1 & fired1) & r). destruct (negb _); [eexists [_]; split; [reflexivity|constructor; [reflexivity|constructor]]|].
  destruct (_ && _); [eexists [_]; split; [reflexivity|constructor; [reflexivity|constructor]]|].
  destruct (_ <? _); [eexists [_]; split; [reflexivity|constructor; [reflexivity|constructor]]|].
  destruct (_ <=? _); eexists [_]; (split; [reflexivity|constructor; [reflexivity|constructor]]).
Qed.

Lemma alloc_vk_ext m ty size ded : mach_ext m (fst (alloc_vk c m ty size ded)).
Proof.
  unfold alloc_vk. pose proof (dev_alloc_ext m ty size ded) as D. destruct (dev_alloc c m ty size ded) as ((m1 & code) & id). cbn [fst] in D.
  destruct (Budget.alloc_mem _ _ _ _ _) as ((b' & r) & cs). destruct cs; cbn [fst]; [apply mach_ext_quiet; reflexivity|].
  eapply mach_ext_trans; [exact D|apply mach_ext_quiet; reflexivity].
Qed.

Lemma free_vk_ext m ty size mem : mach_ext m (fst (free_vk c m ty size mem)).
Proof.
  unfold free_vk. destruct (Budget.free_mem _ _ _) as ((b' & r) & cs). cbn [fst].
  eapply mach_ext_trans; [|apply mach_ext_quiet; reflexivity]. unfold dev_free. exists [CFree mem]. split; [reflexivity|constructor; [reflexivity|constructor]].
Qed.

(* mapping operations keep the type of every memory object *)
Definition types_kept (m m' : mach) : Prop :=
  forall id d', find_mem (m_mems m') id = Some d' -> exists d, find_mem (m_mems m) id = Some d /\ dm_type d' = dm_type d.

Lemma types_kept_refl m : types_kept m m.
Proof. intros id d H. eauto. Qed.

Lemma types_kept_mapped m id b m' : m_mems m' = set_mem_mapped (m_mems m) id b -> types_kept m m'.
Proof.
  intros E id' d' H. rewrite E in H. destruct (Z.eq_dec id' id) as [->|Hne].
  - destruct (find_mem (m_mems m) id) as [d|] eqn:F.
    + rewrite (find_set_mapped_same _ _ b _ F) in H. injection H as <-. exists d. auto.
    + apply (proj2 (find_set_mapped_none (m_mems m) id b id)) in F. congruence.
  - rewrite find_set_mapped_other in H by exact Hne. eauto.
Qed.

Lemma types_kept_same m m' : m_mems m' = m_mems m -> types_kept m m'.
Proof. intros E id d H. rewrite E in H. eauto. Qed.

Lemma sm_map_types m mem s : types_kept m (fst (fst (sm_map c m mem s))).
Proof.
  unfold sm_map. destruct (dev_map c m mem) as (m1 & code) eqn:Edm. destruct (SyncMem.do_map s 1 _) as ((s' & r) & cs). cbn [fst].
  destruct cs; [apply types_kept_refl|]. unfold dev_map in Edm. destruct (find_mem _ _) as [d|]; [|injection Edm as <- _; apply types_kept_same; reflexivity].
  destruct (negb _); [injection Edm as <- _; apply types_kept_same; reflexivity|].
  destruct (_ <=? 0); [injection Edm as <- _; apply types_kept_same; reflexivity|].
  destruct (dev_fault _ _ _) as ((f1 & fired1) & r0). destruct (negb _); injection Edm as <- _; [apply types_kept_same; reflexivity|].
  eapply types_kept_mapped. reflexivity.
Qed.

Lemma sm_unmap_types m mem s : types_kept m (fst (fst (sm_unmap m mem s))).
Proof.
  unfold sm_unmap. destruct (SyncMem.do_unmap s 1) as ((s' & r) & cs). cbn [fst]. destruct cs; [apply types_kept_refl|].
  eapply types_kept_mapped. reflexivity.
Qed.

Lemma sm_sub_types m mem s : types_kept m (fst (sm_sub m mem s)).
Proof.
  unfold sm_sub. destruct (SyncMem.do_sub s) as ((s' & r) & cs). cbn [fst]. destruct cs; [apply types_kept_refl|].
  eapply types_kept_mapped. reflexivity.
Qed.

(* ---------------------------------------------------------------- the state invariant *)

Definition PersistInv (v : vam) (X : list Z) : Prop :=
  forall s a, slot_is v s a -> ~ In s X -> a_persist a = true -> host_visible c (a_type a) = true.

Definition HH (ms0 : list dmem) (v : vam) (X : list Z) : Prop := LogHV ms0 (v_m v) /\ PersistInv v X.

(* every Allocation object of v' (outside X') is an Allocation object of v (outside X) with the same persistence and type *)
Definition persist_sub (v v' : vam) (X X' : list Z) : Prop :=
  forall s a', slot_is v' s a' -> ~ In s X' -> a_persist a' = true ->
  exists s0 a, slot_is v s0 a /\ ~ In s0 X /\ a_persist a = true /\ a_type a = a_type a'.

Lemma PersistInv_sub v X v' X' : PersistInv v X -> persist_sub v v' X X' -> PersistInv v' X'.
Proof. intros H Hs s a' Sa HX Hp. destruct (Hs _ _ Sa HX Hp) as (s0 & a & S0 & HX0 & P0 & <-). eauto. Qed.

Lemma persist_sub_frame v v' X S :
  tab_frame v v' S -> (forall s a', In s S -> slot_is v' s a' -> a_persist a' = true -> exists a, slot_is v s a /\ a_persist a = true /\ a_type a = a_type a') ->
  persist_sub v v' X X.
Proof.
  intros T Hd s a' Sa HX Hp. destruct (in_dec Z.eq_dec s S) as [Hin|Hn].
  - destruct (Hd s a' Hin Sa Hp) as (a & S0 & P0 & E). exists s, a. auto.
  - exists s, a'. split; [apply (slot_is_frame _ _ _ _ _ T); auto|auto].
Qed.

Lemma persist_sub_nil v v' X : tab_frame v v' [] -> persist_sub v v' X X.
Proof. intros T. apply (persist_sub_frame v v' X [] T). intros s a' []. Qed.

(* machine changes that log no vkMapMemory, table unchanged *)
Lemma HH_mach ms0 v X m' : HH ms0 v X -> mach_ext (v_m v) m' -> HH ms0 (set_m v m') X.
Proof.
  intros (L & P) H. split; [cbn; eapply LogHV_ext; eauto|]. apply (PersistInv_sub v X); [exact P|apply persist_sub_nil; apply tab_frame_set_m].
Qed.

Lemma HH_step ms0 v X v' X' : HH ms0 v X -> mach_ext (v_m v) (v_m v') -> persist_sub v v' X X' -> HH ms0 v' X'.
Proof. intros (L & P) H Hs. split; [eapply LogHV_ext; eauto|eapply PersistInv_sub; eauto]. Qed.

End WithCfg.
