(* Select.v — executable model of memory type selection in vam (port of VulkanMemoryAllocator):
     allocator.go  findMemoryPreferences, findMemoryTypeIndex, FindMemoryTypeIndex[ForBufferInfo|ForImageInfo],
                   calcAllocationParams (validation part), the fallback loop of multiAllocateMemory
     internal/vulkan/device_memory.go  CalculateGlobalMemoryTypeBits

   Flag sets are N bitmasks with the numeric values of the Vulkan C API (all Go values are 32-bit; every
   operation used here (and, or, and-not, bit clear) keeps 32-bit inputs within 32 bits, so no truncation is
   modelled).  A memory-type table is the list of the property flags of the types, index = position.
   Go panics cannot occur in the modelled code; RFuel is the "loop did not terminate" result of the fuelled
   fallback loop and is proved unreachable in SelectProofs.v. *)
From Coq Require Import NArith ZArith List Bool.
Import ListNotations.
Local Open Scope N_scope.

(* ---- VkMemoryPropertyFlagBits *)
Definition DEVICE_LOCAL : N := 1.          (* bit 0 *)
Definition HOST_VISIBLE : N := 2.          (* bit 1 *)
Definition HOST_COHERENT : N := 4.         (* bit 2 *)
Definition HOST_CACHED : N := 8.           (* bit 3 *)
Definition LAZILY_ALLOCATED : N := 16.     (* bit 4 *)
Definition PROTECTED : N := 32.            (* bit 5 *)
Definition DEVICE_COHERENT_AMD : N := 64.  (* bit 6 *)
Definition DEVICE_UNCACHED_AMD : N := 128. (* bit 7 *)

(* ---- vam.MemoryUsage *)
Definition USAGE_UNKNOWN : N := 0.
Definition USAGE_LAZY : N := 1.
Definition USAGE_AUTO : N := 2.
Definition USAGE_AUTO_DEVICE : N := 3.
Definition USAGE_AUTO_HOST : N := 4.

(* ---- vam.AllocationCreateFlags (bit numbers) *)
Definition ACF_DEDICATED_BIT : N := 0.      (* 1 *)
Definition ACF_NEVER_ALLOCATE_BIT : N := 1. (* 2 *)
Definition ACF_MAPPED_BIT : N := 2.         (* 4 *)
Definition ACF_SEQ_WRITE_BIT : N := 7.      (* 128  HostAccessSequentialWrite *)
Definition ACF_RANDOM_BIT : N := 8.         (* 256  HostAccessRandom *)
Definition ACF_ALLOW_TRANSFER_BIT : N := 9. (* 512  HostAccessAllowTransferInstead *)

(* ---- VkResult *)
Definition VK_SUCCESS : Z := 0%Z.
Definition VK_OOM : Z := (-2)%Z.            (* VK_ERROR_OUT_OF_DEVICE_MEMORY *)
Definition VK_FEATURE_NOT_PRESENT : Z := (-8)%Z.
Definition VK_UNKNOWN : Z := (-13)%Z.

(* bits.OnesCount32 *)
Fixpoint pos_popcount (p : positive) : nat :=
  match p with
  | xH => 1%nat
  | xO q => pos_popcount q
  | xI q => S (pos_popcount q)
  end.
Definition popcount (n : N) : nat := match n with N0 => 0%nat | Npos p => pos_popcount p end.

Definition is_auto (usage : N) : bool :=
  (usage =? USAGE_AUTO) || (usage =? USAGE_AUTO_DEVICE) || (usage =? USAGE_AUTO_HOST).

(* deviceAccess: bufferOrImageUsage != nil && usage & ^(TRANSFER_SRC|TRANSFER_DST) != 0 (buffer and image
   transfer bits are both 1|2) *)
Definition device_access (bufimg : option N) : bool :=
  match bufimg with
  | Some u => negb (N.ldiff u 3 =? 0)
  | None => false
  end.

(* findMemoryPreferences: (required, preferred, notPreferred) *)
Definition find_prefs (integrated : bool) (usage aflags req0 pref0 : N) (bufimg : option N) : N * N * N :=
  let '(req, pref, npref) :=
    if usage =? USAGE_LAZY then (N.lor req0 LAZILY_ALLOCATED, pref0, 0)
    else if is_auto usage then
      let deviceAccess := device_access bufimg in
      let seqw := N.testbit aflags ACF_SEQ_WRITE_BIT in
      let rnd := N.testbit aflags ACF_RANDOM_BIT in
      let xfer := N.testbit aflags ACF_ALLOW_TRANSFER_BIT in
      let preferDevice := usage =? USAGE_AUTO_DEVICE in
      let preferHost := usage =? USAGE_AUTO_HOST in
      if rnd && negb integrated && deviceAccess && xfer && negb preferHost then
        (req0, N.lor pref0 (N.lor DEVICE_LOCAL HOST_CACHED), 0)
      else if rnd then
        (N.lor req0 HOST_VISIBLE, N.lor pref0 HOST_CACHED, 0)
      else if seqw then
        if negb integrated && deviceAccess && xfer && negb preferHost then
          (req0, N.lor pref0 (N.lor DEVICE_LOCAL HOST_VISIBLE), HOST_CACHED)
        else if deviceAccess && preferHost then
          (N.lor req0 HOST_VISIBLE, pref0, N.lor HOST_CACHED DEVICE_LOCAL)
        else if deviceAccess || preferDevice then
          (N.lor req0 HOST_VISIBLE, N.lor pref0 DEVICE_LOCAL, HOST_CACHED)
        else
          (N.lor req0 HOST_VISIBLE, pref0, N.lor HOST_CACHED DEVICE_LOCAL)
      else if preferHost then (req0, pref0, DEVICE_LOCAL)
      else (req0, N.lor pref0 DEVICE_LOCAL, 0)
    else (req0, pref0, 0) in
  let npref :=
    if N.land (N.lor req0 pref0) (N.lor DEVICE_COHERENT_AMD DEVICE_UNCACHED_AMD) =? 0
    then N.lor npref DEVICE_UNCACHED_AMD else npref in
  (req, pref, npref).

(* requiredFlags&flags == requiredFlags *)
Definition has_all (f req : N) : bool := N.land req f =? req.

(* OnesCount32(preferred & ^flags) + OnesCount32(notPreferred & flags) *)
Definition cost (pref npref f : N) : nat :=
  (popcount (N.ldiff pref f) + popcount (N.land npref f))%nat.

(* CalculateGlobalMemoryTypeBits: device-coherent types are excluded unless VK_AMD_device_coherent_memory *)
Fixpoint global_bits_from (amd : bool) (ts : list N) (i : nat) : N :=
  match ts with
  | [] => 0
  | f :: ts' =>
      let r := global_bits_from amd ts' (S i) in
      if negb amd && N.testbit f 6 then r else N.setbit r (N.of_nat i)
  end.
Definition global_bits (amd : bool) (types : list N) : N := global_bits_from amd types 0.

(* memoryTypeBits &= globalMemoryTypeBits; if o.MemoryTypeBits != 0 { memoryTypeBits &= o.MemoryTypeBits } *)
Definition eff_mask (global typeBits ctb : N) : N :=
  let m := N.land typeBits global in
  if ctb =? 0 then m else N.land m ctb.

(* the loop of findMemoryTypeIndex; best = (bestMemoryTypeIndex, minCost), None = (-1, MaxInt) *)
Fixpoint find_loop (mask req pref npref : N) (ts : list N) (i : nat) (best : option (nat * nat))
  : option nat :=
  match ts with
  | [] => match best with Some (b, _) => Some b | None => None end
  | f :: ts' =>
      if negb (N.testbit mask (N.of_nat i)) then find_loop mask req pref npref ts' (S i) best
      else if negb (has_all f req) then find_loop mask req pref npref ts' (S i) best
      else
        let c := cost pref npref f in
        if Nat.eqb c 0 then Some i
        else
          match best with
          | Some (_, mc) =>
              if Nat.ltb c mc then find_loop mask req pref npref ts' (S i) (Some (i, c))
              else find_loop mask req pref npref ts' (S i) best
          | None => find_loop mask req pref npref ts' (S i) (Some (i, c))
          end
  end.

(* findMemoryTypeIndex after findMemoryPreferences; None = VK_ERROR_FEATURE_NOT_PRESENT *)
Definition find_type (types : list N) (global typeBits ctb req pref npref : N) : option nat :=
  find_loop (eff_mask global typeBits ctb) req pref npref types 0 None.

(* a device: integrated GPU?, VK_AMD_device_coherent_memory enabled?, memory type table *)
Record device := { d_integrated : bool; d_amd : bool; d_types : list N }.

(* the selection-relevant part of AllocationCreateInfo *)
Record request := { r_usage : N; r_flags : N; r_req : N; r_pref : N; r_ctb : N }.

Definition prefs_of (d : device) (rq : request) (bufimg : option N) : N * N * N :=
  find_prefs d.(d_integrated) rq.(r_usage) rq.(r_flags) rq.(r_req) rq.(r_pref) bufimg.

(* Allocator.findMemoryTypeIndex(memoryTypeBits, o, bufferOrImageUsage) *)
Definition select (d : device) (rq : request) (typeBits : N) (bufimg : option N) : option nat :=
  let '(req, pref, npref) := prefs_of d rq bufimg in
  find_type d.(d_types) (global_bits d.(d_amd) d.(d_types)) typeBits rq.(r_ctb) req pref npref.

(* ---- AllocateMemory: validation + fallback loop *)

Inductive result := ROk (i : nat) | RErr (code : Z) | RFuel.

(* calcAllocationParams (pool = nil): true = returns VK_ERROR_UNKNOWN.  requiresDedicated = false. *)
Definition params_invalid (usage aflags : N) : bool :=
  let seqw := N.testbit aflags ACF_SEQ_WRITE_BIT in
  let rnd := N.testbit aflags ACF_RANDOM_BIT in
  let xfer := N.testbit aflags ACF_ALLOW_TRANSFER_BIT in
  let noHost := negb seqw && negb rnd in
  let dedicated := N.testbit aflags ACF_DEDICATED_BIT || (usage =? USAGE_LAZY) in
  (seqw && rnd)
  || (noHost && xfer)
  || (is_auto usage && noHost && N.testbit aflags ACF_MAPPED_BIT)
  || (dedicated && N.testbit aflags ACF_NEVER_ALLOCATE_BIT).

(* The loop of multiAllocateMemory.  sel bits = findMemoryTypeIndex(bits, ...); attempt i = VkResult of
   allocateMemoryOfType for type i (0 = success).  Returns the types attempted, in order, and the result. *)
Fixpoint fallback_loop (fuel : nat) (sel : N -> option nat) (attempt : nat -> Z) (bits : N) (idx : nat)
  : list nat * result :=
  match fuel with
  | O => ([], RFuel)
  | S fuel' =>
      let res := attempt idx in
      if (res =? 0)%Z then ([idx], ROk idx)
      else if (res =? VK_UNKNOWN)%Z then ([idx], RErr res)
      else
        let bits' := N.clearbit bits (N.of_nat idx) in
        match sel bits' with
        | None => ([idx], RErr res)
        | Some idx' =>
            let '(t, r) := fallback_loop fuel' sel attempt bits' idx' in
            (idx :: t, r)
        end
  end.

Definition allocate_with (ntypes : nat) (sel : N -> option nat) (attempt : nat -> Z) (bits : N)
  : list nat * result :=
  match sel bits with
  | None => ([], RErr VK_FEATURE_NOT_PRESENT)
  | Some idx => fallback_loop (S ntypes) sel attempt bits idx
  end.

(* Allocator.AllocateMemory / CreateBuffer as far as type selection goes (size > 0, alignment a power of 2) *)
Definition allocate (d : device) (rq : request) (typeBits : N) (bufimg : option N) (attempt : nat -> Z)
  : list nat * result :=
  if params_invalid rq.(r_usage) rq.(r_flags) then ([], RErr VK_UNKNOWN)
  else allocate_with (length d.(d_types)) (fun bits => select d rq bits bufimg) attempt typeBits.

(* attempt oracle used by the harness: types in oomMask fail with failCode, the others succeed *)
Definition mask_oracle (oomMask : N) (failCode : Z) (i : nat) : Z :=
  if N.testbit oomMask (N.of_nat i) then failCode else 0%Z.
