(* TlsfSearch.v — the search side of the TLSF model under the second invariant: the bitmap scan
   finds the lowest non-empty list, checkBlock never panics on a free region, every search
   primitive either fails cleanly or grants a request on a free region, a refusal means that no
   free region passes the code's own fit test. *)
From Coq Require Import ZArith NArith Lia List Bool.
From Arsenal Require Import Util Bits Gran Tlsf TlsfGeom TlsfInv1 TlsfFree TlsfAlloc TlsfStep TlsfProps SizeClass TlsfInv2.
Import ListNotations.
Open Scope Z_scope.

(* ------------------------------------------------------------------ the bitmap scan *)

Lemma lowest_from_spec bm fuel i :
  match lowest_from bm i fuel with
  | Some r => (i <= r < i + fuel)%nat /\ N.testbit bm (N.of_nat r) = true /\
              forall j, (i <= j < r)%nat -> N.testbit bm (N.of_nat j) = false
  | None => forall j, (i <= j < i + fuel)%nat -> N.testbit bm (N.of_nat j) = false
  end.
Proof.
  revert i; induction fuel as [|f IH]; intros i; cbn [lowest_from].
  - intros j Hj. lia.
  - destruct (N.testbit bm (N.of_nat i)) eqn:E.
    + split; [lia|]. split; [auto|]. intros j Hj. lia.
    + specialize (IH (S i)). destruct (lowest_from bm (S i) f) as [r|].
      * destruct IH as (H1 & H2 & H3). split; [lia|]. split; [auto|].
        intros j Hj. destruct (Nat.eq_dec j i) as [->|Hne]; [auto|apply H3; lia].
      * intros j Hj. destruct (Nat.eq_dec j i) as [->|Hne]; [auto|apply IH; lia].
Qed.

Lemma lowest_ge_spec bm k :
  0 <= k ->
  match lowest_ge bm k with
  | Some r => k <= r < 32 /\ N.testbit bm (Z.to_N r) = true /\
              forall j, k <= j < r -> N.testbit bm (Z.to_N j) = false
  | None => forall j, k <= j < 32 -> N.testbit bm (Z.to_N j) = false
  end.
Proof.
  intros Hk. unfold lowest_ge. destruct (Z.ltb_spec k 0); [lia|].
  destruct (Z.leb_spec 32 k); [intros j Hj; lia|].
  pose proof (lowest_from_spec bm (32 - Z.to_nat k) (Z.to_nat k)) as Hs.
  destruct (lowest_from bm (Z.to_nat k) (32 - Z.to_nat k)) as [r|].
  - destruct Hs as (H1 & H2 & H3). split; [lia|]. split.
    + rewrite <- nat_N_Z, N2Z.id. exact H2.
    + intros j Hj. rewrite <- Z_nat_N. apply H3. lia.
  - intros j Hj. rewrite <- Z_nat_N. apply Hs. lia.
Qed.

(* every non-empty list is the list of a valid pair *)
Lemma nonempty_list_pair t i :
  FLt t -> list_at t i <> [] -> exists mc s, valid_pair mc s /\ i = list_index mc s.
Proof.
  intros HFL Hne. rewrite list_at_lat in Hne.
  destruct (lat (t_lists t) i) as [|o l] eqn:E; [congruence|].
  assert (Ho : In o (lat (t_lists t) i)) by (rewrite E; left; auto).
  apply (fl_in _ _ _ _ _ _ _ HFL) in Ho. destruct Ho as (b & Hb & _ & Hi).
  pose proof (fl_wf _ _ _ _ _ _ _ HFL) as Hwf. rewrite Forall_forall in Hwf.
  destruct (Hwf _ Hb) as (_ & _ & Hs). pose proof (fl_size _ _ _ _ _ _ _ HFL).
  exists (size_to_class (b_size b)), (size_to_sli (b_size b) (size_to_class (b_size b))).
  split; [apply class_valid_pair; lia|]. rewrite <- Hi. reflexivity.
Qed.

Lemma inner_bit t mc s :
  FLt t -> 0 <= mc -> 0 <= s ->
  (N.testbit (nth (Z.to_nat mc) (t_inner t) 0%N) (Z.to_N s) = true <->
   valid_pair mc s /\ list_at t (list_index mc s) <> []).
Proof.
  intros HFL Hmc Hs. destruct (fl_bits _ _ _ _ _ _ _ HFL) as (_ & Hi & _). apply (Hi mc s Hmc Hs).
Qed.

Lemma outer_bit t mc :
  FLt t -> 0 <= mc ->
  (N.testbit (t_bitmap t) (Z.to_N mc) = true <-> nth (Z.to_nat mc) (t_inner t) 0%N <> 0%N).
Proof.
  intros HFL Hmc. destruct (fl_bits _ _ _ _ _ _ _ HFL) as (_ & _ & Ho). apply (Ho mc Hmc).
Qed.

Theorem find_free_block_spec t size :
  FLt t -> 1 <= size -> size_to_class size < 58 ->
  match find_free_block t size with
  | FFPanic => False
  | FFList idx => list_of_size size <= idx /\ list_at t idx <> [] /\
                  (forall i, list_of_size size <= i < idx -> list_at t i = [])
  | FFNone => forall i, list_of_size size <= i -> list_at t i = []
  end.
Proof.
  intros HFL Hsz Hcl. unfold find_free_block. cbv zeta.
  pose proof (class_wpair size Hsz) as Hw.
  unfold list_of_size. cbv zeta.
  set (mc := size_to_class size) in *. set (sli := size_to_sli size mc) in *.
  pose proof Hw as (Hmc0 & Hsli0 & Hsli1).
  assert (Hsli32 : sli < 32) by (destruct (mc =? 0); lia).
  destruct (Z.ltb_spec mc 0); [lia|].
  destruct (Z.leb_spec (Z.of_nat max_memory_classes) mc); [unfold max_memory_classes in *; lia|]. cbn [orb].
  (* a set inner bit finishes the search *)
  assert (Hfinish : forall mc' s, 0 <= mc' -> 0 <= s ->
             N.testbit (nth (Z.to_nat mc') (t_inner t) 0%N) (Z.to_N s) = true ->
             valid_pair mc' s /\ list_at t (list_index mc' s) <> [] /\
             match list_at t (list_index mc' s) with [] => FFPanic | _ :: _ => FFList (list_index mc' s) end
             = FFList (list_index mc' s)).
  { intros mc' s H1 H2 Hb. apply inner_bit in Hb; auto. destruct Hb as (Hv & Hne).
    split; auto. split; auto. destruct (list_at t (list_index mc' s)); [congruence|reflexivity]. }
  (* non-empty lists at or after the query, by class *)
  assert (Hnon : forall i, list_index mc sli <= i -> list_at t i <> [] ->
             exists mc' s', valid_pair mc' s' /\ i = list_index mc' s' /\
                            N.testbit (nth (Z.to_nat mc') (t_inner t) 0%N) (Z.to_N s') = true /\
                            (mc < mc' \/ (mc = mc' /\ sli <= s'))).
  { intros i Hi Hne. destruct (nonempty_list_pair t i HFL Hne) as (mc' & s' & Hv & ->).
    exists mc', s'. split; auto. split; auto. split.
    - apply inner_bit; auto; try (destruct (valid_pair_range _ _ Hv); lia).
    - apply (list_index_lex_w mc sli mc' s' Hw (valid_wpair _ _ Hv)). exact Hi. }
  pose proof (lowest_ge_spec (nth (Z.to_nat mc) (t_inner t) 0%N) sli Hsli0) as Hl1.
  destruct (lowest_ge (nth (Z.to_nat mc) (t_inner t) 0%N) sli) as [s|].
  - (* found in the same class *)
    destruct Hl1 as (Hs1 & Hs2 & Hs3).
    destruct (Hfinish mc s Hmc0 ltac:(lia) Hs2) as (Hv & Hne & ->).
    split; [|split; [exact Hne|]].
    + apply (list_index_lex_w mc sli mc s Hw (valid_wpair _ _ Hv)). right. split; [auto|lia].
    + intros i Hi. destruct (list_at t i) as [|o l] eqn:E; [reflexivity|exfalso].
      destruct (Hnon i ltac:(lia) ltac:(rewrite E; discriminate)) as (mc' & s' & Hv' & -> & Hb' & Hlex).
      assert (Hlt : list_index mc' s' < list_index mc s) by lia.
      apply (list_index_lt_w mc' s' mc s (valid_wpair _ _ Hv') (valid_wpair _ _ Hv)) in Hlt.
      destruct Hlex as [Hlex|[<- Hlex]]; [lia|].
      destruct Hlt as [Hlt|[_ Hlt]]; [lia|].
      rewrite (Hs3 s' ltac:(lia)) in Hb'. discriminate.
  - (* nothing left in this class *)
    assert (Hsame : forall s', sli <= s' -> N.testbit (nth (Z.to_nat mc) (t_inner t) 0%N) (Z.to_N s') = true -> False).
    { intros s' Hs' Hb. pose proof Hb as Hb2. apply inner_bit in Hb2; auto; [|lia].
      destruct Hb2 as (Hv & _). destruct (valid_pair_range _ _ Hv) as (_ & Hr).
      rewrite (Hl1 s' ltac:(lia)) in Hb. discriminate. }
    pose proof (lowest_ge_spec (t_bitmap t) (mc + 1) ltac:(lia)) as Hl2.
    destruct (lowest_ge (t_bitmap t) (mc + 1)) as [mc1|].
    + destruct Hl2 as (Hm1 & Hm2 & Hm3).
      apply outer_bit in Hm2; auto; [|lia].
      apply N_nonzero_bit in Hm2. destruct Hm2 as (j & Hj0 & Hj).
      pose proof Hj as Hj'. apply inner_bit in Hj'; auto; [|lia]. destruct Hj' as (Hvj & _).
      destruct (valid_pair_range _ _ Hvj) as (_ & Hjr).
      pose proof (lowest_ge_spec (nth (Z.to_nat mc1) (t_inner t) 0%N) 0 ltac:(lia)) as Hl3.
      destruct (lowest_ge (nth (Z.to_nat mc1) (t_inner t) 0%N) 0) as [s|].
      * destruct Hl3 as (Hs1 & Hs2 & Hs3).
        destruct (Hfinish mc1 s ltac:(lia) ltac:(lia) Hs2) as (Hv & Hne & ->).
        split; [|split; [exact Hne|]].
        -- apply (list_index_lex_w mc sli mc1 s Hw (valid_wpair _ _ Hv)). left. lia.
        -- intros i Hi. destruct (list_at t i) as [|o l] eqn:E; [reflexivity|exfalso].
           destruct (Hnon i ltac:(lia) ltac:(rewrite E; discriminate)) as (mc' & s' & Hv' & -> & Hb' & Hlex).
           assert (Hlt : list_index mc' s' < list_index mc1 s) by lia.
           apply (list_index_lt_w mc' s' mc1 s (valid_wpair _ _ Hv') (valid_wpair _ _ Hv)) in Hlt.
           destruct (valid_pair_range _ _ Hv') as (Hr1 & Hr2).
           destruct Hlex as [Hlex|[<- Hlex]]; [|eapply Hsame; eauto].
           destruct Hlt as [Hlt|[-> Hlt]].
           ++ assert (Hob : N.testbit (t_bitmap t) (Z.to_N mc') = true).
              { apply outer_bit; auto; [lia|]. apply N_nonzero_bit. exists s'. split; [lia|auto]. }
              rewrite (Hm3 mc' ltac:(lia)) in Hob. discriminate.
           ++ rewrite (Hs3 s' ltac:(lia)) in Hb'. discriminate.
      * rewrite (Hl3 j ltac:(lia)) in Hj. discriminate.
    + intros i Hi. destruct (list_at t i) as [|o l] eqn:E; [reflexivity|exfalso].
      destruct (Hnon i ltac:(lia) ltac:(rewrite E; discriminate)) as (mc' & s' & Hv' & -> & Hb' & Hlex).
      destruct (valid_pair_range _ _ Hv') as (Hr1 & Hr2).
      destruct Hlex as [Hlex|[<- Hlex]]; [|eapply Hsame; eauto].
      assert (Hob : N.testbit (t_bitmap t) (Z.to_N mc') = true).
      { apply outer_bit; auto; [lia|]. apply N_nonzero_bit. exists s'. split; [lia|auto]. }
      rewrite (Hl2 mc' ltac:(lia)) in Hob. discriminate.
Qed.

(* ------------------------------------------------------------------ geometry of free regions *)

Lemma region_bounds t b :
  Inv1 t -> (b = t_null t \/ In b (t_chain t)) ->
  0 <= b_off b /\ 0 <= b_size b /\ b_off b + b_size b <= t_size t.
Proof.
  intros [[Hch Hnoff Hnsz Htot Hnfree] _ _ _] [->|Hin].
  - pose proof (chain_end_ge _ _ Hch). lia.
  - pose proof (chain_in_bounds _ _ _ Hch Hin). pose proof (chain_end_ge _ _ Hch). lia.
Qed.

Lemma sum_sizes_frees_le o c : chain_from o c -> 0 <= sum_sizes (frees c) <= chain_end o c - o.
Proof.
  revert o; induction c as [|x c IH]; intros o H; cbn [frees filter sum_sizes chain_end]; [lia|].
  cbn [chain_from] in H. destruct H as (Ho & Hs & Hc). specialize (IH _ Hc). fold (frees c).
  destruct (b_free x); cbn [sum_sizes]; lia.
Qed.

Lemma sum_free_size_le t : Inv1 t -> Inv2 t -> 0 <= t_free_size t /\ sum_free_size t <= t_size t.
Proof.
  intros [[Hch Hnoff Hnsz Htot Hnfree] _ _ _] [HFL _ _ _].
  pose proof (sum_sizes_frees_le _ _ Hch). rewrite <- (fl_fs _ _ _ _ _ _ _ HFL) in H.
  unfold sum_free_size. lia.
Qed.

(* ------------------------------------------------------------------ checkBlock never panics on a free region *)

Lemma check_block_nopanic t b li a al ty mo :
  TInv t -> Inv2 t -> pow2 al -> 1 <= a -> b_free b = true -> (b = t_null t \/ In b (t_chain t)) ->
  check_block t b li a al ty mo <> CBPanic.
Proof.
  intros [Hinv Hpg] [_ _ Hgt _] Hal Ha Hbf Hwhere.
  destruct (region_bounds t b Hinv Hwhere) as (Hb0 & Hb1 & Hb2).
  unfold check_block. rewrite Hbf. cbn [negb].
  destruct (Z.ltb_spec (b_size b) (a + align_up (b_off b) al - b_off b)); [discriminate|].
  pose proof (align_up_bounds (b_off b) al Hal) as ((Hlo & _) & _).
  pose proof (check_conflict_ok (t_gran t) (t_size t) (align_up (b_off b) al) a (b_off b) (b_size b) ty
                                Hpg Hgt Hb0 Hlo Ha H Hb2) as Hcc.
  destruct (check_conflict _ _ _ _ _ _) as [[al' [|]]|]; [discriminate| |congruence].
  destruct (mo <=? al'); [discriminate|].
  destruct li as [idx|]; [|discriminate]. destruct (_ || _); discriminate.
Qed.

(* ------------------------------------------------------------------ every search primitive is well behaved *)

Definition granted2 (t : tlsf) (a al ty mo : Z) (t' : tlsf) (r : request) : Prop :=
  exists b li, check_block t b li a al ty mo = CBOk t' r /\
    ((li = None /\ b = t_null t) \/
     (exists idx, li = Some idx /\ In b (t_chain t) /\ b_free b = true /\ In (b_off b) (list_at t idx))).

Lemma granted2_by t a al ty mo t' r : granted2 t a al ty mo t' r -> granted_by t a al ty mo t' r.
Proof.
  intros (b & li & Hc & [H|(idx & E & Hin & _)]); exists b, li; split; auto. right. split; eauto.
Qed.

Definition good (t : tlsf) (a al ty mo : Z) (s : sres) : Prop :=
  match s with SPanic => False | SNotFound => True | SFound t' r => granted2 t a al ty mo t' r end.

Lemma free_of_list t idx o :
  Inv1 t -> FLt t -> In o (list_at t idx) ->
  exists b, find_blk o (t_chain t) = Some b /\ In b (t_chain t) /\ b_free b = true /\ b_off b = o /\
            list_of_size (b_size b) = idx.
Proof.
  intros [[Hch _ _ _ _] _ _ _] HFL Hin. rewrite list_at_lat in Hin.
  apply (fl_in _ _ _ _ _ _ _ HFL) in Hin. destruct Hin as (b & Hb & Ho & Hi).
  apply frees_In in Hb. destruct Hb as (Hb & Hf). exists b. repeat split; auto.
  rewrite <- Ho. eapply find_blk_unique; eauto.
Qed.

Lemma list_of_free t b :
  FLt t -> In b (t_chain t) -> b_free b = true -> In (b_off b) (list_at t (list_of_size (b_size b))).
Proof.
  intros HFL Hin Hf. rewrite list_at_lat. apply (fl_in _ _ _ _ _ _ _ HFL).
  exists b. split; [apply frees_In; auto|auto].
Qed.

Lemma firstn_sub {A} n (l : list A) x : In x (firstn n l) -> In x l.
Proof. revert l; induction n as [|n IH]; intros [|y l]; cbn; try tauto. intros [H|H]; auto. Qed.

Section Search.
  Variables (t : tlsf) (a al ty mo : Z).
  Hypothesis HT : TInv t.
  Hypothesis HI : Inv2 t.
  Hypothesis Hal : pow2 al.
  Hypothesis Ha : 1 <= a.

  Lemma check_list_good idx offs :
    (forall o, In o offs -> In o (list_at t idx)) -> good t a al ty mo (check_list t idx offs a al ty mo).
  Proof.
    induction offs as [|o offs IH]; intros Hsub; cbn [check_list]; [exact I|].
    destruct (free_of_list t idx o (proj1 HT) (i2_fl _ HI) (Hsub o ltac:(left; auto)))
      as (b & Hf & Hin & Hbf & Ho & Hi).
    rewrite Hf.
    pose proof (check_block_nopanic t b (Some idx) a al ty mo HT HI Hal Ha Hbf (or_intror Hin)) as Hnp.
    destruct (check_block t b (Some idx) a al ty mo) as [|t' r|] eqn:Hc; [|cbn|congruence].
    - apply IH. intros o' Ho'. apply Hsub. right. auto.
    - exists b, (Some idx). split; auto. right. exists idx. repeat split; auto. rewrite Ho. apply Hsub. left; auto.
  Qed.

  Lemma check_null_good : good t a al ty mo (check_null t a al ty mo).
  Proof.
    unfold check_null.
    pose proof (check_block_nopanic t (t_null t) None a al ty mo HT HI Hal Ha
                  (g_null_free _ (i_geom _ (proj1 HT))) (or_introl eq_refl)) as Hnp.
    destruct (check_block t (t_null t) None a al ty mo) as [|t' r|] eqn:Hc; [exact I|cbn|congruence].
    exists (t_null t), None. auto.
  Qed.

  Lemma full_search_good idx fuel : good t a al ty mo (full_search t idx fuel a al ty mo).
  Proof.
    revert idx; induction fuel as [|f IH]; intros idx; cbn [full_search]; [exact I|].
    destruct (_ <=? idx); [exact I|].
    pose proof (check_list_good idx (list_at t idx) (fun o H => H)) as Hg.
    destruct (check_list t idx (list_at t idx) a al ty mo); auto.
  Qed.

  Lemma min_offset_walk_good c :
    incl c (t_chain t) -> good t a al ty mo (min_offset_walk t c a al ty mo).
  Proof.
    induction c as [|b c IH]; intros Hinc; cbn [min_offset_walk]; [exact I|].
    assert (Hinc' : incl c (t_chain t)) by (intros x Hx; apply Hinc; right; auto).
    assert (Hin : In b (t_chain t)) by (apply Hinc; left; auto).
    destruct (mo <=? b_off b); [exact I|].
    destruct (b_free b) eqn:Hbf; cbn [andb]; [|auto].
    destruct (a <=? b_size b); [|auto].
    pose proof (check_block_nopanic t b (Some (list_of_size (b_size b))) a al ty mo HT HI Hal Ha Hbf (or_intror Hin)) as Hnp.
    destruct (check_block t b _ a al ty mo) as [|t' r|] eqn:Hc; [auto|cbn|congruence].
    exists b, (Some (list_of_size (b_size b))). split; auto. right. eexists. repeat split; auto.
    apply list_of_free; auto. apply (i2_fl _ HI).
  Qed.

  Lemma orelse_good s f :
    good t a al ty mo s -> (s = SNotFound -> good t a al ty mo (f tt)) -> good t a al ty mo (orelse s f).
  Proof. destruct s; cbn; auto. Qed.

  Lemma ff_list_good size :
    1 <= size -> size_to_class size < 58 ->
    good t a al ty mo (match find_free_block t size with
                       | FFPanic => SPanic
                       | FFNone => SNotFound
                       | FFList pidx => check_list t pidx (list_at t pidx) a al ty mo
                       end).
  Proof.
    intros Hs Hc. pose proof (find_free_block_spec t size (i2_fl _ HI) Hs Hc) as Hff.
    destruct (find_free_block t size); [exact I| |destruct Hff].
    apply check_list_good. auto.
  Qed.
End Search.

Lemma next_list_bound s : 1 <= s -> size_for_next_list s <= 2 * s + 64.
Proof.
  intros H. unfold size_for_next_list. destruct (Z.gtb_spec s 256) as [Hb|Hb].
  - pose proof (log2_ge_8 s Hb). pose proof (Z.log2_spec s ltac:(lia)) as [L _].
    assert (2 ^ (Z.log2 s - 5) <= 2 ^ Z.log2 s) by (apply Z.pow_le_mono_r; lia). lia.
  - destruct (Z.gtb_spec s 192); lia.
Qed.

Lemma class_lt_58 s : 1 <= s < 2 ^ 41 -> size_to_class s < 58.
Proof.
  intros [H1 H2]. unfold size_to_class. destruct (s >? 256); [|lia].
  assert (Z.log2 s < 41) by (apply Z.log2_lt_pow2; lia). lia.
Qed.

Definition goodq (t : tlsf) (a al ty mo : Z) (q : reqres) : Prop :=
  match q with QPanic => False | QGranted t' r => granted2 t a al ty mo t' r | _ => True end.

Lemma of_sres_good t a al ty mo s : good t a al ty mo s -> goodq t a al ty mo (of_sres s).
Proof. destruct s; cbn; auto. Qed.

Theorem create_request_ok t size0 align0 upper ty strat mo :
  TInv t -> Inv2 t -> pow2 align0 ->
  match create_request t size0 align0 upper ty strat mo with
  | QPanic => False
  | QGranted t' r =>
    1 <= size0 /\ upper = false /\
    granted2 t (fst (round_up (t_gran t) ty size0 align0)) (snd (round_up (t_gran t) ty size0 align0)) ty mo t' r
  | _ => True
  end.
Proof.
  intros HT HI Hal0. unfold create_request.
  destruct (Z.ltb_spec size0 1); [exact I|].
  destruct upper; [exact I|].
  pose proof (round_up_spec (t_gran t) ty size0 align0 (proj2 HT) Hal0) as Hru.
  destruct (round_up (t_gran t) ty size0 align0) as [a al]. cbn [fst snd].
  destruct Hru as (Hsz & Hal & _).
  assert (Ha : 1 <= a) by lia.
  destruct (Z.ltb_spec (sum_free_size t) a) as [|Hfit]; [exact I|].
  pose proof (sum_free_size_le t (proj1 HT) HI) as (_ & Hsum).
  pose proof (fl_size _ _ _ _ _ _ _ (i2_fl _ HI)) as Hts.
  assert (Hca : size_to_class a < 58) by (apply class_lt_58; lia).
  pose proof (next_list_bound a Ha) as Hnb. pose proof (size_for_next_list_gt a Ha) as Hng.
  assert (Hcn : size_to_class (size_for_next_list a) < 58) by (apply class_lt_58; lia).
  assert (Hwrap : forall s, good t a al ty mo s ->
             match of_sres s with
             | QGranted t' r => 1 <= size0 /\ false = false /\ granted2 t a al ty mo t' r
             | QPanic => False
             | _ => True
             end).
  { intros s Hs. destruct s; cbn in *; auto. }
  pose proof (check_null_good t a al ty mo HT HI Hal Ha) as Hnull.
  pose proof (fun idx offs => check_list_good t a al ty mo HT HI Hal Ha idx offs) as Hlist.
  pose proof (fun idx fuel => full_search_good t a al ty mo HT HI Hal Ha idx fuel) as Hfull.
  pose proof (ff_list_good t a al ty mo HT HI Hal Ha a Ha Hca) as Hprev.
  destruct (t_free_count t =? 0).
  { destruct (_ && _); [exact I|]. apply Hwrap. exact Hnull. }
  pose proof (find_free_block_spec t (size_for_next_list a) (i2_fl _ HI) ltac:(lia) Hcn) as Hffn.
  pose proof (find_free_block_spec t a (i2_fl _ HI) Ha Hca) as Hffp.
  destruct (Z.testbit strat 1).
  { (* MinTime *)
    destruct (find_free_block t (size_for_next_list a)) as [|nidx|]; [| |destruct Hffn].
    - apply Hwrap. apply orelse_good; [exact Hnull|intros _; exact Hprev].
    - apply Hwrap. apply orelse_good; [apply Hlist; intros o Ho; eapply firstn_sub; eauto|intros _].
      apply orelse_good; [exact Hnull|intros _].
      apply orelse_good; [apply Hlist; auto|intros _].
      apply orelse_good; [exact Hprev|intros _]. apply Hfull. }
  destruct (Z.testbit strat 0).
  { (* MinMemory *)
    destruct (find_free_block t a) as [|pidx|] eqn:Hp; [| |destruct Hffp].
    - apply Hwrap. apply orelse_good; [exact I|intros _].
      apply orelse_good; [exact Hnull|intros _].
      destruct (find_free_block t (size_for_next_list a)) as [|nidx|]; [exact I| |destruct Hffn].
      apply orelse_good; [apply Hlist; auto|intros _]. apply Hfull.
    - apply Hwrap. apply orelse_good; [apply Hlist; auto|intros _].
      apply orelse_good; [exact Hnull|intros _].
      destruct (find_free_block t (size_for_next_list a)) as [|nidx|]; [exact I| |destruct Hffn].
      apply orelse_good; [apply Hlist; auto|intros _]. apply Hfull. }
  destruct (Z.testbit strat 2).
  { (* MinOffset *)
    apply Hwrap. apply orelse_good; [|intros _; exact Hnull].
    apply min_offset_walk_good; auto. apply incl_refl. }
  (* default *)
  destruct (find_free_block t (size_for_next_list a)) as [|nidx|]; [| |destruct Hffn].
  - apply Hwrap. apply orelse_good; [exact I|intros _].
    apply orelse_good; [exact Hnull|intros _].
    apply orelse_good; [exact Hprev|intros _]. exact I.
  - apply Hwrap. apply orelse_good; [apply Hlist; auto|intros _].
    apply orelse_good; [exact Hnull|intros _].
    apply orelse_good; [exact Hprev|intros _]. apply Hfull.
Qed.
