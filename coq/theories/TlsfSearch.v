(* TlsfSearch.v — the search side of the TLSF model under the second invariant: the bitmap scan
   finds the lowest non-empty list, checkBlock never panics on a free region, every search
   primitive either fails cleanly or grants a request on a free region, a refusal means that no
   free region passes the code's own fit test. *)
From Coq Require Import ZArith NArith Lia List Bool.
From Arsenal Require Import Util Bits Gran Tlsf TlsfGeom TlsfInv1 TlsfFree TlsfAlloc TlsfStep TlsfProps SizeClass TlsfInv2.
Import ListNotations.
Open Scope Z_scope.

(* ------------------------------------------------------------------ the bitmap scan *)

Lemma lowest_from_spec bm fuel i :
  match lowest_from bm i fuel with
  | Some r => (i <= r < i + fuel)%nat /\ N.testbit bm (N.of_nat r) = true /\
              forall j, (i <= j < r)%nat -> N.testbit bm (N.of_nat j) = false
  | None => forall j, (i <= j < i + fuel)%nat -> N.testbit bm (N.of_nat j) = false
  end.
Proof.
  revert i; induction fuel as [|f IH]; intros i; cbn [lowest_from].
  - intros j Hj. lia.
  - destruct (N.testbit bm (N.of_nat i)) eqn:E.
    + split; [lia|]. split; [auto|]. intros j Hj. lia.
    + specialize (IH (S i)). destruct (lowest_from bm (S i) f) as [r|].
      * destruct IH as (H1 & H2 & H3). split; [lia|]. split; [auto|].
        intros j Hj. destruct (Nat.eq_dec j i) as [->|Hne]; [auto|apply H3; lia].
      * intros j Hj. destruct (Nat.eq_dec j i) as [->|Hne]; [auto|apply IH; lia].
Qed.

Lemma lowest_ge_spec bm k :
  0 <= k ->
  match lowest_ge bm k with
  | Some r => k <= r < 32 /\ N.testbit bm (Z.to_N r) = true /\
              forall j, k <= j < r -> N.testbit bm (Z.to_N j) = false
  | None => forall j, k <= j < 32 -> N.testbit bm (Z.to_N j) = false
  end.
Proof.
  intros Hk. unfold lowest_ge. destruct (Z.ltb_spec k 0); [lia|].
  destruct (Z.leb_spec 32 k); [intros j Hj; lia|].
  pose proof (lowest_from_spec bm (32 - Z.to_nat k) (Z.to_nat k)) as Hs.
  destruct (lowest_from bm (Z.to_nat k) (32 - Z.to_nat k)) as [r|].
  - destruct Hs as (H1 & H2 & H3). split; [lia|]. split.
    + rewrite <- nat_N_Z, N2Z.id. exact H2.
    + intros j Hj. rewrite <- Z_nat_N. apply H3. lia.
  - intros j Hj. rewrite <- Z_nat_N. apply Hs. lia.
Qed.

(* every non-empty list is the list of a valid pair *)
Lemma nonempty_list_pair t i :
  FLt t -> list_at t i <> [] -> exists mc s, valid_pair mc s /\ i = list_index mc s.
Proof.
  intros HFL Hne. rewrite list_at_lat in Hne.
  destruct (lat (t_lists t) i) as [|o l] eqn:E; [congruence|].
  assert (Ho : In o (lat (t_lists t) i)) by (rewrite E; left; auto).
  apply (fl_in _ _ _ _ _ _ _ HFL) in Ho. destruct Ho as (b & Hb & _ & Hi).
  pose proof (fl_wf _ _ _ _ _ _ _ HFL) as Hwf. rewrite Forall_forall in Hwf.
  destruct (Hwf _ Hb) as (_ & _ & Hs). pose proof (fl_size _ _ _ _ _ _ _ HFL).
  exists (size_to_class (b_size b)), (size_to_sli (b_size b) (size_to_class (b_size b))).
  split; [apply class_valid_pair; lia|]. rewrite <- Hi. reflexivity.
Qed.

Lemma inner_bit t mc s :
  FLt t -> 0 <= mc -> 0 <= s ->
  (N.testbit (nth (Z.to_nat mc) (t_inner t) 0%N) (Z.to_N s) = true <->
   valid_pair mc s /\ list_at t (list_index mc s) <> []).
Proof.
  intros HFL Hmc Hs. destruct (fl_bits _ _ _ _ _ _ _ HFL) as (_ & Hi & _). apply (Hi mc s Hmc Hs).
Qed.

Lemma outer_bit t mc :
  FLt t -> 0 <= mc ->
  (N.testbit (t_bitmap t) (Z.to_N mc) = true <-> nth (Z.to_nat mc) (t_inner t) 0%N <> 0%N).
Proof.
  intros HFL Hmc. destruct (fl_bits _ _ _ _ _ _ _ HFL) as (_ & _ & Ho). apply (Ho mc Hmc).
Qed.

Theorem find_free_block_spec t size :
  FLt t -> 1 <= size -> size_to_class size < 58 ->
  match find_free_block t size with
  | FFPanic => False
  | FFList idx => list_of_size size <= idx /\ list_at t idx <> [] /\
                  (forall i, list_of_size size <= i < idx -> list_at t i = [])
  | FFNone => forall i, list_of_size size <= i -> list_at t i = []
  end.
Proof.
  intros HFL Hsz Hcl. unfold find_free_block. cbv zeta.
  pose proof (class_wpair size Hsz) as Hw.
  unfold list_of_size. cbv zeta.
  set (mc := size_to_class size) in *. set (sli := size_to_sli size mc) in *.
  pose proof Hw as (Hmc0 & Hsli0 & Hsli1).
  assert (Hsli32 : sli < 32) by (destruct (mc =? 0); lia).
  destruct (Z.ltb_spec mc 0); [lia|].
  destruct (Z.leb_spec (Z.of_nat max_memory_classes) mc); [unfold max_memory_classes in *; lia|]. cbn [orb].
  (* a set inner bit finishes the search *)
  assert (Hfinish : forall mc' s, 0 <= mc' -> 0 <= s ->
             N.testbit (nth (Z.to_nat mc') (t_inner t) 0%N) (Z.to_N s) = true ->
             valid_pair mc' s /\ list_at t (list_index mc' s) <> [] /\
             match list_at t (list_index mc' s) with [] => FFPanic | _ :: _ => FFList (list_index mc' s) end
             = FFList (list_index mc' s)).
  { intros mc' s H1 H2 Hb. apply inner_bit in Hb; auto. destruct Hb as (Hv & Hne).
    split; auto. split; auto. destruct (list_at t (list_index mc' s)); [congruence|reflexivity]. }
  (* non-empty lists at or after the query, by class *)
  assert (Hnon : forall i, list_index mc sli <= i -> list_at t i <> [] ->
             exists mc' s', valid_pair mc' s' /\ i = list_index mc' s' /\
                            N.testbit (nth (Z.to_nat mc') (t_inner t) 0%N) (Z.to_N s') = true /\
                            (mc < mc' \/ (mc = mc' /\ sli <= s'))).
  { intros i Hi Hne. destruct (nonempty_list_pair t i HFL Hne) as (mc' & s' & Hv & ->).
    exists mc', s'. split; auto. split; auto. split.
    - apply inner_bit; auto; try (destruct (valid_pair_range _ _ Hv); lia).
    - apply (list_index_lex_w mc sli mc' s' Hw (valid_wpair _ _ Hv)). exact Hi. }
  pose proof (lowest_ge_spec (nth (Z.to_nat mc) (t_inner t) 0%N) sli Hsli0) as Hl1.
  destruct (lowest_ge (nth (Z.to_nat mc) (t_inner t) 0%N) sli) as [s|].
  - (* found in the same class *)
    destruct Hl1 as (Hs1 & Hs2 & Hs3).
    destruct (Hfinish mc s Hmc0 ltac:(lia) Hs2) as (Hv & Hne & ->).
    split; [|split; [exact Hne|]].
    + apply (list_index_lex_w mc sli mc s Hw (valid_wpair _ _ Hv)). right. split; [auto|lia].
    + intros i Hi. destruct (list_at t i) as [|o l] eqn:E; [reflexivity|exfalso].
      destruct (Hnon i ltac:(lia) ltac:(rewrite E; discriminate)) as (mc' & s' & Hv' & -> & Hb' & Hlex).
      assert (Hlt : list_index mc' s' < list_index mc s) by lia.
      apply (list_index_lt_w mc' s' mc s (valid_wpair _ _ Hv') (valid_wpair _ _ Hv)) in Hlt.
      destruct Hlex as [Hlex|[<- Hlex]]; [lia|].
      destruct Hlt as [Hlt|[_ Hlt]]; [lia|].
      rewrite (Hs3 s' ltac:(lia)) in Hb'. discriminate.
  - (* nothing left in this class *)
    assert (Hsame : forall s', sli <= s' -> N.testbit (nth (Z.to_nat mc) (t_inner t) 0%N) (Z.to_N s') = true -> False).
    { intros s' Hs' Hb. pose proof Hb as Hb2. apply inner_bit in Hb2; auto; [|lia].
      destruct Hb2 as (Hv & _). destruct (valid_pair_range _ _ Hv) as (_ & Hr).
      rewrite (Hl1 s' ltac:(lia)) in Hb. discriminate. }
    pose proof (lowest_ge_spec (t_bitmap t) (mc + 1) ltac:(lia)) as Hl2.
    destruct (lowest_ge (t_bitmap t) (mc + 1)) as [mc1|].
    + destruct Hl2 as (Hm1 & Hm2 & Hm3).
      apply outer_bit in Hm2; auto; [|lia].
      apply N_nonzero_bit in Hm2. destruct Hm2 as (j & Hj0 & Hj).
      pose proof Hj as Hj'. apply inner_bit in Hj'; auto; [|lia]. destruct Hj' as (Hvj & _).
      destruct (valid_pair_range _ _ Hvj) as (_ & Hjr).
      pose proof (lowest_ge_spec (nth (Z.to_nat mc1) (t_inner t) 0%N) 0 ltac:(lia)) as Hl3.
      destruct (lowest_ge (nth (Z.to_nat mc1) (t_inner t) 0%N) 0) as [s|].
      * destruct Hl3 as (Hs1 & Hs2 & Hs3).
        destruct (Hfinish mc1 s ltac:(lia) ltac:(lia) Hs2) as (Hv & Hne & ->).
        split; [|split; [exact Hne|]].
        -- apply (list_index_lex_w mc sli mc1 s Hw (valid_wpair _ _ Hv)). left. lia.
        -- intros i Hi. destruct (list_at t i) as [|o l] eqn:E; [reflexivity|exfalso].
           destruct (Hnon i ltac:(lia) ltac:(rewrite E; discriminate)) as (mc' & s' & Hv' & -> & Hb' & Hlex).
           assert (Hlt : list_index mc' s' < list_index mc1 s) by lia.
           apply (list_index_lt_w mc' s' mc1 s (valid_wpair _ _ Hv') (valid_wpair _ _ Hv)) in Hlt.
           destruct (valid_pair_range _ _ Hv') as (Hr1 & Hr2).
           destruct Hlex as [Hlex|[<- Hlex]]; [|eapply Hsame; eauto].
           destruct Hlt as [Hlt|[-> Hlt]].
           ++ assert (Hob : N.testbit (t_bitmap t) (Z.to_N mc') = true).
              { apply outer_bit; auto; [lia|]. apply N_nonzero_bit. exists s'. split; [lia|auto]. }
              rewrite (Hm3 mc' ltac:(lia)) in Hob. discriminate.
           ++ rewrite (Hs3 s' ltac:(lia)) in Hb'. discriminate.
      * rewrite (Hl3 j ltac:(lia)) in Hj. discriminate.
    + intros i Hi. destruct (list_at t i) as [|o l] eqn:E; [reflexivity|exfalso].
      destruct (Hnon i ltac:(lia) ltac:(rewrite E; discriminate)) as (mc' & s' & Hv' & -> & Hb' & Hlex).
      destruct (valid_pair_range _ _ Hv') as (Hr1 & Hr2).
      destruct Hlex as [Hlex|[<- Hlex]]; [|eapply Hsame; eauto].
      assert (Hob : N.testbit (t_bitmap t) (Z.to_N mc') = true).
      { apply outer_bit; auto; [lia|]. apply N_nonzero_bit. exists s'. split; [lia|auto]. }
      rewrite (Hl2 mc' ltac:(lia)) in Hob. discriminate.
Qed.

(* ------------------------------------------------------------------ geometry of free regions *)

Lemma region_bounds t b :
  Inv1 t -> (b = t_null t \/ In b (t_chain t)) ->
  0 <= b_off b /\ 0 <= b_size b /\ b_off b + b_size b <= t_size t.
Proof.
  intros [[Hch Hnoff Hnsz Htot Hnfree] _ _ _] [->|Hin].
  - pose proof (chain_end_ge _ _ Hch). lia.
  - pose proof (chain_in_bounds _ _ _ Hch Hin). pose proof (chain_end_ge _ _ Hch). lia.
Qed.

Lemma sum_sizes_frees_le o c : chain_from o c -> 0 <= sum_sizes (frees c) <= chain_end o c - o.
Proof.
  revert o; induction c as [|x c IH]; intros o H; cbn [frees filter sum_sizes chain_end]; [lia|].
  cbn [chain_from] in H. destruct H as (Ho & Hs & Hc). specialize (IH _ Hc). fold (frees c).
  destruct (b_free x); cbn [sum_sizes]; lia.
Qed.

Lemma sum_free_size_le t : Inv1 t -> Inv2 t -> 0 <= t_free_size t /\ sum_free_size t <= t_size t.
Proof.
  intros [[Hch Hnoff Hnsz Htot Hnfree] _ _ _] [HFL _ _ _].
  pose proof (sum_sizes_frees_le _ _ Hch). rewrite <- (fl_fs _ _ _ _ _ _ _ HFL) in H.
  unfold sum_free_size. lia.
Qed.

(* ------------------------------------------------------------------ checkBlock never panics on a free region *)

Lemma check_block_nopanic t b li a al ty mo :
  TInv t -> Inv2 t -> pow2 al -> 1 <= a -> b_free b = true -> (b = t_null t \/ In b (t_chain t)) ->
  check_block t b li a al ty mo <> CBPanic.
Proof.
  intros [Hinv Hpg] [_ _ Hgt _] Hal Ha Hbf Hwhere.
  destruct (region_bounds t b Hinv Hwhere) as (Hb0 & Hb1 & Hb2).
  unfold check_block. rewrite Hbf. cbn [negb].
  destruct (Z.ltb_spec (b_size b) (a + align_up (b_off b) al - b_off b)); [discriminate|].
  pose proof (align_up_bounds (b_off b) al Hal) as ((Hlo & _) & _).
  pose proof (check_conflict_ok (t_gran t) (t_size t) (align_up (b_off b) al) a (b_off b) (b_size b) ty
                                Hpg Hgt Hb0 Hlo Ha H Hb2) as Hcc.
  destruct (check_conflict _ _ _ _ _ _) as [[al' [|]]|]; [discriminate| |congruence].
  destruct (mo <=? al'); [discriminate|].
  destruct li as [idx|]; [|discriminate]. destruct (_ || _); discriminate.
Qed.

(* ------------------------------------------------------------------ every search primitive is well behaved *)

Definition granted2 (t : tlsf) (a al ty mo : Z) (t' : tlsf) (r : request) : Prop :=
  exists b li, check_block t b li a al ty mo = CBOk t' r /\
    ((li = None /\ b = t_null t) \/
     (exists idx, li = Some idx /\ In b (t_chain t) /\ b_free b = true /\ In (b_off b) (list_at t idx))).

Lemma granted2_by t a al ty mo t' r : granted2 t a al ty mo t' r -> granted_by t a al ty mo t' r.
Proof.
  intros (b & li & Hc & [H|(idx & E & Hin & _)]); exists b, li; split; auto. right. split; eauto.
Qed.

Definition good (t : tlsf) (a al ty mo : Z) (s : sres) : Prop :=
  match s with SPanic => False | SNotFound => True | SFound t' r => granted2 t a al ty mo t' r end.

Lemma free_of_list t idx o :
  Inv1 t -> FLt t -> In o (list_at t idx) ->
  exists b, find_blk o (t_chain t) = Some b /\ In b (t_chain t) /\ b_free b = true /\ b_off b = o /\
            list_of_size (b_size b) = idx.
Proof.
  intros [[Hch _ _ _ _] _ _ _] HFL Hin. rewrite list_at_lat in Hin.
  apply (fl_in _ _ _ _ _ _ _ HFL) in Hin. destruct Hin as (b & Hb & Ho & Hi).
  apply frees_In in Hb. destruct Hb as (Hb & Hf). exists b. repeat split; auto.
  rewrite <- Ho. eapply find_blk_unique; eauto.
Qed.

Lemma list_of_free t b :
  FLt t -> In b (t_chain t) -> b_free b = true -> In (b_off b) (list_at t (list_of_size (b_size b))).
Proof.
  intros HFL Hin Hf. rewrite list_at_lat. apply (fl_in _ _ _ _ _ _ _ HFL).
  exists b. split; [apply frees_In; auto|auto].
Qed.

Lemma firstn_sub {A} n (l : list A) x : In x (firstn n l) -> In x l.
Proof. revert l; induction n as [|n IH]; intros [|y l]; cbn; try tauto. intros [H|H]; auto. Qed.

Section Search.
  Variables (t : tlsf) (a al ty mo : Z).
  Hypothesis HT : TInv t.
  Hypothesis HI : Inv2 t.
  Hypothesis Hal : pow2 al.
  Hypothesis Ha : 1 <= a.

  Lemma check_list_good idx offs :
    (forall o, In o offs -> In o (list_at t idx)) -> good t a al ty mo (check_list t idx offs a al ty mo).
  Proof.
    induction offs as [|o offs IH]; intros Hsub; cbn [check_list]; [exact I|].
    destruct (free_of_list t idx o (proj1 HT) (i2_fl _ HI) (Hsub o ltac:(left; auto)))
      as (b & Hf & Hin & Hbf & Ho & Hi).
    rewrite Hf.
    pose proof (check_block_nopanic t b (Some idx) a al ty mo HT HI Hal Ha Hbf (or_intror Hin)) as Hnp.
    destruct (check_block t b (Some idx) a al ty mo) as [|t' r|] eqn:Hc; [|cbn|congruence].
    - apply IH. intros o' Ho'. apply Hsub. right. auto.
    - exists b, (Some idx). split; auto. right. exists idx. repeat split; auto. rewrite Ho. apply Hsub. left; auto.
  Qed.

  Lemma check_null_good : good t a al ty mo (check_null t a al ty mo).
  Proof.
    unfold check_null.
    pose proof (check_block_nopanic t (t_null t) None a al ty mo HT HI Hal Ha
                  (g_null_free _ (i_geom _ (proj1 HT))) (or_introl eq_refl)) as Hnp.
    destruct (check_block t (t_null t) None a al ty mo) as [|t' r|] eqn:Hc; [exact I|cbn|congruence].
    exists (t_null t), None. auto.
  Qed.

  Lemma full_search_good idx fuel : good t a al ty mo (full_search t idx fuel a al ty mo).
  Proof.
    revert idx; induction fuel as [|f IH]; intros idx; cbn [full_search]; [exact I|].
    destruct (_ <=? idx); [exact I|].
    pose proof (check_list_good idx (list_at t idx) (fun o H => H)) as Hg.
    destruct (check_list t idx (list_at t idx) a al ty mo); auto.
  Qed.

  Lemma min_offset_walk_good c :
    incl c (t_chain t) -> good t a al ty mo (min_offset_walk t c a al ty mo).
  Proof.
    induction c as [|b c IH]; intros Hinc; cbn [min_offset_walk]; [exact I|].
    assert (Hinc' : incl c (t_chain t)) by (intros x Hx; apply Hinc; right; auto).
    assert (Hin : In b (t_chain t)) by (apply Hinc; left; auto).
    destruct (mo <=? b_off b); [exact I|].
    destruct (b_free b) eqn:Hbf; cbn [andb]; [|auto].
    destruct (a <=? b_size b); [|auto].
    pose proof (check_block_nopanic t b (Some (list_of_size (b_size b))) a al ty mo HT HI Hal Ha Hbf (or_intror Hin)) as Hnp.
    destruct (check_block t b _ a al ty mo) as [|t' r|] eqn:Hc; [auto|cbn|congruence].
    exists b, (Some (list_of_size (b_size b))). split; auto. right. eexists. repeat split; auto.
    apply list_of_free; auto. apply (i2_fl _ HI).
  Qed.

  Lemma orelse_good s f :
    good t a al ty mo s -> (s = SNotFound -> good t a al ty mo (f tt)) -> good t a al ty mo (orelse s f).
  Proof. destruct s; cbn; auto. Qed.

  Lemma ff_list_good size :
    1 <= size -> size_to_class size < 58 ->
    good t a al ty mo (match find_free_block t size with
                       | FFPanic => SPanic
                       | FFNone => SNotFound
                       | FFList pidx => check_list t pidx (list_at t pidx) a al ty mo
                       end).
  Proof.
    intros Hs Hc. pose proof (find_free_block_spec t size (i2_fl _ HI) Hs Hc) as Hff.
    destruct (find_free_block t size); [exact I| |destruct Hff].
    apply check_list_good. auto.
  Qed.
End Search.

Lemma next_list_bound s : 1 <= s -> size_for_next_list s <= 2 * s + 64.
Proof.
  intros H. unfold size_for_next_list. destruct (Z.gtb_spec s 256) as [Hb|Hb].
  - pose proof (log2_ge_8 s Hb). pose proof (Z.log2_spec s ltac:(lia)) as [L _].
    assert (2 ^ (Z.log2 s - 5) <= 2 ^ Z.log2 s) by (apply Z.pow_le_mono_r; lia). lia.
  - destruct (Z.gtb_spec s 192); lia.
Qed.

Lemma class_lt_58 s : 1 <= s < 2 ^ 41 -> size_to_class s < 58.
Proof.
  intros [H1 H2]. unfold size_to_class. destruct (s >? 256); [|lia].
  assert (Z.log2 s < 41) by (apply Z.log2_lt_pow2; lia). lia.
Qed.

Definition goodq (t : tlsf) (a al ty mo : Z) (q : reqres) : Prop :=
  match q with QPanic => False | QGranted t' r => granted2 t a al ty mo t' r | _ => True end.

Lemma of_sres_good t a al ty mo s : good t a al ty mo s -> goodq t a al ty mo (of_sres s).
Proof. destruct s; cbn; auto. Qed.

Theorem create_request_ok t size0 align0 upper ty strat mo :
  TInv t -> Inv2 t -> pow2 align0 ->
  match create_request t size0 align0 upper ty strat mo with
  | QPanic => False
  | QGranted t' r =>
    1 <= size0 /\ upper = false /\
    granted2 t (fst (round_up (t_gran t) ty size0 align0)) (snd (round_up (t_gran t) ty size0 align0)) ty mo t' r
  | _ => True
  end.
Proof.
  intros HT HI Hal0. unfold create_request.
  destruct (Z.ltb_spec size0 1); [exact I|].
  destruct upper; [exact I|].
  pose proof (round_up_spec (t_gran t) ty size0 align0 (proj2 HT) Hal0) as Hru.
  destruct (round_up (t_gran t) ty size0 align0) as [a al]. cbn [fst snd].
  destruct Hru as (Hsz & Hal & _).
  assert (Ha : 1 <= a) by lia.
  destruct (Z.ltb_spec (sum_free_size t) a) as [|Hfit]; [exact I|].
  pose proof (sum_free_size_le t (proj1 HT) HI) as (_ & Hsum).
  pose proof (fl_size _ _ _ _ _ _ _ (i2_fl _ HI)) as Hts.
  assert (Hca : size_to_class a < 58) by (apply class_lt_58; lia).
  pose proof (next_list_bound a Ha) as Hnb. pose proof (size_for_next_list_gt a Ha) as Hng.
  assert (Hcn : size_to_class (size_for_next_list a) < 58) by (apply class_lt_58; lia).
  assert (Hwrap : forall s, good t a al ty mo s ->
             match of_sres s with
             | QGranted t' r => 1 <= size0 /\ false = false /\ granted2 t a al ty mo t' r
             | QPanic => False
             | _ => True
             end).
  { intros s Hs. destruct s; cbn in *; auto. }
  pose proof (check_null_good t a al ty mo HT HI Hal Ha) as Hnull.
  pose proof (fun idx offs => check_list_good t a al ty mo HT HI Hal Ha idx offs) as Hlist.
  pose proof (fun idx fuel => full_search_good t a al ty mo HT HI Hal Ha idx fuel) as Hfull.
  pose proof (ff_list_good t a al ty mo HT HI Hal Ha a Ha Hca) as Hprev.
  destruct (t_free_count t =? 0).
  { destruct (_ && _); [exact I|]. apply Hwrap. exact Hnull. }
  pose proof (find_free_block_spec t (size_for_next_list a) (i2_fl _ HI) ltac:(lia) Hcn) as Hffn.
  pose proof (find_free_block_spec t a (i2_fl _ HI) Ha Hca) as Hffp.
  destruct (Z.testbit strat 1).
  { (* MinTime *)
    destruct (find_free_block t (size_for_next_list a)) as [|nidx|]; [| |destruct Hffn].
    - apply Hwrap. apply orelse_good; [exact Hnull|intros _; exact Hprev].
    - apply Hwrap. apply orelse_good; [apply Hlist; intros o Ho; eapply firstn_sub; eauto|intros _].
      apply orelse_good; [exact Hnull|intros _].
      apply orelse_good; [apply Hlist; auto|intros _].
      apply orelse_good; [exact Hprev|intros _]. apply Hfull. }
  destruct (Z.testbit strat 0).
  { (* MinMemory *)
    destruct (find_free_block t a) as [|pidx|] eqn:Hp; [| |destruct Hffp].
    - apply Hwrap. apply orelse_good; [exact I|intros _].
      apply orelse_good; [exact Hnull|intros _].
      destruct (find_free_block t (size_for_next_list a)) as [|nidx|]; [exact I| |destruct Hffn].
      apply orelse_good; [apply Hlist; auto|intros _]. apply Hfull.
    - apply Hwrap. apply orelse_good; [apply Hlist; auto|intros _].
      apply orelse_good; [exact Hnull|intros _].
      destruct (find_free_block t (size_for_next_list a)) as [|nidx|]; [exact I| |destruct Hffn].
      apply orelse_good; [apply Hlist; auto|intros _]. apply Hfull. }
  destruct (Z.testbit strat 2).
  { (* MinOffset *)
    apply Hwrap. apply orelse_good; [|intros _; exact Hnull].
    apply min_offset_walk_good; auto. apply incl_refl. }
  (* default *)
  destruct (find_free_block t (size_for_next_list a)) as [|nidx|]; [| |destruct Hffn].
  - apply Hwrap. apply orelse_good; [exact I|intros _].
    apply orelse_good; [exact Hnull|intros _].
    apply orelse_good; [exact Hprev|intros _]. exact I.
  - apply Hwrap. apply orelse_good; [apply Hlist; auto|intros _].
    apply orelse_good; [exact Hnull|intros _].
    apply orelse_good; [exact Hprev|intros _]. apply Hfull.
Qed.

(* ------------------------------------------------------------------ D: a refusal is complete *)

Lemma check_block_fail_any t b li li' a al ty mo :
  check_block t b li a al ty mo = CBFail -> check_block t b li' a al ty mo = CBFail.
Proof.
  unfold check_block. destruct (negb (b_free b)); [discriminate|].
  destruct (b_size b <? _); [auto|].
  destruct (check_conflict _ _ _ _ _ _) as [[al' [|]]|]; auto; try discriminate.
  destruct (mo <=? al'); [auto|].
  destruct li as [idx|]; [destruct (_ || _)|]; discriminate.
Qed.

Lemma check_block_ok_any t b li li' a al ty mo t1 r1 :
  check_block t b li a al ty mo = CBOk t1 r1 ->
  exists t2 r2, check_block t b li' a al ty mo = CBOk t2 r2 /\ rq_offset r2 = rq_offset r1.
Proof.
  unfold check_block. destruct (negb (b_free b)); [discriminate|].
  destruct (b_size b <? _); [discriminate|].
  destruct (check_conflict _ _ _ _ _ _) as [[al' [|]]|]; try discriminate.
  destruct (mo <=? al'); [discriminate|].
  intros H.
  assert (Ho : rq_offset r1 = al').
  { destruct li as [idx|]; [destruct (_ || _)|]; injection H as _ <-; reflexivity. }
  destruct li' as [idx'|]; [destruct (_ || _)|]; eexists _, _; (split; [reflexivity|cbn; auto]).
Qed.

(* where a granted offset lies *)
Lemma check_block_inside t b li a al ty mo t' r :
  pow2 al -> pow2 (g_g (t_gran t)) ->
  check_block t b li a al ty mo = CBOk t' r ->
  b_off b <= rq_offset r /\ rq_offset r + a <= b_off b + b_size b /\ rq_offset r < mo.
Proof.
  intros Hal Hg Hc. apply check_block_spec in Hc.
  destruct Hc as (_ & _ & _ & _ & _ & Hmo & _ & _ & _ & _ & _ & al' & Hcc & Hro & Hfit).
  rewrite Hro in *. clear Hro.
  pose proof (align_up_bounds (b_off b) al Hal) as ((Hlo & _) & _).
  apply check_conflict_spec in Hcc. destruct Hcc as [->|(-> & Hfit2)].
  - lia.
  - pose proof (align_up_bounds (align_up (b_off b) al) (g_g (t_gran t)) Hg) as ((Hlo2 & _) & _). lia.
Qed.

Lemma check_block_too_small t b li a al ty mo :
  pow2 al -> b_free b = true -> b_size b < a -> check_block t b li a al ty mo = CBFail.
Proof.
  intros Hal Hbf Hs. unfold check_block. rewrite Hbf. cbn [negb].
  pose proof (align_up_bounds (b_off b) al Hal) as ((Hlo & _) & _).
  destruct (Z.ltb_spec (b_size b) (a + align_up (b_off b) al - b_off b)); [reflexivity|lia].
Qed.

Lemma check_block_beyond t b li a al ty mo :
  TInv t -> Inv2 t -> pow2 al -> 1 <= a -> b_free b = true -> (b = t_null t \/ In b (t_chain t)) ->
  mo <= b_off b -> check_block t b li a al ty mo = CBFail.
Proof.
  intros HT HI Hal Ha Hbf Hw Hmo.
  pose proof (check_block_nopanic t b li a al ty mo HT HI Hal Ha Hbf Hw) as Hnp.
  destruct (check_block t b li a al ty mo) as [|t' r|] eqn:Hc; [reflexivity| |congruence].
  apply check_block_inside in Hc; auto; [lia|apply HT].
Qed.

Lemma orelse_nf s f : orelse s f = SNotFound -> s = SNotFound /\ f tt = SNotFound.
Proof. destruct s; cbn; auto; discriminate. Qed.

Lemma of_sres_refused s : of_sres s = QRefused -> s = SNotFound.
Proof. destruct s; cbn; auto; discriminate. Qed.

Section Complete.
  Variables (t : tlsf) (a al ty mo : Z).
  Hypothesis HT : TInv t.
  Hypothesis HI : Inv2 t.
  Hypothesis Hal : pow2 al.
  Hypothesis Ha : 1 <= a.

  Definition fails (b : blk) : Prop := forall li, check_block t b li a al ty mo = CBFail.

  (* every block of list i fails *)
  Definition cov (i : Z) : Prop :=
    forall b, In b (t_chain t) -> b_free b = true -> list_of_size (b_size b) = i -> fails b.

  Lemma cov_empty i : list_at t i = [] -> cov i.
  Proof.
    intros He b Hin Hbf Hi. exfalso. pose proof (list_of_free t b (i2_fl _ HI) Hin Hbf) as Ho.
    rewrite Hi, He in Ho. destruct Ho.
  Qed.

  Lemma check_list_nf idx offs :
    check_list t idx offs a al ty mo = SNotFound ->
    forall b, In b (t_chain t) -> In (b_off b) offs -> fails b.
  Proof.
    pose proof (g_chain _ (i_geom _ (proj1 HT))) as Hch.
    induction offs as [|o offs IH]; cbn [check_list]; intros Hnf b Hin Ho; [destruct Ho|].
    destruct (find_blk o (t_chain t)) as [b'|] eqn:Hf; [|discriminate].
    destruct (check_block t b' (Some idx) a al ty mo) eqn:Hc; try discriminate.
    destruct Ho as [->|Ho]; [|apply IH; auto].
    rewrite (find_blk_unique _ _ _ Hch Hin) in Hf. injection Hf as <-.
    intros li. eapply check_block_fail_any; eauto.
  Qed.

  Lemma check_list_cov idx : check_list t idx (list_at t idx) a al ty mo = SNotFound -> cov idx.
  Proof.
    intros Hnf b Hin Hbf Hi. eapply check_list_nf; eauto. rewrite <- Hi. apply list_of_free; auto. apply (i2_fl _ HI).
  Qed.

  Lemma full_search_cov idx fuel :
    full_search t idx fuel a al ty mo = SNotFound -> zlen (t_lists t) - idx <= Z.of_nat fuel ->
    forall i, idx <= i -> cov i.
  Proof.
    revert idx; induction fuel as [|f IH]; intros idx Hnf Hfuel i Hi.
    - apply cov_empty. rewrite list_at_lat.
      destruct (lat (t_lists t) i) eqn:E; auto. exfalso.
      assert (Hne : lat (t_lists t) i <> []) by (rewrite E; discriminate).
      apply lat_nonempty_range in Hne. lia.
    - cbn [full_search] in Hnf. destruct (Z.leb_spec (zlen (t_lists t)) idx).
      + apply cov_empty. rewrite list_at_lat.
        destruct (lat (t_lists t) i) eqn:E; auto. exfalso.
        assert (Hne : lat (t_lists t) i <> []) by (rewrite E; discriminate).
        apply lat_nonempty_range in Hne. lia.
      + destruct (check_list t idx (list_at t idx) a al ty mo) eqn:Hc; try discriminate.
        destruct (Z.eq_dec i idx) as [->|Hne]; [apply check_list_cov; auto|].
        apply (IH (idx + 1)); auto; lia.
  Qed.

  Lemma small_fails b : In b (t_chain t) -> b_free b = true -> list_of_size (b_size b) < list_of_size a -> fails b.
  Proof.
    intros Hin Hbf Hlt li. apply check_block_too_small; auto.
    pose proof (FLt_blk_size t b (i2_fl _ HI) Hin Hbf). apply list_lt_size_lt; auto; lia.
  Qed.

  (* the two bucket searches plus the full search cover every list from list_of_size a on *)
  Lemma cover_from_parts :
    size_to_class a < 58 -> size_to_class (size_for_next_list a) < 58 ->
    match find_free_block t (size_for_next_list a) with
    | FFNone => True
    | FFList nidx => cov nidx /\ forall i, nidx < i -> cov i
    | FFPanic => False
    end ->
    match find_free_block t a with
    | FFNone => True
    | FFList pidx => cov pidx
    | FFPanic => False
    end ->
    forall b, In b (t_chain t) -> b_free b = true -> fails b.
  Proof.
    intros Hca Hcn Hn Hp b Hin Hbf.
    pose proof (find_free_block_spec t (size_for_next_list a) (i2_fl _ HI)
                  ltac:(pose proof (size_for_next_list_gt a Ha); lia) Hcn) as Sn.
    pose proof (find_free_block_spec t a (i2_fl _ HI) Ha Hca) as Sp.
    rewrite next_list_exact in Sn by auto.
    set (i := list_of_size (b_size b)).
    pose proof (list_of_free t b (i2_fl _ HI) Hin Hbf) as Ho. fold i in Ho.
    assert (Hne : list_at t i <> []) by (intros E; rewrite E in Ho; destruct Ho).
    destruct (Z_lt_ge_dec i (list_of_size a)) as [Hlt|Hge]; [apply small_fails; auto|].
    destruct (find_free_block t a) as [|pidx|]; [exfalso; apply Hne; apply Sp; lia| |destruct Hp].
    destruct Sp as (Sp1 & Sp2 & Sp3).
    destruct (Z_lt_ge_dec i pidx) as [Hlt|Hge2]; [exfalso; apply Hne; apply Sp3; lia|].
    destruct (Z.eq_dec i pidx) as [E|Hne2]; [apply (Hp b); auto; congruence|].
    destruct (find_free_block t (size_for_next_list a)) as [|nidx|]; [exfalso; apply Hne; apply Sn; lia| |destruct Hn].
    destruct Sn as (Sn1 & Sn2 & Sn3). destruct Hn as (Hn1 & Hn2).
    destruct (Z_lt_ge_dec i nidx) as [Hlt|Hge3]; [exfalso; apply Hne; apply Sn3; lia|].
    destruct (Z.eq_dec i nidx) as [E|Hne3]; [apply (Hn1 b); auto|].
    apply (Hn2 i); auto. lia.
  Qed.

  Lemma min_offset_walk_nf c o :
    chain_from o c -> incl c (t_chain t) ->
    min_offset_walk t c a al ty mo = SNotFound ->
    forall b, In b c -> b_free b = true -> fails b.
  Proof.
    revert o; induction c as [|x c IH]; intros o Hch Hinc Hnf b Hin Hbf; [destruct Hin|].
    cbn [chain_from] in Hch. destruct Hch as (Hxo & Hxs & Hc).
    assert (Hinc' : incl c (t_chain t)) by (intros y Hy; apply Hinc; right; auto).
    cbn [min_offset_walk] in Hnf.
    destruct (Z.leb_spec mo (b_off x)) as [Hmo|Hmo].
    - (* break: this and all later blocks start at or after maxOffset *)
      intros li. apply check_block_beyond; auto.
      destruct Hin as [->|Hin]; [lia|]. pose proof (chain_in_bounds _ _ _ Hc Hin). lia.
    - destruct Hin as [->|Hin].
      + rewrite Hbf in Hnf. cbn [andb] in Hnf.
        destruct (Z.leb_spec a (b_size b)).
        * destruct (check_block t b _ a al ty mo) eqn:Hcb; try discriminate.
          intros li. eapply check_block_fail_any; eauto.
        * intros li. apply check_block_too_small; auto; lia.
      + apply (IH _ Hc Hinc'); auto.
        destruct (b_free x && (a <=? b_size x)); auto.
        destruct (check_block t x _ a al ty mo); try discriminate; auto.
  Qed.

  Lemma check_null_nf : check_null t a al ty mo = SNotFound -> fails (t_null t).
  Proof.
    unfold check_null. destruct (check_block t (t_null t) None a al ty mo) eqn:Hc; try discriminate.
    intros _ li. eapply check_block_fail_any; eauto.
  Qed.
End Complete.

Definition free_region (t : tlsf) (f : blk) : Prop := f = t_null t \/ (In f (t_chain t) /\ b_free f = true).

Lemma free_region_size_le t f : Inv1 t -> Inv2 t -> free_region t f -> b_size f <= sum_free_size t.
Proof.
  intros Hinv HI [->|(Hin & Hbf)].
  - pose proof (sum_free_size_le t Hinv HI). unfold sum_free_size. lia.
  - pose proof (g_null_size _ (i_geom _ Hinv)). unfold sum_free_size.
    rewrite (fl_fs _ _ _ _ _ _ _ (i2_fl _ HI)).
    assert (Hf : In f (frees (t_chain t))) by (apply frees_In; auto).
    pose proof (fl_wf _ _ _ _ _ _ _ (i2_fl _ HI)) as Hwf.
    clear - Hf Hwf H. induction (frees (t_chain t)) as [|x l IH]; [destruct Hf|].
    inversion Hwf as [|? ? (_ & _ & Hx) Hwf']; subst. cbn [sum_sizes].
    assert (0 <= sum_sizes l).
    { clear - Hwf'. induction l as [|y l IH]; cbn; [lia|]. inversion Hwf' as [|? ? (_ & _ & Hy) H']; subst.
      specialize (IH H'). lia. }
    destruct Hf as [->|Hf]; [lia|]. specialize (IH Hf Hwf'). lia.
Qed.

Theorem request_complete t size0 align0 ty strat mo :
  TInv t -> Inv2 t -> pow2 align0 ->
  create_request t size0 align0 false ty strat mo = QRefused ->
  forall f li, free_region t f ->
    check_block t f li (fst (round_up (t_gran t) ty size0 align0)) (snd (round_up (t_gran t) ty size0 align0)) ty mo
    = CBFail.
Proof.
  intros HT HI Hal0. unfold create_request.
  destruct (Z.ltb_spec size0 1); [discriminate|].
  pose proof (round_up_spec (t_gran t) ty size0 align0 (proj2 HT) Hal0) as Hru.
  destruct (round_up (t_gran t) ty size0 align0) as [a al]. cbn [fst snd].
  destruct Hru as (Hsz & Hal & _).
  assert (Ha : 1 <= a) by lia.
  assert (Hfree : forall f, free_region t f -> b_free f = true).
  { intros f [->|(_ & Hf)]; auto. apply (g_null_free _ (i_geom _ (proj1 HT))). }
  destruct (Z.ltb_spec (sum_free_size t) a) as [Hsmall|Hfit].
  { intros _ f li Hf. apply check_block_too_small; auto.
    pose proof (free_region_size_le t f (proj1 HT) HI Hf). lia. }
  pose proof (sum_free_size_le t (proj1 HT) HI) as (_ & Hsum).
  pose proof (fl_size _ _ _ _ _ _ _ (i2_fl _ HI)) as Hts.
  assert (Hca : size_to_class a < 58) by (apply class_lt_58; lia).
  pose proof (next_list_bound a Ha) as Hnb. pose proof (size_for_next_list_gt a Ha) as Hng.
  assert (Hcn : size_to_class (size_for_next_list a) < 58) by (apply class_lt_58; lia).
  assert (Hall : (forall b, In b (t_chain t) -> b_free b = true -> fails t a al ty mo b) ->
                 fails t a al ty mo (t_null t) ->
                 forall f li, free_region t f -> check_block t f li a al ty mo = CBFail).
  { intros H1 H2 f li [->|(Hin & Hbf)]; [apply H2|apply H1; auto]. }
  destruct (Z.eqb_spec (t_free_count t) 0) as [Hfc|Hfc].
  { (* no free chain block at all *)
    assert (Hnone : forall b, In b (t_chain t) -> b_free b = true -> fails t a al ty mo b).
    { intros b Hin Hbf. exfalso. rewrite (fl_fc _ _ _ _ _ _ _ (i2_fl _ HI)) in Hfc.
      assert (In b (frees (t_chain t))) by (apply frees_In; auto).
      destruct (frees (t_chain t)); [auto|]. rewrite zlen_cons in Hfc. unfold zlen in Hfc. lia. }
    destruct (Z.testbit strat 2 && (mo <? b_off (t_null t))) eqn:Hb.
    - intros _. apply Hall; auto. intros li. apply check_block_beyond; auto.
      + apply (g_null_free _ (i_geom _ (proj1 HT))).
      + apply andb_true_iff in Hb. destruct Hb as (_ & Hb). apply Z.ltb_lt in Hb. lia.
    - intros Hq. apply of_sres_refused in Hq. apply Hall; auto. eapply check_null_nf; eauto. }
  pose proof (fun idx => check_list_cov t a al ty mo HT HI idx) as Hcl.
  assert (Hnpos : forall nidx, find_free_block t (size_for_next_list a) = FFList nidx -> 0 <= nidx).
  { intros nidx E. pose proof (find_free_block_spec t (size_for_next_list a) (i2_fl _ HI) ltac:(lia) Hcn) as S.
    rewrite E in S. destruct S as (S1 & _). pose proof (list_of_size_nonneg (size_for_next_list a) ltac:(lia)). lia. }
  assert (Hprev : match find_free_block t a with
                  | FFPanic => SPanic | FFNone => SNotFound
                  | FFList pidx => check_list t pidx (list_at t pidx) a al ty mo end = SNotFound ->
                  match find_free_block t a with
                  | FFNone => True | FFList pidx => cov t a al ty mo pidx | FFPanic => False end).
  { intros E. destruct (find_free_block t a); [exact I|apply Hcl; auto|discriminate]. }
  destruct (Z.testbit strat 1).
  { (* MinTime *)
    destruct (find_free_block t (size_for_next_list a)) as [|nidx|] eqn:Hn; [| |discriminate].
    - intros Hq. apply of_sres_refused in Hq. apply orelse_nf in Hq. destruct Hq as (Hnull & Hp).
      apply Hall; [|eapply check_null_nf; eauto].
      apply (cover_from_parts t a al ty mo HI Hal Ha Hca Hcn); [rewrite Hn; exact I|].
      apply Hprev; exact Hp.
    - intros Hq. apply of_sres_refused in Hq.
      apply orelse_nf in Hq. destruct Hq as (_ & Hq).
      apply orelse_nf in Hq. destruct Hq as (Hnull & Hq).
      apply orelse_nf in Hq. destruct Hq as (Hnl & Hq).
      apply orelse_nf in Hq. destruct Hq as (Hp & Hfull).
      apply Hall; [|eapply check_null_nf; eauto].
      apply (cover_from_parts t a al ty mo HI Hal Ha Hca Hcn); [rewrite Hn|apply Hprev; exact Hp].
      split; [apply Hcl; auto|]. intros i Hi. pose proof (Hnpos _ eq_refl).
      eapply (full_search_cov t a al ty mo HT HI); eauto; unfold zlen; lia. }
  destruct (Z.testbit strat 0).
  { (* MinMemory *)
    destruct (find_free_block t a) as [|pidx|] eqn:Hp; [| |discriminate];
      intros Hq; apply of_sres_refused in Hq;
      apply orelse_nf in Hq; destruct Hq as (Hpl & Hq);
      apply orelse_nf in Hq; destruct Hq as (Hnull & Hq);
      (apply Hall; [|eapply check_null_nf; eauto]);
      (apply (cover_from_parts t a al ty mo HI Hal Ha Hca Hcn); [|rewrite Hp; auto]);
      destruct (find_free_block t (size_for_next_list a)) as [|nidx|] eqn:Hn; auto; try discriminate;
      apply orelse_nf in Hq; destruct Hq as (Hnl & Hfull);
      (split; [apply Hcl; auto|]); intros i Hi; pose proof (Hnpos _ eq_refl);
      eapply (full_search_cov t a al ty mo HT HI); eauto; unfold zlen; lia. }
  destruct (Z.testbit strat 2).
  { (* MinOffset *)
    intros Hq. apply of_sres_refused in Hq. apply orelse_nf in Hq. destruct Hq as (Hw & Hnull).
    apply Hall; [|eapply check_null_nf; eauto].
    intros b Hin Hbf. eapply (min_offset_walk_nf t a al ty mo HT HI Hal Ha (t_chain t) 0); eauto.
    - apply (g_chain _ (i_geom _ (proj1 HT))).
    - apply incl_refl. }
  (* default *)
  destruct (find_free_block t (size_for_next_list a)) as [|nidx|] eqn:Hn; [| |discriminate].
  - intros Hq. apply of_sres_refused in Hq.
    apply orelse_nf in Hq. destruct Hq as (_ & Hq).
    apply orelse_nf in Hq. destruct Hq as (Hnull & Hq).
    apply orelse_nf in Hq. destruct Hq as (Hp & _).
    apply Hall; [|eapply check_null_nf; eauto].
    apply (cover_from_parts t a al ty mo HI Hal Ha Hca Hcn); [rewrite Hn; exact I|].
    apply Hprev; exact Hp.
  - intros Hq. apply of_sres_refused in Hq.
    apply orelse_nf in Hq. destruct Hq as (Hnl & Hq).
    apply orelse_nf in Hq. destruct Hq as (Hnull & Hq).
    apply orelse_nf in Hq. destruct Hq as (Hp & Hfull).
    apply Hall; [|eapply check_null_nf; eauto].
    apply (cover_from_parts t a al ty mo HI Hal Ha Hca Hcn); [rewrite Hn|apply Hprev; exact Hp].
    split; [apply Hcl; auto|]. intros i Hi. pose proof (Hnpos _ eq_refl).
    eapply (full_search_cov t a al ty mo HT HI); eauto; unfold zlen; lia.
Qed.

(* ------------------------------------------------------------------ D: what checkBlock's verdict means *)

(* with a disabled handler (accept-all, or granularity <= 256) checkBlock fails exactly when the
   range cannot hold a bytes at a multiple of al below maxOffset *)
Theorem check_block_semantic t b li a al ty mo :
  enabled (t_gran t) = false -> pow2 al -> b_free b = true ->
  (check_block t b li a al ty mo = CBFail <->
   ~ exists off, b_off b <= off /\ off mod al = 0 /\ off + a <= b_off b + b_size b /\ off < mo).
Proof.
  intros Hdis Hal Hbf.
  pose proof (align_up_bounds (b_off b) al Hal) as ((Hlo & _) & Hmod).
  unfold check_block. rewrite Hbf. cbn [negb]. unfold check_conflict. rewrite Hdis. cbn [negb].
  destruct (Z.ltb_spec (b_size b) (a + align_up (b_off b) al - b_off b)) as [Hs|Hs].
  - split; [intros _|reflexivity]. intros (off & H1 & H2 & H3 & H4).
    pose proof (align_up_least (b_off b) al off Hal H1 H2). lia.
  - destruct (Z.leb_spec mo (align_up (b_off b) al)) as [Hm|Hm].
    + split; [intros _|reflexivity]. intros (off & H1 & H2 & H3 & H4).
      pose proof (align_up_least (b_off b) al off Hal H1 H2). lia.
    + split.
      * intros H. exfalso. destruct li as [idx|]; [destruct (_ || _)|]; discriminate.
      * intros H. exfalso. apply H. exists (align_up (b_off b) al). repeat split; auto; lia.
Qed.

(* every granted request lies below maxOffset *)
Theorem bounded_below_bound t size0 align0 upper ty strat mo t' r :
  create_request t size0 align0 upper ty strat mo = QGranted t' r -> rq_offset r < mo.
Proof.
  intros H. apply create_request_granted in H. destruct H as (_ & _ & b & li & Hc & _).
  apply check_block_spec in Hc. tauto.
Qed.

(* ------------------------------------------------------------------ D: MayHaveFreeBlock has no false negatives *)

Lemma round_up_size_align g ty size al1 al2 : fst (round_up g ty size al1) = fst (round_up g ty size al2).
Proof.
  unfold round_up. destruct (g_h g); [reflexivity|]. destruct (g_g g >? 1); [|reflexivity].
  destruct (_ || _); reflexivity.
Qed.

Lemma of_sres_not_error s : of_sres s <> QError.
Proof. destruct s; discriminate. Qed.

Lemma create_request_error t size align upper ty strat mo :
  create_request t size align upper ty strat mo = QError -> size < 1 \/ upper = true.
Proof.
  unfold create_request. destruct (Z.ltb_spec size 1); [auto|]. destruct upper; [auto|].
  destruct (round_up (t_gran t) ty size align) as [a al].
  destruct (sum_free_size t <? a); [discriminate|].
  destruct (t_free_count t =? 0).
  { destruct (_ && _); [discriminate|]. intros H'. apply of_sres_not_error in H'. destruct H'. }
  destruct (Z.testbit strat 1).
  { destruct (find_free_block t (size_for_next_list a)); try discriminate;
      intros H'; apply of_sres_not_error in H'; destruct H'. }
  destruct (Z.testbit strat 0).
  { destruct (find_free_block t a); try discriminate;
      intros H'; apply of_sres_not_error in H'; destruct H'. }
  destruct (Z.testbit strat 2).
  { intros H'; apply of_sres_not_error in H'; destruct H'. }
  destruct (find_free_block t (size_for_next_list a)); try discriminate;
    intros H'; apply of_sres_not_error in H'; destruct H'.
Qed.

Theorem may_have_sound t ty size align strat mo :
  TInv t -> Inv2 t -> pow2 align ->
  may_have_free t ty size = false ->
  create_request t size align false ty strat mo = QRefused.
Proof.
  intros HT HI Hal Hmay.
  pose proof (create_request_ok t size align false ty strat mo HT HI Hal) as Hok.
  pose proof (g_null_size _ (i_geom _ (proj1 HT))) as Hnsz.
  unfold may_have_free in Hmay.
  destruct (Z.leb_spec size (b_size (t_null t))) as [|Hnull]; [discriminate|].
  assert (Hs1 : 1 <= size) by lia.
  destruct (create_request t size align false ty strat mo) as [t' r| | |] eqn:Hcr; [exfalso|reflexivity| |destruct Hok].
  2:{ exfalso. apply create_request_error in Hcr. destruct Hcr; [lia|discriminate]. }
  destruct Hok as (_ & _ & b & li & Hcb & Hwhere).
  pose proof (round_up_spec (t_gran t) ty size align (proj2 HT) Hal) as Hru.
  rewrite (round_up_size_align (t_gran t) ty size align 1) in Hcb.
  destruct (round_up (t_gran t) ty size align) as [a0 al]. cbn [fst snd] in *.
  destruct Hru as (_ & Hpal & _).
  destruct (round_up (t_gran t) ty size 1) as [a al1] eqn:Hr1. cbn [fst] in Hcb.
  pose proof (round_up_spec (t_gran t) ty size 1 (proj2 HT) pow2_1) as Hru1. rewrite Hr1 in Hru1.
  destruct Hru1 as (Hsa & _).
  pose proof (check_block_inside _ _ _ _ _ _ _ _ _ Hpal (proj2 HT) Hcb) as (I1 & I2 & _).
  assert (Hbig : a <= b_size b) by lia.
  destruct Hwhere as [(_ & ->)|(idx & _ & Hin & Hbf & _)]; [lia|].
  destruct (Z.ltb_spec (t_free_size t) size) as [Hfs|Hfs].
  - pose proof (free_region_size_le t b (proj1 HT) HI (or_intror (conj Hin Hbf))) as Hle.
    unfold sum_free_size in Hle.
    (* b is one of the free chain blocks, so its size is at most their sum *)
    assert (Hle2 : b_size b <= t_free_size t).
    { rewrite (fl_fs _ _ _ _ _ _ _ (i2_fl _ HI)).
      assert (Hf : In b (frees (t_chain t))) by (apply frees_In; auto).
      pose proof (fl_wf _ _ _ _ _ _ _ (i2_fl _ HI)) as Hwf.
      clear - Hf Hwf. induction (frees (t_chain t)) as [|x l IH]; [destruct Hf|].
      inversion Hwf as [|? ? (_ & _ & Hx) Hwf']; subst. cbn [sum_sizes].
      assert (0 <= sum_sizes l).
      { clear - Hwf'. induction l as [|y l IH]; cbn; [lia|]. inversion Hwf' as [|? ? (_ & _ & Hy) H']; subst.
        specialize (IH H'). lia. }
      destruct Hf as [->|Hf]; [lia|]. specialize (IH Hf Hwf'). lia. }
    lia.
  - (* no outer bit at or above the class of the rounded size, yet b is free and at least as large *)
    pose proof (FLt_blk_size t b (i2_fl _ HI) Hin Hbf) as Hbs.
    pose proof (fl_size _ _ _ _ _ _ _ (i2_fl _ HI)) as Hts.
    pose proof (class_valid_pair (b_size b) ltac:(lia)) as Hvp.
    destruct (valid_pair_range _ _ Hvp) as (Hmc & Hsl).
    assert (Hbit : N.testbit (t_bitmap t) (Z.to_N (size_to_class (b_size b))) = true).
    { apply outer_bit; [apply (i2_fl _ HI)|lia|]. apply N_nonzero_bit.
      exists (size_to_sli (b_size b) (size_to_class (b_size b))). split; [lia|].
      apply inner_bit; [apply (i2_fl _ HI)|lia|lia|]. split; auto.
      rewrite list_of_size_unfold. intros E.
      pose proof (list_of_free t b (i2_fl _ HI) Hin Hbf) as Ho. rewrite E in Ho. destruct Ho. }
    pose proof (class_sli_nonneg a ltac:(lia)) as (Hca & _).
    pose proof (lowest_ge_spec (t_bitmap t) (size_to_class a) Hca) as Hl.
    destruct (lowest_ge (t_bitmap t) (size_to_class a)); [discriminate|].
    pose proof (size_to_class_mono a (b_size b) ltac:(lia) Hbig) as Hmono.
    rewrite (Hl (size_to_class (b_size b)) ltac:(lia)) in Hbit. discriminate.
Qed.

(* ------------------------------------------------------------------ D: MinOffset really yields the lowest offset *)

Lemma min_offset_walk_first t a al ty mo c o t' r :
  TInv t -> Inv2 t -> pow2 al -> 1 <= a ->
  chain_from o c -> incl c (t_chain t) ->
  min_offset_walk t c a al ty mo = SFound t' r ->
  exists pre b0 post, c = pre ++ b0 :: post /\ b_free b0 = true /\
    (exists li, check_block t b0 li a al ty mo = CBOk t' r) /\
    forall b, In b pre -> b_free b = true -> forall li, check_block t b li a al ty mo = CBFail.
Proof.
  intros HT HI Hal Ha. revert o; induction c as [|x c IH]; intros o Hch Hinc Hw; [discriminate|].
  cbn [chain_from] in Hch. destruct Hch as (Hxo & Hxs & Hc).
  assert (Hinc' : incl c (t_chain t)) by (intros y Hy; apply Hinc; right; auto).
  cbn [min_offset_walk] in Hw.
  destruct (mo <=? b_off x); [discriminate|].
  assert (Hrec : min_offset_walk t c a al ty mo = SFound t' r ->
                 (b_free x = true -> forall li, check_block t x li a al ty mo = CBFail) ->
                 exists pre b0 post, x :: c = pre ++ b0 :: post /\ b_free b0 = true /\
                   (exists li, check_block t b0 li a al ty mo = CBOk t' r) /\
                   forall b, In b pre -> b_free b = true -> forall li, check_block t b li a al ty mo = CBFail).
  { intros Hw' Hx. destruct (IH _ Hc Hinc' Hw') as (pre & b0 & post & -> & Hb0 & Hok & Hpre).
    exists (x :: pre), b0, post. split; [reflexivity|]. split; auto. split; auto.
    intros b [->|Hb] Hbf; auto. }
  destruct (b_free x) eqn:Hbf; cbn [andb] in Hw; [|apply Hrec; auto; discriminate].
  destruct (Z.leb_spec a (b_size x)).
  - destruct (check_block t x _ a al ty mo) eqn:Hcb; try discriminate.
    + apply Hrec; auto. intros _ li. eapply check_block_fail_any; eauto.
    + injection Hw as <- <-. exists [], x, c. split; [reflexivity|]. split; auto. split; [eauto|].
      intros b [].
  - apply Hrec; auto. intros _ li. apply check_block_too_small; auto; lia.
Qed.

Theorem min_offset_lowest t size0 align0 ty strat mo t' r :
  TInv t -> Inv2 t -> pow2 align0 ->
  Z.testbit strat 2 = true -> Z.testbit strat 1 = false -> Z.testbit strat 0 = false ->
  create_request t size0 align0 false ty strat mo = QGranted t' r ->
  forall f li t'' r'', free_region t f ->
    check_block t f li (fst (round_up (t_gran t) ty size0 align0)) (snd (round_up (t_gran t) ty size0 align0)) ty mo
    = CBOk t'' r'' ->
    rq_offset r <= rq_offset r''.
Proof.
  intros HT HI Hal0 H2 H1 H0. unfold create_request.
  destruct (Z.ltb_spec size0 1); [discriminate|].
  pose proof (round_up_spec (t_gran t) ty size0 align0 (proj2 HT) Hal0) as Hru.
  destruct (round_up (t_gran t) ty size0 align0) as [a al]. cbn [fst snd].
  destruct Hru as (Hsz & Hal & _).
  assert (Ha : 1 <= a) by lia.
  destruct (sum_free_size t <? a); [discriminate|].
  pose proof (proj1 HT) as Hinv. pose proof Hinv as [[Hch Hnoff Hnsz Htot Hnfree] _ _ _].
  (* the null block lies after every chain block *)
  assert (Hnull_case : forall tn rn, check_null t a al ty mo = SFound tn rn ->
             (forall b, In b (t_chain t) -> b_free b = true -> forall li, check_block t b li a al ty mo = CBFail) ->
             forall f li t'' r'', free_region t f -> check_block t f li a al ty mo = CBOk t'' r'' ->
                                  rq_offset rn <= rq_offset r'').
  { intros tn rn Hn Hchainfail f li t'' r'' [->|(Hin & Hbf)] Hf.
    - unfold check_null in Hn. destruct (check_block t (t_null t) None a al ty mo) eqn:Hc; try discriminate.
      injection Hn as <- <-. destruct (check_block_ok_any _ _ _ None _ _ _ _ _ _ Hf) as (t2 & r2 & E & <-).
      rewrite Hc in E. injection E as _ <-. lia.
    - rewrite (Hchainfail f Hin Hbf li) in Hf. discriminate. }
  destruct (Z.eqb_spec (t_free_count t) 0) as [Hfc|Hfc].
  { destruct (_ && _); [discriminate|]. intros Hq. apply of_sres_granted in Hq.
    apply (Hnull_case _ _ Hq). intros b Hin Hbf. exfalso.
    rewrite (fl_fc _ _ _ _ _ _ _ (i2_fl _ HI)) in Hfc.
    assert (In b (frees (t_chain t))) by (apply frees_In; auto).
    destruct (frees (t_chain t)); [auto|]. rewrite zlen_cons in Hfc. unfold zlen in Hfc. lia. }
  rewrite H1, H0, H2. intros Hq. apply of_sres_granted in Hq. apply orelse_found in Hq.
  destruct Hq as [Hw|(Hw & Hn)].
  - destruct (min_offset_walk_first t a al ty mo (t_chain t) 0 t' r HT HI Hal Ha Hch (incl_refl _) Hw)
      as (pre & b0 & post & Hc & Hb0 & (li0 & Hok) & Hpre).
    pose proof (check_block_inside _ _ _ _ _ _ _ _ _ Hal (proj2 HT) Hok) as (I1 & I2 & _).
    intros f li t'' r'' Hf Hcf.
    pose proof (check_block_inside _ _ _ _ _ _ _ _ _ Hal (proj2 HT) Hcf) as (J1 & J2 & _).
    rewrite Hc in Hch.
    destruct Hf as [->|(Hin & Hbf)].
    + (* the null block starts after b0 ends *)
      pose proof (chain_in_bounds _ _ b0 Hch ltac:(apply in_app_mid; auto)) as (_ & _ & Hend).
      rewrite <- Hc in Hend. lia.
    + rewrite Hc in Hin. apply in_app_mid in Hin. destruct Hin as [->|Hin].
      * destruct (check_block_ok_any _ _ _ li0 _ _ _ _ _ _ Hcf) as (t2 & r2 & E & <-).
        rewrite Hok in E. injection E as _ <-. lia.
      * apply in_app_iff in Hin. destruct Hin as [Hin|Hin].
        -- rewrite (Hpre f Hin Hbf li) in Hcf. discriminate.
        -- pose proof (chain_split_order _ _ _ _ b0 f Hch) as Hord.
           assert (Hord' : forall x, In x post -> b_off b0 + b_size b0 <= b_off x).
           { intros x Hx. apply chain_from_app in Hch. destruct Hch as (_ & Hq). cbn [chain_from] in Hq.
             destruct Hq as (Ho0 & Hs0 & Hpost). pose proof (chain_in_bounds _ _ _ Hpost Hx). lia. }
           specialize (Hord' f Hin). lia.
  - apply (Hnull_case _ _ Hn).
    intros b Hin Hbf. eapply (min_offset_walk_nf t a al ty mo HT HI Hal Ha (t_chain t) 0); eauto. apply incl_refl.
Qed.
