(* Tlsf.v — executable model of memutils/metadata/tlsf.go (default build, DebugMargin = 0).

   Representation.  The physical chain is a list of blocks in ascending offset order WITHOUT the
   null block, which is kept separately (Go: m.nullBlock; m.tailBlock is the first block of
   chain ++ [null]).  Go identifies blocks by pointer; every non-null block has positive size, so
   within one state the offset identifies a block, and a taken block never changes its offset
   while it is live.  The model therefore uses the offset as the block's identity and as the
   allocation handle.  Free lists hold offsets, head first, exactly in Go's list order (including
   the move-to-front done by checkBlock).  Both bitmaps and the three running counters are
   explicit state, updated the way the Go code updates them (uint32 truncation included).
   Every Go panic site inside the modelled functions is an explicit RPanic outcome. *)
From Coq Require Import ZArith NArith List Bool Lia.
From Arsenal Require Import Util Gran.
Import ListNotations.
Open Scope Z_scope.

(* ---------------------------------------------------------------- size classes *)

Definition size_to_class (s : Z) : Z := if s >? 256 then Z.log2 s - 7 else 0.

Definition size_to_sli (s mc : Z) : Z :=
  if mc =? 0 then Z.quot (s - 1) 64
  else (Z.lxor (Z.shiftr s (mc + 2)) 32) mod 65536.

Definition list_index (mc sli : Z) : Z :=
  if mc =? 0 then sli else (mc - 1) * 32 + sli + 4.

Definition list_of_size (s : Z) : Z :=
  let mc := size_to_class s in list_index mc (size_to_sli s mc).

Definition size_for_next_list (s : Z) : Z :=
  if s >? 256 then s + 2 ^ (Z.log2 s - 5)
  else if s >? 192 then 257
  else s + 64.

Definition list_count (size : Z) : Z :=
  let mc := size_to_class size in
  let sli := size_to_sli size mc in
  (if mc =? 0 then 1 else (mc - 1) * 32 + (sli + 1)) + 4.

(* ---------------------------------------------------------------- uint32 bitmaps *)

(* lowest set bit i with k <= i < 32; models  TrailingZeros(bm & (MaxUint32 << k)) on uint32 *)
Fixpoint lowest_from (bm : N) (i : nat) (fuel : nat) : option nat :=
  match fuel with
  | O => None
  | S f => if N.testbit bm (N.of_nat i) then Some i else lowest_from bm (S i) f
  end.

Definition lowest_ge (bm : N) (k : Z) : option Z :=
  if k <? 0 then None else
  if 32 <=? k then None else
  match lowest_from bm (Z.to_nat k) (32 - Z.to_nat k) with
  | Some i => Some (Z.of_nat i)
  | None => None
  end.

Definition set_bit32 (bm : N) (i : Z) : N :=
  if (0 <=? i) && (i <? 32) then N.setbit bm (Z.to_N i) else bm.
Definition clear_bit32 (bm : N) (i : Z) : N :=
  if (0 <=? i) && (i <? 32) then N.clearbit bm (Z.to_N i) else bm.

(* ---------------------------------------------------------------- state *)

Record blk := mkBlk {
  b_off : Z;
  b_size : Z;
  b_free : bool;            (* Go: IsFree() *)
  b_tag : option Z;         (* user data; None = nil *)
  (* ghost fields (do not influence behaviour): what was requested for this allocation *)
  b_kind : Z;
  b_reqsize : Z;
  b_reqalign : Z
}.

Definition set_blk (b : blk) (off size : Z) (free : bool) (tag : option Z) : blk :=
  mkBlk off size free tag (b_kind b) (b_reqsize b) (b_reqalign b).

Definition free_blk (off size : Z) : blk := mkBlk off size true None 0 0 1.

Record tlsf := mkT {
  t_size : Z;
  t_gran : gran;
  t_chain : list blk;
  t_null : blk;
  t_lists : list (list Z);
  t_bitmap : N;
  t_inner : list N;
  t_alloc_count : Z;
  t_free_count : Z;
  t_free_size : Z
}.

Definition max_memory_classes : nat := 58.

Definition tlsf_init (h : handler) (gr size : Z) : tlsf :=
  mkT size (gran_init h gr size) [] (free_blk 0 size)
      (repeat [] (Z.to_nat (list_count size))) 0%N (repeat 0%N max_memory_classes) 0 0 0.

(* ---------------------------------------------------------------- chain helpers *)

Fixpoint find_blk (off : Z) (c : list blk) : option blk :=
  match c with
  | [] => None
  | b :: bs => if b_off b =? off then Some b else find_blk off bs
  end.

Fixpoint prev_aux (off : Z) (p : option blk) (c : list blk) : option blk :=
  match c with
  | [] => None
  | b :: bs => if b_off b =? off then p else prev_aux off (Some b) bs
  end.

(* physical predecessor of the block at offset off *)
Definition prev_blk (off : Z) (c : list blk) : option blk := prev_aux off None c.

Fixpoint next_blk (off : Z) (c : list blk) : option blk :=
  match c with
  | [] => None
  | b :: rest => if b_off b =? off then hd_error rest else next_blk off rest
  end.

Fixpoint replace_blk (off : Z) (nb : blk) (c : list blk) : list blk :=
  match c with
  | [] => []
  | b :: bs => if b_off b =? off then nb :: bs else b :: replace_blk off nb bs
  end.

Fixpoint remove_blk (off : Z) (c : list blk) : list blk :=
  match c with
  | [] => []
  | b :: bs => if b_off b =? off then bs else b :: remove_blk off bs
  end.

(* insert nb immediately before the block at offset off *)
Fixpoint insert_before (off : Z) (nb : blk) (c : list blk) : list blk :=
  match c with
  | [] => []
  | b :: bs => if b_off b =? off then nb :: b :: bs else b :: insert_before off nb bs
  end.

Fixpoint insert_after (off : Z) (nb : blk) (c : list blk) : list blk :=
  match c with
  | [] => []
  | b :: bs => if b_off b =? off then b :: nb :: bs else b :: insert_after off nb bs
  end.

Definition last_blk (c : list blk) : option blk := hd_error (rev c).

Definition sum_free_size (t : tlsf) : Z := t_free_size t + b_size (t_null t).

(* ---------------------------------------------------------------- free-list maintenance *)

Definition set_lists (t : tlsf) (l : list (list Z)) (bm : N) (inner : list N) (fc fs : Z) (c : list blk) : tlsf :=
  mkT (t_size t) (t_gran t) c (t_null t) l bm inner (t_alloc_count t) fc fs.

Definition list_at (t : tlsf) (idx : Z) : list Z :=
  if idx <? 0 then [] else nth (Z.to_nat idx) (t_lists t) [].

(* Go: removeFreeBlock.  b must be a chain block (not the null block). None = panic *)
Definition remove_free_block (t : tlsf) (b : blk) : option tlsf :=
  if negb (b_free b) then None else
  let mc := size_to_class (b_size b) in
  let sli := size_to_sli (b_size b) mc in
  let idx := list_index mc sli in
  let l := list_at t idx in
  let taken := set_blk b (b_off b) (b_size b) false None in
  let chain' := replace_blk (b_off b) taken (t_chain t) in
  match l with
  | [] => None
  | h :: rest =>
    if h =? b_off b then
      (* head of its list: Go re-derives the index and checks freeList[index] == block *)
      if (idx <? 0) || (zlen (t_lists t) <=? idx) then None else
      let lists' := update_nth (Z.to_nat idx) (fun _ => rest) (t_lists t) in
      let '(bm', inner') :=
        match rest with
        | [] =>
          if (mc <? 0) || (Z.of_nat max_memory_classes <=? mc) then (t_bitmap t, t_inner t) else
          let in0 := nth (Z.to_nat mc) (t_inner t) 0%N in
          let in1 := clear_bit32 in0 sli in
          let inner1 := update_nth (Z.to_nat mc) (fun _ => in1) (t_inner t) in
          ((if N.eqb in1 0 then clear_bit32 (t_bitmap t) mc else t_bitmap t), inner1)
        | _ => (t_bitmap t, t_inner t)
        end in
      Some (set_lists t lists' bm' inner' (t_free_count t - 1) (t_free_size t - b_size b) chain')
    else if mem_z (b_off b) rest then
      let lists' := update_nth (Z.to_nat idx) (fun _ => h :: remove_z (b_off b) rest) (t_lists t) in
      Some (set_lists t lists' (t_bitmap t) (t_inner t) (t_free_count t - 1) (t_free_size t - b_size b) chain')
    else None   (* not in its list: impossible under the invariant; Go would corrupt pointers *)
  end.

(* Go: insertFreeBlock.  b is a chain block currently marked taken; its (off,size) are final *)
Definition insert_free_block (t : tlsf) (b : blk) : option tlsf :=
  if b_free b then None else
  let mc := size_to_class (b_size b) in
  let sli := size_to_sli (b_size b) mc in
  let idx := list_index mc sli in
  if (idx <? 0) || (zlen (t_lists t) <=? idx) then None else
  let l := list_at t idx in
  let lists' := update_nth (Z.to_nat idx) (fun _ => b_off b :: l) (t_lists t) in
  (* ghost fields are reset: a free block stands for no request *)
  let freeb := mkBlk (b_off b) (b_size b) true None 0 0 1 in
  let chain' := replace_blk (b_off b) freeb (t_chain t) in
  let '(bm', inner') :=
    match l with
    | [] =>
      if (mc <? 0) || (Z.of_nat max_memory_classes <=? mc) then (t_bitmap t, t_inner t) else
      let in0 := nth (Z.to_nat mc) (t_inner t) 0%N in
      (set_bit32 (t_bitmap t) mc, update_nth (Z.to_nat mc) (fun _ => set_bit32 in0 sli) (t_inner t))
    | _ => (t_bitmap t, t_inner t)
    end in
  Some (set_lists t lists' bm' inner' (t_free_count t + 1) (t_free_size t + b_size b) chain').

(* ---------------------------------------------------------------- search *)

Inductive ffres := FFNone | FFList (idx : Z) | FFPanic.

(* Go: findFreeBlock *)
Definition find_free_block (t : tlsf) (size : Z) : ffres :=
  let mc := size_to_class size in
  let sli := size_to_sli size mc in
  let finish (mc' : Z) (s : Z) : ffres :=
    let idx := list_index mc' s in
    match list_at t idx with
    | [] => FFPanic
    | _ => FFList idx
    end in
  if (mc <? 0) || (Z.of_nat max_memory_classes <=? mc) then FFPanic else
  match lowest_ge (nth (Z.to_nat mc) (t_inner t) 0%N) sli with
  | Some s => finish mc s
  | None =>
    match lowest_ge (t_bitmap t) (mc + 1) with
    | None => FFNone
    | Some mc' =>
      match lowest_ge (nth (Z.to_nat mc') (t_inner t) 0%N) 0 with
      | None => FFPanic
      | Some s => finish mc' s
      end
    end
  end.

Record request := mkReq {
  rq_block : Z;        (* offset of the free block (or null block) chosen *)
  rq_is_null : bool;
  rq_offset : Z;       (* AlgorithmData: final aligned offset *)
  rq_size : Z;
  rq_type : Z
}.

Inductive cbres := CBFail | CBOk (t' : tlsf) (r : request) | CBPanic.

Definition move_to_front (off : Z) (l : list Z) : list Z :=
  match l with
  | [] => []
  | h :: _ => if h =? off then l else off :: remove_z off l
  end.

(* Go: checkBlock.  listIdx = None for the null block *)
Definition check_block (t : tlsf) (b : blk) (listIdx : option Z) (allocSize align atype maxOffset : Z) : cbres :=
  if negb (b_free b) then CBPanic else
  let aligned := align_up (b_off b) align in
  if b_size b <? allocSize + aligned - b_off b then CBFail else
  match check_conflict (t_gran t) aligned allocSize (b_off b) (b_size b) atype with
  | None => CBPanic
  | Some (aligned', true) => CBFail
  | Some (aligned', false) =>
    if maxOffset <=? aligned' then CBFail else
    let r := mkReq (b_off b) (match listIdx with None => true | Some _ => false end) aligned' allocSize atype in
    match listIdx with
    | None => CBOk t r
    | Some idx =>
      if (idx <? 0) || (zlen (t_lists t) <=? idx) then CBOk t r else
      let lists' := update_nth (Z.to_nat idx) (move_to_front (b_off b)) (t_lists t) in
      CBOk (set_lists t lists' (t_bitmap t) (t_inner t) (t_free_count t) (t_free_size t) (t_chain t)) r
    end
  end.

Inductive sres := SFound (t' : tlsf) (r : request) | SNotFound | SPanic.

(* iterate a free list (by offsets) calling check_block on each block in order *)
Fixpoint check_list (t : tlsf) (idx : Z) (offs : list Z) (allocSize align atype maxOffset : Z) : sres :=
  match offs with
  | [] => SNotFound
  | o :: rest =>
    match find_blk o (t_chain t) with
    | None => SPanic
    | Some b =>
      match check_block t b (Some idx) allocSize align atype maxOffset with
      | CBPanic => SPanic
      | CBOk t' r => SFound t' r
      | CBFail => check_list t idx rest allocSize align atype maxOffset
      end
    end
  end.

Definition check_null (t : tlsf) (allocSize align atype maxOffset : Z) : sres :=
  match check_block t (t_null t) None allocSize align atype maxOffset with
  | CBPanic => SPanic
  | CBOk t' r => SFound t' r
  | CBFail => SNotFound
  end.

(* full search: lists idx, idx+1, ... up to the end *)
Fixpoint full_search (t : tlsf) (idx : Z) (fuel : nat) (allocSize align atype maxOffset : Z) : sres :=
  match fuel with
  | O => SNotFound
  | S f =>
    if zlen (t_lists t) <=? idx then SNotFound else
    match check_list t idx (list_at t idx) allocSize align atype maxOffset with
    | SNotFound => full_search t (idx + 1) f allocSize align atype maxOffset
    | r => r
    end
  end.

(* Go: minOffsetCheckBlocks — walk the physical chain from the tail block *)
Fixpoint min_offset_walk (t : tlsf) (c : list blk) (allocSize align atype maxOffset : Z) : sres :=
  match c with
  | [] => SNotFound
  | b :: rest =>
    if maxOffset <=? b_off b then SNotFound else
    if b_free b && (allocSize <=? b_size b) then
      match check_block t b (Some (list_of_size (b_size b))) allocSize align atype maxOffset with
      | CBPanic => SPanic
      | CBOk t' r => SFound t' r
      | CBFail => min_offset_walk t rest allocSize align atype maxOffset
      end
    else min_offset_walk t rest allocSize align atype maxOffset
  end.

Definition orelse (a : sres) (b : unit -> sres) : sres :=
  match a with SNotFound => b tt | _ => a end.

Inductive reqres := QGranted (t' : tlsf) (r : request) | QRefused | QError | QPanic.

Definition of_sres (s : sres) : reqres :=
  match s with SFound t r => QGranted t r | SNotFound => QRefused | SPanic => QPanic end.

(* helpers mirroring the "for nextListBlock != nil" loops *)
Definition list_of (t : tlsf) (f : ffres) : option (Z * list Z) :=
  match f with FFList idx => Some (idx, list_at t idx) | _ => None end.

(* Go: CreateAllocationRequest *)
Definition create_request (t : tlsf) (allocSize0 align0 : Z) (upper : bool) (atype strategy maxOffset : Z) : reqres :=
  if allocSize0 <? 1 then QError else
  if upper then QError else
  let '(allocSize, align) := round_up (t_gran t) atype allocSize0 align0 in
  if sum_free_size t <? allocSize then QRefused else
  if t_free_count t =? 0 then
    if Z.testbit strategy 2 && (maxOffset <? b_off (t_null t)) then QRefused
    else of_sres (check_null t allocSize align atype maxOffset)
  else
  let next_size := size_for_next_list allocSize in
  let chk idx offs := check_list t idx offs allocSize align atype maxOffset in
  let nullc := fun _ : unit => check_null t allocSize align atype maxOffset in
  let full (nextIdx : Z) :=
      full_search t (nextIdx + 1) (length (t_lists t)) allocSize align atype maxOffset in
  if Z.testbit strategy 1 then
    (* MinTime *)
    match find_free_block t next_size with
    | FFPanic => QPanic
    | FFNone =>
      (* no larger block: null block, then best-fit bucket; no full search *)
      match orelse (nullc tt) (fun _ =>
              match find_free_block t allocSize with
              | FFPanic => SPanic
              | FFNone => SNotFound
              | FFList pidx => chk pidx (list_at t pidx)
              end) with
      | r => of_sres r
      end
    | FFList nidx =>
      let nl := list_at t nidx in
      of_sres
        (orelse (chk nidx (firstn 1 nl)) (fun _ =>
         orelse (nullc tt) (fun _ =>
         orelse (chk nidx nl) (fun _ =>
         orelse (match find_free_block t allocSize with
                 | FFPanic => SPanic
                 | FFNone => SNotFound
                 | FFList pidx => chk pidx (list_at t pidx)
                 end) (fun _ => full nidx)))))
    end
  else if Z.testbit strategy 0 then
    (* MinMemory *)
    match find_free_block t allocSize with
    | FFPanic => QPanic
    | pf =>
      of_sres
        (orelse (match pf with FFList pidx => chk pidx (list_at t pidx) | _ => SNotFound end) (fun _ =>
         orelse (nullc tt) (fun _ =>
           match find_free_block t next_size with
           | FFPanic => SPanic
           | FFNone => SNotFound
           | FFList nidx => orelse (chk nidx (list_at t nidx)) (fun _ => full nidx)
           end)))
    end
  else if Z.testbit strategy 2 then
    (* MinOffset *)
    of_sres (orelse (min_offset_walk t (t_chain t) allocSize align atype maxOffset) nullc)
  else
    (* default *)
    match find_free_block t next_size with
    | FFPanic => QPanic
    | nf =>
      of_sres
        (orelse (match nf with FFList nidx => chk nidx (list_at t nidx) | _ => SNotFound end) (fun _ =>
         orelse (nullc tt) (fun _ =>
         orelse (match find_free_block t allocSize with
                 | FFPanic => SPanic
                 | FFNone => SNotFound
                 | FFList pidx => chk pidx (list_at t pidx)
                 end) (fun _ =>
           match nf with FFList nidx => full nidx | _ => SNotFound end))))
    end.

(* ---------------------------------------------------------------- Alloc *)

Inductive allocres := AOk (t' : tlsf) (handle : Z) | AError | APanic.

Definition with_chain (t : tlsf) (c : list blk) : tlsf :=
  mkT (t_size t) (t_gran t) c (t_null t) (t_lists t) (t_bitmap t) (t_inner t)
      (t_alloc_count t) (t_free_count t) (t_free_size t).

Definition with_null (t : tlsf) (n : blk) : tlsf :=
  mkT (t_size t) (t_gran t) (t_chain t) n (t_lists t) (t_bitmap t) (t_inner t)
      (t_alloc_count t) (t_free_count t) (t_free_size t).

Definition with_free_size (t : tlsf) (fs : Z) : tlsf :=
  mkT (t_size t) (t_gran t) (t_chain t) (t_null t) (t_lists t) (t_bitmap t) (t_inner t)
      (t_alloc_count t) (t_free_count t) fs.

Definition bind_t (o : option tlsf) (f : tlsf -> allocres) : allocres :=
  match o with None => APanic | Some t => f t end.

(* padding: give `missing` bytes in front of the current block to the previous block or to a
   new free block.  pad_off is the offset where the padding starts (the current block's old
   offset); the current block has already been moved to cur_off = pad_off + missing. *)
Definition pad_front (t : tlsf) (prev : option blk) (pad_off cur_off missing : Z) (cur_is_null : bool)
  : option (option tlsf) :=   (* None = error; Some None = panic *)
  match prev with
  | None => None
  | Some p =>
    if b_free p && negb (b_size p =? 0) then
      let old_idx := list_of_size (b_size p) in
      let grown := set_blk p (b_off p) (b_size p + missing) (b_free p) (b_tag p) in
      if negb (old_idx =? list_of_size (b_size p + missing)) then
        match remove_free_block t p with
        | None => Some None
        | Some t1 =>
          let taken_grown := set_blk p (b_off p) (b_size p + missing) false None in
          let t2 := with_chain t1 (replace_blk (b_off p) taken_grown (t_chain t1)) in
          Some (insert_free_block t2 taken_grown)
        end
      else
        Some (Some (with_free_size (with_chain t (replace_blk (b_off p) grown (t_chain t))) (t_free_size t + missing)))
    else
      let nb := mkBlk pad_off missing false None 0 0 1 in
      let c1 := if cur_is_null then t_chain t ++ [nb] else insert_before cur_off nb (t_chain t) in
      Some (insert_free_block (with_chain t c1) nb)
  end.

(* Go: Alloc(req, suballocType, userData) *)
Definition alloc (t : tlsf) (r : request) (tag : option Z) (reqsize reqalign : Z) : allocres :=
  let offset := rq_offset r in
  let size := rq_size r in
  let mk_taken (off sz : Z) := mkBlk off sz false tag (rq_type r) reqsize reqalign in
  let finish (t1 : tlsf) (off sz : Z) : allocres :=
    match alloc_regions (t_gran t1) (rq_type r) off sz with
    | None => APanic
    | Some g' =>
      AOk (mkT (t_size t1) g' (t_chain t1) (t_null t1) (t_lists t1) (t_bitmap t1) (t_inner t1)
               (t_alloc_count t1 + 1) (t_free_count t1) (t_free_size t1)) off
    end in
  if rq_is_null r then
    let cur := t_null t in
    if offset <? b_off cur then AError else
    let missing := offset - b_off cur in
    let padded : option (option tlsf) :=
      if missing =? 0 then Some (Some t)
      else pad_front t (last_blk (t_chain t)) (b_off cur) (b_off cur + missing) missing true in
    match padded with
    | None => AError
    | Some None => APanic
    | Some (Some t1) =>
      let cur_off := b_off cur + missing in
      let cur_size := b_size cur - missing in
      if cur_size =? size then
        let t2 := with_chain t1 (t_chain t1 ++ [mk_taken cur_off size]) in
        finish (with_null t2 (free_blk (cur_off + size) 0)) cur_off size
      else if cur_size <? size then AError
      else
        let t2 := with_chain t1 (t_chain t1 ++ [mk_taken cur_off size]) in
        finish (with_null t2 (free_blk (cur_off + size) (cur_size - size))) cur_off size
    end
  else
    match find_blk (rq_block r) (t_chain t) with
    | None => APanic
    | Some cur =>
      if offset <? b_off cur then AError else
      bind_t (remove_free_block t cur) (fun t0 =>
      let missing := offset - b_off cur in
      let cur_off := b_off cur + missing in
      let cur_size := b_size cur - missing in
      (* the current block shrinks from the front: currentBlock.size -= missing; offset += missing *)
      let moved := mkBlk cur_off cur_size false None (b_kind cur) (b_reqsize cur) (b_reqalign cur) in
      let t0' := with_chain t0 (replace_blk (b_off cur) moved (t_chain t0)) in
      let padded : option (option tlsf) :=
        if missing =? 0 then Some (Some t0')
        else pad_front t0' (prev_blk cur_off (t_chain t0')) (b_off cur) cur_off missing false in
      match padded with
      | None => AError
      | Some None => APanic
      | Some (Some t1) =>
        if cur_size =? size then
          finish (with_chain t1 (replace_blk cur_off (mk_taken cur_off size) (t_chain t1))) cur_off size
        else if cur_size <? size then AError
        else
          let c1 := replace_blk cur_off (mk_taken cur_off size) (t_chain t1) in
          let nb := mkBlk (cur_off + size) (cur_size - size) false None 0 0 1 in
          let c2 := insert_after cur_off nb c1 in
          bind_t (insert_free_block (with_chain t1 c2) nb) (fun t3 => finish t3 cur_off size)
      end)
    end.

(* ---------------------------------------------------------------- Free *)

Inductive freeres := FOk (t' : tlsf) | FError | FPanic.

Definition bind_f (o : option tlsf) (f : tlsf -> freeres) : freeres :=
  match o with None => FPanic | Some t => f t end.

(* merge the block being freed with a free physical predecessor *)
Definition free_merge_prev (t0 : tlsf) (b : blk) : option (tlsf * blk) :=
  match prev_blk (b_off b) (t_chain t0) with
  | Some p =>
    if b_free p && negb (b_size p =? 0) then
      match remove_free_block t0 p with
      | None => None
      | Some t1 =>
        let merged := set_blk b (b_off p) (b_size b + b_size p) false (b_tag b) in
        Some (with_chain t1 (replace_blk (b_off b) merged (remove_blk (b_off p) (t_chain t1))), merged)
      end
    else Some (t0, b)
  | None => Some (t0, b)
  end.

(* then with the physical successor: taken -> insert; null block -> absorbed; free -> merged *)
Definition free_merge_next (t1 : tlsf) (blk1 : blk) : freeres :=
  match next_blk (b_off blk1) (t_chain t1) with
  | None =>
    let n := t_null t1 in
    FOk (with_null (with_chain t1 (remove_blk (b_off blk1) (t_chain t1)))
                   (set_blk n (b_off blk1) (b_size n + b_size blk1) true (b_tag n)))
  | Some nx =>
    if negb (b_free nx) then
      bind_f (insert_free_block t1 blk1) FOk
    else
      bind_f (remove_free_block t1 nx) (fun t2 =>
        let merged := set_blk nx (b_off blk1) (b_size nx + b_size blk1) false None in
        let c := replace_blk (b_off nx) merged (remove_blk (b_off blk1) (t_chain t2)) in
        bind_f (insert_free_block (with_chain t2 c) merged) FOk)
  end.

Definition tlsf_free (t : tlsf) (handle : Z) : freeres :=
  match find_blk handle (t_chain t) with
  | None => FError
  | Some b0 =>
    if b_free b0 then FError else
    match free_regions (t_gran t) (b_off b0) (b_size b0) with
    | None => FPanic
    | Some g' =>
      (* ghost: the allocation ends here, its request fields are reset *)
      let b := mkBlk (b_off b0) (b_size b0) false (b_tag b0) 0 0 1 in
      let t0 := mkT (t_size t) g' (replace_blk (b_off b0) b (t_chain t)) (t_null t) (t_lists t) (t_bitmap t) (t_inner t)
                    (t_alloc_count t - 1) (t_free_count t) (t_free_size t) in
      match free_merge_prev t0 b with
      | None => FPanic
      | Some (t1, blk1) => free_merge_next t1 blk1
      end
    end
  end.

(* ---------------------------------------------------------------- Clear, user data *)

Definition tlsf_clear (t : tlsf) : tlsf :=
  mkT (t_size t) (gran_clear (t_gran t)) [] (set_blk (t_null t) 0 (t_size t) true (b_tag (t_null t)))
      (repeat [] (length (t_lists t))) 0%N (repeat 0%N max_memory_classes) 0 0 0.

Definition get_user_data (t : tlsf) (handle : Z) : option (option Z) :=
  match find_blk handle (t_chain t) with
  | Some b => if b_free b then None else Some (b_tag b)
  | None => None
  end.

Definition set_user_data (t : tlsf) (handle : Z) (tag : option Z) : option tlsf :=
  match find_blk handle (t_chain t) with
  | Some b =>
    if b_free b then None
    else Some (with_chain t (replace_blk handle (set_blk b (b_off b) (b_size b) false tag) (t_chain t)))
  | None => None
  end.

(* ---------------------------------------------------------------- observers *)

Definition allocation_count (t : tlsf) : Z := t_alloc_count t.
Definition is_empty (t : tlsf) : bool := b_off (t_null t) =? 0.
Definition free_regions_count (t : tlsf) : Z :=
  t_free_count t + (if b_size (t_null t) >? 0 then 1 else 0).

Definition may_have_free (t : tlsf) (atype size : Z) : bool :=
  if size <=? b_size (t_null t) then true else
  if t_free_size t <? size then false else
  let '(rounded, _) := round_up (t_gran t) atype size 1 in
  let mc := size_to_class rounded in
  match lowest_ge (t_bitmap t) mc with Some _ => true | None => false end.

(* regions in ascending order, null block last (Go visits from the null block backwards) *)
Definition regions (t : tlsf) : list blk := t_chain t ++ [t_null t].

(* iteration order of AllocationListBegin / FindNextAllocation: taken blocks, high offset first *)
Definition iterate (t : tlsf) : list Z :=
  map b_off (filter (fun b => negb (b_free b)) (rev (t_chain t))).

Definition live (t : tlsf) : list blk := filter (fun b => negb (b_free b)) (t_chain t).

Record stats := mkStats { s_blocks : Z; s_allocs : Z; s_block_bytes : Z; s_alloc_bytes : Z }.
Record dstats := mkDStats {
  d_stats : stats; d_unused_count : Z;
  d_alloc_min : option Z; d_alloc_max : Z; d_unused_min : option Z; d_unused_max : Z }.

Definition add_statistics (t : tlsf) : stats :=
  mkStats 1 (t_alloc_count t) (t_size t) (t_size t - sum_free_size t).

Definition omin (a : option Z) (x : Z) : option Z :=
  match a with None => Some x | Some y => Some (if x <? y then x else y) end.

Definition d_add_unused (d : dstats) (sz : Z) : dstats :=
  mkDStats (d_stats d) (d_unused_count d + 1) (d_alloc_min d) (d_alloc_max d)
           (omin (d_unused_min d) sz) (if d_unused_max d <? sz then sz else d_unused_max d).
Definition d_add_alloc (d : dstats) (sz : Z) : dstats :=
  let s := d_stats d in
  mkDStats (mkStats (s_blocks s) (s_allocs s + 1) (s_block_bytes s) (s_alloc_bytes s + sz))
           (d_unused_count d) (omin (d_alloc_min d) sz) (if d_alloc_max d <? sz then sz else d_alloc_max d)
           (d_unused_min d) (d_unused_max d).

Definition add_detailed_statistics (t : tlsf) : dstats :=
  let d0 := mkDStats (mkStats 1 0 (t_size t) 0) 0 None 0 None 0 in
  let d1 := if b_size (t_null t) >? 0 then d_add_unused d0 (b_size (t_null t)) else d0 in
  fold_left (fun d b => if b_free b then d_add_unused d (b_size b) else d_add_alloc d (b_size b))
            (rev (t_chain t)) d1.

(* Go: Validate.  Some true = nil, Some false = error, None = panic *)
Definition count_list_ok (t : tlsf) (l : list Z) : bool * Z :=
  fold_left (fun acc o =>
               match find_blk o (t_chain t) with
               | Some b => (fst acc && b_free b, snd acc + 1)
               | None => (false, snd acc + 1)
               end) l (true, 0).

Definition validate (t : tlsf) : option bool :=
  if t_size t <? sum_free_size t then Some false else
  let lists_res := fold_left (fun acc l => let r := count_list_ok t l in (fst acc && fst r, snd acc + snd r))
                             (t_lists t) (true, 0) in
  if negb (fst lists_res) then Some false else
  (* walk the chain backwards from the null block *)
  let walk := fold_left
    (fun acc b =>
       let '(ok, next_off, csize, cfree, nalloc, nfree) := acc in
       (ok && (b_off b + b_size b =? next_off), b_off b, csize + b_size b,
        (if b_free b then cfree + b_size b else cfree),
        (if b_free b then nalloc else nalloc + 1),
        (if b_free b then nfree + 1 else nfree)))
    (rev (t_chain t))
    (true, b_off (t_null t), b_size (t_null t), b_size (t_null t), 0, 0) in
  let '(ok, next_off, csize, cfree, nalloc, nfree) := walk in
  match gran_validate (t_gran t) (map (fun b => (b_off b, b_size b)) (live t)) with
  | None => None
  | Some gok =>
    Some (ok && gok && (snd lists_res =? nfree) && (next_off =? 0) && (csize =? t_size t)
          && (cfree =? sum_free_size t) && (nalloc =? t_alloc_count t) && (nfree =? t_free_count t))
  end.

(* ---------------------------------------------------------------- one-step interface *)

Inductive op :=
| OAlloc (size align atype strategy : Z) (upper : bool) (maxOffset : Z) (tag : option Z)
| ORequest (size align atype strategy : Z) (upper : bool) (maxOffset : Z)
| OFree (handle : Z)
| OSetUD (handle : Z) (tag : option Z)
| OClear
| OMayHave (atype size : Z).

Record outcome := mkOut { o_kind : rkind; o_off : Z; o_size : Z }.

Definition out (k : rkind) := mkOut k 0 0.

Definition step (t : tlsf) (o : op) : tlsf * outcome :=
  match o with
  | OAlloc size align atype strategy upper maxOffset tag =>
    match create_request t size align upper atype strategy maxOffset with
    | QError => (t, out RError)
    | QRefused => (t, out RRefused)
    | QPanic => (t, out RPanic)
    | QGranted t1 r =>
      match alloc t1 r tag size align with
      | AOk t2 h => (t2, mkOut ROk h (rq_size r))
      | AError => (t, out RError)
      | APanic => (t, out RPanic)
      end
    end
  | ORequest size align atype strategy upper maxOffset =>
    match create_request t size align upper atype strategy maxOffset with
    | QError => (t, out RError)
    | QRefused => (t, out RRefused)
    | QPanic => (t, out RPanic)
    | QGranted t1 r => (t1, mkOut ROk (rq_offset r) (rq_size r))
    end
  | OFree h =>
    match tlsf_free t h with
    | FOk t1 => (t1, out ROk)
    | FError => (t, out RError)
    | FPanic => (t, out RPanic)
    end
  | OSetUD h tag =>
    match set_user_data t h tag with
    | Some t1 => (t1, out ROk)
    | None => (t, out RError)
    end
  | OClear => (tlsf_clear t, out ROk)
  | OMayHave atype size => (t, mkOut ROk (if may_have_free t atype size then 1 else 0) 0)
  end.
