(* VamDefragErr.v — C10 for the four defragmentation entry points: which of them can return an error, and what a call
   that returns an error leaves behind.

   no_error_after_begin   BeginDefragPass, EndDefragPass and Finish never return an error (any state, any fault): the model
                          has no error path there, like the Go code - BeginDefragPass has no error result (a vkMapMemory that
                          fails while a move is committed makes the planner try elsewhere, the call still succeeds);
                          EndDefragPass returns the error of swapBlockAllocation only, which the model treats as a panic
                          (proved unreachable: VamKindThm.dstep_never_fails_full), its frees panic; Finish returns nothing.
   defrag_begin_refusal   BeginDefragmentation returns an error in exactly these cases: MaxPassBytes < 0, MaxPassAllocations < 0,
                          both algorithm bits set (DefragmentationInfo.validate), a pool of the linear algorithm - all refused
                          before anything is touched - or a block without random access, found by MetadataDefragContext.Init
                          AFTER the block lists were prepared (sorted by free size, incremental sorting off).
                          With KInv (every block of a non-linear list is TLSF: VamKind) the last case is impossible.
   dstep_error_no_trace   so on every state with KInv (all of reachDK) a defragmentation call that returns an error is a
                          refused BeginDefragmentation, issued no driver call, left the caller's context as it was, and the
                          allocator state is the state before (only the fault oracle of the step and the call log are reset):
                          same slots, same pools, same block lists, same memory objects, same budget. *)
From Coq Require Import ZArith List Bool Lia Permutation.
From Arsenal Require Import Util VamDev VamBlockList VamDefrag Vam VamInvMeta VamInv VamInvUpd VamInvDev.
From Arsenal Require Import VamAcctThm VamDefragNp VamKind VamKindThm.
From Arsenal Require Pass Defrag SyncMem.
Import ListNotations.
Open Scope Z_scope.

Definition not_err {A} (r : out A) : Prop := match r with ER _ => False | _ => True end.

Section WithCfg.
Variable c : vcfg.

Lemma commit_move_no_err v lr mv : not_err (snd (commit_move c v lr mv)).
Proof.
  unfold commit_move. destruct (get_blist v lr); [|exact I]. destruct (get_block v lr _) as [bb|]; [|exact I]. destruct (negb _); [exact I|].
  destruct (sm_sub _ _ _) as (m1 & s1). destruct (if a_persist _ then _ else _) as ((m2 & s2) & mr). destruct mr as [[]|code| |]; try exact I.
  destruct (_ && _); exact I.
Qed.

Lemma replay_log_no_err log : forall v lr, not_err (snd (replay_log c v lr log)).
Proof.
  induction log as [|at_ tl IH]; intros v lr; cbn [replay_log]; [exact I|]. destruct at_ as [slot dst|mv].
  - destruct (commit_attempt c v lr slot dst) as (v1 & r). destruct r as [[]|code| |]; try exact I. apply IH.
  - pose proof (commit_move_no_err v lr mv) as H. destruct (commit_move c v lr mv) as (v1 & r). cbn [snd] in H. destruct r as [[]|code| |]; try exact I; [apply IH|destruct H].
Qed.

Lemma collect_list_no_err v dc p : not_err (snd (collect_list c v dc p)).
Proof.
  unfold collect_list. destruct (project v (dc_lr dc)); [|exact I]. destruct (get_blist v (dc_lr dc)); [|exact I].
  destruct (Defrag.collect_moves_f _ _ _ _ _ _) as (((cs & env) & log) & wr).
  assert (H : forall w, not_err (snd (let '(v2, r) := replay_log c w (dc_lr dc) log in
      match r with
      | OK _ => (v2, OK (mkDfctx (dc_lr dc) (Defrag.mkC (Defrag.c_algo (dc_ctx dc)) (Defrag.cs_moves cs) (Defrag.c_immovable (dc_ctx dc))), Defrag.cs_pass cs))
      | PANIC => (v2, PANIC) | ER code => (v2, ER code) | STUCK => (v2, STUCK) end))).
  { intros w. pose proof (replay_log_no_err log w (dc_lr dc)) as H. destruct (replay_log c w (dc_lr dc) log) as (v2 & r). destruct r as [[]|code| |]; try exact I. destruct H. }
  destruct wr; try exact I; apply H.
Qed.

Lemma pass_loop_no_err fuel : forall v run p, not_err (snd (pass_loop c fuel v run p)).
Proof.
  induction fuel as [|f IH]; intros v run p; cbn [pass_loop]; [exact I|]. destruct (nth_z _ _) as [dc|]; [|exact I].
  pose proof (collect_list_no_err v dc p) as H. destruct (collect_list c v dc p) as (v1 & r). cbn [snd] in H.
  destruct r as [(dc' & p')|code| |]; try exact I; [|destruct H]. destruct (Defrag.c_moves (dc_ctx dc')); [apply IH|exact I].
Qed.

Lemma free_or_panic_no_err v s : not_err (snd (free_or_panic c v s)).
Proof.
  unfold free_or_panic. destruct (negb _); [exact I|]. destruct (negb _); [exact I|]. destruct (bl_free c v _ s false) as (v1 & r). destruct r as [[]|code| |]; exact I.
Qed.

Lemma swap_no_err v s t : not_err (snd (swap_block_allocation v s t)).
Proof.
  unfold swap_block_allocation. destruct (_ || _); [exact I|]. destruct (set_block_user_data v _ _ _ t); [|exact I].
  destruct (set_block_user_data _ _ _ _ s); exact I.
Qed.

Lemma complete_move_no_err v mv d : not_err (snd (complete_move c v mv d)).
Proof.
  unfold complete_move.
  assert (H : not_err (snd (if d =? 0 then swap_block_allocation v (Z.of_nat (Defrag.m_src mv)) (Z.of_nat (Defrag.m_tmp mv))
                            else if d =? 2 then free_or_panic c v (Z.of_nat (Defrag.m_src mv)) else (v, OK tt)))).
  { destruct (d =? 0); [apply swap_no_err|]. destruct (d =? 2); [apply free_or_panic_no_err|exact I]. }
  destruct (if d =? 0 then _ else _) as (v1 & r1). cbn [snd] in H. destruct r1 as [[]|code| |]; try exact I; [apply free_or_panic_no_err|destruct H].
Qed.

Lemma complete_moves_no_err mvs : forall v lr p imm ds, not_err (snd (complete_moves c v lr p imm mvs ds)).
Proof.
  induction mvs as [|mv rest IH]; intros v lr p imm ds; cbn [complete_moves]; [exact I|].
  destruct (list_alloc_stats v lr) as (pc & pb). pose proof (complete_move_no_err v mv (norm_decision (hd 0 ds))) as H.
  destruct (complete_move c v mv _) as (v1 & r). cbn [snd] in H. destruct r as [[]|code| |]; try exact I; [|destruct H].
  destruct (list_alloc_stats v1 lr) as (ac & ab). apply IH.
Qed.

Lemma defrag_end_no_err v run ds : not_err (snd (defrag_end c v run ds)).
Proof.
  unfold defrag_end. destruct (nth_z _ _) as [dc|]; [|exact I]. destruct (Defrag.c_moves (dc_ctx dc)) eqn:Em; [exact I|].
  unfold complete_pass. pose proof (complete_moves_no_err (Defrag.c_moves (dc_ctx dc)) v (dc_lr dc) (dr_pass run) [] ds) as H.
  destruct (complete_moves c v (dc_lr dc) (dr_pass run) [] _ ds) as (((v1 & p1) & imm) & r). cbn [snd] in H.
  destruct r as [[]|code| |]; try exact I; [|destruct H]. destruct (get_blist v1 (dc_lr dc)); [|exact I]. destruct (fold_left _ imm _) as (bs & immc). exact I.
Qed.

(* BeginDefragPass, EndDefragPass, Finish: no error result, whatever the state and the faults *)
Theorem no_error_after_begin v run o f v' run' r calls dr :
  dstep c v run o f = (v', run', r, calls, dr) -> (forall flags pool mb ma, o <> DBegin flags pool mb ma) -> forall code, r <> RErr code.
Proof.
  unfold dstep. set (v0 := set_m v (clear_calls (set_fault (v_m v) f 0))). intros E Hne code.
  destruct o as [flags pool mb ma| |ds|]; [exfalso; eapply Hne; reflexivity| | |]; cbn [dexec] in E; destruct run as [rn|]; try (injection E as _ _ <- _ _; discriminate).
  - unfold defrag_pass in E. pose proof (pass_loop_no_err (S (length (dr_ctxs rn))) v0 rn (Pass.pass_init (dr_max_bytes rn) (dr_max_allocs rn))) as H.
    destruct (pass_loop c _ v0 rn _) as ((v1 & rn') & r1). cbn [snd] in H. destruct r1 as [mvs|code1| |]; [| destruct H | |]; injection E as _ _ <- _ _; discriminate.
  - pose proof (defrag_end_no_err v0 rn ds) as H. destruct (defrag_end c v0 rn ds) as ((v1 & rn') & r1). cbn [snd] in H.
    destruct r1 as [b|code1| |]; [| destruct H | |]; injection E as _ _ <- _ _; discriminate.
Qed.

(* ---------------------------------------------------------------- BeginDefragmentation *)

(* DefragmentationInfo.validate fails, or the pool uses the linear algorithm *)
Definition begin_refused (v : vam) (flags : Z) (pool : option Z) (maxBytes maxAllocs : Z) : Prop :=
  maxBytes < 0 \/ maxAllocs < 0 \/ Z.land flags 3 = 3 \/ exists uid, pool = Some uid /\ list_is_linear v (LPool uid) = true.

Definition begin_lrefs (v : vam) (pool : option Z) : list lref :=
  match pool with Some uid => [LPool uid] | None => default_lrefs v (length (c_types c)) 0 end.

(* every error of BeginDefragmentation: refused before anything is touched, or (no random access) after the lists were prepared *)
Lemma defrag_begin_refusal v flags pool mb ma v1 code :
  defrag_begin c v flags pool mb ma = (v1, ER code) ->
  (begin_refused v flags pool mb ma /\ v1 = v) \/
  (v1 = fold_left prepare_list (begin_lrefs v pool) v /\ forallb (list_random_access v1) (begin_lrefs v pool) = false).
Proof.
  unfold defrag_begin, begin_refused. destruct (mb <? 0) eqn:E1; [intros H; injection H as <- _; left; apply Z.ltb_lt in E1; auto|].
  destruct (ma <? 0) eqn:E2; [intros H; injection H as <- _; left; apply Z.ltb_lt in E2; auto|]. cbn [orb].
  destruct (Z.land flags 3 =? 3) eqn:E3; [intros H; injection H as <- _; left; apply Z.eqb_eq in E3; auto|].
  destruct (match pool with Some uid => list_is_linear v (LPool uid) | None => false end) eqn:E4.
  { intros H; injection H as <- _. left. split; [|reflexivity]. right. right. right. destruct pool as [uid|]; [eauto|discriminate]. }
  fold (begin_lrefs v pool). destruct (forallb _ _) eqn:E5; cbn [negb]; [discriminate|]. intros H. injection H as <- _. right. auto.
Qed.

(* with KInv every list the context takes has random access *)
Lemma begin_random_access v pool :
  KInv v -> (match pool with Some uid => list_is_linear v (LPool uid) | None => false end) = false ->
  forallb (list_random_access (fold_left prepare_list (begin_lrefs v pool) v)) (begin_lrefs v pool) = true.
Proof.
  intros K Elin. set (lrs := begin_lrefs v pool). destruct (prepare_lists_K lrs v K) as (K1 & A1). set (v1 := fold_left prepare_list lrs v) in *.
  apply forallb_forall. intros lr Hin. unfold list_random_access. destruct (get_blist v1 lr) as [l1|] eqn:Hg1; [|reflexivity].
  assert (Ea : bl_algo l1 = 0).
  { unfold lrs, begin_lrefs in Hin. destruct pool as [uid|].
    - destruct Hin as [<-|[]]. destruct (get_blist v (LPool uid)) as [l|] eqn:Hg.
      + destruct (A1 _ _ Hg) as (l' & Hg' & E'). assert (l' = l1) by congruence. subst l'. rewrite E'.
        unfold list_is_linear in Elin. rewrite Hg in Elin. apply Z.eqb_neq in Elin. destruct (k_algo _ K _ _ Hg); [auto|congruence].
      + exfalso. unfold v1, lrs, begin_lrefs in Hg1. cbn [fold_left] in Hg1. unfold prepare_list in Hg1. rewrite Hg in Hg1. congruence.
    - destruct (default_lrefs_in v _ _ _ Hin) as (t' & l & -> & Hg). destruct (A1 _ _ Hg) as (l' & Hg' & E'). assert (l' = l1) by congruence. subst l'.
      rewrite E'. apply (k_def _ K _ _ Hg). }
  apply forallb_forall. intros b Hb. pose proof (k_kind _ K1 _ _ _ Hg1 Hb) as Hk. rewrite Ea in Hk. cbn in Hk. destruct (bk_meta b); [reflexivity|discriminate].
Qed.

Theorem defrag_begin_error_unchanged v flags pool mb ma v1 code :
  KInv v -> defrag_begin c v flags pool mb ma = (v1, ER code) -> begin_refused v flags pool mb ma /\ v1 = v.
Proof.
  intros K. unfold defrag_begin, begin_refused. destruct (mb <? 0) eqn:E1; [intros H; injection H as <- _; apply Z.ltb_lt in E1; auto|].
  destruct (ma <? 0) eqn:E2; [intros H; injection H as <- _; apply Z.ltb_lt in E2; auto|]. cbn [orb].
  destruct (Z.land flags 3 =? 3) eqn:E3; [intros H; injection H as <- _; apply Z.eqb_eq in E3; auto|].
  destruct (match pool with Some uid => list_is_linear v (LPool uid) | None => false end) eqn:E4.
  { intros H; injection H as <- _. split; [|reflexivity]. right. right. right. destruct pool as [uid|]; [eauto|discriminate]. }
  fold (begin_lrefs v pool). rewrite (begin_random_access v pool K E4). cbn [negb]. discriminate.
Qed.

(* C10: a defragmentation call that returns an error is a refused BeginDefragmentation and has left no trace *)
Theorem dstep_error_no_trace_K v run o f v' run' code calls dr :
  KInv v -> dstep c v run o f = (v', run', RErr code, calls, dr) ->
  (exists flags pool mb ma, o = DBegin flags pool mb ma /\ begin_refused v flags pool mb ma) /\
  v' = set_m v (clear_calls (set_fault (v_m v) no_fault 0)) /\ run' = run /\ calls = [] /\ dr = DRNone.
Proof.
  intros K E. destruct o as [flags pool mb ma| |ds|]; try (exfalso; eapply (no_error_after_begin _ _ _ _ _ _ _ _ _ E); [intros; discriminate|reflexivity]).
  unfold dstep in E. set (v0 := set_m v (clear_calls (set_fault (v_m v) f 0))) in *. cbn [dexec] in E.
  assert (K0 : KInv v0) by (apply (KR_set_m v _ K)).
  destruct (defrag_begin c v0 flags pool mb ma) as (v1 & r) eqn:Eb. destruct r as [rn|code1| |]; try (injection E as _ _ E _ _; discriminate).
  destruct (defrag_begin_error_unchanged v0 flags pool mb ma v1 code1 K0 Eb) as (Hr & ->).
  injection E as <- <- _ <- <-. split; [|auto].
  exists flags, pool, mb, ma. split; [reflexivity|]. unfold begin_refused, list_is_linear in *. unfold v0 in Hr. destruct Hr as [H|[H|[H|(uid & -> & H)]]]; auto.
  right. right. right. exists uid. split; [reflexivity|]. rewrite get_blist_set_m in H. exact H.
Qed.

End WithCfg.

Section Reach.
Variable c : vcfg.
Hypothesis Ha : cfg_acct c.

Theorem dstep_error_no_trace v run G o f v' run' code calls dr :
  reachDK c v run G -> dstep c v run o f = (v', run', RErr code, calls, dr) ->
  (exists flags pool mb ma, o = DBegin flags pool mb ma /\ begin_refused v flags pool mb ma) /\
  v' = set_m v (clear_calls (set_fault (v_m v) no_fault 0)) /\ run' = run /\ calls = [] /\ dr = DRNone.
Proof. intros R. apply dstep_error_no_trace_K. apply (reachDK_inv c Ha v run G R). Qed.

(* spelled out: nothing the caller can observe has changed *)
Corollary dstep_error_same v run G o f v' run' code calls dr :
  reachDK c v run G -> dstep c v run o f = (v', run', RErr code, calls, dr) ->
  v_tab v' = v_tab v /\ v_pools v' = v_pools v /\ v_lists v' = v_lists v /\ v_ded v' = v_ded v /\ v_global v' = v_global v /\
  m_mems (v_m v') = m_mems (v_m v) /\ m_bud (v_m v') = m_bud (v_m v) /\ m_res (v_m v') = m_res (v_m v) /\ m_next (v_m v') = m_next (v_m v) /\
  run' = run /\ calls = [].
Proof. intros R E. destruct (dstep_error_no_trace v run G o f v' run' code calls dr R E) as (_ & -> & -> & -> & _). cbn. repeat split; reflexivity. Qed.

End Reach.

Print Assumptions dstep_error_no_trace.
Print Assumptions no_error_after_begin.
