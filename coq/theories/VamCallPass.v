(* VamCallPass.v — a generic pass over the driver-call log: every call a function of the model logs satisfies P, where
   what P says about each kind of call is a separate hypothesis (HPalloc ... HPbind).  A lemma depends only on the
   hypotheses of the calls its function can issue, so instantiating P with "is not a vkMapMemory" gives, for every function
   that never reaches SynchronizedMemory.Map, that its log has no vkMapMemory, and so on.  (Scripts: VamMemStable.v.) *)
From Coq Require Import ZArith List Bool Lia Permutation.
From Arsenal Require Import Util Budget VamDev VamBlockList VamDefrag Vam VamInvMeta VamInv VamInvUpd VamInvDev VamInvStep VamInvStep2.
From Arsenal Require Import VamAcct.
From Arsenal Require Pass Defrag SyncMem.
Import ListNotations.
Open Scope Z_scope.

Section Pass.
Variable c : vcfg.
Variable P : call -> Prop.
Hypothesis HPalloc : forall id ty size ded r, P (CAlloc id ty size ded r).
Hypothesis HPfree : forall mem, P (CFree mem).
Hypothesis HPmap : forall mem off size r, P (CMap mem off size r).
Hypothesis HPunmap : forall mem, P (CUnmap mem).
Hypothesis HPflush : forall inval mem off size r, P (CFlush inval mem off size r).
Hypothesis HPcreate : forall image id r, P (CCreate image id r).
Hypothesis HPdestroy : forall image id, P (CDestroy image id).
Hypothesis HPreq : forall image id, P (CReq image id).
Hypothesis HPbind : forall image res mem off r, P (CBind image res mem off r).

(* the calls logged between m and m' all satisfy P *)
Definition NA (m m' : mach) : Prop := exists l, m_calls m' = l ++ m_calls m /\ Forall P l.

Lemma NA_refl m : NA m m.
Proof. exists []. split; [reflexivity|constructor]. Qed.

Lemma NA_trans a b d : NA a b -> NA b d -> NA a d.
Proof.
  intros (l1 & E1 & F1) (l2 & E2 & F2). exists (l2 ++ l1). split; [rewrite E2, E1, app_assoc; reflexivity|apply Forall_app; auto].
Qed.

Lemma NA_eq m m' : m_calls m' = m_calls m -> NA m m'.
Proof. intros E. exists []. split; [exact E|constructor]. Qed.

Lemma NA_log' m m1 k : m_calls m1 = m_calls m -> P k -> NA m (log_call m1 k).
Proof. intros E H. exists [k]. split; [cbn; rewrite E; reflexivity|constructor; [exact H|constructor]]. Qed.

Ltac na_eq := apply NA_eq; reflexivity.

Lemma heap_budget_NA m h : NA m (fst (fst (heap_budget c m h))).
Proof. unfold heap_budget. destruct (Budget.heap_budget _ _ _ _) as ((b' & r) & cs). destruct r; na_eq. Qed.

Lemma dev_map_NA m id : NA m (fst (dev_map c m id)).
Proof.
  unfold dev_map. destruct (find_mem _ _); [|apply NA_log'; [reflexivity|apply HPmap]]. destruct (negb _); [apply NA_log'; [reflexivity|apply HPmap]|].
  destruct (_ <=? 0); [apply NA_log'; [reflexivity|apply HPmap]|].
  destruct (dev_fault _ _ _) as ((f1 & fired1) & r). destruct (negb _); cbn [fst]; apply NA_log'; [reflexivity|apply HPmap|reflexivity|apply HPmap].
Qed.

Lemma dev_unmap_NA m id : NA m (dev_unmap m id).
Proof. unfold dev_unmap. apply NA_log'; [reflexivity|apply HPunmap]. Qed.

Lemma sm_map_NA m mem s : NA m (fst (fst (sm_map c m mem s))).
Proof.
  unfold sm_map. pose proof (dev_map_NA m mem) as H. destruct (dev_map c m mem) as (m1 & code).
  destruct (SyncMem.do_map _ _ _) as ((s' & r) & cs). cbn in *. destruct cs; [apply NA_refl|exact H].
Qed.

Lemma sm_unmap_NA m mem s : NA m (fst (fst (sm_unmap m mem s))).
Proof. unfold sm_unmap. destruct (SyncMem.do_unmap _ _) as ((s' & r) & cs). cbn. destruct cs; [apply NA_refl|apply dev_unmap_NA]. Qed.

Lemma sm_sub_NA m mem s : NA m (fst (sm_sub m mem s)).
Proof. unfold sm_sub. destruct (SyncMem.do_sub _) as ((s' & r) & cs). cbn. destruct cs; [apply NA_refl|apply dev_unmap_NA]. Qed.

Lemma add_allocation_NA m h size : NA m (add_allocation c m h size).
Proof. unfold add_allocation. destruct (Budget.add_alloc _ _ _ _) as ((b' & r) & cs). na_eq. Qed.

Lemma remove_allocation_NA m h size : NA m (fst (remove_allocation c m h size)).
Proof. unfold remove_allocation. destruct (Budget.remove_alloc _ _ _ _) as ((b' & r) & cs). na_eq. Qed.

Lemma free_vk_NA m ty size mem : NA m (fst (free_vk c m ty size mem)).
Proof. unfold free_vk, dev_free. destruct (Budget.free_mem _ _ _) as ((b' & r) & cs). cbn [fst]. apply NA_log'; [reflexivity|apply HPfree]. Qed.

Lemma dev_flush_NA m inval id off size : NA m (fst (dev_flush m inval id off size)).
Proof. unfold dev_flush. destruct (find_mem _ _); [|apply NA_log'; [reflexivity|apply HPflush]]. destruct (dev_fault _ _ _) as ((f1 & fi) & code). cbn [fst]. apply NA_log'; [reflexivity|apply HPflush]. Qed.

Lemma stats_budgets_NA n : forall m h, NA m (stats_budgets c m n h).
Proof.
  induction n as [|k IH]; intros m h; cbn [stats_budgets]; [apply NA_refl|].
  pose proof (heap_budget_NA m h) as H. destruct (heap_budget c m h) as ((m1 & u) & b). cbn [fst] in H. eapply NA_trans; [exact H|apply IH].
Qed.

Lemma dev_alloc_NA m ty size ded : NA m (fst (fst (dev_alloc c m ty size ded))).
Proof.
  unfold dev_alloc. destruct (negb _); [apply NA_log'; [reflexivity|apply HPalloc]|]. destruct (size <=? 0); [apply NA_log'; [reflexivity|apply HPalloc]|].
  destruct (dev_fault (m_fault m) (m_fired m) 0) as ((f1 & fired1) & r).
  destruct (negb (r =? 0)); [apply NA_log'; [reflexivity|apply HPalloc]|].
  destruct (_ && _); [apply NA_log'; [reflexivity|apply HPalloc]|].
  destruct (_ <? _); [apply NA_log'; [reflexivity|apply HPalloc]|].
  destruct (DEV_TABLE <=? _); cbn [fst]; apply NA_log'; [reflexivity|apply HPalloc|reflexivity|apply HPalloc].
Qed.

Lemma alloc_vk_NA m ty size ded : NA m (fst (alloc_vk c m ty size ded)).
Proof.
  unfold alloc_vk. pose proof (dev_alloc_NA m ty size ded) as H.
  destruct (dev_alloc c m ty size ded) as ((m1 & code) & id). cbn [fst] in H.
  destruct (Budget.alloc_mem _ _ _ _ _) as ((b' & r) & cs). destruct cs; cbn [fst]; [na_eq|].
  eapply NA_trans; [exact H|na_eq].
Qed.

Lemma dev_bind_NA m image res mem off : NA m (fst (dev_bind m image res mem off)).
Proof.
  unfold dev_bind. destruct (find_res _ _); [|apply NA_log'; [reflexivity|apply HPbind]]. destruct (find_mem _ _); [|apply NA_log'; [reflexivity|apply HPbind]].
  destruct (dev_fault _ _ _) as ((f1 & fi) & code). destruct (negb (code =? 0)); cbn [fst]; apply NA_log'; [reflexivity|apply HPbind|reflexivity|apply HPbind].
Qed.

Lemma dev_create_res_NA m image kind req : NA m (fst (fst (dev_create_res m image kind req))).
Proof.
  unfold dev_create_res. destruct (dev_fault _ _ _) as ((f1 & fi) & code).
  destruct (negb (code =? 0)); [apply NA_log'; [reflexivity|apply HPcreate]|]. destruct (DEV_TABLE <=? _); cbn [fst]; apply NA_log'; [reflexivity|apply HPcreate|reflexivity|apply HPcreate].
Qed.

Lemma dev_requirements_NA m image id : NA m (fst (dev_requirements m image id)).
Proof. unfold dev_requirements. cbn [fst]. apply NA_log'; [reflexivity|apply HPreq]. Qed.

Lemma dev_destroy_res_NA m image id : NA m (dev_destroy_res m image id).
Proof. unfold dev_destroy_res. apply NA_log'; [reflexivity|apply HPdestroy]. Qed.

(* ---------------------------------------------------------------- through the functions of the model *)

Definition NAv (v v' : vam) : Prop := NA (v_m v) (v_m v').

Lemma NAv_refl v : NAv v v.
Proof. apply NA_refl. Qed.
Lemma NAv_trans a b d : NAv a b -> NAv b d -> NAv a d.
Proof. apply NA_trans. Qed.
Lemma NAv_eq v v' : v_m v' = v_m v -> NAv v v'.
Proof. intros E. unfold NAv. rewrite E. apply NA_refl. Qed.

Ltac vm_simp := repeat (rewrite ?put_block_m, ?set_blist_m, ?set_dedlist_m; cbn [v_m set_m set_alloc set_tab set_pools set_lists set_ded fst]).

(* leaf: the machine of the result is some machine reached through the NA facts in the context *)
Ltac na_chain := first [apply NA_refl | eassumption | (eapply NA_trans; [eassumption|]; na_chain)].
Ltac nafin := unfold NAv in *; vm_simp; na_chain.

Lemma sort_list_m v lr : v_m (sort_list v lr) = v_m v.
Proof. unfold sort_list. destruct (get_blist v lr); [apply set_blist_m|reflexivity]. Qed.

Lemma create_block_L v lr size : NAv v (fst (create_block c v lr size)).
Proof.
  unfold create_block. destruct (get_blist v lr) as [l|]; [|apply NAv_refl].
  pose proof (alloc_vk_NA (v_m v) (bl_type l) size 0) as H. destruct (alloc_vk c (v_m v) (bl_type l) size 0) as (m1 & r). cbn [fst] in H.
  destruct r; nafin.
Qed.

Lemma destroy_block_L v ty b : NAv v (fst (destroy_block c v ty b)).
Proof.
  unfold destroy_block. destruct (negb _); [apply NAv_refl|].
  pose proof (free_vk_NA (v_m v) ty (meta_size (bk_meta b)) (bk_mem b)) as H. destruct (free_vk c (v_m v) ty _ (bk_mem b)) as (m1 & r). nafin.
Qed.

Lemma destroy_blocks_L bs : forall v ty, NAv v (fst (destroy_blocks c v ty bs)).
Proof.
  induction bs as [|b tl IH]; intros v ty; cbn [destroy_blocks]; [apply NAv_refl|].
  pose proof (destroy_block_L v ty b) as H. destruct (destroy_block c v ty b) as (v1 & r). cbn [fst] in H.
  destruct r as [[]|code| |]; cbn [fst]; try exact H. eapply NAv_trans; [exact H|apply IH].
Qed.

Lemma commit_request_L v lr bid rq reqsize align flags sub slot : NAv v (fst (commit_request c v lr bid rq reqsize align flags sub slot)).
Proof.
  unfold commit_request. destruct (get_blist v lr) as [l|]; [|apply NAv_refl]. destruct (get_block v lr bid) as [b|]; [|apply NAv_refl].
  pose proof (sm_sub_NA (v_m v) (bk_mem b) (bk_sm b)) as H1. destruct (sm_sub (v_m v) (bk_mem b) (bk_sm b)) as (m1 & s1). cbn [fst] in H1.
  assert (H2 : NA m1 (fst (fst (if fl flags F_MAPPED then sm_map c m1 (bk_mem b) s1 else (m1, s1, OK tt))))) by (destruct (fl flags F_MAPPED); [apply sm_map_NA|apply NA_refl]).
  destruct (if fl flags F_MAPPED then sm_map c m1 (bk_mem b) s1 else (m1, s1, OK tt)) as ((m2 & s2) & mr). cbn [fst] in H2.
  destruct mr as [[]|code| |]; try nafin.
  destruct (meta_alloc (bk_meta b) rq sub slot reqsize align) as [(mt' & handle)|code| |]; try nafin.
  destruct (_ && _); [nafin|]. unfold NAv. vm_simp. eapply NA_trans; [exact H1|]. eapply NA_trans; [exact H2|apply add_allocation_NA].
Qed.

Lemma alloc_from_block_L v lr bid size align flags sub slot : NAv v (fst (alloc_from_block c v lr bid size align flags sub slot)).
Proof.
  unfold alloc_from_block. destruct (get_block v lr bid) as [b|]; [|apply NAv_refl]. destruct (negb _); [apply NAv_refl|].
  destruct (meta_create_request _ _ _ _ _ _) as [mt' rq| | |]; try apply NAv_refl.
  eapply NAv_trans; [apply NAv_eq; apply put_block_m|apply commit_request_L].
Qed.

Lemma try_blocks_L ids : forall v lr size align flags sub slot, NAv v (fst (try_blocks c v lr ids size align flags sub slot)).
Proof.
  induction ids as [|bid tl IH]; intros v lr size align flags sub slot; cbn [try_blocks]; [apply NAv_refl|].
  pose proof (alloc_from_block_L v lr bid size align flags sub slot) as H.
  destruct (alloc_from_block c v lr bid size align flags sub slot) as (v1 & r). cbn [fst] in H.
  destruct r; cbn [fst]; try exact H; [eapply NAv_trans; [exact H|apply NAv_eq; apply sort_list_m]|eapply NAv_trans; [exact H|apply IH]].
Qed.

Lemma retry_create_L fuel : forall v lr nbs shift size freeMemory canFallback last,
  NAv v (fst (retry_create c fuel v lr nbs shift size freeMemory canFallback last)).
Proof.
  induction fuel as [|f IH]; intros v lr nbs shift size freeMemory canFallback last; cbn [retry_create]; [apply NAv_refl|].
  destruct last as [x|code| |]; try apply NAv_refl. destruct (3 <=? shift); [apply NAv_refl|]. destruct (size <=? _); [|apply NAv_refl].
  destruct (_ || _); [|apply IH].
  pose proof (create_block_L v lr (Z.quot nbs 2)) as H. destruct (create_block c v lr (Z.quot nbs 2)) as (v1 & r). cbn [fst] in H.
  eapply NAv_trans; [exact H|apply IH].
Qed.


Lemma alloc_page_L v lr size align flags sub slot : NAv v (fst (alloc_page c v lr size align flags sub slot)).
Proof.
  unfold alloc_page. destruct (get_blist v lr) as [l|] eqn:Hg; [|apply NAv_refl].
  pose proof (heap_budget_NA (v_m v) (type_heap c (bl_type l))) as H0.
  destruct (heap_budget c (v_m v) (type_heap c (bl_type l))) as ((m1 & usage) & budget). cbn [fst] in H0.
  assert (K1 : NAv v (set_m v m1)) by nafin.
  destruct (_ && _); [exact K1|]. destruct (bl_pref l <? size); [exact K1|].
  pose proof (try_blocks_L (search_order c l flags) (set_m v m1) lr size align flags sub slot) as H2.
  destruct (try_blocks c (set_m v m1) lr (search_order c l flags) size align flags sub slot) as (v2 & r). cbn [fst] in H2.
  assert (K2 : NAv v v2) by (eapply NAv_trans; eauto).
  destruct r; cbn [fst]; try exact K2.
  destruct (negb _); [exact K2|].
  destruct (if bl_explicit l then (bl_pref l, 0) else shrink_new_block 3 (bl_pref l) 0 (calc_max_block_size l) size) as (nbs & shift).
  match goal with |- context [if ?cnd then create_block c v2 lr nbs else (v2, ER VK_OODM)] =>
    assert (H3 : NAv v2 (fst (if cnd then create_block c v2 lr nbs else (v2, ER VK_OODM)))) by (destruct cnd; [apply create_block_L|apply NAv_refl]);
    destruct (if cnd then create_block c v2 lr nbs else (v2, ER VK_OODM)) as (v3 & first) end.
  cbn [fst] in H3.
  match goal with |- context [if bl_explicit l then (v3, first) else ?e] =>
    assert (H4 : NAv v3 (fst (if bl_explicit l then (v3, first) else e))) by (destruct (bl_explicit l); [apply NAv_refl|apply retry_create_L]);
    destruct (if bl_explicit l then (v3, first) else e) as (v4 & created) end.
  cbn [fst] in H4. assert (K4 : NAv v v4) by (eapply NAv_trans; [exact K2|]; eapply NAv_trans; [exact H3|exact H4]).
  destruct created as [bid|code| |]; cbn [fst]; try exact K4.
  destruct (get_block v4 lr bid) as [nb|]; [|exact K4]. destruct (meta_size (bk_meta nb) <? size); [exact K4|].
  pose proof (alloc_from_block_L v4 lr bid size align flags sub slot) as H5.
  destruct (alloc_from_block c v4 lr bid size align flags sub slot) as (v5 & r2). cbn [fst] in H5.
  assert (K5 : NAv v v5) by (eapply NAv_trans; [exact K4|exact H5]).
  assert (Hgive : NAv v5 (fst (match get_blist v5 lr, get_block v5 lr bid with
                    | Some l5, Some b5 =>
                      if meta_is_empty (bk_meta b5) && (bl_min l5 <? zlen (bl_blocks l5)) then
                        match destroy_block c (set_blist v5 lr (set_blocks l5 (remove_block (bl_blocks l5) bid))) (bl_type l5) b5 with
                        | (v', OK _) => (v', OK tt)
                        | (v', STUCK) => (v', STUCK)
                        | (v', _) => (v', PANIC)
                        end
                      else (v5, OK tt)
                    | _, _ => (v5, STUCK)
                    end))).
  { destruct (get_blist v5 lr) as [l5|]; [|apply NAv_refl]. destruct (get_block v5 lr bid) as [b5|]; [|apply NAv_refl].
    destruct (_ && _); [|apply NAv_refl].
    pose proof (destroy_block_L (set_blist v5 lr (set_blocks l5 (remove_block (bl_blocks l5) bid))) (bl_type l5) b5) as Hd.
    destruct (destroy_block c _ (bl_type l5) b5) as (v' & dr). cbn [fst] in Hd.
    assert (NAv v5 v') by (eapply NAv_trans; [apply NAv_eq; apply set_blist_m|exact Hd]).
    destruct dr as [[]|code| |]; exact H. }
  destruct r2 as [| |code2| |]; cbn [fst]; try exact K5; [eapply NAv_trans; [exact K5|apply NAv_eq; apply sort_list_m]| |];
    (match goal with |- context [match ?e with (a, b) => _ end] => destruct e as (v6 & dr) end; cbn [fst] in Hgive;
     assert (K6 : NAv v v6) by (eapply NAv_trans; [exact K5|exact Hgive]); destruct dr as [[]|code3| |]; exact K6).
Qed.

Lemma bl_free_L v lr slot keep : NAv v (fst (bl_free c v lr slot keep)).
Proof.
  unfold bl_free. set (a := get_alloc v slot). destruct (get_blist v lr) as [l|]; [|apply NAv_refl].
  destruct (get_block v lr (a_blk a)) as [b|]; [|apply NAv_refl].
  pose proof (heap_budget_NA (v_m v) (type_heap c (bl_type l))) as H0.
  destruct (heap_budget c (v_m v) (type_heap c (bl_type l))) as ((m1 & usage) & budget). cbn [fst] in H0.
  assert (H1 : NA m1 (fst (fst (if a_persist a then sm_unmap m1 (bk_mem b) (bk_sm b) else (m1, bk_sm b, OK tt))))) by (destruct (a_persist a); [apply sm_unmap_NA|apply NA_refl]).
  destruct (if a_persist a then sm_unmap m1 (bk_mem b) (bk_sm b) else (m1, bk_sm b, OK tt)) as ((m2 & s2) & ur). cbn [fst] in H1.
  set (v2 := put_block (set_m v m2) lr (mkBlock (bk_id b) (bk_mem b) s2 (bk_meta b))).
  assert (E2 : v_m v2 = m2) by (unfold v2; rewrite put_block_m; reflexivity).
  assert (K2 : NAv v v2) by (unfold NAv; rewrite E2; eapply NA_trans; eauto).
  destruct ur as [[]|code| |]; cbn [fst]; try exact K2.
  destruct (meta_free (bk_meta b) (a_handle a)) as [mt'|code| |]; cbn [fst]; try exact K2.
  pose proof (sm_sub_NA (v_m v2) (bk_mem b) s2) as H3. destruct (sm_sub (v_m v2) (bk_mem b) s2) as (m3 & s3). cbn [fst] in H3.
  match goal with |- context [let '(bs4, toDelete) := ?e in _] => destruct e as (bs4 & toDelete) end.
  set (v3 := set_blist (set_m v2 m3) lr (incrementally_sort (set_blocks l bs4))).
  assert (K3 : NAv v v3) by (unfold NAv, v3; rewrite set_blist_m; cbn [v_m set_m]; eapply NA_trans; [exact K2|exact H3]).
  assert (H4 : NAv v3 (fst (match toDelete with
                           | None => (v3, OK tt)
                           | Some db => match destroy_block c v3 (bl_type l) db with (v', OK _) => (v', OK tt) | (v', STUCK) => (v', STUCK) | (v', _) => (v', PANIC) end
                           end))).
  { destruct toDelete as [db|]; [|apply NAv_refl]. pose proof (destroy_block_L v3 (bl_type l) db) as Hd.
    destruct (destroy_block c v3 (bl_type l) db) as (v' & dr). cbn [fst] in Hd. destruct dr as [[]|code| |]; exact Hd. }
  match goal with |- context [let '(v4, dr) := ?e in _] => destruct e as (v4 & dr) end. cbn [fst] in H4.
  assert (K4 : NAv v v4) by (eapply NAv_trans; [exact K3|exact H4]).
  destruct dr as [[]|code| |]; cbn [fst]; try exact K4.
  pose proof (remove_allocation_NA (v_m v4) (type_heap c (bl_type l)) (a_size a)) as H5.
  destruct (remove_allocation c (v_m v4) (type_heap c (bl_type l)) (a_size a)) as (m5 & rr). cbn [fst] in *. unfold NAv in *. cbn [v_m set_m]. eapply NA_trans; eauto.
Qed.

Lemma release_loop_L ids : forall v lr firstId, NAv v (fst (release_loop c v lr ids firstId)).
Proof.
  induction ids as [|bid tl IH]; intros v lr firstId; cbn [release_loop]; [apply NAv_refl|].
  destruct (get_blist v lr) as [l|]; [|apply NAv_refl]. destruct (negb _); [apply NAv_refl|].
  destruct (find_block (bl_blocks l) bid) as [b|]; [|apply NAv_refl]. destruct (_ || _); [apply IH|].
  pose proof (destroy_block_L (set_blist v lr (set_blocks l (remove_block (bl_blocks l) bid))) (bl_type l) b) as Hd.
  destruct (destroy_block c _ (bl_type l) b) as (v2 & dr). cbn [fst] in Hd.
  assert (K2 : NAv v v2) by (eapply NAv_trans; [apply NAv_eq; apply set_blist_m|exact Hd]).
  destruct dr as [[]|code| |]; cbn [fst]; try exact K2. eapply NAv_trans; [exact K2|apply IH].
Qed.

Lemma release_empty_since_L v lr firstId : NAv v (fst (release_empty_since c v lr firstId)).
Proof. unfold release_empty_since. destruct (get_blist v lr); [apply release_loop_L|apply NAv_refl]. Qed.

Lemma allocate_loop_L slots : forall v lr done size align flags sub, NAv v (fst (fst (allocate_loop c v lr slots done size align flags sub))).
Proof.
  induction slots as [|s tl IH]; intros v lr done size align flags sub; cbn [allocate_loop]; [apply NAv_refl|].
  pose proof (alloc_page_L v lr size align flags sub s) as H. destruct (alloc_page c v lr size align flags sub s) as (v1 & r). cbn [fst] in H.
  destruct r as [[]|code| |]; cbn [fst]; try exact H. eapply NAv_trans; [exact H|apply IH].
Qed.

Lemma unwind_loop_L done : forall v lr, NAv v (fst (unwind_loop c v lr done)).
Proof.
  induction done as [|s tl IH]; intros v lr; cbn [unwind_loop]; [apply NAv_refl|].
  pose proof (bl_free_L v lr s true) as H. destruct (bl_free c v lr s true) as (v1 & r). cbn [fst] in H.
  destruct r as [[]|code| |]; cbn [fst]; try exact H. eapply NAv_trans; [exact H|].
  eapply NAv_trans; [apply (NAv_eq v1 (set_alloc v1 s (set_allocated (get_alloc v1 s) false))); reflexivity|apply IH].
Qed.

Lemma bl_allocate_L v lr slots size align0 flags sub : NAv v (fst (bl_allocate c v lr slots size align0 flags sub)).
Proof.
  unfold bl_allocate. destruct (get_blist v lr) as [l|]; [|apply NAv_refl].
  match goal with |- context [allocate_loop c v lr slots [] size ?al flags sub] =>
    pose proof (allocate_loop_L slots v lr [] size al flags sub) as H1; destruct (allocate_loop c v lr slots [] size al flags sub) as ((v1 & r) & done) end.
  cbn [fst] in H1. destruct r as [[]|code| |]; cbn [fst]; try exact H1.
  pose proof (unwind_loop_L done v1 lr) as H2. destruct (unwind_loop c v1 lr done) as (v2 & ur). cbn [fst] in H2.
  assert (K2 : NAv v v2) by (eapply NAv_trans; eauto). destruct ur as [[]|ucode| |]; cbn [fst]; try exact K2.
  pose proof (release_empty_since_L v2 lr (bl_next l)) as H3. destruct (release_empty_since c v2 lr (bl_next l)) as (v3 & rr). cbn [fst] in H3.
  assert (K3 : NAv v v3) by (eapply NAv_trans; eauto). destruct rr as [[]|rcode| |]; exact K3.
Qed.

Lemma bl_destroy_L v lr : NAv v (fst (bl_destroy c v lr)).
Proof.
  unfold bl_destroy. destruct (get_blist v lr) as [l|]; [|apply NAv_refl]. destruct (existsb _ _); [apply NAv_refl|].
  pose proof (destroy_blocks_L (bl_blocks l) v (bl_type l)) as H. destruct (destroy_blocks c v (bl_type l) (bl_blocks l)) as (v1 & r). cbn [fst] in H.
  destruct r as [[]|code| |]; cbn [fst]; try exact H. destruct (get_blist v1 lr) as [l1|]; [|exact H].
  eapply NAv_trans; [exact H|apply NAv_eq; apply set_blist_m].
Qed.

Lemma create_min_blocks_L n : forall v lr size, NAv v (fst (create_min_blocks c n v lr size)).
Proof.
  induction n as [|k IH]; intros v lr size; cbn [create_min_blocks]; [apply NAv_refl|].
  pose proof (create_block_L v lr size) as H. destruct (create_block c v lr size) as (v1 & r). cbn [fst] in H.
  destruct r as [bid|code| |]; cbn [fst]; try exact H. eapply NAv_trans; [exact H|apply IH].
Qed.


Lemma ded_page_L v lr ty size sub doMap allowed slot ded : NAv v (fst (allocate_dedicated_page c v lr ty size sub doMap allowed slot ded)).
Proof.
  unfold allocate_dedicated_page. pose proof (alloc_vk_NA (v_m v) ty size ded) as H1.
  destruct (alloc_vk c (v_m v) ty size ded) as (m1 & r). cbn [fst] in H1. destruct r as [mem|code| |]; try nafin.
  assert (H2 : NA m1 (fst (fst (if doMap then sm_map c m1 mem SyncMem.sm_init else (m1, SyncMem.sm_init, OK tt))))) by (destruct doMap; [apply sm_map_NA|apply NA_refl]).
  destruct (if doMap then sm_map c m1 mem SyncMem.sm_init else (m1, SyncMem.sm_init, OK tt)) as ((m2 & s) & mr). cbn [fst] in H2.
  destruct mr as [[]|code| |]; try nafin.
  - destruct (_ && _); [nafin|]. unfold NAv. vm_simp. eapply NA_trans; [exact H1|]. eapply NA_trans; [exact H2|apply add_allocation_NA].
  - pose proof (free_vk_NA m2 ty size mem) as H3. destruct (free_vk c m2 ty size mem) as (m3 & fr). cbn [fst] in H3. nafin.
Qed.

Lemma dedicated_loop_L slots : forall v lr ty size sub doMap allowed done ded,
  NAv v (fst (fst (dedicated_loop c v lr ty size sub doMap allowed slots done ded))).
Proof.
  induction slots as [|s tl IH]; intros v lr ty size sub doMap allowed done ded; cbn [dedicated_loop]; [apply NAv_refl|].
  pose proof (ded_page_L v lr ty size sub doMap allowed s ded) as H.
  destruct (allocate_dedicated_page c v lr ty size sub doMap allowed s ded) as (v1 & r). cbn [fst] in H.
  destruct r as [[]|code| |]; cbn [fst]; try exact H. eapply NAv_trans; [exact H|apply IH].
Qed.

Lemma dedicated_rollback_L done : forall v ty, NAv v (fst (dedicated_rollback c v ty done)).
Proof.
  induction done as [|s tl IH]; intros v ty; cbn [dedicated_rollback]; [apply NAv_refl|].
  pose proof (free_vk_NA (v_m v) ty (a_size (get_alloc v s)) (a_mem (get_alloc v s))) as H1.
  destruct (free_vk c (v_m v) ty (a_size (get_alloc v s)) (a_mem (get_alloc v s))) as (m1 & fr). cbn [fst] in H1.
  destruct fr as [[]|code| |]; try nafin.
  pose proof (remove_allocation_NA m1 (type_heap c ty) (a_size (get_alloc v s))) as H2.
  destruct (remove_allocation c m1 (type_heap c ty) (a_size (get_alloc v s))) as (m2 & rr). cbn [fst] in H2.
  destruct rr as [[]|code| |]; try nafin.
  eapply NAv_trans; [|apply IH]. nafin.
Qed.

Lemma allocate_dedicated_L v lr ty size sub doMap allowed slots ded : NAv v (fst (allocate_dedicated c v lr ty size sub doMap allowed slots ded)).
Proof.
  unfold allocate_dedicated. destruct slots as [|s0 tl0] eqn:Es; [apply NAv_refl|]. rewrite <- Es.
  pose proof (dedicated_loop_L slots v lr ty size sub doMap allowed [] ded) as H.
  destruct (dedicated_loop c v lr ty size sub doMap allowed slots [] ded) as ((v1 & r) & done). cbn [fst] in H.
  destruct r as [[]|code| |]; cbn [fst]; try exact H.
  - eapply NAv_trans; [exact H|apply NAv_eq; apply set_dedlist_m].
  - pose proof (dedicated_rollback_L done v1 ty) as H2. destruct (dedicated_rollback c v1 ty done) as (v2 & rr). cbn [fst] in *. eapply NAv_trans; eauto.
Qed.

Lemma calc_type_params_L v ty size count flags : NAv v (fst (calc_type_params c v ty size count flags)).
Proof.
  unfold calc_type_params. destruct (_ && _); [|apply NAv_refl]. pose proof (heap_budget_NA (v_m v) (type_heap c ty)) as H.
  destruct (heap_budget c (v_m v) (type_heap c ty)) as ((m1 & u) & b). cbn [fst] in H. destruct (_ <? _); nafin.
Qed.

Lemma alloc_of_type_L v lr ty size align dedPref flags sub slots ded : NAv v (fst (alloc_of_type c v lr ty size align dedPref flags sub slots ded)).
Proof.
  unfold alloc_of_type. destruct slots as [|s0 tl0] eqn:Es; [apply NAv_refl|]. rewrite <- Es.
  destruct (get_blist v lr) as [l|]; [|apply NAv_refl].
  pose proof (calc_type_params_L v ty size (zlen slots) flags) as H1.
  destruct (calc_type_params c v ty size (zlen slots) flags) as (v1 & fr). cbn [fst] in H1.
  destruct fr as [f1|code| |]; cbn [fst]; try exact H1.
  destruct (fl f1 F_DEDICATED); [eapply NAv_trans; [exact H1|apply allocate_dedicated_L]|].
  match goal with |- context [let '(v2, early) := ?e in _] => assert (H2 : NAv v1 (fst e)); [|destruct e as (v2 & early)] end.
  { match goal with |- context [if ?cnd then _ else (v1, None)] => destruct cnd end; [|apply NAv_refl].
    match goal with |- context [allocate_dedicated c v1 lr ty size sub ?dm ?al slots ded] =>
      pose proof (allocate_dedicated_L v1 lr ty size sub dm al slots ded) as H;
      destruct (allocate_dedicated c v1 lr ty size sub dm al slots ded) as (v' & r) end. cbn [fst] in H.
    destruct r as [[]|code| |]; exact H. }
  cbn [fst] in H2.
  assert (K2 : NAv v v2) by (eapply NAv_trans; eauto).
  destruct early as [r|]; cbn [fst]; [exact K2|].
  pose proof (bl_allocate_L v2 lr slots size align f1 sub) as H3. destruct (bl_allocate c v2 lr slots size align f1 sub) as (v3 & br). cbn [fst] in H3.
  assert (K3 : NAv v v3) by (eapply NAv_trans; eauto).
  destruct br as [[]|bcode| |]; cbn [fst]; try exact K3.
  match goal with |- context [if ?cnd then _ else (v3, ER bcode)] => destruct cnd end; [|exact K3].
  pose proof (heap_budget_NA (v_m v3) (type_heap c ty)) as H4.
  destruct (heap_budget c (v_m v3) (type_heap c ty)) as ((m4 & u) & b). cbn [fst] in H4.
  assert (K4 : NAv v (set_m v3 m4)) by (unfold NAv in *; cbn [v_m set_m]; eapply NA_trans; eauto).
  destruct (_ <? _); cbn [fst]; [exact K4|]. eapply NAv_trans; [exact K4|apply allocate_dedicated_L].
Qed.

Lemma type_loop_L fuel : forall v bits ty size align dedPref usage flags req pref ctb sub slots ded bufimg,
  NAv v (fst (type_loop c fuel v bits ty size align dedPref usage flags req pref ctb sub slots ded bufimg)).
Proof.
  induction fuel as [|f IH]; intros; cbn [type_loop]; [apply NAv_refl|].
  destruct (get_blist v (LDef ty)); [|apply NAv_refl].
  pose proof (alloc_of_type_L v (LDef ty) ty size align dedPref flags sub slots ded) as H.
  destruct (alloc_of_type c v (LDef ty) ty size align dedPref flags sub slots ded) as (v1 & r). cbn [fst] in H.
  destruct r as [[]|code| |]; cbn [fst]; try exact H. destruct (code =? VK_UNKNOWN); [exact H|].
  destruct (find_type_index c (v_global v1) _ usage flags req pref ctb bufimg) as [ty'|]; [|exact H].
  eapply NAv_trans; [exact H|apply IH].
Qed.

Lemma multi_allocate_L v size align typeBits reqDed prefDed ded bufimg usage flags0 req pref ctb pool sub slots :
  NAv v (fst (multi_allocate c v size align typeBits reqDed prefDed ded bufimg usage flags0 req pref ctb pool sub slots)).
Proof.
  unfold multi_allocate. destruct (negb _); [apply NAv_refl|]. destruct (size <? 1); [apply NAv_refl|].
  destruct (calc_params usage flags0 reqDed _) as [flags|code| |]; try apply NAv_refl.
  destruct pool as [uid|].
  - destruct (get_blist v (LPool uid)); [apply alloc_of_type_L|apply NAv_refl].
  - destruct (find_type_index c (v_global v) typeBits usage flags req pref ctb bufimg); [apply type_loop_L|apply NAv_refl].
Qed.

Lemma free_dedicated_L v slot : NAv v (fst (free_dedicated c v slot)).
Proof.
  unfold free_dedicated. destruct (negb _); [apply NAv_refl|].
  set (v1 := set_dedlist v _ _). assert (E1 : v_m v1 = v_m v) by apply set_dedlist_m.
  pose proof (free_vk_NA (v_m v1) (a_type (get_alloc v slot)) (a_size (get_alloc v slot)) (a_mem (get_alloc v slot))) as H1.
  destruct (free_vk c (v_m v1) _ _ _) as (m1 & fr). cbn [fst] in H1. rewrite E1 in H1.
  destruct fr as [[]|code| |]; try nafin.
  pose proof (remove_allocation_NA m1 (type_heap c (a_type (get_alloc v slot))) (a_size (get_alloc v slot))) as H2.
  destruct (remove_allocation c m1 _ _) as (m2 & rr). cbn [fst] in H2. nafin.
Qed.

Lemma free_single_L v slot : NAv v (fst (free_single c v slot)).
Proof. unfold free_single. destruct (_ =? 1); [apply bl_free_L|]. destruct (_ =? 2); [apply free_dedicated_L|apply NAv_refl]. Qed.

Lemma multi_free_L slots : forall v, NAv v (fst (multi_free c v slots)).
Proof.
  induction slots as [|s tl IH]; intros v; cbn [multi_free]; [apply NAv_refl|].
  pose proof (free_single_L v s) as H. destruct (free_single c v s) as (v1 & r). cbn [fst] in H.
  destruct r as [[]|code| |]; cbn [fst]; try exact H. eapply NAv_trans; [exact H|].
  eapply NAv_trans; [apply (NAv_eq v1 (set_alloc v1 s (set_allocated (get_alloc v1 s) false))); reflexivity|apply IH].
Qed.

Lemma bind_memory_L v slot image res off : NAv v (fst (bind_memory v slot image res off)).
Proof.
  unfold bind_memory. destruct (res =? 0); [apply NAv_refl|]. destruct (negb _); [apply NAv_refl|]. destruct (off <? 0); [apply NAv_refl|].
  match goal with |- context [match ?t with OK _ => _ | ER _ => _ | PANIC => _ | STUCK => _ end] => destruct t as [o|code| |] end; try apply NAv_refl.
  pose proof (dev_bind_NA (v_m v) image res (a_mem (get_alloc v slot)) o) as H.
  destruct (dev_bind _ _ _ _ _) as (m1 & code). cbn [fst] in H. nafin.
Qed.

Lemma create_resource_L v slot image kind sub devreq resusage minAlign usage flags req pref ctb pool :
  NAv v (fst (create_resource c v slot image kind sub devreq resusage minAlign usage flags req pref ctb pool)).
Proof.
  unfold create_resource. pose proof (dev_create_res_NA (v_m v) image kind devreq) as H1.
  destruct (dev_create_res (v_m v) image kind devreq) as ((m1 & code) & id). cbn [fst] in H1.
  destruct (negb _); [nafin|].
  assert (H2 : NA m1 (fst (fst (fst (get_requirements c m1 image id))))).
  { unfold get_requirements. pose proof (dev_requirements_NA m1 image id) as Hq. destruct (dev_requirements m1 image id) as (mq & rq). destruct (11 <=? _); exact Hq. }
  destruct (get_requirements c m1 image id) as (((m2 & rq) & rd) & pd). cbn [fst] in H2.
  match goal with |- context [multi_allocate c (set_m v m2) ?a1 ?a2 ?a3 ?a4 ?a5 ?a6 ?a7 usage flags req pref ctb pool sub [slot]] =>
    pose proof (multi_allocate_L (set_m v m2) a1 a2 a3 a4 a5 a6 a7 usage flags req pref ctb pool sub [slot]) as H;
    destruct (multi_allocate c (set_m v m2) a1 a2 a3 a4 a5 a6 a7 usage flags req pref ctb pool sub [slot]) as (v3 & r) end.
  cbn [fst] in H. assert (K3 : NAv v v3) by (unfold NAv in *; cbn [v_m set_m] in H; eapply NA_trans; [exact H1|]; eapply NA_trans; [exact H2|exact H]).
  pose proof (dev_destroy_res_NA (v_m v3) image id) as Hd3.
  destruct r as [[]|acode| |]; cbn [fst]; [|unfold NAv in *; cbn [v_m set_m]; eapply NA_trans; eauto|exact K3|exact K3].
  destruct (fl flags F_DONTBIND); [exact K3|].
  pose proof (bind_memory_L v3 slot image id 0) as H4. destruct (bind_memory v3 slot image id 0) as (v4 & br). cbn [fst] in H4.
  assert (K4 : NAv v v4) by (eapply NAv_trans; eauto).
  destruct br as [[]|bcode| |]; cbn [fst]; try exact K4.
  assert (H5 : NAv v4 (fst (if a_allocated (get_alloc v4 slot) then multi_free c v4 [slot] else (v4, OK tt)))) by (destruct (a_allocated _); [apply multi_free_L|apply NAv_refl]).
  destruct (if a_allocated (get_alloc v4 slot) then multi_free c v4 [slot] else (v4, OK tt)) as (v5 & fr). cbn [fst] in *.
  pose proof (dev_destroy_res_NA (v_m v5) image id) as Hd5.
  unfold NAv in *. cbn [v_m set_m]. eapply NA_trans; [exact K4|]. eapply NA_trans; [exact H5|exact Hd5].
Qed.

Lemma pool_destroy_L v uid : NAv v (fst (pool_destroy c v uid)).
Proof.
  unfold pool_destroy. destruct (find_pool (v_pools v) uid) as [p|]; [|apply NAv_refl]. destruct (p_ded p); [|apply NAv_refl].
  pose proof (bl_destroy_L v (LPool uid)) as H. destruct (bl_destroy c v (LPool uid)) as (v1 & r). cbn [fst] in H.
  destruct r as [[]|code| |]; cbn [fst]; exact H.
Qed.

Lemma create_pool_L v ty flags blockSize minB maxB0 minAlign : NAv v (fst (create_pool c v ty flags blockSize minB maxB0 minAlign)).
Proof.
  unfold create_pool. destruct (_ <? minB); [apply NAv_refl|]. destruct (_ || _); [apply NAv_refl|]. destruct (negb _); [apply NAv_refl|]. destruct (_ && _); [apply NAv_refl|].
  match goal with |- context [create_min_blocks c (Z.to_nat minB) ?w ?lr0 ?bs] =>
    pose proof (create_min_blocks_L (Z.to_nat minB) w lr0 bs) as H; destruct (create_min_blocks c (Z.to_nat minB) w lr0 bs) as (v1 & r) end.
  cbn [fst] in H. assert (K1 : NAv v v1) by exact H.
  destruct r as [[]|code| |]; cbn [fst]; try exact K1.
  pose proof (pool_destroy_L v1 (v_next_uid v)) as H2. destruct (pool_destroy c v1 (v_next_uid v)) as (v2 & dr). cbn [fst] in *.
  eapply NAv_trans; [exact K1|]. eapply NAv_trans; [exact H2|apply NAv_eq; reflexivity].
Qed.

Lemma destroy_lists_L n : forall v t, NAv v (fst (destroy_lists c v n t)).
Proof.
  induction n as [|k IH]; intros v t; cbn [destroy_lists]; [apply NAv_refl|]. destruct (get_blist v (LDef t)); [|apply IH].
  pose proof (bl_destroy_L v (LDef t)) as H. destruct (bl_destroy c v (LDef t)) as (v1 & r). cbn [fst] in H.
  destruct r as [[]|code| |]; cbn [fst]; try exact H. eapply NAv_trans; [exact H|apply IH].
Qed.

Lemma allocation_map_L v slot : NAv v (fst (allocation_map c v slot)).
Proof.
  unfold allocation_map. destruct (negb _); [apply NAv_refl|]. destruct (negb _); [apply NAv_refl|]. destruct (_ =? 1).
  - destruct (get_block v _ _) as [b|]; [|apply NAv_refl].
    pose proof (sm_map_NA (v_m v) (bk_mem b) (bk_sm b)) as H. destruct (sm_map c (v_m v) (bk_mem b) (bk_sm b)) as ((m1 & s1) & r). cbn [fst] in H.
    destruct r as [[]|code| |]; try nafin. destruct (find_offset _ _); nafin.
  - destruct (_ =? 2); [|apply NAv_refl]. pose proof (sm_map_NA (v_m v) (a_mem (get_alloc v slot)) (a_sm (get_alloc v slot))) as H.
    destruct (sm_map c (v_m v) _ _) as ((m1 & s1) & r). cbn [fst] in H. nafin.
Qed.

Lemma allocation_unmap_L v slot : NAv v (fst (allocation_unmap v slot)).
Proof.
  unfold allocation_unmap. destruct (negb _); [apply NAv_refl|]. destruct (_ =? 1).
  - destruct (get_block v _ _) as [b|]; [|apply NAv_refl].
    pose proof (sm_unmap_NA (v_m v) (bk_mem b) (bk_sm b)) as H. destruct (sm_unmap (v_m v) (bk_mem b) (bk_sm b)) as ((m1 & s1) & r). cbn [fst] in H. nafin.
  - destruct (_ =? 2); [|apply NAv_refl]. pose proof (sm_unmap_NA (v_m v) (a_mem (get_alloc v slot)) (a_sm (get_alloc v slot))) as H.
    destruct (sm_unmap (v_m v) _ _) as ((m1 & s1) & r). cbn [fst] in H. nafin.
Qed.

Lemma allocation_free_L v slot : NAv v (fst (allocation_free c v slot)).
Proof. unfold allocation_free. destruct (negb _); [apply NAv_refl|apply multi_free_L]. Qed.

(* one API function *)
Lemma allocate_memory_L v slot size align typeBits usage flags req pref ctb pool :
  NAv v (fst (allocate_memory c v slot size align typeBits usage flags req pref ctb pool)).
Proof. unfold allocate_memory. destruct (a_allocated _); [apply NAv_refl|apply multi_allocate_L]. Qed.

Lemma allocate_memory_slice_L v slot n size align typeBits usage flags req pref ctb pool :
  NAv v (fst (allocate_memory_slice c v slot n size align typeBits usage flags req pref ctb pool)).
Proof.
  unfold allocate_memory_slice. cbn zeta. destruct (slot_range slot (Z.to_nat n)) as [|s0 tl] eqn:Es; [apply NAv_refl|]. rewrite <- Es.
  destruct (existsb _ _); [apply NAv_refl|apply multi_allocate_L].
Qed.

Lemma allocation_flush_L v inval slot off size : NAv v (fst (allocation_flush c v inval slot off size)).
Proof.
  unfold allocation_flush. destruct (negb _); [apply NAv_refl|]. destruct (flush_range c v _ off size) as [[(ro & rs)|]|code| |]; try apply NAv_refl.
  pose proof (dev_flush_NA (v_m v) inval (a_mem (get_alloc v slot)) ro rs) as H. destruct (dev_flush _ _ _ _ _) as (m1 & code). cbn [fst] in H. nafin.
Qed.

Lemma harness_rw_L v slot : NAv v (fst (harness_rw c v slot)).
Proof.
  unfold harness_rw. pose proof (allocation_map_L v slot) as H. destruct (allocation_map c v slot) as (v1 & r). cbn [fst] in H.
  destruct r as [[]|code| |]; cbn [fst]; try exact H.
  pose proof (allocation_unmap_L v1 slot) as H2. destruct (allocation_unmap v1 slot) as (v2 & ur). cbn [fst] in *. eapply NAv_trans; eauto.
Qed.

Lemma build_stats_string_L v : NAv v (fst (build_stats_string c v)).
Proof. unfold build_stats_string. destruct (calculate_statistics c v); [|apply NAv_refl]. cbn [fst]. unfold NAv. cbn [v_m set_m]. apply stats_budgets_NA. Qed.

Lemma allocator_destroy_L v : NAv v (fst (allocator_destroy c v)).
Proof. unfold allocator_destroy. destruct (existsb _ (v_ded v)); [apply NAv_refl|]. destruct (v_pools v); [|apply NAv_refl]. destruct (existsb _ _); [apply NAv_refl|apply destroy_lists_L]. Qed.

Lemma create_buffer_L v slot size devreq bufUsage minAlign usage flags req pref ctb pool :
  NAv v (fst (create_buffer c v slot size devreq bufUsage minAlign usage flags req pref ctb pool)).
Proof.
  unfold create_buffer. destruct (a_allocated _); [apply NAv_refl|]. destruct (_ && _); [apply NAv_refl|]. destruct (size =? 0); [apply NAv_refl|].
  destruct (_ && _); [apply NAv_refl|apply create_resource_L].
Qed.

Lemma create_image_L v slot tiling width devreq imgUsage usage flags req pref ctb pool :
  NAv v (fst (create_image c v slot tiling width devreq imgUsage usage flags req pref ctb pool)).
Proof. unfold create_image. destruct (a_allocated _); [apply NAv_refl|]. destruct (width =? 0); [apply NAv_refl|apply create_resource_L]. Qed.

Lemma destroy_with_resource_L v slot image res : NAv v (fst (destroy_with_resource c v slot image res)).
Proof.
  unfold destroy_with_resource. destruct (res =? 0); [apply allocation_free_L|].
  apply (NAv_trans v (set_m v (dev_destroy_res (v_m v) image res))); [apply (dev_destroy_res_NA (v_m v) image res)|apply allocation_free_L].
Qed.

Lemma allocate_for_resource_L v slot image res usage flags req pref ctb pool :
  NAv v (fst (allocate_for_resource c v slot image res usage flags req pref ctb pool)).
Proof.
  unfold allocate_for_resource. destruct (res =? 0); [apply NAv_refl|]. destruct (a_allocated _); [apply NAv_refl|].
  assert (H2 : NA (v_m v) (fst (fst (fst (get_requirements c (v_m v) image res))))).
  { unfold get_requirements. pose proof (dev_requirements_NA (v_m v) image res) as Hq. destruct (dev_requirements (v_m v) image res) as (mq & rq). destruct (11 <=? _); exact Hq. }
  destruct (get_requirements c (v_m v) image res) as (((m1 & rq) & rd) & pd). cbn [fst] in H2.
  eapply NAv_trans; [|apply multi_allocate_L]. nafin.
Qed.

Lemma raw_create_L v image kind devreq : NAv v (fst (raw_create v image kind devreq)).
Proof. unfold raw_create. pose proof (dev_create_res_NA (v_m v) image kind devreq) as H. destruct (dev_create_res _ _ _ _) as ((m1 & code) & id). cbn [fst] in H. nafin. Qed.

Lemma raw_destroy_L v image res : NAv v (fst (raw_destroy v image res)).
Proof. unfold raw_destroy. cbn [fst]. unfold NAv. cbn [v_m set_m]. apply dev_destroy_res_NA. Qed.

Lemma exec_L v o : NAv v (fst (exec c v o)).
Proof.
  destruct o; cbn [exec].
  - unfold allocate_memory. destruct (a_allocated _); [apply NAv_refl|apply multi_allocate_L].
  - unfold allocate_memory_slice. cbn zeta. destruct (slot_range slot (Z.to_nat n)) as [|s0 tl] eqn:Es; [apply NAv_refl|]. rewrite <- Es.
    destruct (existsb _ _); [apply NAv_refl|apply multi_allocate_L].
  - apply allocation_free_L.
  - apply multi_free_L.
  - apply allocation_map_L.
  - apply allocation_unmap_L.
  - unfold allocation_flush. destruct (negb _); [apply NAv_refl|]. destruct (flush_range c v _ off size) as [[(ro & rs)|]|code| |]; try apply NAv_refl.
    pose proof (dev_flush_NA (v_m v) inval (a_mem (get_alloc v slot)) ro rs) as H. destruct (dev_flush _ _ _ _ _) as (m1 & code). cbn [fst] in H. nafin.
  - unfold harness_rw. pose proof (allocation_map_L v slot) as H. destruct (allocation_map c v slot) as (v1 & r). cbn [fst] in H.
    destruct r as [[]|code| |]; cbn [fst]; try exact H.
    pose proof (allocation_unmap_L v1 slot) as H2. destruct (allocation_unmap v1 slot) as (v2 & ur). cbn [fst] in *. eapply NAv_trans; eauto.
  - apply create_pool_L.
  - apply pool_destroy_L.
  - unfold build_stats_string. destruct (calculate_statistics c v); [|apply NAv_refl]. cbn [fst]. unfold NAv. cbn [v_m set_m]. apply stats_budgets_NA.
  - unfold allocator_destroy. destruct (existsb _ (v_ded v)); [apply NAv_refl|]. destruct (v_pools v); [|apply NAv_refl]. destruct (existsb _ _); [apply NAv_refl|apply destroy_lists_L].
  - unfold create_buffer. destruct (a_allocated _); [apply NAv_refl|]. destruct (_ && _); [apply NAv_refl|]. destruct (size =? 0); [apply NAv_refl|].
    destruct (_ && _); [apply NAv_refl|apply create_resource_L].
  - unfold create_image. destruct (a_allocated _); [apply NAv_refl|]. destruct (width =? 0); [apply NAv_refl|apply create_resource_L].
  - unfold destroy_with_resource. destruct (res =? 0); [apply allocation_free_L|].
    apply (NAv_trans v (set_m v (dev_destroy_res (v_m v) image res))); [apply (dev_destroy_res_NA (v_m v) image res)|apply allocation_free_L].
  - unfold allocate_for_resource. destruct (res =? 0); [apply NAv_refl|]. destruct (a_allocated _); [apply NAv_refl|].
    assert (H2 : NA (v_m v) (fst (fst (fst (get_requirements c (v_m v) image res))))).
    { unfold get_requirements. pose proof (dev_requirements_NA (v_m v) image res) as Hq. destruct (dev_requirements (v_m v) image res) as (mq & rq). destruct (11 <=? _); exact Hq. }
    destruct (get_requirements c (v_m v) image res) as (((m1 & rq) & rd) & pd). cbn [fst] in H2.
    eapply NAv_trans; [|apply multi_allocate_L]. nafin.
  - apply bind_memory_L.
  - unfold raw_create. pose proof (dev_create_res_NA (v_m v) image kind devreq) as H. destruct (dev_create_res _ _ _ _) as ((m1 & code) & id). cbn [fst] in H. nafin.
  - unfold raw_destroy. cbn [fst]. unfold NAv. cbn [v_m set_m]. apply dev_destroy_res_NA.
Qed.

(* one API call: an object of the state after with an old id is an object of the state before, same memory type and size *)
End Pass.
