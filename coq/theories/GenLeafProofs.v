(* GenLeafProofs.v — the SECOND tie between the Go code and the hand-written models, for the pure
   leaf functions: GenLeaf.v is regenerated from the Go sources by tools/go2coq on every build
   (explicit 64-bit wrap-around semantics, GoSem.v); here each generated definition is proved
   equal to the hand-written model function on a stated domain.  The domain hypotheses say
   exactly where Go's wrap-around / panics do not matter; each covers the domain in which the
   models use the function (block sizes < 2^39, offsets and sizes inside the block, alignments
   and granularities powers of two <= 2^39, counters far below 2^62).
   A change of one of the Go functions changes GenLeaf.v and breaks the theorem here
   (bin/leaf-search then looks for a concrete differing input). *)
From Coq Require Import ZArith Lia Bool List.
From Coq Require Import ZifyBool.
From Arsenal Require Import Util Bits Gran Tlsf SizeClass Pass Linear SyncMem GoSem GenLeaf.
Open Scope Z_scope.
Ltac Zify.zify_post_hook ::= Z.to_euclidean_division_equations.

(* the powers of two that delimit the Go types, as literals for lia *)
Ltac pows :=
  change (2 ^ 64) with 18446744073709551616 in *;
  change (2 ^ 63) with 9223372036854775808 in *;
  change (2 ^ 62) with 4611686018427387904 in *;
  change (2 ^ 22) with 4194304 in *.

(* split on the condition of every if-then-else of the goal *)
Ltac case_ifs :=
  repeat match goal with
         | |- context [if ?c then _ else _] => let E := fresh "Ecase" in destruct c eqn:E
         end.

(* both sides are the same chain of tests: walk down the chain *)
Ltac same_ifs :=
  repeat match goal with
         | |- (if ?c then _ else _) = (if ?c then _ else _) => destruct c
         end.

(* ------------------------------------------------------------------ memutils/util.go *)

Lemma wrap_i64_sub1 x y : -2 ^ 63 < x + y <= 2 ^ 63 -> -2 ^ 63 <= y < 2 ^ 63 ->
  wrap_i64 (wrap_i64 (x + wrap_i64 y) - 1) = x + y - 1.
Proof. intros Hxy Hy. pows. unfold wrap_i64. lia. Qed.

Lemma int_of_not_pred a : 0 <= a <= 2 ^ 63 ->
  wrap_i64 (go_not_u64 (wrap_u64 (a - 1))) = Z.lnot (a - 1).
Proof.
  intros Ha. pows. destruct (Z.eq_dec a 0) as [->|Hne].
  - exact int_of_not_u64_m1.
  - apply int_of_not_u64. lia.
Qed.

(* AlignUp(value int, alignment uint): equal to the model formula whenever value+alignment-1
   does not leave the int range; the alignment need not even be a power of two *)
Theorem gen_AlignUp_eq v a :
  0 <= a < 2 ^ 63 -> -2 ^ 63 < v + a <= 2 ^ 63 ->
  GenLeaf.AlignUp v a = align_up v a.
Proof.
  intros Ha Hva. unfold GenLeaf.AlignUp, align_up, go_and.
  rewrite int_of_not_pred by lia. rewrite wrap_i64_sub1 by lia. reflexivity.
Qed.
Print Assumptions gen_AlignUp_eq.

Theorem gen_AlignDown_eq v a :
  0 <= a <= 2 ^ 63 ->
  GenLeaf.AlignDown v a = align_down v a.
Proof.
  intros Ha. unfold GenLeaf.AlignDown, align_down, go_and.
  rewrite int_of_not_pred by lia. reflexivity.
Qed.
Print Assumptions gen_AlignDown_eq.

(* ------------------------------------------------------------------ memutils/metadata/tlsf.go *)

Lemma msb_of_big s : 256 < s < 2 ^ 63 ->
  wrap_i64 (63 - lzcnt64 (wrap_u64 s)) = Z.log2 s /\ 8 <= Z.log2 s < 63.
Proof.
  intros Hs. pows. rewrite wrap_u64_id by lia. rewrite lzcnt64_log2 by lia.
  pose proof (log2_ge_8 s ltac:(lia)) as H8. pose proof (log2_lt_63 s ltac:(lia)) as H63.
  replace (63 - (63 - Z.log2 s)) with (Z.log2 s) by lia.
  split; [apply wrap_i64_id; lia|lia].
Qed.

(* sizeToMemoryClass(size int) uint8: every int *)
Theorem gen_sizeToMemoryClass_eq s :
  -2 ^ 63 <= s < 2 ^ 63 ->
  GenLeaf.sizeToMemoryClass s = size_to_class s.
Proof.
  intros Hs. unfold GenLeaf.sizeToMemoryClass, size_to_class.
  destruct (Z.gtb_spec s 256) as [Hbig|Hsmall]; [|reflexivity].
  destruct (msb_of_big s ltac:(lia)) as [-> Hk].
  cbv zeta. rewrite (wrap_u8_id (Z.log2 s)) by lia. apply wrap_u8_id. lia.
Qed.
Print Assumptions gen_sizeToMemoryClass_eq.

(* sizeToSecondIndex(size int, memoryClass uint8) uint16.  The model keeps the uint16 truncation
   only in the memoryClass != 0 branch; for memoryClass = 0 the two agree while (size-1)/64 fits
   a uint16, which covers the only use (memoryClass = 0 iff size <= 256). *)
Theorem gen_sizeToSecondIndex_eq s mc :
  0 <= s < 2 ^ 63 -> 0 <= mc <= 248 -> (mc = 0 -> s <= 2 ^ 22) ->
  GenLeaf.sizeToSecondIndex s mc = size_to_sli s mc.
Proof.
  intros Hs Hmc Hsmall. pows. unfold GenLeaf.sizeToSecondIndex, size_to_sli.
  destruct (Z.eqb_spec mc 0) as [E0|Hne]; cbn [negb].
  - specialize (Hsmall E0). unfold wrap_u16, wrap_i64, go_quot. lia.
  - cbv zeta.
    replace (wrap_u8 (wrap_u8 (mc + 7) - 5)) with (mc + 2) by (unfold wrap_u8; lia).
    rewrite wrap_u64_id by lia. rewrite go_shr_u64_spec by lia. reflexivity.
Qed.
Print Assumptions gen_sizeToSecondIndex_eq.

(* getListIndex(memoryClass uint8, secondIndex uint16) int: the whole range of both types *)
Theorem gen_getListIndex_eq mc sli :
  0 <= mc < 256 -> 0 <= sli < 65536 ->
  GenLeaf.getListIndex mc sli = list_index mc sli.
Proof.
  intros Hmc Hsli. unfold GenLeaf.getListIndex, list_index.
  destruct (Z.eqb_spec mc 0) as [E0|Hne]; cbv zeta; unfold wrap_i64, wrap_u32, wrap_u8; lia.
Qed.
Print Assumptions gen_getListIndex_eq.

Lemma size_to_class_range s : 0 <= s < 2 ^ 63 ->
  0 <= size_to_class s <= 55 /\ (size_to_class s = 0 -> s <= 256).
Proof.
  intros Hs. pows. unfold size_to_class. destruct (Z.gtb_spec s 256) as [Hbig|Hsmall]; [|lia].
  pose proof (log2_ge_8 s ltac:(lia)). pose proof (log2_lt_63 s ltac:(lia)). lia.
Qed.

Lemma size_to_sli_range s mc : 0 <= s -> (mc = 0 -> s <= 2 ^ 22) -> 0 <= size_to_sli s mc < 65536.
Proof.
  intros Hs Hsmall. pows. unfold size_to_sli. destruct (Z.eqb_spec mc 0) as [E0|Hne].
  - specialize (Hsmall E0). lia.
  - apply Z.mod_pos_bound. lia.
Qed.

(* getListIndexFromSize(size int) int: every non-negative int *)
Theorem gen_getListIndexFromSize_eq s :
  0 <= s < 2 ^ 63 ->
  GenLeaf.getListIndexFromSize s = list_of_size s.
Proof.
  intros Hs. unfold GenLeaf.getListIndexFromSize, list_of_size. cbv zeta.
  pose proof (size_to_class_range s Hs) as [Hmc Hz].
  assert (Hsmall : size_to_class s = 0 -> s <= 2 ^ 22) by (intros E; specialize (Hz E); pows; lia).
  rewrite gen_sizeToMemoryClass_eq by lia.
  rewrite gen_sizeToSecondIndex_eq by (assumption || lia).
  apply gen_getListIndex_eq; [lia|]. apply size_to_sli_range; [lia|assumption].
Qed.
Print Assumptions gen_getListIndexFromSize_eq.

(* sizeForNextList(allocSize int) int: never panics and equals the model below 2^62 (the shift
   count mostSignificantBit - secondLevelIndex is an int; it is >= 3 whenever it is evaluated) *)
Theorem gen_sizeForNextList_eq s :
  -2 ^ 63 <= s < 2 ^ 62 ->
  GenLeaf.sizeForNextList s = Ret (size_for_next_list s).
Proof.
  intros Hs. pows. unfold GenLeaf.sizeForNextList, size_for_next_list. cbv zeta.
  destruct (Z.gtb_spec s 256) as [Hbig|Hsmall].
  - destruct (msb_of_big s ltac:(pows; lia)) as [-> Hk].
    assert (Hk62 : Z.log2 s < 62).
    { apply Z.log2_lt_pow2; [lia|]. change (2 ^ 62) with 4611686018427387904. lia. }
    rewrite (wrap_i64_id (Z.log2 s - 5)) by lia.
    destruct (Z.ltb_spec (Z.log2 s - 5) 0) as [Hneg|Hnn]; [lia|].
    rewrite go_shl_u64_one by lia.
    pose proof (pow2_le_of_log2 s (Z.log2 s - 5) ltac:(lia) ltac:(lia)) as Hle.
    pose proof (Z.pow_pos_nonneg 2 (Z.log2 s - 5) ltac:(lia) ltac:(lia)) as Hpos.
    rewrite (wrap_i64_id (2 ^ (Z.log2 s - 5))) by lia.
    rewrite wrap_i64_id by lia. reflexivity.
  - replace (wrap_i64 (256 - 64)) with 192 by reflexivity.
    destruct (Z.gtb_spec s 192) as [Hmid|Hlow]; [reflexivity|].
    rewrite wrap_i64_id by lia. reflexivity.
Qed.
Print Assumptions gen_sizeForNextList_eq.

(* ------------------------------------------------------------------ vam/granularity.go *)

(* AllocationsConflict(first, second uint32) bool: no range condition at all *)
Theorem gen_AllocationsConflict_eq a b :
  GenLeaf.AllocationsConflict a b = conflict a b.
Proof.
  unfold GenLeaf.AllocationsConflict, conflict. cbv zeta.
  destruct (Z.gtb_spec a b) as [Hgt|Hle].
  - rewrite Z.min_r, Z.max_l by lia. same_ifs; case_ifs; reflexivity.
  - rewrite Z.min_l, Z.max_r by lia. same_ifs; case_ifs; reflexivity.
Qed.
Print Assumptions gen_AllocationsConflict_eq.

Corollary gen_AllocationsConflict_handler gr regs a b :
  GenLeaf.AllocationsConflict a b = allocations_conflict (mkGran HVam gr regs) a b.
Proof. rewrite gen_AllocationsConflict_eq. reflexivity. Qed.
Print Assumptions gen_AllocationsConflict_handler.

(* RoundUpAllocRequest(allocType uint32, allocSize int, allocAlignment uint) (int, uint) *)
Theorem gen_RoundUpAllocRequest_eq gr regs atype size align :
  0 <= gr < 2 ^ 63 -> -2 ^ 63 < size + gr <= 2 ^ 63 ->
  GenLeaf.RoundUpAllocRequest gr atype size align = round_up (mkGran HVam gr regs) atype size align.
Proof.
  intros Hgr Hsz. unfold GenLeaf.RoundUpAllocRequest, round_up. cbn [g_h g_g]. cbv zeta.
  rewrite gen_AlignUp_eq by assumption.
  destruct (gr >? 1); [|reflexivity].
  destruct ((gr <=? 256) && (atype =? 5) || ((atype =? 3) || (atype =? 1))); [|reflexivity].
  destruct (align <? gr); reflexivity.
Qed.
Print Assumptions gen_RoundUpAllocRequest_eq.

Theorem gen_IsEnabled_eq gr regs :
  GenLeaf.IsEnabled gr = enabled (mkGran HVam gr regs).
Proof. reflexivity. Qed.
Print Assumptions gen_IsEnabled_eq.

(* offsetToRegionIndex(offset int) int = offset >> log2(granularity); panics for granularity 0
   (shift count -1), which the domain excludes *)
Theorem gen_offsetToRegionIndex_eq gr off :
  1 <= gr < 2 ^ 64 ->
  GenLeaf.offsetToRegionIndex gr off = Ret (Z.shiftr off (Z.log2 gr)).
Proof.
  intros Hgr. pows. unfold GenLeaf.offsetToRegionIndex.
  rewrite lzcnt64_log2 by lia. pose proof (log2_lt_64 gr ltac:(lia)) as Hl.
  rewrite (wrap_i64_id (63 - (63 - Z.log2 gr))) by lia.
  replace (63 - (63 - Z.log2 gr)) with (Z.log2 gr) by lia.
  destruct (Z.ltb_spec (Z.log2 gr) 0) as [Hneg|Hnn]; [lia|].
  rewrite go_shr_i64_spec by lia. reflexivity.
Qed.
Print Assumptions gen_offsetToRegionIndex_eq.

Theorem gen_offsetToRegionIndex_panics off : GenLeaf.offsetToRegionIndex 0 off = Panic tt.
Proof. reflexivity. Qed.

Theorem gen_getStartSlot_eq h gr regs off :
  1 <= gr <= 2 ^ 63 ->
  GenLeaf.getStartSlot gr off = Ret (start_slot (mkGran h gr regs) off).
Proof.
  intros Hgr. unfold GenLeaf.getStartSlot, start_slot, slot_of, go_and. cbn [g_g].
  rewrite gen_offsetToRegionIndex_eq by (pows; lia).
  rewrite int_of_not_pred by lia. reflexivity.
Qed.
Print Assumptions gen_getStartSlot_eq.

Theorem gen_getEndSlot_eq h gr regs off size :
  1 <= gr <= 2 ^ 63 -> -2 ^ 63 <= size < 2 ^ 63 -> -2 ^ 63 < off + size <= 2 ^ 63 ->
  GenLeaf.getEndSlot gr off size = Ret (end_slot (mkGran h gr regs) off size).
Proof.
  intros Hgr Hsize Hsum. unfold GenLeaf.getEndSlot, end_slot, slot_of, go_and. cbn [g_g].
  rewrite gen_offsetToRegionIndex_eq by (pows; lia).
  rewrite int_of_not_pred by lia.
  replace (wrap_i64 (wrap_i64 (off + size) - 1)) with (off + size - 1)
    by (pows; unfold wrap_i64; lia).
  reflexivity.
Qed.
Print Assumptions gen_getEndSlot_eq.

(* ------------------------------------------------------------------ memutils/defrag/pass.go *)

(* Go: defragCounterPass = 0, defragCounterIgnore = 1, defragCounterEnd = 2 (iota) *)
Definition counter_code (c : counter) : Z :=
  match c with CPass => 0 | CIgnore => 1 | CEnd => 2 end.

(* checkCounters(bytes int): the generated function takes the five fields it reads and returns
   (status, ignoredAllocs'); the model returns the whole record.  The second conjunct is the frame
   condition: the model changes nothing but ignoredAllocs, as the Go function does. *)
Theorem gen_checkCounters_eq p bytes :
  -2 ^ 63 <= ps_bytes_moved (p_stats p) + bytes < 2 ^ 63 ->
  -2 ^ 63 <= p_ignored p + 1 < 2 ^ 63 ->
  GenLeaf.checkCounters (p_max_bytes p) (p_max_allocs p) (ps_bytes_moved (p_stats p))
                        (ps_allocs_moved (p_stats p)) (p_ignored p) bytes
  = (counter_code (snd (check_counters p bytes)), p_ignored (fst (check_counters p bytes)))
  /\ fst (check_counters p bytes) = set_ignored p (p_ignored (fst (check_counters p bytes))).
Proof.
  intros Hb Hi. pows. destruct p as [maxb maxa [bm bf am af] ign]. cbn in Hb, Hi.
  unfold GenLeaf.checkCounters, check_counters, set_ignored, max_allocs_to_ignore. cbn.
  rewrite (wrap_i64_id (bm + bytes)) by lia. rewrite (wrap_i64_id (ign + 1)) by lia.
  case_ifs; cbn; try lia; split; reflexivity.
Qed.
Print Assumptions gen_checkCounters_eq.

(* incrementCounters(bytes int) bool: result, new BytesMoved, new AllocationsMoved; on the panic
   path the counters have already been updated, in Go and in the model *)
Definition incres_outcome (r : pass * incres) : outcome (bool * Z * Z) (Z * Z) :=
  let s := p_stats (fst r) in
  match snd r with
  | IContinue => Ret (false, ps_bytes_moved s, ps_allocs_moved s)
  | IStop => Ret (true, ps_bytes_moved s, ps_allocs_moved s)
  | IPanic => Panic (ps_bytes_moved s, ps_allocs_moved s)
  end.

Theorem gen_incrementCounters_eq p bytes :
  -2 ^ 63 <= ps_bytes_moved (p_stats p) + bytes < 2 ^ 63 ->
  -2 ^ 63 <= ps_allocs_moved (p_stats p) + 1 < 2 ^ 63 ->
  GenLeaf.incrementCounters (p_max_bytes p) (p_max_allocs p) (ps_bytes_moved (p_stats p))
                            (ps_allocs_moved (p_stats p)) bytes
  = incres_outcome (increment_counters p bytes)
  /\ fst (increment_counters p bytes)
     = set_stats p (mkPS (ps_bytes_moved (p_stats (fst (increment_counters p bytes))))
                         (ps_bytes_freed (p_stats p))
                         (ps_allocs_moved (p_stats (fst (increment_counters p bytes))))
                         (ps_allocs_freed (p_stats p))).
Proof.
  intros Hb Ha. pows. destruct p as [maxb maxa [bm bf am af] ign]. cbn in Hb, Ha.
  unfold GenLeaf.incrementCounters, increment_counters, incres_outcome, set_stats. cbn.
  rewrite (wrap_i64_id (bm + bytes)) by lia. rewrite (wrap_i64_id (am + 1)) by lia.
  case_ifs; cbn; try lia; split; reflexivity.
Qed.
Print Assumptions gen_incrementCounters_eq.

(* ------------------------------------------------------------------ memutils/metadata/linear.go *)

(* blocksOnSamePage(resourceOffset1, resourceSize1, resourceOffset2, pagesize int) bool: the three
   explicit panics are the model's None *)
Definition page_outcome (r : option bool) : outcome bool unit :=
  match r with Some b => Ret b | None => Panic tt end.

Theorem gen_blocksOnSamePage_eq off1 size1 off2 pagesize :
  -2 ^ 63 < off1 + size1 < 2 ^ 63 -> -2 ^ 63 < pagesize <= 2 ^ 63 ->
  GenLeaf.blocksOnSamePage off1 size1 off2 pagesize
  = page_outcome (blocks_on_same_page off1 size1 off2 pagesize).
Proof.
  intros Hsum Hpage. pows.
  unfold GenLeaf.blocksOnSamePage, blocks_on_same_page, page_outcome, go_and, go_not_i64. cbv zeta.
  rewrite (wrap_i64_id (off1 + size1)) by lia.
  destruct (off1 + size1 >? off2); [reflexivity|].
  destruct (size1 <? 1); [reflexivity|].
  destruct (pagesize <? 1); [reflexivity|].
  replace (wrap_i64 (off1 + size1 - 1)) with (off1 + size1 - 1) by (unfold GoSem.wrap_i64; lia).
  rewrite (wrap_i64_id (pagesize - 1)) by lia. reflexivity.
Qed.
Print Assumptions gen_blocksOnSamePage_eq.

(* ------------------------------------------------------------------ vam/internal/vulkan/sync_memory.go *)

(* postMapUnmap() bool: result, then delayCounter (uint32), statusCounter (int32), extraMapping
   after the call.  The model writes the same wrap-around, so no range condition is needed.
   Second conjunct: the model changes nothing but these three fields. *)
Theorem gen_postMapUnmap_eq s :
  GenLeaf.postMapUnmap (delayCounter s) (statusCounter s) (extra s)
  = (snd (post_map_unmap s), delayCounter (fst (post_map_unmap s)),
     statusCounter (fst (post_map_unmap s)), extra (fst (post_map_unmap s)))
  /\ fst (post_map_unmap s)
     = set_extra (set_counters s (delayCounter (fst (post_map_unmap s))) (statusCounter (fst (post_map_unmap s))))
                 (extra (fst (post_map_unmap s))).
Proof.
  destruct s as [refs mp d st ex fr].
  unfold GenLeaf.postMapUnmap, post_map_unmap, set_extra, set_counters, map_delay. cbn.
  change (SyncMem.wrap_u32 (d + 1)) with (GoSem.wrap_u32 (d + 1)).
  change (SyncMem.wrap_i32 (st + 1)) with (GoSem.wrap_i32 (st + 1)).
  case_ifs; cbn; try lia; split; reflexivity.
Qed.
Print Assumptions gen_postMapUnmap_eq.
