(* LinearFree.v — cleanupAfterFree turns the weak invariant WInv into the full invariant LInv without
   changing the live items; Free of a live item succeeds and removes exactly that item; user-data
   lookup/update of a live item (linear block metadata model). *)
From Coq Require Import ZArith List Bool Lia.
From Coq Require Import ZifyBool.
From Arsenal Require Import Util Bits Gran Linear LinearInv LinearAlloc.
Import ListNotations.
Open Scope Z_scope.
Ltac Zify.zify_post_hook ::= Z.div_mod_to_equations.

(* ------------------------------------------------------------------ the trimming loops in closed form *)

Lemma count_free_take_drop v : count_free v = zlen (take_free v) + count_free (drop_free v).
Proof.
  rewrite (take_drop_free v) at 1. rewrite count_free_app, (count_free_all _ (take_free_all v)). reflexivity.
Qed.

Lemma absorb_eq pre win nm :
  absorb_leading_free (pre ++ win) (zlen pre) nm = Some (zlen pre + zlen (take_free win), nm - zlen (take_free win)).
Proof.
  unfold absorb_leading_free. rewrite suffix_from_app, count_leading_free_spec. reflexivity.
Qed.

Lemma trim_tail_rev_spec V R :
  trim_tail_rev (V ++ R) (count_free V) = Some (drop_free V ++ R, count_free (drop_free V)).
Proof.
  induction V as [|s V IH].
  - cbn [app drop_free]. rewrite count_free_nil. destruct R; reflexivity.
  - cbn [app trim_tail_rev drop_free]. rewrite count_free_cons. pose proof (count_free_nonneg V).
    destruct (is_free s) eqn:E.
    + destruct (1 + count_free V >? 0) eqn:E1; [|lia].
      replace (1 + count_free V - 1) with (count_free V) by lia. exact IH.
    + rewrite count_free_cons, E. destruct (0 + count_free V >? 0); reflexivity.
Qed.

Lemma trim_tail_eq P V :
  trim_tail (P ++ V) (count_free V) = Some (P ++ strip_free V, count_free (strip_free V)).
Proof.
  unfold trim_tail. rewrite rev_app_distr, <- (count_free_rev V), trim_tail_rev_spec.
  rewrite rev_app_distr, rev_involutive. unfold strip_free. rewrite count_free_rev. reflexivity.
Qed.

Lemma trim_front_eq v : trim_front v (count_free v) = Some (drop_free v, count_free (drop_free v)).
Proof.
  induction v as [|s v IH]; [reflexivity|].
  cbn [trim_front drop_free]. rewrite count_free_cons. pose proof (count_free_nonneg v).
  destruct (is_free s) eqn:E.
  - destruct (1 + count_free v >? 0) eqn:E1; [|lia].
    replace (1 + count_free v - 1) with (count_free v) by lia. exact IH.
  - rewrite count_free_cons, E. destruct (0 + count_free v >? 0); reflexivity.
Qed.

Lemma next_live_free s r : is_free s = true -> next_live (s :: r) = next_live r.
Proof. intros H. cbn. rewrite H. reflexivity. Qed.

Lemma compact_loop_spec items : compact_loop items (length (lives items)) = Some (lives items).
Proof.
  induction items as [|s r IH]; [reflexivity|]. destruct (is_free s) eqn:E.
  - rewrite lives_cons_free by assumption. destruct (length (lives r)) eqn:El.
    + destruct (lives r); [reflexivity|discriminate].
    + cbn [compact_loop] in *. rewrite next_live_free by assumption. exact IH.
  - rewrite lives_cons_live by assumption. cbn [length compact_loop next_live]. rewrite E, IH. reflexivity.
Qed.

(* ------------------------------------------------------------------ the weak invariant under removal of freed items *)

Lemma sl_order m win win' sv sv' : sl win' win -> sl sv' sv -> sl (order m win' sv') (order m win sv).
Proof.
  intros H1 H2. unfold order. destruct m; apply sl_app; auto. apply sl_rev. assumption.
Qed.

Lemma W_shrink pre win sv m sf nm ns size g pre' win' sv' :
  W pre win sv m sf nm ns size g ->
  all_free pre' -> sl (pre' ++ win') (pre ++ win) -> sl win' win -> sl sv' sv ->
  lives win' = lives win -> lives sv' = lives sv ->
  W pre' win' sv' m sf (count_free win') (count_free sv') size g.
Proof.
  intros HW Hpre Hsl1 Hslw Hsls Hlw Hls.
  pose proof (order_pos _ _ _ _ _ _ _ _ _ HW) as Hpo. destruct HW.
  constructor; try assumption; try reflexivity.
  - eapply sl_Forall; eauto.
  - eapply sl_Forall; eauto.
  - eapply chain_sl; eauto. apply item_ok_pos. assumption.
  - eapply chain_sl; [apply sl_order; eassumption|exact Hpo|assumption].
  - intros Hm. apply w_mode in Hm. subst sv. inversion Hsls. reflexivity.
  - rewrite Hlw, Hls. assumption.
Qed.

(* "the ends are live" *)
Record T (win sv : list sub) : Prop := mkT {
  t_head : forall s r, win = s :: r -> is_free s = false;
  t_lastw : forall v s, win = v ++ [s] -> is_free s = false;
  t_lasts : forall v s, sv = v ++ [s] -> is_free s = false
}.

Lemma strip_free_head v s r : strip_free (drop_free v) = s :: r -> is_free s = false.
Proof.
  intros H. pose proof (strip_tail_free (drop_free v)) as E. rewrite H in E. cbn in E.
  eapply drop_free_head. exact E.
Qed.

Lemma drop_strip_last v v0 s : drop_free (strip_free v) = v0 ++ [s] -> is_free s = false.
Proof.
  intros H. pose proof (take_drop_free (strip_free v)) as E. rewrite H, app_assoc in E.
  eapply strip_free_last. exact E.
Qed.

Lemma T_trim win sv : T (strip_free (drop_free win)) (drop_free (strip_free sv)).
Proof.
  constructor.
  - apply strip_free_head.
  - intros v s. apply strip_free_last.
  - intros v s. apply drop_strip_last.
Qed.

Lemma lives_all_live v s : In s (lives v) -> is_free s = false.
Proof. intros H. apply lives_is_live in H. tauto. Qed.

Lemma T_compact win sv : T win sv -> T (lives win) sv.
Proof.
  intros [H1 H2 H3]. constructor; [| |exact H3].
  - intros s r E. apply (lives_all_live win). rewrite E. left; reflexivity.
  - intros v s E. apply (lives_all_live win). rewrite E. apply in_or_app. right. left; reflexivity.
Qed.

Lemma W_trim pre win sv m sf nm ns size g :
  W pre win sv m sf nm ns size g ->
  W (pre ++ take_free win) (strip_free (drop_free win)) (drop_free (strip_free sv)) m sf
    (count_free (strip_free (drop_free win))) (count_free (drop_free (strip_free sv))) size g.
Proof.
  intros HW. assert (Hslw : sl (take_free win ++ strip_free (drop_free win)) win).
  { rewrite (take_drop_free win) at 3. apply sl_app; [apply sl_refl|apply sl_strip_free]. }
  eapply W_shrink; [exact HW|..].
  - apply Forall_app. split; [apply (w_pre _ _ _ _ _ _ _ _ _ HW)|apply take_free_all].
  - rewrite <- app_assoc. apply sl_app; [apply sl_refl|exact Hslw].
  - eapply sl_trans; [apply sl_strip_free|apply sl_drop_free].
  - eapply sl_trans; [apply sl_drop_free|apply sl_strip_free].
  - rewrite lives_strip_free, lives_drop_free. reflexivity.
  - rewrite lives_drop_free, lives_strip_free. reflexivity.
Qed.

Lemma W_compact pre win sv m sf nm ns size g :
  W pre win sv m sf nm ns size g -> W [] (lives win) sv m sf 0 ns size g.
Proof.
  intros HW. pose proof (w_ns _ _ _ _ _ _ _ _ _ HW) as Hns.
  rewrite <- (count_free_lives win). rewrite Hns. eapply W_shrink; [exact HW|..].
  - constructor.
  - cbn [app]. rewrite <- (app_nil_l (lives win)). apply sl_app; [apply sl_nil_l|apply sl_lives].
  - apply sl_lives.
  - apply sl_refl.
  - apply lives_idem.
  - reflexivity.
Qed.

Lemma W_mode_empty pre win m sf nm ns size g :
  W pre win [] m sf nm ns size g -> W pre win [] MEmpty sf nm ns size g.
Proof.
  intros HW. destruct HW. constructor; try assumption; [|reflexivity].
  destruct m; cbn [order rev] in *; rewrite ?app_nil_r in *; assumption.
Qed.

Lemma W_size_nonneg pre win sv m sf nm ns size g : W pre win sv m sf nm ns size g -> 0 <= size.
Proof. intros HW. destruct HW. eapply chain_le; [|exact w_first]. apply item_ok_pos. assumption. Qed.

Lemma W_clear_first pre sv m sf nm ns size g :
  W pre [] sv m sf nm ns size g -> W [] [] sv m sf 0 ns size g.
Proof.
  intros HW. pose proof (W_size_nonneg _ _ _ _ _ _ _ _ _ HW). destruct HW.
  constructor; try assumption; try reflexivity.
  - constructor.
  - constructor.
  - split; cbn; [exact I|lia].
Qed.

Lemma W_swap sv sf nm ns size g :
  W [] [] sv MRing sf nm ns size g ->
  W (take_free sv) (drop_free sv) [] MEmpty sf (ns - zlen (take_free sv)) 0 size g.
Proof.
  intros HW. destruct HW. cbn [order app] in *. rewrite app_nil_r in w_order.
  pose proof (item_ok_pos _ w_ok2) as Hp.
  constructor.
  - apply take_free_all.
  - rewrite w_ns. pose proof (count_free_take_drop sv). lia.
  - reflexivity.
  - rewrite <- take_drop_free. assumption.
  - constructor.
  - rewrite <- take_drop_free. assumption.
  - cbn [order app]. eapply chain_sl; [apply sl_drop_free|exact Hp|assumption].
  - reflexivity.
  - cbn [lives filter app] in *. rewrite app_nil_r, lives_drop_free. assumption.
  - assumption.
Qed.
