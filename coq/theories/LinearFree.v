(* LinearFree.v — cleanupAfterFree turns the weak invariant WInv into the full invariant LInv without
   changing the live items; Free of a live item succeeds and removes exactly that item; user-data
   lookup/update of a live item (linear block metadata model). *)
From Coq Require Import ZArith List Bool Lia.
From Coq Require Import ZifyBool.
From Arsenal Require Import Util Bits Gran Linear LinearInv LinearAlloc.
Import ListNotations.
Open Scope Z_scope.
Ltac Zify.zify_post_hook ::= Z.div_mod_to_equations.
Ltac splits := repeat match goal with |- _ /\ _ => split end.

(* ------------------------------------------------------------------ the trimming loops in closed form *)

Lemma count_free_take_drop v : count_free v = zlen (take_free v) + count_free (drop_free v).
Proof.
  rewrite (take_drop_free v) at 1. rewrite count_free_app, (count_free_all _ (take_free_all v)). reflexivity.
Qed.

Lemma absorb_eq pre win nm :
  absorb_leading_free (pre ++ win) (zlen pre) nm = Some (zlen pre + zlen (take_free win), nm - zlen (take_free win)).
Proof.
  unfold absorb_leading_free. rewrite suffix_from_app, count_leading_free_spec. reflexivity.
Qed.

Lemma trim_tail_rev_spec V R :
  trim_tail_rev (V ++ R) (count_free V) = Some (drop_free V ++ R, count_free (drop_free V)).
Proof.
  induction V as [|s V IH].
  - cbn [app drop_free]. rewrite count_free_nil. destruct R; reflexivity.
  - cbn [app trim_tail_rev drop_free]. rewrite count_free_cons. pose proof (count_free_nonneg V).
    destruct (is_free s) eqn:E.
    + destruct (1 + count_free V >? 0) eqn:E1; [|lia].
      replace (1 + count_free V - 1) with (count_free V) by lia. exact IH.
    + rewrite count_free_cons, E. destruct (0 + count_free V >? 0); reflexivity.
Qed.

Lemma trim_tail_eq P V :
  trim_tail (P ++ V) (count_free V) = Some (P ++ strip_free V, count_free (strip_free V)).
Proof.
  unfold trim_tail. rewrite rev_app_distr, <- (count_free_rev V), trim_tail_rev_spec.
  rewrite rev_app_distr, rev_involutive. unfold strip_free. rewrite count_free_rev. reflexivity.
Qed.

Lemma trim_front_eq v : trim_front v (count_free v) = Some (drop_free v, count_free (drop_free v)).
Proof.
  induction v as [|s v IH]; [reflexivity|].
  cbn [trim_front drop_free]. rewrite count_free_cons. pose proof (count_free_nonneg v).
  destruct (is_free s) eqn:E.
  - destruct (1 + count_free v >? 0) eqn:E1; [|lia].
    replace (1 + count_free v - 1) with (count_free v) by lia. exact IH.
  - rewrite count_free_cons, E. destruct (0 + count_free v >? 0); reflexivity.
Qed.

Lemma next_live_free s r : is_free s = true -> next_live (s :: r) = next_live r.
Proof. intros H. cbn. rewrite H. reflexivity. Qed.

Lemma compact_loop_spec items : compact_loop items (length (lives items)) = Some (lives items).
Proof.
  induction items as [|s r IH]; [reflexivity|]. destruct (is_free s) eqn:E.
  - rewrite lives_cons_free by assumption. destruct (length (lives r)) eqn:El.
    + destruct (lives r); [reflexivity|discriminate].
    + cbn [compact_loop] in *. rewrite next_live_free by assumption. exact IH.
  - rewrite lives_cons_live by assumption. cbn [length compact_loop next_live]. rewrite E, IH. reflexivity.
Qed.

(* ------------------------------------------------------------------ the weak invariant under removal of freed items *)

Lemma sl_order m win win' sv sv' : sl win' win -> sl sv' sv -> sl (order m win' sv') (order m win sv).
Proof.
  intros H1 H2. unfold order. destruct m; apply sl_app; auto. apply sl_rev. assumption.
Qed.

Lemma W_shrink pre win sv m sf nm ns size g pre' win' sv' :
  W pre win sv m sf nm ns size g ->
  all_free pre' -> sl (pre' ++ win') (pre ++ win) -> sl win' win -> sl sv' sv ->
  lives win' = lives win -> lives sv' = lives sv ->
  W pre' win' sv' m sf (count_free win') (count_free sv') size g.
Proof.
  intros HW Hpre Hsl1 Hslw Hsls Hlw Hls.
  pose proof (order_pos _ _ _ _ _ _ _ _ _ HW) as Hpo. destruct HW.
  constructor; try assumption; try reflexivity.
  - eapply sl_Forall; eauto.
  - eapply sl_Forall; eauto.
  - eapply chain_sl; eauto. apply item_ok_pos. assumption.
  - eapply chain_sl; [apply sl_order; eassumption|exact Hpo|assumption].
  - intros Hm. apply w_mode in Hm. subst sv. inversion Hsls. reflexivity.
  - rewrite Hlw, Hls. assumption.
Qed.

(* "the ends are live" *)
Record T (win sv : list sub) : Prop := mkT {
  t_head : forall s r, win = s :: r -> is_free s = false;
  t_lastw : forall v s, win = v ++ [s] -> is_free s = false;
  t_lasts : forall v s, sv = v ++ [s] -> is_free s = false
}.

Lemma strip_free_head v s r : strip_free (drop_free v) = s :: r -> is_free s = false.
Proof.
  intros H. pose proof (strip_tail_free (drop_free v)) as E. rewrite H in E. cbn in E.
  eapply drop_free_head. exact E.
Qed.

Lemma drop_strip_last v v0 s : drop_free (strip_free v) = v0 ++ [s] -> is_free s = false.
Proof.
  intros H. pose proof (take_drop_free (strip_free v)) as E. rewrite H, app_assoc in E.
  eapply strip_free_last. exact E.
Qed.

Lemma T_trim win sv : T (strip_free (drop_free win)) (drop_free (strip_free sv)).
Proof.
  constructor.
  - apply strip_free_head.
  - intros v s. apply strip_free_last.
  - intros v s. apply drop_strip_last.
Qed.

Lemma lives_all_live v s : In s (lives v) -> is_free s = false.
Proof. intros H. apply lives_is_live in H. tauto. Qed.

Lemma T_compact win sv : T win sv -> T (lives win) sv.
Proof.
  intros [H1 H2 H3]. constructor; [| |exact H3].
  - intros s r E. apply (lives_all_live win). rewrite E. left; reflexivity.
  - intros v s E. apply (lives_all_live win). rewrite E. apply in_or_app. right. left; reflexivity.
Qed.

Lemma W_trim pre win sv m sf nm ns size g :
  W pre win sv m sf nm ns size g ->
  W (pre ++ take_free win) (strip_free (drop_free win)) (drop_free (strip_free sv)) m sf
    (count_free (strip_free (drop_free win))) (count_free (drop_free (strip_free sv))) size g.
Proof.
  intros HW. assert (Hslw : sl (take_free win ++ strip_free (drop_free win)) win).
  { rewrite (take_drop_free win) at 3. apply sl_app; [apply sl_refl|apply sl_strip_free]. }
  eapply W_shrink; [exact HW|..].
  - apply Forall_app. split; [apply (w_pre _ _ _ _ _ _ _ _ _ HW)|apply take_free_all].
  - rewrite <- app_assoc. apply sl_app; [apply sl_refl|exact Hslw].
  - eapply sl_trans; [apply sl_strip_free|apply sl_drop_free].
  - eapply sl_trans; [apply sl_drop_free|apply sl_strip_free].
  - rewrite lives_strip_free, lives_drop_free. reflexivity.
  - rewrite lives_drop_free, lives_strip_free. reflexivity.
Qed.

Lemma W_compact pre win sv m sf nm ns size g :
  W pre win sv m sf nm ns size g -> W [] (lives win) sv m sf 0 ns size g.
Proof.
  intros HW. pose proof (w_ns _ _ _ _ _ _ _ _ _ HW) as Hns.
  rewrite <- (count_free_lives win). rewrite Hns. eapply W_shrink; [exact HW|..].
  - constructor.
  - cbn [app]. rewrite <- (app_nil_l (lives win)). apply sl_app; [apply sl_nil_l|apply sl_lives].
  - apply sl_lives.
  - apply sl_refl.
  - apply lives_idem.
  - reflexivity.
Qed.

Lemma W_mode_empty pre win m sf nm ns size g :
  W pre win [] m sf nm ns size g -> W pre win [] MEmpty sf nm ns size g.
Proof.
  intros HW. destruct HW. constructor; try assumption; [|reflexivity].
  destruct m; cbn [order rev] in *; rewrite ?app_nil_r in *; assumption.
Qed.

Lemma W_size_nonneg pre win sv m sf nm ns size g : W pre win sv m sf nm ns size g -> 0 <= size.
Proof. intros HW. destruct HW. eapply chain_le; [|exact w_first]. apply item_ok_pos. assumption. Qed.

Lemma W_clear_first pre sv m sf nm ns size g :
  W pre [] sv m sf nm ns size g -> W [] [] sv m sf 0 ns size g.
Proof.
  intros HW. pose proof (W_size_nonneg _ _ _ _ _ _ _ _ _ HW). destruct HW.
  constructor; try assumption; try reflexivity.
  - constructor.
  - constructor.
  - split; cbn; [exact I|lia].
Qed.

Lemma W_swap sv sf nm ns size g :
  W [] [] sv MRing sf nm ns size g ->
  W (take_free sv) (drop_free sv) [] MEmpty sf (ns - zlen (take_free sv)) 0 size g.
Proof.
  intros HW. destruct HW. cbn [order app] in *. rewrite app_nil_r in w_order.
  pose proof (item_ok_pos _ w_ok2) as Hp.
  constructor.
  - apply take_free_all.
  - rewrite w_ns. pose proof (count_free_take_drop sv). lia.
  - reflexivity.
  - rewrite <- take_drop_free. assumption.
  - constructor.
  - rewrite <- take_drop_free. assumption.
  - cbn [order app]. eapply chain_sl; [apply sl_drop_free|exact Hp|assumption].
  - reflexivity.
  - cbn [lives filter app] in *. rewrite app_nil_r, lives_drop_free. assumption.
  - assumption.
Qed.

(* ------------------------------------------------------------------ cleanupAfterFree *)

Lemma trim_tail_eq0 v : trim_tail v (count_free v) = Some (strip_free v, count_free (strip_free v)).
Proof. exact (trim_tail_eq [] v). Qed.

(* same configuration and same free-byte counter *)
Definition same_cfg (l l' : linear) : Prop :=
  l_size l' = l_size l /\ l_gran l' = l_gran l /\ l_h l' = l_h l.

Lemma same_cfg_refl l : same_cfg l l.
Proof. unfold same_cfg. auto. Qed.

Lemma same_cfg_trans a b c : same_cfg a b -> same_cfg b c -> same_cfg a c.
Proof. unfold same_cfg. intros (?&?&?) (?&?&?). repeat split; congruence. Qed.

Lemma compact_first_spec l pre win :
  first l = pre ++ win -> zlen pre = l_null_begin l -> l_null_middle l = count_free win ->
  exists l2 pre2 win2,
    compact_first l = Some l2 /\ first l2 = pre2 ++ win2 /\ zlen pre2 = l_null_begin l2 /\
    l_null_middle l2 = count_free win2 /\ second l2 = second l /\ l_null_second l2 = l_null_second l /\
    l_mode l2 = l_mode l /\ l_sum_free l2 = l_sum_free l /\ same_cfg l l2 /\
    ((pre2 = pre /\ win2 = win) \/ (pre2 = [] /\ win2 = lives win)).
Proof.
  intros Hf Hn Hnm. unfold compact_first. destruct (should_compact l).
  - pose proof (count_free_len win) as Hlen.
    assert (Hnn : zlen (first l) - l_null_begin l - l_null_middle l = zlen (lives win)).
    { rewrite Hf, zlen_app, <- Hn, Hnm. lia. }
    rewrite Hnn. pose proof (zlen_nonneg (lives win)).
    destruct (zlen (lives win) <? 0) eqn:E; [lia|].
    rewrite Hf, <- Hn, suffix_from_app. unfold zlen. rewrite Nat2Z.id, compact_loop_spec.
    eexists _, [], (lives win). split; [reflexivity|]. lsimp.
    rewrite count_free_lives. unfold same_cfg. lsimp. repeat split; try reflexivity. right. auto.
  - exists l, pre, win. repeat split; auto.
Qed.

Lemma L_of_T pre win sv m :
  T win sv -> (sv = [] -> m = MEmpty) -> win <> [] -> L pre win sv m.
Proof.
  intros [H1 H2 H3] Hsv Hwin. constructor; auto. intros E. congruence.
Qed.

Lemma finish_spec l pre win :
  first l = pre ++ win -> zlen pre = l_null_begin l ->
  W pre win (second l) (l_mode l) (l_sum_free l) (l_null_middle l) (l_null_second l) (l_size l) (l_gran l) ->
  T win (second l) ->
  exists l', first_became_empty (if zlen (second l) =? 0 then with_mode l MEmpty else l) = Some l' /\
             LInv l' /\ live l' = lives win ++ lives (second l) /\ same_cfg l l' /\ l_sum_free l' = l_sum_free l.
Proof.
  intros Hf Hn HW HT.
  (* the mode fix-up *)
  set (l3 := if zlen (second l) =? 0 then with_mode l MEmpty else l).
  assert (H3 : first l3 = pre ++ win /\ l_null_begin l3 = zlen pre /\ second l3 = second l /\
               l_sum_free l3 = l_sum_free l /\ same_cfg l l3 /\ l_null_middle l3 = l_null_middle l /\
               l_null_second l3 = l_null_second l /\
               (second l = [] -> l_mode l3 = MEmpty) /\
               W pre win (second l) (l_mode l3) (l_sum_free l) (l_null_middle l) (l_null_second l) (l_size l) (l_gran l)).
  { unfold l3. destruct (zlen (second l) =? 0) eqn:Hz.
    - apply Z.eqb_eq, zlen_zero in Hz. unfold same_cfg. lsimp. splits; auto.
      rewrite Hz in *. eapply W_mode_empty; eauto.
    - unfold same_cfg. splits; auto. intros E. rewrite E in Hz. discriminate. }
  clearbody l3. destruct H3 as (Hf3 & Hn3 & Hs3 & Hsf3 & Hcfg3 & Hnm3 & Hns3 & Hsv3 & HW3).
  unfold first_became_empty. rewrite Hf3, Hn3, zlen_app.
  destruct (zlen pre + zlen win - zlen pre =? 0) eqn:Hwe.
  - (* the live window is empty: the first vector is cleared *)
    assert (Hwin : win = []) by (apply zlen_zero; lia). subst win.
    pose proof (W_clear_first _ _ _ _ _ _ _ _ HW3) as HW4.
    unfold swap_if_ring. lsimp. rewrite Hs3.
    destruct ((zlen (second l) >? 0) && mode_eqb (l_mode l3) MRing) eqn:Hswap.
    + (* ring buffer: the second vector becomes the first *)
      apply andb_true_iff in Hswap. destruct Hswap as (Hnz & Hring).
      assert (Hmr : l_mode l3 = MRing) by (destruct (l_mode l3); try discriminate; reflexivity).
      rewrite Hmr in HW4.
      pose proof (absorb_eq [] (second l) (l_null_second l3)) as Hab. cbn [app] in Hab.
      rewrite zlen_nil in Hab. rewrite Hab. clear Hab.
      eexists. split; [reflexivity|].
      pose proof (W_swap _ _ _ _ _ _ HW4) as HW5.
      assert (Hdne : drop_free (second l) <> []).
      { intros E. pose proof (take_drop_free (second l)) as Etd. rewrite E, app_nil_r in Etd.
        destruct (list_snoc_cases (second l)) as [E0|(v & s & Es)]; [rewrite E0 in Hnz; discriminate|].
        pose proof (t_lasts _ _ HT _ _ Es) as Hl.
        pose proof (take_free_all (second l)) as Hall. rewrite <- Etd, Es in Hall.
        apply Forall_app in Hall. destruct Hall as (_ & Hall). apply Forall_cons_iff in Hall. cbn in Hall.
        destruct Hall as (Hall & _). congruence. }
      split; [|split; [|split]].
      * apply (LInv_intro _ (take_free (second l)) (drop_free (second l))); lsimp.
        -- rewrite Hs3. apply take_drop_free.
        -- lia.
        -- rewrite Hns3, Hsf3. destruct Hcfg3 as (-> & -> & _). exact HW5.
        -- constructor; try congruence; try discriminate.
           ++ apply drop_free_head.
           ++ intros v s E. eapply (t_lasts _ _ HT (take_free (second l) ++ v)).
              rewrite <- app_assoc, <- E. apply take_drop_free.
           ++ intros v s E. destruct v; discriminate.
      * rewrite (live_of_split _ (take_free (second l)) (drop_free (second l))); lsimp.
        -- cbn [app lives filter]. rewrite app_nil_r, lives_drop_free. reflexivity.
        -- rewrite Hs3. apply take_drop_free.
        -- lia.
      * unfold same_cfg in *. lsimp. exact Hcfg3.
      * lsimp. exact Hsf3.
    + eexists. split; [reflexivity|].
      split; [|split; [|split]].
      * apply (LInv_intro _ [] []); lsimp; try reflexivity.
        -- rewrite Hs3, Hsf3, Hns3. destruct Hcfg3 as (-> & -> & _).
           replace (l_null_middle l3) with 0; [exact HW4|].
           rewrite Hnm3. destruct HW3. rewrite w_nm. reflexivity.
        -- rewrite Hs3. constructor; try congruence; try discriminate.
           ++ auto.
           ++ intros v s E. destruct v; discriminate.
           ++ apply (t_lasts _ _ HT).
           ++ intros Hmr _. rewrite Hmr in Hswap. cbn in Hswap. rewrite andb_true_r in Hswap.
              destruct (zlen (second l) >? 0) eqn:E; [discriminate|].
              assert (second l = []) by (apply zlen_zero; pose proof (zlen_nonneg (second l)); lia).
              apply Hsv3 in H. congruence.
      * rewrite (live_of_split _ [] []); lsimp; try reflexivity. rewrite Hs3. reflexivity.
      * unfold same_cfg in *. lsimp. exact Hcfg3.
      * lsimp. exact Hsf3.
  - assert (Hwin : win <> []) by (intros E; rewrite E, zlen_nil in Hwe; lia).
    exists l3. split; [reflexivity|]. split; [|split; [|split]]; auto.
    + apply (LInv_intro _ pre win); auto.
      * rewrite Hs3, Hsf3, Hnm3, Hns3. destruct Hcfg3 as (-> & -> & _). exact HW3.
      * rewrite Hs3. apply L_of_T; auto.
    + rewrite (live_of_split _ pre win); auto. rewrite Hs3. reflexivity.
Qed.

Lemma allocation_count_live l : WInv l -> allocation_count l = zlen (live l).
Proof.
  intros HI. destruct (WInv_elim _ HI) as (Hf & Hn & HW). destruct HW.
  unfold allocation_count, live. rewrite zlen_app. rewrite Hf at 1. rewrite zlen_app, <- Hn, w_nm, w_ns.
  pose proof (count_free_len (window l)). pose proof (count_free_len (second l)). lia.
Qed.

Theorem cleanup_spec l :
  WInv l ->
  exists l', cleanup_after_free l = Some l' /\ LInv l' /\ live l' = live l /\ same_cfg l l' /\
             l_sum_free l' = l_sum_free l.
Proof.
  intros HI. pose proof (allocation_count_live _ HI) as Hac.
  destruct (WInv_elim _ HI) as (Hf & Hn & HW).
  unfold cleanup_after_free, is_empty. rewrite Hac.
  destruct (zlen (live l) =? 0) eqn:Hemp.
  - (* everything freed *)
    assert (Hl : live l = []) by (apply zlen_zero; lia).
    eexists. split; [reflexivity|]. split; [|split; [|split]].
    + apply (LInv_intro _ [] []); lsimp; try reflexivity.
      * pose proof (W_size_nonneg _ _ _ _ _ _ _ _ _ HW). destruct HW.
        unfold live in Hl. rewrite Hl in w_sum.
        constructor; try reflexivity; try assumption; try (constructor; fail); try discriminate.
        -- split; cbn; [exact I|lia].
        -- split; cbn; [exact I|lia].
      * constructor; try congruence; try discriminate.
        -- intros v s E. destruct v; discriminate.
        -- intros v s E. destruct v; discriminate.
    + rewrite (live_of_split _ [] []); lsimp; try reflexivity. rewrite Hl. reflexivity.
    + unfold same_cfg. lsimp. auto.
    + lsimp. reflexivity.
  - (* the general case *)
    remember (prefix l) as pre eqn:Epre. remember (window l) as win eqn:Ewin.
    pose proof (w_nm _ _ _ _ _ _ _ _ _ HW) as Hnm. pose proof (w_ns _ _ _ _ _ _ _ _ _ HW) as Hns.
    pose proof (count_free_len win) as Hcl.
    destruct (l_null_begin l + l_null_middle l >? zlen (first l)) eqn:Hp.
    { rewrite Hf, zlen_app in Hp. pose proof (zlen_nonneg (lives win)). lia. }
    rewrite Hf, <- Hn, absorb_eq.
    replace (pre ++ win) with ((pre ++ take_free win) ++ drop_free win)
      by (rewrite <- app_assoc, <- take_drop_free; reflexivity).
    replace (l_null_middle l - zlen (take_free win)) with (count_free (drop_free win))
      by (rewrite Hnm, (count_free_take_drop win); lia).
    rewrite trim_tail_eq, Hns, trim_tail_eq0, trim_front_eq.
    set (pre1 := pre ++ take_free win). set (win1 := strip_free (drop_free win)).
    set (sv1 := drop_free (strip_free (second l))).
    set (l1 := with_nulls _ _ _ _).
    pose proof (W_trim _ _ _ _ _ _ _ _ _ HW) as HW1. fold pre1 win1 sv1 in HW1.
    pose proof (T_trim win (second l)) as HT1. fold win1 sv1 in HT1.
    assert (Hf1 : first l1 = pre1 ++ win1) by (unfold l1; lsimp; reflexivity).
    assert (Hn1 : zlen pre1 = l_null_begin l1) by (unfold l1, pre1; lsimp; rewrite zlen_app; reflexivity).
    assert (Hnm1 : l_null_middle l1 = count_free win1) by (unfold l1; lsimp; reflexivity).
    destruct (compact_first_spec l1 pre1 win1 Hf1 Hn1 Hnm1)
      as (l2 & pre2 & win2 & -> & Hf2 & Hn2 & Hnm2 & Hs2 & Hns2 & Hm2 & Hsf2 & Hcfg2 & Hcase).
    assert (Hs1 : second l1 = sv1) by (unfold l1; lsimp; reflexivity).
    assert (HW2 : W pre2 win2 (second l2) (l_mode l2) (l_sum_free l2) (l_null_middle l2) (l_null_second l2)
                    (l_size l2) (l_gran l2) /\ T win2 (second l2) /\ lives win2 = lives win1).
    { rewrite Hs2, Hs1, Hm2, Hsf2, Hnm2, Hns2. destruct Hcfg2 as (-> & -> & _).
      unfold l1; lsimp. destruct Hcase as [(-> & ->)|(-> & ->)].
      - auto.
      - split; [|split; [apply T_compact; exact HT1|apply lives_idem]].
        rewrite count_free_lives. eapply W_compact; eauto. }
    destruct HW2 as (HW2 & HT2 & Hlv2).
    destruct (finish_spec l2 pre2 win2 Hf2 Hn2 HW2 HT2) as (l' & -> & HI' & Hlive' & Hcfg' & Hsf').
    exists l'. split; [reflexivity|]. split; [exact HI'|]. split; [|split].
    + rewrite Hlive', Hlv2, Hs2, Hs1. unfold win1, sv1, live.
      rewrite lives_strip_free, !lives_drop_free, lives_strip_free, <- Ewin. reflexivity.
    + eapply same_cfg_trans; [|exact Hcfg']. eapply same_cfg_trans; [|exact Hcfg2].
      unfold same_cfg, l1. lsimp. auto.
    + rewrite Hsf', Hsf2. unfold l1. lsimp. reflexivity.
Qed.

(* ------------------------------------------------------------------ replacing an item by one with the same geometry *)

Definition same_geo (s s' : sub) : Prop :=
  s_off s' = s_off s /\ s_size s' = s_size s /\ s_reqsize s' = s_reqsize s /\ s_reqalign s' = s_reqalign s.

Lemma same_geo_refl s : same_geo s s.
Proof. unfold same_geo. auto. Qed.

Lemma geo_refl v : Forall2 same_geo v v.
Proof. induction v; constructor; auto using same_geo_refl. Qed.

Lemma geo_mid a s s' b : same_geo s s' -> Forall2 same_geo (a ++ s :: b) (a ++ s' :: b).
Proof. intros H. apply Forall2_app; [apply geo_refl|]. constructor; [exact H|apply geo_refl]. Qed.

Lemma geo_rev v v' : Forall2 same_geo v v' -> Forall2 same_geo (rev v) (rev v').
Proof.
  induction 1 as [|x y v v' Hxy _ IH]; cbn; [constructor|].
  apply Forall2_app; [exact IH|]. constructor; [exact Hxy|constructor].
Qed.

Lemma geo_order m win win' sv sv' :
  Forall2 same_geo win win' -> Forall2 same_geo sv sv' ->
  Forall2 same_geo (order m win sv) (order m win' sv').
Proof.
  intros H1 H2. unfold order. destruct m; apply Forall2_app; auto. apply geo_rev. exact H2.
Qed.

Lemma chain_geo v v' : Forall2 same_geo v v' -> forall lo hi, chain lo v hi -> chain lo v' hi.
Proof.
  induction 1 as [|x y v v' (Ho & Hs & _) _ IH]; intros lo hi Hc; [exact Hc|].
  apply chain_cons in Hc. apply chain_cons. rewrite Ho, Hs. split; [tauto|]. apply IH. tauto.
Qed.

Lemma item_ok_geo v v' : Forall2 same_geo v v' -> Forall item_ok v -> Forall item_ok v'.
Proof.
  induction 1 as [|x y v v' (Ho & Hs & Hrs & Hra) _ IH]; intros HF; [constructor|].
  apply Forall_cons_iff in HF. destruct HF as (Hx & HF). constructor; [|auto].
  unfold item_ok in *. rewrite Ho, Hs, Hrs, Hra. exact Hx.
Qed.

Lemma same_geo_mark s : same_geo s (mark_free s).
Proof. unfold same_geo. cbn. auto. Qed.

Lemma same_geo_tag t s : same_geo s (set_tag t s).
Proof. unfold same_geo. cbn. auto. Qed.

(* the weak invariant after items were replaced by items of the same geometry; the counters are
   recomputed *)
Lemma W_geo pre win sv m sf nm ns size g win' sv' :
  W pre win sv m sf nm ns size g ->
  Forall2 same_geo win win' -> Forall2 same_geo sv sv' ->
  W pre win' sv' m (size - sum_sizes (lives win' ++ lives sv')) (count_free win') (count_free sv') size g.
Proof.
  intros HW Hgw Hgs. destruct HW. constructor; try assumption; try reflexivity.
  - eapply item_ok_geo; [|exact w_ok1]. apply Forall2_app; [apply geo_refl|exact Hgw].
  - eapply item_ok_geo; eauto.
  - eapply chain_geo; [|exact w_first]. apply Forall2_app; [apply geo_refl|exact Hgw].
  - eapply chain_geo; [|exact w_order]. apply geo_order; assumption.
  - intros Hm. apply w_mode in Hm. subst sv. inversion Hgs. reflexivity.
Qed.

(* ------------------------------------------------------------------ Free: the marked states *)

(* l1 is l with the live item x marked as freed / removed, before cleanupAfterFree *)
Definition marked (l : linear) (x : sub) (l1 : linear) : Prop :=
  WInv l1 /\ same_cfg l l1 /\ l_sum_free l1 = l_sum_free l + s_size x /\
  exists a b, live l = a ++ x :: b /\ live l1 = a ++ b.

Lemma is_free_mark s : is_free (mark_free s) = true.
Proof. reflexivity. Qed.

Lemma lives_mid_live a s b : is_free s = false -> lives (a ++ s :: b) = lives a ++ s :: lives b.
Proof. intros H. rewrite lives_app, lives_cons_live by assumption. reflexivity. Qed.

Lemma lives_mid_free a s b : is_free s = true -> lives (a ++ s :: b) = lives a ++ lives b.
Proof. intros H. rewrite lives_app, lives_cons_free by assumption. reflexivity. Qed.

Lemma count_free_mid a s b : count_free (a ++ s :: b) = count_free a + (if is_free s then 1 else 0) + count_free b.
Proof. rewrite count_free_app, count_free_cons. lia. Qed.

(* first[nullBegin] is marked and absorbed into the prefix *)
Lemma mark_first_W pre x r sv m sf nm ns size g :
  W pre (x :: r) sv m sf nm ns size g -> is_free x = false ->
  W (pre ++ [mark_free x]) r sv m (sf + s_size x) nm ns size g.
Proof.
  intros HW Hx.
  pose proof (W_geo _ _ _ _ _ _ _ _ _ (mark_free x :: r) sv HW
                ltac:(apply (geo_mid [] x (mark_free x) r); apply same_geo_mark) (geo_refl sv)) as HW1.
  pose proof (W_shrink _ _ _ _ _ _ _ _ _ (pre ++ [mark_free x]) r sv HW1) as HW2.
  destruct HW. pose proof (count_free_cons x r) as Hc. rewrite Hx in Hc.
  replace (sf + s_size x) with (size - sum_sizes (lives (mark_free x :: r) ++ lives sv)).
  2:{ rewrite w_sum, lives_cons_free by reflexivity. rewrite lives_cons_live by assumption. cbn [app sum_sizes]. lia. }
  replace nm with (count_free r) by lia. rewrite w_ns.
  apply HW2.
  - apply Forall_app. split; [assumption|]. constructor; [reflexivity|constructor].
  - rewrite <- app_assoc. apply sl_refl.
  - constructor. apply sl_refl.
  - apply sl_refl.
  - rewrite lives_cons_free; reflexivity.
  - reflexivity.
Qed.

Lemma free_first_item_spec l x :
  LInv l -> In x (live l) ->
  free_first_item l (s_off x) = TSkip \/
  exists l1, free_first_item l (s_off x) = finish_free l1 /\ marked l x l1.
Proof.
  intros HI Hx. pose proof HI as (HWI & HL). destruct (WInv_elim _ HWI) as (Hf & Hn & HW).
  unfold free_first_item. destruct (zlen (first l) >? 0) eqn:Hz; [|left; reflexivity].
  assert (Hne : first l <> []) by (intros E; rewrite E in Hz; discriminate).
  destruct (window_facts _ HI Hne) as (w & ws & Hw & Hnth & _ & _ & Hwl & Hnb).
  rewrite Hnth. destruct (s_off w =? s_off x) eqn:Heq; [|left; reflexivity]. right.
  (* w and x have the same offset and both are in the address order: they are the same item *)
  assert (w = x).
  { apply live_in_order in Hx. destruct Hx as (Hx & _).
    pose proof (order_pos _ _ _ _ _ _ _ _ _ HW) as Hpo. destruct HW. destruct w_order as (Hc & _).
    eapply chain_off_inj; eauto; [|lia].
    unfold order. rewrite Hw. destruct (l_mode l); apply in_or_app; [right|right|left]; left; reflexivity. }
  subst w. eexists. split; [reflexivity|].
  rewrite Hw in HW. pose proof (mark_first_W _ _ _ _ _ _ _ _ _ _ HW Hwl) as HW1.
  unfold marked, same_cfg. lsimp. split; [|split; [auto|split; [reflexivity|]]].
  - apply (WInv_intro _ (prefix l ++ [mark_free x]) ws); lsimp.
    + rewrite Hf at 1. rewrite <- Hn, Hw, set_nth_z_mid, <- app_assoc. reflexivity.
    + rewrite zlen_app, zlen_cons, zlen_nil. lia.
    + exact HW1.
  - exists [], (lives ws ++ lives (second l)). unfold live at 1. rewrite Hw, lives_cons_live by assumption.
    split; [reflexivity|].
    rewrite (live_of_split _ (prefix l ++ [mark_free x]) ws); lsimp.
    + reflexivity.
    + rewrite Hf at 1. rewrite <- Hn, Hw, set_nth_z_mid, <- app_assoc. reflexivity.
    + rewrite zlen_app, zlen_cons, zlen_nil. lia.
Qed.

Lemma in_window_order m win sv s : In s win -> In s (order m win sv).
Proof. intros H. unfold order. destruct m; apply in_or_app; auto. Qed.

Lemma in_second_order m win sv s : In s sv -> In s (order m win sv).
Proof.
  intros H. unfold order. destruct m; apply in_or_app; auto. right. apply in_rev in H. exact H.
Qed.

(* offsets identify the items of the address order *)
Lemma live_unique l x s :
  WInv l -> In x (live l) -> In s (order (l_mode l) (window l) (second l)) -> s_off s = s_off x -> s = x.
Proof.
  intros HI Hx Hs Heq. destruct (WInv_elim _ HI) as (Hf & Hn & HW).
  apply live_in_order in Hx. destruct Hx as (Hx & _).
  pose proof (order_pos _ _ _ _ _ _ _ _ _ HW) as Hpo. destruct HW. destruct w_order as (Hc & _).
  eapply chain_off_inj; eauto.
Qed.

Lemma drop_last_win_W pre win0 x sv m sf nm ns size g :
  W pre (win0 ++ [x]) sv m sf nm ns size g -> is_free x = false ->
  W pre win0 sv m (sf + s_size x) nm ns size g.
Proof.
  intros HW Hx.
  pose proof (W_geo _ _ _ _ _ _ _ _ _ (win0 ++ [mark_free x]) sv HW
                (geo_mid win0 x (mark_free x) [] (same_geo_mark x)) (geo_refl sv)) as HW1.
  pose proof (W_shrink _ _ _ _ _ _ _ _ _ pre win0 sv HW1) as HW2.
  destruct HW. pose proof (count_free_snoc_live win0 x Hx) as Hc.
  replace (sf + s_size x) with (size - sum_sizes (lives (win0 ++ [mark_free x]) ++ lives sv)).
  2:{ rewrite w_sum, (lives_snoc_live win0 x Hx). rewrite lives_mid_free by reflexivity.
      rewrite !sum_sizes_app. cbn [lives filter sum_sizes]. lia. }
  replace nm with (count_free win0) by lia. rewrite w_ns.
  apply HW2; try assumption; try reflexivity.
  - apply sl_app; [apply sl_refl|]. rewrite <- (app_nil_r win0) at 1. apply sl_app; [apply sl_refl|apply sl_nil_l].
  - rewrite <- (app_nil_r win0) at 1. apply sl_app; [apply sl_refl|apply sl_nil_l].
  - apply sl_refl.
  - rewrite lives_mid_free by reflexivity. cbn [lives filter]. rewrite app_nil_r. reflexivity.
Qed.

Lemma drop_last_sv_W pre win sv0 x m sf nm ns size g :
  W pre win (sv0 ++ [x]) m sf nm ns size g -> is_free x = false ->
  W pre win sv0 m (sf + s_size x) nm ns size g.
Proof.
  intros HW Hx.
  pose proof (W_geo _ _ _ _ _ _ _ _ _ win (sv0 ++ [mark_free x]) HW (geo_refl win)
                (geo_mid sv0 x (mark_free x) [] (same_geo_mark x))) as HW1.
  pose proof (W_shrink _ _ _ _ _ _ _ _ _ pre win sv0 HW1) as HW2.
  destruct HW. pose proof (count_free_snoc_live sv0 x Hx) as Hc.
  replace (sf + s_size x) with (size - sum_sizes (lives win ++ lives (sv0 ++ [mark_free x]))).
  2:{ rewrite w_sum, (lives_snoc_live sv0 x Hx). rewrite lives_mid_free by reflexivity.
      rewrite !sum_sizes_app. cbn [lives filter sum_sizes]. lia. }
  replace ns with (count_free sv0) by lia. rewrite w_nm.
  apply HW2; try assumption; try reflexivity.
  - apply sl_refl.
  - apply sl_refl.
  - rewrite <- (app_nil_r sv0) at 1. apply sl_app; [apply sl_refl|apply sl_nil_l].
  - rewrite lives_mid_free by reflexivity. cbn [lives filter]. rewrite app_nil_r. reflexivity.
Qed.

Lemma free_last_item_spec l x :
  LInv l -> In x (live l) ->
  free_last_item l (s_off x) = TSkip \/
  exists l1, free_last_item l (s_off x) = finish_free l1 /\ marked l x l1.
Proof.
  intros HI Hx. pose proof HI as (HWI & HL). destruct (WInv_elim _ HWI) as (Hf & Hn & HW).
  unfold free_last_item.
  assert (Hsecond : l_mode l <> MEmpty ->
    match last_z (second l) with
    | Some s => if s_off s =? s_off x
                then finish_free (with_second (with_sum_free l (l_sum_free l + s_size s)) (removelast (second l)))
                else TSkip
    | None => TPanic
    end = TSkip \/
    exists l1, match last_z (second l) with
    | Some s => if s_off s =? s_off x
                then finish_free (with_second (with_sum_free l (l_sum_free l + s_size s)) (removelast (second l)))
                else TSkip
    | None => TPanic
    end = finish_free l1 /\ marked l x l1).
  { intros Hm. destruct (list_snoc_cases (second l)) as [E|(sv0 & s & Hsv)].
    { destruct HL. apply l_sv in E. congruence. }
    rewrite Hsv, last_z_snoc, removelast_snoc.
    destruct (s_off s =? s_off x) eqn:Heq; [|left; reflexivity]. right.
    assert (s = x).
    { apply (live_unique l x s HWI Hx); [|lia]. apply in_second_order. rewrite Hsv. apply in_or_app. right. left. reflexivity. }
    subst s. assert (Hxl : is_free x = false) by (destruct HL; eauto).
    eexists. split; [reflexivity|]. rewrite Hsv in HW.
    pose proof (drop_last_sv_W _ _ _ _ _ _ _ _ _ _ HW Hxl) as HW1.
    unfold marked, same_cfg. lsimp. split; [|split; [auto|split; [reflexivity|]]].
    - apply (WInv_intro _ (prefix l) (window l)); lsimp; auto.
    - exists (lives (window l) ++ lives sv0), []. unfold live at 1. rewrite Hsv, lives_snoc_live by assumption.
      split; [rewrite app_assoc; reflexivity|].
      rewrite (live_of_split _ (prefix l) (window l)); lsimp; auto. rewrite app_nil_r. reflexivity. }
  destruct (l_mode l) eqn:Hm; [|apply Hsecond; congruence|apply Hsecond; congruence].
  (* stack: the last item of the first vector *)
  assert (Hsv : second l = []) by (destruct HW; auto).
  unfold live in Hx. rewrite Hsv in Hx. cbn [lives filter] in Hx. rewrite app_nil_r in Hx.
  destruct (list_snoc_cases (window l)) as [E|(win0 & s & Hw)]; [rewrite E in Hx; destruct Hx|].
  rewrite Hf, Hw, app_assoc, last_z_snoc, removelast_snoc.
  destruct (s_off s =? s_off x) eqn:Heq; [|left; reflexivity]. right.
  assert (s = x).
  { apply (live_unique l x s HWI); [| |lia].
    - unfold live. rewrite Hsv. cbn [lives filter]. rewrite app_nil_r. exact Hx.
    - apply in_window_order. rewrite Hw. apply in_or_app. right. left. reflexivity. }
  subst s. assert (Hxl : is_free x = false) by (destruct HL; eauto).
  eexists. split; [reflexivity|]. rewrite Hw in HW.
  pose proof (drop_last_win_W _ _ _ _ _ _ _ _ _ _ HW Hxl) as HW1.
  unfold marked, same_cfg. lsimp. split; [|split; [auto|split; [reflexivity|]]].
  - apply (WInv_intro _ (prefix l) win0); lsimp; auto. rewrite Hm. exact HW1.
  - exists (lives win0), []. unfold live at 1. rewrite Hsv, Hw, lives_snoc_live by assumption.
    cbn [lives filter]. rewrite !app_nil_r. split; [reflexivity|].
    rewrite (live_of_split _ (prefix l) win0); lsimp; auto. rewrite Hsv. cbn [lives filter].
    rewrite app_nil_r. reflexivity.
Qed.

Lemma mark_mid_win_W pre a x b sv m sf nm ns size g :
  W pre (a ++ x :: b) sv m sf nm ns size g -> is_free x = false ->
  W pre (a ++ mark_free x :: b) sv m (sf + s_size x) (nm + 1) ns size g.
Proof.
  intros HW Hx.
  pose proof (W_geo _ _ _ _ _ _ _ _ _ (a ++ mark_free x :: b) sv HW
                (geo_mid a x (mark_free x) b (same_geo_mark x)) (geo_refl sv)) as HW1.
  destruct HW.
  replace (sf + s_size x) with (size - sum_sizes (lives (a ++ mark_free x :: b) ++ lives sv)).
  2:{ rewrite w_sum, (lives_mid_live a x b Hx). rewrite lives_mid_free by reflexivity.
      rewrite !sum_sizes_app. cbn [sum_sizes]. lia. }
  replace (nm + 1) with (count_free (a ++ mark_free x :: b)).
  2:{ rewrite w_nm, !count_free_mid, Hx, is_free_mark. lia. }
  rewrite w_ns. exact HW1.
Qed.

Lemma mark_mid_sv_W pre win a x b m sf nm ns size g :
  W pre win (a ++ x :: b) m sf nm ns size g -> is_free x = false ->
  W pre win (a ++ mark_free x :: b) m (sf + s_size x) nm (ns + 1) size g.
Proof.
  intros HW Hx.
  pose proof (W_geo _ _ _ _ _ _ _ _ _ win (a ++ mark_free x :: b) HW (geo_refl win)
                (geo_mid a x (mark_free x) b (same_geo_mark x))) as HW1.
  destruct HW.
  replace (sf + s_size x) with (size - sum_sizes (lives win ++ lives (a ++ mark_free x :: b))).
  2:{ rewrite w_sum, (lives_mid_live a x b Hx). rewrite lives_mid_free by reflexivity.
      rewrite !sum_sizes_app. cbn [sum_sizes]. lia. }
  replace (ns + 1) with (count_free (a ++ mark_free x :: b)).
  2:{ rewrite w_ns, !count_free_mid, Hx, is_free_mark. lia. }
  rewrite w_nm. exact HW1.
Qed.

Lemma window_sorted l : WInv l -> sorted_by s_off (window l).
Proof.
  intros HI. destruct (WInv_elim _ HI) as (Hf & Hn & HW). destruct HW.
  apply item_ok_pos in w_ok1. apply pos_sizes_app in w_ok1. destruct w_ok1 as (_ & Hp).
  destruct w_first as (Hc & _). apply chain_from_app in Hc. destruct Hc as (_ & Hc).
  eapply chain_sorted_asc; eauto.
Qed.

(* the binary search over the live window of the first vector *)
Lemma find_first_spec l offset :
  WInv l ->
  exists k found, sort_find (zlen (first l) - l_null_begin l) (cmp_first l offset) = Some (k, found) /\
    (found = true -> exists a s b, window l = a ++ s :: b /\ zlen a = k /\ s_off s = offset /\
                                   nth_z (first l) (k + l_null_begin l) = Some s) /\
    (found = false -> forall s, In s (window l) -> s_off s <> offset).
Proof.
  intros HI. destruct (WInv_elim _ HI) as (Hf & Hn & HW).
  destruct (sort_find_sorted s_off (prefix l) (window l) offset (cmp_first l offset) (window_sorted _ HI))
    as (k & found & Hsf & Ht & Hn').
  { intros i. unfold cmp_first. rewrite Hf at 1. rewrite Hn. reflexivity. }
  assert (Hz : zlen (first l) - l_null_begin l = zlen (window l)).
  { pose proof (f_equal zlen Hf) as E. rewrite zlen_app in E. lia. }
  exists k, found. rewrite Hz.
  split; [exact Hsf|]. split; [|exact Hn'].
  intros Hfound. destruct (Ht Hfound) as (a & s & b & Hw & Hk & Hs). exists a, s, b.
  repeat split; auto. rewrite Hf, Hw, <- Hn, <- Hk, nth_z_app_r by apply zlen_nonneg. apply nth_z_mid.
Qed.

Lemma free_middle_first_spec l x :
  LInv l -> In x (live l) ->
  (free_middle_first l (s_off x) = TSkip /\ ~ In x (window l)) \/
  exists l1, free_middle_first l (s_off x) = finish_free l1 /\ marked l x l1.
Proof.
  intros HI Hx. pose proof HI as (HWI & HL). destruct (WInv_elim _ HWI) as (Hf & Hn & HW).
  unfold free_middle_first.
  destruct (find_first_spec l (s_off x) HWI) as (k & found & -> & Ht & Hnf).
  destruct found.
  - right. destruct (Ht eq_refl) as (a & s & b & Hw & Hk & Hs & Hnth). rewrite Hnth.
    assert (s = x).
    { eapply live_unique; eauto. apply in_window_order. rewrite Hw. apply in_or_app. right. left. reflexivity. }
    subst s. assert (Hxl : is_free x = false) by (apply live_in_order in Hx; tauto).
    eexists. split; [reflexivity|]. rewrite Hw in HW.
    pose proof (mark_mid_win_W _ _ _ _ _ _ _ _ _ _ _ HW Hxl) as HW1.
    assert (Hf1 : set_nth_z (first l) (k + l_null_begin l) mark_free = prefix l ++ a ++ mark_free x :: b).
    { rewrite Hf at 1. rewrite Hw, app_assoc. replace (k + l_null_begin l) with (zlen (prefix l ++ a)) by (rewrite zlen_app; lia).
      rewrite set_nth_z_mid, <- app_assoc. reflexivity. }
    unfold marked, same_cfg. lsimp. split; [|split; [auto|split; [reflexivity|]]].
    + apply (WInv_intro _ (prefix l) (a ++ mark_free x :: b)); lsimp; auto.
    + exists (lives a), (lives b ++ lives (second l)). unfold live at 1. rewrite Hw, lives_mid_live by assumption.
      split; [rewrite <- app_assoc; reflexivity|].
      rewrite (live_of_split _ (prefix l) (a ++ mark_free x :: b)); lsimp; auto.
      rewrite lives_mid_free by reflexivity. rewrite <- app_assoc. reflexivity.
  - left. split; [reflexivity|]. intros Hin. exact (Hnf eq_refl x Hin eq_refl).
Qed.

Lemma second_sorted l :
  WInv l -> l_mode l <> MEmpty ->
  sorted_by (fun s => match l_mode l with MDouble => - s_off s | _ => s_off s end) (second l).
Proof.
  intros HI Hm. destruct (WInv_elim _ HI) as (Hf & Hn & HW).
  pose proof (order_pos _ _ _ _ _ _ _ _ _ HW) as Hpo. destruct HW. destruct w_order as (Hc & _).
  apply item_ok_pos in w_ok2.
  destruct (l_mode l); [congruence| |]; cbn [order] in *; apply chain_from_app in Hc.
  - destruct Hc as (Hc & _). eapply chain_sorted_asc; eauto.
  - destruct Hc as (_ & Hc). eapply chain_sorted_desc; eauto.
Qed.

(* the binary search over the second vector *)
Lemma find_second_spec l offset :
  WInv l -> l_mode l <> MEmpty ->
  exists k found, sort_find (zlen (second l)) (cmp_second l offset) = Some (k, found) /\
    (found = true -> exists a s b, second l = a ++ s :: b /\ zlen a = k /\ s_off s = offset /\
                                   nth_z (second l) k = Some s) /\
    (found = false -> forall s, In s (second l) -> s_off s <> offset).
Proof.
  intros HI Hm.
  destruct (sort_find_sorted _ [] (second l) (match l_mode l with MDouble => - offset | _ => offset end)
              (cmp_second l offset) (second_sorted _ HI Hm)) as (k & found & Hsf & Ht & Hn').
  { intros i. unfold cmp_second. cbn [app]. rewrite zlen_nil, Z.add_0_r.
    destruct (nth_z (second l) i); [|reflexivity]. destruct (l_mode l); f_equal; lia. }
  exists k, found. split; [exact Hsf|]. split.
  - intros Hfound. destruct (Ht Hfound) as (a & s & b & Hsv & Hk & Hs). exists a, s, b.
    repeat split; auto.
    + destruct (l_mode l); lia.
    + rewrite Hsv, <- Hk. apply nth_z_mid.
  - intros Hfound s Hin Heq. apply (Hn' Hfound s Hin). destruct (l_mode l); lia.
Qed.

Lemma free_middle_second_spec l x :
  LInv l -> In x (live l) ->
  (free_middle_second l (s_off x) = TSkip /\ ~ In x (second l)) \/
  exists l1, free_middle_second l (s_off x) = finish_free l1 /\ marked l x l1.
Proof.
  intros HI Hx. pose proof HI as (HWI & HL). destruct (WInv_elim _ HWI) as (Hf & Hn & HW).
  unfold free_middle_second. destruct (mode_eqb (l_mode l) MEmpty) eqn:Hme.
  { left. split; [reflexivity|]. assert (l_mode l = MEmpty) by (destruct (l_mode l); try discriminate; reflexivity).
    destruct HW. rewrite w_mode by assumption. auto. }
  assert (Hm : l_mode l <> MEmpty) by (intros E; rewrite E in Hme; discriminate).
  destruct (find_second_spec l (s_off x) HWI Hm) as (k & found & -> & Ht & Hnf).
  destruct found.
  - right. destruct (Ht eq_refl) as (a & s & b & Hsv & Hk & Hs & Hnth). rewrite Hnth.
    assert (s = x).
    { eapply live_unique; eauto. apply in_second_order. rewrite Hsv. apply in_or_app. right. left. reflexivity. }
    subst s. assert (Hxl : is_free x = false) by (apply live_in_order in Hx; tauto).
    eexists. split; [reflexivity|]. rewrite Hsv in HW.
    pose proof (mark_mid_sv_W _ _ _ _ _ _ _ _ _ _ _ HW Hxl) as HW1.
    assert (Hs1 : set_nth_z (second l) k mark_free = a ++ mark_free x :: b).
    { rewrite Hsv, <- Hk. apply set_nth_z_mid. }
    unfold marked, same_cfg. lsimp. split; [|split; [auto|split; [reflexivity|]]].
    + apply (WInv_intro _ (prefix l) (window l)); lsimp; auto. rewrite Hs1. exact HW1.
    + rewrite Hsv in Hs1.
      exists (lives (window l) ++ lives a), (lives b). unfold live at 1. rewrite Hsv, lives_mid_live by assumption.
      split; [rewrite <- app_assoc; reflexivity|].
      rewrite (live_of_split _ (prefix l) (window l)); lsimp; auto.
      rewrite Hs1, lives_mid_free by reflexivity. rewrite <- app_assoc. reflexivity.
  - left. split; [reflexivity|]. intros Hin. exact (Hnf eq_refl x Hin eq_refl).
Qed.

(* ------------------------------------------------------------------ Free of a live item (C06) *)

Theorem free_live_spec l x :
  LInv l -> In x (live l) ->
  exists l', lin_free l (s_off x + 1) = FOk l' /\ LInv l' /\ same_cfg l l' /\
             l_sum_free l' = l_sum_free l + s_size x /\
             exists a b, live l = a ++ x :: b /\ live l' = a ++ b.
Proof.
  intros HI Hx. unfold lin_free. replace (s_off x + 1 - 1) with (s_off x) by lia.
  assert (Hfin : forall t, (exists l1, t = finish_free l1 /\ marked l x l1) ->
            exists l', t = TDone l' /\ LInv l' /\ same_cfg l l' /\ l_sum_free l' = l_sum_free l + s_size x /\
                       exists a b, live l = a ++ x :: b /\ live l' = a ++ b).
  { intros t (l1 & -> & HW1 & Hcfg1 & Hsf1 & a & b & Hl & Hl1).
    destruct (cleanup_spec _ HW1) as (l' & Hcl & HI' & Hlive' & Hcfg' & Hsf').
    exists l'. unfold finish_free. rewrite Hcl. split; [reflexivity|]. split; [exact HI'|].
    split; [eapply same_cfg_trans; eauto|]. split; [congruence|]. exists a, b. split; [exact Hl|congruence]. }
  assert (Hdone : forall t, (exists l', t = TDone l' /\ LInv l' /\ same_cfg l l' /\ l_sum_free l' = l_sum_free l + s_size x /\
                       exists a b, live l = a ++ x :: b /\ live l' = a ++ b) ->
            forall rest, exists l', match or_try t rest with TDone l' => FOk l' | TSkip => FError | TPanic => FPanic end = FOk l' /\
                       LInv l' /\ same_cfg l l' /\ l_sum_free l' = l_sum_free l + s_size x /\
                       exists a b, live l = a ++ x :: b /\ live l' = a ++ b).
  { intros t (l' & -> & H) rest. exists l'. split; [reflexivity|exact H]. }
  destruct (free_first_item_spec l x HI Hx) as [->|H1]; [|apply Hdone, Hfin, H1]. cbn [or_try].
  destruct (free_last_item_spec l x HI Hx) as [->|H2]; [|apply Hdone, Hfin, H2]. cbn [or_try].
  destruct (free_middle_first_spec l x HI Hx) as [(-> & Hnw)|H3]; [|apply Hdone, Hfin, H3]. cbn [or_try].
  destruct (free_middle_second_spec l x HI Hx) as [(-> & Hns)|H4].
  - exfalso. unfold live in Hx. apply in_app_or in Hx. destruct Hx as [Hx|Hx]; apply lives_is_live in Hx; tauto.
  - apply Hfin in H4. destruct H4 as (l' & -> & H). exists l'. split; [reflexivity|exact H].
Qed.

(* ------------------------------------------------------------------ findSuballocation, user data (C17) *)

Lemma find_suballocation_spec l offset :
  WInv l ->
  match find_suballocation l offset with
  | FoundFirst i =>
    exists a s b, window l = a ++ s :: b /\ s_off s = offset /\ i = zlen (prefix l ++ a) /\
                  nth_z (first l) i = Some s /\ first l = (prefix l ++ a) ++ s :: b
  | FoundSecond i =>
    exists a s b, second l = a ++ s :: b /\ s_off s = offset /\ i = zlen a /\ nth_z (second l) i = Some s
  | NotFound => forall s, In s (window l) \/ In s (second l) -> s_off s <> offset
  | FindPanic => False
  end.
Proof.
  intros HI. destruct (WInv_elim _ HI) as (Hf & Hn & HW). unfold find_suballocation.
  destruct (find_first_spec l offset HI) as (k & found & -> & Ht & Hnf). destruct found.
  - destruct (Ht eq_refl) as (a & s & b & Hw & Hk & Hs & Hnth). exists a, s, b.
    split; [exact Hw|]. split; [exact Hs|]. split; [rewrite zlen_app; lia|]. split; [exact Hnth|].
    rewrite Hf at 1. rewrite Hw, app_assoc. reflexivity.
  - specialize (Hnf eq_refl). destruct (mode_eqb (l_mode l) MEmpty) eqn:Hme.
    + assert (l_mode l = MEmpty) by (destruct (l_mode l); try discriminate; reflexivity).
      destruct HW. rewrite w_mode by assumption. intros s [Hs|[]]. auto.
    + assert (Hm : l_mode l <> MEmpty) by (intros E; rewrite E in Hme; discriminate).
      destruct (find_second_spec l offset HI Hm) as (k2 & found2 & -> & Ht2 & Hnf2). destruct found2.
      * destruct (Ht2 eq_refl) as (a & s & b & Hsv & Hk & Hs & Hnth). exists a, s, b. auto.
      * intros s [Hs|Hs]; auto.
Qed.

Lemma is_free_set_tag t s : is_free (set_tag t s) = is_free s.
Proof. reflexivity. Qed.

Lemma lives_retag a s b t :
  lives (a ++ set_tag t s :: b) = if is_free s then lives (a ++ s :: b) else lives a ++ set_tag t s :: lives b.
Proof.
  destruct (is_free s) eqn:E.
  - rewrite !lives_mid_free by (rewrite ?is_free_set_tag; assumption). reflexivity.
  - rewrite lives_mid_live by (rewrite is_free_set_tag; assumption). reflexivity.
Qed.

Lemma sum_sizes_lives_retag a s b t :
  sum_sizes (lives (a ++ set_tag t s :: b)) = sum_sizes (lives (a ++ s :: b)).
Proof.
  rewrite lives_retag. destruct (is_free s) eqn:E; [reflexivity|].
  rewrite lives_mid_live by assumption. rewrite !sum_sizes_app. reflexivity.
Qed.

Lemma retag_win_W pre a s b sv m sf nm ns size g t :
  W pre (a ++ s :: b) sv m sf nm ns size g -> W pre (a ++ set_tag t s :: b) sv m sf nm ns size g.
Proof.
  intros HW.
  pose proof (W_geo _ _ _ _ _ _ _ _ _ (a ++ set_tag t s :: b) sv HW
                (geo_mid a s (set_tag t s) b (same_geo_tag t s)) (geo_refl sv)) as HW1.
  destruct HW.
  replace sf with (size - sum_sizes (lives (a ++ set_tag t s :: b) ++ lives sv)).
  2:{ rewrite w_sum, !sum_sizes_app, sum_sizes_lives_retag. reflexivity. }
  replace nm with (count_free (a ++ set_tag t s :: b)).
  2:{ rewrite w_nm, !count_free_mid, is_free_set_tag. reflexivity. }
  rewrite w_ns. exact HW1.
Qed.

Lemma retag_sv_W pre win a s b m sf nm ns size g t :
  W pre win (a ++ s :: b) m sf nm ns size g -> W pre win (a ++ set_tag t s :: b) m sf nm ns size g.
Proof.
  intros HW.
  pose proof (W_geo _ _ _ _ _ _ _ _ _ win (a ++ set_tag t s :: b) HW (geo_refl win)
                (geo_mid a s (set_tag t s) b (same_geo_tag t s))) as HW1.
  destruct HW.
  replace sf with (size - sum_sizes (lives win ++ lives (a ++ set_tag t s :: b))).
  2:{ rewrite w_sum, !sum_sizes_app, sum_sizes_lives_retag. reflexivity. }
  replace ns with (count_free (a ++ set_tag t s :: b)).
  2:{ rewrite w_ns, !count_free_mid, is_free_set_tag. reflexivity. }
  rewrite w_nm. exact HW1.
Qed.

Lemma last_replace (a : list sub) s s' b v z :
  a ++ s' :: b = v ++ [z] -> (b = [] /\ z = s' /\ v = a) \/ (exists b0, b = b0 ++ [z] /\ a ++ s :: b = (a ++ s :: b0) ++ [z]).
Proof.
  intros H. destruct (list_snoc_cases b) as [->|(b0 & z' & ->)].
  - apply app_inj_tail in H. left. destruct H. auto.
  - right. rewrite app_comm_cons, app_assoc in H. apply app_inj_tail in H. destruct H as (_ & ->).
    exists b0. split; [reflexivity|]. rewrite <- app_assoc. reflexivity.
Qed.

Lemma L_retag_win pre a s b sv m t :
  L pre (a ++ s :: b) sv m -> L pre (a ++ set_tag t s :: b) sv m.
Proof.
  intros [H1 H2 H3 H4 H5 H6]. constructor; auto.
  - intros E. destruct a; discriminate.
  - intros h r E. destruct a as [|a0 a']; cbn in E; injection E as <- _.
    + rewrite is_free_set_tag. eapply H3. reflexivity.
    + eapply H3. reflexivity.
  - intros v z E. destruct (last_replace _ s _ _ _ _ E) as [(-> & -> & ->)|(b0 & -> & E')].
    + rewrite is_free_set_tag. eapply H4. reflexivity.
    + eapply H4. exact E'.
  - intros Hm E. destruct a; discriminate.
Qed.

Lemma L_retag_sv pre win a s b m t :
  L pre win (a ++ s :: b) m -> L pre win (a ++ set_tag t s :: b) m.
Proof.
  intros [H1 H2 H3 H4 H5 H6]. constructor; auto.
  - intros E. destruct a; discriminate.
  - intros v z E. destruct (last_replace _ s _ _ _ _ E) as [(-> & -> & ->)|(b0 & -> & E')].
    + rewrite is_free_set_tag. eapply H5. reflexivity.
    + eapply H5. exact E'.
Qed.

(* effect of SetAllocationUserData on the live items: the item with that offset gets the tag; a
   handle of a lazily deleted item that still lingers in a vector is accepted but changes no live
   item *)
Definition retag_effect (l : linear) (h : Z) (tag : option Z) (l' : linear) : Prop :=
  (exists a x b, live l = a ++ x :: b /\ s_off x = h - 1 /\ live l' = a ++ set_tag tag x :: b) \/
  (live l' = live l /\ forall x, In x (live l) -> s_off x <> h - 1).

Theorem set_user_data_spec l h tag :
  LInv l ->
  match set_user_data l h tag with
  | SetOk l' => LInv l' /\ same_cfg l l' /\ l_sum_free l' = l_sum_free l /\ retag_effect l h tag l'
  | SetError => forall x, In x (live l) -> s_off x <> h - 1
  | SetPanic => False
  end.
Proof.
  intros HI. pose proof HI as (HWI & HL). destruct (WInv_elim _ HWI) as (Hf & Hn & HW).
  unfold set_user_data. pose proof (find_suballocation_spec l (h - 1) HWI) as Hfs.
  destruct (find_suballocation l (h - 1)) as [i|i| |]; [| | |contradiction].
  - destruct Hfs as (a & s & b & Hw & Hs & Hi & Hnth & Hfv). rewrite Hnth.
    assert (Hf1 : set_nth_z (first l) i (set_tag tag) = prefix l ++ a ++ set_tag tag s :: b).
    { rewrite Hfv, Hi, set_nth_z_mid, <- app_assoc. reflexivity. }
    rewrite Hw in HW, HL.
    split; [|split; [unfold same_cfg; lsimp; auto|split; [lsimp; reflexivity|]]].
    + apply (LInv_intro _ (prefix l) (a ++ set_tag tag s :: b)); lsimp; auto.
      * apply retag_win_W. exact HW.
      * apply L_retag_win. exact HL.
    + assert (Hl' : live (with_first l (set_nth_z (first l) i (set_tag tag))) =
                    lives (a ++ set_tag tag s :: b) ++ lives (second l)).
      { rewrite <- (second_with_first l (set_nth_z (first l) i (set_tag tag))).
        apply (live_of_split _ (prefix l)); lsimp; auto. }
      unfold retag_effect. rewrite Hl'. unfold live. rewrite Hw, lives_retag. destruct (is_free s) eqn:Efree.
      * right. split; [reflexivity|]. intros x Hx Hox.
        assert (s = x).
        { apply (live_unique l x s HWI); [|apply in_window_order; rewrite Hw; apply in_or_app; right; left; reflexivity|lia].
          unfold live. rewrite Hw. exact Hx. }
        subst s. rewrite <- Hw in Hx. fold (live l) in Hx. apply live_in_order in Hx. destruct Hx. congruence.
      * left. exists (lives a), s, (lives b ++ lives (second l)).
        rewrite lives_mid_live by assumption. rewrite <- !app_assoc. auto.
  - destruct Hfs as (a & s & b & Hsv & Hs & Hi & Hnth). rewrite Hnth.
    assert (Hs1 : set_nth_z (second l) i (set_tag tag) = a ++ set_tag tag s :: b).
    { rewrite Hsv, Hi. apply set_nth_z_mid. }
    pose proof HW as HW0. rewrite Hsv in HW, HL.
    split; [|split; [unfold same_cfg; lsimp; auto|split; [lsimp; reflexivity|]]].
    + apply (LInv_intro _ (prefix l) (window l)); lsimp; auto; rewrite Hs1.
      * apply retag_sv_W. exact HW.
      * apply L_retag_sv. exact HL.
    + assert (Hl' : live (with_second l (set_nth_z (second l) i (set_tag tag))) =
                    lives (window l) ++ lives (a ++ set_tag tag s :: b)).
      { rewrite <- Hs1. rewrite <- (second_with_second l (set_nth_z (second l) i (set_tag tag))) at 2.
        apply (live_of_split _ (prefix l)); lsimp; auto. }
      unfold retag_effect. rewrite Hl'. unfold live. rewrite lives_retag. destruct (is_free s) eqn:Efree.
      * right. rewrite Hsv. split; [reflexivity|]. intros x Hx Hox.
        assert (s = x).
        { apply (live_unique l x s HWI); [|apply in_second_order; rewrite Hsv; apply in_or_app; right; left; reflexivity|lia].
          unfold live. rewrite Hsv. exact Hx. }
        subst s. rewrite <- Hsv in Hx. fold (live l) in Hx. apply live_in_order in Hx. destruct Hx. congruence.
      * left. exists (lives (window l) ++ lives a), s, (lives b).
        rewrite Hsv, lives_mid_live by assumption. rewrite <- !app_assoc. auto.
  - intros x Hx. apply Hfs. unfold live in Hx. apply in_app_or in Hx.
    destruct Hx as [Hx|Hx]; apply lives_is_live in Hx; tauto.
Qed.

(* C17: looking up a live item by its handle returns that item's user data *)
Theorem lookup_own l x :
  LInv l -> In x (live l) -> get_user_data l (s_off x + 1) = UDOk (s_tag x).
Proof.
  intros HI Hx. pose proof HI as (HWI & HL). unfold get_user_data.
  replace (s_off x + 1 - 1) with (s_off x) by lia.
  pose proof (find_suballocation_spec l (s_off x) HWI) as Hfs.
  destruct (find_suballocation l (s_off x)) as [i|i| |]; [| | |contradiction].
  - destruct Hfs as (a & s & b & Hw & Hs & Hi & Hnth & Hfv). rewrite Hnth.
    assert (s = x); [|subst; reflexivity].
    apply (live_unique l x s HWI Hx); [|exact Hs]. apply in_window_order. rewrite Hw. apply in_or_app. right. left. reflexivity.
  - destruct Hfs as (a & s & b & Hsv & Hs & Hi & Hnth). rewrite Hnth.
    assert (s = x); [|subst; reflexivity].
    apply (live_unique l x s HWI Hx); [|exact Hs]. apply in_second_order. rewrite Hsv. apply in_or_app. right. left. reflexivity.
  - exfalso. unfold live in Hx. apply in_app_or in Hx.
    destruct Hx as [Hx|Hx]; apply lives_is_live in Hx; destruct Hx as (Hx & _); eapply Hfs; eauto.
Qed.

Theorem set_own_succeeds l x tag :
  LInv l -> In x (live l) ->
  exists l', set_user_data l (s_off x + 1) tag = SetOk l' /\ LInv l' /\
             exists a b, live l = a ++ x :: b /\ live l' = a ++ set_tag tag x :: b.
Proof.
  intros HI Hx. pose proof (set_user_data_spec l (s_off x + 1) tag HI) as H.
  destruct (set_user_data l (s_off x + 1) tag) as [l'| |]; [| |contradiction].
  - exists l'. split; [reflexivity|]. destruct H as (HI' & _ & _ & Heff). split; [exact HI'|].
    destruct Heff as [(a & y & b & Hl & Hoy & Hl')|(_ & Hno)].
    + assert (y = x).
      { destruct HI as (HWI & _). apply (live_unique l x y HWI Hx); [|lia].
        assert (In y (live l)) by (rewrite Hl; apply in_or_app; right; left; reflexivity).
        apply live_in_order in H. tauto. }
      subst y. eauto.
    + exfalso. apply (Hno x Hx). lia.
  - exfalso. apply (H x Hx). lia.
Qed.
