(* VamAllocArgs.v — C08, the arguments of the driver calls the library issues.  A pass over every function of the model:
   every call a function logs satisfies a predicate P, where P is free on the calls that concern the mapping and the
   lifetime of memory objects (vkMapMemory, vkUnmapMemory, vkFreeMemory, vkFlush/Invalidate: VamMap's replay and VamFlush
   speak about those), and for vkAllocateMemory P follows from

      0 < allocationSize,   memoryTypeIndex inside the table,
      Q ded size, a predicate on the dedicated-allocation info (0 = absent) and the size that holds of (0, size): the
      instance says that the info names the resource the request came with and the size is that resource's requirement.

   Calls that concern resources (create, destroy, requirements, bind) are the business of the functions that issue them
   (create_resource, the entry points): the lemmas about those take what P says about them as hypotheses.

   The type of a block list has to be inside the table in every intermediate state: VamGran.GV carries it. *)
From Coq Require Import ZArith List Bool Lia Permutation.
From Arsenal Require Import Util Budget VamDev VamBlockList VamDefrag Vam VamInvMeta VamInv VamInvUpd VamInvDev VamInvStep VamInvStep2.
From Arsenal Require Import VamAcct VamGran.
From Arsenal Require VamMemStable.
From Arsenal Require Bits GranInv Pass Defrag SyncMem VamTypeBits.
Import ListNotations.
Open Scope Z_scope.

(* calls about memory objects other than vkAllocateMemory *)
Definition mem_call (k : call) : Prop :=
  match k with CMap _ _ _ _ | CUnmap _ | CFree _ => True | _ => False end.

Section Pass.
Variable c : vcfg.
Variable P : call -> Prop.
Variable Q : Z -> Z -> Prop.      (* dedicated-allocation info, allocationSize *)
Hypothesis HQ0 : forall size, Q 0 size.
Hypothesis HPm : forall k, mem_call k -> P k.
Hypothesis HPa : forall id ty size ded r, 0 < size -> type_valid c ty = true -> Q ded size -> P (CAlloc id ty size ded r).

(* the calls logged between m and m' all satisfy P *)
Definition NA (m m' : mach) : Prop := exists l, m_calls m' = l ++ m_calls m /\ Forall P l.

Lemma NA_refl m : NA m m.
Proof. exists []. split; [reflexivity|constructor]. Qed.

Lemma NA_trans a b d : NA a b -> NA b d -> NA a d.
Proof.
  intros (l1 & E1 & F1) (l2 & E2 & F2). exists (l2 ++ l1). split; [rewrite E2, E1, app_assoc; reflexivity|apply Forall_app; auto].
Qed.

Lemma NA_eq m m' : m_calls m' = m_calls m -> NA m m'.
Proof. intros E. exists []. split; [exact E|constructor]. Qed.

Lemma NA_log m k : P k -> NA m (log_call m k).
Proof. intros H. exists [k]. split; [reflexivity|constructor; [exact H|constructor]]. Qed.

Lemma NA_log' m m1 k : m_calls m1 = m_calls m -> P k -> NA m (log_call m1 k).
Proof. intros E H. exists [k]. split; [cbn; rewrite E; reflexivity|constructor; [exact H|constructor]]. Qed.

Ltac na_eq := apply NA_eq; reflexivity.
Ltac na_log := apply NA_log'; [reflexivity|apply HPm; exact I].

Lemma heap_budget_NA m h : NA m (fst (fst (heap_budget c m h))).
Proof. unfold heap_budget. destruct (Budget.heap_budget _ _ _ _) as ((b' & r) & cs). destruct r; na_eq. Qed.

Lemma dev_map_NA m id : NA m (fst (dev_map c m id)).
Proof.
  unfold dev_map. destruct (find_mem _ _); [|na_log]. destruct (negb _); [na_log|]. destruct (_ <=? 0); [na_log|].
  destruct (dev_fault _ _ _) as ((f1 & fired1) & r). destruct (negb _); cbn [fst]; na_log.
Qed.

Lemma dev_unmap_NA m id : NA m (dev_unmap m id).
Proof. unfold dev_unmap. na_log. Qed.

Lemma sm_map_NA m mem s : NA m (fst (fst (sm_map c m mem s))).
Proof.
  unfold sm_map. pose proof (dev_map_NA m mem) as H. destruct (dev_map c m mem) as (m1 & code).
  destruct (SyncMem.do_map _ _ _) as ((s' & r) & cs). cbn in *. destruct cs; [apply NA_refl|exact H].
Qed.

Lemma sm_unmap_NA m mem s : NA m (fst (fst (sm_unmap m mem s))).
Proof. unfold sm_unmap. destruct (SyncMem.do_unmap _ _) as ((s' & r) & cs). cbn. destruct cs; [apply NA_refl|apply dev_unmap_NA]. Qed.

Lemma sm_sub_NA m mem s : NA m (fst (sm_sub m mem s)).
Proof. unfold sm_sub. destruct (SyncMem.do_sub _) as ((s' & r) & cs). cbn. destruct cs; [apply NA_refl|apply dev_unmap_NA]. Qed.

Lemma add_allocation_NA m h size : NA m (add_allocation c m h size).
Proof. unfold add_allocation. destruct (Budget.add_alloc _ _ _ _) as ((b' & r) & cs). na_eq. Qed.

Lemma remove_allocation_NA m h size : NA m (fst (remove_allocation c m h size)).
Proof. unfold remove_allocation. destruct (Budget.remove_alloc _ _ _ _) as ((b' & r) & cs). na_eq. Qed.

Lemma free_vk_NA m ty size mem : NA m (fst (free_vk c m ty size mem)).
Proof. unfold free_vk, dev_free. destruct (Budget.free_mem _ _ _) as ((b' & r) & cs). cbn [fst]. na_log. Qed.

Lemma dev_flush_NA m inval id off size : (forall r, P (CFlush inval id off size r)) -> NA m (fst (dev_flush m inval id off size)).
Proof. intros Hf. unfold dev_flush. destruct (find_mem _ _); [|apply NA_log; auto]. destruct (dev_fault _ _ _) as ((f1 & fi) & code). cbn [fst]. apply NA_log'; [reflexivity|auto]. Qed.

Lemma stats_budgets_NA n : forall m h, NA m (stats_budgets c m n h).
Proof.
  induction n as [|k IH]; intros m h; cbn [stats_budgets]; [apply NA_refl|].
  pose proof (heap_budget_NA m h) as H. destruct (heap_budget c m h) as ((m1 & u) & b). cbn [fst] in H. eapply NA_trans; [exact H|apply IH].
Qed.

Lemma dev_alloc_NA m ty size ded :
  0 < size -> type_valid c ty = true -> Q ded size -> NA m (fst (fst (dev_alloc c m ty size ded))).
Proof.
  intros Hs Ht Hd. assert (Pk : forall id r, P (CAlloc id ty size ded r)) by (intros; apply HPa; auto).
  unfold dev_alloc. rewrite Ht. cbn [negb]. destruct (size <=? 0); [apply NA_log; auto|].
  destruct (dev_fault (m_fault m) (m_fired m) 0) as ((f1 & fired1) & r).
  destruct (negb (r =? 0)); [apply NA_log'; [reflexivity|auto]|].
  destruct (_ && _); [apply NA_log'; [reflexivity|auto]|].
  destruct (_ <? _); [apply NA_log'; [reflexivity|auto]|].
  destruct (DEV_TABLE <=? _); cbn [fst]; apply NA_log'; [reflexivity|auto|reflexivity|auto].
Qed.

Lemma alloc_vk_NA m ty size ded :
  0 < size -> type_valid c ty = true -> Q ded size -> NA m (fst (alloc_vk c m ty size ded)).
Proof.
  intros Hs Ht Hd. unfold alloc_vk. pose proof (dev_alloc_NA m ty size ded Hs Ht Hd) as H.
  destruct (dev_alloc c m ty size ded) as ((m1 & code) & id). cbn [fst] in H.
  destruct (Budget.alloc_mem _ _ _ _ _) as ((b' & r) & cs). destruct cs; cbn [fst]; [na_eq|].
  eapply NA_trans; [exact H|na_eq].
Qed.

(* ---------------------------------------------------------------- through the functions of the model *)

Definition NAv (v v' : vam) : Prop := NA (v_m v) (v_m v').

Lemma NAv_refl v : NAv v v.
Proof. apply NA_refl. Qed.
Lemma NAv_trans a b d : NAv a b -> NAv b d -> NAv a d.
Proof. apply NA_trans. Qed.
Lemma NAv_eq v v' : v_m v' = v_m v -> NAv v v'.
Proof. intros E. unfold NAv. rewrite E. apply NA_refl. Qed.

Lemma sort_list_m v lr : v_m (sort_list v lr) = v_m v.
Proof. unfold sort_list. destruct (get_blist v lr); [apply set_blist_m|reflexivity]. Qed.

Ltac vm_simp := repeat (rewrite ?put_block_m, ?set_blist_m, ?set_dedlist_m; cbn [v_m set_m set_alloc set_tab set_pools set_lists set_ded fst]).

(* leaf: the machine of the result is some machine reached through the NA facts in the context *)
Ltac na_chain := first [apply NA_refl | eassumption | (eapply NA_trans; [eassumption|]; na_chain)].
Ltac nafin := unfold NAv in *; vm_simp; na_chain.

Lemma destroy_block_N v ty b : NAv v (fst (destroy_block c v ty b)).
Proof.
  unfold destroy_block. destruct (negb _); [apply NAv_refl|].
  pose proof (free_vk_NA (v_m v) ty (meta_size (bk_meta b)) (bk_mem b)) as H. destruct (free_vk c (v_m v) ty _ (bk_mem b)) as (m1 & r). nafin.
Qed.

Lemma destroy_blocks_N bs : forall v ty, NAv v (fst (destroy_blocks c v ty bs)).
Proof.
  induction bs as [|b tl IH]; intros v ty; cbn [destroy_blocks]; [apply NAv_refl|].
  pose proof (destroy_block_N v ty b) as H. destruct (destroy_block c v ty b) as (v1 & r). cbn [fst] in H.
  destruct r as [[]|code| |]; cbn [fst]; try exact H. eapply NAv_trans; [exact H|apply IH].
Qed.

Lemma commit_request_N v lr bid rq reqsize align flags sub slot : NAv v (fst (commit_request c v lr bid rq reqsize align flags sub slot)).
Proof.
  unfold commit_request. destruct (get_blist v lr) as [l|]; [|apply NAv_refl]. destruct (get_block v lr bid) as [b|]; [|apply NAv_refl].
  pose proof (sm_sub_NA (v_m v) (bk_mem b) (bk_sm b)) as H1. destruct (sm_sub (v_m v) (bk_mem b) (bk_sm b)) as (m1 & s1). cbn [fst] in H1.
  assert (H2 : NA m1 (fst (fst (if fl flags F_MAPPED then sm_map c m1 (bk_mem b) s1 else (m1, s1, OK tt))))) by (destruct (fl flags F_MAPPED); [apply sm_map_NA|apply NA_refl]).
  destruct (if fl flags F_MAPPED then sm_map c m1 (bk_mem b) s1 else (m1, s1, OK tt)) as ((m2 & s2) & mr). cbn [fst] in H2.
  destruct mr as [[]|code| |]; try nafin.
  destruct (meta_alloc (bk_meta b) rq sub slot reqsize align) as [(mt' & handle)|code| |]; try nafin.
  destruct (_ && _); [nafin|]. unfold NAv. vm_simp. eapply NA_trans; [exact H1|]. eapply NA_trans; [exact H2|apply add_allocation_NA].
Qed.

Lemma alloc_from_block_N v lr bid size align flags sub slot : NAv v (fst (alloc_from_block c v lr bid size align flags sub slot)).
Proof.
  unfold alloc_from_block. destruct (get_block v lr bid) as [b|]; [|apply NAv_refl]. destruct (negb _); [apply NAv_refl|].
  destruct (meta_create_request _ _ _ _ _ _) as [mt' rq| | |]; try apply NAv_refl.
  eapply NAv_trans; [apply NAv_eq; apply put_block_m|apply commit_request_N].
Qed.

Lemma try_blocks_N ids : forall v lr size align flags sub slot, NAv v (fst (try_blocks c v lr ids size align flags sub slot)).
Proof.
  induction ids as [|bid tl IH]; intros v lr size align flags sub slot; cbn [try_blocks]; [apply NAv_refl|].
  pose proof (alloc_from_block_N v lr bid size align flags sub slot) as H.
  destruct (alloc_from_block c v lr bid size align flags sub slot) as (v1 & r). cbn [fst] in H.
  destruct r; cbn [fst]; try exact H; [eapply NAv_trans; [exact H|apply NAv_eq; apply sort_list_m]|eapply NAv_trans; [exact H|apply IH]].
Qed.

Lemma bl_free_N v lr slot keep : NAv v (fst (bl_free c v lr slot keep)).
Proof.
  unfold bl_free. set (a := get_alloc v slot). destruct (get_blist v lr) as [l|]; [|apply NAv_refl].
  destruct (get_block v lr (a_blk a)) as [b|]; [|apply NAv_refl].
  pose proof (heap_budget_NA (v_m v) (type_heap c (bl_type l))) as H0.
  destruct (heap_budget c (v_m v) (type_heap c (bl_type l))) as ((m1 & usage) & budget). cbn [fst] in H0.
  assert (H1 : NA m1 (fst (fst (if a_persist a then sm_unmap m1 (bk_mem b) (bk_sm b) else (m1, bk_sm b, OK tt))))) by (destruct (a_persist a); [apply sm_unmap_NA|apply NA_refl]).
  destruct (if a_persist a then sm_unmap m1 (bk_mem b) (bk_sm b) else (m1, bk_sm b, OK tt)) as ((m2 & s2) & ur). cbn [fst] in H1.
  set (v2 := put_block (set_m v m2) lr (mkBlock (bk_id b) (bk_mem b) s2 (bk_meta b))).
  assert (E2 : v_m v2 = m2) by (unfold v2; rewrite put_block_m; reflexivity).
  assert (K2 : NAv v v2) by (unfold NAv; rewrite E2; eapply NA_trans; eauto).
  destruct ur as [[]|code| |]; cbn [fst]; try exact K2.
  destruct (meta_free (bk_meta b) (a_handle a)) as [mt'|code| |]; cbn [fst]; try exact K2.
  pose proof (sm_sub_NA (v_m v2) (bk_mem b) s2) as H3. destruct (sm_sub (v_m v2) (bk_mem b) s2) as (m3 & s3). cbn [fst] in H3.
  match goal with |- context [let '(bs4, toDelete) := ?e in _] => destruct e as (bs4 & toDelete) end.
  set (v3 := set_blist (set_m v2 m3) lr (incrementally_sort (set_blocks l bs4))).
  assert (K3 : NAv v v3) by (unfold NAv, v3; rewrite set_blist_m; cbn [v_m set_m]; eapply NA_trans; [exact K2|exact H3]).
  assert (H4 : NAv v3 (fst (match toDelete with
                           | None => (v3, OK tt)
                           | Some db => match destroy_block c v3 (bl_type l) db with (v', OK _) => (v', OK tt) | (v', STUCK) => (v', STUCK) | (v', _) => (v', PANIC) end
                           end))).
  { destruct toDelete as [db|]; [|apply NAv_refl]. pose proof (destroy_block_N v3 (bl_type l) db) as Hd.
    destruct (destroy_block c v3 (bl_type l) db) as (v' & dr). cbn [fst] in Hd. destruct dr as [[]|code| |]; exact Hd. }
  match goal with |- context [let '(v4, dr) := ?e in _] => destruct e as (v4 & dr) end. cbn [fst] in H4.
  assert (K4 : NAv v v4) by (eapply NAv_trans; [exact K3|exact H4]).
  destruct dr as [[]|code| |]; cbn [fst]; try exact K4.
  pose proof (remove_allocation_NA (v_m v4) (type_heap c (bl_type l)) (a_size a)) as H5.
  destruct (remove_allocation c (v_m v4) (type_heap c (bl_type l)) (a_size a)) as (m5 & rr). cbn [fst] in *. unfold NAv in *. cbn [v_m set_m]. eapply NA_trans; eauto.
Qed.

Lemma release_loop_N ids : forall v lr firstId, NAv v (fst (release_loop c v lr ids firstId)).
Proof.
  induction ids as [|bid tl IH]; intros v lr firstId; cbn [release_loop]; [apply NAv_refl|].
  destruct (get_blist v lr) as [l|]; [|apply NAv_refl]. destruct (negb _); [apply NAv_refl|].
  destruct (find_block (bl_blocks l) bid) as [b|]; [|apply NAv_refl]. destruct (_ || _); [apply IH|].
  pose proof (destroy_block_N (set_blist v lr (set_blocks l (remove_block (bl_blocks l) bid))) (bl_type l) b) as Hd.
  destruct (destroy_block c _ (bl_type l) b) as (v2 & dr). cbn [fst] in Hd.
  assert (K2 : NAv v v2) by (eapply NAv_trans; [apply NAv_eq; apply set_blist_m|exact Hd]).
  destruct dr as [[]|code| |]; cbn [fst]; try exact K2. eapply NAv_trans; [exact K2|apply IH].
Qed.

Lemma release_empty_since_N v lr firstId : NAv v (fst (release_empty_since c v lr firstId)).
Proof. unfold release_empty_since. destruct (get_blist v lr); [apply release_loop_N|apply NAv_refl]. Qed.

Lemma unwind_loop_N done : forall v lr, NAv v (fst (unwind_loop c v lr done)).
Proof.
  induction done as [|s tl IH]; intros v lr; cbn [unwind_loop]; [apply NAv_refl|].
  pose proof (bl_free_N v lr s true) as H. destruct (bl_free c v lr s true) as (v1 & r). cbn [fst] in H.
  destruct r as [[]|code| |]; cbn [fst]; try exact H. eapply NAv_trans; [exact H|].
  eapply NAv_trans; [apply (NAv_eq v1 (set_alloc v1 s (set_allocated (get_alloc v1 s) false))); reflexivity|apply IH].
Qed.

Lemma bl_destroy_N v lr : NAv v (fst (bl_destroy c v lr)).
Proof.
  unfold bl_destroy. destruct (get_blist v lr) as [l|]; [|apply NAv_refl]. destruct (existsb _ _); [apply NAv_refl|].
  pose proof (destroy_blocks_N (bl_blocks l) v (bl_type l)) as H. destruct (destroy_blocks c v (bl_type l) (bl_blocks l)) as (v1 & r). cbn [fst] in H.
  destruct r as [[]|code| |]; cbn [fst]; try exact H. destruct (get_blist v1 lr) as [l1|]; [|exact H].
  eapply NAv_trans; [exact H|apply NAv_eq; apply set_blist_m].
Qed.

Lemma dedicated_rollback_N done : forall v ty, NAv v (fst (dedicated_rollback c v ty done)).
Proof.
  induction done as [|s tl IH]; intros v ty; cbn [dedicated_rollback]; [apply NAv_refl|].
  pose proof (free_vk_NA (v_m v) ty (a_size (get_alloc v s)) (a_mem (get_alloc v s))) as H1.
  destruct (free_vk c (v_m v) ty (a_size (get_alloc v s)) (a_mem (get_alloc v s))) as (m1 & fr). cbn [fst] in H1.
  destruct fr as [[]|code| |]; try nafin.
  pose proof (remove_allocation_NA m1 (type_heap c ty) (a_size (get_alloc v s))) as H2.
  destruct (remove_allocation c m1 (type_heap c ty) (a_size (get_alloc v s))) as (m2 & rr). cbn [fst] in H2.
  destruct rr as [[]|code| |]; try nafin.
  eapply NAv_trans; [|apply IH]. nafin.
Qed.

Lemma calc_type_params_N v ty size count flags : NAv v (fst (calc_type_params c v ty size count flags)).
Proof.
  unfold calc_type_params. destruct (_ && _); [|apply NAv_refl]. pose proof (heap_budget_NA (v_m v) (type_heap c ty)) as H.
  destruct (heap_budget c (v_m v) (type_heap c ty)) as ((m1 & u) & b). cbn [fst] in H. destruct (_ <? _); nafin.
Qed.

Lemma free_dedicated_N v slot : NAv v (fst (free_dedicated c v slot)).
Proof.
  unfold free_dedicated. destruct (negb _); [apply NAv_refl|].
  set (v1 := set_dedlist v _ _). assert (E1 : v_m v1 = v_m v) by apply set_dedlist_m.
  pose proof (free_vk_NA (v_m v1) (a_type (get_alloc v slot)) (a_size (get_alloc v slot)) (a_mem (get_alloc v slot))) as H1.
  destruct (free_vk c (v_m v1) _ _ _) as (m1 & fr). cbn [fst] in H1. rewrite E1 in H1.
  destruct fr as [[]|code| |]; try nafin.
  pose proof (remove_allocation_NA m1 (type_heap c (a_type (get_alloc v slot))) (a_size (get_alloc v slot))) as H2.
  destruct (remove_allocation c m1 _ _) as (m2 & rr). cbn [fst] in H2. nafin.
Qed.

Lemma free_single_N v slot : NAv v (fst (free_single c v slot)).
Proof. unfold free_single. destruct (_ =? 1); [apply bl_free_N|]. destruct (_ =? 2); [apply free_dedicated_N|apply NAv_refl]. Qed.

Lemma multi_free_N slots : forall v, NAv v (fst (multi_free c v slots)).
Proof.
  induction slots as [|s tl IH]; intros v; cbn [multi_free]; [apply NAv_refl|].
  pose proof (free_single_N v s) as H. destruct (free_single c v s) as (v1 & r). cbn [fst] in H.
  destruct r as [[]|code| |]; cbn [fst]; try exact H. eapply NAv_trans; [exact H|].
  eapply NAv_trans; [apply (NAv_eq v1 (set_alloc v1 s (set_allocated (get_alloc v1 s) false))); reflexivity|apply IH].
Qed.

Lemma dev_bind_NA m image res mem off : (forall r, P (CBind image res mem off r)) -> NA m (fst (dev_bind m image res mem off)).
Proof.
  intros Hb. unfold dev_bind. destruct (find_res _ _); [|apply NA_log; auto]. destruct (find_mem _ _); [|apply NA_log; auto].
  destruct (dev_fault _ _ _) as ((f1 & fi) & code). destruct (negb (code =? 0)); cbn [fst]; apply NA_log'; [reflexivity|auto|reflexivity|auto].
Qed.

Lemma bind_memory_N v slot image res off : (forall mem o r, P (CBind image res mem o r)) -> NAv v (fst (bind_memory v slot image res off)).
Proof.
  intros Hb. unfold bind_memory. destruct (res =? 0); [apply NAv_refl|]. destruct (negb _); [apply NAv_refl|]. destruct (off <? 0); [apply NAv_refl|].
  match goal with |- context [match ?t with OK _ => _ | ER _ => _ | PANIC => _ | STUCK => _ end] => destruct t as [o|code| |] end; try apply NAv_refl.
  pose proof (dev_bind_NA (v_m v) image res (a_mem (get_alloc v slot)) o (Hb _ _)) as H.
  destruct (dev_bind _ _ _ _ _) as (m1 & code). cbn [fst] in H. nafin.
Qed.

Lemma pool_destroy_N v uid : NAv v (fst (pool_destroy c v uid)).
Proof.
  unfold pool_destroy. destruct (find_pool (v_pools v) uid) as [p|]; [|apply NAv_refl]. destruct (p_ded p); [|apply NAv_refl].
  pose proof (bl_destroy_N v (LPool uid)) as H. destruct (bl_destroy c v (LPool uid)) as (v1 & r). cbn [fst] in H.
  destruct r as [[]|code| |]; cbn [fst]; exact H.
Qed.

Lemma destroy_lists_N n : forall v t, NAv v (fst (destroy_lists c v n t)).
Proof.
  induction n as [|k IH]; intros v t; cbn [destroy_lists]; [apply NAv_refl|]. destruct (get_blist v (LDef t)); [|apply IH].
  pose proof (bl_destroy_N v (LDef t)) as H. destruct (bl_destroy c v (LDef t)) as (v1 & r). cbn [fst] in H.
  destruct r as [[]|code| |]; cbn [fst]; try exact H. eapply NAv_trans; [exact H|apply IH].
Qed.

Lemma allocation_map_N v slot : NAv v (fst (allocation_map c v slot)).
Proof.
  unfold allocation_map. destruct (negb _); [apply NAv_refl|]. destruct (negb _); [apply NAv_refl|]. destruct (_ =? 1).
  - destruct (get_block v _ _) as [b|]; [|apply NAv_refl].
    pose proof (sm_map_NA (v_m v) (bk_mem b) (bk_sm b)) as H. destruct (sm_map c (v_m v) (bk_mem b) (bk_sm b)) as ((m1 & s1) & r). cbn [fst] in H.
    destruct r as [[]|code| |]; try nafin. destruct (find_offset _ _); nafin.
  - destruct (_ =? 2); [|apply NAv_refl]. pose proof (sm_map_NA (v_m v) (a_mem (get_alloc v slot)) (a_sm (get_alloc v slot))) as H.
    destruct (sm_map c (v_m v) _ _) as ((m1 & s1) & r). cbn [fst] in H. nafin.
Qed.

Lemma allocation_unmap_N v slot : NAv v (fst (allocation_unmap v slot)).
Proof.
  unfold allocation_unmap. destruct (negb _); [apply NAv_refl|]. destruct (_ =? 1).
  - destruct (get_block v _ _) as [b|]; [|apply NAv_refl].
    pose proof (sm_unmap_NA (v_m v) (bk_mem b) (bk_sm b)) as H. destruct (sm_unmap (v_m v) (bk_mem b) (bk_sm b)) as ((m1 & s1) & r). cbn [fst] in H. nafin.
  - destruct (_ =? 2); [|apply NAv_refl]. pose proof (sm_unmap_NA (v_m v) (a_mem (get_alloc v slot)) (a_sm (get_alloc v slot))) as H.
    destruct (sm_unmap (v_m v) _ _) as ((m1 & s1) & r). cbn [fst] in H. nafin.
Qed.

Lemma allocation_free_N v slot : NAv v (fst (allocation_free c v slot)).
Proof. unfold allocation_free. destruct (negb _); [apply NAv_refl|apply multi_free_N]. Qed.

(* one API function *)

(* ---------------------------------------------------------------- the functions that call vkAllocateMemory *)

Notation GVc := (GV c).
Notation ded_ok := Q.

Lemma create_block_A v lr size : GVc v -> 0 < size -> NAv v (fst (create_block c v lr size)).
Proof.
  intros HV Hs. unfold create_block. destruct (get_blist v lr) as [l|] eqn:Hg; [|apply NAv_refl].
  destruct (gv_cfg c v HV lr l Hg) as (_ & _ & Hty).
  pose proof (alloc_vk_NA (v_m v) (bl_type l) size 0 Hs Hty (HQ0 size)) as H. destruct (alloc_vk c (v_m v) (bl_type l) size 0) as (m1 & r). cbn [fst] in H.
  destruct r; nafin.
Qed.

Lemma retry_create_A fuel : forall v lr nbs shift size freeMemory canFallback last,
  GVc v -> 1 <= size -> NAv v (fst (retry_create c fuel v lr nbs shift size freeMemory canFallback last)).
Proof.
  induction fuel as [|f IH]; intros v lr nbs shift size freeMemory canFallback last HV Hs; cbn [retry_create]; [apply NAv_refl|].
  destruct last as [x|code| |]; try apply NAv_refl. destruct (3 <=? shift); [apply NAv_refl|]. destruct (size <=? _) eqn:Eq; [|apply NAv_refl].
  apply Z.leb_le in Eq.
  destruct (_ || _); [|apply IH; auto].
  pose proof (create_block_A v lr (Z.quot nbs 2) HV ltac:(lia)) as H. pose proof (create_block_G c v lr (Z.quot nbs 2) HV) as G1.
  destruct (create_block c v lr (Z.quot nbs 2)) as (v1 & r). cbn [fst] in H, G1.
  eapply NAv_trans; [exact H|apply IH; auto].
Qed.

Lemma shrink_ge fuel : forall nbs shift mx size, 0 <= size -> size <= nbs -> size <= fst (shrink_new_block fuel nbs shift mx size).
Proof.
  induction fuel as [|f IH]; intros nbs shift mx size H0 H; cbn [shrink_new_block]; [exact H|].
  destruct (_ && _) eqn:E; [|exact H]. apply andb_true_iff in E. destruct E as (_ & E). apply Z.leb_le in E. apply IH; lia.
Qed.

Lemma alloc_page_A v lr size align flags sub slot :
  GVc v -> Bits.pow2 align -> GranInv.kind_ok sub -> 1 <= size -> NAv v (fst (alloc_page c v lr size align flags sub slot)).
Proof.
  intros HV Hal Hk Hs. unfold alloc_page. destruct (get_blist v lr) as [l|] eqn:Hg; [|apply NAv_refl].
  pose proof (heap_budget_NA (v_m v) (type_heap c (bl_type l))) as H0.
  destruct (heap_budget c (v_m v) (type_heap c (bl_type l))) as ((m1 & usage) & budget). cbn [fst] in H0.
  assert (K1 : NAv v (set_m v m1)) by nafin.
  assert (V1 : GVc (set_m v m1)) by (apply (GR_set_m c v m1 HV)).
  destruct (_ && _); [exact K1|]. destruct (bl_pref l <? size) eqn:Epref; [exact K1|]. apply Z.ltb_ge in Epref.
  pose proof (try_blocks_N (search_order c l flags) (set_m v m1) lr size align flags sub slot) as H2.
  pose proof (try_blocks_G c (search_order c l flags) (set_m v m1) lr size align flags sub slot Hal Hk V1) as V2.
  destruct (try_blocks c (set_m v m1) lr (search_order c l flags) size align flags sub slot) as (v2 & r). cbn [fst] in H2, V2.
  assert (K2 : NAv v v2) by (eapply NAv_trans; eauto).
  destruct r; cbn [fst]; try exact K2.
  destruct (negb _); [exact K2|].
  assert (Hnbs : size <= fst (if bl_explicit l then (bl_pref l, 0) else shrink_new_block 3 (bl_pref l) 0 (calc_max_block_size l) size)).
  { destruct (bl_explicit l); [exact Epref|apply shrink_ge; lia]. }
  destruct (if bl_explicit l then (bl_pref l, 0) else shrink_new_block 3 (bl_pref l) 0 (calc_max_block_size l) size) as (nbs & shift). cbn [fst] in Hnbs.
  match goal with |- context [if ?cnd then create_block c v2 lr nbs else (v2, ER VK_OODM)] =>
    assert (H3 : NAv v2 (fst (if cnd then create_block c v2 lr nbs else (v2, ER VK_OODM)))) by (destruct cnd; [apply create_block_A; [exact V2|lia]|apply NAv_refl]);
    assert (V3 : GVc (fst (if cnd then create_block c v2 lr nbs else (v2, ER VK_OODM)))) by (destruct cnd; [apply (create_block_G c v2 lr nbs V2)|exact V2]);
    destruct (if cnd then create_block c v2 lr nbs else (v2, ER VK_OODM)) as (v3 & first) end.
  cbn [fst] in H3, V3.
  match goal with |- context [if bl_explicit l then (v3, first) else ?e] =>
    assert (H4 : NAv v3 (fst (if bl_explicit l then (v3, first) else e))) by (destruct (bl_explicit l); [apply NAv_refl|apply retry_create_A; auto]);
    destruct (if bl_explicit l then (v3, first) else e) as (v4 & created) end.
  cbn [fst] in H4. assert (K4 : NAv v v4) by (eapply NAv_trans; [exact K2|]; eapply NAv_trans; [exact H3|exact H4]).
  destruct created as [bid|code| |]; cbn [fst]; try exact K4.
  destruct (get_block v4 lr bid) as [nb|]; [|exact K4]. destruct (meta_size (bk_meta nb) <? size); [exact K4|].
  pose proof (alloc_from_block_N v4 lr bid size align flags sub slot) as H5.
  destruct (alloc_from_block c v4 lr bid size align flags sub slot) as (v5 & r2). cbn [fst] in H5.
  assert (K5 : NAv v v5) by (eapply NAv_trans; [exact K4|exact H5]).
  assert (Hgive : NAv v5 (fst (match get_blist v5 lr, get_block v5 lr bid with
                    | Some l5, Some b5 =>
                      if meta_is_empty (bk_meta b5) && (bl_min l5 <? zlen (bl_blocks l5)) then
                        match destroy_block c (set_blist v5 lr (set_blocks l5 (remove_block (bl_blocks l5) bid))) (bl_type l5) b5 with
                        | (v', OK _) => (v', OK tt)
                        | (v', STUCK) => (v', STUCK)
                        | (v', _) => (v', PANIC)
                        end
                      else (v5, OK tt)
                    | _, _ => (v5, STUCK)
                    end))).
  { destruct (get_blist v5 lr) as [l5|]; [|apply NAv_refl]. destruct (get_block v5 lr bid) as [b5|]; [|apply NAv_refl].
    destruct (_ && _); [|apply NAv_refl].
    pose proof (destroy_block_N (set_blist v5 lr (set_blocks l5 (remove_block (bl_blocks l5) bid))) (bl_type l5) b5) as Hd.
    destruct (destroy_block c _ (bl_type l5) b5) as (v' & dr). cbn [fst] in Hd.
    assert (NAv v5 v') by (eapply NAv_trans; [apply NAv_eq; apply set_blist_m|exact Hd]).
    destruct dr as [[]|code| |]; exact H. }
  destruct r2 as [| |code2| |]; cbn [fst]; try exact K5; [eapply NAv_trans; [exact K5|apply NAv_eq; apply sort_list_m]| |];
    (match goal with |- context [match ?e with (a, b) => _ end] => destruct e as (v6 & dr) end; cbn [fst] in Hgive;
     assert (K6 : NAv v v6) by (eapply NAv_trans; [exact K5|exact Hgive]); destruct dr as [[]|code3| |]; exact K6).
Qed.

Lemma allocate_loop_A slots : forall v lr done size align flags sub,
  GVc v -> Bits.pow2 align -> GranInv.kind_ok sub -> 1 <= size -> NAv v (fst (fst (allocate_loop c v lr slots done size align flags sub))).
Proof.
  induction slots as [|s tl IH]; intros v lr done size align flags sub HV Hal Hk Hs; cbn [allocate_loop]; [apply NAv_refl|].
  pose proof (alloc_page_A v lr size align flags sub s HV Hal Hk Hs) as H. pose proof (alloc_page_G c v lr size align flags sub s Hal Hk HV) as V1.
  destruct (alloc_page c v lr size align flags sub s) as (v1 & r). cbn [fst] in H, V1.
  destruct r as [[]|code| |]; cbn [fst]; try exact H. eapply NAv_trans; [exact H|apply IH; auto].
Qed.

Lemma bl_allocate_A v lr slots size align0 flags sub :
  GVc v -> align0 = 0 \/ Bits.pow2 align0 -> GranInv.kind_ok sub -> 1 <= size -> NAv v (fst (bl_allocate c v lr slots size align0 flags sub)).
Proof.
  intros HV Hal0 Hk Hs. unfold bl_allocate. destruct (get_blist v lr) as [l|] eqn:Hg; [|apply NAv_refl].
  assert (Hal : Bits.pow2 (if align0 <? bl_minalign l then bl_minalign l else align0)).
  { destruct (gv_cfg c v HV _ _ Hg) as (Hm & _). pose proof (Bits.pow2_pos _ Hm). destruct (align0 <? bl_minalign l) eqn:E; [auto|].
    destruct Hal0 as [->|H']; [apply Z.ltb_ge in E; lia|auto]. }
  match goal with |- context [allocate_loop c v lr slots [] size ?al flags sub] =>
    pose proof (allocate_loop_A slots v lr [] size al flags sub HV Hal Hk Hs) as H1; destruct (allocate_loop c v lr slots [] size al flags sub) as ((v1 & r) & done) end.
  cbn [fst] in H1. destruct r as [[]|code| |]; cbn [fst]; try exact H1.
  pose proof (unwind_loop_N done v1 lr) as H2. destruct (unwind_loop c v1 lr done) as (v2 & ur). cbn [fst] in H2.
  assert (K2 : NAv v v2) by (eapply NAv_trans; eauto). destruct ur as [[]|ucode| |]; cbn [fst]; try exact K2.
  pose proof (release_empty_since_N v2 lr (bl_next l)) as H3. destruct (release_empty_since c v2 lr (bl_next l)) as (v3 & rr). cbn [fst] in H3.
  assert (K3 : NAv v v3) by (eapply NAv_trans; eauto). destruct rr as [[]|rcode| |]; exact K3.
Qed.

Lemma create_min_blocks_A n : forall v lr size, GVc v -> 0 < size -> NAv v (fst (create_min_blocks c n v lr size)).
Proof.
  induction n as [|k IH]; intros v lr size HV Hs; cbn [create_min_blocks]; [apply NAv_refl|].
  pose proof (create_block_A v lr size HV Hs) as H. pose proof (create_block_G c v lr size HV) as V1.
  destruct (create_block c v lr size) as (v1 & r). cbn [fst] in H, V1.
  destruct r as [bid|code| |]; cbn [fst]; try exact H. eapply NAv_trans; [exact H|apply IH; auto].
Qed.

Lemma ded_page_A v lr ty size sub doMap allowed slot ded :
  0 < size -> type_valid c ty = true -> ded_ok ded size -> NAv v (fst (allocate_dedicated_page c v lr ty size sub doMap allowed slot ded)).
Proof.
  intros Hs Hty Hd. unfold allocate_dedicated_page. pose proof (alloc_vk_NA (v_m v) ty size ded Hs Hty Hd) as H1.
  destruct (alloc_vk c (v_m v) ty size ded) as (m1 & r). cbn [fst] in H1. destruct r as [mem|code| |]; try nafin.
  assert (H2 : NA m1 (fst (fst (if doMap then sm_map c m1 mem SyncMem.sm_init else (m1, SyncMem.sm_init, OK tt))))) by (destruct doMap; [apply sm_map_NA|apply NA_refl]).
  destruct (if doMap then sm_map c m1 mem SyncMem.sm_init else (m1, SyncMem.sm_init, OK tt)) as ((m2 & s) & mr). cbn [fst] in H2.
  destruct mr as [[]|code| |]; try nafin.
  - destruct (_ && _); [nafin|]. unfold NAv. vm_simp. eapply NA_trans; [exact H1|]. eapply NA_trans; [exact H2|apply add_allocation_NA].
  - pose proof (free_vk_NA m2 ty size mem) as H3. destruct (free_vk c m2 ty size mem) as (m3 & fr). cbn [fst] in H3. nafin.
Qed.

Lemma dedicated_loop_A slots : forall v lr ty size sub doMap allowed done ded,
  0 < size -> type_valid c ty = true -> ded_ok ded size ->
  NAv v (fst (fst (dedicated_loop c v lr ty size sub doMap allowed slots done ded))).
Proof.
  induction slots as [|s tl IH]; intros v lr ty size sub doMap allowed done ded Hs Hty Hd; cbn [dedicated_loop]; [apply NAv_refl|].
  pose proof (ded_page_A v lr ty size sub doMap allowed s ded Hs Hty Hd) as H.
  destruct (allocate_dedicated_page c v lr ty size sub doMap allowed s ded) as (v1 & r). cbn [fst] in H.
  destruct r as [[]|code| |]; cbn [fst]; try exact H. eapply NAv_trans; [exact H|apply IH; auto].
Qed.

Lemma allocate_dedicated_A v lr ty size sub doMap allowed slots ded :
  0 < size -> type_valid c ty = true -> ded_ok ded size -> NAv v (fst (allocate_dedicated c v lr ty size sub doMap allowed slots ded)).
Proof.
  intros Hs Hty Hd. unfold allocate_dedicated. destruct slots as [|s0 tl0] eqn:Es; [apply NAv_refl|]. rewrite <- Es.
  pose proof (dedicated_loop_A slots v lr ty size sub doMap allowed [] ded Hs Hty Hd) as H.
  destruct (dedicated_loop c v lr ty size sub doMap allowed slots [] ded) as ((v1 & r) & done). cbn [fst] in H.
  destruct r as [[]|code| |]; cbn [fst]; try exact H.
  - eapply NAv_trans; [exact H|apply NAv_eq; apply set_dedlist_m].
  - pose proof (dedicated_rollback_N done v1 ty) as H2. destruct (dedicated_rollback c v1 ty done) as (v2 & rr). cbn [fst] in *. eapply NAv_trans; eauto.
Qed.

Lemma alloc_of_type_A v lr ty size align dedPref flags sub slots ded :
  GVc v -> align = 0 \/ Bits.pow2 align -> GranInv.kind_ok sub -> 1 <= size -> type_valid c ty = true -> ded_ok ded size ->
  NAv v (fst (alloc_of_type c v lr ty size align dedPref flags sub slots ded)).
Proof.
  intros HV Hal Hk Hs Hty Hd. assert (Hs0 : 0 < size) by lia.
  unfold alloc_of_type. destruct slots as [|s0 tl0] eqn:Es; [apply NAv_refl|]. rewrite <- Es.
  destruct (get_blist v lr) as [l|]; [|apply NAv_refl].
  pose proof (calc_type_params_N v ty size (zlen slots) flags) as H1.
  pose proof (calc_type_params_G c v ty size (zlen slots) flags HV) as V1.
  destruct (calc_type_params c v ty size (zlen slots) flags) as (v1 & fr). cbn [fst] in H1, V1.
  destruct fr as [f1|code| |]; cbn [fst]; try exact H1.
  destruct (fl f1 F_DEDICATED); [eapply NAv_trans; [exact H1|apply allocate_dedicated_A; auto]|].
  match goal with |- context [let '(v2, early) := ?e in _] => assert (H2 : NAv v1 (fst e) /\ GVc (fst e)); [|destruct e as (v2 & early)] end.
  { match goal with |- context [if ?cnd then _ else (v1, None)] => destruct cnd end; [|split; [apply NAv_refl|exact V1]].
    match goal with |- context [allocate_dedicated c v1 lr ty size sub ?dm ?al slots ded] =>
      pose proof (allocate_dedicated_A v1 lr ty size sub dm al slots ded Hs0 Hty Hd) as H;
      pose proof (allocate_dedicated_G c v1 lr ty size sub dm al slots ded V1) as HG;
      destruct (allocate_dedicated c v1 lr ty size sub dm al slots ded) as (v' & r) end. cbn [fst] in H, HG.
    destruct r as [[]|code| |]; split; assumption. }
  cbn [fst] in H2. destruct H2 as (H2 & V2).
  assert (K2 : NAv v v2) by (eapply NAv_trans; eauto).
  destruct early as [r|]; cbn [fst]; [exact K2|].
  pose proof (bl_allocate_A v2 lr slots size align f1 sub V2 Hal Hk Hs) as H3. destruct (bl_allocate c v2 lr slots size align f1 sub) as (v3 & br). cbn [fst] in H3.
  assert (K3 : NAv v v3) by (eapply NAv_trans; eauto).
  destruct br as [[]|bcode| |]; cbn [fst]; try exact K3.
  match goal with |- context [if ?cnd then _ else (v3, ER bcode)] => destruct cnd end; [|exact K3].
  pose proof (heap_budget_NA (v_m v3) (type_heap c ty)) as H4.
  destruct (heap_budget c (v_m v3) (type_heap c ty)) as ((m4 & u) & b). cbn [fst] in H4.
  assert (K4 : NAv v (set_m v3 m4)) by (unfold NAv in *; cbn [v_m set_m]; eapply NA_trans; eauto).
  destruct (_ <? _); cbn [fst]; [exact K4|]. eapply NAv_trans; [exact K4|apply allocate_dedicated_A; auto].
Qed.

Lemma type_loop_A fuel : forall v bits ty size align dedPref usage flags req pref ctb sub slots ded bufimg,
  GVc v -> align = 0 \/ Bits.pow2 align -> GranInv.kind_ok sub -> 1 <= size -> type_valid c ty = true -> ded_ok ded size ->
  NAv v (fst (type_loop c fuel v bits ty size align dedPref usage flags req pref ctb sub slots ded bufimg)).
Proof.
  induction fuel as [|f IH]; intros v bits ty size align dedPref usage flags req pref ctb sub slots ded bufimg HV Hal Hk Hs Hty Hd; cbn [type_loop]; [apply NAv_refl|].
  destruct (get_blist v (LDef ty)); [|apply NAv_refl].
  pose proof (alloc_of_type_A v (LDef ty) ty size align dedPref flags sub slots ded HV Hal Hk Hs Hty Hd) as H.
  pose proof (alloc_of_type_G c v (LDef ty) ty size align dedPref flags sub slots ded Hal Hk HV) as V1.
  destruct (alloc_of_type c v (LDef ty) ty size align dedPref flags sub slots ded) as (v1 & r). cbn [fst] in H, V1.
  destruct r as [[]|code| |]; cbn [fst]; try exact H. destruct (code =? VK_UNKNOWN); [exact H|].
  destruct (find_type_index c (v_global v1) _ usage flags req pref ctb bufimg) as [ty'|] eqn:Ef; [|exact H].
  destruct (VamTypeBits.find_type_index_bit c _ _ _ _ _ _ _ _ _ Ef) as (Hr & _).
  eapply NAv_trans; [exact H|apply IH; auto]. unfold type_valid. apply andb_true_iff. split; [apply Z.leb_le|apply Z.ltb_lt]; lia.
Qed.

Lemma multi_allocate_A v size align typeBits reqDed prefDed ded bufimg usage flags0 req pref ctb pool sub slots :
  GVc v -> GranInv.kind_ok sub -> (1 <= size -> ded_ok ded size) ->
  NAv v (fst (multi_allocate c v size align typeBits reqDed prefDed ded bufimg usage flags0 req pref ctb pool sub slots)).
Proof.
  intros HV Hk Hd. unfold multi_allocate. destruct (is_pow2_or_zero align) eqn:Ea; cbn [negb]; [|apply NAv_refl]. pose proof (pow2_or_zero_spec _ Ea) as Hal.
  destruct (size <? 1) eqn:Es; [apply NAv_refl|]. apply Z.ltb_ge in Es.
  destruct (calc_params usage flags0 reqDed _) as [flags|code| |]; try apply NAv_refl.
  destruct pool as [uid|].
  - destruct (get_blist v (LPool uid)) as [l|] eqn:Hg; [|apply NAv_refl]. destruct (gv_cfg c v HV _ _ Hg) as (_ & _ & Hty). apply alloc_of_type_A; auto.
  - destruct (find_type_index c (v_global v) typeBits usage flags req pref ctb bufimg) as [ty|] eqn:Ef; [|apply NAv_refl].
    destruct (VamTypeBits.find_type_index_bit c _ _ _ _ _ _ _ _ _ Ef) as (Hr & _).
    apply type_loop_A; auto. unfold type_valid. apply andb_true_iff. split; [apply Z.leb_le|apply Z.ltb_lt]; lia.
Qed.

(* ---------------------------------------------------------------- the calls about resources *)

Lemma dev_create_res_NA m image kind req : (forall id r, P (CCreate image id r)) -> NA m (fst (fst (dev_create_res m image kind req))).
Proof.
  intros Hp. unfold dev_create_res. destruct (dev_fault _ _ _) as ((f1 & fi) & code).
  destruct (negb (code =? 0)); [apply NA_log'; [reflexivity|auto]|]. destruct (DEV_TABLE <=? _); cbn [fst]; apply NA_log'; [reflexivity|auto|reflexivity|auto].
Qed.

Lemma dev_create_res_id m image kind req m1 id : dev_create_res m image kind req = (m1, 0, id) -> id = m_next_res m + 1.
Proof.
  unfold dev_create_res. destruct (dev_fault _ _ _) as ((f1 & fi) & code). destruct (negb (code =? 0)) eqn:Ec; [intros E; injection E as _ E0 _; subst code; discriminate|].
  cbn [m_next_res set_fault]. destruct (DEV_TABLE <=? _); [intros E; injection E as _ E0 _; unfold VK_OOHM in E0; discriminate|]. intros E. injection E as _ <-. reflexivity.
Qed.

Lemma dev_requirements_NA m image id : P (CReq image id) -> NA m (fst (dev_requirements m image id)).
Proof. intros Hp. unfold dev_requirements. cbn [fst]. apply NA_log. exact Hp. Qed.

Lemma dev_destroy_res_NA m image id : P (CDestroy image id) -> NA m (dev_destroy_res m image id).
Proof. intros Hp. unfold dev_destroy_res. apply NA_log'; [reflexivity|exact Hp]. Qed.

Lemma get_requirements_NA m image id : P (CReq image id) -> NA m (fst (fst (fst (get_requirements c m image id)))).
Proof.
  intros Hp. unfold get_requirements. pose proof (dev_requirements_NA m image id Hp) as Hq. destruct (dev_requirements m image id) as (mq & rq). destruct (11 <=? _); exact Hq.
Qed.

Lemma get_requirements_rq m image id r : find_res (m_res m) id = Some r -> snd (fst (fst (get_requirements c m image id))) = rs_req r.
Proof. intros F. unfold get_requirements, dev_requirements. rewrite F. destruct (11 <=? _); reflexivity. Qed.

Lemma create_resource_A v slot image kind sub devreq resusage minAlign usage flags req pref ctb pool :
  GVc v -> VamMemStable.ResInv (v_m v) -> GranInv.kind_ok sub ->
  (forall id r, P (CCreate image id r)) -> P (CReq image (m_next_res (v_m v) + 1)) -> P (CDestroy image (m_next_res (v_m v) + 1)) ->
  (forall mem o r, P (CBind image (m_next_res (v_m v) + 1) mem o r)) ->
  (1 <= rq_size devreq -> ded_ok (dedicated_info c flags (m_next_res (v_m v) + 1)) (rq_size devreq)) ->
  NAv v (fst (create_resource c v slot image kind sub devreq resusage minAlign usage flags req pref ctb pool)).
Proof.
  intros HV HR Hk Hcr Hrq Hds Hb Hd.
  unfold create_resource. pose proof (dev_create_res_NA (v_m v) image kind devreq Hcr) as H1.
  destruct (dev_create_res (v_m v) image kind devreq) as ((m1 & code) & id) eqn:Ecr. cbn [fst] in H1.
  destruct (negb (code =? 0)) eqn:Ec; [nafin|]. apply negb_false_iff, Z.eqb_eq in Ec. subst code.
  pose proof (dev_create_res_id _ _ _ _ _ _ Ecr) as Eid. subst id.
  destruct (VamMemStable.created_res_requirements _ _ _ _ _ _ HR Ecr) as (r0 & F0 & Erq & _).
  pose proof (get_requirements_NA m1 image _ Hrq) as H2. pose proof (get_requirements_rq m1 image _ r0 F0) as Eq2.
  destruct (get_requirements c m1 image (m_next_res (v_m v) + 1)) as (((m2 & rq) & rd) & pd). cbn [fst snd] in H2, Eq2. rewrite Erq in Eq2. subst rq.
  match goal with |- context [multi_allocate c (set_m v m2) ?a1 ?a2 ?a3 ?a4 ?a5 ?a6 ?a7 usage flags req pref ctb pool sub [slot]] =>
    pose proof (multi_allocate_A (set_m v m2) a1 a2 a3 a4 a5 a6 a7 usage flags req pref ctb pool sub [slot] (GR_set_m c v m2 HV) Hk Hd) as H;
    destruct (multi_allocate c (set_m v m2) a1 a2 a3 a4 a5 a6 a7 usage flags req pref ctb pool sub [slot]) as (v3 & r) end.
  cbn [fst] in H. assert (K3 : NAv v v3) by (unfold NAv in *; cbn [v_m set_m] in H; eapply NA_trans; [exact H1|]; eapply NA_trans; [exact H2|exact H]).
  pose proof (dev_destroy_res_NA (v_m v3) image _ Hds) as Hd3.
  destruct r as [[]|acode| |]; cbn [fst]; [|unfold NAv in *; cbn [v_m set_m]; eapply NA_trans; eauto|exact K3|exact K3].
  destruct (fl flags F_DONTBIND); [exact K3|].
  pose proof (bind_memory_N v3 slot image _ 0 Hb) as H4. destruct (bind_memory v3 slot image _ 0) as (v4 & br). cbn [fst] in H4.
  assert (K4 : NAv v v4) by (eapply NAv_trans; eauto).
  destruct br as [[]|bcode| |]; cbn [fst]; try exact K4.
  assert (H5 : NAv v4 (fst (if a_allocated (get_alloc v4 slot) then multi_free c v4 [slot] else (v4, OK tt)))) by (destruct (a_allocated _); [apply multi_free_N|apply NAv_refl]).
  destruct (if a_allocated (get_alloc v4 slot) then multi_free c v4 [slot] else (v4, OK tt)) as (v5 & fr). cbn [fst] in *.
  pose proof (dev_destroy_res_NA (v_m v5) image _ Hds) as Hd5.
  unfold NAv in *. cbn [v_m set_m]. eapply NA_trans; [exact K4|]. eapply NA_trans; [exact H5|exact Hd5].
Qed.

Lemma create_pool_A (Hc : cfg_ok c) v ty flags blockSize minB maxB0 minAlign :
  GVc v -> ~ In (v_next_uid v) (map p_uid (v_pools v)) ->
  (forall s a, slot_is v s a -> a_kind a = 1 -> a_lref a <> LPool (v_next_uid v)) ->
  0 < (if blockSize =? 0 then preferred_block_size c ty else blockSize) ->
  NAv v (fst (create_pool c v ty flags blockSize minB maxB0 minAlign)).
Proof.
  intros HV Hfresh Hnone Hbs. unfold create_pool. destruct (_ <? minB); [apply NAv_refl|]. destruct (_ || _) eqn:Ety; [apply NAv_refl|]. destruct (negb _); [apply NAv_refl|].
  destruct (_ && _) eqn:Eal; [apply NAv_refl|].
  match goal with |- context [create_min_blocks c (Z.to_nat minB) ?w ?lr0 ?bs] =>
    assert (V0 : GVc w) by (apply (create_pool_link_G c Hc); auto);
    pose proof (create_min_blocks_A (Z.to_nat minB) w lr0 bs V0 Hbs) as H; destruct (create_min_blocks c (Z.to_nat minB) w lr0 bs) as (v1 & r) end.
  cbn [fst] in H. assert (K1 : NAv v v1) by exact H.
  destruct r as [[]|code| |]; cbn [fst]; try exact K1.
  pose proof (pool_destroy_N v1 (v_next_uid v)) as H2. destruct (pool_destroy c v1 (v_next_uid v)) as (v2 & dr). cbn [fst] in *.
  eapply NAv_trans; [exact K1|]. eapply NAv_trans; [exact H2|apply NAv_eq; reflexivity].
Qed.

End Pass.

(* ---------------------------------------------------------------- one API function *)

(* the buffer or image an entry point works on: (through the image entry points?, handle, size of its memory requirement).
   CreateBuffer / CreateImage make it: the handle is the next one the device hands out. *)
Definition op_res (v : vam) (o : op) : option (bool * Z * Z) :=
  match o with
  | OCreateBuf _ _ dr _ _ _ _ _ _ _ _ => Some (false, m_next_res (v_m v) + 1, rq_size dr)
  | OCreateImg _ _ _ dr _ _ _ _ _ _ _ => Some (true, m_next_res (v_m v) + 1, rq_size dr)
  | ODestroyRes _ image res => Some (image, res, 0)
  | OAllocFor _ image res _ _ _ _ _ _ =>
    Some (image, res, match find_res (m_res (v_m v)) res with Some r => rq_size (rs_req r) | None => 0 end)
  | OBind _ image res _ => Some (image, res, 0)
  | ORawCreate image _ _ => Some (image, m_next_res (v_m v) + 1, 0)
  | ORawDestroy image res => Some (image, res, 0)
  | _ => None
  end.

(* the resource the entry point names in VkMemoryDedicatedAllocateInfo (0: none): its own resource, when the API version
   has the structure (>= 1.1) and the request does not say AllocationCreateCanAlias *)
Definition op_ded (c : vcfg) (v : vam) (o : op) : Z :=
  match o with
  | OCreateBuf _ _ _ _ _ _ flags _ _ _ _ => dedicated_info c flags (m_next_res (v_m v) + 1)
  | OCreateImg _ _ _ _ _ _ flags _ _ _ _ => dedicated_info c flags (m_next_res (v_m v) + 1)
  | OAllocFor _ _ res _ flags _ _ _ _ => dedicated_info c flags res
  | _ => 0
  end.

(* what the library owes the driver for the arguments of one call, given the resource the entry point works on:
   vkAllocateMemory: a positive size, a memory type of the table, a dedicated-allocation info that is absent or names the
   entry point's own resource with exactly the size of its requirement;
   vkCreate/Destroy Buffer/Image, vkGet*MemoryRequirements, vkBind*Memory: only from the entry points that work on a
   resource, on that resource, through the entry points of its kind;
   vkFlush/InvalidateMappedMemoryRanges: only from Allocation.Flush / Invalidate (fls; the range: VamFlush.flushes_ok);
   vkMapMemory, vkUnmapMemory, vkFreeMemory: VamMap.replay and VamHv.maps_hv speak about those *)

Definition op_flushes (o : op) : bool := match o with OFlush _ _ _ _ => true | _ => false end.
Definition call_args_ok (c : vcfg) (rs : option (bool * Z * Z)) (dinfo : Z) (fls : bool) (k : call) : Prop :=
  match k with
  | CAlloc _ ty size ded _ =>
    0 < size /\ type_valid c ty = true /\ (ded = 0 \/ (ded = dinfo /\ exists image, rs = Some (image, ded, size)))
  | CCreate image _ _ => exists R S, rs = Some (image, R, S)
  | CDestroy image res => exists S, rs = Some (image, res, S)
  | CReq image res => exists S, rs = Some (image, res, S)
  | CBind image res _ _ _ => exists S, rs = Some (image, res, S)
  | CFlush _ _ _ _ _ => fls = true
  | _ => True
  end.

Lemma dedicated_info_cases c flags res : dedicated_info c flags res = 0 \/ dedicated_info c flags res = res.
Proof. unfold dedicated_info. destruct (_ && _); auto. Qed.

Lemma nth_z_none_rng {A} (l : list A) i : nth_z l i = None -> i < 0 \/ zlen l <= i.
Proof.
  unfold nth_z. destruct (Z.ltb_spec i 0) as [Hl|Hl]; [left; lia|]. intros Hn. apply nth_error_None in Hn. right. unfold zlen. lia.
Qed.

Section Thm.
Variable c : vcfg.
Hypothesis Hc : cfg_ok c.

(* every heap has room for a block (Allocator: preferred block size = heap size / 8, rounded up to 32) *)
Definition heaps_min : Prop := Forall (fun h => 8 <= h_size h) (c_heaps c).

Lemma preferred_block_size_pos ty : heaps_min -> 0 <= c_large c -> type_valid c ty = true -> 0 < preferred_block_size c ty.
Proof.
  intros Hm Hl Hty. unfold preferred_block_size.
  assert (Hh : 8 <= heap_size c (type_heap c ty)).
  { unfold type_valid in Hty. apply andb_true_iff in Hty. destruct Hty as (T1 & T2). apply Z.leb_le in T1. apply Z.ltb_lt in T2.
    unfold type_heap. destruct (nth_z (c_types c) ty) as [x|] eqn:En; [|apply nth_z_none_rng in En; unfold ntypes in T2; lia].
    pose proof (co_types _ Hc) as Ft. rewrite Forall_forall in Ft. specialize (Ft x (nth_z_in _ _ _ En)).
    unfold heap_size. destruct (nth_z (c_heaps c) (ty_heap x)) as [h|] eqn:Eh; [|apply nth_z_none_rng in Eh; unfold nheaps in Ft; lia].
    unfold heaps_min in Hm. rewrite Forall_forall in Hm. apply Hm. eapply nth_z_in; eauto. }
  assert (P32 : Bits.pow2 32) by (exists 5; split; [lia|reflexivity]).
  match goal with |- 0 < Util.align_up ?raw 32 => assert (Hr : 0 < raw); [|pose proof (Bits.align_up_bounds raw 32 P32); lia] end.
  destruct (_ <=? 1073741824); [apply Z.quot_str_pos; lia|]. destruct (c_large c =? 0) eqn:E; [lia|apply Z.eqb_neq in E; lia].
Qed.

Theorem exec_args v o :
  VamInv c v -> GV c v -> VamMemStable.ResInv (v_m v) -> heaps_min -> 0 <= c_large c ->
  match o with OMkPool _ _ blockSize _ _ _ => 0 <= blockSize | _ => True end ->
  NA (call_args_ok c (op_res v o) (op_ded c v o) (op_flushes o)) (v_m v) (v_m (fst (exec c v o))).
Proof.
  intros HI HV HR Hm Hl Hd.
  set (P := call_args_ok c (op_res v o) (op_ded c v o) (op_flushes o)).
  assert (HPm : forall k, mem_call k -> P k) by (intros k Hk; destruct k; try destruct Hk; exact I).
  assert (Hnd : NoDup (map p_uid (v_pools v))) by apply (vi_pools_nodup _ _ _ _ HI).
  assert (Hfresh : ~ In (v_next_uid v) (map p_uid (v_pools v))).
  { intros Hin. apply in_map_iff in Hin. destruct Hin as (p & E & Hp). pose proof (vi_pools_uid _ _ _ _ HI) as F. rewrite Forall_forall in F. specialize (F p Hp). lia. }
  (* entry points that work on no resource, and the ones that only look at theirs: no dedicated info *)
  assert (HPa0 : forall id ty size ded r, 0 < size -> type_valid c ty = true -> ded = 0 -> P (CAlloc id ty size ded r)).
  { intros id ty size ded r H1 H2 H3. unfold P. cbn. auto. }
  pose (Q0 := fun (ded size : Z) => ded = 0).
  assert (K0 : GranInv.kind_ok 1) by (unfold GranInv.kind_ok; lia).
  destruct o; cbn [exec].
  - unfold allocate_memory. destruct (a_allocated _); [apply NA_refl|]. apply (multi_allocate_A c P Q0); auto; unfold Q0; auto.
  - unfold allocate_memory_slice. cbn zeta. destruct (slot_range slot (Z.to_nat n)) as [|s0 tl] eqn:Es; [apply NA_refl|]. rewrite <- Es.
    destruct (existsb _ _); [apply NA_refl|]. apply (multi_allocate_A c P Q0); auto; unfold Q0; auto.
  - apply (allocation_free_N c P HPm).
  - apply (multi_free_N c P HPm).
  - apply (allocation_map_N c P HPm).
  - apply (allocation_unmap_N P HPm).
  - unfold allocation_flush. destruct (negb _); [apply NA_refl|]. destruct (flush_range c v _ off size) as [[(ro & rs)|]|code| |]; try apply NA_refl.
    pose proof (dev_flush_NA P (v_m v) inval (a_mem (get_alloc v slot)) ro rs ltac:(intros; reflexivity)) as H. destruct (dev_flush _ _ _ _ _) as (m1 & code). cbn [fst] in H. exact H.
  - unfold harness_rw. pose proof (allocation_map_N c P HPm v slot) as H. destruct (allocation_map c v slot) as (v1 & r). cbn [fst] in H.
    destruct r as [[]|code| |]; cbn [fst]; try exact H.
    pose proof (allocation_unmap_N P HPm v1 slot) as H2. destruct (allocation_unmap v1 slot) as (v2 & ur). cbn [fst] in *. eapply NA_trans; eauto.
  - destruct (((ty <? 0) || (ntypes c <=? ty))%bool) eqn:Ety; [unfold create_pool; destruct (_ <? minB); [apply NA_refl|]; rewrite Ety; apply NA_refl|].
    apply (create_pool_A c P Q0); auto; [unfold Q0; auto| |].
    + intros s a Sa Ka E.
      destruct (vi_slots _ _ _ _ HI s a Sa (fun H => H)) as [(_ & l & b & rg & Hg & _)|(K2 & _)]; [|congruence].
      rewrite E in Hg. cbn in Hg. destruct (find_pool (v_pools v) (v_next_uid v)) as [p|] eqn:Ef; [|discriminate].
      apply Hfresh. destruct (find_pool_in _ _ _ Ef) as (Hp & Hu). rewrite <- Hu. apply in_map. exact Hp.
    + destruct (blockSize =? 0) eqn:Eb; [|apply Z.eqb_neq in Eb; lia]. apply preferred_block_size_pos; auto.
      apply orb_false_iff in Ety. destruct Ety as (E1 & E2). apply Z.ltb_ge in E1. apply Z.leb_gt in E2. unfold type_valid. apply andb_true_iff. split; [apply Z.leb_le; lia|apply Z.ltb_lt; lia].
  - apply (pool_destroy_N c P HPm).
  - unfold build_stats_string. destruct (calculate_statistics c v); [|apply NA_refl]. cbn [fst v_m set_m]. apply stats_budgets_NA.
  - unfold allocator_destroy. destruct (existsb _ (v_ded v)); [apply NA_refl|]. destruct (v_pools v); [|apply NA_refl]. destruct (existsb _ _); [apply NA_refl|apply (destroy_lists_N c P HPm)].
  - unfold create_buffer. destruct (a_allocated _); [apply NA_refl|]. destruct (_ && _); [apply NA_refl|]. destruct (size =? 0); [apply NA_refl|].
    destruct (_ && _); [apply NA_refl|].
    apply (create_resource_A c P (fun ded sz => ded = 0 \/ (ded = dedicated_info c flags (m_next_res (v_m v) + 1) /\ sz = rq_size devreq))); auto.
    + intros id ty sz ded r H1 H2 H3. unfold P. cbn. split; [auto|]. split; [auto|]. destruct H3 as [->|(-> & ->)]; [auto|].
      destruct (dedicated_info_cases c flags (m_next_res (v_m v) + 1)) as [E|E]; [auto|]. right. split; [reflexivity|]. exists false. rewrite E. reflexivity.
    + unfold GranInv.kind_ok; lia.
    + intros; unfold P; cbn; eauto.
    + unfold P; cbn; eauto.
    + unfold P; cbn; eauto.
    + intros; unfold P; cbn; eauto.
  - unfold create_image. destruct (a_allocated _); [apply NA_refl|]. destruct (width =? 0); [apply NA_refl|].
    apply (create_resource_A c P (fun ded sz => ded = 0 \/ (ded = dedicated_info c flags (m_next_res (v_m v) + 1) /\ sz = rq_size devreq))); auto.
    + intros id ty sz ded r H1 H2 H3. unfold P. cbn. split; [auto|]. split; [auto|]. destruct H3 as [->|(-> & ->)]; [auto|].
      destruct (dedicated_info_cases c flags (m_next_res (v_m v) + 1)) as [E|E]; [auto|]. right. split; [reflexivity|]. exists true. rewrite E. reflexivity.
    + unfold GranInv.kind_ok; destruct (tiling =? 0); lia.
    + intros; unfold P; cbn; eauto.
    + unfold P; cbn; eauto.
    + unfold P; cbn; eauto.
    + intros; unfold P; cbn; eauto.
  - unfold destroy_with_resource. destruct (res =? 0); [apply (allocation_free_N c P HPm)|].
    eapply NA_trans; [apply (dev_destroy_res_NA P (v_m v) image res); unfold P; cbn; eauto|]. apply (allocation_free_N c P HPm (set_m v _)).
  - unfold allocate_for_resource. destruct (res =? 0); [apply NA_refl|]. destruct (a_allocated _); [apply NA_refl|].
    pose proof (get_requirements_NA c P (v_m v) image res ltac:(unfold P; cbn; eauto)) as H2.
    assert (Erq : rq_size (snd (fst (fst (get_requirements c (v_m v) image res)))) = match find_res (m_res (v_m v)) res with Some r => rq_size (rs_req r) | None => 0 end).
    { unfold get_requirements, dev_requirements. destruct (find_res _ _); destruct (11 <=? _); reflexivity. }
    destruct (get_requirements c (v_m v) image res) as (((m1 & rq) & rd) & pd). cbn [fst snd] in H2, Erq.
    eapply NA_trans; [exact H2|].
    apply (multi_allocate_A c P (fun ded sz => ded = 0 \/ (ded = dedicated_info c flags res /\ sz = rq_size rq)) (fun _ => or_introl eq_refl)); auto.
    + intros id ty sz ded r H1 H3 H4. unfold P. cbn. split; [auto|]. split; [auto|]. destruct H4 as [->|(-> & ->)]; [auto|].
      destruct (dedicated_info_cases c flags res) as [E|E]; [auto|]. right. split; [reflexivity|]. exists image. rewrite E, Erq. reflexivity.
    + apply (GR_set_m c v m1 HV).
    + unfold GranInv.kind_ok; destruct image; lia.
  - apply (bind_memory_N P). intros; unfold P; cbn; eauto.
  - unfold raw_create. pose proof (dev_create_res_NA P (v_m v) image kind devreq ltac:(intros; unfold P; cbn; eauto)) as H. destruct (dev_create_res _ _ _ _) as ((m1 & code) & id). cbn [fst] in *. exact H.
  - unfold raw_destroy. cbn [fst v_m set_m]. apply dev_destroy_res_NA. unfold P; cbn; eauto.
Qed.

End Thm.
