(* GranLinear.v — the linear block metadata model (Linear.v) with the vam conflict relation:
   in every state reached from an empty block, two live items whose types conflict have no byte
   on a common page of the block's granularity.  The linear algorithm never rounds a request and
   never uses the page table; the only protection are the page scans of
   populateAllocationRequestLower / Upper (scan_prev, scan_next, blocksOnSamePage).
   Linear half of C09.  Built on LinearInv.LInv and LinearStep.step_preserves. *)
From Coq Require Import ZArith List Bool Lia.
From Coq Require Import ZifyBool.
From Arsenal Require Import Util Bits Gran GranInv.
From Arsenal Require Import Linear LinearInv LinearAlloc LinearFree LinearStep.
Import ListNotations.
Open Scope Z_scope.
Ltac Zify.zify_post_hook ::= Z.div_mod_to_equations.

(* ------------------------------------------------------------------ the property *)

(* no page of size g holds a byte of x and a byte of y *)
Definition no_share (g : Z) (x y : sub) : Prop :=
  forall a b, s_off x <= a < s_off x + s_size x -> s_off y <= b < s_off y + s_size y ->
              a / g <> b / g.

Definition gran_ok (g : Z) (x y : sub) : Prop :=
  conflict (s_type x) (s_type y) = true -> no_share g x y.

Lemma gran_ok_sym g x y : gran_ok g x y -> gran_ok g y x.
Proof.
  unfold gran_ok, no_share. intros H Hc a b Ha Hb E. rewrite conflict_sym in Hc.
  apply (H Hc b a Hb Ha). auto.
Qed.

Definition PageOK (l : linear) : Prop := pairwise (gran_ok (l_gran l)) (live l).

(* ------------------------------------------------------------------ page arithmetic *)

Lemma below_mult g m e : 0 < g -> m mod g = 0 -> e <= m -> (e - 1) / g < m / g.
Proof.
  intros Hg Hm He. apply Z.div_exact in Hm; [|lia].
  apply Z.div_lt_upper_bound; lia.
Qed.

(* x ends at or before ro and its last page is below ro's page: no page shared with anything at or
   above ro *)
Lemma prev_side g x ro a b :
  0 < g -> (s_off x + s_size x - 1) / g < ro / g ->
  s_off x <= a < s_off x + s_size x -> ro <= b -> a / g <> b / g.
Proof.
  intros Hg Hp Ha Hb.
  assert (a / g <= (s_off x + s_size x - 1) / g) by (apply Z.div_le_mono; lia).
  assert (ro / g <= b / g) by (apply Z.div_le_mono; lia). lia.
Qed.

Lemma next_side g y e a b :
  0 < g -> (e - 1) / g < s_off y / g ->
  a < e -> s_off y <= b -> a / g <> b / g.
Proof.
  intros Hg Hp Ha Hb.
  assert (a / g <= (e - 1) / g) by (apply Z.div_le_mono; lia).
  assert (s_off y / g <= b / g) by (apply Z.div_le_mono; lia). lia.
Qed.

(* Go: blocksOnSamePage *)
Lemma bosp_spec o1 s1 o2 g b :
  pow2 g -> blocks_on_same_page o1 s1 o2 g = Some b ->
  o1 + s1 <= o2 /\ 1 <= s1 /\ b = ((o1 + s1 - 1) / g =? o2 / g).
Proof.
  intros Hp. pose proof (pow2_pos _ Hp) as Hg. unfold blocks_on_same_page.
  destruct (Z.gtb_spec (o1 + s1) o2); [discriminate|].
  destruct (Z.ltb_spec s1 1); [discriminate|].
  destruct (Z.ltb_spec g 1); [discriminate|].
  intros Hinj; injection Hinj as <-. split; [lia|]. split; [lia|].
  fold (align_down (o1 + s1 - 1) g). fold (align_down o2 g).
  rewrite !align_down_spec by auto.
  set (e := o1 + s1 - 1).
  pose proof (Z.div_mod e g ltac:(lia)) as He. pose proof (Z.div_mod o2 g ltac:(lia)) as Ho.
  destruct (Z.eqb_spec (e / g) (o2 / g)) as [E|E].
  - apply Z.eqb_eq. rewrite He at 1. rewrite Ho at 1. rewrite E. lia.
  - apply Z.eqb_neq. intros E2. apply E.
    assert (g * (e / g) = g * (o2 / g)) by lia.
    apply (Z.mul_cancel_l _ _ g); lia.
Qed.

(* ------------------------------------------------------------------ the scans are sound *)

Lemma pairwise_rev_flip (R : sub -> sub -> Prop) v :
  pairwise R v -> pairwise (fun a b => R b a) (rev v).
Proof.
  induction v as [|s r IH]; cbn; [tauto|]. intros (H1 & H2).
  apply pairwise_app. split; [auto|]. split; [cbn; auto|].
  intros x y Hx [<-|[]]. apply in_rev in Hx. eapply Forall_forall in H1; eauto.
Qed.

(* items visited from the nearest one downwards; "Some false" means every conflicting item's last
   page lies below the page of ro *)
Lemma scan_prev_sound items ro g cf :
  pow2 g -> pairwise (fun a b => before b a) items ->
  scan_prev items ro g cf = Some false ->
  Forall (fun s => cf (s_type s) = true -> (s_off s + s_size s - 1) / g < ro / g) items.
Proof.
  intros Hp. pose proof (pow2_pos _ Hp) as Hg.
  induction items as [|s rest IH]; cbn [scan_prev pairwise]; [constructor|].
  intros (Hb & Hpw).
  destruct (blocks_on_same_page (s_off s) (s_size s) ro g) as [b|] eqn:Eb; [|discriminate].
  apply bosp_spec in Eb; auto. destruct Eb as (H1 & H2 & ->).
  destruct (Z.eqb_spec ((s_off s + s_size s - 1) / g) (ro / g)) as [E|E].
  - destruct (cf (s_type s)) eqn:Ec; [discriminate|]. intros H.
    constructor; [congruence|auto].
  - intros _.
    assert (Hs : (s_off s + s_size s - 1) / g < ro / g).
    { assert ((s_off s + s_size s - 1) / g <= ro / g) by (apply Z.div_le_mono; lia). lia. }
    constructor; [auto|]. apply Forall_forall. intros x Hx _.
    eapply Forall_forall in Hb; eauto. unfold before in Hb.
    assert ((s_off x + s_size x - 1) / g <= (s_off s + s_size s - 1) / g) by (apply Z.div_le_mono; lia).
    lia.
Qed.

(* items visited from the nearest one upwards *)
Lemma scan_next_sound items ro sz g cf :
  pow2 g -> pos_sizes items -> pairwise before items ->
  scan_next items ro sz g cf = Some false ->
  Forall (fun s => cf (s_type s) = true -> (ro + sz - 1) / g < s_off s / g) items.
Proof.
  intros Hp. pose proof (pow2_pos _ Hp) as Hg.
  induction items as [|s rest IH]; cbn [scan_next pairwise]; [constructor|].
  intros Hps (Hb & Hpw). apply pos_sizes_cons in Hps. destruct Hps as (Hs1 & Hps).
  destruct (blocks_on_same_page ro sz (s_off s) g) as [b|] eqn:Eb; [|discriminate].
  apply bosp_spec in Eb; auto. destruct Eb as (H1 & H2 & ->).
  destruct (Z.eqb_spec ((ro + sz - 1) / g) (s_off s / g)) as [E|E].
  - destruct (cf (s_type s)) eqn:Ec; [discriminate|]. intros H.
    constructor; [congruence|auto].
  - intros _.
    assert (Hs : (ro + sz - 1) / g < s_off s / g).
    { assert ((ro + sz - 1) / g <= s_off s / g) by (apply Z.div_le_mono; lia). lia. }
    constructor; [auto|]. apply Forall_forall. intros x Hx _.
    eapply Forall_forall in Hb; eauto. unfold before in Hb.
    assert (s_off s / g <= s_off x / g) by (apply Z.div_le_mono; lia). lia.
Qed.

Lemma conflict_of_handler l a b : g_h (l_h l) = HVam -> allocations_conflict (l_h l) a b = conflict a b.
Proof. unfold allocations_conflict. intros ->. reflexivity. Qed.

(* "Check previous suballocations for granularity conflict & align up if necessary" *)
Lemma lower_align_for_prev_sound l lo v ro align atype ro' :
  g_h (l_h l) = HVam -> pow2 (l_gran l) -> pos_sizes v -> chain_from lo v -> below_all ro v ->
  ro mod align = 0 ->
  lower_align_for_prev l v ro align atype = Some ro' ->
  ro <= ro' /\
  Forall (fun s => conflict (s_type s) atype = true ->
                   (s_off s + s_size s - 1) / l_gran l < ro' / l_gran l) v.
Proof.
  intros Hh Hp Hps Hch Hbel Hmod. pose proof (pow2_pos _ Hp) as Hg. unfold lower_align_for_prev.
  set (g := l_gran l) in *.
  assert (Hmult : forall m, ro <= m -> m mod g = 0 ->
            Forall (fun s => conflict (s_type s) atype = true -> (s_off s + s_size s - 1) / g < m / g) v).
  { intros m Hle Hm. apply Forall_forall. intros s Hs _.
    eapply Forall_forall in Hbel; eauto. cbn in Hbel. apply below_mult; auto; lia. }
  destruct ((g >? 1) && negb (g =? align) && (zlen v >? 0)) eqn:Econd.
  - destruct (scan_prev (rev v) ro g _) as [[|]|] eqn:Esc; [| |discriminate]; intros Hinj; injection Hinj as <-.
    + pose proof (align_up_bounds ro g Hp) as ((Hlo & _) & Hm). split; [lia|]. apply Hmult; auto.
    + split; [lia|]. apply scan_prev_sound in Esc; auto.
      * apply Forall_rev in Esc. rewrite rev_involutive in Esc.
        eapply Forall_impl; [|exact Esc]. cbn. intros s H Hc. apply H.
        rewrite conflict_of_handler; auto.
      * apply pairwise_rev_flip. eapply chain_pairwise; eauto.
  - intros Hinj; injection Hinj as <-. split; [lia|].
    destruct (Z.gtb_spec g 1) as [Hg1|Hg1].
    + destruct (Z.eqb_spec g align) as [Ega|Ega].
      * apply Hmult; [lia|]. rewrite Ega. exact Hmod.
      * cbn in Econd. assert (Hz : zlen v = 0) by (pose proof (zlen_nonneg v); lia).
        apply zlen_zero in Hz. subst v. constructor.
    + assert (g = 1) by lia. apply Hmult; [lia|]. replace g with 1 by lia. apply Z.mod_1_r.
Qed.

(* "Check next suballocations from second vector ... Increase alignment if necessary" (upper) *)
Lemma upper_align_for_next_sound l ro0 size align atype ro :
  g_h (l_h l) = HVam -> pow2 (l_gran l) -> pow2 align -> 1 <= size ->
  pos_sizes (rev (second l)) -> pairwise before (rev (second l)) ->
  Forall (fun s => ro0 + size <= s_off s) (second l) ->
  upper_align_for_next l ro0 size align atype = Some ro ->
  ro <= ro0 /\
  Forall (fun s => conflict (s_type s) atype = true ->
                   (ro + size - 1) / l_gran l < s_off s / l_gran l) (second l).
Proof.
  intros Hh Hp Ha Hsz Hps Hpw Hab. pose proof (pow2_pos _ Hp) as Hg. unfold upper_align_for_next.
  set (g := l_gran l) in *. set (sv := second l) in *.
  destruct ((g >? 1) && (zlen sv >? 0)) eqn:Econd.
  - destruct (scan_next (rev sv) ro0 size g _) as [[|]|] eqn:Esc; [| |discriminate]; intros Hinj; injection Hinj as <-.
    + pose proof (align_down_bounds (ro0 + size - 1) g Hp) as ((Hlo1 & Hhi1) & Hm1).
      set (ae := align_down (ro0 + size - 1) g) in *.
      pose proof (align_down_bounds (ae - size) g Hp) as ((_ & Hhi2) & _).
      pose proof (align_down_bounds (align_down (ae - size) g) align Ha) as ((_ & Hhi3) & _).
      set (r := align_down (align_down (ae - size) g) align) in *.
      split; [lia|]. apply Forall_forall. intros s Hs _.
      eapply Forall_forall in Hab; eauto. cbn in Hab.
      assert ((r + size - 1) / g < ae / g) by (replace (r + size - 1) with ((r + size) - 1) by lia; apply below_mult; auto; lia).
      assert (ae / g <= s_off s / g) by (apply Z.div_le_mono; lia). lia.
    + split; [lia|]. apply scan_next_sound in Esc; auto.
      apply Forall_rev in Esc. rewrite rev_involutive in Esc.
      eapply Forall_impl; [|exact Esc]. cbn. intros s H Hc. apply H.
      rewrite conflict_of_handler; auto.
  - intros Hinj; injection Hinj as <-. split; [lia|].
    destruct (Z.gtb_spec g 1) as [Hg1|Hg1].
    + cbn in Econd. assert (Hz : zlen sv = 0) by (pose proof (zlen_nonneg sv); lia).
      apply zlen_zero in Hz. rewrite Hz. constructor.
    + assert (Eg : g = 1) by lia. rewrite Eg. apply Forall_forall. intros s Hs _.
      eapply Forall_forall in Hab; eauto. cbn in Hab. rewrite !Z.div_1_r. lia.
Qed.

(* ------------------------------------------------------------------ a granted request is well placed *)

Definition req_gran_ok (l : linear) (atype ro size : Z) : Prop :=
  forall x, In x (live l) -> conflict (s_type x) atype = true ->
    forall a b, s_off x <= a < s_off x + s_size x -> ro <= b < ro + size ->
                a / l_gran l <> b / l_gran l.

Lemma live_cases l x :
  WInv l -> In x (live l) ->
  (In x (window l) /\ In x (first l)) \/ In x (second l).
Proof.
  intros HI Hx. destruct (WInv_elim _ HI) as (Hf & _ & _). unfold live in Hx.
  apply in_app_or in Hx. destruct Hx as [Hx|Hx]; apply lives_is_live in Hx; destruct Hx as (Hx & _).
  - left. split; auto. rewrite Hf. apply in_or_app. auto.
  - right. auto.
Qed.

Lemma first_sorted l : WInv l -> pos_sizes (first l) /\ chain_from 0 (first l).
Proof.
  intros HI. destruct (WInv_elim _ HI) as (Hf & _ & HW). destruct HW.
  rewrite <- Hf in *. split; [apply item_ok_pos; auto|apply w_first].
Qed.

Lemma window_sorted l : WInv l -> pos_sizes (window l) /\ pairwise before (window l).
Proof.
  intros HI. destruct (first_sorted l HI) as (Hp & Hc).
  destruct (WInv_elim _ HI) as (Hf & _ & _). rewrite Hf in Hp, Hc.
  apply pos_sizes_app in Hp. destruct Hp as (_ & Hp). apply chain_from_app in Hc. destruct Hc as (_ & Hc).
  split; auto. eapply chain_pairwise; eauto.
Qed.

(* double stack: the second vector reversed is ascending *)
Lemma upper_sorted l :
  WInv l -> l_mode l = MDouble -> pos_sizes (rev (second l)) /\ pairwise before (rev (second l)).
Proof.
  intros HI Hm. destruct (WInv_elim _ HI) as (_ & _ & HW).
  pose proof (order_pos _ _ _ _ _ _ _ _ _ HW) as Hpo. destruct HW. rewrite Hm in *. cbn [order] in *.
  apply pos_sizes_app in Hpo. destruct Hpo as (_ & Hp). destruct w_order as (Hc & _).
  apply chain_from_app in Hc. destruct Hc as (_ & Hc). split; auto. eapply chain_pairwise; eauto.
Qed.

(* ring buffer / empty: the second vector is ascending from 0 *)
Lemma lower_second_sorted l :
  WInv l -> l_mode l <> MDouble -> pos_sizes (second l) /\ chain_from 0 (second l).
Proof.
  intros HI Hm. destruct (WInv_elim _ HI) as (_ & _ & HW).
  pose proof (order_pos _ _ _ _ _ _ _ _ _ HW) as Hpo. destruct HW.
  assert (Ho : order (l_mode l) (window l) (second l) = second l ++ window l)
    by (unfold order; destruct (l_mode l) eqn:E; try reflexivity; congruence).
  rewrite Ho in *. apply pos_sizes_app in Hpo. destruct Hpo as (Hp & _).
  destruct w_order as (Hc & _). apply chain_from_app in Hc. destruct Hc as (Hc & _). auto.
Qed.

Lemma rem_zero_mod a g : 0 <= a -> 0 < g -> (Z.rem a g >? 0) = false -> a mod g = 0.
Proof.
  intros Ha Hg H. rewrite Z.rem_mod_nonneg in H by lia. pose proof (Z.mod_pos_bound a g Hg). lia.
Qed.

Lemma lower_end_of_first_gran l size align atype r :
  LInv l -> g_h (l_h l) = HVam -> pow2 align -> 1 <= size -> l_mode l <> MRing ->
  lower_end_of_first l size align atype = LGranted r ->
  rq_size r = size /\ req_gran_ok l atype (rq_offset r) size.
Proof.
  intros HI Hh Ha Hsz Hm. pose proof HI as (HWI & HL).
  destruct (WInv_elim _ HWI) as (Hf & Hn & HW). pose proof (w_gran _ _ _ _ _ _ _ _ _ HW) as Hp.
  pose proof (pow2_pos _ Hp) as Hg.
  destruct (first_facts _ HWI) as (Hbelow & He0 & He1).
  destruct (first_sorted l HWI) as (Hpf & Hcf).
  pose proof (align_up_bounds (end_of (first l)) align Ha) as ((Hlo & _) & Hmod).
  unfold lower_end_of_first.
  destruct (lower_align_for_prev l (first l) (align_up (end_of (first l)) align) align atype) as [ro|] eqn:Elp;
    [|discriminate].
  apply (lower_align_for_prev_sound l 0) in Elp; auto;
    [|eapply below_all_weaken; [|exact Hbelow]; lia].
  destruct Elp as (Hro & Hprev).
  set (fse := match l_mode l, last_z (second l) with MDouble, Some s => s_off s | _, _ => l_size l end).
  destruct (Z.leb_spec (ro + size) fse) as [Hfit|]; [|discriminate].
  destruct (l_gran l =? 0); [discriminate|].
  set (c := ((Z.rem size (l_gran l) >? 0) || (Z.rem ro (l_gran l) >? 0)) && mode_eqb (l_mode l) MDouble).
  assert (Hnext : (if c then scan_next (rev (second l)) ro size (l_gran l)
                                 (fun ty => allocations_conflict (l_h l) atype ty)
                   else Some false) = Some false ->
                  forall y, In y (second l) -> conflict (s_type y) atype = true ->
                            ro + size <= s_off y /\ (ro + size - 1) / l_gran l < s_off y / l_gran l).
  { intros Hsc y Hy Hcy.
    destruct (l_mode l) eqn:Emode; [| congruence |].
    - destruct HW. rewrite (w_mode eq_refl) in Hy. destruct Hy.
    - destruct (double_facts l HI Emode) as (sv0 & s & Hsv & Hlow & Hes & Hsl).
      assert (Hfse : fse = s_off s) by (unfold fse; rewrite Hsv, last_z_snoc; reflexivity).
      pose proof Hlow as Hlow'. rewrite Forall_forall in Hlow'. specialize (Hlow' y Hy).
      split; [lia|].
      destruct c eqn:Ec.
      + destruct (upper_sorted l HWI Emode) as (Hps & Hpw).
        apply scan_next_sound in Hsc; auto. rewrite Forall_forall in Hsc.
        apply Hsc; [apply in_rev; rewrite rev_involutive; exact Hy|].
        rewrite conflict_of_handler, conflict_sym; auto.
      + unfold c in Ec. cbn [mode_eqb] in Ec. rewrite andb_true_r in Ec.
        apply orb_false_iff in Ec. destruct Ec as (E1 & E2).
        apply rem_zero_mod in E1; [|lia|lia]. apply rem_zero_mod in E2; [|lia|lia].
        assert (Hmm : (ro + size) mod l_gran l = 0) by (rewrite Z.add_mod, E1, E2 by lia; reflexivity).
        assert ((ro + size - 1) / l_gran l < (ro + size) / l_gran l) by (apply below_mult; auto; lia).
        assert ((ro + size) / l_gran l <= s_off y / l_gran l) by (apply Z.div_le_mono; lia). lia. }
  assert (Hfinal : forall r0, r0 = mkReq (ro + 1) size RTEndOf1st ->
            (forall y, In y (second l) -> conflict (s_type y) atype = true ->
                       ro + size <= s_off y /\ (ro + size - 1) / l_gran l < s_off y / l_gran l) ->
            rq_size r0 = size /\ req_gran_ok l atype (rq_offset r0) size).
  { intros r0 -> Hnx. split; [reflexivity|]. unfold rq_offset; cbn [rq_handle].
    replace (ro + 1 - 1) with ro by lia.
    intros x Hx Hcx a b Hxa Hb.
    destruct (live_cases l x HWI Hx) as [(_ & Hxf)|Hxs].
    - rewrite Forall_forall in Hprev. apply (prev_side (l_gran l) x ro); auto; lia.
    - destruct (Hnx x Hxs Hcx) as (H1 & H2).
      intros E. symmetry in E. revert E. apply (next_side (l_gran l) x (ro + size)); auto; lia. }
  fold c. destruct c eqn:Ec.
  - destruct (scan_next (rev (second l)) ro size (l_gran l) _) as [[|]|] eqn:Esc; try discriminate.
    intros Hinj; injection Hinj as <-. apply Hfinal; auto.
  - intros Hinj; injection Hinj as <-. apply Hfinal; auto.
Qed.

Lemma lower_end_of_second_gran l size align atype r :
  LInv l -> g_h (l_h l) = HVam -> pow2 align -> 1 <= size -> l_mode l <> MDouble ->
  lower_end_of_second l size align atype = QGranted r ->
  rq_size r = size /\ req_gran_ok l atype (rq_offset r) size.
Proof.
  intros HI Hh Ha Hsz Hm. pose proof HI as (HWI & HL).
  destruct (WInv_elim _ HWI) as (Hf & Hn & HW). pose proof (w_gran _ _ _ _ _ _ _ _ _ HW) as Hp.
  pose proof (pow2_pos _ Hp) as Hg.
  destruct (lower_second_facts _ HWI Hm) as (Hbelow & (He0 & He1) & Hwin).
  destruct (lower_second_sorted l HWI Hm) as (Hps & Hcs).
  pose proof (align_up_bounds (end_of (second l)) align Ha) as ((Hlo & _) & Hmod).
  unfold lower_end_of_second.
  destruct (Z.eqb_spec (zlen (first l)) 0) as [Hz|Hz]; [discriminate|].
  assert (Hne : first l <> []) by (intros E; rewrite E in Hz; apply Hz; reflexivity).
  destruct (window_facts l HI Hne) as (s & rs & Hw & Hnth & Hsuf & Hlowest & Hsl & Hidx).
  destruct (lower_align_for_prev l (second l) (align_up (end_of (second l)) align) align atype) as [ro|] eqn:Elp;
    [|discriminate].
  apply (lower_align_for_prev_sound l 0) in Elp; auto;
    [|eapply below_all_weaken; [|exact Hbelow]; lia].
  destruct Elp as (Hro & Hprev).
  destruct (Z.eqb_spec (l_null_begin l) (zlen (first l))); [lia|].
  destruct (Z.ltb_spec (l_null_begin l) (zlen (first l))); [|lia].
  rewrite Hnth, Hsuf.
  destruct (Z.leb_spec (ro + size) (s_off s)) as [Hfit|]; [|discriminate].
  destruct (scan_next (s :: rs) ro size (l_gran l) _) as [[|]|] eqn:Esc; try discriminate.
  intros Hinj; injection Hinj as <-. split; [reflexivity|].
  unfold rq_offset; cbn [rq_handle]. replace (ro + 1 - 1) with ro by lia.
  destruct (window_sorted l HWI) as (Hpw & Hpww). rewrite Hw in Hpw, Hpww.
  apply scan_next_sound in Esc; auto.
  intros x Hx Hcx a b Hxa Hb.
  destruct (live_cases l x HWI Hx) as [(Hxw & _)|Hxs].
  - rewrite Hw in Hxw. rewrite Forall_forall in Esc, Hlowest.
    specialize (Hlowest x Hxw). cbn in Hlowest.
    assert (Hc2 : allocations_conflict (l_h l) atype (s_type x) = true)
      by (rewrite conflict_of_handler, conflict_sym; auto).
    specialize (Esc x Hxw Hc2).
    intros E. symmetry in E. revert E. apply (next_side (l_gran l) x (ro + size)); auto; lia.
  - rewrite Forall_forall in Hprev. apply (prev_side (l_gran l) x ro); auto; lia.
Qed.

Lemma populate_upper_gran l size align atype r :
  LInv l -> g_h (l_h l) = HVam -> pow2 align -> 1 <= size ->
  populate_upper l size align atype = QGranted r ->
  rq_size r = size /\ req_gran_ok l atype (rq_offset r) size.
Proof.
  intros HI Hh Ha Hsz. pose proof HI as (HWI & HL).
  destruct (WInv_elim _ HWI) as (Hf & Hn & HW). pose proof (w_gran _ _ _ _ _ _ _ _ _ HW) as Hp.
  pose proof (pow2_pos _ Hp) as Hg.
  destruct (first_facts _ HWI) as (Hbelow & He0 & He1).
  destruct (first_sorted l HWI) as (Hpf & Hcf).
  unfold populate_upper.
  destruct (mode_eqb (l_mode l) MRing) eqn:Emr; [discriminate|].
  destruct (size >? l_size l); [discriminate|].
  (* the second vector: empty, or a double stack whose last item is the lowest *)
  assert (Hsecond : (second l = [] /\ last_z (second l) = None) \/
                    (l_mode l = MDouble /\ exists sv0 s, second l = sv0 ++ [s] /\ last_z (second l) = Some s /\
                       Forall (fun x => s_off s <= s_off x) (second l))).
  { destruct (l_mode l) eqn:Emode; [| discriminate |].
    - left. destruct HW. rewrite (w_mode eq_refl). split; reflexivity.
    - right. split; [reflexivity|]. destruct (double_facts l HI Emode) as (sv0 & s & Hsv & Hlow & _).
      exists sv0, s. split; auto. split; auto. rewrite Hsv. apply last_z_snoc. }
  set (base := match last_z (second l) with
               | None => Some (l_size l - size)
               | Some s => if size >? s_off s then None else Some (s_off s - size)
               end).
  destruct base as [baseOffset|] eqn:Ebase; [|discriminate].
  assert (Habove : Forall (fun s => baseOffset + size <= s_off s) (second l) /\
                   pos_sizes (rev (second l)) /\ pairwise before (rev (second l))).
  { destruct Hsecond as [(E1 & E2)|(Emode & sv0 & s & Hsv & Hlast & Hlow)].
    - rewrite E1. cbn. repeat split; constructor.
    - unfold base in Ebase. rewrite Hlast in Ebase.
      destruct (size >? s_off s); [discriminate|]. injection Ebase as <-.
      split; [|apply upper_sorted; auto].
      eapply Forall_impl; [|exact Hlow]. cbn. intros; lia. }
  destruct Habove as (Habove & Hps & Hpw).
  pose proof (align_down_bounds baseOffset align Ha) as ((_ & Hadb) & _).
  destruct (upper_align_for_next l (align_down baseOffset align) size align atype) as [ro|] eqn:Eup; [|discriminate].
  apply upper_align_for_next_sound in Eup; auto;
    [|eapply Forall_impl; [|exact Habove]; cbn; intros; lia].
  destruct Eup as (Hro & Hnext).
  destruct (Z.gtb_spec (end_of (first l)) ro) as [|Hend]; [discriminate|].
  assert (Hfinal : forall r0, r0 = mkReq (ro + 1) size RTUpperAddress ->
            Forall (fun s => conflict (s_type s) atype = true ->
                             (s_off s + s_size s - 1) / l_gran l < ro / l_gran l) (first l) ->
            rq_size r0 = size /\ req_gran_ok l atype (rq_offset r0) size).
  { intros r0 -> Hprev. split; [reflexivity|]. unfold rq_offset; cbn [rq_handle].
    replace (ro + 1 - 1) with ro by lia.
    intros x Hx Hcx a b Hxa Hb.
    destruct (live_cases l x HWI Hx) as [(_ & Hxf)|Hxs].
    - rewrite Forall_forall in Hprev. apply (prev_side (l_gran l) x ro); auto; lia.
    - rewrite Forall_forall in Hnext, Habove. specialize (Habove x Hxs). cbn in Habove.
      intros E. symmetry in E. revert E. apply (next_side (l_gran l) x (ro + size)); auto; lia. }
  destruct (Z.gtb_spec (l_gran l) 1) as [Hg1|Hg1].
  - destruct (scan_prev (rev (first l)) ro (l_gran l) _) as [[|]|] eqn:Esc; try discriminate.
    intros Hinj; injection Hinj as <-. apply Hfinal; auto.
    apply scan_prev_sound in Esc; auto.
    + apply Forall_rev in Esc. rewrite rev_involutive in Esc.
      eapply Forall_impl; [|exact Esc]. cbn. intros s H Hc. apply H.
      rewrite conflict_of_handler, conflict_sym; auto.
    + apply pairwise_rev_flip. eapply chain_pairwise; eauto.
  - intros Hinj; injection Hinj as <-. apply Hfinal; auto.
    assert (Eg : l_gran l = 1) by lia. rewrite Eg.
    apply Forall_forall. intros s Hs _. eapply Forall_forall in Hbelow; eauto. cbn in Hbelow.
    rewrite !Z.div_1_r. lia.
Qed.

Theorem create_request_gran l size align upper atype strategy maxOffset r :
  LInv l -> g_h (l_h l) = HVam -> pow2 align ->
  create_request l size align upper atype strategy maxOffset = QGranted r ->
  rq_size r = size /\ req_gran_ok l atype (rq_offset r) size.
Proof.
  intros HI Hh Ha. unfold create_request.
  destruct (Z.leb_spec size 0); [discriminate|].
  destruct (atype =? 0); [discriminate|].
  destruct upper.
  - apply populate_upper_gran; auto; lia.
  - unfold populate_lower. destruct (l_mode l) eqn:Emode.
    + destruct (lower_end_of_first l size align atype) as [r0| | |] eqn:E1; try discriminate.
      * intros Hinj; injection Hinj as <-. eapply lower_end_of_first_gran; eauto; [lia|congruence].
      * apply lower_end_of_second_gran; auto; [lia|congruence].
    + apply lower_end_of_second_gran; auto; [lia|congruence].
    + destruct (lower_end_of_first l size align atype) as [r0| | |] eqn:E1; try discriminate.
      intros Hinj; injection Hinj as <-. eapply lower_end_of_first_gran; eauto; [lia|congruence].
Qed.

(* ------------------------------------------------------------------ every step keeps the property *)

Lemma pairwise_insert (R : sub -> sub -> Prop) l1 x l2 :
  (forall a b, R a b -> R b a) ->
  pairwise R (l1 ++ l2) -> (forall y, In y (l1 ++ l2) -> R y x) -> pairwise R (l1 ++ x :: l2).
Proof.
  intros Hsym Hpw Hx. apply pairwise_app in Hpw. destruct Hpw as (H1 & H2 & H3).
  apply pairwise_app. split; [auto|]. split.
  - cbn. split; [|auto]. apply Forall_forall. intros y Hy. apply Hsym, Hx. apply in_or_app; auto.
  - intros a b Ha [<-|Hb]; [apply Hx; apply in_or_app; auto|auto].
Qed.

Lemma pairwise_remove (R : sub -> sub -> Prop) l1 x l2 :
  pairwise R (l1 ++ x :: l2) -> pairwise R (l1 ++ l2).
Proof.
  intros Hpw. apply pairwise_app in Hpw. destruct Hpw as (H1 & H2 & H3). cbn in H2.
  apply pairwise_app. split; [auto|]. split; [tauto|]. intros a b Ha Hb. apply H3; auto. right; auto.
Qed.

Lemma pairwise_replace (R : sub -> sub -> Prop) l1 x x' l2 :
  (forall y, R x y -> R x' y) -> (forall y, R y x -> R y x') ->
  pairwise R (l1 ++ x :: l2) -> pairwise R (l1 ++ x' :: l2).
Proof.
  intros Hl Hr Hpw. apply pairwise_app in Hpw. destruct Hpw as (H1 & H2 & H3). cbn in H2.
  destruct H2 as (H2 & H4).
  apply pairwise_app. split; [auto|]. split.
  - cbn. split; [|auto]. eapply Forall_impl; [|exact H2]. auto.
  - intros a b Ha [<-|Hb]; [apply Hr; apply H3; auto; left; auto|apply H3; auto; right; auto].
Qed.

Theorem step_preserves_PageOK l o :
  LInv l -> g_h (l_h l) = HVam -> op_ok l o -> PageOK l -> PageOK (fst (step l o)).
Proof.
  intros HI Hh Hok HP. pose proof (step_preserves l o HI Hok) as (_ & Heff & (_ & Hgr & _) & _).
  unfold PageOK in *. rewrite Hgr.
  destruct o as [size align atype strat upper mo tag|size align atype strat upper mo|h|h tag| |atype size];
    cbn [step op_ok] in *.
  - (* OAlloc *)
    destruct (create_request l size align upper atype strat mo) as [r| | |] eqn:Hcr;
      cbn [fst snd] in *; auto.
    destruct (alloc l r atype tag size align) as [l'| |] eqn:Hal; cbn [fst snd live_effect o_kind o_off o_size out] in *; auto.
    destruct Heff as (_ & l1 & l2 & Hl & Hl').
    destruct (create_request_gran _ _ _ _ _ _ _ _ HI Hh Hok Hcr) as (Hrs & Hreq).
    rewrite Hl'. rewrite Hl in HP. apply pairwise_insert; auto; [apply gran_ok_sym|].
    intros y Hy. rewrite <- Hl in Hy. unfold gran_ok, no_share, new_item. cbn [Linear.s_off Linear.s_size Linear.s_type].
    intros Hc a b Hay Hb. rewrite Hrs in Hb. apply (Hreq y Hy Hc a b Hay Hb).
  - (* ORequest *)
    destruct (create_request l size align upper atype strat mo) as [r| | |]; cbn [fst snd] in *; auto.
  - (* OFree *)
    destruct (lin_free l h) as [l'| |] eqn:Hfr; cbn [fst snd live_effect o_kind out] in *; auto.
    destruct Heff as (l1 & b & l2 & Hl & _ & Hl'). rewrite Hl'. rewrite Hl in HP.
    eapply pairwise_remove; eauto.
  - (* OSetUD *)
    destruct (set_user_data l h tag) as [l'| |] eqn:Hsu; cbn [fst snd live_effect o_kind out] in *; auto.
    destruct Heff as [(a & x & b & Hl & _ & Hl')|(Hl' & _)].
    + rewrite Hl'. rewrite Hl in HP. eapply pairwise_replace; [| |exact HP]; intros y H; exact H.
    + rewrite Hl'. exact HP.
  - (* OClear *)
    cbn [fst snd live_effect] in *. rewrite Heff. exact I.
  - (* OMayHave *)
    cbn [fst snd] in *. exact HP.
Qed.

(* ------------------------------------------------------------------ reachable states *)

Fixpoint lrun (l : linear) (ops : list op) : linear :=
  match ops with
  | [] => l
  | o :: r => lrun (fst (step l o)) r
  end.

(* every operation of the history is admissible (LinearStep.op_ok) in the state it is applied to *)
Fixpoint ops_ok (l : linear) (ops : list op) : Prop :=
  match ops with
  | [] => True
  | o :: r => op_ok l o /\ ops_ok (fst (step l o)) r
  end.

Lemma lrun_inv l ops :
  LInv l -> g_h (l_h l) = HVam -> PageOK l -> ops_ok l ops ->
  LInv (lrun l ops) /\ PageOK (lrun l ops) /\ l_gran (lrun l ops) = l_gran l /\ l_size (lrun l ops) = l_size l.
Proof.
  revert l; induction ops as [|o ops IH]; intros l HI Hh HP Hok; cbn; [auto|].
  destruct Hok as (Ho & Hops).
  pose proof (step_preserves l o HI Ho) as (HI' & _ & (Hs & Hg & Hhh) & _).
  pose proof (step_preserves_PageOK l o HI Hh Ho HP) as HP'.
  destruct (IH _ HI' ltac:(congruence) HP' Hops) as (H1 & H2 & H3 & H4).
  split; [exact H1|]. split; [exact H2|]. split; congruence.
Qed.

Theorem linear_gran gr size ops :
  0 <= size -> pow2 gr -> ops_ok (linear_init HVam gr size) ops ->
  let l := lrun (linear_init HVam gr size) ops in
  forall x y, In x (live l) -> In y (live l) -> x <> y ->
    conflict (s_type x) (s_type y) = true ->
    forall a b, s_off x <= a < s_off x + s_size x -> s_off y <= b < s_off y + s_size y ->
                a / gr <> b / gr.
Proof.
  intros Hs Hg Hok l x y Hx Hy Hne Hc.
  assert (Hh : g_h (l_h (linear_init HVam gr size)) = HVam).
  { unfold linear_init, gran_init; cbn. destruct (gr >? 256); reflexivity. }
  destruct (lrun_inv (linear_init HVam gr size) ops (init_LInv HVam gr size Hs Hg) Hh I Hok)
    as (HI & HP & Hgr & _).
  fold l in HI, HP, Hgr. cbn in Hgr. unfold PageOK in HP. rewrite Hgr in HP.
  pose proof (pairwise_In (gran_ok gr) (live l) x y (gran_ok_sym gr) HP Hx Hy Hne) as H.
  exact (H Hc).
Qed.
