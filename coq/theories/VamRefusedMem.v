(* VamRefusedMem.v — C13 "a refused request changes nothing", the device memory objects.
   A refused AllocateMemory / AllocateMemoryForBuffer / AllocateMemoryForImage, and a CreateBuffer / CreateImage that
   fails before it binds, leave exactly the VkDeviceMemory objects that were there ([refused_same_memory]: the
   (handle, memory type, size) lists are permutations of each other; CreatePool: VamRefused.failed_create_pool_same_memory).
   The work is in the block sets: per block list, the (block id, memory handle) pairs are the same before and after
   (BS) - allocPage gives the block it created for the failing request back (it is empty, and the list has more
   than minBlockCount blocks), and releaseEmptyBlocksCreatedSince then finds nothing to release. *)
From Coq Require Import ZArith NArith List Bool Lia Permutation.
From Arsenal Require Import VamMap VamFlush VamHv VamHvStep VamHvStep2.
From Arsenal Require Import Util Budget BudgetProofs VamDev VamBlockList Vam VamInvMeta VamInv VamInvUpd VamInvDev.
From Arsenal Require Import VamInvStep VamInvStep2 VamInvThm VamProps VamAcct VamShape VamShapeStep VamFailProps VamMemStable.
From Arsenal Require SyncMem.
Import ListNotations.
Open Scope Z_scope.

(* the (block id, memory handle) pairs of a list *)
Definition IM (bs : list block) : list (Z * Z) := map (fun b => (bk_id b, bk_mem b)) bs.
Definition ims (v : vam) (lr : lref) : list (Z * Z) := match get_blist v lr with Some l => IM (bl_blocks l) | None => [] end.

(* every list has the same blocks *)
Definition BS (v v' : vam) : Prop := forall lr, Permutation (ims v' lr) (ims v lr).

Lemma BS_refl v : BS v v.
Proof. intros lr. apply Permutation_refl. Qed.
Lemma BS_trans a b d : BS a b -> BS b d -> BS a d.
Proof. intros H1 H2 lr. eapply Permutation_trans; [apply H2|apply H1]. Qed.

Lemma BS_same v v' : (forall lr, get_blist v' lr = get_blist v lr) -> BS v v'.
Proof. intros H lr. unfold ims. rewrite H. apply Permutation_refl. Qed.

Lemma BS_set_m v m : BS v (set_m v m).
Proof. apply BS_same. intros; apply get_blist_set_m. Qed.
Lemma BS_set_alloc v s a : BS v (set_alloc v s a).
Proof. apply BS_same. intros; apply get_blist_set_alloc. Qed.
Lemma BS_set_dedlist v lr d : BS v (set_dedlist v lr d).
Proof. apply BS_same. intros; apply get_blist_set_dedlist. Qed.

(* a list is replaced by one with the same pairs *)
Lemma BS_set_blist v lr l l' : get_blist v lr = Some l -> Permutation (IM (bl_blocks l')) (IM (bl_blocks l)) -> BS v (set_blist v lr l').
Proof.
  intros Hg P lr0. unfold ims. destruct (lref_eq_dec lr0 lr) as [->|Hne].
  - rewrite (get_set_blist_same _ _ _ _ Hg), Hg. exact P.
  - rewrite get_set_blist_other by congruence. apply Permutation_refl.
Qed.

Lemma IM_replace bs nb b : find_block bs (bk_id nb) = Some b -> bk_mem nb = bk_mem b -> IM (replace_block bs nb) = IM bs.
Proof.
  unfold IM. induction bs as [|x bs IH]; cbn [find_block replace_block map]; [discriminate|]. destruct (bk_id x =? bk_id nb) eqn:E.
  - intros H Hm. injection H as <-. cbn [map]. apply Z.eqb_eq in E. rewrite E, Hm. reflexivity.
  - intros H Hm. cbn [map]. rewrite (IH H Hm). reflexivity.
Qed.

(* a block is replaced by one with the same id and memory *)
Lemma BS_put_block v lr bid b nb : get_block v lr bid = Some b -> bk_id nb = bid -> bk_mem nb = bk_mem b -> BS v (put_block v lr nb).
Proof.
  intros Hgb Hi Hm. unfold put_block. unfold get_block in Hgb. destruct (get_blist v lr) as [l|] eqn:Hg; [|discriminate].
  apply (BS_set_blist v lr l _ Hg). cbn. rewrite (IM_replace _ nb b); [apply Permutation_refl|rewrite Hi; exact Hgb|exact Hm].
Qed.

Lemma sort_IM (l : blist) : Permutation (IM (bl_blocks (incrementally_sort l))) (IM (bl_blocks l)).
Proof.
  unfold incrementally_sort. destruct (_ || _); [apply Permutation_refl|]. cbn. apply Permutation_map. apply Permutation_sym. apply bubble_once_perm.
Qed.

Lemma BS_sort_list v lr : BS v (sort_list v lr).
Proof. unfold sort_list. destruct (get_blist v lr) as [l|] eqn:Hg; [|apply BS_refl]. apply (BS_set_blist v lr l _ Hg). apply sort_IM. Qed.

Section WithCfg.
Variable c : vcfg.
Hypothesis Hc : cfg_ok c.
Hypothesis Hmax : 0 <= c_maxcount c < 2147483647.
Hypothesis Hlarge : 0 <= c_large c < 2 ^ 61.

Lemma commit_request_BS v lr bid rq reqsize align flags sub slot : BS v (fst (commit_request c v lr bid rq reqsize align flags sub slot)).
Proof.
  unfold commit_request. destruct (get_blist v lr) as [l|] eqn:Hg; [|apply BS_refl].
  destruct (get_block v lr bid) as [b|] eqn:Hgb; [|apply BS_refl].
  destruct (get_block_in _ _ _ _ Hgb) as (_ & _ & _ & Hid).
  destruct (sm_sub (v_m v) (bk_mem b) (bk_sm b)) as (m1 & s1).
  destruct (if fl flags F_MAPPED then sm_map c m1 (bk_mem b) s1 else (m1, s1, OK tt)) as ((m2 & s2) & mr).
  set (nb := mkBlock (bk_id b) (bk_mem b) s2 (bk_meta b)).
  assert (H2 : BS v (put_block (set_m v m2) lr nb)).
  { eapply BS_trans; [apply BS_set_m|]. apply (BS_put_block (set_m v m2) lr bid b nb); [unfold get_block; rewrite get_blist_set_m; exact Hgb|exact Hid|reflexivity]. }
  set (v2 := put_block (set_m v m2) lr nb) in *.
  destruct mr as [[]|code| |]; cbn [fst]; try exact H2.
  assert (H3 : BS v (set_alloc v2 slot (alloc_init (mapping_allowed flags)))) by (eapply BS_trans; [exact H2|apply BS_set_alloc]).
  destruct (meta_alloc (bk_meta b) rq sub slot reqsize align) as [(mt' & handle)|code| |]; cbn [fst]; try exact H3.
  set (v3 := set_alloc v2 slot (alloc_init (mapping_allowed flags))) in *.
  assert (Hgb3 : get_block v3 lr bid = Some nb).
  { unfold v3, get_block. rewrite get_blist_set_alloc. unfold v2.
    (* the block just put is found under its id *)
    unfold put_block. rewrite get_blist_set_m, Hg. rewrite (get_set_blist_same (set_m v m2) lr l) by (rewrite get_blist_set_m; exact Hg). cbn [bl_blocks set_blocks].
    unfold get_block in Hgb. rewrite Hg in Hgb. clear - Hgb Hid. revert Hgb. induction (bl_blocks l) as [|x bs IH]; cbn; [discriminate|].
    destruct (bk_id x =? bid) eqn:E.
    - intros H; injection H as ->. cbn [bk_id nb]. rewrite Hid, Z.eqb_refl. cbn. rewrite Hid, Z.eqb_refl. reflexivity.
    - intros H. cbn [bk_id nb]. rewrite Hid, E. cbn. rewrite E. apply IH. exact H. }
  assert (H4 : BS v (put_block v3 lr (mkBlock (bk_id b) (bk_mem b) s2 mt'))).
  { eapply BS_trans; [exact H3|]. apply (BS_put_block v3 lr bid nb); [exact Hgb3|exact Hid|reflexivity]. }
  destruct (_ && _); cbn [fst]; [exact H4|]. eapply BS_trans; [exact H4|]. eapply BS_trans; [apply BS_set_alloc|apply BS_set_m].
Qed.

Lemma alloc_from_block_BS v lr bid size align flags sub slot : BS v (fst (alloc_from_block c v lr bid size align flags sub slot)).
Proof.
  unfold alloc_from_block. destruct (get_block v lr bid) as [b|] eqn:Hgb; [|apply BS_refl]. destruct (negb _); [apply BS_refl|].
  destruct (meta_create_request _ _ _ _ _ _) as [mt' rq| | |]; try apply BS_refl.
  destruct (get_block_in _ _ _ _ Hgb) as (_ & _ & _ & Hid).
  eapply BS_trans; [apply (BS_put_block v lr bid b (mkBlock (bk_id b) (bk_mem b) (bk_sm b) mt')); [exact Hgb|exact Hid|reflexivity]|apply commit_request_BS].
Qed.

Lemma try_blocks_BS ids : forall v lr size align flags sub slot, BS v (fst (try_blocks c v lr ids size align flags sub slot)).
Proof.
  induction ids as [|bid tl IH]; intros v lr size align flags sub slot; cbn [try_blocks]; [apply BS_refl|].
  pose proof (alloc_from_block_BS v lr bid size align flags sub slot) as H.
  destruct (alloc_from_block c v lr bid size align flags sub slot) as (v1 & r). cbn [fst] in H.
  destruct r; cbn [fst]; try exact H; [eapply BS_trans; [exact H|apply BS_sort_list]|eapply BS_trans; [exact H|apply IH]].
Qed.


(* list lr got one more block (bid, mem); nothing else changed *)
Definition grew1 (v v' : vam) (lr : lref) (bid mem : Z) : Prop :=
  (forall lr0, lr0 <> lr -> Permutation (ims v' lr0) (ims v lr0)) /\ Permutation (ims v' lr) ((bid, mem) :: ims v lr).

Lemma BS_grew1 a b d lr bid mem : BS a b -> grew1 b d lr bid mem -> grew1 a d lr bid mem.
Proof.
  intros H (G1 & G2). split.
  - intros lr0 Hne. eapply Permutation_trans; [apply G1; exact Hne|apply H].
  - eapply Permutation_trans; [exact G2|]. apply perm_skip. apply H.
Qed.

Lemma grew1_BS a b d lr bid mem : grew1 a b lr bid mem -> BS b d -> grew1 a d lr bid mem.
Proof.
  intros (G1 & G2) H. split.
  - intros lr0 Hne. eapply Permutation_trans; [apply H|apply G1; exact Hne].
  - eapply Permutation_trans; [apply H|exact G2].
Qed.

Lemma create_block_BG v lr l size :
  get_blist v lr = Some l ->
  let '(v', r) := create_block c v lr size in
  match r with OK bid => bid = bl_next l /\ exists mem, grew1 v v' lr bid mem | _ => BS v v' end.
Proof.
  intros Hg. unfold create_block. rewrite Hg. destruct (alloc_vk c (v_m v) (bl_type l) size 0) as (m1 & r).
  destruct r as [mem|code| |]; try apply BS_set_m. split; [reflexivity|]. exists mem. split.
  - intros lr0 Hne. unfold ims. rewrite get_set_blist_other by congruence. rewrite get_blist_set_m. apply Permutation_refl.
  - unfold ims. rewrite (get_set_blist_same (set_m v m1) lr l) by (rewrite get_blist_set_m; exact Hg). rewrite Hg. cbn [bl_blocks set_blocks_next].
    unfold IM. rewrite map_app. cbn [map bk_id bk_mem]. apply Permutation_sym. apply Permutation_cons_append.
Qed.

Lemma retry_create_BG fuel : forall v lr l nbs shift size freeMemory canFallback last,
  get_blist v lr = Some l -> (forall x, last <> OK x) ->
  let '(v', r) := retry_create c fuel v lr nbs shift size freeMemory canFallback last in
  match r with OK bid => bid = bl_next l /\ exists mem, grew1 v v' lr bid mem | _ => BS v v' end.
Proof.
  induction fuel as [|f IH]; intros v lr l nbs shift size freeMemory canFallback last Hg Hl; cbn [retry_create].
  - destruct last as [x|code| |]; [exfalso; eapply Hl; reflexivity|apply BS_refl..].
  - destruct last as [x|code| |]; [exfalso; eapply Hl; reflexivity| |apply BS_refl|apply BS_refl].
    destruct (3 <=? shift); [apply BS_refl|]. destruct (size <=? _); [|apply BS_refl].
    destruct (_ || _); [|apply (IH v lr l); auto].
    pose proof (create_block_BG v lr l (Z.quot nbs 2) Hg) as CB. destruct (create_block c v lr (Z.quot nbs 2)) as (v1 & r) eqn:Ecb.
    destruct r as [bid|code1| |].
    + (* created: the loop stops at once *)
      destruct f as [|f']; cbn [retry_create]; exact CB.
    + assert (Hg1 : get_blist v1 lr = Some l).
      { unfold create_block in Ecb. rewrite Hg in Ecb. destruct (alloc_vk _ _ _ _ _) as (m1 & r1). destruct r1; try discriminate; injection Ecb as <- _; rewrite get_blist_set_m; exact Hg. }
      pose proof (IH v1 lr l (Z.quot nbs 2) (shift + 1) size freeMemory canFallback (ER code1) Hg1 ltac:(discriminate)) as R.
      destruct (retry_create c f v1 lr _ _ size freeMemory canFallback (ER code1)) as (v2 & r2).
      destruct r2 as [bid|c2| |]; [destruct R as (E & mem & G); split; [exact E|exists mem; eapply BS_grew1; eauto]|eapply BS_trans; eauto..].
    + destruct f as [|f']; cbn [retry_create]; exact CB.
    + destruct f as [|f']; cbn [retry_create]; exact CB.
Qed.

Lemma Permutation_filter' {A} (f : A -> bool) a b : Permutation a b -> Permutation (filter f a) (filter f b).
Proof.
  induction 1 as [|x l l' _ IH|x y l|l l' l'' _ IH1 _ IH2]; cbn; [constructor| | |eapply Permutation_trans; eauto].
  - destruct (f x); [apply perm_skip|]; exact IH.
  - destruct (f x), (f y); try apply Permutation_refl. apply perm_swap.
Qed.

Lemma filter_no_id bs id : ~ In id (map bk_id bs) -> filter (fun p => negb (fst p =? id)) (IM bs) = IM bs.
Proof.
  unfold IM. induction bs as [|y bs IH]; cbn [map filter fst]; [reflexivity|]. intros Hn.
  assert (Hy : bk_id y <> id) by (intros Ey; apply Hn; left; exact Ey). apply Z.eqb_neq in Hy. rewrite Hy. cbn [negb].
  rewrite IH; [reflexivity|intros Hin; apply Hn; right; exact Hin].
Qed.

Lemma IM_remove bs id : NoDup (map bk_id bs) -> IM (remove_block bs id) = filter (fun p => negb (fst p =? id)) (IM bs).
Proof.
  induction bs as [|x bs IH]; [reflexivity|]. intros Hnd. inversion Hnd as [|? ? Hx Hr]; subst. cbn [remove_block].
  change (IM (x :: bs)) with ((bk_id x, bk_mem x) :: IM bs). cbn [filter fst].
  destruct (bk_id x =? id) eqn:E; cbn [negb].
  - apply Z.eqb_eq in E. symmetry. apply filter_no_id. rewrite <- E. exact Hx.
  - change (IM (x :: remove_block bs id)) with ((bk_id x, bk_mem x) :: IM (remove_block bs id)). rewrite (IH Hr). reflexivity.
Qed.

Lemma filter_all {A} (f : A -> bool) l : (forall x, In x l -> f x = true) -> filter f l = l.
Proof. induction l as [|x l IH]; cbn; [reflexivity|]. intros H. rewrite (H x (or_introl eq_refl)), IH; [reflexivity|intros y Hy; apply H; right; exact Hy]. Qed.

(* a freshly created block that no Allocation object refers to is empty *)
Lemma new_block_empty v0 v5 lr l0 l5 b5 s :
  VamInvU c v0 [] [] -> get_blist v0 lr = Some l0 -> bl_next l0 <= bk_id b5 ->
  VamInvU c v5 [] [] -> tab_frame v0 v5 [s] -> a_allocated (get_alloc v5 s) = false ->
  get_blist v5 lr = Some l5 -> In b5 (bl_blocks l5) -> meta_is_empty (bk_meta b5) = true.
Proof.
  intros I0 Hg0 Hid I5 T5 D5 Hg5 Hb5.
  pose proof (vi_lists _ _ _ _ I5 _ _ Hg5) as Hwf5. pose proof (bw_meta _ _ Hwf5) as Hm5. rewrite Forall_forall in Hm5.
  destruct (meta_bookkeeping _ (Hm5 _ Hb5)) as (_ & _ & He). apply He.
  destruct (meta_live (bk_meta b5)) as [|rg tl] eqn:El; [reflexivity|exfalso].
  destruct (vi_tags _ _ _ _ I5 lr l5 b5 rg Hg5 Hb5 ltac:(rewrite El; left; reflexivity)) as (s' & a' & _ & Sa' & Ka' & La' & Ba' & _).
  assert (Hne : s' <> s) by (intros ->; rewrite (get_alloc_slot _ _ _ Sa') in D5; destruct Sa'; congruence).
  assert (Sa0 : slot_is v0 s' a') by (apply (slot_is_frame _ _ _ _ _ T5); [intros [E|[]]; congruence|exact Sa']).
  destruct (vi_slots _ _ _ _ I0 s' a' Sa0 (fun H => H)) as [(_ & l & b & rg0 & Hg & Hb & Hbid & _)|(K & _)]; [|congruence].
  rewrite La' in Hg. assert (l = l0) by congruence. subst l.
  pose proof (bw_ids _ _ (vi_lists _ _ _ _ I0 _ _ Hg0)) as Hids. rewrite Forall_forall in Hids. specialize (Hids b Hb). lia.
Qed.


Lemma ims_len v lr l : get_blist v lr = Some l -> zlen (ims v lr) = zlen (bl_blocks l).
Proof. intros Hg. unfold ims, IM, zlen. rewrite Hg, map_length. reflexivity. Qed.

Lemma ims_ids v lr l : get_blist v lr = Some l -> map fst (ims v lr) = map bk_id (bl_blocks l).
Proof. intros Hg. unfold ims, IM. rewrite Hg, map_map. reflexivity. Qed.

(* allocPage that fails leaves every list with the blocks it had *)
Lemma alloc_page_fail_BS v lr size align flags sub s :
  VamInvU c v [] [] -> (forall l, get_blist v lr = Some l -> bl_min l <= zlen (bl_blocks l)) ->
  Bits.pow2 align -> min_ok v lr align -> 0 <= s < zlen (v_tab v) -> a_allocated (get_alloc v s) = false ->
  let '(v', r) := alloc_page c v lr size align flags sub s in match r with ER _ => BS v v' | _ => True end.
Proof.
  intros HI HLB Hal Hmin Hs Hdead. unfold alloc_page. destruct (get_blist v lr) as [l|] eqn:Hg; [|exact I].
  pose proof (heap_budget_same c (v_m v) (type_heap c (bl_type l))) as Hb.
  destruct (heap_budget c (v_m v) (type_heap c (bl_type l))) as ((m1 & usage) & budget). cbn [fst] in Hb.
  assert (K1 : keeps c v (set_m v m1) [] [] s).
  { split; [apply VamInvU_mach_same; auto|]. split; [apply tab_frame_set_m|]. split; [apply lists_frame_set_m|auto]. }
  destruct (_ && _); [apply BS_set_m|]. destruct (bl_pref l <? size); [apply BS_set_m|].
  pose proof K1 as (I1 & T1 & L1 & D1).
  assert (Hs1 : 0 <= s < zlen (v_tab (set_m v m1))) by (cbn; auto).
  pose proof (try_blocks_inv c (search_order c l flags) (set_m v m1) [] [] lr size align flags sub s I1 Hal (min_ok_frame _ _ _ _ L1 Hmin) Hs1 D1) as TB.
  pose proof (try_blocks_BS (search_order c l flags) (set_m v m1) lr size align flags sub s) as B2.
  destruct (try_blocks c (set_m v m1) lr (search_order c l flags) size align flags sub s) as (v2 & r). cbn [fst] in B2.
  assert (BS2 : BS v v2) by (eapply BS_trans; [apply BS_set_m|exact B2]).
  pose proof (af_keeps c _ _ _ _ _ _ _ TB) as TK.
  destruct r; auto.
  pose proof (keeps_trans c _ _ _ _ _ _ K1 TK) as K2. clear TB TK.
  destruct (negb _); [exact BS2|].
  destruct (if bl_explicit l then (bl_pref l, 0) else shrink_new_block 3 (bl_pref l) 0 (calc_max_block_size l) size) as (nbs & shift).
  (* the list in v2 *)
  pose proof K2 as (I2 & T2 & L2 & D2).
  destruct (lf_some _ _ L2 _ _ Hg) as (l2 & Hg2 & C2).
  assert (En2 : bl_next l <= bl_next l2) by (destruct C2 as (_&_&_&_&_&_&_&_&E); exact E).
  (* the creation phase: at most one block more *)
  match goal with |- context [if ?cond then create_block c v2 lr nbs else (v2, ER VK_OODM)] =>
    assert (K3 : let '(v3, first) := (if cond then create_block c v2 lr nbs else (v2, ER VK_OODM)) in
                 keeps c v v3 [] [] s /\ match first with OK bid => bid = bl_next l2 /\ exists mem, grew1 v2 v3 lr bid mem | _ => BS v2 v3 /\ get_blist v3 lr = Some l2 end);
    [destruct cond;
      [pose proof (create_block_keeps c Hc v v2 [] [] s lr nbs K2) as CK; pose proof (create_block_BG v2 lr l2 nbs Hg2) as CB;
       destruct (create_block c v2 lr nbs) as (v3 & first) eqn:Ecb; split; [exact CK|];
       destruct first as [bid|code| |]; [exact CB|split; [exact CB|]..];
       (unfold create_block in Ecb; rewrite Hg2 in Ecb; destruct (alloc_vk _ _ _ _ _) as (mx & rx); destruct rx; try discriminate; inversion Ecb; subst; rewrite get_blist_set_m; exact Hg2)
      |split; [exact K2|split; [apply BS_refl|exact Hg2]]]
    |destruct (if cond then create_block c v2 lr nbs else (v2, ER VK_OODM)) as (v3 & first)]
  end.
  destruct K3 as (K3 & G3).
  match goal with |- context [if bl_explicit l then (v3, first) else ?rc] =>
    assert (K4 : let '(v4, created) := (if bl_explicit l then (v3, first) else rc) in
                 keeps c v v4 [] [] s /\ match created with OK bid => bid = bl_next l2 /\ exists mem, grew1 v2 v4 lr bid mem | _ => BS v2 v4 end);
    [destruct (bl_explicit l);
      [split; [exact K3|destruct first; [exact G3|apply G3..]]
      |match goal with |- context [retry_create c 3 v3 lr nbs shift size ?fm ?cf first] =>
       pose proof (retry_create_inv c Hc 3 v v3 [] [] s lr nbs shift size fm cf first K3) as RK;
       destruct first as [bid|code| |];
        [cbn [retry_create] in *; split; [exact RK|exact G3]
        |destruct G3 as (G3 & Hg3);
         pose proof (retry_create_BG 3 v3 lr l2 nbs shift size fm cf (ER code) Hg3 ltac:(discriminate)) as RB;
         destruct (retry_create c 3 v3 lr nbs shift size fm cf (ER code)) as (v4 & created); split; [exact RK|];
         destruct created as [bid|c4| |]; [destruct RB as (E & mem & G); split; [exact E|exists mem; eapply BS_grew1; eauto]|eapply BS_trans; eauto..]
        |cbn [retry_create] in *; split; [exact RK|apply G3]
        |cbn [retry_create] in *; split; [exact RK|apply G3]] end]
    |destruct (if bl_explicit l then (v3, first) else rc) as (v4 & created)]
  end.
  destruct K4 as (K4 & G4).
  destruct created as [bid|code| |]; [|eapply BS_trans; eauto|exact I|exact I].
  destruct G4 as (Ebid & mem & G4).
  destruct (get_block v4 lr bid) as [nb|] eqn:Hgb; [|exact I]. destruct (meta_size (bk_meta nb) <? size); [exact I|].
  pose proof K4 as (I4 & T4 & L4 & D4).
  assert (Hs4 : 0 <= s < zlen (v_tab v4)) by (destruct T4 as (E & _); lia).
  pose proof (alloc_from_block_inv c v4 [] [] lr bid size align flags sub s I4 Hal (min_ok_frame _ _ _ _ L4 Hmin) Hs4 D4) as AF.
  pose proof (alloc_from_block_BS v4 lr bid size align flags sub s) as B5.
  destruct (alloc_from_block c v4 lr bid size align flags sub s) as (v5 & r2). cbn [fst] in B5.
  pose proof (af_keeps c _ _ _ _ _ _ _ AF) as AK.
  assert (G5 : grew1 v v5 lr bid mem) by (eapply BS_grew1; [exact BS2|]; eapply grew1_BS; eauto).
  (* the give-back *)
  assert (Hgive : keeps c v4 v5 [] [] s ->
    BS v (fst (match get_blist v5 lr, get_block v5 lr bid with
          | Some l5, Some b5 =>
            if meta_is_empty (bk_meta b5) && (bl_min l5 <? zlen (bl_blocks l5)) then
              match destroy_block c (set_blist v5 lr (set_blocks l5 (remove_block (bl_blocks l5) bid))) (bl_type l5) b5 with
              | (v', OK _) => (v', OK tt)
              | (v', STUCK) => (v', STUCK)
              | (v', _) => (v', PANIC)
              end
            else (v5, OK tt)
          | _, _ => (v5, STUCK)
          end)) \/
    snd (match get_blist v5 lr, get_block v5 lr bid with
          | Some l5, Some b5 =>
            if meta_is_empty (bk_meta b5) && (bl_min l5 <? zlen (bl_blocks l5)) then
              match destroy_block c (set_blist v5 lr (set_blocks l5 (remove_block (bl_blocks l5) bid))) (bl_type l5) b5 with
              | (v', OK _) => (v', OK tt)
              | (v', STUCK) => (v', STUCK)
              | (v', _) => (v', PANIC)
              end
            else (v5, OK tt)
          | _, _ => (v5, STUCK)
          end) = STUCK \/
    snd (match get_blist v5 lr, get_block v5 lr bid with
          | Some l5, Some b5 =>
            if meta_is_empty (bk_meta b5) && (bl_min l5 <? zlen (bl_blocks l5)) then
              match destroy_block c (set_blist v5 lr (set_blocks l5 (remove_block (bl_blocks l5) bid))) (bl_type l5) b5 with
              | (v', OK _) => (v', OK tt)
              | (v', STUCK) => (v', STUCK)
              | (v', _) => (v', PANIC)
              end
            else (v5, OK tt)
          | _, _ => (v5, STUCK)
          end) = PANIC).
  { intros K5. pose proof (keeps_trans c _ _ _ _ _ _ K4 K5) as (I5 & T5 & L5 & D5).
    destruct (get_blist v5 lr) as [l5|] eqn:Hg5; [|right; left; reflexivity]. destruct (get_block v5 lr bid) as [b5|] eqn:Hgb5; [|right; left; reflexivity].
    destruct (get_block_in _ _ _ _ Hgb5) as (l5' & Hg5' & Hb5 & Hid5). assert (l5' = l5) by congruence. subst l5'.
    assert (He : meta_is_empty (bk_meta b5) = true).
    { apply (new_block_empty v v5 lr l l5 b5 s HI Hg ltac:(lia) I5 T5 D5 Hg5 Hb5). }
    assert (Hcnt : (bl_min l5 <? zlen (bl_blocks l5)) = true).
    { apply Z.ltb_lt. destruct G5 as (_ & G5). apply Permutation_length in G5. cbn [length] in G5.
      pose proof (ims_len v5 lr l5 Hg5) as E5. pose proof (ims_len v lr l Hg) as E0. unfold zlen in *.
      destruct (lf_some _ _ L5 _ _ Hg) as (lx & Hgx & Cx). assert (lx = l5) by congruence. subst lx.
      destruct Cx as (_&_&Em&_). specialize (HLB l eq_refl). unfold zlen in HLB. lia. }
    rewrite He, Hcnt. cbn [andb].
    destruct (destroy_block c (set_blist v5 lr (set_blocks l5 (remove_block (bl_blocks l5) bid))) (bl_type l5) b5) as (v6 & dr) eqn:Ed.
    assert (E6 : exists m6, v6 = set_m (set_blist v5 lr (set_blocks l5 (remove_block (bl_blocks l5) bid))) m6).
    { unfold destroy_block in Ed. rewrite He in Ed. cbn [negb] in Ed. destruct (free_vk c _ _ _ _) as (m6 & fr). injection Ed as <- _. eauto. }
    destruct E6 as (m6 & ->).
    assert (B6 : BS v (set_m (set_blist v5 lr (set_blocks l5 (remove_block (bl_blocks l5) bid))) m6)).
    { intros lr0. unfold ims at 1. rewrite get_blist_set_m. destruct (lref_eq_dec lr0 lr) as [->|Hne].
      - rewrite (get_set_blist_same _ _ _ _ Hg5). cbn [bl_blocks set_blocks].
        rewrite (IM_remove _ _ (bw_nodup _ _ (vi_lists _ _ _ _ I5 _ _ Hg5))).
        destruct G5 as (_ & G5). unfold ims at 1 in G5. rewrite Hg5 in G5.
        eapply Permutation_trans; [apply (Permutation_filter' _ _ _ G5)|]. cbn [filter fst]. rewrite Z.eqb_refl. cbn [negb].
        rewrite filter_all; [apply Permutation_refl|]. intros (i & m) Hin. cbn [fst].
        assert (Hi : In i (map fst (ims v lr))) by (apply in_map_iff; exists (i, m); auto).
        rewrite (ims_ids v lr l Hg) in Hi. apply in_map_iff in Hi. destruct Hi as (bx & <- & Hbx).
        pose proof (bw_ids _ _ (vi_lists _ _ _ _ HI _ _ Hg)) as Hids. rewrite Forall_forall in Hids. specialize (Hids bx Hbx).
        apply negb_true_iff. apply Z.eqb_neq. lia.
      - rewrite get_set_blist_other by congruence. destruct G5 as (G5 & _). apply (G5 lr0 Hne). }
    destruct dr as [[]|cd| |]; cbn [fst snd]; auto. }
  destruct r2; auto.
  - specialize (Hgive AK). destruct (match get_blist v5 lr with Some _ => _ | None => _ end) as (v6 & dr). cbn [fst snd] in Hgive.
    destruct dr; destruct Hgive as [H|[H|H]]; auto; discriminate.
  - specialize (Hgive AK). destruct (match get_blist v5 lr with Some _ => _ | None => _ end) as (v6 & dr). cbn [fst snd] in Hgive.
    destruct dr; destruct Hgive as [H|[H|H]]; auto; discriminate.
Qed.


(* every list has at least minBlockCount blocks (the lower half of VamShape.LInv) *)
Definition LBv (v : vam) : Prop := forall lr l, get_blist v lr = Some l -> bl_min l <= zlen (bl_blocks l).

Lemma LBv_BS v v' : LBv v -> BS v v' -> lists_frame' v v' -> LBv v'.
Proof.
  intros HL HB LF lr l' Hg'. destruct (get_blist v lr) as [l|] eqn:Hg.
  - destruct (lf'_some _ _ LF _ _ Hg) as (l2 & Hg2 & Cs). assert (l2 = l') by congruence. subst l2.
    destruct Cs as (_ & _ & Em & _). rewrite Em. specialize (HL _ _ Hg). pose proof (Permutation_length (HB lr)) as Hlen.
    pose proof (ims_len v lr l Hg) as E1. pose proof (ims_len v' lr l' Hg') as E2. unfold zlen in *. lia.
  - rewrite (lf'_none _ _ LF _ Hg) in Hg'. discriminate.
Qed.

(* the lists are literally the same *)
Definition LS (v v' : vam) : Prop := forall lr, get_blist v' lr = get_blist v lr.
Lemma LS_refl v : LS v v. Proof. intros lr. reflexivity. Qed.
Lemma LS_trans a b d : LS a b -> LS b d -> LS a d. Proof. intros H1 H2 lr. rewrite H2, H1. reflexivity. Qed.
Lemma LS_BS v v' : LS v v' -> BS v v'. Proof. intros H. apply BS_same. exact H. Qed.
Lemma LS_LBv v v' : LS v v' -> LBv v -> LBv v'. Proof. intros H HL lr l Hg. rewrite H in Hg. eauto. Qed.
Lemma LS_set_m v m : LS v (set_m v m). Proof. intros lr. apply get_blist_set_m. Qed.
Lemma LS_set_alloc v s a : LS v (set_alloc v s a). Proof. intros lr. apply get_blist_set_alloc. Qed.
Lemma LS_set_dedlist v lr d : LS v (set_dedlist v lr d). Proof. intros lr0. apply get_blist_set_dedlist. Qed.

Lemma ded_page_LS v lr ty size sub doMap allowed slot ded : LS v (fst (allocate_dedicated_page c v lr ty size sub doMap allowed slot ded)).
Proof.
  unfold allocate_dedicated_page. destruct (alloc_vk c (v_m v) ty size ded) as (m1 & r). destruct r as [mem|code| |]; cbn [fst]; try apply LS_set_m.
  destruct (if doMap then sm_map c m1 mem SyncMem.sm_init else (m1, SyncMem.sm_init, OK tt)) as ((m2 & sm) & mr).
  destruct mr as [[]|code| |]; cbn [fst]; try apply LS_set_m.
  - destruct (_ && _); cbn [fst]; [apply LS_set_m|]. eapply LS_trans; [apply LS_set_m|]. eapply LS_trans; [apply LS_set_alloc|apply LS_set_m].
  - destruct (free_vk c m2 ty size mem) as (m3 & fr). apply LS_set_m.
Qed.

Lemma dedicated_loop_LS slots : forall v lr ty size sub doMap allowed done ded,
  LS v (fst (fst (dedicated_loop c v lr ty size sub doMap allowed slots done ded))).
Proof.
  induction slots as [|s tl IH]; intros v lr ty size sub doMap allowed done ded; cbn [dedicated_loop]; [apply LS_refl|].
  pose proof (ded_page_LS v lr ty size sub doMap allowed s ded) as H.
  destruct (allocate_dedicated_page c v lr ty size sub doMap allowed s ded) as (v1 & r). cbn [fst] in H.
  destruct r as [[]|code| |]; cbn [fst]; try exact H. eapply LS_trans; [exact H|apply IH].
Qed.

Lemma dedicated_rollback_LS done : forall v ty, LS v (fst (dedicated_rollback c v ty done)).
Proof.
  induction done as [|s tl IH]; intros v ty; cbn [dedicated_rollback]; [apply LS_refl|].
  destruct (free_vk c (v_m v) ty (a_size (get_alloc v s)) (a_mem (get_alloc v s))) as (m1 & fr).
  destruct fr as [[]|code| |]; cbn [fst]; try apply LS_set_m.
  destruct (remove_allocation c m1 (type_heap c ty) (a_size (get_alloc v s))) as (m2 & rr).
  destruct rr as [[]|code| |]; cbn [fst]; try apply LS_set_m.
  eapply LS_trans; [apply (LS_set_m v m2)|]. eapply LS_trans; [apply (LS_set_alloc (set_m v m2) s (set_allocated (get_alloc v s) false))|apply IH].
Qed.

Lemma allocate_dedicated_LS v lr ty size sub doMap allowed slots ded : LS v (fst (allocate_dedicated c v lr ty size sub doMap allowed slots ded)).
Proof.
  unfold allocate_dedicated. destruct slots as [|s0 tl0] eqn:Es; [apply LS_refl|]. rewrite <- Es.
  pose proof (dedicated_loop_LS slots v lr ty size sub doMap allowed [] ded) as H.
  destruct (dedicated_loop c v lr ty size sub doMap allowed slots [] ded) as ((v1 & r) & done). cbn [fst] in H.
  destruct r as [[]|code| |]; cbn [fst]; try exact H.
  - eapply LS_trans; [exact H|apply LS_set_dedlist].
  - pose proof (dedicated_rollback_LS done v1 ty) as H2. destruct (dedicated_rollback c v1 ty done) as (v2 & rr). cbn [fst] in *. eapply LS_trans; eauto.
Qed.

(* releaseEmptyBlocksCreatedSince finds nothing when every block is older *)
Lemma release_loop_noop ids : forall v lr l firstId,
  get_blist v lr = Some l -> (forall b, In b (bl_blocks l) -> bk_id b < firstId) -> fst (release_loop c v lr ids firstId) = v.
Proof.
  induction ids as [|bid tl IH]; intros v lr l firstId Hg Hold; cbn [release_loop]; [reflexivity|]. rewrite Hg.
  destruct (negb _); [reflexivity|]. destruct (find_block (bl_blocks l) bid) as [b|] eqn:Ef; [|reflexivity].
  destruct (find_block_in _ _ _ Ef) as (Hb & _). pose proof (Hold b Hb) as Hlt. apply Z.ltb_lt in Hlt. rewrite Hlt. cbn [orb]. apply (IH v lr l); auto.
Qed.

(* memoryBlockList.Allocate of one page that fails *)
Lemma bl_allocate_fail_BS v lr s size align0 flags sub :
  VamInvU c v [] [] -> LBv v -> align0 = 0 \/ Bits.pow2 align0 -> 0 <= s < zlen (v_tab v) -> a_allocated (get_alloc v s) = false ->
  let '(v', r) := bl_allocate c v lr [s] size align0 flags sub in match r with ER _ => BS v v' | _ => True end.
Proof.
  intros HI HL Hal Hs Hdead. unfold bl_allocate. destruct (get_blist v lr) as [l|] eqn:Hg; [|exact I].
  pose proof (vi_lists _ _ _ _ HI _ _ Hg) as Hwf.
  set (align := if align0 <? bl_minalign l then bl_minalign l else align0).
  assert (Hal' : Bits.pow2 align).
  { unfold align. pose proof (bw_align _ _ Hwf) as Hm. pose proof (Bits.pow2_pos _ Hm). destruct (align0 <? bl_minalign l) eqn:E; [auto|].
    destruct Hal as [->|H']; [apply Z.ltb_ge in E; lia|auto]. }
  assert (Hmin : min_ok v lr align).
  { intros l0 Hg0. assert (l0 = l) by congruence. subst l0. unfold align. destruct (align0 <? bl_minalign l) eqn:E; [lia|apply Z.ltb_ge in E; lia]. }
  cbn [allocate_loop].
  pose proof (alloc_page_fail_BS v lr size align flags sub s HI (fun l0 Hg0 => HL lr l0 Hg0) Hal' Hmin Hs Hdead) as P.
  pose proof (alloc_page_inv c Hc v [] [] lr size align flags sub s HI Hal' Hmin Hs Hdead) as PI.
  destruct (alloc_page c v lr size align flags sub s) as (v1 & r). destruct r as [[]|code| |]; cbn [allocate_loop unwind_loop]; auto.
  (* nothing to unwind; nothing to release *)
  destruct PI as (I1 & T1 & L1 & D1).
  destruct (lf_some _ _ L1 _ _ Hg) as (l1 & Hg1 & C1).
  assert (Hold : forall b, In b (bl_blocks l1) -> bk_id b < bl_next l).
  { intros b Hb. assert (Hi : In (bk_id b) (map fst (ims v1 lr))) by (rewrite (ims_ids v1 lr l1 Hg1); apply in_map; exact Hb).
    apply (Permutation_in _ (Permutation_map fst (P lr))) in Hi. rewrite (ims_ids v lr l Hg) in Hi. apply in_map_iff in Hi. destruct Hi as (b0 & E0 & Hb0).
    pose proof (bw_ids _ _ Hwf) as Hids. rewrite Forall_forall in Hids. specialize (Hids b0 Hb0). lia. }
  unfold release_empty_since. rewrite Hg1.
  pose proof (release_loop_noop (map bk_id (rev (bl_blocks l1))) v1 lr l1 (bl_next l) Hg1 Hold) as E.
  destruct (release_loop c v1 lr _ (bl_next l)) as (v3 & rr). cbn [fst] in E. subst v3. destruct rr as [[]|rc| |]; [exact P|exact P|exact I|exact I].
Qed.


Lemma calc_type_params_LS v ty size count flags : LS v (fst (calc_type_params c v ty size count flags)) /\ mach_same (v_m v) (v_m (fst (calc_type_params c v ty size count flags))).
Proof.
  unfold calc_type_params. destruct (_ && _); [|split; [apply LS_refl|apply mach_same_refl]].
  pose proof (heap_budget_same c (v_m v) (type_heap c ty)) as H. destruct (heap_budget c (v_m v) (type_heap c ty)) as ((m1 & u) & b). cbn [fst] in H.
  destruct (_ <? _); cbn [fst]; (split; [apply LS_set_m|exact H]).
Qed.

Lemma dead1 v s : 0 <= s < zlen (v_tab v) -> a_allocated (get_alloc v s) = false -> dead_slots v [s].
Proof. intros Hs Hd x [<-|[]]. auto. Qed.

Lemma nodup1 (s : Z) : NoDup [s].
Proof. constructor; [intros []|constructor]. Qed.

Lemma alloc_of_type_fail_BS v lr l ty size align dedPref flags sub s ded :
  VamInvU c v [] [] -> LBv v -> get_blist v lr = Some l -> bl_type l = ty -> align = 0 \/ Bits.pow2 align ->
  0 <= s < zlen (v_tab v) -> a_allocated (get_alloc v s) = false ->
  let '(v', r) := alloc_of_type c v lr ty size align dedPref flags sub [s] ded in match r with ER _ => BS v v' | _ => True end.
Proof.
  intros HI HL Hg Hty Hal Hs Hdead. unfold alloc_of_type. rewrite Hg.
  destruct (calc_type_params_LS v ty size (zlen [s]) flags) as (S1 & M1).
  destruct (calc_type_params c v ty size (zlen [s]) flags) as (v1 & fr) eqn:Ect. cbn [fst] in S1, M1.
  assert (E1 : exists m1, v1 = set_m v m1).
  { unfold calc_type_params in Ect. destruct (_ && _); [|injection Ect as <- _; exists (v_m v); destruct v; reflexivity].
    destruct (heap_budget c (v_m v) (type_heap c ty)) as ((m1 & u) & b). destruct (_ <? _); injection Ect as <- _; eauto. }
  destruct E1 as (m1 & ->). cbn [v_m set_m] in M1.
  assert (I1 : VamInvU c (set_m v m1) [] []) by (apply VamInvU_mach_same; auto).
  assert (L1 : LBv (set_m v m1)) by (apply (LS_LBv v); auto).
  assert (Hg1 : get_blist (set_m v m1) lr = Some l) by (rewrite get_blist_set_m; exact Hg).
  assert (Hd1 : dead_slots (set_m v m1) [s]) by (apply dead1; auto).
  destruct fr as [f1|code| |]; [|apply LS_BS; exact S1|exact I|exact I].
  destruct (fl f1 F_DEDICATED).
  { pose proof (allocate_dedicated_LS (set_m v m1) lr ty size sub (fl f1 F_MAPPED) (mapping_allowed f1) [s] ded) as D.
    destruct (allocate_dedicated c (set_m v m1) lr ty size sub _ _ [s] ded) as (v' & r). cbn [fst] in D.
    destruct r; auto. apply LS_BS. exact (LS_trans _ _ _ S1 D). }
  match goal with |- context [let '(v2, early) := ?e in _] =>
    assert (H2 : let '(v2, early) := e in
                 match early with
                 | Some (ER _) => LS (set_m v m1) v2
                 | Some _ => True
                 | None => LS (set_m v m1) v2 /\ VamInvU c v2 [] [] /\ dead_slots v2 [s] /\ zlen (v_tab v2) = zlen (v_tab v)
                 end);
    [|destruct e as (v2 & early)] end.
  { match goal with |- context [if ?cnd then _ else (set_m v m1, None)] => destruct cnd end;
      [|split; [apply LS_refl|split; [exact I1|split; [exact Hd1|reflexivity]]]].
    match goal with |- context [allocate_dedicated c (set_m v m1) lr ty size sub ?dm ?al [s] ded] =>
      pose proof (allocate_dedicated_LS (set_m v m1) lr ty size sub dm al [s] ded) as D;
      pose proof (allocate_dedicated_inv c (set_m v m1) [] lr l ty size sub dm al [s] ded I1 Hg1 Hty (nodup1 s) Hd1) as DI;
      destruct (allocate_dedicated c (set_m v m1) lr ty size sub dm al [s] ded) as (v' & r) end. cbn [fst] in D.
    destruct r as [[]|code| |]; auto. destruct DI as (A & B & _ & Dd). split; [exact D|]. split; [exact A|]. split; [exact Dd|]. destruct B as (E & _). exact E. }
  destruct early as [r|].
  { destruct r as [[]|code| |]; auto. apply LS_BS. exact (LS_trans _ _ _ S1 H2). }
  destruct H2 as (S2 & I2 & D2 & Z2).
  assert (Hs2 : 0 <= s < zlen (v_tab v2)) by lia.
  pose proof (bl_allocate_fail_BS v2 lr s size align f1 sub I2 (LS_LBv _ _ S2 L1) Hal Hs2 (proj2 (D2 s (or_introl eq_refl)))) as B3.
  destruct (bl_allocate c v2 lr [s] size align f1 sub) as (v3 & br).
  destruct br as [[]|bcode| |]; auto.
  assert (K3 : BS v v3) by (eapply BS_trans; [apply LS_BS; eapply LS_trans; [exact S1|exact S2]|exact B3]).
  match goal with |- context [if ?cnd then _ else (v3, ER bcode)] => destruct cnd end; [|exact K3].
  destruct (heap_budget c (v_m v3) (type_heap c ty)) as ((m4 & u) & b).
  destruct (_ <? _); [eapply BS_trans; [exact K3|apply BS_set_m]|].
  match goal with |- context [allocate_dedicated c (set_m v3 m4) lr ty size sub ?dm ?al [s] ded] =>
    pose proof (allocate_dedicated_LS (set_m v3 m4) lr ty size sub dm al [s] ded) as D;
    destruct (allocate_dedicated c (set_m v3 m4) lr ty size sub dm al [s] ded) as (v' & r) end. cbn [fst] in D.
  destruct r; auto. eapply BS_trans; [exact K3|]. apply LS_BS. eapply LS_trans; [apply LS_set_m|exact D].
Qed.

Lemma type_loop_fail_BS fuel : forall v bits ty size align dedPref usage flags req pref ctb sub s ded bufimg,
  VamInvU c v [] [] -> LBv v -> align = 0 \/ Bits.pow2 align -> 0 <= s < zlen (v_tab v) -> a_allocated (get_alloc v s) = false ->
  let '(v', r) := type_loop c fuel v bits ty size align dedPref usage flags req pref ctb sub [s] ded bufimg in
  match r with ER _ => BS v v' | _ => True end.
Proof.
  induction fuel as [|f IH]; intros v bits ty size align dedPref usage flags req pref ctb sub s ded bufimg HI HL Hal Hs Hdead; cbn [type_loop]; [exact I|].
  destruct (get_blist v (LDef ty)) as [l|] eqn:Hg; [|apply BS_refl].
  pose proof (alloc_of_type_fail_BS v (LDef ty) l ty size align dedPref flags sub s ded HI HL Hg (vi_def_type _ _ _ _ HI _ _ Hg) Hal Hs Hdead) as B1.
  pose proof (alloc_of_type_inv c Hc v [] (LDef ty) l ty size align dedPref flags sub [s] ded HI Hg (vi_def_type _ _ _ _ HI _ _ Hg) Hal (nodup1 s) (dead1 v s Hs Hdead)) as P1.
  destruct (alloc_of_type c v (LDef ty) ty size align dedPref flags sub [s] ded) as (v1 & r). destruct r as [[]|code| |]; auto.
  destruct (code =? VK_UNKNOWN); [exact B1|].
  destruct (find_type_index c (v_global v1) _ usage flags req pref ctb bufimg) as [ty'|]; [|exact B1].
  destruct P1 as (I1 & T1 & L1 & D1).
  assert (Hs1 : 0 <= s < zlen (v_tab v1)) by (destruct T1 as (E & _); lia).
  pose proof (IH v1 (Z.land bits (Z.lnot (Z.shiftl 1 ty))) ty' size align dedPref usage flags req pref ctb sub s ded bufimg I1 (LBv_BS _ _ HL B1 L1) Hal Hs1 (proj2 (D1 s (or_introl eq_refl)))) as R.
  destruct (type_loop c f v1 _ ty' size align dedPref usage flags req pref ctb sub [s] ded bufimg) as (v2 & r2).
  destruct r2; auto. eapply BS_trans; eauto.
Qed.

Lemma multi_allocate_fail_BS v size align typeBits reqDed prefDed ded bufimg usage flags0 req pref ctb pool sub s :
  VamInvU c v [] [] -> LBv v -> 0 <= s < zlen (v_tab v) -> a_allocated (get_alloc v s) = false ->
  let '(v', r) := multi_allocate c v size align typeBits reqDed prefDed ded bufimg usage flags0 req pref ctb pool sub [s] in
  match r with ER _ => BS v v' | _ => True end.
Proof.
  intros HI HL Hs Hdead. unfold multi_allocate. destruct (is_pow2_or_zero align) eqn:Ea; cbn [negb]; [|apply BS_refl].
  pose proof (pow2_or_zero_spec _ Ea) as Hal. destruct (size <? 1); [apply BS_refl|].
  destruct (calc_params usage flags0 reqDed _) as [flags|code| |]; [|apply BS_refl|exact I|exact I].
  destruct pool as [uid|].
  - destruct (get_blist v (LPool uid)) as [l|] eqn:Hg; [|exact I]. apply (alloc_of_type_fail_BS v (LPool uid) l); auto.
  - destruct (find_type_index c (v_global v) typeBits usage flags req pref ctb bufimg) as [ty|]; [|apply BS_refl]. apply type_loop_fail_BS; auto.
Qed.


(* a bind was attempted during the call *)
Definition bind_logged (m : mach) : Prop := exists image res mem off code, In (CBind image res mem off code) (m_calls m).

Lemma mach_ext_in m m' k : mach_ext m m' -> In k (m_calls m) -> In k (m_calls m').
Proof. intros (ks & E & _) H. rewrite E. apply in_or_app. right. exact H. Qed.

Lemma bind_logged_ext m m' : mach_ext m m' -> bind_logged m -> bind_logged m'.
Proof. intros E (i & r & me & o & cd & H). exists i, r, me, o, cd. eapply mach_ext_in; eauto. Qed.

Lemma multi_free1_ext v s : mach_ext (v_m v) (v_m (fst (multi_free c v [s]))).
Proof.
  cbn [multi_free].
  assert (H : mach_ext (v_m v) (v_m (fst (free_single c v s)))).
  { unfold free_single. destruct (_ =? 1); [apply (bl_free_ext c Hc Hmax Hlarge)|]. destruct (_ =? 2); [apply (free_dedicated_ext c Hc Hmax Hlarge)|apply mach_ext_refl]. }
  destruct (free_single c v s) as (v1 & r). cbn [fst] in H. destruct r as [[]|code| |]; exact H.
Qed.

(* createBuffer / CreateImage that fail: the block sets are as before, or the call got as far as the bind *)
Lemma create_resource_fail_BS v s image kind sub devreq resusage minAlign usage flags req pref ctb pool :
  VamInvU c v [] [] -> LBv v -> 0 <= m_next_res (v_m v) -> 0 <= s < zlen (v_tab v) -> a_allocated (get_alloc v s) = false ->
  let '(v', r) := create_resource c v s image kind sub devreq resusage minAlign usage flags req pref ctb pool in
  match r with ER _ => BS v v' \/ bind_logged (v_m v') | _ => True end.
Proof.
  intros HI HL Hres Hs Hdead. unfold create_resource.
  pose proof (dev_create_res_same (v_m v) image kind devreq) as H1.
  assert (Hid : snd (fst (dev_create_res (v_m v) image kind devreq)) = 0 -> 1 <= snd (dev_create_res (v_m v) image kind devreq)).
  { unfold dev_create_res. destruct (dev_fault _ _ _) as ((f1 & fi) & r0). destruct (negb (r0 =? 0)) eqn:E; cbn [fst snd]; [intros ->; discriminate|].
    destruct (DEV_TABLE <=? _); cbn [fst snd]; [unfold VK_OOHM; discriminate|]. cbn. lia. }
  destruct (dev_create_res (v_m v) image kind devreq) as ((m1 & code) & id). cbn [fst snd] in H1, Hid.
  destruct (negb (code =? 0)) eqn:Ec; [left; apply BS_set_m|]. apply negb_false_iff in Ec. apply Z.eqb_eq in Ec. specialize (Hid Ec).
  destruct (get_requirements_spec c m1 image id) as (m2 & rq & rd & pd & Egr & H2). rewrite Egr.
  pose proof (mach_same_trans _ _ _ H1 H2) as H12.
  assert (I2 : VamInvU c (set_m v m2) [] []) by (apply VamInvU_mach_same; auto).
  assert (L2 : LBv (set_m v m2)) by (apply (LS_LBv v); [apply LS_set_m|exact HL]).
  match goal with |- context [multi_allocate c (set_m v m2) ?a1 ?a2 ?a3 ?a4 ?a5 ?a6 ?a7 usage flags req pref ctb pool sub [s]] =>
    pose proof (multi_allocate_fail_BS (set_m v m2) a1 a2 a3 a4 a5 a6 a7 usage flags req pref ctb pool sub s I2 L2 Hs Hdead) as MB;
    pose proof (multi_allocate_inv c Hc (set_m v m2) [] a1 a2 a3 a4 a5 a6 a7 usage flags req pref ctb pool sub [s] I2 (nodup1 s) (dead1 (set_m v m2) s Hs Hdead)) as MA;
    destruct (multi_allocate c (set_m v m2) a1 a2 a3 a4 a5 a6 a7 usage flags req pref ctb pool sub [s]) as (v3 & r) end.
  destruct r as [[]|acode| |]; [|left; eapply BS_trans; [apply BS_set_m|]; eapply BS_trans; [exact MB|apply BS_set_m]|exact I|exact I].
  destruct MA as (I3 & T3 & L3 & D3). destruct (D3 s (or_introl eq_refl)) as (a & Sa).
  destruct (fl flags F_DONTBIND); [exact I|].
  (* the bind: it reaches the driver *)
  assert (HB : let '(v4, br) := bind_memory v3 s image id 0 in match br with ER _ => bind_logged (v_m v4) | _ => True end).
  { unfold bind_memory. rewrite (get_alloc_slot _ _ _ Sa). destruct (id =? 0) eqn:E0; [apply Z.eqb_eq in E0; lia|].
    destruct Sa as (Sn & Sal). rewrite Sal. cbn [negb]. change (0 <? 0) with false. cbn iota.
    destruct (find_offset_valid c v3 s a I3 (conj Sn Sal)) as (o & d & Ho & Hf & O1 & O2 & O3 & O4).
    assert (Hkind : a_kind a = 1 \/ a_kind a = 2).
    { destruct (vi_slots _ _ _ _ I3 s _ (conj Sn Sal) ltac:(intros [])) as [(K & _)|(K & _)]; auto. }
    assert (Et : (if a_kind a =? 2 then OK 0
                  else if a_kind a =? 1 then match find_offset v3 a with Some o => OK (0 + o) | None => PANIC end
                  else ER VK_UNKNOWN) = OK o).
    { destruct Hkind as [K|K]; rewrite K; cbn [Z.eqb Pos.eqb]; [rewrite Ho; reflexivity|rewrite (O4 K); reflexivity]. }
    rewrite Et. destruct (dev_bind_calls (v_m v3) image id (a_mem a) o) as (bcode & Ecalls & _).
    destruct (dev_bind (v_m v3) image id (a_mem a) o) as (mb & code1). cbn [fst] in Ecalls.
    destruct (code1 =? 0); [exact I|]. exists image, id, (a_mem a), o, bcode. cbn [v_m set_m]. rewrite Ecalls. left. reflexivity. }
  destruct (bind_memory v3 s image id 0) as (v4 & br). destruct br as [[]|bcode| |]; auto.
  assert (H5 : mach_ext (v_m v4) (v_m (fst (if a_allocated (get_alloc v4 s) then multi_free c v4 [s] else (v4, OK tt))))) by (destruct (a_allocated (get_alloc v4 s)); [apply multi_free1_ext|apply mach_ext_refl]).
  destruct (if a_allocated (get_alloc v4 s) then multi_free c v4 [s] else (v4, OK tt)) as (v5 & fr). cbn [fst] in H5.
  assert (B5 : bind_logged (v_m v5)) by (eapply bind_logged_ext; eauto).
  assert (B6 : bind_logged (v_m (set_m v5 (dev_destroy_res (v_m v5) image id)))).
  { destruct B5 as (i & r0 & me & o & cd & Hin). exists i, r0, me, o, cd. cbn. right. exact Hin. }
  destruct fr; try exact I; right; exact B6.
Qed.

(* one API function that refuses one request *)
Definition single_refused (o : op) : Prop :=
  match o with
  | OAlloc _ _ _ _ _ _ _ _ _ _ | OCreateBuf _ _ _ _ _ _ _ _ _ _ _ | OCreateImg _ _ _ _ _ _ _ _ _ _ _ | OAllocFor _ _ _ _ _ _ _ _ _ => True
  | _ => False
  end.

Lemma exec_refused_BS v o :
  VamInvU c v [] [] -> LBv v -> 0 <= m_next_res (v_m v) -> op_ok v o -> single_refused o ->
  let '(v', r) := exec c v o in match r with ER _ => BS v v' \/ bind_logged (v_m v') | _ => True end.
Proof.
  intros HI HL Hres Hok Hr. destruct o; try destruct Hr; cbn [exec op_ok] in *.
  - unfold allocate_memory. destruct (a_allocated (get_alloc v slot)) eqn:Ea; [left; apply BS_refl|].
    match goal with |- context [multi_allocate c v ?a1 ?a2 ?a3 ?a4 ?a5 ?a6 ?a7 ?a8 ?a9 ?a10 ?a11 ?a12 ?a13 ?a14 [slot]] =>
      pose proof (multi_allocate_fail_BS v a1 a2 a3 a4 a5 a6 a7 a8 a9 a10 a11 a12 a13 a14 slot HI HL Hok Ea) as P;
      destruct (multi_allocate c v a1 a2 a3 a4 a5 a6 a7 a8 a9 a10 a11 a12 a13 a14 [slot]) as (v' & r) end.
    destruct r; auto.
  - unfold create_buffer. destruct (a_allocated (get_alloc v slot)) eqn:Ea; [left; apply BS_refl|].
    destruct (_ && _); [left; apply BS_refl|]. destruct (size =? 0); [left; apply BS_refl|]. destruct (_ && _); [left; apply BS_refl|].
    apply create_resource_fail_BS; auto.
  - unfold create_image. destruct (a_allocated (get_alloc v slot)) eqn:Ea; [left; apply BS_refl|].
    destruct (width =? 0); [left; apply BS_refl|]. apply create_resource_fail_BS; auto.
  - unfold allocate_for_resource. destruct (res =? 0); [left; apply BS_refl|]. destruct (a_allocated (get_alloc v slot)) eqn:Ea; [left; apply BS_refl|].
    destruct (get_requirements_spec c (v_m v) image res) as (m2 & rq & rd & pd & Egr & H2). rewrite Egr.
    assert (I2 : VamInvU c (set_m v m2) [] []) by (apply VamInvU_mach_same; auto).
    assert (L2 : LBv (set_m v m2)) by (apply (LS_LBv v); [apply LS_set_m|exact HL]).
    match goal with |- context [multi_allocate c (set_m v m2) ?a1 ?a2 ?a3 ?a4 ?a5 ?a6 ?a7 ?a8 ?a9 ?a10 ?a11 ?a12 ?a13 ?a14 [slot]] =>
      pose proof (multi_allocate_fail_BS (set_m v m2) a1 a2 a3 a4 a5 a6 a7 a8 a9 a10 a11 a12 a13 a14 slot I2 L2 Hok Ea) as P;
      destruct (multi_allocate c (set_m v m2) a1 a2 a3 a4 a5 a6 a7 a8 a9 a10 a11 a12 a13 a14 [slot]) as (v' & r) end.
    destruct r; auto.
Qed.


(* ---- from "same blocks, same Allocation objects" to "same device memory objects" *)

Lemma ims_in v lr x : In x (ims v lr) -> exists l b, get_blist v lr = Some l /\ In b (bl_blocks l) /\ x = (bk_id b, bk_mem b).
Proof.
  unfold ims. destruct (get_blist v lr) as [l|]; [|intros []]. unfold IM. intros H. apply in_map_iff in H. destruct H as (b & <- & Hb).
  exists l, b. auto.
Qed.

Lemma in_ims v lr l b : get_blist v lr = Some l -> In b (bl_blocks l) -> In (bk_id b, bk_mem b) (ims v lr).
Proof. intros Hg Hb. unfold ims. rewrite Hg. unfold IM. apply in_map_iff. exists b. auto. Qed.

Lemma owned_sub v v' :
  VamInv c v -> VamInv c v' -> (forall lr x, In x (ims v lr) -> In x (ims v' lr)) -> (forall s a, slot_is v s a -> slot_is v' s a) ->
  forall d, In d (m_mems (v_m v)) -> exists d', find_mem (m_mems (v_m v')) (dm_id d) = Some d'.
Proof.
  intros HI HI' Hb Hs d Hd. destruct (vi_dev_owned _ _ _ _ HI d Hd) as [(lr & l & b & Hg & Hin & Hm)|(s & a & Sa & K & Hm)].
  - pose proof (Hb lr _ (in_ims v lr l b Hg Hin)) as H'. destruct (ims_in v' lr _ H') as (l' & b' & Hg' & Hin' & E). inversion E as [[E1 E2]].
    destruct (vi_block_mem _ _ _ _ HI' _ _ _ Hg' Hin') as (d' & Hf & _). exists d'. rewrite <- Hm, E2. exact Hf.
  - apply Hs in Sa. destruct (vi_slots _ _ _ _ HI' s a Sa (fun H => H)) as [(K1 & _)|(_ & _ & _ & d' & Hf & _)]; [congruence|]. exists d'. rewrite <- Hm. exact Hf.
Qed.

Lemma keys_nodup v : VamInv c v -> NoDup (map mem_key (m_mems (v_m v))).
Proof.
  intros HI. pose proof (vi_dev_nodup _ _ _ _ HI) as H. induction (m_mems (v_m v)) as [|x ms IH]; cbn in *; [constructor|].
  inversion H as [|? ? Hx Hr]; subst. constructor; [|auto]. intros Hin. apply Hx. apply in_map_iff in Hin. destruct Hin as (y & Ey & Hy).
  apply in_map_iff. exists y. split; [|exact Hy]. unfold mem_key in Ey. congruence.
Qed.

Lemma keys_perm v v' :
  VamInv c v -> VamInv c v' -> BS v v' -> same_slots v v' ->
  (forall id d d', find_mem (m_mems (v_m v)) id = Some d -> find_mem (m_mems (v_m v')) id = Some d' -> mem_key d' = mem_key d) ->
  Permutation (map mem_key (m_mems (v_m v'))) (map mem_key (m_mems (v_m v))).
Proof.
  intros HI HI' HB HS Hk. apply NoDup_Permutation; [apply keys_nodup; exact HI'|apply keys_nodup; exact HI|].
  assert (F : forall w d, VamInv c w -> In d (m_mems (v_m w)) -> find_mem (m_mems (v_m w)) (dm_id d) = Some d).
  { intros w d Hw Hd. destruct (find_mem (m_mems (v_m w)) (dm_id d)) as [x|] eqn:E.
    - rewrite (find_mem_key_unique _ _ _ _ (vi_dev_nodup _ _ _ _ Hw) E Hd eq_refl). reflexivity.
    - exfalso. clear - E Hd. induction (m_mems (v_m w)) as [|y ms IH]; [destruct Hd|]. cbn in E. destruct (dm_id y =? dm_id d) eqn:E1; [discriminate|].
      destruct Hd as [->|Hd]; [rewrite Z.eqb_refl in E1; discriminate|auto]. }
  intros k. split; intros Hin; apply in_map_iff in Hin; destruct Hin as (d & <- & Hd); apply in_map_iff.
  - destruct (owned_sub v' v HI' HI) with (d := d) as (d0 & Hf0); auto.
    { intros lr x Hx. eapply Permutation_in; [apply HB|exact Hx]. }
    { intros s a Sa. apply HS. exact Sa. }
    exists d0. split; [|apply (find_mem_in _ _ _ Hf0)]. symmetry. apply (Hk (dm_id d)); [exact Hf0|apply F; auto].
  - destruct (owned_sub v v' HI HI') with (d := d) as (d0 & Hf0); auto.
    { intros lr x Hx. eapply Permutation_in; [apply Permutation_sym; apply HB|exact Hx]. }
    { intros s a Sa. apply HS. exact Sa. }
    exists d0. split; [|apply (find_mem_in _ _ _ Hf0)]. apply (Hk (dm_id d)); [apply F; auto|exact Hf0].
Qed.

End WithCfg.

From Arsenal Require Import VamAcctStep VamAcctThm VamBalThm VamRefused.

Section Thm.
Variable c : vcfg.
Hypothesis Ha : cfg_acct c.
Let Hc := ca_ok c Ha.
Let Hmax := ca_max c Ha.
Let Hlarge := ca_large c Ha.

Lemma reachL_LBv v : reachL c v -> LBv v.
Proof using Ha. intros R lr l Hg. destruct (reachL_inv c Hc v R) as (HL & _). destruct (HL lr l Hg) as (LBl & _). apply LBl. Qed.

(* C10, the single-request refusals: AllocateMemory / AllocateMemoryForBuffer/Image / CreateBuffer / CreateImage that return an error
   without having reached vkBindBufferMemory / vkBindImageMemory leave exactly the device memory objects that were there,
   each with its memory type and size (as a set: the blocks of a list may have been reordered). *)
Theorem refused_same_memory v G o f v' code calls :
  reachB c v G -> LBv v -> op_ok v o -> op_dom o -> single_refused o -> step c v o f = (v', RErr code, calls) ->
  (forall image res mem off bcode, ~ In (CBind image res mem off bcode) calls) ->
  Permutation (map mem_key (m_mems (v_m v'))) (map mem_key (m_mems (v_m v))) /\
  (forall lr, Permutation (ims v' lr) (ims v lr)).
Proof using Ha.
  intros R HL Hok Hd Hsr Hs Hnb.
  assert (Hro : refused_op o) by (destruct o; try destruct Hsr; exact I).
  destruct (refused_changes_nothing c Ha v G o f v' code calls R Hok Hd Hro Hs) as (R' & SS & _).
  pose proof (reachB_reachA c _ _ R) as RA. pose proof (reachA_inv c Ha v RA) as HI.
  pose proof (reachB_reachA c _ _ R') as RA'. pose proof (reachA_inv c Ha v' RA') as HI'.
  pose proof (VamAcctStep.va_s _ _ _ _ HI) as HU. pose proof (VamAcctStep.va_s _ _ _ _ HI') as HU'.
  assert (HB : BS v v').
  { pose proof Hs as Hs0. unfold step in Hs0. set (v0 := set_m v (clear_calls (set_fault (v_m v) f 0))) in *.
    assert (I0 : VamInvU c v0 [] []).
    { apply VamInvU_mach_same; [exact HU|]. eapply mach_same_trans; [apply mach_same_set_fault|apply mach_same_clear]. }
    assert (L0 : LBv v0) by (apply (LS_LBv v); [apply LS_set_m|exact HL]).
    assert (N0 : 0 <= m_next_res (v_m v0)) by (cbn; apply (reachA_res_nonneg c v RA)).
    assert (Hok0 : op_ok v0 o) by (destruct o; exact Hok).
    pose proof (exec_refused_BS c Hc Hmax Hlarge v0 o I0 L0 N0 Hok0 Hsr) as E.
    destruct (exec c v0 o) as (v1 & r). destruct r as [[]|code1| |]; cbn in Hs0; try discriminate. injection Hs0 as <- _ <-.
    destruct E as [E|(i & r0 & me & off & cd & Hin)]; [exact E|]. exfalso. apply (Hnb i r0 me off cd). apply -> in_rev. exact Hin. }
  split; [|exact HB].
  apply (keys_perm c v v' HU HU' HB SS). intros id d d' Hf Hf'. apply (step_keeps_object_identity c Ha v o f v' (RErr code) calls id d d' RA Hs Hf Hf').
Qed.

End Thm.
