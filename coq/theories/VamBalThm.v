(* VamBalThm.v — C14: the balance of map references along every history in the "no rogue Unmap" domain.

   Ghost state G: the number of outstanding user Maps per Allocation object (in Go: the read count of
   Allocation.mapLock).  gstep: a successful Map adds one, a successful Unmap removes one.  Domain op_bal:
   Unmap only of an Allocation with an outstanding Map; Free / DestroyBuffer / DestroyImage only of Allocations
   without outstanding Maps (in Go, Free waits for the mapLock; in a sequential history it would block forever).
   reachB: histories in this domain.  Theorem reachB_bal: in every state of such a history
     mapReferences of every block = sum over the Allocations living in it of (their outstanding Maps + 1 if
     persistently mapped), mapReferences of every dedicated allocation = its outstanding Maps + 1 if persistently
     mapped.  Corollaries: the memory of an Allocation with an outstanding Map or a persistent mapping is mapped
     on the device; Free of a persistently mapped Allocation drops exactly its own reference. *)
From Coq Require Import ZArith List Bool Lia Permutation.
From Arsenal Require Import Util Budget BudgetProofs VamDev VamBlockList Vam VamInvMeta VamInv VamInvUpd VamInvDev.
From Arsenal Require Import VamInvStep VamInvStep2 VamInvThm VamProps VamAcct VamAcctStep VamAcctStep2 VamAcctThm VamMap VamMapStep VamMapStep2 VamMapThm.
From Arsenal Require Import VamBal VamBalStep VamBalStep2.
From Arsenal Require SyncMem SyncMemProofs.
Import ListNotations.
Open Scope Z_scope.

Definition upd (G : Z -> Z) (s k : Z) : Z -> Z := fun x => if x =? s then k else G x.

Lemma upd_same G s k : upd G s k s = k.
Proof. unfold upd. rewrite Z.eqb_refl. reflexivity. Qed.
Lemma upd_other G s k x : x <> s -> upd G s k x = G x.
Proof. intros H. unfold upd. apply Z.eqb_neq in H. rewrite H. reflexivity. Qed.

(* the ghost transition *)
Definition gstep (G : Z -> Z) (o : op) (r : result) : Z -> Z :=
  match o, r with
  | OMap s, ROk => upd G s (G s + 1)
  | OUnmap s, ROk => upd G s (G s - 1)
  | _, _ => G
  end.

(* no rogue Unmap; no Free of a mapped Allocation *)
Definition op_bal (G : Z -> Z) (o : op) : Prop :=
  match o with
  | OUnmap s => 1 <= G s
  | OFree s => G s = 0
  | OFreeN s n => forall x, In x (slot_range s (Z.to_nat n)) -> G x = 0
  | ODestroyRes s _ _ => G s = 0
  | _ => True
  end.

Lemma BInv_ext_G v G G' X : (forall s, G' s = G s) -> BInv v G X -> BInv v G' X.
Proof.
  intros E [B D G1 G2]. constructor.
  - intros lr l b Hg Hb. rewrite (B _ _ _ Hg Hb). symmetry. apply refs_truth_ext; [reflexivity|]. intros s _. apply users_same; auto. tauto.
  - intros s a Sa Ka. rewrite E. auto.
  - intros s. rewrite E. auto.
  - intros s Hd. rewrite E. auto.
Qed.

(* the user count of one block allocation changes by k; the counter of its block was already moved *)
Lemma BInvD_ghost v G X M d s k :
  BInvD v G X M d -> a_allocated (get_alloc v s) = true -> ~ In s X -> a_kind (get_alloc v s) = 1 -> a_mem (get_alloc v s) = M ->
  0 <= s < zlen (v_tab v) -> 0 <= G s + k ->
  BInvD v (upd G s (G s + k)) X M (d - k).
Proof.
  intros [B D G1 G2] Ha HX Hk Hm Hs Hnn. constructor.
  - intros lr l b Hg Hb. rewrite (B _ _ _ Hg Hb).
    rewrite (refs_truth_upd v G X v (upd G s (G s + k)) X (bk_mem b) s eq_refl Hs).
    2:{ intros s' _ Hne. apply users_same; [reflexivity|apply upd_other; exact Hne|tauto]. }
    destruct (bk_mem b =? M) eqn:E.
    + apply Z.eqb_eq in E. rewrite E. rewrite !(users_live _ _ X M s) by auto. rewrite upd_same. lia.
    + apply Z.eqb_neq in E. rewrite !(users_other _ _ X (bk_mem b) s) by congruence. lia.
  - intros s1 a1 S1 K1. rewrite upd_other; [auto|]. intros ->. rewrite (get_alloc_slot _ _ _ S1) in Hk. lia.
  - intros s1. unfold upd. destruct (s1 =? s); [exact Hnn|apply G1].
  - intros s1 Hd. rewrite upd_other; [auto|]. intros ->. congruence.
Qed.

(* the SynchronizedMemory of a dedicated allocation was operated on: counter and user count move together *)
Lemma BInv_ded_touch v G X s a s' m' k :
  BInv v G X -> slot_is v s a -> a_kind a = 2 -> SyncMem.mapRefs s' = SyncMem.mapRefs (a_sm a) + k -> 0 <= G s + k ->
  BInv (set_alloc (set_m v m') s (set_a_sm a s')) (upd G s (G s + k)) X.
Proof.
  intros [B D G1 G2] Sa Ka Hr Hnn. pose proof (slot_is_range _ _ _ Sa) as Hs.
  assert (Hs' : 0 <= s < zlen (v_tab (set_m v m'))) by exact Hs. constructor.
  - intros lr l b Hg Hb. rewrite get_blist_set_alloc, get_blist_set_m in Hg. rewrite (B _ _ _ Hg Hb). symmetry.
    apply refs_truth_ext; [rewrite zlen_set_alloc; reflexivity|]. intros s1 _. destruct (Z.eq_dec s1 s) as [->|Hne].
    + rewrite !users_kind; auto; [rewrite (get_alloc_slot _ _ _ Sa); lia|rewrite get_alloc_set_same by exact Hs'; cbn; lia].
    + apply users_same; [rewrite get_alloc_set_other by exact Hne; reflexivity|apply upd_other; exact Hne|tauto].
  - intros s1 a1 S1 K1. destruct (Z.eq_dec s1 s) as [->|Hne].
    + apply slot_is_set_alloc_same in S1; [|exact Hs']. destruct S1 as (-> & _). rewrite upd_same. cbn [a_sm set_a_sm].
      rewrite Hr, (D _ _ Sa Ka). unfold pcount. cbn. lia.
    + apply (slot_is_set_alloc_other (set_m v m') s _ s1 a1 Hne) in S1. apply (proj1 (slot_is_set_m _ _ _ _)) in S1.
      rewrite upd_other by exact Hne. auto.
  - intros s1. unfold upd. destruct (s1 =? s); [exact Hnn|apply G1].
  - intros s1 Hd. destruct (Z.eq_dec s1 s) as [->|Hne].
    + rewrite get_alloc_set_same in Hd by exact Hs'. cbn in Hd. destruct Sa as (_ & Sa). congruence.
    + rewrite get_alloc_set_other in Hd by exact Hne. rewrite upd_other by exact Hne. apply G2. exact Hd.
Qed.

Section WithCfg.
Variable c : vcfg.
Hypothesis Ha : cfg_acct c.
Let Hc := ca_ok c Ha.
Let Hmax := ca_max c Ha.
Let Hlarge := ca_large c Ha.

Notation VamInvA := (VamAcctStep.VamInvA c).

Section Step.
Variable ms0 : list dmem.
Notation VamInvM := (VamMapStep.VamInvM c ms0).
Notation VamInvB := (VamBalStep.VamInvB c ms0).

(* Allocation.Map: a successful Map is one more outstanding user map; a failed one changes nothing *)
Lemma allocation_map_B G v s :
  VamInvB G v [] [] ->
  let '(v', r) := allocation_map c v s in
  match r with
  | OK _ => BInv v' (upd G s (G s + 1)) []
  | ER _ => BInv v' G []
  | _ => True
  end.
Proof.
  intros HI. pose proof (VamBalStep.vb_b _ _ _ _ _ _ HI) as HB. pose proof (VamBalStep.vb_mm c Hc Hmax Hlarge ms0 G _ _ _ HI) as HM.
  pose proof (VamBalStep.vb_s c Hc Hmax Hlarge ms0 G _ _ _ HI) as HU.
  unfold allocation_map. set (a := get_alloc v s).
  destruct (negb (a_mapallowed a)); [exact HB|].
  destruct (a_allocated a) eqn:Ea; cbn [negb]; [|exact HB].
  pose proof (get_alloc_allocated v s Ea) as Sa. fold a in Sa.
  destruct (a_kind a =? 1) eqn:K1.
  - apply Z.eqb_eq in K1. destruct (get_block v (a_lref a) (a_blk a)) as [b|] eqn:Hgb; [|exact I].
    destruct (get_block_in _ _ _ _ Hgb) as (l & Hg & Hb & Hid).
    assert (Hmem : a_mem a = bk_mem b).
    { destruct (vi_slots _ _ _ _ HU s a Sa (fun H => H)) as [(_ & l2 & b2 & rg & Hg2 & Hb2 & Hid2 & _ & _ & _ & _ & _ & Hm2 & _)|(K & _)]; [|congruence].
      assert (l2 = l) by congruence. subst l2. pose proof (bw_nodup _ _ (vi_lists _ _ _ _ HU _ _ Hg)) as Hnd.
      pose proof (in_find_block _ _ Hnd Hb) as F1. pose proof (in_find_block _ _ Hnd Hb2) as F2. rewrite Hid in F1. rewrite Hid2 in F2. congruence. }
    pose proof (sm_map_refs c (m_mems (v_m v)) (v_m v) (bk_mem b) (bk_sm b) (mi_blocks _ _ (proj1 HM) _ _ _ Hg Hb)) as Hr.
    destruct (sm_map c (v_m v) (bk_mem b) (bk_sm b)) as ((m1 & s1) & r).
    set (nb := mkBlock (bk_id b) (bk_mem b) s1 (bk_meta b)).
    assert (HD : forall e, SyncMem.mapRefs s1 = SyncMem.mapRefs (bk_sm b) + e -> BInvD (put_block (set_m v m1) (a_lref a) nb) G [] (bk_mem b) e).
    { intros e He. replace e with (0 + e) by lia.
      apply (VamBalStep.BD_put_touch c Hc Hmax Hlarge G v [] [] 0 (a_lref a) l b m1 nb e (BInv_D _ _ _ _ HB) HU Hg Hb); [reflexivity|reflexivity|exact He]. }
    assert (Hga : get_alloc (put_block (set_m v m1) (a_lref a) nb) s = a) by (unfold get_alloc; rewrite put_block_tab; reflexivity).
    destruct r as [[]|code| |]; try exact I.
    + destruct (find_offset _ a); [|exact I].
      apply (BInvD_0 _ _ _ (bk_mem b)). replace 0 with (1 - 1) by lia.
      apply BInvD_ghost; [apply HD; exact Hr|rewrite Hga; exact Ea|intros []|rewrite Hga; exact K1|rewrite Hga; exact Hmem| |pose proof (bb_G _ _ _ HB s); lia].
      rewrite put_block_tab. cbn. eapply slot_is_range; eauto.
    + apply (BInvD_0 _ _ _ (bk_mem b)). apply HD. lia.
  - destruct (a_kind a =? 2) eqn:K2; [|exact I]. apply Z.eqb_eq in K2.
    pose proof (sm_map_refs c (m_mems (v_m v)) (v_m v) (a_mem a) (a_sm a) (mi_ded _ _ (proj1 HM) s a Sa (fun H => H) K2)) as Hr.
    destruct (sm_map c (v_m v) (a_mem a) (a_sm a)) as ((m1 & s1) & r).
    destruct r as [[]|code| |]; try exact I.
    + apply (BInv_ded_touch v G [] s a s1 m1 1 HB Sa K2 Hr). pose proof (bb_G _ _ _ HB s). lia.
    + apply (BInv_ext_G _ (upd G s (G s + 0))); [intros x; unfold upd; destruct (x =? s) eqn:E; [apply Z.eqb_eq in E; subst; lia|reflexivity]|].
      apply (BInv_ded_touch v G [] s a s1 m1 0 HB Sa K2); [lia|]. pose proof (bb_G _ _ _ HB s). lia.
Qed.

(* Allocation.Unmap of an Allocation with an outstanding user map *)
Lemma allocation_unmap_B G v s :
  VamInvB G v [] [] -> 1 <= G s ->
  let '(v', r) := allocation_unmap v s in
  match r with
  | OK _ => BInv v' (upd G s (G s - 1)) []
  | ER _ => False
  | _ => True
  end.
Proof.
  intros HI HG1. pose proof (VamBalStep.vb_b _ _ _ _ _ _ HI) as HB. pose proof (VamBalStep.vb_mm c Hc Hmax Hlarge ms0 G _ _ _ HI) as HM.
  pose proof (VamBalStep.vb_s c Hc Hmax Hlarge ms0 G _ _ _ HI) as HU.
  unfold allocation_unmap. set (a := get_alloc v s).
  destruct (a_allocated a) eqn:Ea; cbn [negb]; [|exact I].
  pose proof (get_alloc_allocated v s Ea) as Sa. fold a in Sa.
  destruct (a_kind a =? 1) eqn:K1.
  - apply Z.eqb_eq in K1. destruct (get_block v (a_lref a) (a_blk a)) as [b|] eqn:Hgb; [|exact I].
    destruct (get_block_in _ _ _ _ Hgb) as (l & Hg & Hb & Hid).
    assert (Hmem : a_mem a = bk_mem b).
    { destruct (vi_slots _ _ _ _ HU s a Sa (fun H => H)) as [(_ & l2 & b2 & rg & Hg2 & Hb2 & Hid2 & _ & _ & _ & _ & _ & Hm2 & _)|(K & _)]; [|congruence].
      assert (l2 = l) by congruence. subst l2. pose proof (bw_nodup _ _ (vi_lists _ _ _ _ HU _ _ Hg)) as Hnd.
      pose proof (in_find_block _ _ Hnd Hb) as F1. pose proof (in_find_block _ _ Hnd Hb2) as F2. rewrite Hid in F1. rewrite Hid2 in F2. congruence. }
    assert (Hrefs : 1 <= SyncMem.mapRefs (bk_sm b)).
    { rewrite (bb_blocks _ _ _ HB _ _ _ Hg Hb).
      pose proof (refs_truth_ge v G [] (bk_mem b) s (bb_G _ _ _ HB) (slot_is_range _ _ _ Sa)) as Hge.
      rewrite (users_live v G [] (bk_mem b) s Ea (fun H => H) K1 Hmem) in Hge. fold a in Hge. unfold pcount in Hge. destruct (a_persist a); lia. }
    pose proof (sm_unmap_refs (v_m v) (bk_mem b) (bk_sm b) Hrefs) as Hr.
    destruct (sm_unmap (v_m v) (bk_mem b) (bk_sm b)) as ((m1 & s1) & r). destruct Hr as (-> & Hr).
    set (nb := mkBlock (bk_id b) (bk_mem b) s1 (bk_meta b)).
    assert (HD : BInvD (put_block (set_m v m1) (a_lref a) nb) G [] (bk_mem b) (-1)).
    { replace (-1) with (0 + -1) by lia.
      apply (VamBalStep.BD_put_touch c Hc Hmax Hlarge G v [] [] 0 (a_lref a) l b m1 nb (-1) (BInv_D _ _ _ _ HB) HU Hg Hb); [reflexivity|reflexivity|cbn; lia]. }
    assert (Hga : get_alloc (put_block (set_m v m1) (a_lref a) nb) s = a) by (unfold get_alloc; rewrite put_block_tab; reflexivity).
    apply (BInvD_0 _ _ _ (bk_mem b)). replace 0 with (-1 - -1) by lia. replace (G s - 1) with (G s + -1) by lia.
    apply BInvD_ghost; [exact HD|rewrite Hga; exact Ea|intros []|rewrite Hga; exact K1|rewrite Hga; exact Hmem| |lia].
    rewrite put_block_tab. cbn. eapply slot_is_range; eauto.
  - destruct (a_kind a =? 2) eqn:K2; [|exact I]. apply Z.eqb_eq in K2.
    assert (Hrefs : 1 <= SyncMem.mapRefs (a_sm a)).
    { rewrite (bb_ded _ _ _ HB s a Sa K2). unfold pcount. destruct (a_persist a); lia. }
    pose proof (sm_unmap_refs (v_m v) (a_mem a) (a_sm a) Hrefs) as Hr.
    destruct (sm_unmap (v_m v) (a_mem a) (a_sm a)) as ((m1 & s1) & r). destruct Hr as (-> & Hr).
    replace (G s - 1) with (G s + -1) by lia.
    apply (BInv_ded_touch v G [] s a s1 m1 (-1) HB Sa K2); lia.
Qed.

Definition exec_postB (G : Z -> Z) (o : op) (v v' : vam) (r : out unit) : Prop :=
  match r with PANIC | STUCK => True | _ => VamInvB (gstep G o (result_of r)) v' [] [] /\ zlen (v_tab v') = zlen (v_tab v) end.

Lemma exec_invB G v o :
  VamInvB G v [] [] -> op_ok v o -> op_dom o -> op_bal G o -> let '(v', r) := exec c v o in exec_postB G o v v' r.
Proof.
  intros HI Hok Hd Hbal.
  pose proof (exec_invM c Ha ms0 v o (VamBalStep.vb_m _ _ _ _ _ _ HI) Hok Hd) as PM.
  destruct o; cbn [exec op_ok op_dom op_bal] in *.
  - pose proof (VamBalStep2.allocate_memory_inv c Hc Hmax Hlarge ms0 G v [] slot size align typeBits usage flags req pref ctb pool HI Hd Hok) as P.
    destruct (allocate_memory c v slot size align typeBits usage flags req pref ctb pool) as (v' & r).
    destruct r as [[]|code| |]; cbn; auto; destruct P as (A & B & _); (split; [auto|eapply tab_frame_len; eauto]).
  - destruct Hok as (H0 & Hn).
    pose proof (VamBalStep2.allocate_memory_slice_inv c Hc Hmax Hlarge ms0 G v [] slot n size align typeBits usage flags req pref ctb pool HI Hd H0 Hn) as P.
    destruct (allocate_memory_slice c v slot n size align typeBits usage flags req pref ctb pool) as (v' & r). cbn zeta in P.
    destruct r as [[]|code| |]; cbn; auto; destruct P as (A & B & _); (split; [auto|eapply tab_frame_len; eauto]).
  - pose proof (VamBalStep2.allocation_free_inv c Hc Hmax Hlarge ms0 G v slot HI Hbal) as P. destruct (allocation_free c v slot) as (v' & r).
    destruct r as [[]|code| |]; cbn in *; auto; destruct P as (A & B); (split; [auto|eapply tab_frame_len; eauto]).
  - unfold free_allocation_slice in *. destruct (slot_range_nodup (Z.to_nat n) slot) as (Hnd & _).
    assert (Hlive : live_slots v [] (slot_range slot (Z.to_nat n))).
    { intros s Hs. split; [intros []|]. exists (get_alloc v s). apply get_alloc_allocated. auto. }
    pose proof (VamBalStep2.multi_free_inv c Hc Hmax Hlarge ms0 G _ v [] HI Hnd Hlive Hbal) as P. destruct (multi_free c v _) as (v' & r).
    destruct r as [[]|code| |]; cbn; auto; destruct P as (A & B & _); (split; [auto|eapply tab_frame_len; eauto]).
  - pose proof (allocation_map_B G v slot HI) as P. destruct (allocation_map c v slot) as (v' & r).
    destruct r as [[]|code| |]; cbn in *; auto; destruct PM as (A & B); (split; [split; [exact A|exact P]|exact B]).
  - pose proof (allocation_unmap_B G v slot HI Hbal) as P. destruct (allocation_unmap v slot) as (v' & r).
    destruct r as [[]|code| |]; cbn in *; auto; [|contradiction]. destruct PM as (A & B). split; [split; [exact A|exact P]|exact B].
  - pose proof (VamBalStep2.allocation_flush_inv c Hc Hmax Hlarge ms0 G v inval slot off size (ca_atom c Ha) HI) as P. destruct (allocation_flush c v inval slot off size) as (v' & r).
    destruct r as [[]|code| |]; cbn in *; auto; destruct P as (A & B & _); (split; [auto|eapply tab_frame_len; eauto]).
  - (* the harness' read-write: Map, then Unmap of the map just made *)
    unfold harness_rw in *. pose proof (allocation_map_B G v slot HI) as P1.
    pose proof (VamMapStep2.allocation_map_inv c Hc Hmax Hlarge ms0 v slot (VamBalStep.vb_m _ _ _ _ _ _ HI)) as Q1.
    destruct (allocation_map c v slot) as (v1 & r1). destruct r1 as [[]|code| |]; cbn in *; auto.
    + destruct Q1 as (A1 & T1 & L1).
      assert (I1 : VamInvB (upd G slot (G slot + 1)) v1 [] []) by (split; [exact A1|exact P1]).
      pose proof (allocation_unmap_B (upd G slot (G slot + 1)) v1 slot I1 ltac:(rewrite upd_same; pose proof (bb_G _ _ _ (VamBalStep.vb_b _ _ _ _ _ _ HI) slot); lia)) as P2.
      destruct (allocation_unmap v1 slot) as (v2 & ur). destruct ur as [[]|ucode| |]; cbn in *; auto; [|contradiction].
      destruct PM as (A & B). split; [split; [exact A|]|exact B].
      apply (BInv_ext_G _ (upd (upd G slot (G slot + 1)) slot (upd G slot (G slot + 1) slot - 1))); [|exact P2].
      intros x. unfold upd. destruct (x =? slot) eqn:E; [apply Z.eqb_eq in E; subst; rewrite Z.eqb_refl; lia|reflexivity].
    + destruct PM as (A & B). split; [split; [exact A|exact P1]|exact B].
  - pose proof (VamBalStep2.create_pool_inv c Hc Hmax Hlarge ms0 G v ty flags blockSize minB maxB minAlign HI Hd) as P.
    destruct (create_pool c v ty flags blockSize minB maxB minAlign) as (v' & r).
    destruct r as [[]|code| |]; cbn in *; auto; destruct P as (A & B); (split; [auto|eapply tab_frame_len; eauto]).
  - pose proof (VamBalStep2.rmpool_inv c Hc Hmax Hlarge ms0 G v uid HI) as P. destruct (pool_destroy c v uid) as (v' & r).
    destruct r as [[]|code| |]; cbn in *; auto; destruct P as (A & B); (split; [auto|eapply tab_frame_len; eauto]).
  - pose proof (VamBalStep2.build_stats_string_inv c Hc Hmax Hlarge ms0 G v HI) as P. destruct (build_stats_string c v) as (v' & r).
    destruct r as [[]|code| |]; cbn in *; auto; destruct P as (A & B); (split; [auto|eapply tab_frame_len; eauto]).
  - pose proof (VamBalStep2.allocator_destroy_inv c Hc Hmax Hlarge ms0 G v HI) as P. destruct (allocator_destroy c v) as (v' & r).
    destruct r as [[]|code| |]; cbn in *; auto; destruct P as (A & B); (split; [auto|eapply tab_frame_len; eauto]).
  - pose proof (VamBalStep2.create_buffer_inv c Hc Hmax Hlarge ms0 G v slot size devreq bufUsage minAlign usage flags req pref ctb pool HI Hd Hok) as P.
    destruct (create_buffer c v slot size devreq bufUsage minAlign usage flags req pref ctb pool) as (v' & r).
    destruct r as [[]|code| |]; cbn in *; auto; destruct P as (A & B); (split; [auto|eapply tab_frame_len; eauto]).
  - pose proof (VamBalStep2.create_image_inv c Hc Hmax Hlarge ms0 G v slot tiling width devreq imgUsage usage flags req pref ctb pool HI Hd Hok) as P.
    destruct (create_image c v slot tiling width devreq imgUsage usage flags req pref ctb pool) as (v' & r).
    destruct r as [[]|code| |]; cbn in *; auto; destruct P as (A & B); (split; [auto|eapply tab_frame_len; eauto]).
  - pose proof (VamBalStep2.destroy_with_resource_inv c Hc Hmax Hlarge ms0 G v slot image res HI Hbal) as P. destruct (destroy_with_resource c v slot image res) as (v' & r).
    destruct r as [[]|code| |]; cbn in *; auto; destruct P as (A & B); (split; [auto|eapply tab_frame_len; eauto]).
  - pose proof (VamBalStep2.allocate_for_resource_inv c Hc Hmax Hlarge ms0 G v slot image res usage flags req pref ctb pool HI Hok) as P.
    destruct (allocate_for_resource c v slot image res usage flags req pref ctb pool) as (v' & r).
    destruct r as [[]|code| |]; cbn in *; auto; destruct P as (A & B); (split; [auto|eapply tab_frame_len; eauto]).
  - pose proof (VamBalStep2.bind_memory_inv c Hc Hmax Hlarge ms0 G v slot image res off HI) as P. destruct (bind_memory v slot image res off) as (v' & r).
    destruct r as [[]|code| |]; cbn in *; auto; destruct P as (A & B); (split; [auto|eapply tab_frame_len; eauto]).
  - unfold raw_create in *. destruct (dev_create_res (v_m v) image kind devreq) as ((m1 & code) & id).
    assert (P : VamInvB G (set_m v m1) [] [] /\ zlen (v_tab (set_m v m1)) = zlen (v_tab v)).
    { split; [|reflexivity]. split; [destruct (code =? 0); apply PM|apply BInv_mach; exact (VamBalStep.vb_b _ _ _ _ _ _ HI)]. }
    destruct (code =? 0); exact P.
  - unfold raw_destroy in *. cbn in *. split; [|reflexivity]. split; [apply PM|apply BInv_mach; exact (VamBalStep.vb_b _ _ _ _ _ _ HI)].
Qed.

End Step.

(* one API call in the domain, any fault oracle *)
Theorem step_preservesB G v o f :
  VamInvA v [] [] -> MapInv v [] -> BInv v G [] -> op_ok v o -> op_dom o -> op_bal G o ->
  let '(v', r, calls) := step c v o f in
  r <> RPanic -> r <> RStuck -> BInv v' (gstep G o r) [].
Proof.
  intros HI HM HB Hok Hd Hbal. unfold step.
  set (ms0 := m_mems (v_m v)).
  set (v0 := set_m v (clear_calls (set_fault (v_m v) f 0))).
  assert (Hms : forall m ff n, mach_sameA c m (clear_calls (set_fault m ff n))).
  { intros m ff n. eapply (mach_sameA_trans c Hc Hmax Hlarge); [apply (mach_sameA_set_fault c Hc Hmax Hlarge)|apply (mach_sameA_clear c Hc Hmax Hlarge)]. }
  assert (Hsub : forall w m', MapInv w [] -> m_mems m' = m_mems (v_m w) -> MapInv (set_m w m') []).
  { intros w m' I E. apply (MapInv_sub w []); [exact I|exact E|apply blocks_sub_eq; intros; apply get_blist_set_m|apply deds_sub_nil; apply tab_frame_set_m]. }
  assert (I0 : VamBalStep.VamInvB c ms0 G v0 [] []).
  { split; [|apply BInv_mach; exact HB]. split; [apply (VamAcctStep.VamInvA_mach_same c Hc Hmax Hlarge); [exact HI|apply Hms]|].
    split; [apply Hsub; [exact HM|reflexivity]|]. unfold LogOk, v0, ms0. cbn. constructor. }
  assert (Hok0 : op_ok v0 o) by (destruct o; exact Hok).
  pose proof (exec_invB ms0 G v0 o I0 Hok0 Hd Hbal) as E. destruct (exec c v0 o) as (v1 & r).
  intros Hp Hs. destruct r as [[]|code| |]; cbn in Hp, Hs; try congruence; cbn in E; destruct E as ([A B] & _); apply BInv_mach; exact B.
Qed.

(* histories in the domain, with the ghost state *)
Inductive reachB : vam -> (Z -> Z) -> Prop :=
| reachB_new nslots v : vam_new c nslots = OK v -> Z.of_nat nslots <= 4194304 -> reachB v (fun _ => 0)
| reachB_step v G o f v' r calls :
    reachB v G -> op_ok v o -> op_dom o -> op_bal G o -> step c v o f = (v', r, calls) -> r <> RPanic -> r <> RStuck ->
    reachB v' (gstep G o r).

Lemma reachB_reachA v G : reachB v G -> reachA c v.
Proof.
  intros R. induction R as [nslots v E Hn|v G o f v' r calls R IH Hok Hd Hbal Hs Hp Hk]; [eapply reachA_new; eauto|eapply reachA_step; eauto].
Qed.

Lemma vam_new_BInv nslots v : vam_new c nslots = OK v -> BInv v (fun _ => 0) [].
Proof.
  intros E. unfold vam_new in E. destruct (negb _); [discriminate|]. destruct (negb _); [discriminate|]. injection E as <-.
  assert (Hdead : forall s, a_allocated (get_alloc (mkVam (set_bud (mkMach [] 0 no_fault 0 Budget.bzero [] [] 0) (Budget.binit (bcfg_of c) (dev_report c (mkMach [] 0 no_fault 0 Budget.bzero [] [] 0))))
                     (Select.global_bits false (types_n c)) (init_lists c (Select.global_bits false (types_n c)) (length (c_types c)) 0)
                     (repeat [] (length (c_types c))) [] 0 1 (repeat alloc_zero nslots)) s) = false).
  { intros s. unfold get_alloc. cbn [v_tab]. destruct (nth_z (repeat alloc_zero nslots) s) as [a|] eqn:E; [|reflexivity].
    apply nth_z_in in E. apply repeat_spec in E. subst a. reflexivity. }
  constructor.
  - intros lr l b Hg Hb. exfalso. destruct lr as [t|u]; [|cbn in Hg; discriminate]. cbn in Hg.
    destruct (nth_z (init_lists c _ _ 0) t) as [[x|]|] eqn:E; try discriminate. injection Hg as ->.
    destruct (VamInvStep2.init_lists_spec c _ _ _ _ _ E) as (_ & ->). destruct Hb.
  - intros s a (Sa & Aa) _. exfalso. cbn in Sa. apply nth_z_in in Sa. apply repeat_spec in Sa. subst a. discriminate.
  - intros s. lia.
  - intros s _. reflexivity.
Qed.

(* C14: the balance holds in every state of a history without rogue Unmaps *)
Theorem reachB_bal v G : reachB v G -> BInv v G [].
Proof.
  induction 1 as [nslots v H Hn|v G o f v' r calls R IH Hok Hd Hbal Hs Hp Hk].
  - eapply vam_new_BInv; eauto.
  - pose proof (reachB_reachA _ _ R) as RA.
    pose proof (step_preservesB G v o f (reachA_inv c Ha v RA) (reachA_map c Ha v RA) IH Hok Hd Hbal) as P. rewrite Hs in P. apply P; auto.
Qed.

Theorem block_refs_balance v G lr l b :
  reachB v G -> get_blist v lr = Some l -> In b (bl_blocks l) -> SyncMem.mapRefs (bk_sm b) = refs_truth v G [] (bk_mem b).
Proof. intros R. apply (bb_blocks _ _ _ (reachB_bal v G R)). Qed.

Theorem dedicated_refs_balance v G s a :
  reachB v G -> slot_is v s a -> a_kind a = 2 -> SyncMem.mapRefs (a_sm a) = G s + (if a_persist a then 1 else 0).
Proof. intros R. apply (bb_ded _ _ _ (reachB_bal v G R)). Qed.

Theorem outstanding_maps_nonneg v G s : reachB v G -> 0 <= G s /\ (a_allocated (get_alloc v s) = false -> G s = 0).
Proof. intros R. split; [apply (bb_G _ _ _ (reachB_bal v G R))|apply (bb_G0 _ _ _ (reachB_bal v G R))]. Qed.

(* while a user holds a pointer (an outstanding Map) or the Allocation is persistently mapped, its memory object is mapped *)
Theorem mapped_while_in_use v G s a :
  reachB v G -> slot_is v s a -> (1 <= G s \/ a_persist a = true) ->
  exists d, find_mem (m_mems (v_m v)) (a_mem a) = Some d /\ dm_mapped d = true.
Proof.
  intros R Sa Huse. pose proof (reachB_reachA _ _ R) as RA. pose proof (reachB_bal _ _ R) as HB.
  pose proof (VamAcctStep.va_s _ _ _ _ (reachA_inv c Ha v RA)) as HU.
  assert (Hpos : 1 <= G s + pcount a) by (pose proof (bb_G _ _ _ HB s) as Hnn; unfold pcount; destruct Huse as [Hu|Hu]; [destruct (a_persist a); lia|rewrite Hu; lia]).
  destruct (vi_slots _ _ _ _ HU s a Sa (fun H => H)) as [(K & l & b & rg & Hg & Hb & Hid & _ & _ & _ & _ & _ & Hmem & _)|(K & _)].
  - destruct (block_mapping_agrees c Ha v _ l b RA Hg Hb) as (d & F & Em & Hiff & _).
    exists d. rewrite Hmem. split; [exact F|]. rewrite Em. apply Hiff. left.
    rewrite (bb_blocks _ _ _ HB _ _ _ Hg Hb).
    pose proof (refs_truth_ge v G [] (bk_mem b) s (bb_G _ _ _ HB) (slot_is_range _ _ _ Sa)) as Hge.
    rewrite (users_live v G [] (bk_mem b) s) in Hge; try (rewrite (get_alloc_slot _ _ _ Sa); auto); [|apply Sa|intros []].
    rewrite (get_alloc_slot _ _ _ Sa) in Hge. lia.
  - destruct (dedicated_mapping_agrees c Ha v s a RA Sa K) as (d & F & Em & Hiff & _).
    exists d. split; [exact F|]. rewrite Em. apply Hiff. left. rewrite (bb_ded _ _ _ HB s a Sa K). lia.
Qed.

(* a failed Map changes no user count and leaves every counter balanced *)
Theorem failed_map_keeps_balance v G s f v' code calls :
  reachB v G -> op_ok v (OMap s) -> step c v (OMap s) f = (v', RErr code, calls) -> BInv v' G [].
Proof.
  intros R Hok Hs. apply (reachB_bal v' (gstep G (OMap s) (RErr code))).
  apply (reachB_step v G (OMap s) f v' (RErr code) calls R Hok I I Hs); discriminate.
Qed.

(* Free of a block allocation without outstanding user maps drops exactly its own persistent reference: every block
   of the state after that uses the memory object of the freed allocation has the old number of users minus one
   if the allocation was persistently mapped (minus zero otherwise) *)
Theorem free_drops_own_reference v G s a f v' calls :
  reachB v G -> slot_is v s a -> a_kind a = 1 -> G s = 0 -> step c v (OFree s) f = (v', ROk, calls) ->
  forall lr l' b', get_blist v' lr = Some l' -> In b' (bl_blocks l') -> bk_mem b' = a_mem a ->
  SyncMem.mapRefs (bk_sm b') = refs_truth v G [] (a_mem a) - (if a_persist a then 1 else 0).
Proof.
  intros R Sa Ka HG0 Hs lr l' b' Hg' Hb' Hmem.
  assert (R' : reachB v' G).
  { change G with (gstep G (OFree s) ROk).
    apply (reachB_step v G (OFree s) f v' ROk calls R); [exact I|exact I|exact HG0|exact Hs|discriminate|discriminate]. }
  rewrite (block_refs_balance v' G lr l' b' R' Hg' Hb'), Hmem.
  pose proof (reachB_reachA _ _ R) as RA. pose proof (reachA_inv c Ha v RA) as HI. pose proof (reachA_map c Ha v RA) as HM.
  (* the table after the call: slot s is dead, every other slot is as before *)
  unfold step in Hs. cbn [exec] in Hs.
  set (ms0 := m_mems (v_m v)) in *. set (v0 := set_m v (clear_calls (set_fault (v_m v) f 0))) in *.
  assert (Hms : forall m ff n, mach_sameA c m (clear_calls (set_fault m ff n))).
  { intros m ff n. eapply (mach_sameA_trans c Hc Hmax Hlarge); [apply (mach_sameA_set_fault c Hc Hmax Hlarge)|apply (mach_sameA_clear c Hc Hmax Hlarge)]. }
  assert (I0 : VamMapStep.VamInvM c ms0 v0 [] []).
  { split; [apply (VamAcctStep.VamInvA_mach_same c Hc Hmax Hlarge); [exact HI|apply Hms]|].
    split; [apply (MapInv_sub v []); [exact HM|reflexivity|apply blocks_sub_eq; intros; apply get_blist_set_m|apply deds_sub_nil; apply tab_frame_set_m]|].
    unfold LogOk, v0, ms0. cbn. constructor. }
  unfold allocation_free in Hs. assert (Ea : a_allocated (get_alloc v0 s) = true) by (unfold v0, get_alloc; cbn; rewrite (proj1 Sa); apply Sa).
  rewrite Ea in Hs. cbn [negb] in Hs.
  assert (Hnd : NoDup [s]) by (constructor; [intros []|constructor]).
  assert (Hlive : live_slots v0 [] [s]) by (intros x [<-|[]]; split; [intros []|exists (get_alloc v0 s); apply get_alloc_allocated; auto]).
  pose proof (VamMapStep2.multi_free_inv c Hc Hmax Hlarge ms0 [s] v0 [] I0 Hnd Hlive) as P.
  destruct (multi_free c v0 [s]) as (v1 & r1). destruct r1 as [[]|code| |]; try discriminate. injection Hs as <- _.
  destruct P as (_ & T1 & _ & D1). destruct (D1 s (or_introl eq_refl)) as (_ & Hdead).
  assert (Hz : zlen (v_tab (set_m v1 (clear_calls (set_fault (v_m v1) no_fault (m_fired (v_m v1)))))) = zlen (v_tab v)) by (destruct T1 as (E & _); exact E).
  rewrite (refs_truth_upd v G [] _ G [] (a_mem a) s Hz (slot_is_range _ _ _ Sa)).
  - rewrite (users_live v G [] (a_mem a) s); try (rewrite (get_alloc_slot _ _ _ Sa); auto); [|apply Sa|intros []].
    rewrite (users_dead _ G [] (a_mem a) s) by (unfold get_alloc in *; cbn [v_tab set_m]; exact Hdead).
    rewrite HG0. unfold pcount. lia.
  - intros s' _ Hne. apply users_same; [|reflexivity|tauto]. unfold get_alloc. cbn [v_tab set_m].
    destruct T1 as (_ & F). rewrite (F s') by (intros [E|[]]; congruence). reflexivity.
Qed.

End WithCfg.
