(* VamInv.v — the representation invariant of the whole-allocator model (structure, ownership of device
   memory, correspondence between the callers' Allocation objects and the block metadata) and the lookup /
   update algebra of the state.  Preservation proofs are in VamInvStep*.v. *)
From Coq Require Import ZArith NArith List Bool Lia.
From Arsenal Require Util Bits SyncMem Budget.
From Arsenal Require Import VamDev VamBlockList VamInvMeta.
Import ListNotations.
Open Scope Z_scope.

(* ---------------------------------------------------------------- configuration domain *)

(* what vam.New checks or the Vulkan specification guarantees; 2^39 is the size bound of the TLSF model
   (uint32 free-list bitmap, see Tlsf.v) *)
Record cfg_ok (c : vcfg) : Prop := mkCfgOk {
  co_heaps : Forall (fun h => 0 <= h_size h < 2 ^ 39) (c_heaps c);
  co_types : Forall (fun t => 0 <= ty_heap t < nheaps c) (c_types c);
  co_gran : c_gran c < 1 \/ Bits.pow2 (c_gran c);
  co_gran_max : c_gran c <= 4294967296;      (* the page counters of the granularity bookkeeping are uint32 *)
  co_atom : c_atom c < 1 \/ Bits.pow2 (c_atom c)
}.

(* ---------------------------------------------------------------- the invariant *)

Record blist_wf (c : vcfg) (l : blist) : Prop := mkBlistWf {
  bw_nodup : NoDup (map bk_id (bl_blocks l));
  bw_ids : Forall (fun b => 0 <= bk_id b < bl_next l) (bl_blocks l);
  bw_meta : Forall (fun b => MInv (bk_meta b)) (bl_blocks l);
  bw_type : type_valid c (bl_type l) = true;
  bw_align : Bits.pow2 (bl_minalign l);
  bw_gran : Bits.pow2 (bl_gran l);
  bw_next : 0 <= bl_next l;
  (* every block was created with the list's granularity and keeps it *)
  bw_g : Forall (fun b => meta_g (bk_meta b) = bl_gran l) (bl_blocks l);
  (* the list's granularity is the device's bufferImageGranularity (Vam.eff_granularity), or 1 for a pool
     created with IgnoreBufferImageGranularity *)
  bw_gran_src : bl_gran l = 1 \/ bl_gran l = (if c_gran c <? 1 then 1 else c_gran c);
  (* the list's minimum alignment covers the non-coherent atom size of its memory type (Vam.type_min_alignment) *)
  bw_minalign : (if non_coherent c (bl_type l) then (if c_atom c <? 1 then 1 else c_atom c) else 1) <= bl_minalign l
}.

(* slot s holds a, allocated *)
Definition slot_is (v : vam) (s : Z) (a : alloc) : Prop := nth_z (v_tab v) s = Some a /\ a_allocated a = true.

(* a block allocation points at a live region of its block *)
Definition block_alloc_ok (v : vam) (s : Z) (a : alloc) : Prop :=
  exists l b rg,
    get_blist v (a_lref a) = Some l /\ In b (bl_blocks l) /\ bk_id b = a_blk a /\
    In rg (meta_live (bk_meta b)) /\ rg_handle rg = a_handle a /\ rg_tag rg = Some s /\
    rg_size rg = a_size a /\ rg_align rg = a_align a /\
    a_mem a = bk_mem b /\ a_type a = bl_type l.

(* a dedicated allocation owns a live memory object of its type and size; [unreg]: not yet registered *)
Definition ded_alloc_ok (v : vam) (unreg : list Z) (s : Z) (a : alloc) : Prop :=
  (In s (get_dedlist v (a_lref a)) \/ In s unreg) /\
  (exists l, get_blist v (a_lref a) = Some l /\ bl_type l = a_type a) /\
  exists d, find_mem (m_mems (v_m v)) (a_mem a) = Some d /\ dm_type d = a_type a /\ dm_size d = a_size a.

(* [unreg]: dedicated allocations made but not yet registered in their list; [dang]: block allocations whose
   region has been released but whose object has not been marked unallocated yet (inside Free) *)
Record VamInvU (c : vcfg) (v : vam) (unreg dang : list Z) : Prop := mkVamInv {
  (* shape *)
  vi_lists_len : length (v_lists v) = length (c_types c);
  vi_ded_len : length (v_ded v) = length (c_types c);
  vi_def_type : forall t l, get_blist v (LDef t) = Some l -> bl_type l = t;
  vi_lists : forall lr l, get_blist v lr = Some l -> blist_wf c l;
  vi_pools_nodup : NoDup (map p_uid (v_pools v));
  vi_pools_uid : Forall (fun p => p_uid p < v_next_uid v) (v_pools v);
  vi_pools_id : NoDup (map p_id (v_pools v)) /\ Forall (fun p => p_id p < v_next_pool_id v) (v_pools v);
  (* device *)
  vi_dev_nodup : NoDup (map dm_id (m_mems (v_m v)));
  vi_dev_next : Forall (fun d => 0 < dm_id d <= m_next (v_m v)) (m_mems (v_m v));
  (* ownership *)
  vi_block_mem : forall lr l b, get_blist v lr = Some l -> In b (bl_blocks l) ->
      exists d, find_mem (m_mems (v_m v)) (bk_mem b) = Some d /\ dm_type d = bl_type l /\
                dm_size d = meta_size (bk_meta b);
  vi_block_mem_inj : forall lr1 l1 b1 lr2 l2 b2,
      get_blist v lr1 = Some l1 -> In b1 (bl_blocks l1) -> get_blist v lr2 = Some l2 -> In b2 (bl_blocks l2) ->
      bk_mem b1 = bk_mem b2 -> lr1 = lr2 /\ bk_id b1 = bk_id b2;
  vi_ded_not_block : forall s a lr l b, slot_is v s a -> a_kind a = 2 ->
      get_blist v lr = Some l -> In b (bl_blocks l) -> a_mem a <> bk_mem b;
  vi_ded_inj : forall s1 a1 s2 a2, slot_is v s1 a1 -> a_kind a1 = 2 -> slot_is v s2 a2 -> a_kind a2 = 2 ->
      a_mem a1 = a_mem a2 -> s1 = s2;
  vi_dev_owned : forall d, In d (m_mems (v_m v)) ->
      (exists lr l b, get_blist v lr = Some l /\ In b (bl_blocks l) /\ bk_mem b = dm_id d) \/
      (exists s a, slot_is v s a /\ a_kind a = 2 /\ a_mem a = dm_id d);
  (* Allocation objects <-> metadata *)
  vi_slots : forall s a, slot_is v s a -> ~ In s dang ->
      (a_kind a = 1 /\ block_alloc_ok v s a) \/ (a_kind a = 2 /\ ded_alloc_ok v unreg s a);
  vi_tags : forall lr l b rg, get_blist v lr = Some l -> In b (bl_blocks l) -> In rg (meta_live (bk_meta b)) ->
      exists s a, rg_tag rg = Some s /\ slot_is v s a /\ a_kind a = 1 /\ a_lref a = lr /\ a_blk a = bk_id b /\
                  a_handle a = rg_handle rg;
  vi_dedlists : forall lr s, In s (get_dedlist v lr) ->
      exists a, slot_is v s a /\ a_kind a = 2 /\ a_lref a = lr;
  vi_dedlists_nodup : forall lr, NoDup (get_dedlist v lr);
  vi_unreg : forall s, In s unreg -> exists a, slot_is v s a /\ a_kind a = 2 /\ ~ In s (get_dedlist v (a_lref a));
  vi_dang : forall s, In s dang -> exists a, slot_is v s a /\ a_kind a = 1;
  vi_dang_tags : forall s lr l b rg, In s dang -> get_blist v lr = Some l -> In b (bl_blocks l) ->
      In rg (meta_live (bk_meta b)) -> rg_tag rg <> Some s;
  vi_next_nonneg : 0 <= m_next (v_m v);
  vi_dev_pos : Forall (fun d => 0 < dm_size d) (m_mems (v_m v));
  (* the alignment recorded in a block allocation is a power of two *)
  vi_align : forall s a, slot_is v s a -> a_kind a = 1 -> Bits.pow2 (a_align a);
  (* ... and at least the minimum alignment of its block list *)
  vi_minalign : forall s a l, slot_is v s a -> ~ In s dang -> a_kind a = 1 -> get_blist v (a_lref a) = Some l -> bl_minalign l <= a_align a
}.

Definition VamInv (c : vcfg) (v : vam) : Prop := VamInvU c v [] [].

(* ---------------------------------------------------------------- list algebra *)

Lemma NoDup_app_intro_z {A} (a b : list A) :
  NoDup a -> NoDup b -> (forall x, In x a -> ~ In x b) -> NoDup (a ++ b).
Proof.
  induction a as [|x a IH]; intros Ha Hb Hd; cbn; auto.
  inversion Ha as [|? ? Hx Ha']; subst. constructor.
  - rewrite in_app_iff. intros [H|H]; [auto|]. apply (Hd x); [left; auto|auto].
  - apply IH; auto. intros y Hy. apply Hd. right; auto.
Qed.


Lemma nth_z_set_same {A} (l : list A) i x : 0 <= i < zlen l -> nth_z (set_nth_z l i x) i = Some x.
Proof.
  unfold nth_z, set_nth_z, zlen. intros H. destruct (i <? 0) eqn:E; [lia|].
  assert (Hn : (Z.to_nat i < length l)%nat) by lia. clear H E.
  revert l Hn. induction (Z.to_nat i) as [|n IH]; intros [|y l] Hn; cbn in *; try lia; auto.
  apply IH. lia.
Qed.

Lemma nth_z_set_other {A} (l : list A) i j x : i <> j -> nth_z (set_nth_z l i x) j = nth_z l j.
Proof.
  unfold nth_z, set_nth_z. intros H. destruct (j <? 0) eqn:Ej; [reflexivity|].
  destruct (i <? 0) eqn:Ei; [reflexivity|].
  assert (Hn : Z.to_nat i <> Z.to_nat j) by lia. clear H Ei Ej.
  revert l Hn. generalize (Z.to_nat j). induction (Z.to_nat i) as [|n IH]; intros [|m] [|y l] Hn; cbn; try lia; auto.
Qed.

Lemma set_nth_z_length {A} (l : list A) i x : length (set_nth_z l i x) = length l.
Proof.
  unfold set_nth_z. destruct (i <? 0); [reflexivity|].
  revert l. induction (Z.to_nat i) as [|n IH]; intros [|y l]; cbn; auto.
Qed.

Lemma nth_z_some_range {A} (l : list A) i x : nth_z l i = Some x -> 0 <= i < zlen l.
Proof.
  unfold nth_z, zlen. destruct (i <? 0) eqn:E; [discriminate|]. intros H.
  assert (nth_error l (Z.to_nat i) <> None) by congruence. apply nth_error_Some in H0. lia.
Qed.

Lemma nth_z_set_none {A} (l : list A) i x : nth_z l i = None -> nth_z (set_nth_z l i x) i = None.
Proof.
  unfold nth_z. destruct (i <? 0) eqn:E; [reflexivity|]. intros H. apply nth_error_None in H.
  apply nth_error_None. rewrite set_nth_z_length. exact H.
Qed.

Lemma nth_z_in {A} (l : list A) i x : nth_z l i = Some x -> In x l.
Proof. unfold nth_z. destruct (i <? 0); [discriminate|]. apply nth_error_In. Qed.

(* blocks *)
Lemma find_block_in bs id b : find_block bs id = Some b -> In b bs /\ bk_id b = id.
Proof.
  induction bs as [|x bs IH]; cbn; [discriminate|]. destruct (bk_id x =? id) eqn:E.
  - intros H; injection H as <-. split; [left; reflexivity|lia].
  - intros H. destruct (IH H). auto.
Qed.

Lemma in_find_block bs b : NoDup (map bk_id bs) -> In b bs -> find_block bs (bk_id b) = Some b.
Proof.
  induction bs as [|x bs IH]; cbn; [tauto|]. intros Hnd [->|Hin].
  - rewrite Z.eqb_refl. reflexivity.
  - inversion Hnd as [|? ? Hx Hr]; subst. destruct (bk_id x =? bk_id b) eqn:E.
    + exfalso. apply Hx. apply Z.eqb_eq in E. rewrite E. apply in_map. exact Hin.
    + apply IH; auto.
Qed.

Lemma replace_block_ids bs nb : map bk_id (replace_block bs nb) = map bk_id bs.
Proof.
  induction bs as [|x bs IH]; cbn; [reflexivity|]. destruct (bk_id x =? bk_id nb) eqn:E; cbn.
  - apply Z.eqb_eq in E. rewrite E. reflexivity.
  - rewrite IH. reflexivity.
Qed.

Lemma in_replace_block bs nb b :
  NoDup (map bk_id bs) -> In b (replace_block bs nb) ->
  (b = nb /\ In (bk_id nb) (map bk_id bs)) \/ (In b bs /\ bk_id b <> bk_id nb).
Proof.
  induction bs as [|x bs IH]; cbn; [tauto|]. intros Hnd. inversion Hnd as [|? ? Hx Hr]; subst.
  destruct (bk_id x =? bk_id nb) eqn:E; cbn.
  - apply Z.eqb_eq in E. intros [<-|Hin].
    + left. split; [reflexivity|left; exact E].
    + right. split; [right; exact Hin|]. intros Heq. apply Hx. rewrite E, <- Heq. apply in_map. exact Hin.
  - apply Z.eqb_neq in E. intros [<-|Hin].
    + right. split; [left; reflexivity|exact E].
    + destruct (IH Hr Hin) as [(-> & Hi)|(Hi & Hne)]; [left; split; [reflexivity|right; exact Hi]|right; split; [right; exact Hi|exact Hne]].
Qed.

Lemma replace_block_in bs nb :
  In (bk_id nb) (map bk_id bs) -> In nb (replace_block bs nb).
Proof.
  induction bs as [|x bs IH]; cbn; [tauto|]. destruct (bk_id x =? bk_id nb) eqn:E; cbn.
  - intros _. left. reflexivity.
  - apply Z.eqb_neq in E. intros [H|H]; [contradiction|]. right. apply IH. exact H.
Qed.

Lemma replace_block_keeps bs nb b : In b bs -> bk_id b <> bk_id nb -> In b (replace_block bs nb).
Proof.
  induction bs as [|x bs IH]; cbn; [tauto|]. intros [->|Hin] Hne.
  - destruct (bk_id b =? bk_id nb) eqn:E; [apply Z.eqb_eq in E; contradiction|]. left. reflexivity.
  - destruct (bk_id x =? bk_id nb); right; [|apply IH; auto].
    (* the replaced head: b is in the tail *) exact Hin.
Qed.

Lemma in_remove_block bs id b : In b (remove_block bs id) -> In b bs.
Proof.
  induction bs as [|x bs IH]; cbn; [tauto|]. destruct (bk_id x =? id); [intros H; right; exact H|].
  intros [->|H]; [left; reflexivity|right; apply IH; exact H].
Qed.

Lemma in_remove_block_ne bs id b : NoDup (map bk_id bs) -> In b (remove_block bs id) -> bk_id b <> id.
Proof.
  induction bs as [|x bs IH]; cbn; [tauto|]. intros Hnd. inversion Hnd as [|? ? Hx Hr]; subst.
  destruct (bk_id x =? id) eqn:E.
  - apply Z.eqb_eq in E. intros Hin Heq. apply Hx. rewrite E, <- Heq. apply in_map. exact Hin.
  - apply Z.eqb_neq in E. intros [<-|H]; [exact E|apply IH; auto].
Qed.

Lemma remove_block_keeps bs id b : In b bs -> bk_id b <> id -> In b (remove_block bs id).
Proof.
  induction bs as [|x bs IH]; cbn; [tauto|]. intros [->|Hin] Hne.
  - destruct (bk_id b =? id) eqn:E; [apply Z.eqb_eq in E; contradiction|]. left. reflexivity.
  - destruct (bk_id x =? id); [exact Hin|right; apply IH; auto].
Qed.

Lemma remove_block_nodup bs id : NoDup (map bk_id bs) -> NoDup (map bk_id (remove_block bs id)).
Proof.
  induction bs as [|x bs IH]; cbn; [auto|]. intros Hnd. inversion Hnd as [|? ? Hx Hr]; subst.
  destruct (bk_id x =? id); [exact Hr|]. cbn. constructor; [|apply IH; exact Hr].
  intros Hin. apply Hx. apply in_map_iff in Hin. destruct Hin as (y & Hy & Hiy).
  rewrite <- Hy. apply in_map. eapply in_remove_block; eauto.
Qed.

(* pools *)
Lemma find_pool_in ps uid p : find_pool ps uid = Some p -> In p ps /\ p_uid p = uid.
Proof.
  induction ps as [|x ps IH]; cbn; [discriminate|]. destruct (p_uid x =? uid) eqn:E.
  - intros H; injection H as <-. split; [left; reflexivity|lia].
  - intros H. destruct (IH H). auto.
Qed.

Lemma find_replace_pool_same ps np :
  find_pool ps (p_uid np) <> None -> find_pool (replace_pool ps np) (p_uid np) = Some np.
Proof.
  induction ps as [|x ps IH]; cbn; [congruence|]. destruct (p_uid x =? p_uid np) eqn:E; cbn.
  - rewrite Z.eqb_refl. reflexivity.
  - rewrite E. exact IH.
Qed.

Lemma find_replace_pool_other ps np uid :
  uid <> p_uid np -> find_pool (replace_pool ps np) uid = find_pool ps uid.
Proof.
  intros Hne. induction ps as [|x ps IH]; cbn; [reflexivity|]. destruct (p_uid x =? p_uid np) eqn:E; cbn.
  - apply Z.eqb_eq in E. destruct (p_uid np =? uid) eqn:E1; [lia|]. destruct (p_uid x =? uid) eqn:E2; [lia|]. reflexivity.
  - destruct (p_uid x =? uid); [reflexivity|exact IH].
Qed.

Lemma replace_pool_uids ps np : map p_uid (replace_pool ps np) = map p_uid ps.
Proof.
  induction ps as [|x ps IH]; cbn; [reflexivity|]. destruct (p_uid x =? p_uid np) eqn:E; cbn.
  - apply Z.eqb_eq in E. rewrite E. reflexivity.
  - rewrite IH. reflexivity.
Qed.

(* ---------------------------------------------------------------- get / set of block lists *)

Lemma lref_eqb_eq a b : lref_eqb a b = true <-> a = b.
Proof.
  destruct a, b; cbn; split; intros H; try discriminate; try (apply Z.eqb_eq in H; congruence);
    try (injection H as ->; apply Z.eqb_refl).
Qed.

Lemma lref_eq_dec (a b : lref) : {a = b} + {a <> b}.
Proof. decide equality; apply Z.eq_dec. Qed.

Lemma get_set_blist_same v lr l0 l : get_blist v lr = Some l0 -> get_blist (set_blist v lr l) lr = Some l.
Proof.
  destruct lr as [t|uid]; cbn.
  - destruct (nth_z (v_lists v) t) as [[x|]|] eqn:E; try discriminate. intros _.
    rewrite nth_z_set_same; [reflexivity|]. eapply nth_z_some_range; eauto.
  - destruct (find_pool (v_pools v) uid) as [p|] eqn:E; [|discriminate]. intros _. cbn.
    destruct (find_pool_in _ _ _ E) as (_ & Hu). subst uid.
    pose proof (find_replace_pool_same (v_pools v) (mkPool (p_uid p) (p_id p) l (p_ded p))) as H.
    cbn in H. rewrite H; [reflexivity|congruence].
Qed.

Lemma get_set_blist_other v lr l lr' : lr <> lr' -> get_blist (set_blist v lr l) lr' = get_blist v lr'.
Proof.
  intros Hne. destruct lr as [t|uid], lr' as [t'|uid']; cbn.
  - rewrite nth_z_set_other; [reflexivity|congruence].
  - reflexivity.
  - destruct (find_pool (v_pools v) uid); reflexivity.
  - destruct (find_pool (v_pools v) uid) as [p|] eqn:E; [|reflexivity]. cbn.
    destruct (find_pool_in _ _ _ E) as (_ & Hu).
    rewrite find_replace_pool_other; [reflexivity|]. cbn. congruence.
Qed.

Lemma set_blist_tab v lr l : v_tab (set_blist v lr l) = v_tab v.
Proof. destruct lr; cbn; [reflexivity|]. destruct (find_pool _ _); reflexivity. Qed.

Lemma set_blist_m v lr l : v_m (set_blist v lr l) = v_m v.
Proof. destruct lr; cbn; [reflexivity|]. destruct (find_pool _ _); reflexivity. Qed.

Lemma set_blist_dedlist v lr l lr' : get_dedlist (set_blist v lr l) lr' = get_dedlist v lr'.
Proof.
  destruct lr as [t|uid], lr' as [t'|uid']; cbn; try reflexivity.
  - destruct (find_pool (v_pools v) uid); reflexivity.
  - destruct (find_pool (v_pools v) uid) as [p|] eqn:E; [|reflexivity]. cbn.
    destruct (find_pool_in _ _ _ E) as (_ & Hu).
    destruct (Z.eq_dec uid' uid) as [->|Hne].
    + subst uid. pose proof (find_replace_pool_same (v_pools v) (mkPool (p_uid p) (p_id p) l (p_ded p))) as H.
      cbn in H. rewrite H, E; [reflexivity|congruence].
    + rewrite find_replace_pool_other; [reflexivity|]. cbn. congruence.
Qed.

(* ---------------------------------------------------------------- what set_blist leaves alone *)

Lemma set_blist_lists_len v lr l : length (v_lists (set_blist v lr l)) = length (v_lists v).
Proof. destruct lr; cbn; [apply set_nth_z_length|]. destruct (find_pool _ _); reflexivity. Qed.

Lemma set_blist_ded v lr l : v_ded (set_blist v lr l) = v_ded v.
Proof. destruct lr; cbn; [reflexivity|]. destruct (find_pool _ _); reflexivity. Qed.

Lemma set_blist_uids v lr l : map p_uid (v_pools (set_blist v lr l)) = map p_uid (v_pools v).
Proof. destruct lr; cbn; [reflexivity|]. destruct (find_pool _ _); cbn; [apply replace_pool_uids|reflexivity]. Qed.

Lemma replace_pool_ids ps np p0 :
  find_pool ps (p_uid np) = Some p0 -> p_id np = p_id p0 -> map p_id (replace_pool ps np) = map p_id ps.
Proof.
  induction ps as [|x ps IH]; cbn; [reflexivity|]. destruct (p_uid x =? p_uid np) eqn:E; cbn.
  - intros H Hid; injection H as ->. rewrite Hid. reflexivity.
  - intros H Hid. rewrite IH; auto.
Qed.

Lemma set_blist_pids v lr l : map p_id (v_pools (set_blist v lr l)) = map p_id (v_pools v).
Proof.
  destruct lr as [t|uid]; cbn; [reflexivity|]. destruct (find_pool _ _) as [p|] eqn:E; cbn; [|reflexivity].
  destruct (find_pool_in _ _ _ E) as (_ & Hu). subst uid. eapply replace_pool_ids; cbn; eauto.
Qed.

Lemma set_blist_next_uid v lr l : v_next_uid (set_blist v lr l) = v_next_uid v.
Proof. destruct lr; cbn; [reflexivity|]. destruct (find_pool _ _); reflexivity. Qed.

Lemma set_blist_next_pid v lr l : v_next_pool_id (set_blist v lr l) = v_next_pool_id v.
Proof. destruct lr; cbn; [reflexivity|]. destruct (find_pool _ _); reflexivity. Qed.

Lemma get_set_blist_cases v lr l0 l' lr1 l1 :
  get_blist v lr = Some l0 -> get_blist (set_blist v lr l') lr1 = Some l1 ->
  (lr1 = lr /\ l1 = l') \/ (lr1 <> lr /\ get_blist v lr1 = Some l1).
Proof.
  intros H0 H1. destruct (lref_eq_dec lr1 lr) as [->|Hne].
  - left. rewrite (get_set_blist_same _ _ _ _ H0) in H1. injection H1 as <-. auto.
  - right. rewrite get_set_blist_other in H1 by congruence. auto.
Qed.

Lemma slot_is_set_blist v lr l s a : slot_is (set_blist v lr l) s a <-> slot_is v s a.
Proof. unfold slot_is. rewrite set_blist_tab. tauto. Qed.

Lemma Forall_map_eq {A B} (f : A -> B) (P : B -> Prop) (Q : A -> Prop) l l' :
  map f l = map f l' -> (forall x, Q x <-> P (f x)) -> Forall Q l -> Forall Q l'.
Proof.
  intros Hm HQ H. apply Forall_forall. intros x Hx. apply HQ.
  assert (In (f x) (map f l)) by (rewrite Hm; apply in_map; exact Hx).
  apply in_map_iff in H0. destruct H0 as (y & Hy & Hiy). rewrite <- Hy. apply HQ.
  rewrite Forall_forall in H. auto.
Qed.

(* ---------------------------------------------------------------- replacing a list by an equivalent one *)

(* the blocks keep identity, memory, size and live regions (mapping state, free-list order, position may change) *)
Definition block_same (b b' : block) : Prop :=
  bk_id b = bk_id b' /\ bk_mem b = bk_mem b' /\ meta_live (bk_meta b) = meta_live (bk_meta b') /\
  meta_size (bk_meta b) = meta_size (bk_meta b') /\ meta_g (bk_meta b) = meta_g (bk_meta b').

Definition blocks_equiv (bs bs' : list block) : Prop :=
  (forall b, In b bs -> exists b', In b' bs' /\ block_same b b') /\
  (forall b', In b' bs' -> exists b, In b bs /\ block_same b b').

Lemma blocks_equiv_refl bs : blocks_equiv bs bs.
Proof. split; intros b Hb; exists b; unfold block_same; auto 6. Qed.

Lemma VamInvU_set_equiv c v U X lr l0 l' :
  VamInvU c v U X -> get_blist v lr = Some l0 ->
  blist_wf c l' -> bl_type l' = bl_type l0 -> bl_minalign l' = bl_minalign l0 -> blocks_equiv (bl_blocks l0) (bl_blocks l') ->
  VamInvU c (set_blist v lr l') U X.
Proof.
  intros HI H0 Hwf Hty Hma (Hfw & Hbw).
  assert (Hcases := get_set_blist_cases v lr l0 l').
  destruct HI. constructor.
  - rewrite set_blist_lists_len. auto.
  - rewrite set_blist_ded. auto.
  - intros t l H. destruct (Hcases _ _ H0 H) as [(E & ->)|(Hne & Hg)]; [subst lr; rewrite Hty; eauto|eauto].
  - intros lr1 l1 H. destruct (Hcases _ _ H0 H) as [(-> & ->)|(Hne & Hg)]; eauto.
  - rewrite set_blist_uids. auto.
  - rewrite set_blist_next_uid. eapply Forall_map_eq with (f := p_uid) (P := fun u => u < v_next_uid v);
      [symmetry; apply set_blist_uids|reflexivity|exact vi_pools_uid0].
  - rewrite set_blist_pids, set_blist_next_pid. destruct vi_pools_id0 as (Hn & Hf). split; [auto|].
    eapply Forall_map_eq with (f := p_id) (P := fun u => u < v_next_pool_id v);
      [symmetry; apply set_blist_pids|reflexivity|exact Hf].
  - rewrite set_blist_m. auto.
  - rewrite set_blist_m. auto.
  - rewrite set_blist_m. intros lr1 l1 b H Hb. destruct (Hcases _ _ H0 H) as [(-> & ->)|(Hne & Hg)].
    + destruct (Hbw _ Hb) as (b0 & Hb0 & _ & Hm & _ & Hs & _). rewrite <- Hm, <- Hs, Hty. eauto.
    + eauto.
  - intros lr1 l1 b1 lr2 l2 b2 H1 Hb1 H2 Hb2 Hm.
    destruct (Hcases _ _ H0 H1) as [(-> & ->)|(Hne1 & Hg1)]; destruct (Hcases _ _ H0 H2) as [(-> & ->)|(Hne2 & Hg2)].
    + destruct (Hbw _ Hb1) as (c1 & Hc1 & Hi1 & Hm1 & _). destruct (Hbw _ Hb2) as (c2 & Hc2 & Hi2 & Hm2 & _).
      destruct (vi_block_mem_inj0 _ _ _ _ _ _ H0 Hc1 H0 Hc2 ltac:(congruence)). split; [auto|congruence].
    + destruct (Hbw _ Hb1) as (c1 & Hc1 & Hi1 & Hm1 & _).
      destruct (vi_block_mem_inj0 _ _ _ _ _ _ H0 Hc1 Hg2 Hb2 ltac:(congruence)). congruence.
    + destruct (Hbw _ Hb2) as (c2 & Hc2 & Hi2 & Hm2 & _).
      destruct (vi_block_mem_inj0 _ _ _ _ _ _ Hg1 Hb1 H0 Hc2 ltac:(congruence)). congruence.
    + eauto.
  - intros s a lr1 l1 b Hs Hk H Hb. apply (proj1 (slot_is_set_blist _ _ _ _ _)) in Hs.
    destruct (Hcases _ _ H0 H) as [(-> & ->)|(Hne & Hg)].
    + destruct (Hbw _ Hb) as (b0 & Hb0 & _ & Hm & _). rewrite <- Hm. eauto.
    + eauto.
  - intros s1 a1 s2 a2 H1 K1 H2 K2. apply (proj1 (slot_is_set_blist _ _ _ _ _)) in H1. apply (proj1 (slot_is_set_blist _ _ _ _ _)) in H2. eauto.
  - rewrite set_blist_m. intros d Hd. destruct (vi_dev_owned0 d Hd) as [(lr1 & l1 & b & Hg & Hb & Hm)|(s & a & Hs & Hk & Hm)].
    + left. destruct (lref_eq_dec lr1 lr) as [->|Hne].
      * assert (l1 = l0) by congruence. subst l1. destruct (Hfw _ Hb) as (b' & Hb' & _ & Hm' & _).
        exists lr, l', b'. split; [eapply get_set_blist_same; eauto|]. split; [auto|congruence].
      * exists lr1, l1, b. rewrite get_set_blist_other by congruence. auto.
    + right. exists s, a. split; [apply slot_is_set_blist; auto|auto].
  - intros s a Hs HX. apply (proj1 (slot_is_set_blist _ _ _ _ _)) in Hs. destruct (vi_slots0 s a Hs HX) as [(Hk & Hok)|(Hk & Hok)].
    + left. split; [auto|]. destruct Hok as (l & b & rg & Hg & Hb & Hid & Hrg & R).
      destruct (lref_eq_dec (a_lref a) lr) as [E|Hne].
      * rewrite E in Hg. assert (l = l0) by congruence. subst l.
        destruct (Hfw _ Hb) as (b' & Hb' & Hi' & Hm' & Hl' & _).
        exists l', b', rg. rewrite E. split; [eapply get_set_blist_same; eauto|].
        split; [auto|]. split; [congruence|]. split; [rewrite <- Hl'; auto|].
        destruct R as (R1 & R2 & R3 & R4 & R5 & R6). repeat split; auto; congruence.
      * exists l, b, rg. rewrite get_set_blist_other by congruence. auto.
    + right. split; [auto|]. destruct Hok as (Hd & (l & Hg & Ht) & Hdev). split; [|split].
      * rewrite set_blist_dedlist. auto.
      * destruct (lref_eq_dec (a_lref a) lr) as [E|Hne].
        -- exists l'. rewrite E. split; [eapply get_set_blist_same; eauto|]. rewrite E in Hg. congruence.
        -- exists l. rewrite get_set_blist_other by congruence. auto.
      * rewrite set_blist_m. auto.
  - intros lr1 l1 b rg H Hb Hrg. destruct (Hcases _ _ H0 H) as [(-> & ->)|(Hne & Hg)].
    + destruct (Hbw _ Hb) as (b0 & Hb0 & Hi & _ & Hl & _). rewrite <- Hl in Hrg.
      destruct (vi_tags0 _ _ _ _ H0 Hb0 Hrg) as (s & a & R). exists s, a. rewrite <- Hi. destruct R as (R1 & R2 & R3). split; [auto|]. split; [apply slot_is_set_blist; auto|auto].
    + destruct (vi_tags0 _ _ _ _ Hg Hb Hrg) as (s & a & R). exists s, a. destruct R as (R1 & R2 & R3). split; [auto|]. split; [apply slot_is_set_blist; auto|auto].
  - intros lr1 s Hs. rewrite set_blist_dedlist in Hs. destruct (vi_dedlists0 _ _ Hs) as (a & R1 & R). exists a.
    split; [apply slot_is_set_blist; auto|auto].
  - intros lr1. rewrite set_blist_dedlist. auto.
  - intros s Hs. destruct (vi_unreg0 _ Hs) as (a & R1 & R2 & R3). exists a. split; [apply slot_is_set_blist; auto|].
    split; [auto|]. rewrite set_blist_dedlist. auto.
  - intros s Hs. destruct (vi_dang0 _ Hs) as (a & R1 & R). exists a. split; [apply slot_is_set_blist; auto|auto].
  - intros s lr1 l1 b rg Hs H Hb Hrg. destruct (Hcases _ _ H0 H) as [(-> & ->)|(Hne & Hg)].
    + destruct (Hbw _ Hb) as (b0 & Hb0 & _ & _ & Hl & _). rewrite <- Hl in Hrg. eauto.
    + eauto.
  - rewrite set_blist_m. auto.
  - rewrite set_blist_m. auto.
  - intros s a Hs Hk. apply (proj1 (slot_is_set_blist _ _ _ _ _)) in Hs. eauto.
  - intros s a l1 Hs HX Hk H. apply (proj1 (slot_is_set_blist _ _ _ _ _)) in Hs.
    destruct (Hcases _ _ H0 H) as [(E & ->)|(Hne & Hg)]; [rewrite Hma; apply (vi_minalign0 s a l0 Hs HX Hk); rewrite E; exact H0|eauto].
Qed.

(* all fields of the invariant under fixed names *)
Ltac inv_fields HI :=
  pose proof (vi_lists_len _ _ _ _ HI) as I_ll; pose proof (vi_ded_len _ _ _ _ HI) as I_dl;
  pose proof (vi_def_type _ _ _ _ HI) as I_dt; pose proof (vi_lists _ _ _ _ HI) as I_wf;
  pose proof (vi_pools_nodup _ _ _ _ HI) as I_pn; pose proof (vi_pools_uid _ _ _ _ HI) as I_pu;
  pose proof (vi_pools_id _ _ _ _ HI) as I_pi; pose proof (vi_dev_nodup _ _ _ _ HI) as I_dn;
  pose proof (vi_dev_next _ _ _ _ HI) as I_dx; pose proof (vi_block_mem _ _ _ _ HI) as I_bm;
  pose proof (vi_block_mem_inj _ _ _ _ HI) as I_bi; pose proof (vi_ded_not_block _ _ _ _ HI) as I_db;
  pose proof (vi_ded_inj _ _ _ _ HI) as I_di; pose proof (vi_dev_owned _ _ _ _ HI) as I_do;
  pose proof (vi_slots _ _ _ _ HI) as I_sl; pose proof (vi_tags _ _ _ _ HI) as I_tg;
  pose proof (vi_dedlists _ _ _ _ HI) as I_dd; pose proof (vi_dedlists_nodup _ _ _ _ HI) as I_dnd;
  pose proof (vi_unreg _ _ _ _ HI) as I_ur; pose proof (vi_dang _ _ _ _ HI) as I_dg;
  pose proof (vi_dang_tags _ _ _ _ HI) as I_dt2; pose proof (vi_next_nonneg _ _ _ _ HI) as I_nn;
  pose proof (vi_dev_pos _ _ _ _ HI) as I_dp; pose proof (vi_align _ _ _ _ HI) as I_al; pose proof (vi_minalign _ _ _ _ HI) as I_ma.
